/-
Lemmas about the comment-map model (Model/Comment.lean): blocks of short head comments are runs of
consecutive lines, nothing is lost, and the runs are maximal.
-/
import LuaHelper.Model.Comment
namespace LuaHelper.Comment
open LuaHelper.Lex

/-- consecutive line numbers -/
def Consec : List Nat → Prop
  | [] => True
  | [_] => True
  | a :: b :: r => b = a + 1 ∧ Consec (b :: r)

theorem consec_eq_range : ∀ (t : List Nat) (h : Nat), Consec (h :: t) → h :: t = List.range' h (t.length + 1)
  | [], h, _ => by simp [List.range']
  | b :: r, h, hc => by
    obtain ⟨hb, hr⟩ := hc
    have ih := consec_eq_range r b hr
    subst hb
    rw [ih]
    simp [List.range']

/-- a run of consecutive lines contains every line between two of its members -/
theorem consec_between (l : List Nat) (hc : Consec l) (a b x : Nat) (ha : a ∈ l) (hb : b ∈ l)
    (h1 : a ≤ x) (h2 : x ≤ b) : x ∈ l := by
  cases l with
  | nil => cases ha
  | cons h t =>
    rw [consec_eq_range t h hc] at ha hb ⊢
    rw [List.mem_range'_1] at ha hb ⊢
    omega

theorem consec_snoc : ∀ (l : List Nat) (last : Nat), Consec l → l.getLast? = some last → Consec (l ++ [last + 1])
  | [], _, _, h => by simp at h
  | [a], last, _, h => by
    simp at h
    subst h
    exact ⟨rfl, trivial⟩
  | a :: b :: r, last, hc, h => by
    obtain ⟨hb, hr⟩ := hc
    have h' : (b :: r).getLast? = some last := by
      rw [List.getLast?_cons_cons] at h; exact h
    have ih := consec_snoc (b :: r) last hr h'
    exact ⟨hb, ih⟩

def lineNos (ci : CInfo) : List Nat := ci.lines.map Prod.fst

def firstLine (ci : CInfo) : Option Nat := (lineNos ci).head?

/-- no block starts on the line directly after the key of the block before it -/
def Maximal : List (Nat × CInfo) → Prop
  | [] => True
  | [_] => True
  | e1 :: e2 :: r => firstLine e2.2 ≠ some (e1.1 + 1) ∧ Maximal (e2 :: r)

/-- what is known about the current block while a gap of short head comments is scanned -/
structure Cur (ci : CInfo) (last : Nat) : Prop where
  short : ci.short = true
  head : ci.head = true
  consec : Consec (lineNos ci)
  last : (lineNos ci).getLast? = some last

/-- what every emitted entry satisfies -/
structure Block (e : Nat × CInfo) : Prop where
  short : e.2.short = true
  head : e.2.head = true
  consec : Consec (lineNos e.2)
  key : (lineNos e.2).getLast? = some e.1

theorem cur_fresh (prevEnd : Nat) (c : CLine) (hs : c.short = true) (hh : c.line ≠ prevEnd) :
    Cur (fresh prevEnd c) c.endLine := by
  have hne : (prevEnd == c.line) = false := by
    simp only [beq_eq_false_iff_ne]; exact fun h => hh h.symm
  refine ⟨by simp [fresh, hs], by simp [fresh, hne], ?_, ?_⟩ <;> simp [fresh, hs, lineNos, Consec]

theorem not_breaks (ci : CInfo) (last : Nat) (c : CLine) (hci : ci.short = true) (hs : c.short = true)
    (hb : breaks ci last c = false) : c.endLine = last + 1 := by
  simp [breaks, hci, hs] at hb
  exact hb

theorem breaks_ne (ci : CInfo) (last : Nat) (c : CLine) (hci : ci.short = true) (hs : c.short = true)
    (hb : breaks ci last c = true) : c.endLine ≠ last + 1 := by
  simp [breaks, hci, hs] at hb
  exact hb

theorem cur_extend (ci : CInfo) (last : Nat) (c : CLine) (h : Cur ci last) (hs : c.short = true)
    (he : c.endLine = last + 1) : Cur (extend ci c) c.endLine := by
  refine ⟨by simp [extend, hs, h.short], by simp [extend, hs, h.head], ?_, ?_⟩
  · have := consec_snoc (lineNos ci) last h.consec h.last
    simp [extend, hs, lineNos, he] at this ⊢
    exact this
  · simp [extend, hs, lineNos]

/-- the first emitted entry starts with the lines of the current block -/
theorem go_head (prevEnd : Nat) : ∀ (cs : List CLine) (ci : CInfo) (last : Nat),
    ∃ e r suffix, go prevEnd (some ci) last cs = e :: r ∧ e.2.lines = ci.lines ++ suffix
  | [], ci, last => ⟨(last, ci), [], [], by simp [go], by simp⟩
  | c :: cs, ci, last => by
    by_cases hb : breaks ci last c = true
    · exact ⟨(last, ci), go prevEnd (some (fresh prevEnd c)) c.endLine cs, [], by simp [go, hb], by simp⟩
    · obtain ⟨e, r, suf, h1, h2⟩ := go_head prevEnd cs (extend ci c) c.endLine
      refine ⟨e, r, ?_, by simp [go, hb, h1], ?_⟩
      · exact (if c.short then [(c.endLine, c.text)] else []) ++ suf
      · rw [h2]
        unfold extend
        split <;> simp_all

/-- every emitted entry is a block of consecutive lines keyed by its last line -/
theorem go_blocks (prevEnd : Nat) : ∀ (cs : List CLine) (ci : CInfo) (last : Nat),
    Cur ci last → (∀ c ∈ cs, c.short = true) → (∀ c ∈ cs, c.line ≠ prevEnd) →
    ∀ e ∈ go prevEnd (some ci) last cs, Block e
  | [], ci, last, h, _, _, e, he => by
    simp [go] at he
    subst he
    exact ⟨h.short, h.head, h.consec, h.last⟩
  | c :: cs, ci, last, h, hs, hh, e, he => by
    have hsc := hs c (by simp)
    have hhc := hh c (by simp)
    have hs' : ∀ c' ∈ cs, c'.short = true := fun c' hc' => hs c' (by simp [hc'])
    have hh' : ∀ c' ∈ cs, c'.line ≠ prevEnd := fun c' hc' => hh c' (by simp [hc'])
    by_cases hb : breaks ci last c = true
    · simp [go, hb] at he
      rcases he with he | he
      · subst he
        exact ⟨h.short, h.head, h.consec, h.last⟩
      · exact go_blocks prevEnd cs _ _ (cur_fresh prevEnd c hsc hhc) hs' hh' e he
    · simp [go, hb] at he
      have hb' : breaks ci last c = false := by simpa using hb
      exact go_blocks prevEnd cs _ _ (cur_extend ci last c h hsc (not_breaks ci last c h.short hsc hb')) hs' hh' e he

/-- nothing is lost, nothing is duplicated, the order is kept -/
theorem go_concat (prevEnd : Nat) : ∀ (cs : List CLine) (ci : CInfo) (last : Nat),
    (∀ c ∈ cs, c.short = true) →
    (go prevEnd (some ci) last cs).flatMap (fun e => e.2.lines) = ci.lines ++ cs.map (fun c => (c.endLine, c.text))
  | [], ci, last, _ => by simp [go]
  | c :: cs, ci, last, hs => by
    have hsc := hs c (by simp)
    have hs' : ∀ c' ∈ cs, c'.short = true := fun c' hc' => hs c' (by simp [hc'])
    by_cases hb : breaks ci last c = true
    · simp [go, hb, go_concat prevEnd cs _ _ hs', fresh, hsc]
    · simp [go, hb, go_concat prevEnd cs _ _ hs', extend, hsc]

/-- the blocks are maximal -/
theorem go_maximal (prevEnd : Nat) : ∀ (cs : List CLine) (ci : CInfo) (last : Nat),
    ci.short = true → (∀ c ∈ cs, c.short = true) → Maximal (go prevEnd (some ci) last cs)
  | [], ci, last, _, _ => by simp [go, Maximal]
  | c :: cs, ci, last, hci, hs => by
    have hsc := hs c (by simp)
    have hs' : ∀ c' ∈ cs, c'.short = true := fun c' hc' => hs c' (by simp [hc'])
    by_cases hb : breaks ci last c = true
    · obtain ⟨e, r, suf, h1, h2⟩ := go_head prevEnd cs (fresh prevEnd c) c.endLine
      have ih := go_maximal prevEnd cs (fresh prevEnd c) c.endLine (by simp [fresh, hsc]) hs'
      simp only [go, hb, if_true, h1] at ih ⊢
      refine ⟨?_, ih⟩
      have hne := breaks_ne ci last c hci hsc hb
      simp [firstLine, lineNos, h2, fresh, hsc]
      exact hne
    · have hb' : breaks ci last c = false := by simpa using hb
      have := go_maximal prevEnd cs (extend ci c) c.endLine (by simp [extend, hsc, hci]) hs'
      simpa [go, hb'] using this

end LuaHelper.Comment
