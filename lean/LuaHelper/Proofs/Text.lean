/- Helper lemmas for C02: the offset scans of M-text against S-lsp. -/
import LuaHelper.Model.Text
import LuaHelper.Spec.Lsp
import LuaHelper.Spec.TextFindings
namespace LuaHelper.TextProofs
open LuaHelper.Text LuaHelper.Lsp LuaHelper.TextFindings

theorem encode_cons (x : Ch) (xs : List Ch) : encode (x :: xs) = x.bytes ++ encode xs := by
  simp [encode]

theorem stepLen_ascii (b : UInt8) (h : b < 0x80) : stepLen b = 1 := by
  unfold stepLen
  have : ¬ b > 127 := by
    simp only [UInt8.lt_iff_toNat_lt, gt_iff_lt] at *; simp at *; omega
  simp [this]

theorem stepLen_two (a : UInt8) (h1 : 0xC0 ≤ a) (h2 : a < 0xE0) : stepLen a = 2 := by
  unfold stepLen leadOnes
  simp only [UInt8.lt_iff_toNat_lt, UInt8.le_iff_toNat_le, gt_iff_lt] at *
  simp at *
  repeat (first | omega | split)

theorem stepLen_three (a : UInt8) (h1 : 0xE0 ≤ a) (h2 : a < 0xF0) : stepLen a = 3 := by
  unfold stepLen leadOnes
  simp only [UInt8.lt_iff_toNat_lt, UInt8.le_iff_toNat_le, gt_iff_lt] at *
  simp at *
  repeat (first | omega | split)

theorem stepLen_four (a : UInt8) (h1 : 0xF0 ≤ a) (h2 : a < 0xF8) : stepLen a = 4 := by
  unfold stepLen leadOnes
  simp only [UInt8.lt_iff_toNat_lt, UInt8.le_iff_toNat_le, gt_iff_lt] at *
  simp at *
  repeat (first | omega | split)

theorem ne10_of_ge (a : UInt8) (h1 : 0xC0 ≤ a) : a ≠ 10 := by
  intro h; subst h; simp [UInt8.le_iff_toNat_le] at h1

end LuaHelper.TextProofs

namespace LuaHelper.TextProofs
open LuaHelper.Text LuaHelper.Lsp LuaHelper.TextFindings

/-! ### round trip decode ∘ encode, bounds -/

/-- no `cr` directly followed by `lf` (that byte sequence *is* `crlf`) -/
def canon : List Ch → Prop
  | [] => True
  | [_] => True
  | x :: y :: r => ¬ (x = .cr ∧ y = .lf) ∧ canon (y :: r)

theorem canon_tail {x : Ch} {xs : List Ch} (h : canon (x :: xs)) : canon xs := by
  cases xs with
  | nil => trivial
  | cons y r => exact h.2

/-- first byte of a well-formed character is not LF unless the character is `lf` -/
theorem head_ne_lf (x : Ch) (hwf : x.wf) (hx : x ≠ .lf) : ∃ a tl, x.bytes = a :: tl ∧ a ≠ 10 := by
  cases x with
  | ascii b => exact ⟨b, [], rfl, hwf.2.1⟩
  | two a b => exact ⟨a, [b], rfl, ne10_of_ge a (by
      have := hwf.1; simp only [UInt8.le_iff_toNat_le] at *; simp at *; omega)⟩
  | three a b c => exact ⟨a, [b, c], rfl, ne10_of_ge a (by
      have := hwf.1; simp only [UInt8.le_iff_toNat_le] at *; simp at *; omega)⟩
  | four a b c d => exact ⟨a, [b, c, d], rfl, ne10_of_ge a (by
      have := hwf.1; simp only [UInt8.le_iff_toNat_le] at *; simp at *; omega)⟩
  | lf => exact absurd rfl hx
  | crlf => exact ⟨13, [10], rfl, by decide⟩
  | cr => exact ⟨13, [], rfl, by decide⟩

theorem decode_encode (cs : List Ch) (hwf : ∀ x ∈ cs, x.wf) (hc : canon cs) :
    decode (encode cs) = cs := by
  induction cs with
  | nil => simp [encode, decode]
  | cons x xs ih =>
    have hwfx : x.wf := hwf x (by simp)
    have ih := ih (fun y hy => hwf y (by simp [hy])) (canon_tail hc)
    rw [encode_cons]
    cases x with
    | ascii b =>
      obtain ⟨h1, h2, h3⟩ := hwfx
      simp only [Ch.bytes, List.cons_append, List.nil_append]
      rw [decode.eq_def]
      split
      · simp_all
      · rename_i heq; simp at heq; exact absurd heq.1 h3
      · rename_i heq; simp at heq; exact absurd heq.1 h3
      · rename_i heq; simp at heq; exact absurd heq.1 h2
      · rename_i a r _ _ _ heq
        simp at heq; obtain ⟨rfl, rfl⟩ := heq
        simp [h1, ih]
    | two a b =>
      obtain ⟨h1, h2⟩ := hwfx
      have hn : ¬ a < 0x80 := by
        simp only [UInt8.lt_iff_toNat_lt, UInt8.le_iff_toNat_le] at *; simp at *; omega
      simp only [Ch.bytes, List.cons_append, List.nil_append]
      rw [decode.eq_def]
      split
      · simp_all
      · rename_i heq; simp at heq; obtain ⟨rfl, _⟩ := heq; simp [UInt8.le_iff_toNat_le] at h1
      · rename_i heq; simp at heq; obtain ⟨rfl, _⟩ := heq; simp [UInt8.le_iff_toNat_le] at h1
      · rename_i heq; simp at heq; obtain ⟨rfl, _⟩ := heq; simp [UInt8.le_iff_toNat_le] at h1
      · rename_i a' r _ _ _ heq
        simp at heq; obtain ⟨rfl, rfl⟩ := heq
        simp [hn, h1, h2, ih]
    | three a b c =>
      obtain ⟨h1, h2⟩ := hwfx
      have hn : ¬ a < 0x80 := by
        simp only [UInt8.lt_iff_toNat_lt, UInt8.le_iff_toNat_le] at *; simp at *; omega
      have hn2 : ¬ (0xC0 ≤ a ∧ a < 0xE0) := by
        simp only [UInt8.lt_iff_toNat_lt, UInt8.le_iff_toNat_le] at *; simp at *; omega
      simp only [Ch.bytes, List.cons_append, List.nil_append]
      rw [decode.eq_def]
      split
      · simp_all
      · rename_i heq; simp at heq; obtain ⟨rfl, _⟩ := heq; simp [UInt8.le_iff_toNat_le] at h1
      · rename_i heq; simp at heq; obtain ⟨rfl, _⟩ := heq; simp [UInt8.le_iff_toNat_le] at h1
      · rename_i heq; simp at heq; obtain ⟨rfl, _⟩ := heq; simp [UInt8.le_iff_toNat_le] at h1
      · rename_i a' r _ _ _ heq
        simp at heq; obtain ⟨rfl, rfl⟩ := heq
        simp [hn, hn2, h1, h2, ih]
    | four a b c d =>
      obtain ⟨h1, h2⟩ := hwfx
      have hn : ¬ a < 0x80 := by
        simp only [UInt8.lt_iff_toNat_lt, UInt8.le_iff_toNat_le] at *; simp at *; omega
      have hn2 : ¬ (0xC0 ≤ a ∧ a < 0xE0) := by
        simp only [UInt8.lt_iff_toNat_lt, UInt8.le_iff_toNat_le] at *; simp at *; omega
      have hn3 : ¬ (0xE0 ≤ a ∧ a < 0xF0) := by
        simp only [UInt8.lt_iff_toNat_lt, UInt8.le_iff_toNat_le] at *; simp at *; omega
      simp only [Ch.bytes, List.cons_append, List.nil_append]
      rw [decode.eq_def]
      split
      · simp_all
      · rename_i heq; simp at heq; obtain ⟨rfl, _⟩ := heq; simp [UInt8.le_iff_toNat_le] at h1
      · rename_i heq; simp at heq; obtain ⟨rfl, _⟩ := heq; simp [UInt8.le_iff_toNat_le] at h1
      · rename_i heq; simp at heq; obtain ⟨rfl, _⟩ := heq; simp [UInt8.le_iff_toNat_le] at h1
      · rename_i a' r _ _ _ heq
        simp at heq; obtain ⟨rfl, rfl⟩ := heq
        simp [hn, hn2, hn3, h1, h2, ih]
    | lf =>
      simp only [Ch.bytes, List.cons_append, List.nil_append]
      rw [decode.eq_def]; simp [ih]
    | crlf =>
      simp only [Ch.bytes, List.cons_append, List.nil_append]
      rw [decode.eq_def]; simp [ih]
    | cr =>
      simp only [Ch.bytes, List.cons_append, List.nil_append]
      cases xs with
      | nil => simp [encode, decode]
      | cons y r =>
        have hy : y ≠ .lf := by
          intro h; exact hc.1 ⟨rfl, h⟩
        obtain ⟨a, tl, hb, ha⟩ := head_ne_lf y (hwf y (by simp)) hy
        rw [encode_cons, hb] at ih ⊢
        simp only [List.cons_append] at ih ⊢
        rw [decode.eq_def]
        split
        · simp_all
        · rename_i heq; simp at heq; exact absurd heq.1 ha
        · rename_i r' _ heq; simp at heq; subst heq; simp [ih]
        · rename_i heq; simp at heq
        · rename_i a' r' h1 h2 h3 heq
          simp at heq; obtain ⟨rfl, rfl⟩ := heq
          exact (h2 rfl).elim

theorem spec_bounds (cs : List Ch) : ∀ (l c off e : Nat), specOffsetCh cs l c off = some e →
    off ≤ e ∧ e ≤ off + (encode cs).length := by
  induction cs with
  | nil => intro l c off e h; simp [specOffsetCh] at h; simp [encode]; omega
  | cons x xs ih =>
    intro l c off e h
    rw [encode_cons, List.length_append]
    cases l with
    | zero =>
      simp only [specOffsetCh] at h
      split at h
      · simp at h; omega
      · split at h
        · simp at h; omega
        · split at h
          · simp at h; omega
          · have := ih _ _ _ _ h; omega
    | succ l =>
      simp only [specOffsetCh] at h
      split at h <;> (have := ih _ _ _ _ h; omega)

/-! ### the position mapping against the LSP specification -/

/-- continuation bytes of a multi-byte character are ≥ 0x80 (so never LF or CR) -/
def Ch.cont : Ch → Prop
  | .two _ b => 0x80 ≤ b
  | .three _ b c => 0x80 ≤ b ∧ 0x80 ≤ c
  | .four _ b c d => 0x80 ≤ b ∧ 0x80 ≤ c ∧ 0x80 ≤ d
  | _ => True

theorem ne_of_ge80 (b : UInt8) (h : 0x80 ≤ b) : b ≠ 10 ∧ b ≠ 13 := by
  constructor <;> (intro e; subst e; simp [UInt8.le_iff_toNat_le] at h)

theorem ne13_of_ge (a : UInt8) (h1 : 0xC0 ≤ a) : a ≠ 13 := by
  intro h; subst h; simp [UInt8.le_iff_toNat_le] at h1

theorem skip_zero (r : Bytes) (off : Nat) : skipLines r 0 off = some (r, off) := by
  rw [skipLines]

theorem skip_nil (l off : Nat) : skipLines [] (l + 1) off = none := by
  rw [skipLines]

theorem skip_other (b : UInt8) (r : Bytes) (l off : Nat) (h10 : b ≠ 10) (h13 : b ≠ 13) :
    skipLines (b :: r) (l + 1) off = skipLines r (l + 1) (off + 1) := by
  rw [skipLines]; simp [h10, h13]

theorem skip_lf (r : Bytes) (l off : Nat) : skipLines (10 :: r) (l + 1) off = skipLines r l (off + 1) := by
  rw [skipLines]; simp

theorem skip_crlf (r : Bytes) (l off : Nat) : skipLines (13 :: 10 :: r) (l + 1) off = skipLines r l (off + 2) := by
  rw [skipLines]; simp

theorem skip_cr (r : Bytes) (l off : Nat) (h : r.head? ≠ some 10) :
    skipLines (13 :: r) (l + 1) off = skipLines r l (off + 1) := by
  rw [skipLines]; simp [h]

/-- the line skipping on spec characters -/
def skipCh : List Ch → Nat → Nat → Option (List Ch × Nat)
  | cs, 0, off => some (cs, off)
  | [], _ + 1, _ => none
  | x :: xs, l + 1, off =>
    if x.isEol then skipCh xs l (off + x.bytes.length) else skipCh xs (l + 1) (off + x.bytes.length)

theorem skipCh_zero (cs : List Ch) (off : Nat) : skipCh cs 0 off = some (cs, off) := by
  cases cs <;> rfl

theorem head_encode_ne_lf (xs : List Ch) (hwf : ∀ x ∈ xs, x.wf) (h : ∀ y r, xs = y :: r → y ≠ .lf) :
    (encode xs).head? ≠ some 10 := by
  cases xs with
  | nil => simp [encode]
  | cons y r =>
    obtain ⟨a, tl, hb, ha⟩ := head_ne_lf y (hwf y (by simp)) (h y r rfl)
    rw [encode_cons, hb]
    simpa using ha

theorem skip_encode : ∀ (cs : List Ch), (∀ x ∈ cs, x.wf) → (∀ x ∈ cs, Ch.cont x) → canon cs →
    ∀ (l off : Nat), skipLines (encode cs) l off = (skipCh cs l off).map (fun ro => (encode ro.1, ro.2))
  | cs, _, _, _, 0, off => by rw [skip_zero, skipCh_zero]; rfl
  | [], _, _, _, l + 1, off => by simp [encode, skip_nil, skipCh]
  | x :: xs, hwf, hco, hca, l + 1, off => by
    have hwf' : ∀ y ∈ xs, y.wf := fun y hy => hwf y (by simp [hy])
    have hco' : ∀ y ∈ xs, Ch.cont y := fun y hy => hco y (by simp [hy])
    have hca' := canon_tail hca
    have ih := skip_encode xs hwf' hco' hca'
    have hx := hwf x (by simp)
    have hc := hco x (by simp)
    rw [encode_cons]
    cases x with
    | ascii b =>
      simp only [Ch.bytes, List.cons_append, List.nil_append, skipCh, Ch.isEol, Bool.false_eq_true, if_false, List.length_singleton]
      rw [skip_other b _ _ _ hx.2.1 hx.2.2, ih]
    | two a b =>
      have ha : 0xC0 ≤ a := hx.1
      have hb := ne_of_ge80 b hc
      simp only [Ch.bytes, List.cons_append, List.nil_append, skipCh, Ch.isEol, Bool.false_eq_true, if_false, List.length_cons, List.length_nil]
      rw [skip_other a _ _ _ (ne10_of_ge a ha) (ne13_of_ge a ha), skip_other b _ _ _ hb.1 hb.2, ih]
    | three a b c =>
      have ha : 0xC0 ≤ a := by
        have := hx.1; simp only [UInt8.le_iff_toNat_le] at *; simp at *; omega
      have hb := ne_of_ge80 b hc.1
      have hcc := ne_of_ge80 c hc.2
      simp only [Ch.bytes, List.cons_append, List.nil_append, skipCh, Ch.isEol, Bool.false_eq_true, if_false, List.length_cons, List.length_nil]
      rw [skip_other a _ _ _ (ne10_of_ge a ha) (ne13_of_ge a ha), skip_other b _ _ _ hb.1 hb.2,
        skip_other c _ _ _ hcc.1 hcc.2, ih]
    | four a b c d =>
      have ha : 0xC0 ≤ a := by
        have := hx.1; simp only [UInt8.le_iff_toNat_le] at *; simp at *; omega
      have hb := ne_of_ge80 b hc.1
      have hcc := ne_of_ge80 c hc.2.1
      have hd := ne_of_ge80 d hc.2.2
      simp only [Ch.bytes, List.cons_append, List.nil_append, skipCh, Ch.isEol, Bool.false_eq_true, if_false, List.length_cons, List.length_nil]
      rw [skip_other a _ _ _ (ne10_of_ge a ha) (ne13_of_ge a ha), skip_other b _ _ _ hb.1 hb.2,
        skip_other c _ _ _ hcc.1 hcc.2, skip_other d _ _ _ hd.1 hd.2, ih]
    | lf =>
      simp only [Ch.bytes, List.cons_append, List.nil_append, skipCh, Ch.isEol, if_true, List.length_singleton]
      rw [skip_lf, ih]
    | crlf =>
      simp only [Ch.bytes, List.cons_append, List.nil_append, skipCh, Ch.isEol, if_true, List.length_cons, List.length_nil]
      rw [skip_crlf, ih]
    | cr =>
      simp only [Ch.bytes, List.cons_append, List.nil_append, skipCh, Ch.isEol, if_true, List.length_singleton]
      have hne : (encode xs).head? ≠ some 10 := by
        apply head_encode_ne_lf xs hwf'
        intro y r hyr hy
        subst hyr; subst hy
        exact hca.1 ⟨rfl, rfl⟩
      rw [skip_cr _ _ _ hne, ih]

/-- the spec skips whole lines the same way -/
theorem spec_skip : ∀ (cs : List Ch) (l c off : Nat),
    specOffsetCh cs l c off = (match skipCh cs l off with
      | none => none
      | some (r, o) => specOffsetCh r 0 c o)
  | cs, 0, c, off => by rw [skipCh_zero]
  | [], l + 1, c, off => by simp [specOffsetCh, skipCh]
  | x :: xs, l + 1, c, off => by
    simp only [specOffsetCh, skipCh]
    split <;> exact spec_skip xs _ c _

theorem skipCh_suffix : ∀ (cs : List Ch) (l off : Nat) (r : List Ch) (o : Nat), skipCh cs l off = some (r, o) →
    (∀ x ∈ r, x ∈ cs) ∧ o + (encode r).length = off + (encode cs).length
  | cs, 0, off, r, o, h => by
    rw [skipCh_zero] at h
    simp only [Option.some.injEq, Prod.mk.injEq] at h
    obtain ⟨rfl, rfl⟩ := h
    exact ⟨fun x hx => hx, rfl⟩
  | [], l + 1, off, r, o, h => by simp [skipCh] at h
  | x :: xs, l + 1, off, r, o, h => by
    simp only [skipCh] at h
    rw [encode_cons, List.length_append]
    split at h
    · obtain ⟨h1, h2⟩ := skipCh_suffix xs l _ r o h
      exact ⟨fun y hy => by simp [h1 y hy], by omega⟩
    · obtain ⟨h1, h2⟩ := skipCh_suffix xs (l + 1) _ r o h
      exact ⟨fun y hy => by simp [h1 y hy], by omega⟩

theorem unitsOf_ascii (b : UInt8) (h : b < 0x80) : unitsOf b = 1 := by
  unfold unitsOf
  have : ¬ b > 127 := by
    simp only [UInt8.lt_iff_toNat_lt, gt_iff_lt] at *; simp at *; omega
  simp [this]

theorem unitsOf_two (a : UInt8) (h1 : 0xC0 ≤ a) (h2 : a < 0xE0) : unitsOf a = 1 := by
  unfold unitsOf leadOnes
  simp only [UInt8.lt_iff_toNat_lt, UInt8.le_iff_toNat_le, gt_iff_lt] at *
  simp at *
  repeat (first | omega | split)

theorem unitsOf_three (a : UInt8) (h1 : 0xE0 ≤ a) (h2 : a < 0xF0) : unitsOf a = 1 := by
  unfold unitsOf leadOnes
  simp only [UInt8.lt_iff_toNat_lt, UInt8.le_iff_toNat_le, gt_iff_lt] at *
  simp at *
  repeat (first | omega | split)

theorem unitsOf_four (a : UInt8) (h1 : 0xF0 ≤ a) (h2 : a < 0xF8) : unitsOf a = 2 := by
  unfold unitsOf leadOnes
  simp only [UInt8.lt_iff_toNat_lt, UInt8.le_iff_toNat_le, gt_iff_lt] at *
  simp at *
  repeat (first | omega | split)

theorem walk_nil (c off : Nat) : walk [] c off = off := by rw [walk]

theorem walk_zero (r : Bytes) (off : Nat) : walk r 0 off = off := by
  cases r with
  | nil => rw [walk]
  | cons a t => rw [walk]

theorem walk_eol (a : UInt8) (t : Bytes) (rem off : Nat) (h : a = 10 ∨ a = 13) : walk (a :: t) (rem + 1) off = off := by
  rw [walk]; simp [h]

theorem walk_step (a : UInt8) (t : Bytes) (rem off : Nat) (h : ¬ (a = 10 ∨ a = 13)) (hu : ¬ rem + 1 < unitsOf a) :
    walk (a :: t) (rem + 1) off = walk (t.drop (stepLen a - 1)) (rem + 1 - unitsOf a) (off + stepLen a) := by
  rw [walk]; simp [h, hu]

theorem walk_short (a : UInt8) (t : Bytes) (rem off : Nat) (h : ¬ (a = 10 ∨ a = 13)) (hu : rem + 1 < unitsOf a) :
    walk (a :: t) (rem + 1) off = off := by
  rw [walk]; simp [h, hu]

/-- along one line the walk is the spec: it stops at the line end (clamp), before a character that needs more
    units than are left, and otherwise after exactly `c` UTF-16 units -/
theorem walk_spec : ∀ (cs : List Ch), (∀ x ∈ cs, x.wf) → ∀ (c off : Nat),
    specOffsetCh cs 0 c off = some (walk (encode cs) c off) ∧ walk (encode cs) c off ≤ off + (encode cs).length
  | [], _, c, off => by simp [specOffsetCh, encode, walk_nil]
  | x :: xs, hwf, 0, off => by
    rw [walk_zero]
    refine ⟨?_, by omega⟩
    simp only [specOffsetCh]
    split <;> simp
  | x :: xs, hwf, rem + 1, off => by
    have hwf' : ∀ y ∈ xs, y.wf := fun y hy => hwf y (by simp [hy])
    have hx := hwf x (by simp)
    rw [encode_cons, List.length_append]
    cases x with
    | lf => simp [Ch.bytes, specOffsetCh, Ch.isEol, walk_eol]
    | crlf => simp [Ch.bytes, specOffsetCh, Ch.isEol, walk_eol]
    | cr => simp [Ch.bytes, specOffsetCh, Ch.isEol, walk_eol]
    | ascii b =>
      have hne : ¬ (b = 10 ∨ b = 13) := by intro h; rcases h with h | h; exact hx.2.1 h; exact hx.2.2 h
      have hu := unitsOf_ascii b hx.1
      have hs := stepLen_ascii b hx.1
      obtain ⟨i1, i2⟩ := walk_spec xs hwf' rem (off + 1)
      simp only [Ch.bytes, List.cons_append, List.nil_append, List.length_singleton]
      rw [walk_step b _ _ _ hne (by omega), hu, hs]
      simp only [specOffsetCh, Ch.isEol, Ch.units, Bool.false_eq_true, if_false, Nat.add_one_ne_zero, Nat.add_sub_cancel,
        Nat.sub_self, List.drop_zero, Ch.bytes, List.length_singleton]
      refine ⟨?_, by omega⟩
      have : ¬ (rem + 1 < 1) := by omega
      simp only [this, if_false]
      exact i1
    | two a b =>
      have h1 : 0xC0 ≤ a := hx.1
      have hne : ¬ (a = 10 ∨ a = 13) := by
        intro h; rcases h with h | h; exact ne10_of_ge a h1 h; exact ne13_of_ge a h1 h
      have hu := unitsOf_two a hx.1 hx.2
      have hs := stepLen_two a hx.1 hx.2
      obtain ⟨i1, i2⟩ := walk_spec xs hwf' rem (off + 2)
      simp only [Ch.bytes, List.cons_append, List.nil_append, List.length_cons, List.length_nil]
      rw [walk_step a _ _ _ hne (by omega), hu, hs]
      simp only [specOffsetCh, Ch.isEol, Ch.units, Bool.false_eq_true, if_false, Nat.add_one_ne_zero, Nat.add_sub_cancel,
        List.drop_succ_cons, List.drop_zero, Ch.bytes, List.length_cons, List.length_nil]
      refine ⟨?_, by omega⟩
      have : ¬ (rem + 1 < 1) := by omega
      simp only [this, if_false]
      exact i1
    | three a b c =>
      have h1 : 0xC0 ≤ a := by
        have := hx.1; simp only [UInt8.le_iff_toNat_le] at *; simp at *; omega
      have hne : ¬ (a = 10 ∨ a = 13) := by
        intro h; rcases h with h | h; exact ne10_of_ge a h1 h; exact ne13_of_ge a h1 h
      have hu := unitsOf_three a hx.1 hx.2
      have hs := stepLen_three a hx.1 hx.2
      obtain ⟨i1, i2⟩ := walk_spec xs hwf' rem (off + 3)
      simp only [Ch.bytes, List.cons_append, List.nil_append, List.length_cons, List.length_nil]
      rw [walk_step a _ _ _ hne (by omega), hu, hs]
      simp only [specOffsetCh, Ch.isEol, Ch.units, Bool.false_eq_true, if_false, Nat.add_one_ne_zero, Nat.add_sub_cancel,
        List.drop_succ_cons, List.drop_zero, Ch.bytes, List.length_cons, List.length_nil]
      refine ⟨?_, by omega⟩
      have : ¬ (rem + 1 < 1) := by omega
      simp only [this, if_false]
      exact i1
    | four a b c d =>
      have h1 : 0xC0 ≤ a := by
        have := hx.1; simp only [UInt8.le_iff_toNat_le] at *; simp at *; omega
      have hne : ¬ (a = 10 ∨ a = 13) := by
        intro h; rcases h with h | h; exact ne10_of_ge a h1 h; exact ne13_of_ge a h1 h
      have hu := unitsOf_four a hx.1 hx.2
      have hs := stepLen_four a hx.1 hx.2
      simp only [Ch.bytes, List.cons_append, List.nil_append, List.length_cons, List.length_nil]
      by_cases hr : rem + 1 < 2
      · rw [walk_short a _ _ _ hne (by omega)]
        refine ⟨?_, by omega⟩
        simp [specOffsetCh, Ch.isEol, Ch.units, hr]
      · obtain ⟨i1, i2⟩ := walk_spec xs hwf' (rem + 1 - 2) (off + 4)
        rw [walk_step a _ _ _ hne (by omega), hu, hs]
        simp only [specOffsetCh, Ch.isEol, Ch.units, Bool.false_eq_true, if_false, Nat.add_one_ne_zero,
          List.drop_succ_cons, List.drop_zero, Ch.bytes, List.length_cons, List.length_nil, hr]
        refine ⟨?_, by omega⟩
        exact i1

/-- **position → offset is the LSP mapping**, for every well-formed document and EVERY position -/
theorem position_spec (cs : List Ch) (hwf : ∀ x ∈ cs, x.wf) (hco : ∀ x ∈ cs, Ch.cont x) (hca : canon cs) (p : Pos) :
    offsetForPosition (encode cs) p = specOffsetCh cs p.line p.ch 0 := by
  unfold offsetForPosition
  rw [skip_encode cs hwf hco hca, spec_skip]
  cases h : skipCh cs p.line 0 with
  | none => simp
  | some ro =>
    obtain ⟨r, o⟩ := ro
    obtain ⟨hsub, hlen⟩ := skipCh_suffix cs p.line 0 r o h
    obtain ⟨w1, w2⟩ := walk_spec r (fun x hx => hwf x (hsub x hx)) p.ch o
    simp only [Option.map_some, w1]
    congr 1
    omega

end LuaHelper.TextProofs
