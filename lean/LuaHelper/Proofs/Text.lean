/- Helper lemmas for C02: the offset scans of M-text against S-lsp. -/
import LuaHelper.Model.Text
import LuaHelper.Spec.Lsp
import LuaHelper.Spec.TextFindings
namespace LuaHelper.TextProofs
open LuaHelper.Text LuaHelper.Lsp LuaHelper.TextFindings

theorem encode_cons (x : Ch) (xs : List Ch) : encode (x :: xs) = x.bytes ++ encode xs := by
  simp [encode]

theorem stepLen_ascii (b : UInt8) (h : b < 0x80) : stepLen b = 1 := by
  unfold stepLen
  have : ¬ b > 127 := by
    simp only [UInt8.lt_iff_toNat_lt, gt_iff_lt] at *; simp at *; omega
  simp [this]

theorem stepLen_two (a : UInt8) (h1 : 0xC0 ≤ a) (h2 : a < 0xE0) : stepLen a = 2 := by
  unfold stepLen leadOnes
  simp only [UInt8.lt_iff_toNat_lt, UInt8.le_iff_toNat_le, gt_iff_lt] at *
  simp at *
  repeat (first | omega | split)

theorem stepLen_three (a : UInt8) (h1 : 0xE0 ≤ a) (h2 : a < 0xF0) : stepLen a = 3 := by
  unfold stepLen leadOnes
  simp only [UInt8.lt_iff_toNat_lt, UInt8.le_iff_toNat_le, gt_iff_lt] at *
  simp at *
  repeat (first | omega | split)

theorem stepLen_four (a : UInt8) (h1 : 0xF0 ≤ a) (h2 : a < 0xF8) : stepLen a = 4 := by
  unfold stepLen leadOnes
  simp only [UInt8.lt_iff_toNat_lt, UInt8.le_iff_toNat_le, gt_iff_lt] at *
  simp at *
  repeat (first | omega | split)

theorem ne10_of_ge (a : UInt8) (h1 : 0xC0 ≤ a) : a ≠ 10 := by
  intro h; subst h; simp [UInt8.le_iff_toNat_le] at h1

end LuaHelper.TextProofs

namespace LuaHelper.TextProofs
open LuaHelper.Text LuaHelper.Lsp LuaHelper.TextFindings

/-- target position seen from the model's running `(line, col)` when the spec still has to skip
    `l` lines and `c` units -/
def target (line col l c : Nat) : Pos := ⟨line + l, if l = 0 then col + c else c⟩

/-- one model step over a non-newline first byte whose character is `n` bytes long -/
theorem scan1_step (p : Pos) (a : UInt8) (tl : Bytes) (line col off : Nat)
    (hne : ¬ (line = p.line ∧ col = p.ch))
    (hnb : ¬ ((line = p.line ∧ col > p.ch) ∨ line > p.line)) (h10 : a ≠ 10) :
    scan1 p (a :: tl) line col off = scan1 p (tl.drop (stepLen a - 1)) line (col + 1) (off + stepLen a) := by
  rw [scan1]; simp only [hne, hnb, h10, if_false]

theorem scan1_step_lf (p : Pos) (tl : Bytes) (line col off : Nat)
    (hne : ¬ (line = p.line ∧ col = p.ch))
    (hnb : ¬ ((line = p.line ∧ col > p.ch) ∨ line > p.line)) :
    scan1 p (10 :: tl) line col off = scan1 p tl (line + 1) 0 (off + 1) := by
  rw [scan1]; simp only [hne, hnb, if_false]
  have : stepLen 10 = 1 := by decide
  simp [this]

theorem scan1_hit (p : Pos) (rest : Bytes) (line col off : Nat)
    (h : line = p.line ∧ col = p.ch) : scan1 p rest line col off = some off := by
  cases rest with
  | nil => rw [scan1]; simp [h]
  | cons a tl => rw [scan1]; simp [h]

theorem scan1_spec (cs : List Ch) (hwf : ∀ x ∈ cs, x.wf) :
    ∀ (l c line col off : Nat), bad cs l c = false →
      scan1 (target line col l c) (encode cs) line col off = specOffsetCh cs l c off := by
  induction cs with
  | nil =>
    intro l c line col off hb
    simp [bad] at hb
    obtain ⟨hl, hc⟩ := hb
    subst hl; subst hc
    simp [encode, specOffsetCh, target, scan1]
  | cons x xs ih =>
    have hwfx : x.wf := hwf x (by simp)
    have ih := ih (fun y hy => hwf y (by simp [hy]))
    intro l c line col off hb
    rw [encode_cons]
    cases l with
    | zero =>
      by_cases heol : x.isEol = true
      · -- position at the line end: c must be 0
        simp [bad, heol] at hb
        subst hb
        rw [scan1_hit _ _ _ _ _ (by simp [target])]
        simp [specOffsetCh, heol]
      · by_cases hc0 : c = 0
        · subst hc0
          rw [scan1_hit _ _ _ _ _ (by simp [target])]
          simp [specOffsetCh, heol]
        · simp [bad, heol, hc0] at hb
          obtain ⟨hcu, hu2, hbad⟩ := hb
          have hne : ¬ (line = (target line col 0 c).line ∧ col = (target line col 0 c).ch) := by
            simp [target]; omega
          have hnb : ¬ ((line = (target line col 0 c).line ∧ col > (target line col 0 c).ch) ∨ line > (target line col 0 c).line) := by
            simp [target]
          cases x with
          | ascii b =>
            obtain ⟨h1, h2, _⟩ := hwfx
            simp only [Ch.bytes, List.cons_append, List.nil_append]
            rw [scan1_step _ _ _ _ _ _ hne hnb h2, stepLen_ascii b h1]
            have := ih 0 (c - 1) line (col + 1) (off + 1) (by simpa [Ch.units] using hbad)
            simp only [target] at this ⊢
            simp only [List.drop_zero, Nat.sub_self]
            rw [show col + c = col + 1 + (c - 1) by omega]
            simpa [specOffsetCh, heol, hc0, Ch.units, Ch.bytes, show ¬ c < 1 by omega] using this
          | two a b =>
            obtain ⟨h1, h2⟩ := hwfx
            simp only [Ch.bytes, List.cons_append, List.nil_append]
            rw [scan1_step _ _ _ _ _ _ hne hnb (ne10_of_ge a (by
              simp only [UInt8.le_iff_toNat_le] at *; simp at *; omega)), stepLen_two a h1 h2]
            have := ih 0 (c - 1) line (col + 1) (off + 2) (by simpa [Ch.units] using hbad)
            simp only [target] at this ⊢
            rw [show col + c = col + 1 + (c - 1) by omega]
            simpa [specOffsetCh, heol, hc0, Ch.units, Ch.bytes, show ¬ c < 1 by omega] using this
          | three a b d =>
            obtain ⟨h1, h2⟩ := hwfx
            simp only [Ch.bytes, List.cons_append, List.nil_append]
            rw [scan1_step _ _ _ _ _ _ hne hnb (ne10_of_ge a (by
              simp only [UInt8.le_iff_toNat_le] at *; simp at *; omega)), stepLen_three a h1 h2]
            have := ih 0 (c - 1) line (col + 1) (off + 3) (by simpa [Ch.units] using hbad)
            simp only [target] at this ⊢
            rw [show col + c = col + 1 + (c - 1) by omega]
            simpa [specOffsetCh, heol, hc0, Ch.units, Ch.bytes, show ¬ c < 1 by omega] using this
          | four a b d e => simp [Ch.units] at hu2
          | lf => simp [Ch.isEol] at heol
          | crlf => simp [Ch.isEol] at heol
          | cr => simp [Ch.isEol] at heol
    | succ l =>
      have hne : ¬ (line = (target line col (l + 1) c).line ∧ col = (target line col (l + 1) c).ch) := by
        simp [target]
      have hnb : ¬ ((line = (target line col (l + 1) c).line ∧ col > (target line col (l + 1) c).ch) ∨ line > (target line col (l + 1) c).line) := by
        simp [target]
      have htgt : ∀ col', target line col (l + 1) c = target line col' (l + 1) c := by
        intro col'; simp [target]
      have htgt2 : target line col (l + 1) c = target (line + 1) 0 l c := by
        simp only [target, Pos.mk.injEq]; constructor
        · omega
        · by_cases hl : l = 0 <;> simp [hl]
      cases x with
      | ascii b =>
        obtain ⟨h1, h2, _⟩ := hwfx
        simp only [Ch.bytes, List.cons_append, List.nil_append]
        rw [scan1_step _ _ _ _ _ _ hne hnb h2, stepLen_ascii b h1]
        have := ih (l + 1) c line (col + 1) (off + 1) (by simpa [bad, Ch.isEol] using hb)
        rw [htgt (col + 1)]
        simpa [specOffsetCh, Ch.isEol, Ch.bytes] using this
      | two a b =>
        obtain ⟨h1, h2⟩ := hwfx
        simp only [Ch.bytes, List.cons_append, List.nil_append]
        rw [scan1_step _ _ _ _ _ _ hne hnb (ne10_of_ge a (by
          simp only [UInt8.le_iff_toNat_le] at *; simp at *; omega)), stepLen_two a h1 h2]
        have := ih (l + 1) c line (col + 1) (off + 2) (by simpa [bad, Ch.isEol] using hb)
        rw [htgt (col + 1)]
        simpa [specOffsetCh, Ch.isEol, Ch.bytes] using this
      | three a b d =>
        obtain ⟨h1, h2⟩ := hwfx
        simp only [Ch.bytes, List.cons_append, List.nil_append]
        rw [scan1_step _ _ _ _ _ _ hne hnb (ne10_of_ge a (by
          simp only [UInt8.le_iff_toNat_le] at *; simp at *; omega)), stepLen_three a h1 h2]
        have := ih (l + 1) c line (col + 1) (off + 3) (by simpa [bad, Ch.isEol] using hb)
        rw [htgt (col + 1)]
        simpa [specOffsetCh, Ch.isEol, Ch.bytes] using this
      | four a b d e =>
        obtain ⟨h1, h2⟩ := hwfx
        simp only [Ch.bytes, List.cons_append, List.nil_append]
        rw [scan1_step _ _ _ _ _ _ hne hnb (ne10_of_ge a (by
          simp only [UInt8.le_iff_toNat_le] at *; simp at *; omega)), stepLen_four a h1 h2]
        have := ih (l + 1) c line (col + 1) (off + 4) (by simpa [bad, Ch.isEol] using hb)
        rw [htgt (col + 1)]
        simpa [specOffsetCh, Ch.isEol, Ch.bytes] using this
      | lf =>
        simp only [Ch.bytes, List.cons_append, List.nil_append]
        rw [scan1_step_lf _ _ _ _ _ hne hnb]
        have := ih l c (line + 1) 0 (off + 1) (by simpa [bad, Ch.isEol] using hb)
        rw [htgt2]
        simpa [specOffsetCh, Ch.isEol, Ch.bytes] using this
      | crlf =>
        simp only [Ch.bytes, List.cons_append, List.nil_append]
        rw [scan1_step _ _ _ _ _ _ hne hnb (by decide), show stepLen 13 = 1 by decide]
        simp only [List.drop_zero, Nat.sub_self]
        rw [htgt (col + 1)]
        have hne' : ¬ (line = (target line (col + 1) (l + 1) c).line ∧ col + 1 = (target line (col + 1) (l + 1) c).ch) := by
          simp [target]
        have hnb' : ¬ ((line = (target line (col + 1) (l + 1) c).line ∧ col + 1 > (target line (col + 1) (l + 1) c).ch) ∨ line > (target line (col + 1) (l + 1) c).line) := by
          simp [target]
        rw [scan1_step_lf _ _ _ _ _ hne' hnb']
        have := ih l c (line + 1) 0 (off + 2) (by simpa [bad, Ch.isEol] using hb)
        rw [← htgt (col + 1), htgt2]
        simpa [specOffsetCh, Ch.isEol, Ch.bytes] using this
      | cr => simp [bad] at hb

end LuaHelper.TextProofs

namespace LuaHelper.TextProofs
open LuaHelper.Text LuaHelper.Lsp LuaHelper.TextFindings

/-! ### the two-position scan -/

theorem scan_switch (sp ep : Pos) (rest : Bytes) (line col off : Nat)
    (h : line = sp.line ∧ col = sp.ch) :
    scan sp ep rest line col off none = scan sp ep rest line col off (some off) := by
  cases rest with
  | nil =>
    obtain ⟨h1, h2⟩ := h
    rw [scan, scan]; simp [finish, h1, h2]
  | cons a tl => rw [scan, scan]; simp [h]

theorem scan_found (ep : Pos) (rest : Bytes) :
    ∀ (line col off : Nat) (sp : Pos) (s : Nat), scan sp ep rest line col off (some s) =
      (match scan1 ep rest line col off with | some e => OffRes.ok s e | none => OffRes.err) := by
  induction h : rest.length using Nat.strongRecOn generalizing rest with
  | ind n ih =>
    intro line col off sp s
    cases rest with
    | nil => rw [scan, scan1]; simp only [finish]; split <;> simp_all
    | cons a tl =>
      rw [scan, scan1]
      by_cases h1 : line = ep.line ∧ col = ep.ch
      · simp [h1]
      · by_cases h2 : (line = ep.line ∧ col > ep.ch) ∨ line > ep.line
        · simp [h1, h2]
        · have hlt : (tl.drop (stepLen a - 1)).length < n := by
            subst h; simp [List.length_drop]; omega
          by_cases h3 : a = 10
          · simp only [h1, h2, h3, if_false, if_true]
            exact ih _ (by subst h3; exact hlt) _ rfl _ _ _ _ _
          · simp only [h1, h2, h3, if_false]
            exact ih _ hlt _ rfl _ _ _ _ _

/-- how the spec's remaining `(l, c)` changes when one character that is not the target is consumed -/
def adv (x : Ch) (l c : Nat) : Nat × Nat :=
  match l with
  | 0 => (0, c - x.units)
  | l + 1 => if x.isEol then (l, c) else (l + 1, c)

def nline (x : Ch) (line : Nat) : Nat := if x.isEol then line + 1 else line
def ncol (x : Ch) (col : Nat) : Nat := if x.isEol then 0 else col + 1

theorem adv_facts (x : Ch) (xs : List Ch) (l c : Nat) (hb : bad (x :: xs) l c = false)
    (hh : ¬ (l = 0 ∧ c = 0)) :
    bad xs (adv x l c).1 (adv x l c).2 = false ∧ (l = 0 → x.isEol = false ∧ x.units = 1 ∧ 1 ≤ c) ∧
    (0 < l → x ≠ .cr) := by
  cases l with
  | zero =>
    have hc : c ≠ 0 := by simpa using hh
    by_cases heol : x.isEol = true
    · simp [bad, heol, hc] at hb
    · simp [bad, heol, hc] at hb
      obtain ⟨h1, h2, h3⟩ := hb
      have hu : x.units = 1 := by cases x <;> simp_all [Ch.units]
      refine ⟨by simpa [adv, hu] using h3, by simp [heol, hu]; omega, by simp⟩
  | succ l =>
    by_cases hcr : x = .cr
    · simp [bad, hcr] at hb
    · by_cases heol : x.isEol = true
      · simp [bad, hcr, heol] at hb; simp [adv, heol, hb, hcr]
      · simp [bad, hcr, heol] at hb; simp [adv, heol, hb, hcr]

theorem adv_spec (x : Ch) (xs : List Ch) (l c off : Nat) (hb : bad (x :: xs) l c = false)
    (hh : ¬ (l = 0 ∧ c = 0)) :
    specOffsetCh (x :: xs) l c off = specOffsetCh xs (adv x l c).1 (adv x l c).2 (off + x.bytes.length) := by
  obtain ⟨_, h0, _⟩ := adv_facts x xs l c hb hh
  cases l with
  | zero =>
    obtain ⟨h1, h2, h3⟩ := h0 rfl
    simp [specOffsetCh, adv, h1, h2, show c ≠ 0 by omega, show ¬ c < 1 by omega]
  | succ l =>
    by_cases heol : x.isEol = true <;> simp [specOffsetCh, adv, heol]

theorem adv_target (x : Ch) (xs : List Ch) (l c line col : Nat) (hb : bad (x :: xs) l c = false)
    (hh : ¬ (l = 0 ∧ c = 0)) :
    target line col l c = target (nline x line) (ncol x col) (adv x l c).1 (adv x l c).2 := by
  obtain ⟨_, h0, _⟩ := adv_facts x xs l c hb hh
  cases l with
  | zero =>
    obtain ⟨h1, h2, h3⟩ := h0 rfl
    simp [target, adv, nline, ncol, h1, h2]; omega
  | succ l =>
    by_cases heol : x.isEol = true
    · simp only [target, adv, nline, ncol, heol, if_true, Pos.mk.injEq]
      constructor
      · omega
      · by_cases hl : l = 0 <;> simp [hl]
    · simp [target, adv, nline, ncol, heol]

/-- lexicographic order on the spec's remaining distance -/
def le2 (l1 c1 l2 c2 : Nat) : Prop := l1 < l2 ∨ (l1 = l2 ∧ c1 ≤ c2)

theorem adv_le (x : Ch) (xs : List Ch) (l1 c1 l2 c2 : Nat)
    (hb1 : bad (x :: xs) l1 c1 = false) (hh1 : ¬ (l1 = 0 ∧ c1 = 0))
    (hb2 : bad (x :: xs) l2 c2 = false) (hle : le2 l1 c1 l2 c2) :
    ¬ (l2 = 0 ∧ c2 = 0) ∧ le2 (adv x l1 c1).1 (adv x l1 c1).2 (adv x l2 c2).1 (adv x l2 c2).2 := by
  have hh2 : ¬ (l2 = 0 ∧ c2 = 0) := by
    unfold le2 at hle; omega
  refine ⟨hh2, ?_⟩
  obtain ⟨_, f1, _⟩ := adv_facts x xs l1 c1 hb1 hh1
  obtain ⟨_, f2, _⟩ := adv_facts x xs l2 c2 hb2 hh2
  unfold le2 at *
  cases l1 with
  | zero =>
    obtain ⟨e1, u1, _⟩ := f1 rfl
    cases l2 with
    | zero => simp [adv, u1]; omega
    | succ l2 => simp [adv, e1]
  | succ l1 =>
    cases l2 with
    | zero => omega
    | succ l2 =>
      by_cases heol : x.isEol = true
      · simp [adv, heol]; omega
      · simp [adv, heol]; omega

/-- the model steps over the bytes of one well-formed character that lies strictly before `sp` -/
theorem scan_adv (sp ep : Pos) (x : Ch) (hwf : x.wf) (rest : Bytes) (line col off : Nat)
    (hcr : x ≠ .cr)
    (hahead : sp.line > line ∨ (sp.line = line ∧ sp.ch > col ∧ x.isEol = false)) :
    scan sp ep (x.bytes ++ rest) line col off none =
      scan sp ep rest (nline x line) (ncol x col) (off + x.bytes.length) none := by
  have hne : ¬ (line = sp.line ∧ col = sp.ch) := by omega
  have hnb : ¬ ((line = sp.line ∧ col > sp.ch) ∨ line > sp.line) := by omega
  have step : ∀ (a : UInt8) (tl : Bytes), a ≠ 10 →
      scan sp ep (a :: tl) line col off none =
        scan sp ep (tl.drop (stepLen a - 1)) line (col + 1) (off + stepLen a) none := by
    intro a tl h10; rw [scan]; simp [hne, hnb, h10]
  cases x with
  | ascii b =>
    obtain ⟨h1, h2, _⟩ := hwf
    simp only [Ch.bytes, List.cons_append, List.nil_append]
    rw [step b _ h2, stepLen_ascii b h1]; simp [nline, ncol, Ch.isEol]
  | two a b =>
    obtain ⟨h1, h2⟩ := hwf
    simp only [Ch.bytes, List.cons_append, List.nil_append]
    rw [step a _ (ne10_of_ge a (by simp only [UInt8.le_iff_toNat_le] at *; simp at *; omega)), stepLen_two a h1 h2]
    simp [nline, ncol, Ch.isEol]
  | three a b d =>
    obtain ⟨h1, h2⟩ := hwf
    simp only [Ch.bytes, List.cons_append, List.nil_append]
    rw [step a _ (ne10_of_ge a (by simp only [UInt8.le_iff_toNat_le] at *; simp at *; omega)), stepLen_three a h1 h2]
    simp [nline, ncol, Ch.isEol]
  | four a b d e =>
    obtain ⟨h1, h2⟩ := hwf
    simp only [Ch.bytes, List.cons_append, List.nil_append]
    rw [step a _ (ne10_of_ge a (by simp only [UInt8.le_iff_toNat_le] at *; simp at *; omega)), stepLen_four a h1 h2]
    simp [nline, ncol, Ch.isEol]
  | lf =>
    simp only [Ch.bytes, List.cons_append, List.nil_append]
    rw [scan]; simp [hne, hnb, nline, ncol, Ch.isEol, show stepLen 10 = 1 by decide]
  | crlf =>
    have hl : sp.line > line := by simpa [Ch.isEol] using hahead
    simp only [Ch.bytes, List.cons_append, List.nil_append]
    rw [step 13 _ (by decide), show stepLen 13 = 1 by decide]
    simp only [List.drop_zero, Nat.sub_self]
    rw [scan]
    have hne' : ¬ (line = sp.line ∧ col + 1 = sp.ch) := by omega
    have hnb' : ¬ ((line = sp.line ∧ col + 1 > sp.ch) ∨ line > sp.line) := by omega
    simp [hne', hnb', nline, ncol, Ch.isEol, show stepLen 10 = 1 by decide]
  | cr => exact absurd rfl hcr

theorem spec_hit (cs : List Ch) (off : Nat) : specOffsetCh cs 0 0 off = some off := by
  cases cs with
  | nil => simp [specOffsetCh]
  | cons x xs => by_cases h : x.isEol = true <;> simp [specOffsetCh, h]

theorem scan_spec (cs : List Ch) (hwf : ∀ x ∈ cs, x.wf) :
    ∀ (l1 c1 l2 c2 line col off : Nat), bad cs l1 c1 = false → bad cs l2 c2 = false →
      le2 l1 c1 l2 c2 →
      scan (target line col l1 c1) (target line col l2 c2) (encode cs) line col off none =
        (match specOffsetCh cs l1 c1 off, specOffsetCh cs l2 c2 off with
         | some s, some e => OffRes.ok s e
         | _, _ => OffRes.err) := by
  induction cs with
  | nil =>
    intro l1 c1 l2 c2 line col off hb1 hb2 _
    simp [bad] at hb1 hb2
    obtain ⟨rfl, rfl⟩ := hb1
    obtain ⟨rfl, rfl⟩ := hb2
    simp [encode, specOffsetCh, target, scan, finish]
  | cons x xs ih =>
    have hwfx : x.wf := hwf x (by simp)
    have ih := ih (fun y hy => hwf y (by simp [hy]))
    intro l1 c1 l2 c2 line col off hb1 hb2 hle
    by_cases hh : l1 = 0 ∧ c1 = 0
    · obtain ⟨rfl, rfl⟩ := hh
      rw [scan_switch _ _ _ _ _ _ (by simp [target]), scan_found,
        scan1_spec (x :: xs) hwf l2 c2 line col off hb2, spec_hit]
      cases specOffsetCh (x :: xs) l2 c2 off <;> rfl
    · obtain ⟨hh2, hle'⟩ := adv_le x xs l1 c1 l2 c2 hb1 hh hb2 hle
      obtain ⟨hb1', f0, fcr⟩ := adv_facts x xs l1 c1 hb1 hh
      obtain ⟨hb2', _, _⟩ := adv_facts x xs l2 c2 hb2 hh2
      rw [encode_cons, scan_adv _ _ x hwfx _ _ _ _ ?hcr ?hahead,
        adv_target x xs l1 c1 line col hb1 hh, adv_target x xs l2 c2 line col hb2 hh2,
        ih _ _ _ _ _ _ _ hb1' hb2' hle', adv_spec x xs l1 c1 off hb1 hh, adv_spec x xs l2 c2 off hb2 hh2]
      case hcr =>
        intro hx
        cases l1 with
        | zero => have := (f0 rfl).1; simp [hx, Ch.isEol] at this
        | succ l1 => exact fcr (by omega) hx
      case hahead =>
        cases l1 with
        | zero =>
          obtain ⟨e1, _, h3⟩ := f0 rfl
          right; simp [target, e1]; omega
        | succ l1 => left; simp [target]

end LuaHelper.TextProofs

namespace LuaHelper.TextProofs
open LuaHelper.Text LuaHelper.Lsp LuaHelper.TextFindings

/-! ### round trip decode ∘ encode, bounds -/

/-- no `cr` directly followed by `lf` (that byte sequence *is* `crlf`) -/
def canon : List Ch → Prop
  | [] => True
  | [_] => True
  | x :: y :: r => ¬ (x = .cr ∧ y = .lf) ∧ canon (y :: r)

theorem canon_tail {x : Ch} {xs : List Ch} (h : canon (x :: xs)) : canon xs := by
  cases xs with
  | nil => trivial
  | cons y r => exact h.2

/-- first byte of a well-formed character is not LF unless the character is `lf` -/
theorem head_ne_lf (x : Ch) (hwf : x.wf) (hx : x ≠ .lf) : ∃ a tl, x.bytes = a :: tl ∧ a ≠ 10 := by
  cases x with
  | ascii b => exact ⟨b, [], rfl, hwf.2.1⟩
  | two a b => exact ⟨a, [b], rfl, ne10_of_ge a (by
      have := hwf.1; simp only [UInt8.le_iff_toNat_le] at *; simp at *; omega)⟩
  | three a b c => exact ⟨a, [b, c], rfl, ne10_of_ge a (by
      have := hwf.1; simp only [UInt8.le_iff_toNat_le] at *; simp at *; omega)⟩
  | four a b c d => exact ⟨a, [b, c, d], rfl, ne10_of_ge a (by
      have := hwf.1; simp only [UInt8.le_iff_toNat_le] at *; simp at *; omega)⟩
  | lf => exact absurd rfl hx
  | crlf => exact ⟨13, [10], rfl, by decide⟩
  | cr => exact ⟨13, [], rfl, by decide⟩

theorem decode_encode (cs : List Ch) (hwf : ∀ x ∈ cs, x.wf) (hc : canon cs) :
    decode (encode cs) = cs := by
  induction cs with
  | nil => simp [encode, decode]
  | cons x xs ih =>
    have hwfx : x.wf := hwf x (by simp)
    have ih := ih (fun y hy => hwf y (by simp [hy])) (canon_tail hc)
    rw [encode_cons]
    cases x with
    | ascii b =>
      obtain ⟨h1, h2, h3⟩ := hwfx
      simp only [Ch.bytes, List.cons_append, List.nil_append]
      rw [decode.eq_def]
      split
      · simp_all
      · rename_i heq; simp at heq; exact absurd heq.1 h3
      · rename_i heq; simp at heq; exact absurd heq.1 h3
      · rename_i heq; simp at heq; exact absurd heq.1 h2
      · rename_i a r _ _ _ heq
        simp at heq; obtain ⟨rfl, rfl⟩ := heq
        simp [h1, ih]
    | two a b =>
      obtain ⟨h1, h2⟩ := hwfx
      have hn : ¬ a < 0x80 := by
        simp only [UInt8.lt_iff_toNat_lt, UInt8.le_iff_toNat_le] at *; simp at *; omega
      simp only [Ch.bytes, List.cons_append, List.nil_append]
      rw [decode.eq_def]
      split
      · simp_all
      · rename_i heq; simp at heq; obtain ⟨rfl, _⟩ := heq; simp [UInt8.le_iff_toNat_le] at h1
      · rename_i heq; simp at heq; obtain ⟨rfl, _⟩ := heq; simp [UInt8.le_iff_toNat_le] at h1
      · rename_i heq; simp at heq; obtain ⟨rfl, _⟩ := heq; simp [UInt8.le_iff_toNat_le] at h1
      · rename_i a' r _ _ _ heq
        simp at heq; obtain ⟨rfl, rfl⟩ := heq
        simp [hn, h1, h2, ih]
    | three a b c =>
      obtain ⟨h1, h2⟩ := hwfx
      have hn : ¬ a < 0x80 := by
        simp only [UInt8.lt_iff_toNat_lt, UInt8.le_iff_toNat_le] at *; simp at *; omega
      have hn2 : ¬ (0xC0 ≤ a ∧ a < 0xE0) := by
        simp only [UInt8.lt_iff_toNat_lt, UInt8.le_iff_toNat_le] at *; simp at *; omega
      simp only [Ch.bytes, List.cons_append, List.nil_append]
      rw [decode.eq_def]
      split
      · simp_all
      · rename_i heq; simp at heq; obtain ⟨rfl, _⟩ := heq; simp [UInt8.le_iff_toNat_le] at h1
      · rename_i heq; simp at heq; obtain ⟨rfl, _⟩ := heq; simp [UInt8.le_iff_toNat_le] at h1
      · rename_i heq; simp at heq; obtain ⟨rfl, _⟩ := heq; simp [UInt8.le_iff_toNat_le] at h1
      · rename_i a' r _ _ _ heq
        simp at heq; obtain ⟨rfl, rfl⟩ := heq
        simp [hn, hn2, h1, h2, ih]
    | four a b c d =>
      obtain ⟨h1, h2⟩ := hwfx
      have hn : ¬ a < 0x80 := by
        simp only [UInt8.lt_iff_toNat_lt, UInt8.le_iff_toNat_le] at *; simp at *; omega
      have hn2 : ¬ (0xC0 ≤ a ∧ a < 0xE0) := by
        simp only [UInt8.lt_iff_toNat_lt, UInt8.le_iff_toNat_le] at *; simp at *; omega
      have hn3 : ¬ (0xE0 ≤ a ∧ a < 0xF0) := by
        simp only [UInt8.lt_iff_toNat_lt, UInt8.le_iff_toNat_le] at *; simp at *; omega
      simp only [Ch.bytes, List.cons_append, List.nil_append]
      rw [decode.eq_def]
      split
      · simp_all
      · rename_i heq; simp at heq; obtain ⟨rfl, _⟩ := heq; simp [UInt8.le_iff_toNat_le] at h1
      · rename_i heq; simp at heq; obtain ⟨rfl, _⟩ := heq; simp [UInt8.le_iff_toNat_le] at h1
      · rename_i heq; simp at heq; obtain ⟨rfl, _⟩ := heq; simp [UInt8.le_iff_toNat_le] at h1
      · rename_i a' r _ _ _ heq
        simp at heq; obtain ⟨rfl, rfl⟩ := heq
        simp [hn, hn2, hn3, h1, h2, ih]
    | lf =>
      simp only [Ch.bytes, List.cons_append, List.nil_append]
      rw [decode.eq_def]; simp [ih]
    | crlf =>
      simp only [Ch.bytes, List.cons_append, List.nil_append]
      rw [decode.eq_def]; simp [ih]
    | cr =>
      simp only [Ch.bytes, List.cons_append, List.nil_append]
      cases xs with
      | nil => simp [encode, decode]
      | cons y r =>
        have hy : y ≠ .lf := by
          intro h; exact hc.1 ⟨rfl, h⟩
        obtain ⟨a, tl, hb, ha⟩ := head_ne_lf y (hwf y (by simp)) hy
        rw [encode_cons, hb] at ih ⊢
        simp only [List.cons_append] at ih ⊢
        rw [decode.eq_def]
        split
        · simp_all
        · rename_i heq; simp at heq; exact absurd heq.1 ha
        · rename_i r' _ heq; simp at heq; subst heq; simp [ih]
        · rename_i heq; simp at heq
        · rename_i a' r' h1 h2 h3 heq
          simp at heq; obtain ⟨rfl, rfl⟩ := heq
          exact (h2 rfl).elim

theorem spec_bounds (cs : List Ch) : ∀ (l c off e : Nat), specOffsetCh cs l c off = some e →
    off ≤ e ∧ e ≤ off + (encode cs).length := by
  induction cs with
  | nil => intro l c off e h; simp [specOffsetCh] at h; simp [encode]; omega
  | cons x xs ih =>
    intro l c off e h
    rw [encode_cons, List.length_append]
    cases l with
    | zero =>
      simp only [specOffsetCh] at h
      split at h
      · simp at h; omega
      · split at h
        · simp at h; omega
        · split at h
          · simp at h; omega
          · have := ih _ _ _ _ h; omega
    | succ l =>
      simp only [specOffsetCh] at h
      split at h <;> (have := ih _ _ _ _ h; omega)

end LuaHelper.TextProofs
