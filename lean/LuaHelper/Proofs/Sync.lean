import LuaHelper.Model.Sync
namespace LuaHelper.Sync
variable {S O : Type}

theorem runSteps_append (a b : List (Step S O)) (s : S) (acc : List O) :
    runSteps (a ++ b) s acc = runSteps b (runSteps a s acc).1 (runSteps a s acc).2 := by
  induction a generalizing s acc with
  | nil => rfl
  | cons f r ih => simp [runSteps, ih]

theorem serialRun_append (prog : Nat → List (Step S O)) (a b : List Nat) (s : S) (obs : Nat → List O) :
    serialRun prog (a ++ b) s obs = serialRun prog b (serialRun prog a s obs).1 (serialRun prog a s obs).2 := by
  induction a generalizing s obs with
  | nil => rfl
  | cons i r ih => simp [serialRun, ih]

theorem upd_same {α : Type} (f : Nat → α) (i : Nat) (v : α) : upd f i v i = v := by simp [upd]
theorem upd_other {α : Type} (f : Nat → α) (i j : Nat) (v : α) (h : j ≠ i) : upd f i v j = f j := by
  simp [upd, h]
theorem upd_upd {α : Type} (f : Nat → α) (i : Nat) (v w : α) : upd (upd f i v) i w = upd f i w := by
  funext j; by_cases h : j = i <;> simp [upd, h]

/-- The invariant: the concurrent configuration is the serial execution, in acquisition order, of
    the finished handlers followed by the steps the lock holder has taken so far. -/
def Inv (prog : Nat → List (Step S O)) (s0 : S) (c : Cfg S O) : Prop :=
  (∀ i ∈ c.order, c.fresh i = false) ∧
  match c.cur with
  | none => (c.st, c.obs) = serialRun prog c.order s0 (fun _ => [])
  | some (h, rem) =>
    c.fresh h = false ∧ h ∉ c.order ∧
    ∃ done, prog h = done ++ rem ∧
      let p := serialRun prog c.order s0 (fun _ => [])
      (c.st, c.obs h) = runSteps done p.1 [] ∧ ∀ j, j ≠ h → c.obs j = p.2 j

theorem inv_init (prog : Nat → List (Step S O)) (s0 : S) (n : Nat) : Inv prog s0 (init s0 n) := by
  simp [Inv, init, serialRun]

theorem exec_blocked (prog : Nat → List (Step S O)) (c : Cfg S O) (i h : Nat) (rem : List (Step S O))
    (hc : c.cur = some (h, rem)) (hne : i ≠ h) : exec prog c i = c := by
  simp [exec, hc, hne]

theorem exec_unlock (prog : Nat → List (Step S O)) (c : Cfg S O) (h : Nat)
    (hc : c.cur = some (h, [])) :
    exec prog c h = { c with cur := none, order := c.order ++ [h] } := by
  simp [exec, hc]

theorem exec_step (prog : Nat → List (Step S O)) (c : Cfg S O) (h : Nat) (f : Step S O)
    (r : List (Step S O)) (hc : c.cur = some (h, f :: r)) :
    exec prog c h = { c with st := (f c.st).1, obs := upd c.obs h (c.obs h ++ [(f c.st).2]),
                             cur := some (h, r) } := by
  simp [exec, hc]

theorem exec_acquire (prog : Nat → List (Step S O)) (c : Cfg S O) (i : Nat)
    (hc : c.cur = none) (hf : c.fresh i = true) :
    exec prog c i = { c with cur := some (i, prog i), fresh := upd c.fresh i false,
                             obs := upd c.obs i [] } := by
  simp [exec, hc, hf]

theorem exec_idle (prog : Nat → List (Step S O)) (c : Cfg S O) (i : Nat)
    (hc : c.cur = none) (hf : c.fresh i = false) : exec prog c i = c := by
  simp [exec, hc, hf]

theorem inv_exec (prog : Nat → List (Step S O)) (s0 : S) (c : Cfg S O) (i : Nat)
    (hinv : Inv prog s0 c) : Inv prog s0 (exec prog c i) := by
  obtain ⟨hfresh, hcur⟩ := hinv
  cases hc : c.cur with
  | none =>
    simp only [hc] at hcur
    have h1 : c.st = (serialRun prog c.order s0 fun _ => []).1 := by rw [← hcur]
    have h2 : c.obs = (serialRun prog c.order s0 fun _ => []).2 := by rw [← hcur]
    by_cases hf : c.fresh i = true
    · rw [exec_acquire prog c i hc hf]
      refine ⟨?_, ?_⟩
      · intro j hj
        by_cases hji : j = i
        · simp [upd, hji]
        · simp [upd, hji, hfresh j hj]
      · refine ⟨by simp [upd], ?_, [], by simp, ?_, ?_⟩
        · intro hmem; have := hfresh i hmem; rw [hf] at this; cases this
        · simp [runSteps, upd, h1]
        · intro j hj
          simp [upd, hj, h2]
    · have hf' : c.fresh i = false := by simpa using hf
      rw [exec_idle prog c i hc hf']
      exact ⟨hfresh, by simp only [hc]; exact hcur⟩
  | some hr =>
    obtain ⟨h, rem⟩ := hr
    simp only [hc] at hcur
    obtain ⟨hfh, hnot, done, hprog, hrun, hothers⟩ := hcur
    by_cases hih : i = h
    · subst hih
      cases rem with
      | nil =>
        rw [exec_unlock prog c i hc]
        refine ⟨?_, ?_⟩
        · intro j hj
          simp only [List.mem_append, List.mem_singleton] at hj
          cases hj with
          | inl hj => exact hfresh j hj
          | inr hj => rw [hj]; exact hfh
        · show (c.st, c.obs) = serialRun prog (c.order ++ [i]) s0 (fun _ => [])
          rw [serialRun_append]
          simp only [serialRun]
          have hd : prog i = done := by simpa using hprog
          rw [hd]
          have hrun' : (c.st, c.obs i) = runSteps done (serialRun prog c.order s0 fun _ => []).1 [] := hrun
          rw [← hrun']
          simp only [Prod.mk.injEq, true_and]
          funext j
          by_cases hj : j = i
          · simp [upd, hj]
          · simp [upd, hj, hothers j hj]
      | cons f r =>
        rw [exec_step prog c i f r hc]
        refine ⟨hfresh, hfh, hnot, done ++ [f], by simp [hprog], ?_, ?_⟩
        · have hrun' : (c.st, c.obs i) = runSteps done (serialRun prog c.order s0 fun _ => []).1 [] := hrun
          show ((f c.st).1, upd c.obs i (c.obs i ++ [(f c.st).2]) i) = runSteps (done ++ [f]) (serialRun prog c.order s0 fun _ => []).1 []
          rw [runSteps_append, ← hrun']
          simp [runSteps, upd]
        · intro j hj
          simp [upd, hj, hothers j hj]
    · rw [exec_blocked prog c i h rem hc hih]
      exact ⟨hfresh, by simp only [hc]; exact ⟨hfh, hnot, done, hprog, hrun, hothers⟩⟩

theorem inv_run (prog : Nat → List (Step S O)) (s0 : S) (n : Nat) (sched : List Nat) :
    Inv prog s0 (run prog s0 n sched) := by
  unfold run
  generalize hc : init s0 n = c
  have hi : Inv prog s0 c := by rw [← hc]; exact inv_init prog s0 n
  clear hc
  induction sched generalizing c with
  | nil => exact hi
  | cons i r ih => exact ih _ (inv_exec prog s0 c i hi)

end LuaHelper.Sync
