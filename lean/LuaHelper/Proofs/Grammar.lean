/-
Soundness of the generic recogniser of Spec/Grammar.lean: every end position it reports is reached by a
derivation (`Derives`) of the grammar expression from one of the start positions.  Used by Props/C03:
whatever the oracle accepts IS a valid chunk of the manual's grammar.
-/
import LuaHelper.Spec.Grammar
namespace LuaHelper.Grammar

/-- the token strings between two positions -/
def slice (inp : Array String) (i j : Nat) : List String := (inp.toList.drop i).take (j - i)

theorem slice_self (inp : Array String) (i : Nat) : slice inp i i = [] := by simp [slice]

theorem slice_append (inp : Array String) (i k j : Nat) (h1 : i ≤ k) (h2 : k ≤ j) :
    slice inp i k ++ slice inp k j = slice inp i j := by
  unfold slice
  have hk : inp.toList.drop k = (inp.toList.drop i).drop (k - i) := by
    rw [List.drop_drop]; congr 1; omega
  rw [hk]
  have hj : j - i = (k - i) + (j - k) := by omega
  rw [hj, List.take_add]

theorem slice_tok (inp : Array String) (i : Nat) (s : String) (h : inp[i]? = some s) : slice inp i (i + 1) = [s] := by
  unfold slice
  have : i + 1 - i = 1 := by omega
  rw [this]
  have hl : inp.toList[i]? = some s := by simpa using h
  have hlt : i < inp.toList.length := by
    rcases Nat.lt_or_ge i inp.toList.length with h1 | h1
    · exact h1
    · rw [List.getElem?_eq_none h1] at hl; cases hl
  rw [List.drop_eq_getElem_cons hlt]
  have : inp.toList[i] = s := by
    rw [List.getElem?_eq_getElem hlt] at hl; simpa using hl
  simp [this]

mutual
/-- grammar expressions without the oracle-only look-ahead `nla` -/
def okG : G → Bool
  | .nla _ => false
  | .seq l => okGs l
  | .alt l => okGs l
  | .star g => okG g
  | .opt g => okG g
  | _ => true
def okGs : List G → Bool
  | [] => true
  | g :: r => okG g && okGs r
end

theorem mem_insertPos (p q : Nat) (ps : List Nat) : q ∈ insertPos p ps ↔ q = p ∨ q ∈ ps := by
  unfold insertPos
  split
  · rename_i h
    constructor
    · intro hq; exact Or.inr hq
    · rintro (rfl | hq)
      · simpa using h
      · exact hq
  · simp

theorem mem_unionPos (a b : List Nat) (q : Nat) : q ∈ unionPos a b ↔ q ∈ a ∨ q ∈ b := by
  unfold unionPos
  induction a generalizing b with
  | nil => simp
  | cons x r ih =>
    simp only [List.foldl_cons]
    rw [ih, mem_insertPos]
    constructor
    · rintro (h | h | h)
      · exact Or.inl (by simp [h])
      · subst h; exact Or.inl (by simp)
      · exact Or.inr h
    · rintro (h | h)
      · rcases List.mem_cons.mp h with e | e
        · exact Or.inr (Or.inl e)
        · exact Or.inl e
      · exact Or.inr (Or.inr h)


theorem rules_ok : ∀ p ∈ rules, okG p.2 = true := by
  simp [rules, okG, okGs, binops, unops]

theorem lookup_ok (name : String) : okG (lookup name) = true := by
  unfold lookup
  cases h : rules.find? (·.1 == name) with
  | none => simp [okG, okGs]
  | some p => simpa using rules_ok p (List.mem_of_find?_eq_some h)

/-- the four mutually recursive recognisers are sound at every fuel -/
theorem recog_sound_all (inp : Array String) : ∀ fuel : Nat,
    (∀ g starts j, okG g = true → j ∈ recog lookup inp fuel g starts →
        ∃ i ∈ starts, i ≤ j ∧ Derives g (slice inp i j)) ∧
    (∀ gs starts j, okGs gs = true → j ∈ recogSeq lookup inp fuel gs starts →
        ∃ i ∈ starts, i ≤ j ∧ Derives (.seq gs) (slice inp i j)) ∧
    (∀ gs starts j, okGs gs = true → j ∈ recogAlt lookup inp fuel gs starts →
        ∃ i ∈ starts, i ≤ j ∧ Derives (.alt gs) (slice inp i j)) ∧
    (∀ g frontier acc rounds (starts0 : List Nat) j, okG g = true →
        (∀ p ∈ acc, ∃ i ∈ starts0, i ≤ p ∧ Derives (.star g) (slice inp i p)) →
        (∀ p ∈ frontier, p ∈ acc) →
        j ∈ recogStar lookup inp fuel g frontier acc rounds →
        ∃ i ∈ starts0, i ≤ j ∧ Derives (.star g) (slice inp i j)) := by
  intro fuel
  induction fuel with
  | zero =>
    refine ⟨?_, ?_, ?_, ?_⟩
    · intro g starts j _ h; simp [recog] at h
    · intro gs starts j _ h; simp [recogSeq] at h
    · intro gs starts j _ h; simp [recogAlt] at h
    · intro g frontier acc rounds starts0 j _ hacc _ h
      simp only [recogStar] at h
      exact hacc j h
  | succ f ih =>
    obtain ⟨ihG, ihS, ihA, ihR⟩ := ih
    refine ⟨?_, ?_, ?_, ?_⟩
    · -- recog
      intro g starts j hok h
      unfold recog at h
      split at h
      · simp at h
      · cases g with
        | t s =>
          simp only [List.mem_filterMap] at h
          obtain ⟨i, hi, hh⟩ := h
          split at hh
          · rename_i heq
            simp at hh
            subst hh
            exact ⟨i, hi, by omega, by rw [slice_tok inp i s (by simpa using heq)]; exact Derives.tok s⟩
          · simp at hh
        | n name =>
          obtain ⟨i, hi, hij, hd⟩ := ihG (lookup name) starts j (lookup_ok name) h
          exact ⟨i, hi, hij, Derives.nt name _ hd⟩
        | seq gs => exact ihS gs starts j (by simpa [okG] using hok) h
        | alt gs => exact ihA gs starts j (by simpa [okG] using hok) h
        | opt g =>
          rcases (mem_unionPos _ _ j).mp h with h1 | h1
          · exact ⟨j, h1, Nat.le_refl j, by rw [slice_self]; exact Derives.optNone g⟩
          · obtain ⟨i, hi, hij, hd⟩ := ihG g starts j (by simpa [okG] using hok) h1
            exact ⟨i, hi, hij, Derives.optSome g _ hd⟩
        | nla s => simp [okG] at hok
        | star g =>
          apply ihR g starts starts (inp.size + 1) starts j (by simpa [okG] using hok) ?_ (fun p hp => hp) h
          intro p hp
          exact ⟨p, hp, Nat.le_refl p, by rw [slice_self]; exact Derives.starNil g⟩
    · -- recogSeq
      intro gs starts j hok h
      cases gs with
      | nil =>
        simp only [recogSeq] at h
        exact ⟨j, h, Nat.le_refl j, by rw [slice_self]; exact Derives.seqNil⟩
      | cons g r =>
        simp only [okGs, Bool.and_eq_true] at hok
        simp only [recogSeq] at h
        obtain ⟨k, hk, hkj, hd2⟩ := ihS r _ j hok.2 h
        obtain ⟨i, hi, hik, hd1⟩ := ihG g starts k hok.1 hk
        refine ⟨i, hi, by omega, ?_⟩
        rw [← slice_append inp i k j hik hkj]
        exact Derives.seqCons g r _ _ hd1 hd2
    · -- recogAlt
      intro gs starts j hok h
      cases gs with
      | nil => simp [recogAlt] at h
      | cons g r =>
        simp only [okGs, Bool.and_eq_true] at hok
        simp only [recogAlt] at h
        rcases (mem_unionPos _ _ j).mp h with h1 | h1
        · obtain ⟨i, hi, hij, hd⟩ := ihG g starts j hok.1 h1
          exact ⟨i, hi, hij, Derives.altHere g r _ hd⟩
        · obtain ⟨i, hi, hij, hd⟩ := ihA r starts j hok.2 h1
          exact ⟨i, hi, hij, Derives.altThere g r _ hd⟩
    · -- recogStar
      intro g frontier acc rounds starts0 j hok hacc hsub h
      cases rounds with
      | zero =>
        simp only [recogStar] at h
        exact hacc j h
      | succ rounds =>
        simp only [recogStar] at h
        split at h
        · exact hacc j h
        · -- one more round: new positions are derived from a frontier position
          apply ihR g _ _ rounds starts0 j hok ?_ ?_ h
          · intro p hp
            rcases (mem_unionPos _ _ p).mp hp with h1 | h1
            · have hp' := (List.mem_filter.mp h1).1
              obtain ⟨k, hk, hkp, hd⟩ := ihG g frontier p hok hp'
              obtain ⟨i, hi, hik, hds⟩ := hacc k (hsub k hk)
              refine ⟨i, hi, by omega, ?_⟩
              -- star g derives (i..k), g derives (k..p): star g derives (i..p)
              rw [← slice_append inp i k p hik hkp]
              exact star_snoc g _ _ hds hd
            · exact hacc p h1
          · intro p hp
            exact (mem_unionPos _ _ p).mpr (Or.inl hp)
where
  star_snoc (g : G) (u v : List String) (h1 : Derives (.star g) u) (h2 : Derives g v) : Derives (.star g) (u ++ v) := by
    generalize hs : G.star g = sg at h1
    induction h1 with
    | starNil g' =>
      cases hs
      have := Derives.starCons g v [] h2 (Derives.starNil g)
      simpa using this
    | starCons g' a b ha hb _ ihb =>
      cases hs
      have := Derives.starCons g a (b ++ v) ha (ihb rfl)
      simpa [List.append_assoc] using this
    | tok _ => cases hs
    | nt _ _ _ _ => cases hs
    | seqNil => cases hs
    | seqCons _ _ _ _ _ _ _ _ => cases hs
    | altHere _ _ _ _ _ => cases hs
    | altThere _ _ _ _ _ => cases hs
    | optNone _ => cases hs
    | optSome _ _ _ _ => cases hs

/-- SOUNDNESS of the oracle: whatever `recognise` accepts is a valid chunk of the manual's grammar -/
theorem recognise_sound (w : List String) (h : recognise w = true) : ValidChunk w := by
  unfold recognise at h
  simp only [List.contains_iff_mem] at h
  obtain ⟨i, hi, _, hd⟩ := (recog_sound_all w.toArray _).1 (.n "chunk") [0] w.length (by simp [okG]) (by simpa using h)
  simp at hi
  subst hi
  unfold ValidChunk
  have : slice w.toArray 0 w.length = w := by simp [slice]
  rw [this] at hd
  exact hd

end LuaHelper.Grammar
