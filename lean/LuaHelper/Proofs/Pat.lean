/-
Helper lemmas for Props/C20: the decimal rendering of integers is injective (so "#int" + digits is an
injective encoding of integer keys), the duplicate-key scan written without accumulators.
-/
import LuaHelper.Model.Pat
namespace LuaHelper.Pat
open LuaHelper.Lex LuaHelper.Ast

theorem natBytes_ne_nil (n : Nat) : natBytes n ≠ [] := by
  rw [natBytes]; split <;> simp

theorem digit_inj (a b : Nat) (ha : a < 10) (hb : b < 10) (h : UInt8.ofNat (48 + a) = UInt8.ofNat (48 + b)) : a = b := by
  have := congrArg UInt8.toNat h
  simp at this
  omega

theorem natBytes_inj : ∀ (a b : Nat), natBytes a = natBytes b → a = b := by
  intro a
  induction a using Nat.strongRecOn with
  | _ a ih =>
    intro b h
    conv at h => lhs; rw [natBytes]
    conv at h => rhs; rw [natBytes]
    by_cases ha : a < 10 <;> by_cases hb : b < 10
    · simp only [ha, hb, if_true] at h
      exact digit_inj a b ha hb (by simpa using h)
    · simp only [ha, hb, if_true, if_false] at h
      have : natBytes (b / 10) = [] := by
        have hl := congrArg List.length h
        simp only [List.length_append, List.length_cons, List.length_nil] at hl
        exact List.eq_nil_of_length_eq_zero (by omega)
      exact absurd this (natBytes_ne_nil _)
    · simp only [ha, hb, if_true, if_false] at h
      have : natBytes (a / 10) = [] := by
        have hl := congrArg List.length h
        simp only [List.length_append, List.length_cons, List.length_nil] at hl
        exact List.eq_nil_of_length_eq_zero (by omega)
      exact absurd this (natBytes_ne_nil _)
    · simp only [ha, hb, if_false] at h
      have h2 := List.append_inj' h (by simp)
      have h3 := ih (a / 10) (by omega) (b / 10) h2.1
      have h4 := digit_inj (a % 10) (b % 10) (by omega) (by omega) (by simpa using h2.2)
      omega

theorem natBytes_no_minus (n : Nat) : ∀ b ∈ natBytes n, b ≠ 45 := by
  induction n using Nat.strongRecOn with
  | _ n ih =>
    intro b hb
    rw [natBytes] at hb
    split at hb
    · simp at hb
      subst hb
      intro h
      have := congrArg UInt8.toNat h
      simp at this
      omega
    · simp at hb
      rcases hb with hb | hb
      · exact ih (n / 10) (by omega) b hb
      · subst hb
        intro h
        have := congrArg UInt8.toNat h
        simp at this
        omega

theorem intStr_inj (a b : Int) (h : intStr a = intStr b) : a = b := by
  cases a with
  | ofNat x => cases b with
    | ofNat y => simp [intStr] at h; rw [natBytes_inj x y h]
    | negSucc y =>
      simp only [intStr] at h
      have hne := natBytes_ne_nil x
      cases hx : natBytes x with
      | nil => exact absurd hx hne
      | cons c r =>
        rw [hx] at h
        have := natBytes_no_minus x c (by simp [hx])
        simp at h
        exact absurd h.1 this
  | negSucc x => cases b with
    | ofNat y =>
      simp only [intStr] at h
      have hne := natBytes_ne_nil y
      cases hy : natBytes y with
      | nil => exact absurd hy hne
      | cons c r =>
        rw [hy] at h
        have := natBytes_no_minus y c (by simp [hy])
        simp at h
        exact absurd h.1.symm this
    | negSucc y =>
      simp [intStr] at h
      have := natBytes_inj _ _ h
      simp at this; rw [this]

/-- the duplicate-key scan without its accumulator -/
def dupFrom (parent : Loc) : List Exp → List Bytes → List Rep
  | [], _ => []
  | k :: r, seen =>
    match keyStr k parent with
    | none => dupFrom parent r seen
    | some (s, l) =>
      if seen.contains s then { ty := 5, loc := l, tag := s } :: dupFrom parent r seen else dupFrom parent r (s :: seen)

theorem go_eq (parent : Loc) : ∀ (ks : List Exp) (seen : List Bytes) (acc : List Rep),
    dupKeys.go parent ks seen acc = acc.reverse ++ dupFrom parent ks seen
  | [], seen, acc => by simp [dupKeys.go, dupFrom]
  | k :: r, seen, acc => by
    unfold dupKeys.go dupFrom
    cases hk : keyStr k parent with
    | none => simp only; exact go_eq parent r seen acc
    | some v =>
      obtain ⟨s, l⟩ := v
      simp only
      by_cases hs : seen.contains s = true
      · simp only [hs, if_true]
        rw [go_eq parent r seen _]
        simp
      · simp only [hs]
        exact go_eq parent r (s :: seen) acc

theorem dupKeys_eq (keys : List Exp) (parent : Loc) : dupKeys keys parent = dupFrom parent keys [] := by
  unfold dupKeys
  rw [go_eq]
  simp

end LuaHelper.Pat
