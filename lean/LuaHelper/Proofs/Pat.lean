/-
Helper lemmas for Props/C20: the decimal rendering of integers is injective (so "#int" + digits is an
injective encoding of integer keys), the duplicate-key scan written without accumulators.
-/
import LuaHelper.Model.Pat
import LuaHelper.Spec.Pat
namespace LuaHelper.Pat
open LuaHelper.Lex LuaHelper.Ast

theorem natBytes_ne_nil (n : Nat) : natBytes n ≠ [] := by
  rw [natBytes]; split <;> simp

theorem digit_inj (a b : Nat) (ha : a < 10) (hb : b < 10) (h : UInt8.ofNat (48 + a) = UInt8.ofNat (48 + b)) : a = b := by
  have := congrArg UInt8.toNat h
  simp at this
  omega

theorem natBytes_inj : ∀ (a b : Nat), natBytes a = natBytes b → a = b := by
  intro a
  induction a using Nat.strongRecOn with
  | _ a ih =>
    intro b h
    conv at h => lhs; rw [natBytes]
    conv at h => rhs; rw [natBytes]
    by_cases ha : a < 10 <;> by_cases hb : b < 10
    · simp only [ha, hb, if_true] at h
      exact digit_inj a b ha hb (by simpa using h)
    · simp only [ha, hb, if_true, if_false] at h
      have : natBytes (b / 10) = [] := by
        have hl := congrArg List.length h
        simp only [List.length_append, List.length_cons, List.length_nil] at hl
        exact List.eq_nil_of_length_eq_zero (by omega)
      exact absurd this (natBytes_ne_nil _)
    · simp only [ha, hb, if_true, if_false] at h
      have : natBytes (a / 10) = [] := by
        have hl := congrArg List.length h
        simp only [List.length_append, List.length_cons, List.length_nil] at hl
        exact List.eq_nil_of_length_eq_zero (by omega)
      exact absurd this (natBytes_ne_nil _)
    · simp only [ha, hb, if_false] at h
      have h2 := List.append_inj' h (by simp)
      have h3 := ih (a / 10) (by omega) (b / 10) h2.1
      have h4 := digit_inj (a % 10) (b % 10) (by omega) (by omega) (by simpa using h2.2)
      omega

theorem natBytes_no_minus (n : Nat) : ∀ b ∈ natBytes n, b ≠ 45 := by
  induction n using Nat.strongRecOn with
  | _ n ih =>
    intro b hb
    rw [natBytes] at hb
    split at hb
    · simp at hb
      subst hb
      intro h
      have := congrArg UInt8.toNat h
      simp at this
      omega
    · simp at hb
      rcases hb with hb | hb
      · exact ih (n / 10) (by omega) b hb
      · subst hb
        intro h
        have := congrArg UInt8.toNat h
        simp at this
        omega

theorem intStr_inj (a b : Int) (h : intStr a = intStr b) : a = b := by
  cases a with
  | ofNat x => cases b with
    | ofNat y => simp [intStr] at h; rw [natBytes_inj x y h]
    | negSucc y =>
      simp only [intStr] at h
      have hne := natBytes_ne_nil x
      cases hx : natBytes x with
      | nil => exact absurd hx hne
      | cons c r =>
        rw [hx] at h
        have := natBytes_no_minus x c (by simp [hx])
        simp at h
        exact absurd h.1 this
  | negSucc x => cases b with
    | ofNat y =>
      simp only [intStr] at h
      have hne := natBytes_ne_nil y
      cases hy : natBytes y with
      | nil => exact absurd hy hne
      | cons c r =>
        rw [hy] at h
        have := natBytes_no_minus y c (by simp [hy])
        simp at h
        exact absurd h.1.symm this
    | negSucc y =>
      simp [intStr] at h
      have := natBytes_inj _ _ h
      simp at this; rw [this]

/-- the duplicate-key scan without its accumulator -/
def dupFrom (parent : Loc) : List Exp → List Bytes → List Rep
  | [], _ => []
  | k :: r, seen =>
    match keyStr k parent with
    | none => dupFrom parent r seen
    | some (s, l) =>
      if seen.contains s then { ty := 5, loc := l, tag := s } :: dupFrom parent r seen else dupFrom parent r (s :: seen)

theorem go_eq (parent : Loc) : ∀ (ks : List Exp) (seen : List Bytes) (acc : List Rep),
    dupKeys.go parent ks seen acc = acc.reverse ++ dupFrom parent ks seen
  | [], seen, acc => by simp [dupKeys.go, dupFrom]
  | k :: r, seen, acc => by
    unfold dupKeys.go dupFrom
    cases hk : keyStr k parent with
    | none => simp only; exact go_eq parent r seen acc
    | some v =>
      obtain ⟨s, l⟩ := v
      simp only
      by_cases hs : seen.contains s = true
      · simp only [hs, if_true]
        rw [go_eq parent r seen _]
        simp
      · simp only [hs]
        exact go_eq parent r (s :: seen) acc

theorem dupKeys_eq (keys : List Exp) (parent : Loc) : dupKeys keys parent = dupFrom parent keys [] := by
  unfold dupKeys
  rw [go_eq]
  simp


/-! ### keys of every constant kind: digits, separators, reduced fractions, injectivity of the key text -/


theorem natBytes_digits (n : Nat) : ∀ b ∈ natBytes n, 48 ≤ b.toNat ∧ b.toNat ≤ 57 := by
  induction n using Nat.strongRecOn with
  | _ n ih =>
    intro b hb
    rw [natBytes] at hb
    split at hb
    · simp at hb
      subst hb
      simp
      omega
    · simp at hb
      rcases hb with hb | hb
      · exact ih (n / 10) (by omega) b hb
      · subst hb
        simp
        omega

theorem split_at_sep (c : UInt8) : ∀ (x x' y y' : Bytes), (∀ b ∈ x, b ≠ c) → (∀ b ∈ x', b ≠ c) →
    x ++ c :: y = x' ++ c :: y' → x = x' ∧ y = y'
  | [], [], y, y', _, _, h => by simpa using h
  | [], b :: x', y, y', _, hx', h => by
    simp at h
    exact absurd h.1.symm (hx' b (by simp))
  | a :: x, [], y, y', hx, _, h => by
    simp at h
    exact absurd h.1 (hx a (by simp))
  | a :: x, b :: x', y, y', hx, hx', h => by
    simp at h
    obtain ⟨rfl, h⟩ := h
    have := split_at_sep c x x' y y' (fun b hb => hx b (by simp [hb])) (fun b hb => hx' b (by simp [hb])) h
    exact ⟨by rw [this.1], this.2⟩

theorem fltVal_den_pos (t : Bytes) (n d : Nat) (h : fltVal t = some (n, d)) : 0 < d := by
  unfold fltVal at h
  simp only at h
  repeat' split at h
  all_goals first
    | (simp at h; done)
    | (simp only [Option.some.injEq, Prod.mk.injEq] at h; rw [← h.2]; exact Nat.pow_pos (by decide))

theorem reduced_eq_iff (n1 d1 n2 d2 : Nat) (h1 : 0 < d1) (h2 : 0 < d2) :
    (n1 / Nat.gcd n1 d1 = n2 / Nat.gcd n2 d2 ∧ d1 / Nat.gcd n1 d1 = d2 / Nat.gcd n2 d2) ↔ n1 * d2 = n2 * d1 := by
  have g1 : 0 < Nat.gcd n1 d1 := Nat.gcd_pos_of_pos_right _ h1
  have g2 : 0 < Nat.gcd n2 d2 := Nat.gcd_pos_of_pos_right _ h2
  have c1 : Nat.Coprime (n1 / Nat.gcd n1 d1) (d1 / Nat.gcd n1 d1) := Nat.coprime_div_gcd_div_gcd g1
  have c2 : Nat.Coprime (n2 / Nat.gcd n2 d2) (d2 / Nat.gcd n2 d2) := Nat.coprime_div_gcd_div_gcd g2
  have en1 : n1 = n1 / Nat.gcd n1 d1 * Nat.gcd n1 d1 := (Nat.div_mul_cancel (Nat.gcd_dvd_left _ _)).symm
  have ed1 : d1 = d1 / Nat.gcd n1 d1 * Nat.gcd n1 d1 := (Nat.div_mul_cancel (Nat.gcd_dvd_right _ _)).symm
  have en2 : n2 = n2 / Nat.gcd n2 d2 * Nat.gcd n2 d2 := (Nat.div_mul_cancel (Nat.gcd_dvd_left _ _)).symm
  have ed2 : d2 = d2 / Nat.gcd n2 d2 * Nat.gcd n2 d2 := (Nat.div_mul_cancel (Nat.gcd_dvd_right _ _)).symm
  generalize Nat.gcd n1 d1 = G1 at *
  generalize Nat.gcd n2 d2 = G2 at *
  generalize n1 / G1 = a at *
  generalize d1 / G1 = b at *
  generalize n2 / G2 = a' at *
  generalize d2 / G2 = b' at *
  subst en1 ed1 en2 ed2
  constructor
  · rintro ⟨rfl, rfl⟩
    simp only [Nat.mul_assoc, Nat.mul_left_comm, Nat.mul_comm]
  · intro h
    have hb : 0 < b := Nat.pos_of_mul_pos_right h1 |> fun _ => by
      rcases Nat.eq_zero_or_pos b with hb | hb
      · subst hb; simp at h1
      · exact hb
    have hb' : 0 < b' := by
      rcases Nat.eq_zero_or_pos b' with hb | hb
      · subst hb; simp at h2
      · exact hb
    have key : a * b' = a' * b := by
      have : (a * b') * (G1 * G2) = (a' * b) * (G1 * G2) := by
        calc (a * b') * (G1 * G2) = a * G1 * (b' * G2) := by simp only [Nat.mul_assoc, Nat.mul_left_comm, Nat.mul_comm]
          _ = a' * G2 * (b * G1) := h
          _ = (a' * b) * (G1 * G2) := by simp only [Nat.mul_assoc, Nat.mul_left_comm, Nat.mul_comm]
      exact Nat.eq_of_mul_eq_mul_right (Nat.mul_pos g1 g2) this
    have d1' : a ∣ a' := by
      have : a ∣ a' * b := ⟨b', key.symm⟩
      exact c1.dvd_of_dvd_mul_right this
    have d2' : a' ∣ a := by
      have : a' ∣ a * b' := ⟨b, key⟩
      exact c2.dvd_of_dvd_mul_right this
    have ea : a = a' := Nat.dvd_antisymm d1' d2'
    subst ea
    refine ⟨rfl, ?_⟩
    rcases Nat.eq_zero_or_pos a with ha | ha
    · subst ha
      have hb1 : b = 1 := by simpa [Nat.Coprime] using c1
      have hb2 : b' = 1 := by simpa [Nat.Coprime] using c2
      rw [hb1, hb2]
    · exact (Nat.eq_of_mul_eq_mul_left ha key).symm

theorem natBytes_head_digit (n : Nat) (r : Bytes) (t : Bytes) (h : natBytes n ++ r = 63 :: t) : False := by
  have hne := natBytes_ne_nil n
  cases hx : natBytes n with
  | nil => exact hne hx
  | cons b bs =>
    rw [hx] at h
    simp at h
    have := natBytes_digits n b (by rw [hx]; simp)
    rw [h.1] at this
    simp at this

theorem fltKey_eq_iff (a b : Bytes) : fltKey a = fltKey b ↔ fltEq a b = true := by
  unfold fltKey fltEq
  cases ha : fltVal a with
  | none =>
    cases hb : fltVal b with
    | none => simp
    | some v =>
      obtain ⟨n2, d2⟩ := v
      simp only
      constructor
      · intro h; exact (natBytes_head_digit _ _ _ h.symm).elim
      · intro h
        have : a = b := by simpa using h
        rw [this, hb] at ha; cases ha
  | some u =>
    obtain ⟨n1, d1⟩ := u
    cases hb : fltVal b with
    | none =>
      simp only
      constructor
      · intro h; exact (natBytes_head_digit _ _ _ h).elim
      · intro h
        have : a = b := by simpa using h
        rw [this, hb] at ha; cases ha
    | some v =>
      obtain ⟨n2, d2⟩ := v
      simp only
      have p1 := fltVal_den_pos a n1 d1 ha
      have p2 := fltVal_den_pos b n2 d2 hb
      have nd : ∀ n : Nat, ∀ x ∈ natBytes n, x ≠ 47 := by
        intro n x hx h
        have := natBytes_digits n x hx
        rw [h] at this
        simp at this
      constructor
      · intro h
        have := split_at_sep 47 _ _ _ _ (nd _) (nd _) h
        have e1 := natBytes_inj _ _ this.1
        have e2 := natBytes_inj _ _ this.2
        have := (reduced_eq_iff n1 d1 n2 d2 p1 p2).1 ⟨e1, e2⟩
        simpa using this
      · intro h
        have h' : n1 * d2 = n2 * d1 := by simpa using h
        have := (reduced_eq_iff n1 d1 n2 d2 p1 p2).2 h'
        rw [this.1, this.2]


theorem TK.all_get (k : TK) : TK.all[k.toNat]? = some k := by cases k <;> rfl
theorem TK.toNat_inj (a b : TK) (h : a.toNat = b.toNat) : a = b := by
  have ha := TK.all_get a
  have hb := TK.all_get b
  rw [h] at ha
  rw [ha] at hb
  exact Option.some.inj hb

theorem keyStr_unop (o : TK) (e : Exp) (l p : Loc) (s : Bytes) (l' : Loc)
    (h : keyStr (.unop o e l) p = some (s, l')) :
    ∃ s' l'', keyStr e p = some (s', l'') ∧ s = opKeyPrefix ++ natBytes o.toNat ++ 58 :: s' := by
  rw [keyStr] at h
  cases hk : keyStr e p with
  | none => rw [hk] at h; simp at h
  | some v =>
    obtain ⟨s', l''⟩ := v
    rw [hk] at h
    simp at h
    exact ⟨s', l'', rfl, h.1.symm⟩

theorem keyStr_eq_iff (p : Loc) : (k1 k2 : Exp) → (s1 s2 : Bytes) → (l1 l2 : Loc) →
    keyStr k1 p = some (s1, l1) → keyStr k2 p = some (s2, l2) → (s1 = s2 ↔ compExp k1 k2 = true)
  | .unop o1 e1 lu, k2, s1, s2, l1, l2, h1, h2 => by
    obtain ⟨t1, m1, he1, rfl⟩ := keyStr_unop o1 e1 lu p s1 l1 h1
    cases k2 with
    | unop o2 e2 lv =>
      obtain ⟨t2, m2, he2, rfl⟩ := keyStr_unop o2 e2 lv p s2 l2 h2
      have ih := keyStr_eq_iff p e1 e2 t1 t2 m1 m2 he1 he2
      have nd : ∀ n : Nat, ∀ x ∈ natBytes n, x ≠ 58 := by
        intro n x hx h
        have := natBytes_digits n x hx
        rw [h] at this
        simp at this
      simp only [compExp, Bool.and_eq_true, beq_iff_eq]
      constructor
      · intro h
        rw [List.append_assoc, List.append_assoc] at h
        have h' := List.append_cancel_left h
        have := split_at_sep 58 _ _ _ _ (nd _) (nd _) h'
        exact ⟨TK.toNat_inj _ _ (natBytes_inj _ _ this.1), ih.1 this.2⟩
      · rintro ⟨rfl, hc⟩
        rw [ih.2 hc]
    | _ => simp [keyStr, opKeyPrefix, intKeyPrefix, trueKey, falseKey, fltKeyPrefix, compExp] at h2 ⊢ <;> (try (rw [← h2.1])) <;> simp [opKeyPrefix]
  | .int v l0, k2, s1, s2, l1, l2, h1, h2 => by
    cases k2 with
    | unop o2 e2 lv =>
      obtain ⟨t2, m2, _, rfl⟩ := keyStr_unop o2 e2 lv p s2 l2 h2
      simp [keyStr, opKeyPrefix, intKeyPrefix, trueKey, falseKey, fltKeyPrefix, compExp] at h1 ⊢
      rw [← h1.1]; simp
    | _ => (simp [keyStr, opKeyPrefix, intKeyPrefix, trueKey, falseKey, fltKeyPrefix, compExp] at h1 h2 ⊢) <;> (obtain ⟨rfl, rfl⟩ := h1; obtain ⟨rfl, rfl⟩ := h2; simp [compExp]; first | done | exact ⟨intStr_inj _ _, fun h => by rw [h]⟩ | exact fltKey_eq_iff _ _)
  | .str s l0, k2, s1, s2, l1, l2, h1, h2 => by
    cases k2 with
    | unop o2 e2 lv =>
      obtain ⟨t2, m2, _, rfl⟩ := keyStr_unop o2 e2 lv p s2 l2 h2
      simp [keyStr, opKeyPrefix, intKeyPrefix, trueKey, falseKey, fltKeyPrefix, compExp] at h1 ⊢
      rw [← h1.1]; simp
    | _ => (simp [keyStr, opKeyPrefix, intKeyPrefix, trueKey, falseKey, fltKeyPrefix, compExp] at h1 h2 ⊢) <;> (obtain ⟨rfl, rfl⟩ := h1; obtain ⟨rfl, rfl⟩ := h2; simp [compExp]; first | done | exact ⟨intStr_inj _ _, fun h => by rw [h]⟩ | exact fltKey_eq_iff _ _)
  | .name n l0, k2, s1, s2, l1, l2, h1, h2 => by
    cases k2 with
    | unop o2 e2 lv =>
      obtain ⟨t2, m2, _, rfl⟩ := keyStr_unop o2 e2 lv p s2 l2 h2
      simp [keyStr, opKeyPrefix, intKeyPrefix, trueKey, falseKey, fltKeyPrefix, compExp] at h1 ⊢
      rw [← h1.1]; simp
    | _ => (simp [keyStr, opKeyPrefix, intKeyPrefix, trueKey, falseKey, fltKeyPrefix, compExp] at h1 h2 ⊢) <;> (obtain ⟨rfl, rfl⟩ := h1; obtain ⟨rfl, rfl⟩ := h2; simp [compExp]; first | done | exact ⟨intStr_inj _ _, fun h => by rw [h]⟩ | exact fltKey_eq_iff _ _)
  | .tru l0, k2, s1, s2, l1, l2, h1, h2 => by
    cases k2 with
    | unop o2 e2 lv =>
      obtain ⟨t2, m2, _, rfl⟩ := keyStr_unop o2 e2 lv p s2 l2 h2
      simp [keyStr, opKeyPrefix, intKeyPrefix, trueKey, falseKey, fltKeyPrefix, compExp] at h1 ⊢
      rw [← h1.1]; simp
    | _ => (simp [keyStr, opKeyPrefix, intKeyPrefix, trueKey, falseKey, fltKeyPrefix, compExp] at h1 h2 ⊢) <;> (obtain ⟨rfl, rfl⟩ := h1; obtain ⟨rfl, rfl⟩ := h2; simp [compExp]; first | done | exact ⟨intStr_inj _ _, fun h => by rw [h]⟩ | exact fltKey_eq_iff _ _)
  | .fls l0, k2, s1, s2, l1, l2, h1, h2 => by
    cases k2 with
    | unop o2 e2 lv =>
      obtain ⟨t2, m2, _, rfl⟩ := keyStr_unop o2 e2 lv p s2 l2 h2
      simp [keyStr, opKeyPrefix, intKeyPrefix, trueKey, falseKey, fltKeyPrefix, compExp] at h1 ⊢
      rw [← h1.1]; simp
    | _ => (simp [keyStr, opKeyPrefix, intKeyPrefix, trueKey, falseKey, fltKeyPrefix, compExp] at h1 h2 ⊢) <;> (obtain ⟨rfl, rfl⟩ := h1; obtain ⟨rfl, rfl⟩ := h2; simp [compExp]; first | done | exact ⟨intStr_inj _ _, fun h => by rw [h]⟩ | exact fltKey_eq_iff _ _)
  | .flt t l0, k2, s1, s2, l1, l2, h1, h2 => by
    cases k2 with
    | unop o2 e2 lv =>
      obtain ⟨t2, m2, _, rfl⟩ := keyStr_unop o2 e2 lv p s2 l2 h2
      simp [keyStr, opKeyPrefix, intKeyPrefix, trueKey, falseKey, fltKeyPrefix, compExp] at h1 ⊢
      rw [← h1.1]; simp
    | _ => (simp [keyStr, opKeyPrefix, intKeyPrefix, trueKey, falseKey, fltKeyPrefix, compExp] at h1 h2 ⊢) <;> (obtain ⟨rfl, rfl⟩ := h1; obtain ⟨rfl, rfl⟩ := h2; simp [compExp]; first | done | exact ⟨intStr_inj _ _, fun h => by rw [h]⟩ | exact fltKey_eq_iff _ _)
  | .noKey, _, _, _, _, _, h1, _ => by simp [keyStr] at h1
  | .nil _, _, _, _, _, _, h1, _ => by simp [keyStr] at h1
  | .vararg _, _, _, _, _, _, h1, _ => by simp [keyStr] at h1
  | .binop _ _ _ _, _, _, _, _, _, h1, _ => by simp [keyStr] at h1
  | .table _ _ _, _, _, _, _, _, h1, _ => by simp [keyStr] at h1
  | .func _, _, _, _, _, _, h1, _ => by simp [keyStr] at h1
  | .parens _ _, _, _, _, _, _, h1, _ => by simp [keyStr] at h1
  | .index _ _ _, _, _, _, _, _, h1, _ => by simp [keyStr] at h1
  | .call _ _ _ _, _, _, _, _, _, h1, _ => by simp [keyStr] at h1
  | .bad _, _, _, _, _, _, h1, _ => by simp [keyStr] at h1



theorem keyStr_isSome (p : Loc) : (k : Exp) → (keyStr k p).isSome = PatSpec.litKey k
  | .unop o e l => by
    have ih := keyStr_isSome p e
    rw [keyStr, PatSpec.litKey]
    cases hk : keyStr e p with
    | none => rw [hk] at ih; simpa using ih
    | some v => rw [hk] at ih; simpa using ih
  | .int _ _ | .str _ _ | .name _ _ | .tru _ | .fls _ | .flt _ _ => by simp [keyStr, PatSpec.litKey]
  | .noKey | .nil _ | .vararg _ | .binop _ _ _ _ | .table _ _ _ | .func _ | .parens _ _ | .index _ _ _
  | .call _ _ _ _ | .bad _ => by simp [keyStr, PatSpec.litKey]

theorem keyStr_loc (p : Loc) (k : Exp) (s : Bytes) (l : Loc) (h : keyStr k p = some (s, l)) : l = PatSpec.keyLoc k p := by
  cases k <;> simp [keyStr, PatSpec.keyLoc, expLoc] at h ⊢ <;> try (exact h.2.symm)
  rename_i o e lu
  cases hk : keyStr e p with
  | none => rw [hk] at h; simp at h
  | some v => rw [hk] at h; simp at h; exact h.2.symm

theorem compExp_litKey : (a b : Exp) → compExp a b = true → PatSpec.litKey b = true → PatSpec.litKey a = true
  | .unop o1 e1 _, b, h, hb => by
    cases b <;> simp [compExp, PatSpec.litKey] at h hb ⊢
    rename_i o2 e2 _
    exact compExp_litKey e1 e2 h.2 hb
  | .int _ _, _, _, _ | .str _ _, _, _, _ | .name _ _, _, _, _ | .tru _, _, _, _ | .fls _, _, _, _ | .flt _ _, _, _, _ => by
    simp [PatSpec.litKey]
  | .noKey, b, h, hb | .nil _, b, h, hb | .vararg _, b, h, hb | .binop _ _ _ _, b, h, hb | .table _ _ _, b, h, hb
  | .func _, b, h, hb | .parens _ _, b, h, hb | .index _ _ _, b, h, hb | .call _ _ _ _, b, h, hb | .bad _, b, h, hb => by
    cases b <;> simp [compExp, PatSpec.litKey] at h hb

end LuaHelper.Pat
