/-
C14 — "Completion offers the names that are in scope at the cursor, and only those".

`GetCompleteVar` offers, in every scope of the chain from the cursor's smallest scope outwards, the
declarations that START at or before the cursor.  For one scope (any declaration list):
  * `complete_has_visible`  : every declaration visible under Lua's rule is offered;
  * `complete_only_visible` : an offered declaration that is NOT visible has the cursor inside its own
    declaring statement — finding class C14-K1 ('local abc = ab|'), and nothing else;
  * `K1_witness`.
For the whole chain of enclosing scopes and the typed prefix (any depth, any number of declarations):
  * `chain_offers_every_visible` : every declaration of an enclosing scope that is visible under Lua's rule and
    whose name starts with the prefix is in the offered list;
  * `chain_offers_only_visible_or_K1` : every offered declaration has the prefix, belongs to an enclosing scope,
    and is visible or has the cursor inside its own declaring statement (class K1) — in particular a local
    declared later, and (because only enclosing scopes are in the chain) a local of a block that does not
    enclose the cursor, is never offered.
Which scopes form the chain (FindMinScope) is validated by correspondence.
-/
import LuaHelper.Props.C05
namespace LuaHelper.C14
open LuaHelper.Lex LuaHelper.Scope LuaHelper.C05

/-- the per-scope candidate test of `GetCompleteVar` -/
def offered (d : FDecl) (line col : Int) : Bool :=
  d.var.loc.sl < line || (d.var.loc.sl == line && d.var.loc.sc ≤ col)

/-- Lua visibility for completion: the declaring statement has ended (a `local function` is visible
    inside its own body) -/
def visible (d : FDecl) (line col : Int) : Bool := visibleAt d line col

theorem complete_has_visible (d : FDecl) (hwf : d.wf) (line col : Int) (hv : visible d line col = true) :
    offered d line col = true := by
  obtain ⟨hline, hend, _⟩ := hwf
  unfold visible visibleAt afterStmt at hv
  unfold offered
  cases hr : d.var.ref with
  | func l =>
    simp only [hr] at hv
    by_cases hc : isContainLoc l d.var.loc = true
    · simp only [hc, if_true] at hv
      unfold isBeforeLoc pt at hv
      simpa using hv
    · simp only [hc, Bool.false_eq_true, if_false] at hv
      simp at hv ⊢
      omega
  | none => simp only [hr] at hv; simp at hv ⊢; omega
  | other => simp only [hr] at hv; simp at hv ⊢; omega
  | name l => simp only [hr] at hv; simp at hv ⊢; omega
  | call l => simp only [hr] at hv; simp at hv ⊢; omega
#print axioms complete_has_visible

/-- the cursor lies inside the declaring statement of `d`, at or after the start of its name -/
def insideOwnStatement (d : FDecl) (line col : Int) : Bool :=
  offered d line col && !afterStmt d line col

theorem complete_only_visible (d : FDecl) (line col : Int)
    (ho : offered d line col = true) (hv : visible d line col = false) :
    insideOwnStatement d line col = true := by
  unfold insideOwnStatement
  simp only [ho, Bool.true_and, Bool.not_eq_eq_eq_not, Bool.not_true]
  unfold visible visibleAt at hv
  cases hr : d.var.ref with
  | func l =>
    simp only [hr] at hv
    by_cases hc : isContainLoc l d.var.loc = true
    · simp only [hc, if_true] at hv
      unfold offered at ho
      unfold isBeforeLoc pt at hv
      simp at ho hv
      omega
    · simp only [hc, Bool.false_eq_true, if_false] at hv; exact hv
  | none => simp only [hr] at hv; exact hv
  | other => simp only [hr] at hv; exact hv
  | name l => simp only [hr] at hv; exact hv
  | call l => simp only [hr] at hv; exact hv
#print axioms complete_only_visible

/-- `local abc = ab|` (cursor at column 14 of line 1, statement ends at column 14): offered, not visible -/
theorem K1_witness :
    let d : FDecl := { var := { name := [97, 98, 99], loc := ⟨1, 6, 1, 9⟩, ref := .name ⟨1, 12, 1, 14⟩ }, endLine := 1, endCol := 14 }
    offered d 1 14 = true ∧ visible d 1 14 = false ∧ insideOwnStatement d 1 14 = true := by decide
#print axioms K1_witness

/-! ### the whole chain of enclosing scopes, with the typed prefix -/

/-- what `GetCompleteVar` collects walking the chain outwards, filtered by the typed prefix -/
def offeredChain (chain : List (List FDecl)) (pre : Bytes) (line col : Int) : List FDecl :=
  chain.flatMap fun ds => ds.filter fun d => offered d line col && pre.isPrefixOf d.var.name

theorem chain_offers_every_visible (chain : List (List FDecl)) (hwf : ∀ ds ∈ chain, ∀ d ∈ ds, d.wf)
    (pre : Bytes) (line col : Int) (ds : List FDecl) (hds : ds ∈ chain) (d : FDecl) (hd : d ∈ ds)
    (hv : visible d line col = true) (hp : pre.isPrefixOf d.var.name = true) :
    d ∈ offeredChain chain pre line col := by
  unfold offeredChain
  rw [List.mem_flatMap]
  refine ⟨ds, hds, ?_⟩
  rw [List.mem_filter]
  exact ⟨hd, by simp [complete_has_visible d (hwf ds hds d hd) line col hv, hp]⟩
#print axioms chain_offers_every_visible

theorem chain_offers_only_visible_or_K1 (chain : List (List FDecl)) (pre : Bytes) (line col : Int) (d : FDecl)
    (h : d ∈ offeredChain chain pre line col) :
    (∃ ds ∈ chain, d ∈ ds) ∧ pre.isPrefixOf d.var.name = true ∧
      (visible d line col = true ∨ insideOwnStatement d line col = true) := by
  unfold offeredChain at h
  rw [List.mem_flatMap] at h
  obtain ⟨ds, hds, hd⟩ := h
  rw [List.mem_filter] at hd
  obtain ⟨hd, hf⟩ := hd
  simp only [Bool.and_eq_true] at hf
  refine ⟨⟨ds, hds, hd⟩, hf.2, ?_⟩
  cases hv : visible d line col with
  | true => exact Or.inl rfl
  | false => exact Or.inr (complete_only_visible d line col hf.1 hv)
#print axioms chain_offers_only_visible_or_K1

/-- a local declared after the cursor is never offered, whatever the chain -/
theorem declared_later_not_offered (chain : List (List FDecl)) (pre : Bytes) (line col : Int) (d : FDecl)
    (hlater : line < d.var.loc.sl ∨ (line = d.var.loc.sl ∧ col < d.var.loc.sc)) :
    d ∉ offeredChain chain pre line col := by
  intro h
  unfold offeredChain at h
  rw [List.mem_flatMap] at h
  obtain ⟨ds, _, hd⟩ := h
  rw [List.mem_filter] at hd
  have ho := hd.2
  simp only [Bool.and_eq_true] at ho
  have := ho.1
  unfold offered at this
  simp at this
  omega
#print axioms declared_later_not_offered

end LuaHelper.C14
