/-
C14 — "Completion offers the names that are in scope at the cursor, and only those".

`GetCompleteVar` offers, in every scope of the chain from the cursor's smallest scope outwards, the
declarations that pass the position test of the resolver (`IsCorrectPosition`; since the repair 7e9e18b —
before it: every declaration that STARTS at or before the cursor, which offered 'local abc = ab|' its own
name, the former finding C14-K1).  For one declaration (`offered_iff_visible`) the test IS Lua's visibility
rule (Props/C05 `position_test_exact`).  For the whole chain of enclosing scopes and the typed prefix (any
depth, any number of declarations):
  * `chain_offers_every_visible` : every declaration of an enclosing scope that is visible under Lua's rule and
    whose name starts with the prefix is in the offered list;
  * `chain_offers_only_visible` : every offered declaration has the prefix, belongs to an enclosing scope and
    is visible — in particular a local declared later (`declared_later_not_offered`), a local inside its own
    declaring statement (`own_statement_not_offered`) and (because only enclosing scopes are in the chain) a
    local of a block that does not enclose the cursor, is never offered.
Which scopes form the chain (FindMinScope) is Props/C05 `chainIn_path`; the tree construction is validated by
correspondence.
-/
import LuaHelper.Props.C05
namespace LuaHelper.C14
open LuaHelper.Lex LuaHelper.Scope LuaHelper.C05

/-- `GetCompleteVar` as it stands in /repo now (regenerated on every run): per name of a scope, the last
    declaration that passes `IsCorrectPosition` is offered; then the parent scope -/
theorem complete_code_shape :
    Gen.completeVarShape =
      ["range scope.LocVarMap {if !IsCompleteNeedShow(strName,completeVar) {continue};if cache.ExistStr(strName) {continue};for index:=len(locInfoList.VarVec)-1;index>=0;index-- {if !locVar.IsCorrectPosition(loc) {continue};call:InsertCompleteVar;break}}",
       "if scope.Parent!=nil {}"] := by rfl
#print axioms complete_code_shape

/-- the per-scope candidate test of `GetCompleteVar` -/
def offered (d : Var) (line col : Int) : Bool := isCorrectPosition d (pt line col)

/-- Lua visibility for completion: the declaring statement has ended (a `local function` is visible
    inside its own body) -/
def visible (d : Var) (line col : Int) : Bool := visibleAt d line col

/-- a declaration is offered exactly when it is visible -/
theorem offered_iff_visible (d : Var) (hwf : wfVar d) (line col : Int) : offered d line col = visible d line col :=
  position_test_exact d hwf line col
#print axioms offered_iff_visible

/-! ### the whole chain of enclosing scopes, with the typed prefix -/

/-- what `GetCompleteVar` collects walking the chain outwards, filtered by the typed prefix -/
def offeredChain (chain : List (List Var)) (pre : Bytes) (line col : Int) : List Var :=
  chain.flatMap fun ds => ds.filter fun d => offered d line col && pre.isPrefixOf d.name

theorem chain_offers_every_visible (chain : List (List Var)) (hwf : ∀ ds ∈ chain, ∀ d ∈ ds, wfVar d)
    (pre : Bytes) (line col : Int) (ds : List Var) (hds : ds ∈ chain) (d : Var) (hd : d ∈ ds)
    (hv : visible d line col = true) (hp : pre.isPrefixOf d.name = true) :
    d ∈ offeredChain chain pre line col := by
  unfold offeredChain
  rw [List.mem_flatMap]
  refine ⟨ds, hds, ?_⟩
  rw [List.mem_filter]
  exact ⟨hd, by simp [offered_iff_visible d (hwf ds hds d hd) line col, hv, hp]⟩
#print axioms chain_offers_every_visible

theorem chain_offers_only_visible (chain : List (List Var)) (hwf : ∀ ds ∈ chain, ∀ d ∈ ds, wfVar d)
    (pre : Bytes) (line col : Int) (d : Var) (h : d ∈ offeredChain chain pre line col) :
    (∃ ds ∈ chain, d ∈ ds) ∧ pre.isPrefixOf d.name = true ∧ visible d line col = true := by
  unfold offeredChain at h
  rw [List.mem_flatMap] at h
  obtain ⟨ds, hds, hd⟩ := h
  rw [List.mem_filter] at hd
  obtain ⟨hd, hf⟩ := hd
  simp only [Bool.and_eq_true] at hf
  refine ⟨⟨ds, hds, hd⟩, hf.2, ?_⟩
  rw [← offered_iff_visible d (hwf ds hds d hd) line col]
  exact hf.1
#print axioms chain_offers_only_visible

/-- a local declared after the cursor is never offered, whatever the chain -/
theorem declared_later_not_offered (chain : List (List Var)) (pre : Bytes) (line col : Int) (d : Var)
    (hlater : line < d.loc.sl ∨ (line = d.loc.sl ∧ col < d.loc.sc)) :
    d ∉ offeredChain chain pre line col := by
  intro h
  unfold offeredChain at h
  rw [List.mem_flatMap] at h
  obtain ⟨ds, _, hd⟩ := h
  rw [List.mem_filter] at hd
  have ho := hd.2
  simp only [Bool.and_eq_true] at ho
  have := ho.1
  unfold offered isCorrectPosition isBeforeLoc pt at this
  simp at this
  omega
#print axioms declared_later_not_offered

/-- the former finding C14-K1: `local abc = ab|` (cursor at column 14 of line 1, the end of the statement)
    no longer offers `abc`; on the next line it does -/
theorem own_statement_not_offered :
    let d : Var := { name := [97, 98, 99], loc := ⟨1, 6, 1, 9⟩, ref := .name ⟨1, 12, 1, 14⟩, region := some ⟨1, 0, 1, 14⟩ }
    offered d 1 14 = false ∧ offered d 2 0 = true := by decide
#print axioms own_statement_not_offered

end LuaHelper.C14
