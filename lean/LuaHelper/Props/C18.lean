/-
C18 — "Module paths resolve as documented, consistently across features".

Model: Model/Mod.lean (candidate tests + score of GetBestMatchReferFile, the order of attempts of
CheckReferFile for `require` and of go-to-definition on the string), tied to the code by running the
real GetBestMatchReferFile over a real FileIndexInfo and the real server on generated directory trees.
Proved here, for ALL file sets, workspace roots, requiring files and module strings:
 * `best_*`: the selection never invents a file (⊆ candidates), never drops all of them (non-empty iff
   candidates exist), and a single candidate is returned as it is;
 * `resolveRequire_sound`: whatever the analysis loads is a workspace file whose path matches;
 * `diag_iff_no_match`: "file not found" (empty result) ⇔ no file matches name.* nor name/init.lua;
 * `matchPre_eq_spec`, `matchInit_eq_spec`, `resolve_empty_iff_spec`: for workspaces without dotted
   file names in which the directories ABOVE the workspace root do not complete a match, the model's
   candidate tests are the documented mapping (name.lua under the module's directories, else
   name/init.lua), so the type-6 diagnostic appears exactly when the documented mapping finds nothing;
 * `pickMin_le`, `pickMin_order_independent`, `choose_mem_best`, `choose_none_iff`, `tie_resolved`: among
   equally ranked candidates the one with the smallest path is loaded (fix 79a7ee2), whatever order the
   candidates are visited in — the analysis and go-to-definition on the string agree, run after run.
-/
import LuaHelper.Model.Mod
import LuaHelper.Gen.Shapes
namespace LuaHelper.C18
open LuaHelper.Mod

/-- the code the model was written after, as it stands in /repo now (regenerated on every run): the
    order of look-ups in CheckReferFile (suffix mode: exact, fuzzy, report; full-path mode: .so, .lua,
    init.lua, report; default mode: .so, fuzzy name, fuzzy name/init.lua, report), the literals it
    appends, and the constants of calcMatchStrScore (−1000000 no match, −1000 per directory, +10 per
    shared leading directory) -/
theorem resolution_code_shape :
    Gen.referAttempts =
      ["MatchCompleteReferFile", "GetBestMatchReferFile", "InsertError",
       "MatchAllDirReferFile", "MatchAllDirReferFile", "MatchAllDirReferFile", "InsertError",
       "MatchAllDirReferFile", "GetBestMatchReferFile", "GetBestMatchReferFile", "InsertError"] ∧
    Gen.referLiterals = [".", "/", ".so", ".lua", "/init.lua", ".so", "/init.lua"] ∧
    Gen.scoreConsts = ["0", "1", "1000000", "0", "1000", "10"] := by decide
#print axioms resolution_code_shape

/-! ### selection among candidates -/

theorem best_subset (root cur rs : List String) (cands : List File) :
    ∀ f ∈ best root cur rs cands, f ∈ cands := by
  intro f hf
  unfold best at hf
  split at hf
  · simp at hf
  · simpa using hf
  · split at hf
    · exact (List.mem_filter.mp hf).1
    · simp at hf

theorem maxScore_some (root cur rs : List String) (f : File) (r : List File) :
    ∃ m, maxScore root cur rs (f :: r) = some m := by
  unfold maxScore
  split <;> simp

/-- the maximum is attained -/
theorem maxScore_attained (root cur rs : List String) (cands : List File) (m : Int)
    (h : maxScore root cur rs cands = some m) : ∃ f ∈ cands, score root cur rs f = m := by
  induction cands generalizing m with
  | nil => simp [maxScore] at h
  | cons f r ih =>
    unfold maxScore at h
    split at h
    · simp at h; exact ⟨f, by simp, h⟩
    · rename_i m' hm'
      simp at h
      obtain ⟨g, hg, hs⟩ := ih m' hm'
      by_cases hc : m' ≤ score root cur rs f
      · exact ⟨f, by simp, by omega⟩
      · exact ⟨g, by simp [hg], by omega⟩

theorem best_nonempty (root cur rs : List String) (cands : List File) (h : cands ≠ []) :
    best root cur rs cands ≠ [] := by
  unfold best
  split
  · contradiction
  · simp
  · rename_i hne1 hne2
    cases cands with
    | nil => contradiction
    | cons f r =>
      obtain ⟨m, hm⟩ := maxScore_some root cur rs f r
      rw [hm]
      obtain ⟨g, hg, hs⟩ := maxScore_attained root cur rs (f :: r) m hm
      intro hemp
      have : g ∈ (f :: r).filter fun x => score root cur rs x == m := by
        simp [List.mem_filter, hs]; simpa using hg
      simp [hemp] at this

theorem best_unique (root cur rs : List String) (f : File) : best root cur rs [f] = [f] := by
  simp [best]

theorem best_empty_iff (root cur rs : List String) (cands : List File) :
    best root cur rs cands = [] ↔ cands = [] := by
  constructor
  · intro h
    by_cases hc : cands = []
    · exact hc
    · exact absurd h (best_nonempty root cur rs cands hc)
  · intro h; subst h; simp [best]
#print axioms best_subset
#print axioms best_nonempty
#print axioms best_empty_iff

/-! ### what the analysis loads -/

theorem resolveRequire_sound (files : List File) (root cur rs : List String) :
    ∀ f ∈ resolveRequire files root cur rs,
      f ∈ files ∧ (matchPre root rs f = true ∨ matchSuf root (rs ++ ["init.lua"]) f = true) := by
  intro f hf
  unfold resolveRequire at hf
  split at hf
  · have := best_subset _ _ _ _ f hf
    have := List.mem_filter.mp this
    exact ⟨this.1, Or.inr this.2⟩
  · rename_i r hne
    have := best_subset _ _ _ _ f hf
    have := List.mem_filter.mp this
    exact ⟨this.1, Or.inl this.2⟩
#print axioms resolveRequire_sound

/-- the type-6 diagnostic (nothing resolved) ⇔ no file matches `name.*` and none matches `name/init.lua` -/
theorem diag_iff_no_match (files : List File) (root cur rs : List String) :
    resolveRequire files root cur rs = [] ↔
      (files.filter (matchPre root rs) = [] ∧ files.filter (matchSuf root (rs ++ ["init.lua"])) = []) := by
  unfold resolveRequire
  constructor
  · intro h
    split at h
    · rename_i h1
      exact ⟨(best_empty_iff _ _ _ _).mp h1, (best_empty_iff _ _ _ _).mp h⟩
    · rename_i r hne
      exact absurd h (by simpa using hne)
  · rintro ⟨h1, h2⟩
    simp [h1, h2, best]
#print axioms diag_iff_no_match

/-! ### the model's candidate tests are the documented mapping -/

theorem endsWith_iff (l s : List String) : endsWith l s = true ↔ s <:+ l := by
  unfold endsWith
  rw [List.suffix_iff_eq_drop]
  constructor
  · intro h
    simp only [Bool.and_eq_true, decide_eq_true_eq, beq_iff_eq] at h
    exact h.2.symm
  · intro h
    simp only [Bool.and_eq_true, decide_eq_true_eq, beq_iff_eq]
    refine ⟨?_, h.symm⟩
    have := congrArg List.length h
    simp at this
    omega

/-- directories above the workspace root do not matter when the reference is not longer than the
    path below the root -/
theorem endsWith_root (root l s : List String) (h : s.length ≤ l.length) :
    endsWith (root ++ l) s = endsWith l s := by
  apply Bool.eq_iff_iff.mpr
  rw [endsWith_iff, endsWith_iff]
  constructor
  · intro hs
    exact List.suffix_of_suffix_length_le hs (List.suffix_append root l) h
  · intro hs
    exact hs.trans (List.suffix_append root l)

theorem endsWith_snoc (l s : List String) (x : String) :
    endsWith (l ++ [x]) (s ++ [x]) = endsWith l s := by
  apply Bool.eq_iff_iff.mpr
  rw [endsWith_iff, endsWith_iff]
  constructor
  · rintro ⟨p, hp⟩
    refine ⟨p, ?_⟩
    rw [← List.append_assoc] at hp
    exact List.append_cancel_right hp
  · rintro ⟨p, hp⟩
    exact ⟨p, by rw [← List.append_assoc, hp]⟩

/-- no dotted names: every indexed file is `stem.lua` -/
def Plain (f : File) : Prop := f.rest = ".lua"

theorem matchPre_eq_spec (root rs : List String) (f : File) (hp : Plain f)
    (hlen : rs.length ≤ f.dirs.length + 1) : matchPre root rs f = specLua rs f := by
  unfold matchPre specLua indexedByStem
  have : endsWith (root ++ f.dirs ++ [f.stem]) rs = endsWith (f.dirs ++ [f.stem]) rs := by
    rw [List.append_assoc]; exact endsWith_root root _ rs (by simpa using hlen)
  rw [this]
  unfold Plain at hp
  simp [hp]
#print axioms matchPre_eq_spec

theorem getLast_snoc (rs : List String) (x : String) : (rs ++ [x]).getLast? = some x := by simp

theorem matchInit_eq_spec (root rs : List String) (f : File) (hrs : rs ≠ [])
    (hname : f.name = "init.lua" ↔ (f.stem = "init" ∧ f.rest = ".lua"))
    (hlen : rs.length ≤ f.dirs.length) : matchSuf root (rs ++ ["init.lua"]) f = specInit rs f := by
  unfold matchSuf specInit
  by_cases hn : f.name = "init.lua"
  · have h2 := hname.mp hn
    have e1 : endsWith (root ++ f.dirs ++ [f.name]) (rs ++ ["init.lua"]) = endsWith f.dirs rs := by
      rw [hn, List.append_assoc, endsWith_root root _ _ (by simpa using hlen), endsWith_snoc]
    rw [e1]
    have hne : (rs != []) = true := by simpa using hrs
    simp [hn, h2.1, h2.2, hne]
  · have h2 : ¬ (f.stem = "init" ∧ f.rest = ".lua") := fun h => hn (hname.mpr h)
    have : ((rs ++ ["init.lua"]).getLast? == some f.name) = false := by
      simp; exact fun h => hn h.symm
    rw [this]
    by_cases hs : f.stem = "init"
    · have : f.rest ≠ ".lua" := fun h => h2 ⟨hs, h⟩
      simp [hs, this]
    · simp [hs]
#print axioms matchInit_eq_spec

theorem filter_congr2 {p q : File → Bool} (l : List File) (h : ∀ f ∈ l, p f = q f) : l.filter p = l.filter q := by
  induction l with
  | nil => rfl
  | cons a r ih =>
    simp only [List.filter]
    rw [h a (by simp), ih (fun f hf => h f (by simp [hf]))]

/-- in a workspace without dotted file names, whose paths are longer than the module string, the
    "file not found" diagnostic appears exactly when the documented mapping finds no file -/
theorem resolve_empty_iff_spec (files : List File) (root cur rs : List String) (hrs : rs ≠ [])
    (hp : ∀ f ∈ files, Plain f)
    (hname : ∀ f ∈ files, (f.name = "init.lua" ↔ (f.stem = "init" ∧ f.rest = ".lua")))
    (hlen : ∀ f ∈ files, rs.length ≤ f.dirs.length) :
    resolveRequire files root cur rs = [] ↔ specCandidates files rs = [] := by
  rw [diag_iff_no_match]
  have e1 : files.filter (matchPre root rs) = files.filter (specLua rs) :=
    filter_congr2 files fun f hf => matchPre_eq_spec root rs f (hp f hf) (by have := hlen f hf; omega)
  have e2 : files.filter (matchSuf root (rs ++ ["init.lua"])) = files.filter (specInit rs) :=
    filter_congr2 files fun f hf => matchInit_eq_spec root rs f hrs (hname f hf) (hlen f hf)
  rw [e1, e2]
  unfold specCandidates
  constructor
  · rintro ⟨h1, h2⟩; simp [h1, h2]
  · intro h
    split at h
    · rename_i h1; exact ⟨h1, h⟩
    · rename_i r hne; exact absurd h (by simpa using hne)
#print axioms resolve_empty_iff_spec

/-- the hypotheses are satisfiable and the conclusion is non-trivial: lib/util/mod.lua and
    lib/net/init.lua; `util.mod` and `lib.net` resolve, `util.nope` does not -/
example :
    let files : List File := [⟨["lib", "util"], "mod", ".lua"⟩, ⟨["lib", "net"], "init", ".lua"⟩]
    resolveRequire files ["ws"] ["main.lua"] ["util", "mod"] = [⟨["lib", "util"], "mod", ".lua"⟩] ∧
    resolveRequire files ["ws"] ["main.lua"] ["lib", "net"] = [⟨["lib", "net"], "init", ".lua"⟩] ∧
    resolveRequire files ["ws"] ["main.lua"] ["util", "nope"] = [] ∧
    specCandidates files ["util", "mod"] = [⟨["lib", "util"], "mod", ".lua"⟩] := by decide

/-- class K1 (dotted file name): `require("mod")` loads mod.test.lua, which the documented mapping
    does not allow, and go-to-definition on the string does not find -/
theorem K1_witness :
    resolveRequire [⟨[], "mod", ".test.lua"⟩] ["ws"] ["main.lua"] ["mod"] = [⟨[], "mod", ".test.lua"⟩] ∧
    resolveDefine [⟨[], "mod", ".test.lua"⟩] ["ws"] ["main.lua"] ["mod"] = [] ∧
    specCandidates [⟨[], "mod", ".test.lua"⟩] ["mod"] = [] := by decide
#print axioms K1_witness

/-- a tie in score: a/mod.lua and b/mod.lua are equally ranked seen from main.lua … -/
theorem tie_witness :
    (resolveRequire [⟨["a"], "mod", ".lua"⟩, ⟨["b"], "mod", ".lua"⟩] ["ws"] ["main.lua"] ["mod"]).length = 2 := by decide
#print axioms tie_witness

/-! ### equal scores are ordered by path (fix 79a7ee2): one winner, the same for every caller and every order -/

theorem pickMin_mem : ∀ (l : List File) (f : File), pickMin l = some f → f ∈ l
  | [], f, h => by simp [pickMin] at h
  | x :: r, f, h => by
    unfold pickMin at h
    cases hr : pickMin r with
    | none => simp [hr] at h; simp [h]
    | some g =>
      simp only [hr, Option.some.injEq] at h
      have hg := pickMin_mem r g hr
      unfold minPath at h
      split at h
      · subst h; simp [hg]
      · subst h; simp

theorem pickMin_none : ∀ (l : List File), pickMin l = none ↔ l = []
  | [] => by simp [pickMin]
  | x :: r => by
    unfold pickMin
    cases pickMin r <;> simp

/-- the chosen file has the smallest path among the candidates -/
theorem pickMin_le : ∀ (l : List File) (f : File), pickMin l = some f → ∀ x ∈ l, f.rel ≤ x.rel
  | [], f, h => by simp [pickMin] at h
  | y :: r, f, h => by
    intro x hx
    unfold pickMin at h
    cases hr : pickMin r with
    | none =>
      simp [hr] at h
      have : r = [] := (pickMin_none r).mp hr
      subst this; subst h
      simp at hx; subst hx; exact String.le_refl _
    | some g =>
      simp only [hr, Option.some.injEq] at h
      have ih := pickMin_le r g hr
      unfold minPath at h
      rcases List.mem_cons.mp hx with rfl | hx
      · split at h
        · rename_i hlt; subst h; exact String.not_lt.mp (String.lt_asymm hlt)
        · subst h; exact String.le_refl _
      · split at h
        · subst h; exact ih x hx
        · rename_i hnl; subst h
          exact String.le_trans (String.not_lt.mp hnl) (ih x hx)

/-- the winner does not depend on the order in which the candidates are visited (they come out of a Go map):
    two lists with the same members and pairwise different paths have the same winner -/
theorem pickMin_order_independent (l1 l2 : List File) (hsame : ∀ f, f ∈ l1 ↔ f ∈ l2)
    (hinj : ∀ f ∈ l1, ∀ g ∈ l1, f.rel = g.rel → f = g) : pickMin l1 = pickMin l2 := by
  cases h1 : pickMin l1 with
  | none =>
    have e1 : l1 = [] := (pickMin_none l1).mp h1
    have e2 : l2 = [] := by
      cases l2 with
      | nil => rfl
      | cons x r => have := (hsame x).mpr (by simp); subst e1; simp at this
    subst e2; simp [pickMin]
  | some f =>
    cases h2 : pickMin l2 with
    | none =>
      have e2 : l2 = [] := (pickMin_none l2).mp h2
      have := (hsame f).mp (pickMin_mem l1 f h1)
      subst e2; simp at this
    | some g =>
      have hf1 := pickMin_mem l1 f h1
      have hg2 := pickMin_mem l2 g h2
      have hg1 := (hsame g).mpr hg2
      have hf2 := (hsame f).mp hf1
      have a := pickMin_le l1 f h1 g hg1
      have b := pickMin_le l2 g h2 f hf2
      exact congrArg some (hinj f hf1 g hg1 (String.le_antisymm a b))
#print axioms pickMin_order_independent

/-- the chosen file is one of the best-scored candidates, and there is one iff there is a candidate -/
theorem choose_mem_best (root cur rs : List String) (cands : List File) (f : File)
    (h : choose root cur rs cands = some f) : f ∈ best root cur rs cands ∧ f ∈ cands := by
  have := pickMin_mem _ f h
  exact ⟨this, best_subset root cur rs cands f this⟩
#print axioms choose_mem_best

theorem choose_none_iff (root cur rs : List String) (cands : List File) :
    choose root cur rs cands = none ↔ cands = [] := by
  unfold choose
  rw [pickMin_none, best_empty_iff]
#print axioms choose_none_iff

/-- in the tie above the analysis and go-to-definition on the string now load the same file, a/mod.lua -/
theorem tie_resolved :
    loadRequire [⟨["b"], "mod", ".lua"⟩, ⟨["a"], "mod", ".lua"⟩] ["ws"] ["main.lua"] ["mod"] = some ⟨["a"], "mod", ".lua"⟩ ∧
    loadDefine [⟨["b"], "mod", ".lua"⟩, ⟨["a"], "mod", ".lua"⟩] ["ws"] ["main.lua"] ["mod"] = some ⟨["a"], "mod", ".lua"⟩ := by
  decide
#print axioms tie_resolved

end LuaHelper.C18
