/-
C08 — "After any edit / file-event history, diagnostics equal those of a fresh start".

Model: Model/Diag.lean — the publish / clear bookkeeping of diagnostics_manager.go under the handler
sequences of textdocument_file_request.go; the analysis result of every event is an input.  The
harness feeds the model the error maps the real server computed (read through a verif hook) and
compares the model's client view with the folded stream of real publishDiagnostics notifications;
separately it compares that view with a freshly started server.

What the client is to hold for a file (`view`): the syntax errors of its unsaved buffer when that has
any; the saved diagnostics without the syntax errors while an unsaved buffer parses cleanly; else the
saved diagnostics, i.e. what a freshly started server publishes (`shown`).

Proved here, for ALL states, files, error maps and ALL histories:
 * `history_consistent`: along every history of didOpen / didChange / didSave / didClose /
   didChangeWatchedFiles events (didOpen only for a document that is not open), whatever error maps the
   analyses deliver, the client holds exactly `view` for EVERY file after EVERY event — also for files
   with unsaved edits while other files are saved or change on disk (that was finding K1, repaired:
   `dirty_view_kept`, and `dirty_view_overridden_before` for the code as it was);
 * `fresh_when_settled`: once no buffer is unsaved, that is the view of a freshly started server
   (`init_settled`);  `closed_is_clean`: didClose leaves no unsaved entry, so a conformant client's
   didOpen meets the premise of `history_consistent` (`conformant_history_consistent`);
 * `sameErrs_eq` / `faithful`: IsSameErrList is exact since it also compares related information and
   the entry file (repair of finding K2; `extra_republished` / `stale_extra_before`);
 * `handler_call_shape` / `manager_shape`: the call sequences and map updates the model is written
   after are the ones in /repo now (regenerated on every run).
-/
import LuaHelper.Model.Diag
import LuaHelper.Gen.Shapes
namespace LuaHelper.C08
open LuaHelper.Diag

/-- the handler sequences the model's `ev*` functions are written after, as they stand in /repo now
    (regenerated on every run): which bookkeeping methods each document / file handler calls, in order.
    didClose restores the saved diagnostics with SaveOneFilePushAgain (repair aa13bc7); didOpen treats a text
    that differs from the file like an unsaved edit (repair ce0b3a3, `evOpenWith`); didChangeWatchedFiles no
    longer drops the unsaved-error entries of the announced files (repair of K1). -/
theorem handler_call_shape :
    Gen.bookkeepingCalls =
      [("TextDocumentDidOpen", ["pushAllDiagnosticsAgain", "InsertChangeFileErr", "ClearFileSyntaxErr", "ClearChangeFileErr"]),
       ("TextDocumentDidChange", ["InsertChangeFileErr", "ClearChangeFileErr", "ClearFileSyntaxErr"]),
       ("WorkspaceChangeWatchedFiles", ["pushAllDiagnosticsAgain"]),
       ("TextDocumentDidClose", ["SaveOneFilePushAgain", "ClearOneFileDiagnostic", "RemoveFile"]),
       ("TextDocumentDidSave", ["SaveOneFilePushAgain", "pushAllDiagnosticsAgain", "SaveOneFilePushAgain"])] := by decide
#print axioms handler_call_shape

/-- the bookkeeping methods themselves, as they stand in /repo now: the updates of the three maps and the calls,
    each with its if/for nesting depth (0 = unconditional).  `pushAllDiagnosticsAgain` ends with an UNCONDITIONAL
    `pushAllChangeFileDiagnosticErr` (`Diag.pushAll`), whose two loops are `rechangeStep` and `rehideStep`;
    InsertChangeFileErr / SaveOneFilePushAgain / ClearFileSyntaxErr maintain `fileHideSyntaxMap` (`hidden`). -/
theorem manager_shape :
    Gen.managerOps =
      [("pushAllDiagnosticsAgain", ["call:getAllProject@0", "call:ClearOneFileDiagnostic@2", "call:pushFileErrList@2",
          "call:pushFileErrList@1", "assign:fileErrorMap@0", "call:pushAllChangeFileDiagnosticErr@0"]),
       ("pushAllChangeFileDiagnosticErr", ["call:ClearOneFileDiagnostic@1", "call:pushFileChangeDiagnostic@1",
          "call:ClearOneFileDiagnostic@1", "call:pushFileDiagnostic@1"]),
       ("InsertChangeFileErr", ["set:fileChangeErrorMap@0", "del:fileHideSyntaxMap@0", "call:pushFileChangeDiagnostic@0"]),
       ("ClearChangeFileErr", ["del:fileChangeErrorMap@1", "call:ClearOneFileDiagnostic@1", "call:pushFileDiagnostic@1"]),
       ("SaveOneFilePushAgain", ["del:fileChangeErrorMap@0", "del:fileHideSyntaxMap@0", "call:pushFileDiagnostic@1",
          "call:ClearOneFileDiagnostic@1"]),
       ("ClearFileSyntaxErr", ["set:fileHideSyntaxMap@0", "call:ClearOneFileDiagnostic@0", "call:pushFileDiagnostic@0"])] := by
  decide
#print axioms manager_shape

/-! ### association-list facts -/

theorem lk_cons (p : File × List Err) (m : EMap) (f : File) :
    lk (p :: m) f = if p.1 == f then some p.2 else lk m f := by
  unfold lk
  simp only [List.find?]
  cases h : p.1 == f <;> simp

theorem lk_del (m : EMap) (f g : File) : lk (del m f) g = if g == f then none else lk m g := by
  induction m with
  | nil => simp [del, lk]
  | cons p r ih =>
    have hd : del (p :: r) f = if p.1 != f then p :: del r f else del r f := by
      unfold del; simp only [List.filter]; cases p.1 != f <;> rfl
    rw [hd]
    by_cases hp : p.1 = f
    · have e : (p.1 != f) = false := by simp [hp]
      rw [e]; simp only [Bool.false_eq_true, if_false]
      rw [ih, lk_cons]
      by_cases hg : g = f
      · simp [hg]
      · have e2 : (p.1 == g) = false := by rw [hp]; simpa using fun h => hg h.symm
        have e3 : (g == f) = false := by simpa using hg
        simp [e2, e3]
    · have e : (p.1 != f) = true := by simpa using hp
      rw [e]; simp only [if_true]
      rw [lk_cons, lk_cons, ih]
      by_cases hg : g = f
      · have e2 : (p.1 == g) = false := by rw [hg]; simpa using hp
        simp [hg, hp]
      · have e3 : (g == f) = false := by simpa using hg
        simp [e3]

def hasKey (m : EMap) (f : File) : Bool := m.any (·.1 == f)

theorem hasKey_cons (p : File × List Err) (m : EMap) (f : File) : hasKey (p :: m) f = (p.1 == f || hasKey m f) := by
  unfold hasKey; simp [List.any]

theorem lk_none_iff (m : EMap) (f : File) : lk m f = none ↔ hasKey m f = false := by
  induction m with
  | nil => simp [lk, hasKey]
  | cons p r ih =>
    rw [lk_cons, hasKey_cons]
    cases h : p.1 == f <;> simp [ih]

/-! ### single steps -/

theorem publish_client (s : St) (f g : File) (e : List Err) :
    (publish s f e).client g = if g == f then e else s.client g := rfl
theorem publish_saved (s : St) (f : File) (e : List Err) : (publish s f e).saved = s.saved := rfl
theorem publish_change (s : St) (f : File) (e : List Err) : (publish s f e).change = s.change := rfl
theorem publish_hidden (s : St) (f : File) (e : List Err) : (publish s f e).hidden = s.hidden := rfl

theorem clearStep_fields (new : EMap) (s : St) (p : File × List Err) :
    (clearStep new s p).saved = s.saved ∧ (clearStep new s p).change = s.change ∧ (clearStep new s p).hidden = s.hidden := by
  unfold clearStep; split <;> exact ⟨rfl, rfl, rfl⟩

theorem pushStep_fields (old : EMap) (s : St) (p : File × List Err) :
    (pushStep old s p).saved = s.saved ∧ (pushStep old s p).change = s.change ∧ (pushStep old s p).hidden = s.hidden := by
  unfold pushStep
  split
  · exact ⟨rfl, rfl, rfl⟩
  · split <;> exact ⟨rfl, rfl, rfl⟩

theorem clearStep_client (new : EMap) (s : St) (p : File × List Err) (f : File) :
    (clearStep new s p).client f = if (p.1 == f && (lk new p.1).isNone) then [] else s.client f := by
  unfold clearStep
  by_cases hp : p.1 = f
  · subst hp
    cases hn : (lk new p.1).isNone <;> simp [publish_client]
  · have e1 : (p.1 == f) = false := by simpa using hp
    have e2 : (f == p.1) = false := by simpa using fun h => hp h.symm
    cases hn : (lk new p.1).isNone <;> simp [publish_client, e1, e2]

theorem pushStep_client_ne (old : EMap) (s : St) (p : File × List Err) (f : File) (h : p.1 ≠ f) :
    (pushStep old s p).client f = s.client f := by
  have e2 : (f == p.1) = false := by simpa using fun h' => h h'.symm
  unfold pushStep
  split
  · simp [publish_client, e2]
  · split
    · rfl
    · simp [publish_client, e2]

theorem pushStep_client_eq (old : EMap) (s : St) (p : File × List Err) :
    (pushStep old s p).client p.1 =
      (match lk old p.1 with
       | none => p.2
       | some o => if sameErrs o p.2 then s.client p.1 else p.2) := by
  unfold pushStep
  cases lk old p.1 with
  | none => simp [publish_client]
  | some o =>
    by_cases hs : sameErrs o p.2 = true
    · simp [hs]
    · simp [hs, publish_client]

/-! ### folds -/

theorem clear_fold_fields (new l : EMap) (s : St) :
    (l.foldl (clearStep new) s).saved = s.saved ∧ (l.foldl (clearStep new) s).change = s.change ∧
    (l.foldl (clearStep new) s).hidden = s.hidden := by
  induction l generalizing s with
  | nil => exact ⟨rfl, rfl, rfl⟩
  | cons p r ih =>
    simp only [List.foldl]
    obtain ⟨a, b, b'⟩ := ih (clearStep new s p)
    obtain ⟨c, d, d'⟩ := clearStep_fields new s p
    exact ⟨a.trans c, b.trans d, b'.trans d'⟩

theorem push_fold_fields (old l : EMap) (s : St) :
    (l.foldl (pushStep old) s).saved = s.saved ∧ (l.foldl (pushStep old) s).change = s.change ∧
    (l.foldl (pushStep old) s).hidden = s.hidden := by
  induction l generalizing s with
  | nil => exact ⟨rfl, rfl, rfl⟩
  | cons p r ih =>
    simp only [List.foldl]
    obtain ⟨a, b, b'⟩ := ih (pushStep old s p)
    obtain ⟨c, d, d'⟩ := pushStep_fields old s p
    exact ⟨a.trans c, b.trans d, b'.trans d'⟩

theorem clear_fold_client (new l : EMap) (s : St) (f : File) :
    (l.foldl (clearStep new) s).client f = if (hasKey l f && (lk new f).isNone) then [] else s.client f := by
  induction l generalizing s with
  | nil => simp [hasKey]
  | cons p r ih =>
    simp only [List.foldl]
    rw [ih, clearStep_client, hasKey_cons]
    by_cases hp : p.1 = f
    · subst hp
      cases hn : (lk new p.1).isNone <;> cases hk : hasKey r p.1 <;> simp
    · have e1 : (p.1 == f) = false := by simpa using hp
      simp [e1]

def NodupKeys (m : EMap) : Prop := (m.map (·.1)).Nodup

theorem nodup_tail (p : File × List Err) (r : EMap) (h : NodupKeys (p :: r)) :
    NodupKeys r ∧ hasKey r p.1 = false := by
  unfold NodupKeys at h ⊢
  simp only [List.map, List.nodup_cons] at h
  refine ⟨h.2, ?_⟩
  unfold hasKey
  rw [List.any_eq_false]
  intro q hq
  simp only [beq_iff_eq]
  intro he
  exact h.1 (by rw [← he]; exact List.mem_map_of_mem hq)

theorem push_fold_client (old l : EMap) (hn : NodupKeys l) (s : St) (f : File) :
    (l.foldl (pushStep old) s).client f =
      (match lk l f with
       | none => s.client f
       | some e => (match lk old f with
          | none => e
          | some o => if sameErrs o e then s.client f else e)) := by
  induction l generalizing s with
  | nil => simp [lk]
  | cons p r ih =>
    obtain ⟨hn', hnot⟩ := nodup_tail p r hn
    simp only [List.foldl]
    rw [ih hn', lk_cons]
    by_cases hp : p.1 = f
    · subst hp
      have hr : lk r p.1 = none := (lk_none_iff r p.1).mpr hnot
      simp only [hr, beq_self_eq_true, if_true]
      exact pushStep_client_eq old s p
    · have e1 : (p.1 == f) = false := by simpa using hp
      simp only [e1, Bool.false_eq_true, if_false]
      rw [pushStep_client_ne old s p f hp]

/-! ### IsSameErrList -/

/-- lists that look the same to IsSameErrList are the same (false when only related information differs) -/
def Faithful (old new : EMap) : Prop :=
  ∀ f o e, lk old f = some o → lk new f = some e → sameErrs o e = true → o = e

/-- IsSameErrList is exact (since the repair of finding K2): lists it calls the same are the same -/
theorem sameErrs_eq (a b : List Err) (h : sameErrs a b = true) : a = b := by
  unfold sameErrs at h
  have h' := eq_of_beq h
  clear h
  induction a generalizing b with
  | nil => cases b with
    | nil => rfl
    | cons y ys => simp at h'
  | cons x xs ih =>
    cases b with
    | nil => simp at h'
    | cons y ys =>
      simp only [List.map_cons, List.cons.injEq, Prod.mk.injEq] at h'
      obtain ⟨⟨h1, h2, h3⟩, h4⟩ := h'
      have hx : x = y := by cases x; cases y; simp_all
      rw [hx, ih ys h4]
#print axioms sameErrs_eq

theorem sameErrs_refl (a : List Err) : sameErrs a a = true := by unfold sameErrs; exact beq_self_eq_true _

/-- hence every pair of error maps is faithful: the hypothesis `Faithful` of the theorems below always holds -/
theorem faithful (old new : EMap) : Faithful old new := fun _ o e _ _ h => sameErrs_eq o e h
#print axioms faithful


/-! ### more association-list facts -/

theorem lk_ins (m : EMap) (f g : File) (e : List Err) : lk (ins m f e) g = if g == f then some e else lk m g := by
  unfold ins
  rw [lk_cons, lk_del]
  by_cases hg : g = f
  · subst hg; simp
  · have e1 : (f == g) = false := by simpa using fun h => hg h.symm
    have e2 : (g == f) = false := by simpa using hg
    simp [e1, e2]

theorem hasKey_del (m : EMap) (f g : File) : hasKey (del m f) g = (g != f && hasKey m g) := by
  have h1 := lk_del m f g
  by_cases hg : g = f
  · subst hg
    have : lk (del m g) g = none := by rw [h1]; simp
    rw [(lk_none_iff _ _).mp this]; simp
  · have e2 : (g == f) = false := by simpa using hg
    rw [e2] at h1
    simp only [Bool.false_eq_true, if_false] at h1
    have e3 : (g != f) = true := by simpa using hg
    rw [e3, Bool.true_and]
    cases hk : hasKey m g
    · have := (lk_none_iff m g).mpr hk
      rw [this] at h1
      exact (lk_none_iff _ _).mp h1
    · cases hd : hasKey (del m f) g
      · have := (lk_none_iff _ _).mpr hd
        rw [this] at h1
        have := (lk_none_iff m g).mp h1.symm
        rw [hk] at this; cases this
      · rfl

theorem nodup_del (m : EMap) (f : File) (h : NodupKeys m) : NodupKeys (del m f) := by
  unfold NodupKeys del at *
  exact List.Nodup.sublist (List.Sublist.map _ List.filter_sublist) h

theorem nodup_ins (m : EMap) (f : File) (e : List Err) (h : NodupKeys m) : NodupKeys (ins m f e) := by
  have hd := nodup_del m f h
  unfold ins
  unfold NodupKeys at *
  simp only [List.map, List.nodup_cons]
  refine ⟨?_, hd⟩
  intro hmem
  obtain ⟨q, hq, hqf⟩ := List.mem_map.mp hmem
  have hk : hasKey (del m f) f = true := by
    unfold hasKey
    exact List.any_eq_true.mpr ⟨q, hq, by simp [hqf]⟩
  rw [hasKey_del] at hk
  simp at hk

theorem nonSyntax_nil : nonSyntax [] = [] := rfl

theorem shown_eq (m : EMap) (f : File) : shown m f = (match lk m f with | some e => e | none => []) := by
  unfold shown; cases lk m f <;> rfl

/-! ### the view a client is to hold, and frames -/

/-- what the client is to hold for a file: the syntax errors of its unsaved buffer when that has any; the saved
    diagnostics without the syntax errors while an unsaved buffer parses cleanly; else the saved diagnostics —
    what a freshly started server publishes -/
def view (s : St) (f : File) : List Err :=
  match lk s.change f with
  | some e => e
  | none => if f ∈ s.hidden then nonSyntax (shown s.saved f) else shown s.saved f

def Consistent (s : St) : Prop := ∀ f, s.client f = view s f

/-- `t` differs from `s` only in what concerns file `f` -/
def Frame (f : File) (s t : St) : Prop :=
  ∀ g, g ≠ f → t.client g = s.client g ∧ lk t.change g = lk s.change g ∧ (g ∈ t.hidden ↔ g ∈ s.hidden) ∧
    lk t.saved g = lk s.saved g

theorem Frame.refl (f : File) (s : St) : Frame f s s := fun _ _ => ⟨rfl, rfl, Iff.rfl, rfl⟩

theorem Frame.trans {f : File} {s t u : St} (h1 : Frame f s t) (h2 : Frame f t u) : Frame f s u := by
  intro g hg
  obtain ⟨a1, a2, a3, a4⟩ := h1 g hg
  obtain ⟨b1, b2, b3, b4⟩ := h2 g hg
  exact ⟨b1.trans a1, b2.trans a2, b3.trans a3, b4.trans a4⟩

theorem view_frame {f : File} {s t : St} (h : Frame f s t) (g : File) (hg : g ≠ f) : view t g = view s g := by
  obtain ⟨_, h2, h3, h4⟩ := h g hg
  unfold view shown
  rw [h2, h4]
  cases lk s.change g with
  | some e => rfl
  | none =>
    by_cases hm : g ∈ s.hidden
    · simp [hm, h3.mpr hm]
    · have : g ∉ t.hidden := fun x => hm (h3.mp x)
      simp [hm, this]

theorem consistent_of_frame {f : File} {s t : St} (hs : Consistent s) (hfr : Frame f s t)
    (hf : t.client f = view t f) : Consistent t := by
  intro g
  by_cases hg : g = f
  · subst hg; exact hf
  · rw [(hfr g hg).1, hs g, view_frame hfr g hg]

/-! ### the bookkeeping methods, one by one -/

theorem pushFile_spec (s : St) (f : File) (b : Bool) :
    (pushFile s f b).saved = s.saved ∧ (pushFile s f b).change = s.change ∧ (pushFile s f b).hidden = s.hidden ∧
    (∀ g, g ≠ f → (pushFile s f b).client g = s.client g) ∧
    (pushFile s f b).client f = (match lk s.saved f with
      | none => s.client f
      | some e => if b then nonSyntax e else e) := by
  unfold pushFile
  cases lk s.saved f with
  | none => exact ⟨rfl, rfl, rfl, fun _ _ => rfl, rfl⟩
  | some e =>
    refine ⟨rfl, rfl, rfl, ?_, by simp [publish_client]⟩
    intro g hg
    have : (g == f) = false := by simpa using hg
    simp [publish_client, this]

theorem mem_filter_ne (l : List File) (f g : File) : g ∈ l.filter (· != f) ↔ g ∈ l ∧ g ≠ f := by
  simp [List.mem_filter]

theorem insertChange_spec (s : St) (f : File) (e : List Err) :
    Frame f s (insertChange s f e) ∧ (insertChange s f e).change = ins s.change f e ∧
    (insertChange s f e).client f = e := by
  unfold insertChange
  refine ⟨?_, rfl, by simp [publish_client]⟩
  intro g hg
  have e2 : (g == f) = false := by simpa using hg
  refine ⟨by simp [publish_client, e2], ?_, ?_, rfl⟩
  · show lk (ins s.change f e) g = lk s.change g
    rw [lk_ins]; simp [e2]
  · show g ∈ s.hidden.filter (· != f) ↔ g ∈ s.hidden
    rw [mem_filter_ne]; exact ⟨fun h => h.1, fun h => ⟨h, hg⟩⟩

theorem clearChange_spec (s : St) (f : File) :
    Frame f s (clearChange s f) ∧ (clearChange s f).saved = s.saved ∧ (clearChange s f).hidden = s.hidden ∧
    lk (clearChange s f).change f = none ∧
    ((clearChange s f).change = s.change ∨ (clearChange s f).change = del s.change f) ∧
    (clearChange s f).client f = (if (lk s.change f).isSome then nonSyntax (shown s.saved f) else s.client f) := by
  unfold clearChange
  cases h : lk s.change f with
  | none => exact ⟨Frame.refl f s, rfl, rfl, h, Or.inl rfl, by simp⟩
  | some c =>
    simp only
    obtain ⟨p1, p2, p3, p4, p5⟩ := pushFile_spec (publish { s with change := del s.change f } f []) f true
    refine ⟨?_, p1, p3, ?_, Or.inr p2, ?_⟩
    · intro g hg
      have e2 : (g == f) = false := by simpa using hg
      refine ⟨?_, ?_, by rw [p3]; exact Iff.rfl, by rw [p1]; rfl⟩
      · rw [p4 g hg]; simp [publish_client, e2]
      · rw [p2]; show lk (del s.change f) g = lk s.change g
        rw [lk_del]; simp [e2]
    · rw [p2]; show lk (del s.change f) f = none
      rw [lk_del]; simp
    · rw [p5]
      show (match lk s.saved f with
            | none => (publish { s with change := del s.change f } f []).client f
            | some e => if true = true then nonSyntax e else e) = _
      simp only [Option.isSome_some, if_true]
      rw [shown_eq]
      cases lk s.saved f with
      | none => simp [publish_client, nonSyntax_nil]
      | some e => simp

theorem clearSyntax_spec (s : St) (f : File) :
    Frame f s (clearSyntax s f) ∧ (clearSyntax s f).saved = s.saved ∧ (clearSyntax s f).change = s.change ∧
    f ∈ (clearSyntax s f).hidden ∧
    (clearSyntax s f).client f = (match lk s.saved f with
      | none => s.client f
      | some e => nonSyntax e) := by
  unfold clearSyntax
  simp only
  have hfr0 : ∀ g, g ≠ f → (g ∈ f :: s.hidden.filter (· != f) ↔ g ∈ s.hidden) := by
    intro g hg
    rw [List.mem_cons, mem_filter_ne]
    exact ⟨fun h => h.elim (fun x => absurd x hg) (fun x => x.1), fun h => Or.inr ⟨h, hg⟩⟩
  cases h : lk s.saved f with
  | none =>
    refine ⟨?_, rfl, rfl, List.mem_cons_self, rfl⟩
    intro g hg
    exact ⟨rfl, rfl, hfr0 g hg, rfl⟩
  | some e =>
    simp only
    obtain ⟨p1, p2, p3, p4, p5⟩ := pushFile_spec (publish { s with hidden := f :: s.hidden.filter (· != f) } f []) f true
    refine ⟨?_, p1, p2, by rw [p3]; exact List.mem_cons_self, ?_⟩
    · intro g hg
      have e2 : (g == f) = false := by simpa using hg
      refine ⟨?_, by rw [p2]; rfl, by rw [p3]; exact hfr0 g hg, by rw [p1]; rfl⟩
      rw [p4 g hg]; simp [publish_client, e2]
    · rw [p5]
      show (match lk s.saved f with
            | none => _
            | some e => if true = true then nonSyntax e else e) = _
      rw [h]; simp

theorem saveOne_spec (s : St) (f : File) :
    Frame f s (saveOne s f) ∧ (saveOne s f).saved = s.saved ∧ (saveOne s f).change = del s.change f ∧
    (saveOne s f).hidden = s.hidden.filter (· != f) ∧ (saveOne s f).client f = shown s.saved f := by
  unfold saveOne
  simp only
  have hfr : ∀ (t : St), t.saved = s.saved → t.change = del s.change f → t.hidden = s.hidden.filter (· != f) →
      (∀ g, g ≠ f → t.client g = s.client g) → Frame f s t := by
    intro t h1 h2 h3 h4 g hg
    have e2 : (g == f) = false := by simpa using hg
    refine ⟨h4 g hg, ?_, ?_, by rw [h1]⟩
    · rw [h2, lk_del]; simp [e2]
    · rw [h3, mem_filter_ne]; exact ⟨fun h => h.1, fun h => ⟨h, hg⟩⟩
  cases h : lk s.saved f with
  | none =>
    simp only
    refine ⟨hfr _ rfl rfl rfl ?_, rfl, rfl, rfl, by simp [publish_client, shown, h]⟩
    intro g hg
    have e2 : (g == f) = false := by simpa using hg
    simp [publish_client, e2]
  | some e =>
    simp only
    obtain ⟨p1, p2, p3, p4, p5⟩ :=
      pushFile_spec { s with change := del s.change f, hidden := s.hidden.filter (· != f) } f false
    refine ⟨hfr _ p1 p2 p3 p4, p1, p2, p3, ?_⟩
    rw [p5]
    show (match lk s.saved f with
          | none => _
          | some e => if false = true then nonSyntax e else e) = _
    rw [h]; simp [shown, h]

/-! ### the full re-publish -/

theorem rechange_fold_spec (l : EMap) (t : St) (hn : NodupKeys l) :
    (l.foldl rechangeStep t).saved = t.saved ∧ (l.foldl rechangeStep t).change = t.change ∧
    (l.foldl rechangeStep t).hidden = t.hidden ∧
    ∀ f, (l.foldl rechangeStep t).client f = (match lk l f with | some e => e | none => t.client f) := by
  induction l generalizing t with
  | nil => exact ⟨rfl, rfl, rfl, fun f => by simp [lk]⟩
  | cons p r ih =>
    obtain ⟨hn', hnot⟩ := nodup_tail p r hn
    simp only [List.foldl]
    obtain ⟨a, b, b', c⟩ := ih (rechangeStep t p) hn'
    refine ⟨a, b, b', ?_⟩
    intro f
    rw [c f, lk_cons]
    by_cases hp : p.1 = f
    · subst hp
      have hr : lk r p.1 = none := (lk_none_iff r p.1).mpr hnot
      simp [hr, rechangeStep, publish_client]
    · have e1 : (p.1 == f) = false := by simpa using hp
      have e2 : (f == p.1) = false := by simpa using fun h => hp h.symm
      simp only [e1, Bool.false_eq_true, if_false]
      cases lk r f <;> simp [rechangeStep, publish_client, e2]

theorem rehideStep_spec (t : St) (g : File) :
    (rehideStep t g).saved = t.saved ∧ (rehideStep t g).change = t.change ∧ (rehideStep t g).hidden = t.hidden ∧
    ∀ f, (rehideStep t g).client f =
      (if f = g ∧ lk t.change g = none then nonSyntax (shown t.saved g) else t.client f) := by
  cases h : lk t.change g with
  | some c =>
    have : rehideStep t g = t := by unfold rehideStep; simp [h]
    rw [this]
    exact ⟨rfl, rfl, rfl, fun f => by simp⟩
  | none =>
    have : rehideStep t g = pushFile (publish t g []) g true := by unfold rehideStep; simp [h]
    rw [this]
    obtain ⟨p1, p2, p3, p4, p5⟩ := pushFile_spec (publish t g []) g true
    refine ⟨p1, p2, p3, ?_⟩
    intro f
    by_cases hf : f = g
    · subst hf
      simp only [true_and, if_true]
      rw [p5, shown_eq]
      show (match lk t.saved f with
            | none => (publish t f []).client f
            | some e => if true = true then nonSyntax e else e) = _
      cases lk t.saved f with
      | none => simp [publish_client, nonSyntax_nil]
      | some e => simp
    · have e2 : (f == g) = false := by simpa using hf
      rw [p4 f hf]
      simp [hf, publish_client, e2]

theorem rehide_fold_spec (l : List File) (t : St) :
    (l.foldl rehideStep t).saved = t.saved ∧ (l.foldl rehideStep t).change = t.change ∧
    (l.foldl rehideStep t).hidden = t.hidden ∧
    ∀ f, (l.foldl rehideStep t).client f =
      (if f ∈ l ∧ lk t.change f = none then nonSyntax (shown t.saved f) else t.client f) := by
  induction l generalizing t with
  | nil => exact ⟨rfl, rfl, rfl, fun f => by simp⟩
  | cons g r ih =>
    simp only [List.foldl]
    obtain ⟨a, b, b', c⟩ := ih (rehideStep t g)
    obtain ⟨q1, q2, q3, q4⟩ := rehideStep_spec t g
    refine ⟨a.trans q1, b.trans q2, b'.trans q3, ?_⟩
    intro f
    rw [c f, q1, q2, q4 f]
    by_cases hc : lk t.change f = none
    · by_cases hr : f ∈ r
      · simp [hr, hc]
      · by_cases hg : f = g
        · subst hg; simp [hc]
        · simp [hr, hg, hc]
    · by_cases hg : f = g
      · subst hg; simp [hc]
      · simp [hc, hg]

/-- the state after the two comparison loops of pushAllDiagnosticsAgain -/
def pushCore (s : St) (new : EMap) : St :=
  { (new.foldl (pushStep s.saved) (s.saved.foldl (clearStep new) s)) with saved := new }

theorem pushCore_fields (s : St) (new : EMap) :
    (pushCore s new).saved = new ∧ (pushCore s new).change = s.change ∧ (pushCore s new).hidden = s.hidden := by
  unfold pushCore
  refine ⟨rfl, ?_, ?_⟩
  · show (new.foldl (pushStep s.saved) (s.saved.foldl (clearStep new) s)).change = s.change
    rw [(push_fold_fields _ _ _).2.1, (clear_fold_fields _ _ _).2.1]
  · show (new.foldl (pushStep s.saved) (s.saved.foldl (clearStep new) s)).hidden = s.hidden
    rw [(push_fold_fields _ _ _).2.2, (clear_fold_fields _ _ _).2.2]

/-- a file whose client view was the fresh view of the old map shows the fresh view of the new map after the
    comparison loops (lists IsSameErrList calls the same ARE the same: `sameErrs_eq`) -/
theorem pushCore_client (s : St) (new : EMap) (hn : NodupKeys new) (f : File)
    (hc : s.client f = shown s.saved f) : (pushCore s new).client f = shown new f := by
  show (new.foldl (pushStep s.saved) (s.saved.foldl (clearStep new) s)).client f = shown new f
  rw [push_fold_client s.saved new hn, clear_fold_client]
  unfold shown at hc ⊢
  cases hnew : lk new f with
  | none =>
    simp only [Option.isNone_none, Bool.and_true, Option.getD_none]
    cases hk : hasKey s.saved f
    · have : lk s.saved f = none := (lk_none_iff _ _).mpr hk
      simp [hc, this]
    · simp
  | some e =>
    simp only [Option.isNone_some, Bool.and_false, Option.getD_some]
    cases hold : lk s.saved f with
    | none => simp
    | some o =>
      by_cases hs : sameErrs o e = true
      · have := sameErrs_eq o e hs
        simp [hc, hold, this]
      · simp [hs]

theorem pushAll_eq (s : St) (new : EMap) :
    pushAll s new =
      ((pushCore s new).change.foldl rechangeStep (pushCore s new)).hidden.foldl rehideStep
        ((pushCore s new).change.foldl rechangeStep (pushCore s new)) := rfl

theorem pushAll_fields (s : St) (new : EMap) :
    (pushAll s new).saved = new ∧ (pushAll s new).change = s.change ∧ (pushAll s new).hidden = s.hidden := by
  rw [pushAll_eq]
  obtain ⟨c1, c2, c3⟩ := pushCore_fields s new
  obtain ⟨h1, h2, h3, _⟩ := rehide_fold_spec ((pushCore s new).change.foldl rechangeStep (pushCore s new)).hidden
    ((pushCore s new).change.foldl rechangeStep (pushCore s new))
  have hrc : ∀ (l : EMap) (t : St), (l.foldl rechangeStep t).saved = t.saved ∧ (l.foldl rechangeStep t).change = t.change ∧
      (l.foldl rechangeStep t).hidden = t.hidden := by
    intro l
    induction l with
    | nil => intro t; exact ⟨rfl, rfl, rfl⟩
    | cons p r ih => intro t; simp only [List.foldl]; obtain ⟨a, b, c⟩ := ih (rechangeStep t p); exact ⟨a, b, c⟩
  obtain ⟨r1, r2, r3⟩ := hrc (pushCore s new).change (pushCore s new)
  exact ⟨h1.trans (r1.trans c1), h2.trans (r2.trans c2), h3.trans (r3.trans c3)⟩

/-- THE re-publish theorem: after pushAllDiagnosticsAgain every file shows its view — the buffer's syntax errors,
    the saved non-syntax diagnostics, or the fresh view of the new map -/
theorem pushAll_consistent (s : St) (new : EMap) (hn : NodupKeys new) (hcn : NodupKeys s.change)
    (hs : Consistent s) : Consistent (pushAll s new) := by
  intro f
  obtain ⟨f1, f2, f3⟩ := pushAll_fields s new
  obtain ⟨c1, c2, c3⟩ := pushCore_fields s new
  unfold view
  rw [f1, f2, f3, pushAll_eq]
  obtain ⟨r1, r2, r3, r4⟩ := rechange_fold_spec (pushCore s new).change (pushCore s new) (by rw [c2]; exact hcn)
  obtain ⟨_, _, _, h4⟩ := rehide_fold_spec ((pushCore s new).change.foldl rechangeStep (pushCore s new)).hidden
    ((pushCore s new).change.foldl rechangeStep (pushCore s new))
  rw [h4 f, r2, r3, r1, r4 f, c1, c2, c3]
  cases hch : lk s.change f with
  | some e => simp
  | none =>
    simp only [and_true]
    by_cases hm : f ∈ s.hidden
    · simp [hm]
    · simp only [hm, if_false]
      apply pushCore_client s new hn f
      have := hs f
      unfold view at this
      rw [hch] at this
      simpa [hm] using this
#print axioms pushAll_consistent

/-! ### the handlers: the invariant of every history -/

/-- every file shows its view, and the unsaved-error map has one entry per file -/
def Inv (s : St) : Prop := Consistent s ∧ NodupKeys s.change

theorem pushAll_inv (s : St) (new : EMap) (hn : NodupKeys new) (hs : Inv s) : Inv (pushAll s new) :=
  ⟨pushAll_consistent s new hn hs.2 hs.1, by rw [(pushAll_fields s new).2.1]; exact hs.2⟩

/-- an edit (or an opened text) with syntax errors -/
theorem insertChange_inv (s : St) (f : File) (e : List Err) (hs : Inv s) : Inv (insertChange s f e) := by
  obtain ⟨p1, p2, p3⟩ := insertChange_spec s f e
  refine ⟨consistent_of_frame hs.1 p1 ?_, by rw [p2]; exact nodup_ins _ _ _ hs.2⟩
  unfold view
  rw [p2, lk_ins]; simp [p3]

/-- an edit (or an opened text) without syntax errors -/
theorem cleanEdit_inv (s : St) (f : File) (hs : Inv s) : Inv (clearSyntax (clearChange s f) f) := by
  obtain ⟨a1, a2, a3, a4, a5, a6⟩ := clearChange_spec s f
  obtain ⟨b1, b2, b3, b4, b5⟩ := clearSyntax_spec (clearChange s f) f
  refine ⟨consistent_of_frame hs.1 (a1.trans b1) ?_, ?_⟩
  · unfold view
    rw [b3, a4]
    simp only [b4, if_true]
    rw [b5, b2, a2, shown_eq]
    cases hsv : lk s.saved f with
    | some e => rfl
    | none =>
      simp only [nonSyntax_nil]
      rw [a6]
      cases hch : lk s.change f with
      | some c => simp [shown_eq, hsv, nonSyntax_nil]
      | none =>
        simp only [Option.isSome_none, Bool.false_eq_true, if_false]
        have := hs.1 f
        unfold view at this
        rw [hch] at this
        simp only at this
        rw [this, shown_eq, hsv]
        by_cases hm : f ∈ s.hidden <;> simp [hm, nonSyntax_nil]
  · rw [b3]
    cases a5 with
    | inl h => rw [h]; exact hs.2
    | inr h => rw [h]; exact nodup_del _ _ hs.2

theorem evChange_inv (s : St) (f : File) (errs : List Err) (hs : Inv s) : Inv (evChange s f errs) := by
  unfold evChange
  split
  · exact cleanEdit_inv s f hs
  · exact insertChange_inv s f errs hs

theorem saveOne_inv (s : St) (f : File) (hs : Inv s) : Inv (saveOne s f) := by
  obtain ⟨p1, p2, p3, p4, p5⟩ := saveOne_spec s f
  refine ⟨consistent_of_frame hs.1 p1 ?_, by rw [p3]; exact nodup_del _ _ hs.2⟩
  unfold view
  rw [p3, lk_del, p4, p2, p5]
  simp

theorem evSave_inv (s : St) (f : File) (new : EMap) (hn : NodupKeys new) (hs : Inv s) : Inv (evSave s f new) :=
  saveOne_inv _ f (pushAll_inv s new hn hs)

theorem evWatched_inv (s : St) (fs : List File) (new : EMap) (hn : NodupKeys new) (hs : Inv s) :
    Inv (evWatched s fs new) := pushAll_inv s new hn hs

theorem evClose_inv (s : St) (f : File) (inDir : Bool) (hs : Inv s) : Inv (evClose s f inDir) := by
  have h1 := saveOne_inv s f hs
  obtain ⟨p1, p2, p3, p4, p5⟩ := saveOne_spec s f
  unfold evClose
  cases inDir with
  | true => exact h1
  | false =>
    simp only [Bool.false_eq_true, if_false]
    refine ⟨?_, h1.2⟩
    have hfr : Frame f (saveOne s f) { publish (saveOne s f) f [] with saved := del (saveOne s f).saved f } := by
      intro g hg
      have e2 : (g == f) = false := by simpa using hg
      refine ⟨by simp [publish_client, e2], rfl, Iff.rfl, ?_⟩
      show lk (del (saveOne s f).saved f) g = _
      rw [lk_del]; simp [e2]
    refine consistent_of_frame h1.1 hfr ?_
    unfold view
    show (publish (saveOne s f) f []).client f =
      (match lk (saveOne s f).change f with
       | some e => e
       | none => if f ∈ (saveOne s f).hidden then nonSyntax (shown (del (saveOne s f).saved f) f)
                 else shown (del (saveOne s f).saved f) f)
    rw [p3, lk_del, p4]
    simp [publish_client, shown, lk_del]

/-- didOpen of a document that is not open (no unsaved entry is left of it): the opened text is the file's
    (`edit = none`) or differs from it (`some errs` = its syntax errors) -/
theorem evOpenWith_inv (s : St) (f : File) (new : EMap) (edit : Option (List Err)) (hn : NodupKeys new) (hs : Inv s)
    (hclosed : lk s.change f = none) : Inv (evOpenWith s f new edit) := by
  have hu := pushAll_inv s new hn hs
  have hcu : lk (pushAll s new).change f = none := by rw [(pushAll_fields s new).2.1]; exact hclosed
  have hnoop : ∀ t : St, lk t.change f = none → clearChange t f = t := by
    intro t ht; unfold clearChange; rw [ht]
  unfold evOpenWith
  cases edit with
  | none =>
    simp only
    unfold evOpen
    rw [hnoop _ hcu]; exact hu
  | some errs =>
    simp only
    split
    · have h1 : lk (clearSyntax (pushAll s new) f).change f = none := by
        rw [(clearSyntax_spec (pushAll s new) f).2.2.1]; exact hcu
      rw [hnoop _ h1]
      have := cleanEdit_inv (pushAll s new) f hu
      rw [hnoop _ hcu] at this
      exact this
    · exact insertChange_inv _ f errs hu

/-- the events of a history, each with the error map its analysis delivered -/
inductive Ev where
  | open (f : File) (new : EMap) (edit : Option (List Err))
  | change (f : File) (errs : List Err)
  | save (f : File) (new : EMap)
  | close (f : File) (inDir : Bool)
  | watched (fs : List File) (new : EMap)

def step (s : St) : Ev → St
  | .open f new edit => evOpenWith s f new edit
  | .change f errs => evChange s f errs
  | .save f new => evSave s f new
  | .close f inDir => evClose s f inDir
  | .watched fs new => evWatched s fs new

/-- what a history must satisfy: the error maps have one entry per file (they are Go maps), and didOpen is sent
    for a document of which no unsaved entry is left (it is not open: see `closed_is_clean`) -/
def okEv (s : St) : Ev → Prop
  | .open f new _ => NodupKeys new ∧ lk s.change f = none
  | .save _ new => NodupKeys new
  | .watched _ new => NodupKeys new
  | _ => True

def Valid : St → List Ev → Prop
  | _, [] => True
  | s, e :: r => okEv s e ∧ Valid (step s e) r

theorem step_inv (s : St) (e : Ev) (hs : Inv s) (ho : okEv s e) : Inv (step s e) := by
  cases e with
  | «open» f new edit => exact evOpenWith_inv s f new edit ho.1 hs ho.2
  | change f errs => exact evChange_inv s f errs hs
  | save f new => exact evSave_inv s f new ho hs
  | close f inDir => exact evClose_inv s f inDir hs
  | watched fs new => exact evWatched_inv s fs new ho hs

/-- C08 for the bookkeeping: along EVERY history, after EVERY event, every file shows its view -/
theorem history_consistent (evs : List Ev) (s : St) (hs : Inv s) (hv : Valid s evs) : Inv (evs.foldl step s) := by
  induction evs generalizing s with
  | nil => exact hs
  | cons e r ih =>
    simp only [List.foldl]
    exact ih (step s e) (step_inv s e hs hv.1) hv.2
#print axioms history_consistent

/-- once no buffer is unsaved the view is what a freshly started server publishes for the saved map -/
theorem fresh_when_settled (s : St) (hs : Consistent s) (hc : s.change = []) (hh : s.hidden = []) (f : File) :
    s.client f = shown s.saved f := by
  have := hs f
  unfold view at this
  rw [hc, hh] at this
  simpa [lk] using this
#print axioms fresh_when_settled

/-- saving (or closing) a document leaves no unsaved entry of it -/
theorem closed_is_clean (s : St) (f : File) (inDir : Bool) :
    lk (evClose s f inDir).change f = none ∧ f ∉ (evClose s f inDir).hidden := by
  obtain ⟨_, _, p3, p4, _⟩ := saveOne_spec s f
  have h1 : lk (saveOne s f).change f = none := by rw [p3, lk_del]; simp
  have h2 : f ∉ (saveOne s f).hidden := by rw [p4, mem_filter_ne]; exact fun h => h.2 rfl
  unfold evClose
  cases inDir <;> exact ⟨h1, h2⟩
#print axioms closed_is_clean


/-! ### conformant clients: didOpen only for a document that is not open -/

/-- `t` has the unsaved entries of `s` for every file but `f` -/
def Keys (f : File) (s t : St) : Prop :=
  ∀ g, g ≠ f → lk t.change g = lk s.change g ∧ (g ∈ t.hidden ↔ g ∈ s.hidden)

theorem keys_of_frame {f : File} {s t : St} (h : Frame f s t) : Keys f s t :=
  fun g hg => ⟨(h g hg).2.1, (h g hg).2.2.1⟩

theorem keys_of_fields {f : File} {s t : St} (h2 : t.change = s.change) (h3 : t.hidden = s.hidden) : Keys f s t :=
  fun _ _ => ⟨by rw [h2], by rw [h3]⟩

theorem Keys.trans {f : File} {s t u : St} (h1 : Keys f s t) (h2 : Keys f t u) : Keys f s u :=
  fun g hg => ⟨(h2 g hg).1.trans (h1 g hg).1, (h2 g hg).2.trans (h1 g hg).2⟩

theorem pushAll_keys (f : File) (s : St) (new : EMap) : Keys f s (pushAll s new) :=
  keys_of_fields (pushAll_fields s new).2.1 (pushAll_fields s new).2.2

theorem evChange_keys (s : St) (f : File) (errs : List Err) : Keys f s (evChange s f errs) := by
  unfold evChange
  split
  · exact keys_of_frame ((clearChange_spec s f).1.trans (clearSyntax_spec _ f).1)
  · exact keys_of_frame (insertChange_spec s f errs).1

theorem evSave_keys (s : St) (f : File) (new : EMap) : Keys f s (evSave s f new) :=
  (pushAll_keys f s new).trans (keys_of_frame (saveOne_spec _ f).1)

theorem evClose_keys (s : St) (f : File) (inDir : Bool) : Keys f s (evClose s f inDir) := by
  have h := keys_of_frame (saveOne_spec s f).1
  unfold evClose
  cases inDir with
  | true => exact h
  | false => exact h.trans (keys_of_fields rfl rfl)

theorem evOpenWith_keys (s : St) (f : File) (new : EMap) (edit : Option (List Err)) :
    Keys f s (evOpenWith s f new edit) := by
  unfold evOpenWith
  cases edit with
  | none => exact (pushAll_keys f s new).trans (keys_of_frame (clearChange_spec _ f).1)
  | some errs =>
    simp only
    split
    · exact (pushAll_keys f s new).trans
        ((keys_of_frame (clearSyntax_spec _ f).1).trans (keys_of_frame (clearChange_spec _ f).1))
    · exact (pushAll_keys f s new).trans (keys_of_frame (insertChange_spec _ f errs).1)

/-- the documents the client has open after an event -/
def openedAfter (opened : List File) : Ev → List File
  | .open f _ _ => f :: opened
  | .close f _ => opened.filter (· != f)
  | _ => opened

/-- a conformant client sends didOpen only for a document that is not open and didChange only for one that is -/
def okC (opened : List File) : Ev → Prop
  | .open f new _ => NodupKeys new ∧ f ∉ opened
  | .change f _ => f ∈ opened
  | .save _ new => NodupKeys new
  | .watched _ new => NodupKeys new
  | .close _ _ => True

def ValidC : List File → List Ev → Prop
  | _, [] => True
  | o, e :: r => okC o e ∧ ValidC (openedAfter o e) r

/-- no unsaved entry is held for a document that is not open -/
def Closed (s : St) (opened : List File) : Prop := ∀ f, f ∉ opened → lk s.change f = none ∧ f ∉ s.hidden

theorem step_closed (s : St) (opened : List File) (e : Ev) (hc : Closed s opened) (ho : okC opened e) :
    Closed (step s e) (openedAfter opened e) := by
  have use : ∀ (f : File) (t : St), Keys f s t → ∀ g, g ≠ f → g ∉ opened → lk t.change g = none ∧ g ∉ t.hidden := by
    intro f t hk g hg hno
    obtain ⟨k1, k2⟩ := hk g hg
    obtain ⟨c1, c2⟩ := hc g hno
    exact ⟨k1.trans c1, fun h => c2 (k2.mp h)⟩
  cases e with
  | «open» f new edit =>
    intro g hg
    have hg' : g ≠ f ∧ g ∉ opened := by
      simp only [openedAfter, List.mem_cons, not_or] at hg; exact hg
    exact use f _ (evOpenWith_keys s f new edit) g hg'.1 hg'.2
  | change f errs =>
    intro g hg
    have : g ≠ f := fun h => hg (h ▸ ho)
    exact use f _ (evChange_keys s f errs) g this hg
  | save f new =>
    intro g hg
    by_cases hgf : g = f
    · subst hgf
      obtain ⟨_, _, p3, p4, _⟩ := saveOne_spec (pushAll s new) g
      show lk (saveOne (pushAll s new) g).change g = none ∧ g ∉ (saveOne (pushAll s new) g).hidden
      rw [p3, p4, lk_del, mem_filter_ne]
      exact ⟨by simp, fun h => h.2 rfl⟩
    · exact use f _ (evSave_keys s f new) g hgf hg
  | close f inDir =>
    intro g hg
    by_cases hgf : g = f
    · subst hgf; exact closed_is_clean s g inDir
    · have : g ∉ opened := by
        intro h
        apply hg
        simp only [openedAfter]
        rw [mem_filter_ne]; exact ⟨h, hgf⟩
      exact use f _ (evClose_keys s f inDir) g hgf this
  | watched fs new =>
    intro g hg
    obtain ⟨c1, c2⟩ := hc g hg
    show lk (pushAll s new).change g = none ∧ g ∉ (pushAll s new).hidden
    rw [(pushAll_fields s new).2.1, (pushAll_fields s new).2.2]
    exact ⟨c1, c2⟩

theorem okEv_of_okC (s : St) (opened : List File) (e : Ev) (hc : Closed s opened) (ho : okC opened e) : okEv s e := by
  cases e with
  | «open» f new edit => exact ⟨ho.1, (hc f ho.2).1⟩
  | change f errs => trivial
  | save f new => exact ho
  | close f inDir => trivial
  | watched fs new => exact ho

/-- C08 for the bookkeeping, stated over the protocol alone: for every history a conformant client can produce,
    whatever the analyses deliver, after every event every file shows its view -/
theorem conformant_history_consistent (evs : List Ev) (s : St) (opened : List File) (hs : Inv s)
    (hc : Closed s opened) (hv : ValidC opened evs) : Inv (evs.foldl step s) := by
  induction evs generalizing s opened with
  | nil => exact hs
  | cons e r ih =>
    simp only [List.foldl]
    exact ih (step s e) (openedAfter opened e) (step_inv s e hs (okEv_of_okC s opened e hc hv.1))
      (step_closed s opened e hc hv.1) hv.2
#print axioms conformant_history_consistent

/-! ### settled states: what a freshly started server shows -/

/-- no unsaved entries, and the client holds exactly what a fresh server publishes for `saved` -/
def Settled (s : St) : Prop := s.change = [] ∧ s.hidden = [] ∧ ∀ f, s.client f = shown s.saved f

theorem settled_inv (s : St) (h : Settled s) : Inv s ∧ Closed s [] := by
  obtain ⟨h1, h2, h3⟩ := h
  refine ⟨⟨?_, by rw [h1]; exact List.nodup_nil⟩, ?_⟩
  · intro f; unfold view; rw [h1, h2]; simpa [lk] using h3 f
  · intro f _; rw [h1, h2]; exact ⟨rfl, List.not_mem_nil⟩

/-- a fresh server (initialize) is settled -/
theorem init_settled (m : EMap) (hn : NodupKeys m) : Settled (evInit m) ∧ (evInit m).saved = m := by
  have key : ∀ (l : EMap) (t : St), NodupKeys l →
      (l.foldl (fun s p => publish s p.1 p.2) t).saved = t.saved ∧
      (l.foldl (fun s p => publish s p.1 p.2) t).change = t.change ∧
      (l.foldl (fun s p => publish s p.1 p.2) t).hidden = t.hidden ∧
      ∀ f, (l.foldl (fun s p => publish s p.1 p.2) t).client f = (match lk l f with | some e => e | none => t.client f) := by
    intro l
    induction l with
    | nil => intro t _; exact ⟨rfl, rfl, rfl, fun f => by simp [lk]⟩
    | cons p r ih =>
      intro t hn
      obtain ⟨hn', hnot⟩ := nodup_tail p r hn
      simp only [List.foldl]
      obtain ⟨a, b, b', c⟩ := ih (publish t p.1 p.2) hn'
      refine ⟨a, b, b', ?_⟩
      intro f
      rw [c f, lk_cons]
      by_cases hp : p.1 = f
      · subst hp
        have hr : lk r p.1 = none := (lk_none_iff r p.1).mpr hnot
        simp [hr, publish_client]
      · have e1 : (p.1 == f) = false := by simpa using hp
        have e2 : (f == p.1) = false := by simpa using fun h => hp h.symm
        simp only [e1, Bool.false_eq_true, if_false]
        cases lk r f <;> simp [publish_client, e2]
  obtain ⟨a, b, b', c⟩ := key m { saved := m } hn
  refine ⟨⟨b, b', ?_⟩, a⟩
  intro f
  unfold evInit
  rw [c f, a]
  unfold shown
  cases lk m f <;> rfl
#print axioms init_settled


/-- from a freshly started server, along every history of a conformant client, every file shows its view after
    every event; in particular (`fresh_when_settled`) once every buffer is saved or closed the client holds what a
    freshly started server publishes for the final error map -/
theorem from_fresh (m : EMap) (hn : NodupKeys m) (evs : List Ev) (hv : ValidC [] evs) :
    Consistent (evs.foldl step (evInit m)) :=
  (conformant_history_consistent evs (evInit m) [] (settled_inv _ (init_settled m hn).1).1
    (settled_inv _ (init_settled m hn).1).2 hv).1
#print axioms from_fresh

/-- the premises are satisfiable and the statement is not vacuous: an open-edit-(other file saved)-save history -/
example :
    ValidC [] [.open "f.lua" [("f.lua", [⟨2, "w", ""⟩])] none, .change "f.lua" [⟨1, "syntax", ""⟩],
               .save "g.lua" [("g.lua", [⟨2, "w", ""⟩])], .save "f.lua" []] := by
  simp [ValidC, okC, openedAfter, NodupKeys]

/-! ### where the property failed in the model (and, by the correspondence, in the code) before the repairs -/

def w1 : Err := ⟨2, "w1", ""⟩
def syn : Err := ⟨1, "syntax", ""⟩

/-- K1 as it was (`pushAllOld`: the unsaved errors were re-shown only when the new map was empty): f.lua has an
    unsaved buffer with a syntax error; saving g.lua re-publishes everything and, because f.lua's saved list changed
    (its warning is gone), f.lua is cleared although its buffer still has the syntax error -/
theorem dirty_view_overridden_before :
    let s0 : St := { saved := [("f.lua", [w1])], client := fun g => if g == "f.lua" then [w1] else [] }
    let s1 := evChange s0 "f.lua" [syn]
    let s2 := saveOne (pushAllOld s1 [("g.lua", [w1])]) "g.lua"
    s1.client "f.lua" = [syn] ∧ hasKey s2.change "f.lua" = true ∧ s2.client "f.lua" = [] := by
  decide
#print axioms dirty_view_overridden_before

/-- K1 repaired: in the same history the buffer's syntax error stays; and a buffer WITHOUT syntax errors keeps
    hiding the saved syntax errors when another file is saved -/
theorem dirty_view_kept :
    let s0 : St := { saved := [("f.lua", [w1])], client := fun g => if g == "f.lua" then [w1] else [] }
    let s1 := evChange s0 "f.lua" [syn]
    let s2 := evSave s1 "g.lua" [("g.lua", [w1])]
    let t0 : St := { saved := [("f.lua", [syn, w1])], client := fun g => if g == "f.lua" then [syn, w1] else [] }
    let t1 := evChange t0 "f.lua" []
    let t2 := evSave t1 "g.lua" [("f.lua", [syn, w1]), ("g.lua", [w1])]
    s2.client "f.lua" = [syn] ∧ t1.client "f.lua" = [w1] ∧ t2.client "f.lua" = [w1] := by
  decide
#print axioms dirty_view_kept

/-- K2 as it was (IsSameErrList comparing ToString() only, `sameErrsOld`): the two lists look the same although
    the related location moved -/
theorem stale_extra_before :
    sameErrsOld [⟨3, "dup", "also defined at g.lua:1"⟩] [⟨3, "dup", "also defined at g.lua:7"⟩] = true ∧
    sameErrs [⟨3, "dup", "also defined at g.lua:1"⟩] [⟨3, "dup", "also defined at g.lua:7"⟩] = false := by
  decide
#print axioms stale_extra_before

/-- K2 repaired: a list that differs only in related information is published again -/
theorem extra_republished :
    let s0 : St := { saved := [("f.lua", [⟨3, "dup", "also defined at g.lua:1"⟩])],
                     client := fun g => if g == "f.lua" then [⟨3, "dup", "also defined at g.lua:1"⟩] else [] }
    let s1 := evSave s0 "g.lua" [("f.lua", [⟨3, "dup", "also defined at g.lua:7"⟩])]
    s1.client "f.lua" = [⟨3, "dup", "also defined at g.lua:7"⟩] ∧
    shown s1.saved "f.lua" = [⟨3, "dup", "also defined at g.lua:7"⟩] := by
  decide
#print axioms extra_republished

/-! ### corollaries for settled states (the statements the earlier versions of this file proved one by one) -/

theorem save_fresh (s : St) (f : File) (new : EMap) (hs : Settled s) (hn : NodupKeys new) :
    Settled (evSave s f new) ∧ (evSave s f new).saved = new := by
  have hi := evSave_inv s f new hn (settled_inv s hs).1
  obtain ⟨_, p2, p3, p4, _⟩ := saveOne_spec (pushAll s new) f
  obtain ⟨q1, q2, q3⟩ := pushAll_fields s new
  have hc : (evSave s f new).change = [] := by
    show (saveOne (pushAll s new) f).change = []
    rw [p3, q2, hs.1]; rfl
  have hh : (evSave s f new).hidden = [] := by
    show (saveOne (pushAll s new) f).hidden = []
    rw [p4, q3, hs.2.1]; rfl
  exact ⟨⟨hc, hh, fresh_when_settled _ hi.1 hc hh⟩, p2.trans q1⟩
#print axioms save_fresh

theorem watched_fresh (s : St) (fs : List File) (new : EMap) (hs : Settled s) (hn : NodupKeys new) :
    Settled (evWatched s fs new) ∧ (evWatched s fs new).saved = new := by
  have hi := evWatched_inv s fs new hn (settled_inv s hs).1
  obtain ⟨q1, q2, q3⟩ := pushAll_fields s new
  have hc : (evWatched s fs new).change = [] := q2.trans hs.1
  have hh : (evWatched s fs new).hidden = [] := q3.trans hs.2.1
  exact ⟨⟨hc, hh, fresh_when_settled _ hi.1 hc hh⟩, q1⟩
#print axioms watched_fresh

theorem open_fresh (s : St) (f : File) (new : EMap) (hs : Settled s) (hn : NodupKeys new) :
    Settled (evOpen s f new) ∧ (evOpen s f new).saved = new := by
  obtain ⟨q1, q2, q3⟩ := pushAll_fields s new
  have hnoop : evOpen s f new = pushAll s new := by
    unfold evOpen clearChange; rw [q2, hs.1]; rfl
  rw [hnoop]
  exact watched_fresh s [] new hs hn
#print axioms open_fresh

/-- an edit whose buffer has syntax errors: the file shows exactly them, every other file is untouched -/
theorem change_with_errors (s : St) (f : File) (errs : List Err) (he : errs ≠ []) :
    (evChange s f errs).client f = errs ∧ ∀ g, g ≠ f → (evChange s f errs).client g = s.client g := by
  have : errs.isEmpty = false := by cases errs <;> simp at he ⊢
  unfold evChange
  rw [this]
  simp only [Bool.false_eq_true, if_false]
  obtain ⟨p1, _, p3⟩ := insertChange_spec s f errs
  exact ⟨p3, fun g hg => (p1 g hg).1⟩
#print axioms change_with_errors

end LuaHelper.C08
