/-
C08 — "After any edit / file-event history, diagnostics equal those of a fresh start".

Model: Model/Diag.lean — the publish / clear bookkeeping of diagnostics_manager.go under the handler
sequences of textdocument_file_request.go; the analysis result of every event is an input.  The
harness feeds the model the error maps the real server computed (read through a verif hook) and
compares the model's client view with the folded stream of real publishDiagnostics notifications;
separately it compares that view with a freshly started server.
Proved here, for ALL states, files, error maps:
 * `pushAll_file`: after a full re-publish, every file without an unsaved-error entry shows exactly
   what a fresh server would publish for the new map — provided equal-looking lists are equal
   (`Faithful`), which always holds since IsSameErrList also compares related information and the
   entry file (`sameErrs_eq`, `faithful`; repair of finding K2);
 * `settled_*`: the settled states (no unsaved errors, client = fresh view) are closed under
   save / watched-files / open / close;
 * `change_*`: from a settled state an edit shows the buffer's syntax errors, or the saved
   non-syntax diagnostics when it has none;  `edit_save_cycle`: edit-then-save is settled again;
 * `dirty_view_overridden` (finding K1): a full re-publish triggered by ANOTHER file replaces the
   syntax errors of a still-unsaved buffer by saved diagnostics;
 * `*_fresh`: the unconditional forms;  `extra_republished` / `stale_extra_before`: finding K2 (a list that
   differs only in related information was not re-published), repaired.
-/
import LuaHelper.Model.Diag
import LuaHelper.Gen.Shapes
namespace LuaHelper.C08
open LuaHelper.Diag

/-- the handler sequences the model's `ev*` functions are written after, as they stand in /repo now
    (regenerated on every run): which bookkeeping methods each document / file handler calls, in order.
    didClose restores the saved diagnostics with SaveOneFilePushAgain (repair aa13bc7); didOpen treats a text
    that differs from the file like an unsaved edit (repair ce0b3a3, `evOpenWith`). -/
theorem handler_call_shape :
    Gen.bookkeepingCalls =
      [("TextDocumentDidOpen", ["pushAllDiagnosticsAgain", "InsertChangeFileErr", "ClearFileSyntaxErr", "ClearChangeFileErr"]),
       ("TextDocumentDidChange", ["InsertChangeFileErr", "ClearChangeFileErr", "ClearFileSyntaxErr"]),
       ("WorkspaceChangeWatchedFiles", ["ClearChangeFileErr", "pushAllDiagnosticsAgain"]),
       ("TextDocumentDidClose", ["SaveOneFilePushAgain", "ClearOneFileDiagnostic", "RemoveFile"]),
       ("TextDocumentDidSave", ["SaveOneFilePushAgain", "pushAllDiagnosticsAgain", "SaveOneFilePushAgain"])] := by decide
#print axioms handler_call_shape

/-! ### association-list facts -/

theorem lk_cons (p : File × List Err) (m : EMap) (f : File) :
    lk (p :: m) f = if p.1 == f then some p.2 else lk m f := by
  unfold lk
  simp only [List.find?]
  cases h : p.1 == f <;> simp

theorem lk_del (m : EMap) (f g : File) : lk (del m f) g = if g == f then none else lk m g := by
  induction m with
  | nil => simp [del, lk]
  | cons p r ih =>
    have hd : del (p :: r) f = if p.1 != f then p :: del r f else del r f := by
      unfold del; simp only [List.filter]; cases p.1 != f <;> rfl
    rw [hd]
    by_cases hp : p.1 = f
    · have e : (p.1 != f) = false := by simp [hp]
      rw [e]; simp only [Bool.false_eq_true, if_false]
      rw [ih, lk_cons]
      by_cases hg : g = f
      · simp [hg]
      · have e2 : (p.1 == g) = false := by rw [hp]; simpa using fun h => hg h.symm
        have e3 : (g == f) = false := by simpa using hg
        simp [e2, e3]
    · have e : (p.1 != f) = true := by simpa using hp
      rw [e]; simp only [if_true]
      rw [lk_cons, lk_cons, ih]
      by_cases hg : g = f
      · have e2 : (p.1 == g) = false := by rw [hg]; simpa using hp
        simp [hg, hp]
      · have e3 : (g == f) = false := by simpa using hg
        simp [e3]

def hasKey (m : EMap) (f : File) : Bool := m.any (·.1 == f)

theorem hasKey_cons (p : File × List Err) (m : EMap) (f : File) : hasKey (p :: m) f = (p.1 == f || hasKey m f) := by
  unfold hasKey; simp [List.any]

theorem lk_none_iff (m : EMap) (f : File) : lk m f = none ↔ hasKey m f = false := by
  induction m with
  | nil => simp [lk, hasKey]
  | cons p r ih =>
    rw [lk_cons, hasKey_cons]
    cases h : p.1 == f <;> simp [ih]

/-! ### single steps -/

theorem publish_client (s : St) (f g : File) (e : List Err) :
    (publish s f e).client g = if g == f then e else s.client g := rfl
theorem publish_saved (s : St) (f : File) (e : List Err) : (publish s f e).saved = s.saved := rfl
theorem publish_change (s : St) (f : File) (e : List Err) : (publish s f e).change = s.change := rfl

theorem clearStep_fields (new : EMap) (s : St) (p : File × List Err) :
    (clearStep new s p).saved = s.saved ∧ (clearStep new s p).change = s.change := by
  unfold clearStep; split <;> exact ⟨rfl, rfl⟩

theorem pushStep_fields (old : EMap) (s : St) (p : File × List Err) :
    (pushStep old s p).saved = s.saved ∧ (pushStep old s p).change = s.change := by
  unfold pushStep
  split
  · exact ⟨rfl, rfl⟩
  · split <;> exact ⟨rfl, rfl⟩

theorem clearStep_client (new : EMap) (s : St) (p : File × List Err) (f : File) :
    (clearStep new s p).client f = if (p.1 == f && (lk new p.1).isNone) then [] else s.client f := by
  unfold clearStep
  by_cases hp : p.1 = f
  · subst hp
    cases hn : (lk new p.1).isNone <;> simp [publish_client]
  · have e1 : (p.1 == f) = false := by simpa using hp
    have e2 : (f == p.1) = false := by simpa using fun h => hp h.symm
    cases hn : (lk new p.1).isNone <;> simp [publish_client, e1, e2]

theorem pushStep_client_ne (old : EMap) (s : St) (p : File × List Err) (f : File) (h : p.1 ≠ f) :
    (pushStep old s p).client f = s.client f := by
  have e2 : (f == p.1) = false := by simpa using fun h' => h h'.symm
  unfold pushStep
  split
  · simp [publish_client, e2]
  · split
    · rfl
    · simp [publish_client, e2]

theorem pushStep_client_eq (old : EMap) (s : St) (p : File × List Err) :
    (pushStep old s p).client p.1 =
      (match lk old p.1 with
       | none => p.2
       | some o => if sameErrs o p.2 then s.client p.1 else p.2) := by
  unfold pushStep
  cases lk old p.1 with
  | none => simp [publish_client]
  | some o =>
    by_cases hs : sameErrs o p.2 = true
    · simp [hs]
    · simp [hs, publish_client]

/-! ### folds -/

theorem clear_fold_fields (new l : EMap) (s : St) :
    (l.foldl (clearStep new) s).saved = s.saved ∧ (l.foldl (clearStep new) s).change = s.change := by
  induction l generalizing s with
  | nil => exact ⟨rfl, rfl⟩
  | cons p r ih =>
    simp only [List.foldl]
    obtain ⟨a, b⟩ := ih (clearStep new s p)
    obtain ⟨c, d⟩ := clearStep_fields new s p
    exact ⟨a.trans c, b.trans d⟩

theorem push_fold_fields (old l : EMap) (s : St) :
    (l.foldl (pushStep old) s).saved = s.saved ∧ (l.foldl (pushStep old) s).change = s.change := by
  induction l generalizing s with
  | nil => exact ⟨rfl, rfl⟩
  | cons p r ih =>
    simp only [List.foldl]
    obtain ⟨a, b⟩ := ih (pushStep old s p)
    obtain ⟨c, d⟩ := pushStep_fields old s p
    exact ⟨a.trans c, b.trans d⟩

theorem clear_fold_client (new l : EMap) (s : St) (f : File) :
    (l.foldl (clearStep new) s).client f = if (hasKey l f && (lk new f).isNone) then [] else s.client f := by
  induction l generalizing s with
  | nil => simp [hasKey]
  | cons p r ih =>
    simp only [List.foldl]
    rw [ih, clearStep_client, hasKey_cons]
    by_cases hp : p.1 = f
    · subst hp
      cases hn : (lk new p.1).isNone <;> cases hk : hasKey r p.1 <;> simp
    · have e1 : (p.1 == f) = false := by simpa using hp
      simp [e1]

def NodupKeys (m : EMap) : Prop := (m.map (·.1)).Nodup

theorem nodup_tail (p : File × List Err) (r : EMap) (h : NodupKeys (p :: r)) :
    NodupKeys r ∧ hasKey r p.1 = false := by
  unfold NodupKeys at h ⊢
  simp only [List.map, List.nodup_cons] at h
  refine ⟨h.2, ?_⟩
  unfold hasKey
  rw [List.any_eq_false]
  intro q hq
  simp only [beq_iff_eq]
  intro he
  exact h.1 (by rw [← he]; exact List.mem_map_of_mem hq)

theorem push_fold_client (old l : EMap) (hn : NodupKeys l) (s : St) (f : File) :
    (l.foldl (pushStep old) s).client f =
      (match lk l f with
       | none => s.client f
       | some e => (match lk old f with
          | none => e
          | some o => if sameErrs o e then s.client f else e)) := by
  induction l generalizing s with
  | nil => simp [lk]
  | cons p r ih =>
    obtain ⟨hn', hnot⟩ := nodup_tail p r hn
    simp only [List.foldl]
    rw [ih hn', lk_cons]
    by_cases hp : p.1 = f
    · subst hp
      have hr : lk r p.1 = none := (lk_none_iff r p.1).mpr hnot
      simp only [hr, beq_self_eq_true, if_true]
      exact pushStep_client_eq old s p
    · have e1 : (p.1 == f) = false := by simpa using hp
      simp only [e1, Bool.false_eq_true, if_false]
      rw [pushStep_client_ne old s p f hp]

theorem rechange_fold (l : EMap) (t : St) :
    (l.foldl rechangeStep t).saved = t.saved ∧
    ∀ f, hasKey l f = false → (l.foldl rechangeStep t).client f = t.client f := by
  induction l generalizing t with
  | nil => exact ⟨rfl, fun _ _ => rfl⟩
  | cons p r ih =>
    simp only [List.foldl]
    obtain ⟨a, b⟩ := ih (rechangeStep t p)
    refine ⟨a, ?_⟩
    intro f hf
    rw [hasKey_cons] at hf
    simp only [Bool.or_eq_false_iff] at hf
    rw [b f hf.2]
    have e2 : (f == p.1) = false := by
      have := hf.1; simp at this ⊢; exact fun h => this h.symm
    unfold rechangeStep
    simp [publish_client, e2]

theorem rechange_fold_change (l : EMap) (t : St) : (l.foldl rechangeStep t).change = t.change := by
  induction l generalizing t with
  | nil => rfl
  | cons p r ih => simp only [List.foldl]; rw [ih]; rfl

/-! ### the full re-publish -/

/-- lists that look the same to IsSameErrList are the same (false when only related information differs) -/
def Faithful (old new : EMap) : Prop :=
  ∀ f o e, lk old f = some o → lk new f = some e → sameErrs o e = true → o = e

/-- IsSameErrList is exact (since the repair of finding K2): lists it calls the same are the same -/
theorem sameErrs_eq (a b : List Err) (h : sameErrs a b = true) : a = b := by
  unfold sameErrs at h
  have h' := eq_of_beq h
  clear h
  induction a generalizing b with
  | nil => cases b with
    | nil => rfl
    | cons y ys => simp at h'
  | cons x xs ih =>
    cases b with
    | nil => simp at h'
    | cons y ys =>
      simp only [List.map_cons, List.cons.injEq, Prod.mk.injEq] at h'
      obtain ⟨⟨h1, h2, h3⟩, h4⟩ := h'
      have hx : x = y := by cases x; cases y; simp_all
      rw [hx, ih ys h4]
#print axioms sameErrs_eq

theorem sameErrs_refl (a : List Err) : sameErrs a a = true := by unfold sameErrs; exact beq_self_eq_true _

/-- hence every pair of error maps is faithful: the hypothesis `Faithful` of the theorems below always holds -/
theorem faithful (old new : EMap) : Faithful old new := fun _ o e _ _ h => sameErrs_eq o e h
#print axioms faithful

theorem pushAll_saved (s : St) (new : EMap) : (pushAll s new).saved = new := by
  unfold pushAll
  simp only
  split
  · rw [(rechange_fold _ _).1]
  · rfl

theorem pushAll_change (s : St) (new : EMap) : ∀ f, hasKey (pushAll s new).change f = hasKey s.change f := by
  intro f
  have hc : ({ (new.foldl (pushStep s.saved) (s.saved.foldl (clearStep new) s)) with saved := new } : St).change = s.change := by
    show (new.foldl (pushStep s.saved) (s.saved.foldl (clearStep new) s)).change = s.change
    rw [(push_fold_fields _ _ _).2, (clear_fold_fields _ _ _).2]
  unfold pushAll
  simp only
  split
  · have : ∀ (l : EMap) (t : St), (l.foldl rechangeStep t).change = t.change := by
      intro l; induction l with
      | nil => intro t; rfl
      | cons p r ih => intro t; simp only [List.foldl]; rw [ih]; rfl
    rw [this, hc]
  · rw [hc]

/-- after a full re-publish a file without unsaved-error entry shows the fresh view of the new map -/
theorem pushAll_file (s : St) (new : EMap) (hn : NodupKeys new) (hf : Faithful s.saved new) (f : File)
    (hc : s.client f = shown s.saved f) (hd : hasKey s.change f = false) :
    (pushAll s new).client f = shown new f := by
  have main : (new.foldl (pushStep s.saved) (s.saved.foldl (clearStep new) s)).client f = shown new f := by
    rw [push_fold_client s.saved new hn, clear_fold_client]
    unfold shown at hc ⊢
    cases hnew : lk new f with
    | none =>
      simp only [Option.isNone_none, Bool.and_true, Option.getD_none]
      cases hk : hasKey s.saved f
      · have : lk s.saved f = none := (lk_none_iff _ _).mpr hk
        simp [hc, this]
      · simp
    | some e =>
      simp only [Option.isNone_some, Bool.and_false, Option.getD_some]
      cases hold : lk s.saved f with
      | none => simp
      | some o =>
        by_cases hs : sameErrs o e = true
        · have := hf f o e hold hnew hs
          simp [hs, hc, hold, this]
        · simp [hs]
  have hch : (new.foldl (pushStep s.saved) (s.saved.foldl (clearStep new) s)).change = s.change := by
    rw [(push_fold_fields _ _ _).2, (clear_fold_fields _ _ _).2]
  unfold pushAll
  simp only
  split
  · rw [(rechange_fold _ _).2 f (by rw [hch]; exact hd)]
    exact main
  · exact main
#print axioms pushAll_file


/-! ### settled states and the handlers -/

/-- no unsaved-error entries, and the client holds exactly what a fresh server publishes for `saved` -/
def Settled (s : St) : Prop := s.change = [] ∧ ∀ f, s.client f = shown s.saved f

theorem hasKey_nil (f : File) : hasKey [] f = false := rfl

theorem pushAll_settled (s : St) (new : EMap) (hs : Settled s) (hn : NodupKeys new) (hf : Faithful s.saved new) :
    Settled (pushAll s new) ∧ (pushAll s new).saved = new := by
  refine ⟨⟨?_, ?_⟩, pushAll_saved s new⟩
  · -- change stays empty
    have hc : (new.foldl (pushStep s.saved) (s.saved.foldl (clearStep new) s)).change = [] := by
      rw [(push_fold_fields _ _ _).2, (clear_fold_fields _ _ _).2]; exact hs.1
    unfold pushAll
    simp only
    split
    · rw [rechange_fold_change]; exact hc
    · exact hc
  · intro f
    rw [pushAll_saved]
    exact pushAll_file s new hn hf f (hs.2 f) (by rw [hs.1]; rfl)

theorem clearChange_noop (s : St) (f : File) (h : s.change = []) : clearChange s f = s := by
  unfold clearChange; rw [h]; rfl

theorem saveOne_settled (s : St) (f : File) (hs : Settled s) : Settled (saveOne s f) ∧ (saveOne s f).saved = s.saved := by
  unfold saveOne
  simp only [hs.1, del, List.filter]
  cases h : lk s.saved f with
  | none =>
    refine ⟨⟨rfl, ?_⟩, rfl⟩
    intro g
    rw [publish_client]
    by_cases hg : g = f
    · subst hg; simp [shown, publish_saved, h]
    · have : (g == f) = false := by simpa using hg
      simp [this]; exact hs.2 g
  | some e =>
    have hp : pushFile { s with change := [] } f false = publish { s with change := [] } f e := by
      unfold pushFile; simp [h]
    rw [hp]
    refine ⟨⟨rfl, ?_⟩, rfl⟩
    intro g
    rw [publish_client]
    by_cases hg : g = f
    · subst hg; simp [shown, publish_saved, h]
    · have : (g == f) = false := by simpa using hg
      simp [this]; exact hs.2 g

/-- didSave from a settled state, the analysis delivering `new`: the client holds the fresh view of `new` -/
theorem settled_save (s : St) (f : File) (new : EMap) (hs : Settled s) (hn : NodupKeys new)
    (hf : Faithful s.saved new) : Settled (evSave s f new) ∧ (evSave s f new).saved = new := by
  obtain ⟨h1, h2⟩ := pushAll_settled s new hs hn hf
  obtain ⟨h3, h4⟩ := saveOne_settled (pushAll s new) f h1
  exact ⟨h3, h4.trans h2⟩
#print axioms settled_save

theorem fold_clearChange_noop (fs : List File) (s : St) (h : s.change = []) : fs.foldl clearChange s = s := by
  induction fs generalizing s with
  | nil => rfl
  | cons f r ih => simp only [List.foldl]; rw [clearChange_noop s f h]; exact ih s h

/-- didChangeWatchedFiles (creations, changes, deletions) from a settled state -/
theorem settled_watched (s : St) (fs : List File) (new : EMap) (hs : Settled s) (hn : NodupKeys new)
    (hf : Faithful s.saved new) : Settled (evWatched s fs new) ∧ (evWatched s fs new).saved = new := by
  unfold evWatched
  rw [fold_clearChange_noop fs s hs.1]
  exact pushAll_settled s new hs hn hf
#print axioms settled_watched

/-- didOpen from a settled state -/
theorem settled_open (s : St) (f : File) (new : EMap) (hs : Settled s) (hn : NodupKeys new)
    (hf : Faithful s.saved new) : Settled (evOpen s f new) ∧ (evOpen s f new).saved = new := by
  unfold evOpen
  obtain ⟨h1, h2⟩ := pushAll_settled s new hs hn hf
  rw [clearChange_noop _ f h1.1]
  exact ⟨h1, h2⟩
#print axioms settled_open

/-- didClose from a settled state: a file outside the workspace directories is forgotten and cleared -/
theorem settled_close (s : St) (f : File) (inDir : Bool) (hs : Settled s) : Settled (evClose s f inDir) := by
  unfold evClose
  obtain ⟨h1, h2⟩ := saveOne_settled s f hs
  cases inDir with
  | true => exact h1
  | false =>
    refine ⟨h1.1, ?_⟩
    intro g
    show (publish (saveOne s f) f []).client g = shown (del (saveOne s f).saved f) g
    rw [publish_client]
    unfold shown
    rw [lk_del]
    by_cases hg : g = f
    · subst hg; simp
    · have : (g == f) = false := by simpa using hg
      simp [this]; exact h1.2 g
#print axioms settled_close

/-- a fresh server (initialize) is settled -/
theorem init_settled (m : EMap) (hn : NodupKeys m) : Settled (evInit m) ∧ (evInit m).saved = m := by
  have key : ∀ (l : EMap) (t : St), NodupKeys l →
      (l.foldl (fun s p => publish s p.1 p.2) t).saved = t.saved ∧
      (l.foldl (fun s p => publish s p.1 p.2) t).change = t.change ∧
      ∀ f, (l.foldl (fun s p => publish s p.1 p.2) t).client f = (match lk l f with | some e => e | none => t.client f) := by
    intro l
    induction l with
    | nil => intro t _; exact ⟨rfl, rfl, fun f => by simp [lk]⟩
    | cons p r ih =>
      intro t hn
      obtain ⟨hn', hnot⟩ := nodup_tail p r hn
      simp only [List.foldl]
      obtain ⟨a, b, c⟩ := ih (publish t p.1 p.2) hn'
      refine ⟨a, b, ?_⟩
      intro f
      rw [c f, lk_cons]
      by_cases hp : p.1 = f
      · subst hp
        have hr : lk r p.1 = none := (lk_none_iff r p.1).mpr hnot
        simp [hr, publish_client]
      · have e1 : (p.1 == f) = false := by simpa using hp
        have e2 : (f == p.1) = false := by simpa using fun h => hp h.symm
        simp only [e1, Bool.false_eq_true, if_false]
        cases lk r f <;> simp [publish_client, e2]
  obtain ⟨a, b, c⟩ := key m { saved := m } hn
  refine ⟨⟨b, ?_⟩, a⟩
  intro f
  unfold evInit
  rw [c f, a]
  unfold shown
  cases lk m f <;> rfl
#print axioms init_settled

/-- an edit whose buffer has syntax errors: the file shows exactly them, every other file is untouched -/
theorem change_with_errors (s : St) (f : File) (errs : List Err) (he : errs ≠ []) :
    (evChange s f errs).client f = errs ∧ ∀ g, g ≠ f → (evChange s f errs).client g = s.client g := by
  have : errs.isEmpty = false := by cases errs <;> simp at he ⊢
  unfold evChange
  rw [this]
  simp only [Bool.false_eq_true, if_false]
  unfold insertChange
  refine ⟨by simp [publish_client], ?_⟩
  intro g hg
  have : (g == f) = false := by simpa using hg
  simp [publish_client, this]
#print axioms change_with_errors

/-- an edit whose buffer has no syntax error, from a settled state: the file shows its last saved
    non-syntax diagnostics, every other file is untouched -/
theorem change_without_errors (s : St) (f : File) (hs : Settled s) :
    (evChange s f []).client f = nonSyntax (shown s.saved f) ∧
    ∀ g, g ≠ f → (evChange s f []).client g = s.client g := by
  unfold evChange
  simp only [List.isEmpty_nil, if_true]
  rw [clearChange_noop s f hs.1]
  unfold clearSyntax
  cases h : lk s.saved f with
  | none =>
    refine ⟨?_, fun g _ => rfl⟩
    rw [hs.2 f]; simp [shown, h, nonSyntax]
  | some e =>
    have hp : pushFile (publish s f []) f true = publish (publish s f []) f (nonSyntax e) := by
      unfold pushFile; simp [publish_saved, h]
    simp only [hp]
    refine ⟨by simp [publish_client, shown, h], ?_⟩
    intro g hg
    have : (g == f) = false := by simpa using hg
    simp [publish_client, this]
#print axioms change_without_errors

theorem clearSyntax_change (s : St) (f : File) : (clearSyntax s f).change = s.change := by
  unfold clearSyntax
  cases lk s.saved f with
  | none => rfl
  | some e => simp [pushFile, publish]; split <;> rfl

/-- didOpen with a text that differs from the file (from a settled state) is didOpen followed by the edit
    that turns the file's text into the opened one: what the client is shown is covered by
    `change_with_errors` / `change_without_errors` -/
theorem open_edited (s : St) (f : File) (new : EMap) (errs : List Err) (hs : Settled s) (hn : NodupKeys new)
    (hf : Faithful s.saved new) :
    evOpenWith s f new (some errs) = evChange (evOpen s f new) f errs := by
  obtain ⟨h1, _⟩ := pushAll_settled s new hs hn hf
  unfold evOpenWith evOpen evChange
  simp only
  rw [clearChange_noop (pushAll s new) f h1.1]
  by_cases he : errs.isEmpty = true
  · simp only [he, if_true]
    rw [clearChange_noop (pushAll s new) f h1.1]
    exact clearChange_noop _ f (by rw [clearSyntax_change]; exact h1.1)
  · simp only [he]
    rfl
#print axioms open_edited

/-- edit (with syntax errors) then save: settled again, whatever the buffer showed in between -/
theorem edit_save_cycle (s : St) (f : File) (errs : List Err) (new : EMap) (hs : Settled s) (he : errs ≠ [])
    (hn : NodupKeys new) (hf : Faithful s.saved new) :
    Settled (evSave (evChange s f errs) f new) ∧ (evSave (evChange s f errs) f new).saved = new := by
  have hne : errs.isEmpty = false := by cases errs <;> simp at he ⊢
  have hs1 : (evChange s f errs).saved = s.saved := by
    unfold evChange; rw [hne]; rfl
  have hc1 : (evChange s f errs).change = [(f, errs)] := by
    unfold evChange; rw [hne]; simp [insertChange, publish_change, ins, hs.1, del]
  obtain ⟨hcf, hco⟩ := change_with_errors s f errs he
  let s1 := evChange s f errs
  let s2 := pushAll s1 new
  have hs2saved : s2.saved = new := pushAll_saved s1 new
  have hkey : ∀ g, hasKey s2.change g = (f == g) := by
    intro g
    rw [show hasKey s2.change g = hasKey s1.change g from pushAll_change s1 new g, hc1]
    simp [hasKey]
  have hview : ∀ g, g ≠ f → s2.client g = shown new g := by
    intro g hg
    apply pushAll_file s1 new hn (by rw [hs1]; exact hf) g
    · rw [hco g hg, hs1]; exact hs.2 g
    · rw [hc1]; simp [hasKey]; exact fun h => hg h.symm
  -- saveOne f
  show Settled (saveOne s2 f) ∧ (saveOne s2 f).saved = new
  have hdel : del s2.change f = [] := by
    have : s2.change = [(f, errs)] := by
      have h1 : (new.foldl (pushStep s1.saved) (s1.saved.foldl (clearStep new) s1)).change = s1.change := by
        rw [(push_fold_fields _ _ _).2, (clear_fold_fields _ _ _).2]
      show (pushAll s1 new).change = _
      unfold pushAll
      simp only
      split
      · have : ∀ (l : EMap) (t : St), (l.foldl rechangeStep t).change = t.change := by
          intro l; induction l with
          | nil => intro t; rfl
          | cons p r ih => intro t; simp only [List.foldl]; rw [ih]; rfl
        rw [this]; exact h1.trans hc1
      · exact h1.trans hc1
    rw [this]; simp [del]
  unfold saveOne
  simp only [hdel]
  cases h : lk s2.saved f with
  | none =>
    refine ⟨⟨rfl, ?_⟩, hs2saved⟩
    intro g
    show (publish { s2 with change := [] } f []).client g = shown s2.saved g
    rw [publish_client, hs2saved]
    by_cases hg : g = f
    · subst hg; rw [hs2saved] at h; simp [shown, h]
    · have : (g == f) = false := by simpa using hg
      simp [this]; exact hview g hg
  | some e =>
    have hp : pushFile { s2 with change := [] } f false = publish { s2 with change := [] } f e := by
      unfold pushFile; simp [h]
    rw [hp]
    refine ⟨⟨rfl, ?_⟩, hs2saved⟩
    intro g
    show (publish { s2 with change := [] } f e).client g = shown s2.saved g
    rw [publish_client, hs2saved]
    by_cases hg : g = f
    · subst hg; rw [hs2saved] at h; simp [shown, h]
    · have : (g == f) = false := by simpa using hg
      simp [this]; exact hview g hg
#print axioms edit_save_cycle

/-- what saveOne does to the view: the file shows its full saved list, nothing else moves -/
theorem saveOne_view (t : St) (f : File) :
    (saveOne t f).saved = t.saved ∧ (saveOne t f).change = del t.change f ∧
    (saveOne t f).client f = shown t.saved f ∧ ∀ g, g ≠ f → (saveOne t f).client g = t.client g := by
  unfold saveOne
  simp only
  cases h : lk t.saved f with
  | none =>
    refine ⟨rfl, rfl, by simp [publish_client, shown, h], ?_⟩
    intro g hg
    have : (g == f) = false := by simpa using hg
    simp [publish_client, this]
  | some e =>
    have hp : pushFile { t with change := del t.change f } f false = publish { t with change := del t.change f } f e := by
      unfold pushFile; simp [h]
    simp only [hp]
    refine ⟨rfl, rfl, by simp [publish_client, shown, h], ?_⟩
    intro g hg
    have : (g == f) = false := by simpa using hg
    simp [publish_client, this]

/-- closing a buffer with unsaved edits (with or without syntax errors) restores the settled view:
    every file, the closed one included, shows what a fresh server shows for the saved map -/
theorem edit_close_cycle (s : St) (f : File) (errs : List Err) (hs : Settled s) :
    Settled (evClose (evChange s f errs) f true) ∧ (evClose (evChange s f errs) f true).saved = s.saved := by
  have hsaved : (evChange s f errs).saved = s.saved := by
    unfold evChange
    split
    · rw [clearChange_noop s f hs.1]
      unfold clearSyntax
      split
      · rfl
      · rename_i e h; unfold pushFile; simp [publish_saved, h]
    · rfl
  have hother : ∀ g, g ≠ f → (evChange s f errs).client g = s.client g := by
    by_cases he : errs = []
    · subst he; exact (change_without_errors s f hs).2
    · exact (change_with_errors s f errs he).2
  have hdel : del (evChange s f errs).change f = [] := by
    unfold evChange
    split
    · rw [clearChange_noop s f hs.1]
      have : (clearSyntax s f).change = [] := by
        unfold clearSyntax
        split
        · exact hs.1
        · rename_i e h; unfold pushFile; simp [publish_saved, publish_change, h, hs.1]
      rw [this]; rfl
    · simp [insertChange, publish_change, ins, hs.1, del]
  obtain ⟨v1, v2, v3, v4⟩ := saveOne_view (evChange s f errs) f
  show Settled (saveOne (evChange s f errs) f) ∧ (saveOne (evChange s f errs) f).saved = s.saved
  refine ⟨⟨by rw [v2, hdel], ?_⟩, v1.trans hsaved⟩
  intro g
  rw [v1, hsaved]
  by_cases hg : g = f
  · subst hg; rw [v3, hsaved]
  · rw [v4 g hg, hother g hg]; exact hs.2 g
#print axioms edit_close_cycle

/-- the empty start state is settled (a fresh server before any diagnostics) and the premises of the
    theorems above are satisfiable -/
example : Settled {} ∧ NodupKeys [("a.lua", [⟨1, "e", ""⟩])] ∧ Faithful [] [("a.lua", [⟨1, "e", ""⟩])] := by
  refine ⟨⟨rfl, fun _ => rfl⟩, by simp [NodupKeys], ?_⟩
  intro f o e h; simp [lk] at h

/-! ### where the property fails in the model (and, by the correspondence, in the code) -/

def w1 : Err := ⟨2, "w1", ""⟩
def syn : Err := ⟨1, "syntax", ""⟩

/-- K1: f.lua has an unsaved buffer with a syntax error; saving g.lua re-publishes everything and,
    because f.lua's saved list changed (its warning is gone), f.lua is cleared although its buffer still
    has the syntax error -/
theorem dirty_view_overridden :
    let s0 : St := { saved := [("f.lua", [w1])], client := fun g => if g == "f.lua" then [w1] else [] }
    let s1 := evChange s0 "f.lua" [syn]
    let s2 := evSave s1 "g.lua" [("g.lua", [w1])]
    s1.client "f.lua" = [syn] ∧ hasKey s2.change "f.lua" = true ∧ s2.client "f.lua" = [] := by
  decide
#print axioms dirty_view_overridden

/-- K2 as it was (IsSameErrList comparing ToString() only, `sameErrsOld`): the two lists look the same although
    the related location moved -/
theorem stale_extra_before :
    sameErrsOld [⟨3, "dup", "also defined at g.lua:1"⟩] [⟨3, "dup", "also defined at g.lua:7"⟩] = true ∧
    sameErrs [⟨3, "dup", "also defined at g.lua:1"⟩] [⟨3, "dup", "also defined at g.lua:7"⟩] = false := by
  decide
#print axioms stale_extra_before

/-- K2 repaired: a list that differs only in related information is published again -/
theorem extra_republished :
    let s0 : St := { saved := [("f.lua", [⟨3, "dup", "also defined at g.lua:1"⟩])],
                     client := fun g => if g == "f.lua" then [⟨3, "dup", "also defined at g.lua:1"⟩] else [] }
    let s1 := evSave s0 "g.lua" [("f.lua", [⟨3, "dup", "also defined at g.lua:7"⟩])]
    s1.client "f.lua" = [⟨3, "dup", "also defined at g.lua:7"⟩] ∧
    shown s1.saved "f.lua" = [⟨3, "dup", "also defined at g.lua:7"⟩] := by
  decide
#print axioms extra_republished

/-! ### the unconditional statements (every pair of maps is `faithful`) -/

theorem save_fresh (s : St) (f : File) (new : EMap) (hs : Settled s) (hn : NodupKeys new) :
    Settled (evSave s f new) ∧ (evSave s f new).saved = new := settled_save s f new hs hn (faithful _ _)
#print axioms save_fresh

theorem watched_fresh (s : St) (fs : List File) (new : EMap) (hs : Settled s) (hn : NodupKeys new) :
    Settled (evWatched s fs new) ∧ (evWatched s fs new).saved = new := settled_watched s fs new hs hn (faithful _ _)
#print axioms watched_fresh

theorem open_fresh (s : St) (f : File) (new : EMap) (hs : Settled s) (hn : NodupKeys new) :
    Settled (evOpen s f new) ∧ (evOpen s f new).saved = new := settled_open s f new hs hn (faithful _ _)
#print axioms open_fresh

theorem edit_save_fresh (s : St) (f : File) (errs : List Err) (new : EMap) (hs : Settled s) (he : errs ≠ [])
    (hn : NodupKeys new) :
    Settled (evSave (evChange s f errs) f new) ∧ (evSave (evChange s f errs) f new).saved = new :=
  edit_save_cycle s f errs new hs he hn (faithful _ _)
#print axioms edit_save_fresh

end LuaHelper.C08
