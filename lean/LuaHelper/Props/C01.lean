/-
C01 — "The server never crashes or hangs, whatever the workspace or the client sends".

A theorem cannot exhibit a Go panic or a runaway goroutine; what it can carry is
 (a) facts about the code regenerated on every run (Gen.Sites, go/ast extraction):
     * `recover_sites`: the panics the lexer / parser / annotation parser raise on malformed text are
       recovered exactly where the design says (BeginAnalyze, BeginAnalyzeExp, ParserLine) — removing
       one of them turns every syntax error into a process crash;
     * `no_dynamic_patterns`: no regexp.MustCompile call takes a pattern that is not a literal or
       literals + regexp.QuoteMeta(…) — a configuration string can no longer panic a handler
       (six such sites existed before the repair a72bfd6);
 (b) termination of the modelled algorithms, for ALL inputs:
     * `lexLine_fuel`: the annotation-line lexer consumes at least one byte per token, so its result
       does not depend on fuel beyond the length of the line (no input makes it loop);
     * the class closure (C15 `closure`, total by construction — its termination proof is part of its
       definition) and the text model (C02) are total functions.
Everything else — that no request on any workspace panics or hangs — is searched, not proved: the
harness runs the real server in child processes on malformed text, annotation soup, cyclic
annotations, random configuration files, partial edits, deep nesting and file events, sweeping
positions with every request type, and reports the scenario that kills or stalls it.
-/
import LuaHelper.Model.Annot
import LuaHelper.Gen.Sites
import LuaHelper.Gen.Preds
import LuaHelper.Gen.Shapes
namespace LuaHelper.C01
open LuaHelper.Annot

/-! ### (a) regenerated facts -/

theorem recover_sites :
    Gen.recoverSites =
      [("check/annotation/annotateparser/annotate_parser.go", "ParserLine", "recover"),
       ("check/compiler/parser/parser.go", "BeginAnalyze", "recover"),
       ("check/compiler/parser/parser.go", "BeginAnalyzeExp", "recover")] := by decide
#print axioms recover_sites

theorem no_dynamic_patterns : Gen.mustCompileSites.all (fun s => s.2.2 != "dynamic") = true := by decide
#print axioms no_dynamic_patterns

/-! ### (b) the annotation-line lexer terminates on every input -/

abbrev Bytes := LuaHelper.Lex.Bytes

theorem dropWhile_len (p : UInt8 → Bool) (l : Bytes) : (l.dropWhile p).length ≤ l.length := by
  induction l with
  | nil => simp
  | cons a r ih => simp only [List.dropWhile]; split <;> simp <;> omega

theorem scanStr_len (d : UInt8) (r : Bytes) : (scanStr d r).2.length ≤ r.length := by
  unfold scanStr
  simp only
  have h := dropWhile_len (· != d) r
  split
  · rename_i x rest heq
    rw [heq] at h
    simp at h ⊢; omega
  · simp

/-- every token that lets the lexer go on consumes at least one byte -/
theorem lexStep_len (c : Bytes) (t : Tok) (r : Bytes) (h : lexStep c = some (t, r, true)) : r.length < c.length := by
  unfold lexStep at h
  split at h
  · simp at h
  all_goals first
    | (simp only [Option.some.injEq, Prod.mk.injEq] at h
       obtain ⟨_, h2, _⟩ := h
       subst h2
       simp)
    | skip
  · omega
  · rename_i r0 _ _
    have := scanStr_len 39 r0; omega
  · rename_i r0 _ _
    have := scanStr_len 34 r0; omega
  · rename_i ch r0 _ _ _ _ _ _ _ _ _ _ _ _ _ _
    split at h
    · simp only [Option.some.injEq, Prod.mk.injEq] at h
      obtain ⟨_, h2, _⟩ := h; subst h2
      have := dropWhile_len isIdCont r0; simp; omega
    · simp at h

/-- with more fuel than bytes, extra fuel changes nothing: no input makes the lexer loop -/
theorem lexLine_fuel : ∀ (f : Nat) (chunk : Bytes), chunk.length < f → ∀ k, lexLine (f + k) chunk = lexLine f chunk := by
  intro f
  induction f with
  | zero => intro chunk h; omega
  | succ f ih =>
    intro chunk h k
    have hk : f + 1 + k = (f + k) + 1 := by omega
    rw [hk]
    have hc := dropWhile_len isWs chunk
    unfold lexLine
    cases hs : lexStep (chunk.dropWhile isWs) with
    | none => rfl
    | some v =>
      obtain ⟨t, r, go⟩ := v
      cases go with
      | false => rfl
      | true =>
        have hl := lexStep_len _ t r hs
        simp only
        rw [ih r (by omega) k]
#print axioms lexLine_fuel

/-- the fuel `parseLine` passes (length + 1) is therefore enough for every line -/
theorem lexLine_enough (line : Bytes) (k : Nat) : lexLine (line.length + 1 + k) line = lexLine (line.length + 1) line :=
  lexLine_fuel (line.length + 1) line (by omega) k
#print axioms lexLine_enough

/-! ### the variable index of a declaration list (repair 70cff17) -/

/-- `common.MakeVarIndex` as it stands in /repo (translated on every run): for EVERY position the index it yields
    is between 1 and 255 — it never wraps to 0, the value with which `ReturnVarVec[index-1]` was indexed out of range
    for the 256th name of a list — and it is the position itself wherever a uint8 can hold it -/
theorem makeVarIndex_range (i : Int) :
    1 ≤ Gen.makeVarIndex i ∧ Gen.makeVarIndex i ≤ 255 ∧ (1 ≤ i → i ≤ 255 → Gen.makeVarIndex i = i) := by
  unfold Gen.makeVarIndex
  by_cases h1 : i < 1
  · simp [h1]; omega
  · by_cases h2 : i > 255
    · simp [h1, h2]; omega
    · simp [h1, h2]; omega
#print axioms makeVarIndex_range

/-- what the conversion it replaced did at position 256 (uint8 arithmetic): the index 0 -/
theorem old_varIndex_wraps : ((256 : Nat) % 256 = 0) ∧ (BitVec.ofNat 8 256 = 0#8) := by decide
#print axioms old_varIndex_wraps

/-! ### the retry loop of go-to-definition terminates (repair 90a73b5) -/

/-- the state of FindVarDefineInfo's retry loop that matters for termination: the length of the name chain and
    whether the owner of a table-constructor key has been put in front (DefineVarStruct.OwnerFlag) -/
structure RS where
  len : Nat
  owner : Bool
deriving DecidableEq, Repr

/-- one unsuccessful round: the owner lookup of getVarCommonFuncParam (it may put `ins` ≤ 2 names in front, only for a
    one-name chain and — since the repair — only once), then the chain is cut by one; `none` = the loop returns -/
def retryStep (ins : Nat) (s : RS) : Option RS :=
  let s1 : RS := if s.len == 1 && !s.owner && ins > 0 then { len := s.len + ins, owner := true } else s
  if s1.len - 1 == 0 then none else some { s1 with len := s1.len - 1 }

/-- the round as it was: the owner lookup ran in every round -/
def retryStepOld (ins : Nat) (s : RS) : Option RS :=
  let s1 : RS := if s.len == 1 && ins > 0 then { s with len := s.len + ins } else s
  if s1.len - 1 == 0 then none else some { s1 with len := s1.len - 1 }

def retryMeasure (s : RS) : Nat := 2 * s.len + (if s.owner then 0 else 5)

/-- every unsuccessful round makes the state strictly smaller, whatever the owner lookup finds -/
theorem retry_decreases (ins : Nat) (hi : ins ≤ 2) (s s' : RS) (h : retryStep ins s = some s') :
    retryMeasure s' < retryMeasure s := by
  unfold retryStep at h
  by_cases hc : (s.len == 1 && !s.owner && ins > 0) = true
  · simp only [hc, if_true] at h
    simp only [Bool.and_eq_true, beq_iff_eq, Bool.not_eq_true', decide_eq_true_eq] at hc
    obtain ⟨⟨h1, h2⟩, h3⟩ := hc
    split at h
    · cases h
    · cases h
      unfold retryMeasure
      simp [h1, h2]
      omega
  · have hc' : (s.len == 1 && !s.owner && ins > 0) = false := by simpa using hc
    simp only [hc', Bool.false_eq_true, if_false] at h
    split at h
    · cases h
    · rename_i hne
      cases h
      unfold retryMeasure
      simp at hne ⊢
      omega

/-- rounds with the owner lookups `inss` (one per round) -/
def retryRun : List Nat → RS → Option RS
  | [], s => some s
  | i :: r, s => match retryStep i s with
    | none => none
    | some s' => retryRun r s'

/-- the loop returns after at most `retryMeasure s` rounds, whatever the owner lookups find -/
theorem retry_terminates (inss : List Nat) (hi : ∀ i ∈ inss, i ≤ 2) (s : RS) (hl : retryMeasure s < inss.length) :
    retryRun inss s = none := by
  induction inss generalizing s with
  | nil => simp at hl
  | cons i r ih =>
    unfold retryRun
    cases h : retryStep i s with
    | none => rfl
    | some s' =>
      simp only
      have hd := retry_decreases i (hi i (by simp)) s s' h
      apply ih (fun j hj => hi j (by simp [hj])) s'
      simp at hl
      omega

/-- as it was: on a one-name chain whose owner is found the round gives the same state back — `t = {t=1}` with another
    definition of t never returned -/
theorem retry_looped_before : retryStepOld 1 ⟨1, false⟩ = some ⟨1, false⟩ := by decide
theorem retry_fixed_now : retryRun [1, 1, 1] ⟨1, false⟩ = none := by decide
#print axioms retry_decreases
#print axioms retry_terminates
#print axioms retry_looped_before
#print axioms retry_fixed_now

/-- the guard and the mark of the owner lookup, and the cut of the retry loop, as they stand in /repo now (regenerated on
    every retryRun): `retryStep` is written after them -/
theorem owner_lookup_shape :
    Gen.ownerLookup =
      ["subLen:len(varStruct.StrVec)-1", "cut:varStruct.StrVec[0:subLen]",
       "guard:len(varStruct.StrVec)==1&&!varStruct.BracketsFlag&&!varStruct.OwnerFlag", "sets:varStruct.OwnerFlag=true"] := by
  decide
#print axioms owner_lookup_shape

end LuaHelper.C01
