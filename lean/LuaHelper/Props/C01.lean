/-
C01 — "The server never crashes or hangs, whatever the workspace or the client sends".

A theorem cannot exhibit a Go panic or a runaway goroutine; what it can carry is
 (a) facts about the code regenerated on every run (Gen.Sites, go/ast extraction):
     * `recover_sites`: the panics the lexer / parser / annotation parser raise on malformed text are
       recovered exactly where the design says (BeginAnalyze, BeginAnalyzeExp, ParserLine) — removing
       one of them turns every syntax error into a process crash;
     * `no_dynamic_patterns`: no regexp.MustCompile call takes a pattern that is not a literal or
       literals + regexp.QuoteMeta(…) — a configuration string can no longer panic a handler
       (six such sites existed before the repair a72bfd6);
 (b) termination of the modelled algorithms, for ALL inputs:
     * `lexLine_fuel`: the annotation-line lexer consumes at least one byte per token, so its result
       does not depend on fuel beyond the length of the line (no input makes it loop);
     * the class closure (C15 `closure`, total by construction — its termination proof is part of its
       definition) and the text model (C02) are total functions.
Everything else — that no request on any workspace panics or hangs — is searched, not proved: the
harness runs the real server in child processes on malformed text, annotation soup, cyclic
annotations, random configuration files, partial edits, deep nesting and file events, sweeping
positions with every request type, and reports the scenario that kills or stalls it.
-/
import LuaHelper.Model.Annot
import LuaHelper.Gen.Sites
import LuaHelper.Gen.Preds
namespace LuaHelper.C01
open LuaHelper.Annot

/-! ### (a) regenerated facts -/

theorem recover_sites :
    Gen.recoverSites =
      [("check/annotation/annotateparser/annotate_parser.go", "ParserLine", "recover"),
       ("check/compiler/parser/parser.go", "BeginAnalyze", "recover"),
       ("check/compiler/parser/parser.go", "BeginAnalyzeExp", "recover")] := by decide
#print axioms recover_sites

theorem no_dynamic_patterns : Gen.mustCompileSites.all (fun s => s.2.2 != "dynamic") = true := by decide
#print axioms no_dynamic_patterns

/-! ### (b) the annotation-line lexer terminates on every input -/

abbrev Bytes := LuaHelper.Lex.Bytes

theorem dropWhile_len (p : UInt8 → Bool) (l : Bytes) : (l.dropWhile p).length ≤ l.length := by
  induction l with
  | nil => simp
  | cons a r ih => simp only [List.dropWhile]; split <;> simp <;> omega

theorem scanStr_len (d : UInt8) (r : Bytes) : (scanStr d r).2.length ≤ r.length := by
  unfold scanStr
  simp only
  have h := dropWhile_len (· != d) r
  split
  · rename_i x rest heq
    rw [heq] at h
    simp at h ⊢; omega
  · simp

/-- every token that lets the lexer go on consumes at least one byte -/
theorem lexStep_len (c : Bytes) (t : Tok) (r : Bytes) (h : lexStep c = some (t, r, true)) : r.length < c.length := by
  unfold lexStep at h
  split at h
  · simp at h
  all_goals first
    | (simp only [Option.some.injEq, Prod.mk.injEq] at h
       obtain ⟨_, h2, _⟩ := h
       subst h2
       simp)
    | skip
  · omega
  · rename_i r0 _ _
    have := scanStr_len 39 r0; omega
  · rename_i r0 _ _
    have := scanStr_len 34 r0; omega
  · rename_i ch r0 _ _ _ _ _ _ _ _ _ _ _ _ _ _
    split at h
    · simp only [Option.some.injEq, Prod.mk.injEq] at h
      obtain ⟨_, h2, _⟩ := h; subst h2
      have := dropWhile_len isIdCont r0; simp; omega
    · simp at h

/-- with more fuel than bytes, extra fuel changes nothing: no input makes the lexer loop -/
theorem lexLine_fuel : ∀ (f : Nat) (chunk : Bytes), chunk.length < f → ∀ k, lexLine (f + k) chunk = lexLine f chunk := by
  intro f
  induction f with
  | zero => intro chunk h; omega
  | succ f ih =>
    intro chunk h k
    have hk : f + 1 + k = (f + k) + 1 := by omega
    rw [hk]
    have hc := dropWhile_len isWs chunk
    unfold lexLine
    cases hs : lexStep (chunk.dropWhile isWs) with
    | none => rfl
    | some v =>
      obtain ⟨t, r, go⟩ := v
      cases go with
      | false => rfl
      | true =>
        have hl := lexStep_len _ t r hs
        simp only
        rw [ih r (by omega) k]
#print axioms lexLine_fuel

/-- the fuel `parseLine` passes (length + 1) is therefore enough for every line -/
theorem lexLine_enough (line : Bytes) (k : Nat) : lexLine (line.length + 1 + k) line = lexLine (line.length + 1) line :=
  lexLine_fuel (line.length + 1) line (by omega) k
#print axioms lexLine_enough

/-! ### the variable index of a declaration list (repair 70cff17) -/

/-- `common.MakeVarIndex` as it stands in /repo (translated on every run): for EVERY position the index it yields
    is between 1 and 255 — it never wraps to 0, the value with which `ReturnVarVec[index-1]` was indexed out of range
    for the 256th name of a list — and it is the position itself wherever a uint8 can hold it -/
theorem makeVarIndex_range (i : Int) :
    1 ≤ Gen.makeVarIndex i ∧ Gen.makeVarIndex i ≤ 255 ∧ (1 ≤ i → i ≤ 255 → Gen.makeVarIndex i = i) := by
  unfold Gen.makeVarIndex
  by_cases h1 : i < 1
  · simp [h1]; omega
  · by_cases h2 : i > 255
    · simp [h1, h2]; omega
    · simp [h1, h2]; omega
#print axioms makeVarIndex_range

/-- what the conversion it replaced did at position 256 (uint8 arithmetic): the index 0 -/
theorem old_varIndex_wraps : ((256 : Nat) % 256 = 0) ∧ (BitVec.ofNat 8 256 = 0#8) := by decide
#print axioms old_varIndex_wraps

end LuaHelper.C01
