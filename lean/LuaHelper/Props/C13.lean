/-
C13 — "Hover shows the right symbol and its documentation comment verbatim".

The documentation string goes through `getFinalStrComment` and then `ConvertStrToUtf8`, which returns
its argument unchanged iff `isUtf8` accepts it and otherwise re-decodes it as GBK.
 * `isUtf8_accepts` : every text made of ASCII, 3-byte (CJK …) and 4-byte (astral) well-formed UTF-8
   sequences is accepted, hence reproduced unaltered — for all lengths;
 * `isUtf8_rejects_two_byte` : ANY text in which a 2-byte sequence (Latin-1 supplement, Greek, Cyrillic,
   Hebrew, Arabic …) follows accepted characters is rejected (`preNUm(..) > 2`), i.e. handed to the GBK
   decoder: finding C13-K1, with the concrete witness "é";
 * `cleanLine_plain` : a comment line that does not start with '-', '*' or a space is left as it is.
 * comment-to-declaration attachment (`skipWhiteSpaces` + `GetLineComment`, Model/Comment.lean), for every gap
   of short comments none of which shares the line of the token before it:
   `block_is_run` (each stored block is a run of consecutive lines, keyed by its last line, marked head),
   `blocks_partition` (the blocks, concatenated, are exactly the comments of the gap, in order),
   `blocks_maximal` (no block starts on the line after the previous block's key),
   `blank_line_separates` (every line between two lines of one block is itself a comment line: a comment
   separated from a declaration's block by a blank line is never part of its documentation),
   `trailing_alone` (a trailing comment is stored alone under its own line, marked not-head) and
   `trailing_not_head_doc` (such an entry is never returned as the head documentation of the next line).
Label rendering is validated by correspondence only.
-/
import LuaHelper.Model.Hov
import LuaHelper.Proofs.Comment
namespace LuaHelper.C13
open LuaHelper.Lex LuaHelper.Hov

/-- characters `isUtf8` is meant to accept -/
inductive UCh where
  | ascii (b : UInt8)
  | three (a b c : UInt8)
  | four (a b c d : UInt8)

def UCh.bytes : UCh → Bytes
  | .ascii b => [b] | .three a b c => [a, b, c] | .four a b c d => [a, b, c, d]

def isCont (b : UInt8) : Prop := b &&& 0xC0 = 0x80

def UCh.wf : UCh → Prop
  | .ascii b => b &&& 0x80 = 0
  | .three a b c => 0xE0 ≤ a ∧ a < 0xF0 ∧ isCont b ∧ isCont c
  | .four a b c d => 0xF0 ≤ a ∧ a < 0xF8 ∧ isCont b ∧ isCont c ∧ isCont d

def enc (cs : List UCh) : Bytes := cs.flatMap UCh.bytes

theorem lead_not_ascii (a : UInt8) (h : 0xE0 ≤ a) : ¬ (a &&& 0x80 = 0) := by
  have : ∀ n : Fin 256, 0xE0 ≤ UInt8.ofNat n.val → ¬ (UInt8.ofNat n.val &&& 0x80 = 0) := by decide +kernel
  have := this ⟨a.toNat, a.toNat_lt⟩
  simp only [UInt8.ofNat_toNat] at this
  exact this h

theorem preNum_three (a : UInt8) (h1 : 0xE0 ≤ a) (h2 : a < 0xF0) : preNum a = 3 := by
  have : ∀ n : Fin 256, 0xE0 ≤ UInt8.ofNat n.val → UInt8.ofNat n.val < 0xF0 → preNum (UInt8.ofNat n.val) = 3 := by
    decide +kernel
  have := this ⟨a.toNat, a.toNat_lt⟩
  simp only [UInt8.ofNat_toNat] at this
  exact this h1 h2

theorem preNum_four (a : UInt8) (h1 : 0xF0 ≤ a) (h2 : a < 0xF8) : preNum a = 4 := by
  have : ∀ n : Fin 256, 0xF0 ≤ UInt8.ofNat n.val → UInt8.ofNat n.val < 0xF8 → preNum (UInt8.ofNat n.val) = 4 := by
    decide +kernel
  have := this ⟨a.toNat, a.toNat_lt⟩
  simp only [UInt8.ofNat_toNat] at this
  exact this h1 h2

#print axioms lead_not_ascii
#print axioms preNum_three
#print axioms preNum_four

/-- UTF-8 text without 2-byte sequences is accepted (so `ConvertStrToUtf8` is the identity on it) -/
theorem isUtf8_accepts (cs : List UCh) (hwf : ∀ c ∈ cs, c.wf) : isUtf8 (enc cs) = true := by
  induction cs with
  | nil => simp [enc, isUtf8, utf8Go]
  | cons c r ih =>
    have ih := ih (fun x hx => hwf x (by simp [hx]))
    have hc := hwf c (by simp)
    unfold isUtf8 at ih ⊢
    have henc : enc (c :: r) = c.bytes ++ enc r := by simp [enc]
    rw [henc]
    cases c with
    | ascii b =>
      simp only [UCh.wf] at hc
      simp only [UCh.bytes, List.cons_append, List.nil_append]
      simp [utf8Go, hc, ih]
    | three a b d =>
      obtain ⟨h1, h2, hb, hd⟩ := hc
      simp only [UCh.bytes, List.cons_append, List.nil_append]
      have hna := lead_not_ascii a h1
      unfold isCont at hb hd
      simp [utf8Go, hna, preNum_three a h1 h2, hb, hd, ih]
    | four a b d e =>
      obtain ⟨h1, h2, hb, hd, he⟩ := hc
      simp only [UCh.bytes, List.cons_append, List.nil_append]
      have hna := lead_not_ascii a (by
        simp only [UInt8.le_iff_toNat_le] at *; simp at *; omega)
      unfold isCont at hb hd he
      simp [utf8Go, hna, preNum_four a h1 h2, hb, hd, he, ih]
#print axioms isUtf8_accepts

/-- hover text in such scripts is reproduced unaltered, whatever the GBK decoder would do -/
theorem convert_identity (gbk : Bytes → Bytes) (cs : List UCh) (hwf : ∀ c ∈ cs, c.wf) :
    convert gbk (enc cs) = enc cs := by
  unfold convert
  by_cases h : (enc cs).isEmpty = true
  · simp [h]
  · simp [h, isUtf8_accepts cs hwf]
#print axioms convert_identity

theorem preNum_two (a : UInt8) (h1 : 0xC0 ≤ a) (h2 : a < 0xE0) : preNum a = 2 ∧ ¬ (a &&& 0x80 = 0) := by
  have : ∀ n : Fin 256, 0xC0 ≤ UInt8.ofNat n.val → UInt8.ofNat n.val < 0xE0 →
      preNum (UInt8.ofNat n.val) = 2 ∧ ¬ (UInt8.ofNat n.val &&& 0x80 = 0) := by decide +kernel
  have := this ⟨a.toNat, a.toNat_lt⟩
  simp only [UInt8.ofNat_toNat] at this
  exact this h1 h2

#print axioms preNum_two

/-- C13-K1 for ALL texts: accepted characters followed by any 2-byte lead byte are rejected -/
theorem isUtf8_rejects_two_byte (cs : List UCh) (hwf : ∀ c ∈ cs, c.wf) (a : UInt8) (rest : Bytes)
    (h1 : 0xC0 ≤ a) (h2 : a < 0xE0) : isUtf8 (enc cs ++ a :: rest) = false := by
  induction cs with
  | nil =>
    obtain ⟨hp, hna⟩ := preNum_two a h1 h2
    simp only [enc, List.flatMap_nil, List.nil_append]
    simp [isUtf8, utf8Go, hna, hp]
  | cons c r ih =>
    have ih := ih (fun x hx => hwf x (by simp [hx]))
    have hc := hwf c (by simp)
    unfold isUtf8 at ih ⊢
    have henc : enc (c :: r) ++ a :: rest = c.bytes ++ (enc r ++ a :: rest) := by simp [enc]
    rw [henc]
    cases c with
    | ascii b =>
      simp only [UCh.wf] at hc
      simp only [UCh.bytes, List.cons_append, List.nil_append]
      simp [utf8Go, hc, ih]
    | three x b d =>
      obtain ⟨g1, g2, hb, hd⟩ := hc
      simp only [UCh.bytes, List.cons_append, List.nil_append]
      have hna := lead_not_ascii x g1
      unfold isCont at hb hd
      simp [utf8Go, hna, preNum_three x g1 g2, hb, hd, ih]
    | four x b d e =>
      obtain ⟨g1, g2, hb, hd, he⟩ := hc
      simp only [UCh.bytes, List.cons_append, List.nil_append]
      have hna := lead_not_ascii x (by
        simp only [UInt8.le_iff_toNat_le] at *; simp at *; omega)
      unfold isCont at hb hd he
      simp [utf8Go, hna, preNum_four x g1 g2, hb, hd, he, ih]
#print axioms isUtf8_rejects_two_byte

/-- "é" (C3 A9) is not accepted -/
theorem K1_witness : isUtf8 [0xC3, 0xA9] = false := by decide +kernel
#print axioms K1_witness

/-- a line that does not start with '-', '*' or a space is reproduced as it is -/
theorem cleanLine_plain (s : Bytes) (h : ∀ c, s.head? = some c → c ≠ 45 ∧ c ≠ 42 ∧ c ≠ 32) : cleanLine s = s := by
  cases s with
  | nil => rfl
  | cons c r =>
    obtain ⟨h1, h2, h3⟩ := h c rfl
    have e1 : dropPrefix [45, 42] (c :: r) = c :: r := by
      unfold dropPrefix; simp [List.isPrefixOf, Ne.symm h1]
    have e2 : dropPrefix [42] (c :: r) = c :: r := by
      unfold dropPrefix; simp [List.isPrefixOf, Ne.symm h2]
    have e3 : dropPrefix [45] (c :: r) = c :: r := by
      unfold dropPrefix; simp [List.isPrefixOf, Ne.symm h1]
    unfold cleanLine
    simp only [e1, e2, e3]
    have : (c == 32) = false := by simpa using h3
    simp [List.dropWhile, this]
#print axioms cleanLine_plain

/-! ### which comment belongs to which declaration -/
open LuaHelper.Comment in
/-- a gap that starts with a head comment is scanned with that comment as the current block -/
theorem gap_cons_head (prevEnd : Nat) (c : CLine) (cs : List CLine) (hh : c.line ≠ prevEnd) :
    gap prevEnd (c :: cs) = go prevEnd (some (fresh prevEnd c)) c.endLine cs := by
  have hne : (prevEnd == c.line) = false := by
    simp only [beq_eq_false_iff_ne]; exact fun h => hh h.symm
  simp [gap, go, fresh, hne]
#print axioms gap_cons_head

open LuaHelper.Comment in
/-- every stored block is a run of consecutive lines, keyed by its last line, and marked as a head comment -/
theorem block_is_run (prevEnd : Nat) (cs : List CLine) (hs : ∀ c ∈ cs, c.short = true)
    (hh : ∀ c ∈ cs, c.line ≠ prevEnd) : ∀ e ∈ gap prevEnd cs, Block e := by
  cases cs with
  | nil => intro e he; simp [gap, go] at he
  | cons c cs =>
    rw [gap_cons_head prevEnd c cs (hh c (by simp))]
    exact go_blocks prevEnd cs _ _ (cur_fresh prevEnd c (hs c (by simp)) (hh c (by simp)))
      (fun c' hc' => hs c' (by simp [hc'])) (fun c' hc' => hh c' (by simp [hc']))
#print axioms block_is_run

open LuaHelper.Comment in
/-- the blocks, concatenated, are exactly the comments of the gap in order: nothing is lost or repeated -/
theorem blocks_partition (prevEnd : Nat) (cs : List CLine) (hs : ∀ c ∈ cs, c.short = true)
    (hh : ∀ c ∈ cs, c.line ≠ prevEnd) :
    (gap prevEnd cs).flatMap (fun e => e.2.lines) = cs.map (fun c => (c.endLine, c.text)) := by
  cases cs with
  | nil => simp [gap, go]
  | cons c cs =>
    rw [gap_cons_head prevEnd c cs (hh c (by simp)),
      go_concat prevEnd cs _ _ (fun c' hc' => hs c' (by simp [hc']))]
    simp [fresh, hs c (by simp)]
#print axioms blocks_partition

open LuaHelper.Comment in
/-- no block starts on the line directly after the key of the block stored before it -/
theorem blocks_maximal (prevEnd : Nat) (cs : List CLine) (hs : ∀ c ∈ cs, c.short = true)
    (hh : ∀ c ∈ cs, c.line ≠ prevEnd) : Maximal (gap prevEnd cs) := by
  cases cs with
  | nil => simp [gap, go, Maximal]
  | cons c cs =>
    rw [gap_cons_head prevEnd c cs (hh c (by simp))]
    exact go_maximal prevEnd cs _ _ (by simp [fresh, hs c (by simp)]) (fun c' hc' => hs c' (by simp [hc']))
#print axioms blocks_maximal

open LuaHelper.Comment in
/-- every line between two lines of one block is a line of that block, hence a comment line of the gap -/
theorem blank_line_separates (prevEnd : Nat) (cs : List CLine) (hs : ∀ c ∈ cs, c.short = true)
    (hh : ∀ c ∈ cs, c.line ≠ prevEnd) (e : Nat × CInfo) (he : e ∈ gap prevEnd cs)
    (a b x : Nat) (ha : a ∈ lineNos e.2) (hb : b ∈ lineNos e.2) (h1 : a ≤ x) (h2 : x ≤ b) :
    x ∈ lineNos e.2 ∧ ∃ c ∈ cs, c.endLine = x := by
  have hx := consec_between _ (block_is_run prevEnd cs hs hh e he).consec a b x ha hb h1 h2
  refine ⟨hx, ?_⟩
  have hp := blocks_partition prevEnd cs hs hh
  simp only [lineNos, List.mem_map] at hx
  obtain ⟨⟨l, t⟩, hlt, hl⟩ := hx
  have : (l, t) ∈ (gap prevEnd cs).flatMap (fun e => e.2.lines) := List.mem_flatMap.mpr ⟨e, he, hlt⟩
  rw [hp, List.mem_map] at this
  obtain ⟨c, hc, hce⟩ := this
  refine ⟨c, hc, ?_⟩
  have : c.endLine = l := by simpa using congrArg Prod.fst hce
  simpa [this] using hl
#print axioms blank_line_separates

open LuaHelper.Comment in
/-- a trailing comment (on the line of the token before the gap) is stored alone, under its own line, not-head -/
theorem trailing_alone (prevEnd : Nat) (c : CLine) (cs : List CLine) (ht : c.line = prevEnd) :
    gap prevEnd (c :: cs) = (c.endLine, { fresh prevEnd c with head := false }) :: go prevEnd none c.endLine cs := by
  simp [gap, go, fresh, ht]
#print axioms trailing_alone

open LuaHelper.Comment in
/-- an entry that is not a head comment is never the head documentation of the following line -/
theorem trailing_not_head_doc (m : CMap) (line : Nat) (ci : CInfo) (hf : find m line = some ci)
    (hh : ci.head = false) : special m line true = [] := by
  simp [special, hf, hh]
#print axioms trailing_not_head_doc

open LuaHelper.Comment in
/-- the hypotheses are satisfiable and the model computes the expected blocks on a concrete gap -/
theorem comment_example :
    gap 3 [⟨5, 5, true, [97]⟩, ⟨7, 7, true, [98]⟩, ⟨8, 8, true, [99]⟩] =
      [(5, ⟨true, true, [(5, [97])]⟩), (8, ⟨true, true, [(7, [98]), (8, [99])]⟩)] := by decide
#print axioms comment_example

end LuaHelper.C13
