/-
C06 — "Find-references returns exactly the occurrences of the same variable".

Find-references = { o' | traversal-binding(o') = position-based-definition(query) }.  The
position-based half is C05's subject (Props/C05).  Here: LuaHelper's traversal-time binder
(`Bind.bindTraversal`, the insertion order of passes 1–4) IS Lua's binder (`Bind.bindChunk`, S-bind) —
for all programs, all nesting depths, by mutual structural recursion over the AST.  Before the repair
of cgLocalVarDeclStat this held only for programs without a multi-initialiser `local`
(`interleaved_local_differs` states the former finding C06-K2).
-/
import LuaHelper.Spec.Bind
import LuaHelper.Gen.Shapes
namespace LuaHelper.C06
open LuaHelper.Lex LuaHelper.Ast LuaHelper.Bind

/-- assignment targets depend on the variant only through their sub-expressions -/
theorem targets_congr (env : Env) (exps : List Exp) : (i : Nat) → (vs : List Exp) →
    (∀ v ∈ vs, bExp true env v = bExp false env v) →
    bTargets true env exps i vs = bTargets false env exps i vs
  | _, [], _ => by simp [bTargets]
  | i, v :: r, h => by
    have hr := targets_congr env exps (i + 1) r (fun x hx => h x (by simp [hx]))
    have hv := h v (by simp)
    cases v <;> simp_all [bTargets]

mutual
theorem tExp : (e : Exp) → (env : Env) → bExp true env e = bExp false env e
  | .noKey, env => by simp [bExp]
  | .nil _, env => by simp [bExp]
  | .tru _, env => by simp [bExp]
  | .fls _, env => by simp [bExp]
  | .vararg _, env => by simp [bExp]
  | .int _ _, env => by simp [bExp]
  | .flt _ _, env => by simp [bExp]
  | .str _ _, env => by simp [bExp]
  | .name _ _, env => by simp [bExp]
  | .bad _, env => by simp [bExp]
  | .unop _ e _, env => by simp [bExp, tExp e env]
  | .binop _ a b _, env => by simp [bExp, tExp a env, tExp b env]
  | .table ks vs _, env => by simp [bExp, tExps ks env, tExps vs env]
  | .func f, env => by simp [bExp, tFunc f env]
  | .parens e _, env => by simp [bExp, tExp e env]
  | .index p k _, env => by simp [bExp, tExp p env, tExp k env]
  | .call p _ args _, env => by simp [bExp, tExp p env, tExps args env]
termination_by x => sizeOf x
theorem tExps : (es : List Exp) → (env : Env) → bExps true env es = bExps false env es
  | [], env => by simp [bExps]
  | e :: r, env => by simp [bExps, tExp e env, tExps r env]
termination_by x => sizeOf x
theorem tFunc : (f : FuncBody) → (env : Env) → bFunc true env f = bFunc false env f
  | .mk _ _ ps _ _ body _, env => by simp [bFunc, tBlock body (pushParams env ps)]
termination_by x => sizeOf x
theorem tBlock : (b : Block) → (env : Env) → bBlock true env b = bBlock false env b
  | .mk stats none _, env => by
    simp only [bBlock, tStats stats env]
  | .mk stats (some es) _, env => by
    have h1 := tStats stats env
    have h2 := tExps es (bStats false env stats).2
    simp only [bBlock, h1, h2]
termination_by x => sizeOf x
theorem tStats : (ss : List Stat) → (env : Env) → bStats true env ss = bStats false env ss
  | [], env => by simp [bStats]
  | s :: r, env => by
    simp only [bStats, tStat s env]
    rw [tStats r _]
termination_by x => sizeOf x
theorem tBlocks : (bs : List Block) → (env : Env) → bBlocks true env bs = bBlocks false env bs
  | [], env => by simp [bBlocks]
  | b :: r, env => by simp [bBlocks, tBlock b env, tBlocks r env]
termination_by x => sizeOf x
theorem tAll : (vs : List Exp) → (env : Env) → ∀ v ∈ vs, bExp true env v = bExp false env v
  | [], env => by intro v hv; cases hv
  | e :: r, env => by
    intro v hv
    cases hv with
    | head => exact tExp e env
    | tail _ hv' => exact tAll r env v hv'
termination_by x => sizeOf x
theorem tStat : (s : Stat) → (env : Env) → bStat true env s = bStat false env s
  | .brk, env => by simp [bStat]
  | .label _ _, env => by simp [bStat]
  | .goto_ _ _, env => by simp [bStat]
  | .do_ b _, env => by simp [bStat, tBlock b env]
  | .while_ c b _, env => by simp [bStat, tExp c env, tBlock b env]
  | .repeat_ b c _, env => by
    simp only [bStat, tBlock b env, tExp c _]
  | .if_ cs bs _ _, env => by simp [bStat, tExps cs env, tBlocks bs env]
  | .fornum v vl i lim st b _, env => by
    simp [bStat, tExp i env, tExp lim env, tExp st env, tBlock b _]
  | .forin ns es b _, env => by simp [bStat, tExps es env, tBlock b _]
  | .assign vars exps _, env => by
    simp [bStat, tExps exps env, targets_congr env exps 0 vars (tAll vars env)]
  | .local_ names exps sl, env => by
    simp only [bStat, tExps exps env]
  | .localfn n nl f _, env => by simp [bStat, tFunc f _]
  | .callstat e, env => by simp [bStat, tExp e env]
termination_by x => sizeOf x
end

#print axioms targets_congr
#print axioms tExp
#print axioms tExps
#print axioms tFunc
#print axioms tBlock
#print axioms tStats
#print axioms tBlocks
#print axioms tAll
#print axioms tStat

/-- the order in `cgLocalVarDeclStat` as it stands in /repo now (regenerated on every run): one statement
    analyses the initialisers (cgExp), the following ones declare the names (AddLocVar) — no statement does both -/
theorem local_decl_order :
    Gen.localDeclCalls = ["cgExp", "AddLocVar", "AddLocVar,AddLocVar"] := by decide
#print axioms local_decl_order

/-- **The traversal binder is Lua's binder** on every chunk (any nesting, any shadowing, any number of
    initialisers). -/
theorem traversal_eq_spec (b : Block) : bindTraversal b = bindChunk b := by
  unfold bindTraversal bindChunk
  rw [tBlock b []]
#print axioms traversal_eq_spec

/-- what the repaired defect was (former finding C06-K2): `local a = 1; local a, b = 2, a` — Lua binds
    the last `a` to the FIRST declaration; the interleaved traversal bound it to the second. -/
theorem interleaved_local_differs :
    let l1 : Loc := ⟨1, 6, 1, 7⟩
    let l2 : Loc := ⟨2, 6, 2, 7⟩
    let names : List (Bytes × Loc × Nat) := [([97], l2, 0), ([98], ⟨2, 9, 2, 10⟩, 0)]
    let exps : List Exp := [.int 2 ⟨2, 13, 2, 14⟩, .name [97] ⟨2, 16, 2, 17⟩]
    let env : Env := [([97], l1)]
    (((bStat false env (.local_ names exps ⟨2, 0, 2, 17⟩)).1.find? (fun o => o.loc == ⟨2, 16, 2, 17⟩)).map (·.decl) = some (some l1)) ∧
    (((bLocalInterleaved ⟨2, 0, 2, 17⟩ env names exps).1.find? (fun o => o.loc == ⟨2, 16, 2, 17⟩)).map (·.decl) = some (some l2)) := by
  decide
#print axioms interleaved_local_differs

end LuaHelper.C06
