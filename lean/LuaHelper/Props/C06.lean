/-
C06 — "Find-references returns exactly the occurrences of the same variable".

Find-references = { o' | traversal-binding(o') = position-based-definition(query) }.  The
position-based half is C05's subject (Props/C05).  Here: LuaHelper's traversal-time binder
(`Bind.bindTraversal`, the insertion order of passes 1–4) IS Lua's binder (`Bind.bindChunk`, S-bind)
on every program in which no `local` statement has more than one initialiser expression — for all
programs, all nesting depths, by mutual structural recursion over the AST.  Outside that class
(`local a, b = e1, e2`) the two differ exactly as finding C06-K2 says (`K2_witness`).
-/
import LuaHelper.Spec.Bind
namespace LuaHelper.C06
open LuaHelper.Lex LuaHelper.Ast LuaHelper.Bind

mutual
/-- no `local` statement with two or more initialiser expressions anywhere inside -/
def okExp : Exp → Bool
  | .unop _ e _ => okExp e
  | .binop _ a b _ => okExp a && okExp b
  | .table ks vs _ => okExps ks && okExps vs
  | .func f => okFunc f
  | .parens e _ => okExp e
  | .index p k _ => okExp p && okExp k
  | .call p _ args _ => okExp p && okExps args
  | _ => true
def okExps : List Exp → Bool
  | [] => true
  | e :: r => okExp e && okExps r
def okFunc : FuncBody → Bool
  | .mk _ _ _ _ _ body _ => okBlock body
def okBlock : Block → Bool
  | .mk stats ret _ => okStats stats && (match ret with | some es => okExps es | none => true)
def okStats : List Stat → Bool
  | [] => true
  | s :: r => okStat s && okStats r
def okBlocks : List Block → Bool
  | [] => true
  | b :: r => okBlock b && okBlocks r
def okStat : Stat → Bool
  | .do_ b _ => okBlock b
  | .while_ c b _ => okExp c && okBlock b
  | .repeat_ b c _ => okBlock b && okExp c
  | .if_ cs bs _ _ => okExps cs && okBlocks bs
  | .fornum _ _ i lim st b _ => okExp i && okExp lim && okExp st && okBlock b
  | .forin _ es b _ => okExps es && okBlock b
  | .assign vars exps _ => okExps vars && okExps exps
  | .local_ _ exps _ => decide (exps.length ≤ 1) && okExps exps
  | .localfn _ _ f _ => okFunc f
  | .callstat e => okExp e
  | _ => true
end

/-- with at most one initialiser the traversal order of a `local` statement is Lua's -/
theorem localTr_single (sl : Loc) (env : Env) (names : List (Bytes × Loc × Nat)) (exps : List Exp)
    (hlen : exps.length ≤ 1) (hrec : bExps true env exps = bExps false env exps) :
    bLocalTr true sl env names exps =
      (bExps false env exps ++ localDecls sl names exps, pushNames env names) := by
  have hnone : ∀ (ns : List (Bytes × Loc × Nat)),
      localDecls sl ns [] = ns.map (fun (n, l, _) => declOcc n l sl) := by
    intro ns
    induction ns with
    | nil => rfl
    | cons a r ih => obtain ⟨n, l, c⟩ := a; simp [localDecls, ih]
  match exps, names with
  | [], ns => simp [bLocalTr, bExps, hnone]
  | [e], [] =>
    simp only [bExps, List.append_nil] at hrec
    simp [bLocalTr, bExps, pushNames, hrec, localDecls]
  | [e], (n, l, k) :: ns =>
    simp only [bExps, List.append_nil] at hrec
    simp [bLocalTr, bExps, pushNames, hrec, localDecls, hnone]
  | _ :: _ :: _, _ => simp at hlen

/-- assignment targets depend on the variant only through their sub-expressions -/
theorem targets_congr (env : Env) (exps : List Exp) : (i : Nat) → (vs : List Exp) →
    (∀ v ∈ vs, bExp true env v = bExp false env v) →
    bTargets true env exps i vs = bTargets false env exps i vs
  | _, [], _ => by simp [bTargets]
  | i, v :: r, h => by
    have hr := targets_congr env exps (i + 1) r (fun x hx => h x (by simp [hx]))
    have hv := h v (by simp)
    cases v <;> simp_all [bTargets]

mutual
theorem tExp : (e : Exp) → (env : Env) → okExp e = true → bExp true env e = bExp false env e
  | .noKey, env, _ => by simp [bExp]
  | .nil _, env, _ => by simp [bExp]
  | .tru _, env, _ => by simp [bExp]
  | .fls _, env, _ => by simp [bExp]
  | .vararg _, env, _ => by simp [bExp]
  | .int _ _, env, _ => by simp [bExp]
  | .flt _ _, env, _ => by simp [bExp]
  | .str _ _, env, _ => by simp [bExp]
  | .name _ _, env, _ => by simp [bExp]
  | .bad _, env, _ => by simp [bExp]
  | .unop _ e _, env, h => by simp only [okExp] at h; simp [bExp, tExp e env h]
  | .binop _ a b _, env, h => by
    simp only [okExp, Bool.and_eq_true] at h; simp [bExp, tExp a env h.1, tExp b env h.2]
  | .table ks vs _, env, h => by
    simp only [okExp, Bool.and_eq_true] at h; simp [bExp, tExps ks env h.1, tExps vs env h.2]
  | .func f, env, h => by simp only [okExp] at h; simp [bExp, tFunc f env h]
  | .parens e _, env, h => by simp only [okExp] at h; simp [bExp, tExp e env h]
  | .index p k _, env, h => by
    simp only [okExp, Bool.and_eq_true] at h; simp [bExp, tExp p env h.1, tExp k env h.2]
  | .call p _ args _, env, h => by
    simp only [okExp, Bool.and_eq_true] at h; simp [bExp, tExp p env h.1, tExps args env h.2]
termination_by x => sizeOf x
theorem tExps : (es : List Exp) → (env : Env) → okExps es = true → bExps true env es = bExps false env es
  | [], env, _ => by simp [bExps]
  | e :: r, env, h => by
    simp only [okExps, Bool.and_eq_true] at h; simp [bExps, tExp e env h.1, tExps r env h.2]
termination_by x => sizeOf x
theorem tFunc : (f : FuncBody) → (env : Env) → okFunc f = true → bFunc true env f = bFunc false env f
  | .mk _ _ ps _ _ body _, env, h => by
    simp only [okFunc] at h; simp [bFunc, tBlock body (pushParams env ps) h]
termination_by x => sizeOf x
theorem tBlock : (b : Block) → (env : Env) → okBlock b = true → bBlock true env b = bBlock false env b
  | .mk stats none _, env, h => by
    simp only [okBlock, Bool.and_eq_true] at h
    simp only [bBlock, tStats stats env h.1]
  | .mk stats (some es) _, env, h => by
    simp only [okBlock, Bool.and_eq_true] at h
    have h1 := tStats stats env h.1
    have h2 := tExps es (bStats false env stats).2 h.2
    simp only [bBlock, h1, h2]
termination_by x => sizeOf x
theorem tStats : (ss : List Stat) → (env : Env) → okStats ss = true → bStats true env ss = bStats false env ss
  | [], env, _ => by simp [bStats]
  | s :: r, env, h => by
    simp only [okStats, Bool.and_eq_true] at h
    simp only [bStats, tStat s env h.1]
    rw [tStats r _ h.2]
termination_by x => sizeOf x
theorem tBlocks : (bs : List Block) → (env : Env) → okBlocks bs = true → bBlocks true env bs = bBlocks false env bs
  | [], env, _ => by simp [bBlocks]
  | b :: r, env, h => by
    simp only [okBlocks, Bool.and_eq_true] at h; simp [bBlocks, tBlock b env h.1, tBlocks r env h.2]
termination_by x => sizeOf x
theorem tAll : (vs : List Exp) → (env : Env) → okExps vs = true → ∀ v ∈ vs, bExp true env v = bExp false env v
  | [], env, _ => by intro v hv; cases hv
  | e :: r, env, h => by
    simp only [okExps, Bool.and_eq_true] at h
    intro v hv
    cases hv with
    | head => exact tExp e env h.1
    | tail _ hv' => exact tAll r env h.2 v hv'
termination_by x => sizeOf x
theorem tStat : (s : Stat) → (env : Env) → okStat s = true → bStat true env s = bStat false env s
  | .brk, env, _ => by simp [bStat]
  | .label _ _, env, _ => by simp [bStat]
  | .goto_ _ _, env, _ => by simp [bStat]
  | .do_ b _, env, h => by simp only [okStat] at h; simp [bStat, tBlock b env h]
  | .while_ c b _, env, h => by
    simp only [okStat, Bool.and_eq_true] at h; simp [bStat, tExp c env h.1, tBlock b env h.2]
  | .repeat_ b c _, env, h => by
    simp only [okStat, Bool.and_eq_true] at h
    simp only [bStat, tBlock b env h.1, tExp c _ h.2]
  | .if_ cs bs _ _, env, h => by
    simp only [okStat, Bool.and_eq_true] at h; simp [bStat, tExps cs env h.1, tBlocks bs env h.2]
  | .fornum v vl i lim st b _, env, h => by
    simp only [okStat, Bool.and_eq_true] at h
    simp [bStat, tExp i env h.1.1.1, tExp lim env h.1.1.2, tExp st env h.1.2, tBlock b _ h.2]
  | .forin ns es b _, env, h => by
    simp only [okStat, Bool.and_eq_true] at h; simp [bStat, tExps es env h.1, tBlock b _ h.2]
  | .assign vars exps _, env, h => by
    simp only [okStat, Bool.and_eq_true] at h; simp [bStat, tExps exps env h.2, targets_congr env exps 0 vars (tAll vars env h.1)]
  | .local_ names exps sl, env, h => by
    simp only [okStat, Bool.and_eq_true, decide_eq_true_eq] at h
    simp only [bStat, if_true, Bool.false_eq_true, if_false]
    exact localTr_single sl env names exps h.1 (tExps exps env h.2)
  | .localfn n nl f _, env, h => by simp only [okStat] at h; simp [bStat, tFunc f _ h]
  | .callstat e, env, h => by simp only [okStat] at h; simp [bStat, tExp e env h]
termination_by x => sizeOf x
end

#print axioms localTr_single
#print axioms targets_congr
#print axioms tExp
#print axioms tExps
#print axioms tFunc
#print axioms tBlock
#print axioms tStats
#print axioms tBlocks
#print axioms tAll
#print axioms tStat

/-- **The traversal binder is Lua's binder** on every chunk whose `local` statements have at most
    one initialiser (any nesting, any shadowing). -/
theorem traversal_eq_spec (b : Block) (h : okBlock b = true) : bindTraversal b = bindChunk b := by
  unfold bindTraversal bindChunk
  rw [tBlock b [] h]
#print axioms traversal_eq_spec

/-- C06-K2 is real: `local a = 1; local a, b = 2, a` — S-bind binds the last `a` to the FIRST
    declaration, the traversal to the second. -/
theorem K2_witness :
    let l1 : Loc := ⟨1, 6, 1, 7⟩
    let l2 : Loc := ⟨2, 6, 2, 7⟩
    let prog : Block := .mk [
      .local_ [([97], l1, 0)] [.int 1 ⟨1, 10, 1, 11⟩] ⟨1, 0, 1, 11⟩,
      .local_ [([97], l2, 0), ([98], ⟨2, 9, 2, 10⟩, 0)] [.int 2 ⟨2, 13, 2, 14⟩, .name [97] ⟨2, 16, 2, 17⟩] ⟨2, 0, 2, 17⟩]
      none ⟨1, 0, 2, 17⟩
    ((bindChunk prog).find? (fun o => o.loc == ⟨2, 16, 2, 17⟩)).map (·.decl) = some (some l1) ∧
    ((bindTraversal prog).find? (fun o => o.loc == ⟨2, 16, 2, 17⟩)).map (·.decl) = some (some l2) := by
  decide
#print axioms K2_witness

end LuaHelper.C06
