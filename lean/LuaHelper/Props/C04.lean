/-
C04 — "Every reported range lies in the document and covers exactly the thing it names".

A range sent to the client is `LocToRange(Loc)` of a token Loc (identifiers: NameExp / parameter /
local / key Locs are the token's `GetNowTokenLoc`).  Proved here, against definitions TRANSLATED from
the Go source on every run (`Gen.Preds`):
 * `locToRange_spec`  : LocToRange is "line − 1, columns unchanged" — so a range is exact iff the Loc is;
 * `range_of_wellformed_loc` : start ≤ end is preserved;
 * the character classes the lexer model uses are the Go functions (`isDigit`, `isLetter`, …);
 * the model's Loc functions compose as in Go (`GetRangeLoc`, `GetRangeLocExcludeEnd`).
NOT proved (partial): the unbounded statement "for every input the lexer model's identifier Loc is
the true (line, UTF-16 column) of its bytes outside classes K3–K5 (K1 escapes and K2 long brackets were repaired)".  It is checked instead on every
identifier of every generated document by comparing the model (= real lexer, by correspondence) with
S-col (Spec/Col.lean), the classes being decidable predicates of the line prefix.
-/
import LuaHelper.Model.Parser
import LuaHelper.Spec.Col
import LuaHelper.Gen.Preds
namespace LuaHelper.C04
open LuaHelper.Lex

theorem locToRange_spec (l : Gen.GLoc) :
    Gen.locToRange l = { Start := { Line := l.StartLine - 1, Character := l.StartColumn },
                         End := { Line := l.EndLine - 1, Character := l.EndColumn } } := rfl
#print axioms locToRange_spec

/-- a well-formed Loc (start ≤ end, 1-based lines) gives a well-formed 0-based range -/
theorem range_of_wellformed_loc (l : Gen.GLoc) (h1 : 1 ≤ l.StartLine)
    (h : l.StartLine < l.EndLine ∨ (l.StartLine = l.EndLine ∧ l.StartColumn ≤ l.EndColumn)) :
    let r := Gen.locToRange l
    0 ≤ r.Start.Line ∧ (r.Start.Line < r.End.Line ∨ (r.Start.Line = r.End.Line ∧ r.Start.Character ≤ r.End.Character)) := by
  simp only [Gen.locToRange]
  omega
#print axioms range_of_wellformed_loc

def b2i (c : UInt8) : Int := c.toNat

/-- every byte value, by exhaustive kernel evaluation over the 256 cases -/
theorem char_classes_are_go :
    ∀ n : Fin 256,
      let c : UInt8 := UInt8.ofNat n.val
      Lex.isDigit c = Gen.isDigit (b2i c) ∧ Lex.isNewLine c = Gen.isNewLine (b2i c) ∧
      Lex.isWhiteSpace c = Gen.isWhiteSpace (b2i c) ∧ Lex.isLetter c = Gen.isLetter (b2i c) ∧
      Lex.isHexDigit c = Gen.isHexDigit (b2i c) := by
  decide +kernel
#print axioms char_classes_are_go

theorem isDigit_is_go (c : UInt8) : Lex.isDigit c = Gen.isDigit (b2i c) := by
  have h := char_classes_are_go ⟨c.toNat, c.toNat_lt⟩
  simp only [UInt8.ofNat_toNat] at h
  exact h.1
#print axioms isDigit_is_go

theorem isLetter_is_go (c : UInt8) : Lex.isLetter c = Gen.isLetter (b2i c) := by
  have h := char_classes_are_go ⟨c.toNat, c.toNat_lt⟩
  simp only [UInt8.ofNat_toNat] at h
  exact h.2.2.2.1
#print axioms isLetter_is_go

theorem isNewLine_is_go (c : UInt8) : Lex.isNewLine c = Gen.isNewLine (b2i c) := by
  have h := char_classes_are_go ⟨c.toNat, c.toNat_lt⟩
  simp only [UInt8.ofNat_toNat] at h
  exact h.2.1
#print axioms isNewLine_is_go

/-- `GetRangeLoc` / `GetRangeLocExcludeEnd` of the model = the Go functions -/
def toG (l : Loc) : Gen.GLoc := ⟨l.sl, l.sc, l.el, l.ec⟩

theorem rangeLoc_is_go (a b : Loc) : toG (Parse.rangeLoc a b) = Gen.getRangeLoc (toG a) (toG b) := rfl
#print axioms rangeLoc_is_go

theorem rangeLocExcl_is_go (a b : Loc) : toG (Parse.rangeLocExcl a b) = Gen.getRangeLocExcludeEnd (toG a) (toG b) := rfl
#print axioms rangeLocExcl_is_go

/-- after the repair of the string column advance: behind `"a\nb"` (an escape inside a short string) the
    identifier is reported at its true column (former class K1) -/
theorem escape_columns_exact :
    let src : Bytes := bytesOfString "s = \"a\\nb\" x"
    let toks := (lexAll src []).1
    (toks.filter (fun t => t.tok.kind == .ident)).map (fun t => (t.tok.from_ - t.tok.lineStart, (Col.posOfOffset src t.tok.offFrom).2)) =
      [(0, 0), (11, 11)] := by
  decide +kernel
#print axioms escape_columns_exact

/-- after the repair of the long-bracket line start (former class K2): behind a long string or a long comment —
    on one line, or on the line where a multi-line one ends, with non-ASCII text in it — the identifier is
    reported at its true column -/
theorem long_bracket_columns_exact :
    let idCols := fun (src : Bytes) =>
      (((lexAll src []).1.filter (fun t => t.tok.kind == .ident)).map
        (fun t => (t.tok.from_ - t.tok.lineStart, (Col.posOfOffset src t.tok.offFrom).2)))
    idCols (bytesOfString "s = [[ab]] x") = [(0, 0), (11, 11)] ∧
    idCols (bytesOfString "f(--[[int]] a, --[==[s]==] b)") = [(0, 0), (12, 12), (27, 27)] ∧
    idCols ([115, 32, 61, 32, 91, 91, 97, 10, 98, 0xE4, 0xB8, 0xAD, 93, 93, 32, 120]) = [(0, 0), (5, 5)] := by
  decide +kernel
#print axioms long_bracket_columns_exact

/-- the model's token location rule IS the Go function `tokenLoc` (translated from the source on every run): every
    Loc the lexer hands out — GetNowTokenLoc, GetHeardTokenLoc, GetPreTokenLoc — goes through it -/
def toGTok (t : Token) : Gen.GTok :=
  { line := t.line, lineStartPos := t.lineStart, rangeFromPos := t.from_, rangeToPos := t.to,
    startLine := t.sline, startLineStartPos := t.slineStart }

theorem tokenLoc_is_go (t : Token) : toG (tokenLoc t) = Gen.tokenLoc (toGTok t) := by
  unfold tokenLoc Gen.tokenLoc toGTok toG
  by_cases h : t.lineStart > t.from_ <;> simp [h]
#print axioms tokenLoc_is_go

/-- the location rule of a token (`tokenLoc`, since the repair c8b21cc): under the bookkeeping facts the lexer
    maintains — the token begins on or before the line it ends on, at or behind the start of that line; it ends at
    or behind the start of its last line; a one-line token has from ≤ to; two positions on one line share its line
    start — the reported Loc has non-negative columns and its start is not behind its end, for one-line and for
    multi-line tokens alike -/
theorem tokenLoc_wellformed (t : Token) (h1 : t.sline ≤ t.line) (h2 : t.slineStart ≤ t.from_)
    (h3 : t.lineStart ≤ t.to) (h4 : t.from_ ≤ t.to) (h5 : t.sline = t.line → t.slineStart = t.lineStart) :
    let l := tokenLoc t
    0 ≤ l.sc ∧ 0 ≤ l.ec ∧ (l.sl < l.el ∨ (l.sl = l.el ∧ l.sc ≤ l.ec)) := by
  unfold tokenLoc
  by_cases hm : t.lineStart > t.from_
  · simp only [hm, if_true]
    refine ⟨by omega, by omega, ?_⟩
    by_cases he : t.sline = t.line
    · have := h5 he; omega
    · left; omega
  · simp only [hm, if_false]
    refine ⟨by omega, by omega, Or.inr ⟨trivial, by omega⟩⟩
#print axioms tokenLoc_wellformed

/-- the rule it replaced (start = the end of the PREVIOUS token + 1, on the previous token's line) was ill formed
    for a one-line long bracket behind a longer token: start column beyond the end column on the same line -/
theorem old_multiline_rule_ill_formed :
    let pre : Token := { valid := true, line := 3, lineStart := 40, from_ := 40, to := 52 }
    let now : Token := { valid := true, line := 3, lineStart := 60, from_ := 53, to := 59 }  -- lineStart moved behind "]]"
    let old : Loc := ⟨pre.line, pre.to - pre.lineStart + 1, now.line, now.to - now.lineStart⟩
    old.sl = old.el ∧ old.sc > old.ec := by decide
#print axioms old_multiline_rule_ill_formed

end LuaHelper.C04
