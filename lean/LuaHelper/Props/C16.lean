/-
C16 — "Every documented annotation form is accepted with its structure intact".

Model: Model/Annot.lean (lexer, type grammar, statement parsers, printer), tied to the code by comparing
the real ParserLine / TypeConvertStr with the model on grammar-derived lines and their corruptions.
Proved here, for ALL types of the canonical fragment (names, `table`, `table<K, V>`, parenthesised unions, any
number of array suffixes, unions of those, nested to any depth) and ALL token contexts:
 * `roundtrip`: reading the tokens of the printed form gives back exactly the same type and leaves the
   following tokens untouched, with the fuel the model's `parseLine` provides being enough
   (`cost_le_tokens`);
 * `roundtrip_fails_*`: outside the fragment the property is false of the model (and of the code):
   a fun type prints as `function(…)`, which reads back as the name `function` (class K2); a quoted
   constant loses its quotes (K3).  (A parenthesised union under `[]` used to lose its parentheses — finding K4,
   repaired: `paren_union_printed`; parenthesised unions of two or more types are inside the fragment.)
   (`T[][]` used to be cut after the first suffix — finding K1, repaired: `arrSuffix_arrs`, `nested_array_read`.)
-/
import LuaHelper.Model.Annot
import LuaHelper.Gen.Shapes
namespace LuaHelper.C16
open LuaHelper.Annot
abbrev Bytes := LuaHelper.Lex.Bytes

/-- the model's keyword table is the Go map `keywords` of annotate_token.go (regenerated every run) -/
theorem keywords_match :
    Gen.annotKeywords =
      ["alias=ATokenKwAlias", "class=ATokenKwClass", "const=ATokenKwConst", "enum=ATokenKwEnum", "field=ATokenKwField",
       "fun=ATokenKwFun", "generic=ATokenKwGeneric", "overload=ATokenKwOverload", "param=ATokenKwParam",
       "private=ATokenKwPrivate", "protected=ATokenKwProtected", "public=ATokenKwPubic", "return=ATokenKwReturn",
       "table=ATokenKwTable", "type=ATokenKwType", "vararg=ATokenKwVararg"] ∧
    (kwTable.map (·.1)).length = 16 ∧
    ∀ w ∈ ["alias", "class", "const", "enum", "field", "fun", "generic", "overload", "param", "private", "protected",
           "public", "return", "table", "type", "vararg"], (kwTable.map (·.1)).contains w = true := by decide
#print axioms keywords_match

/-- the token after a printed type must not continue it -/
def Stops (rest : List Tok) : Prop :=
  rest.head? ≠ some .bor ∧ rest.head? ≠ some .lbrack ∧ rest.head? ≠ some .lt

theorem arrSuffix_stop (t : Ty) (rest : List Tok) (h : rest.head? ≠ some .lbrack) :
    arrSuffix t rest = some (t, rest) := by
  cases rest with
  | nil => simp [arrSuffix]
  | cons x r =>
    cases x <;> first | (simp [arrSuffix]; done) | (simp at h)

/-- n array suffixes as tokens, and what they make of a type -/
def arrs : Nat → List Tok
  | 0 => []
  | n + 1 => .lbrack :: .rbrack :: arrs n
def arrN : Nat → Ty → Ty
  | 0, t => t
  | n + 1, t => arrN n (.array t)

/-- every `[]` suffix is read (since the repair of finding K1), each wrapping what was read so far -/
theorem arrSuffix_arrs (n : Nat) : ∀ (t : Ty) (rest : List Tok), rest.head? ≠ some .lbrack →
    arrSuffix t (arrs n ++ rest) = some (arrN n t, rest) := by
  induction n with
  | zero => intro t rest h; simpa [arrs, arrN] using arrSuffix_stop t rest h
  | succ n ih =>
    intro t rest h
    simp only [arrs, arrN, List.cons_append, arrSuffix]
    exact ih (.array t) rest h
#print axioms arrSuffix_arrs

theorem arrs_head_ne_lt (n : Nat) (rest : List Tok) (h : rest.head? ≠ some .lt) :
    (arrs n ++ rest).head? ≠ some .lt := by
  cases n with
  | zero => simpa [arrs] using h
  | succ n => simp [arrs]

theorem pBase_tableE (f : Nat) (rest : List Tok) (h : rest.head? ≠ some .lt) :
    pBase (f + 1) (.kw .table :: rest) = some (.tableE, rest) := by
  cases rest with
  | nil => simp [pBase]
  | cons x r =>
    cases x <;> first | (unfold pBase; rfl) | (simp at h)

theorem pBase_normal (f : Nat) (n : Bytes) (rest : List Tok) :
    pBase (f + 1) (.ident n :: rest) = some (.normal n, rest) := by unfold pBase; rfl

/-- the `table<K, V>` case of pBase, given that K and V read back -/
theorem pBase_table (f : Nat) (k v : Ty) (rest : List Tok)
    (e1 : pOne f (toksM k ++ (.comma :: (toksM v ++ (.gt :: rest)))) = some (k, .comma :: (toksM v ++ (.gt :: rest))))
    (e2 : pOne f (toksM v ++ (.gt :: rest)) = some (v, .gt :: rest)) :
    pBase (f + 1) (toksB (.table k v) ++ rest) = some (.table k v, rest) := by
  have : toksB (.table k v) ++ rest = .kw .table :: .lt :: (toksM k ++ (.comma :: (toksM v ++ (.gt :: rest)))) := by
    simp [toksB]
  rw [this, pBase.eq_4, e1]
  simp only [e2]

/-- the `( … )` case of pBase, given that the union inside reads back -/
theorem pBase_paren (g : Nat) (t : Ty) (l : List Ty) (rest : List Tok)
    (e : pOneList g (toksS t ++ toksL l ++ (.rparen :: rest)) = some (t :: l, .rparen :: rest)) :
    pBase (g + 2) (.lparen :: (toksS t ++ toksL l) ++ [.rparen] ++ rest) = some (.multi (t :: l), rest) := by
  have : .lparen :: (toksS t ++ toksL l) ++ [.rparen] ++ rest = .lparen :: (toksS t ++ toksL l ++ (.rparen :: rest)) := by
    simp
  rw [this, pBase.eq_2]
  simp only [pOne, e]

mutual
theorem rtB : (b : Ty) → canonB b = true → (f : Nat) → costB b ≤ f → (rest : List Tok) →
    rest.head? ≠ some .lt → pBase f (toksB b ++ rest) = some (b, rest)
  | .normal n, _, f, hf, rest, _ => by
    cases f with
    | zero => simp [costB] at hf
    | succ f => simpa [toksB] using pBase_normal f n rest
  | .tableE, _, f, hf, rest, hlt => by
    cases f with
    | zero => simp [costB] at hf
    | succ f => simpa [toksB] using pBase_tableE f rest hlt
  | .table k v, hc, f, hf, rest, _ => by
    simp only [canonB, Bool.and_eq_true] at hc
    cases f with
    | zero => simp [costB] at hf
    | succ f =>
      have hk : costM k ≤ f := by simp [costB] at hf; omega
      have hv : costM v ≤ f := by simp [costB] at hf; omega
      have e1 := rtM k hc.1 f hk (.comma :: (toksM v ++ (.gt :: rest))) (by simp [Stops])
      have e2 := rtM v hc.2 f hv (.gt :: rest) (by simp [Stops])
      exact pBase_table f k v rest e1 e2
  | .multi (t :: t2 :: l), hc, f, hf, rest, _ => by
    simp only [canonB, Bool.and_eq_true] at hc
    have hf' : max (costS t) (costL (t2 :: l)) + 3 ≤ f := by simpa [costB] using hf
    obtain ⟨g, rfl⟩ : ∃ g, f = g + 2 := ⟨f - 2, by omega⟩
    have hl : costL (t :: t2 :: l) ≤ g := by simp [costL] at hf' ⊢; omega
    have e := rtL t (t2 :: l) hc.1 hc.2 g hl (.rparen :: rest) (by simp [Stops])
    simpa [toksB] using pBase_paren g t (t2 :: l) rest e
  | .multi [], hc, _, _, _, _ => by simp [canonB] at hc
  | .multi [_], hc, _, _, _, _ => by simp [canonB] at hc
  | .array _, hc, _, _, _, _ => by simp [canonB] at hc
  | .func _ _ _ _, hc, _, _, _, _ => by simp [canonB] at hc
  | .const _ _, hc, _, _, _, _ => by simp [canonB] at hc
termination_by b => sizeOf b
theorem rtS : (s : Ty) → canonS s = true → (f : Nat) → costS s ≤ f → (n : Nat) → (rest : List Tok) →
    rest.head? ≠ some .lt → rest.head? ≠ some .lbrack →
    pSingle f (toksS s ++ (arrs n ++ rest)) = some (arrN n s, rest)
  | .array t, hc, f, hf, n, rest, hlt, hlb => by
    simp only [canonS] at hc
    have e := rtS t hc f (by simpa [costS] using hf) (n + 1) rest hlt hlb
    have : toksS (.array t) ++ (arrs n ++ rest) = toksS t ++ (arrs (n + 1) ++ rest) := by
      simp [toksS, arrs]
    rw [this, e]
    rfl
  | .normal nm, hc, f, hf, n, rest, hlt, hlb => by
    cases f with
    | zero => simp [costS] at hf
    | succ f =>
      have hb : 1 ≤ f := by simp [costS, costB] at hf; omega
      obtain ⟨g, rfl⟩ : ∃ g, f = g + 1 := ⟨f - 1, by omega⟩
      have e : pBase (g + 1) (toksB (.normal nm) ++ (arrs n ++ rest)) = some (.normal nm, arrs n ++ rest) := by
        simpa [toksB] using pBase_normal g nm (arrs n ++ rest)
      simp only [toksS, pSingle, e]
      exact arrSuffix_arrs n _ rest hlb
  | .tableE, hc, f, hf, n, rest, hlt, hlb => by
    cases f with
    | zero => simp [costS] at hf
    | succ f =>
      have hb : 1 ≤ f := by simp [costS, costB] at hf; omega
      obtain ⟨g, rfl⟩ : ∃ g, f = g + 1 := ⟨f - 1, by omega⟩
      have e : pBase (g + 1) (toksB .tableE ++ (arrs n ++ rest)) = some (.tableE, arrs n ++ rest) := by
        simpa [toksB] using pBase_tableE g (arrs n ++ rest) (arrs_head_ne_lt n rest hlt)
      simp only [toksS, pSingle, e]
      exact arrSuffix_arrs n _ rest hlb
  | .table k v, hc, f, hf, n, rest, hlt, hlb => by
    cases f with
    | zero => simp [costS] at hf
    | succ f =>
      have hc' : canonM k = true ∧ canonM v = true := by simpa [canonS, canonB] using hc
      have hb : max (costM k) (costM v) + 2 ≤ f := by simp [costS, costB] at hf; omega
      obtain ⟨g, rfl⟩ : ∃ g, f = g + 1 := ⟨f - 1, by omega⟩
      have e1 := rtM k hc'.1 g (by omega) (.comma :: (toksM v ++ (.gt :: (arrs n ++ rest)))) (by simp [Stops])
      have e2 := rtM v hc'.2 g (by omega) (.gt :: (arrs n ++ rest)) (by simp [Stops])
      have e := pBase_table g k v (arrs n ++ rest) e1 e2
      simp only [toksS, pSingle, e]
      exact arrSuffix_arrs n _ rest hlb
  | .multi (t :: t2 :: l), hc, f, hf, n, rest, hlt, hlb => by
    have hc' : canonS t = true ∧ canonL (t2 :: l) = true := by simpa [canonS, canonB] using hc
    have hf' : max (costS t) (costL (t2 :: l)) + 4 ≤ f := by simpa [costS, costB] using hf
    obtain ⟨g, rfl⟩ : ∃ g, f = g + 3 := ⟨f - 3, by omega⟩
    have hl : costL (t :: t2 :: l) ≤ g := by simp [costL] at hf' ⊢; omega
    have e0 := rtL t (t2 :: l) hc'.1 hc'.2 g hl (.rparen :: (arrs n ++ rest)) (by simp [Stops])
    have e := pBase_paren g t (t2 :: l) (arrs n ++ rest) e0
    have : toksS (.multi (t :: t2 :: l)) ++ (arrs n ++ rest) =
        .lparen :: (toksS t ++ toksL (t2 :: l)) ++ [.rparen] ++ (arrs n ++ rest) := by simp [toksS, toksB]
    rw [this]
    simp only [pSingle, e]
    exact arrSuffix_arrs n _ rest hlb
  | .multi [], hc, _, _, _, _, _, _ => by simp [canonS, canonB] at hc
  | .multi [_], hc, _, _, _, _, _, _ => by simp [canonS, canonB] at hc
  | .func _ _ _ _, hc, _, _, _, _, _, _ => by simp [canonS, canonB] at hc
  | .const _ _, hc, _, _, _, _, _, _ => by simp [canonS, canonB] at hc
termination_by s => sizeOf s
/-- the union loop: first member `t`, remaining members `l` -/
theorem rtL : (t : Ty) → (l : List Ty) → canonS t = true → canonL l = true → (f : Nat) →
    costL (t :: l) ≤ f → (rest : List Tok) → Stops rest →
    pOneList f (toksS t ++ toksL l ++ rest) = some (t :: l, rest)
  | t, [], ht, _, f, hf, rest, hs => by
    cases f with
    | zero => simp [costL] at hf
    | succ f =>
      have h1 : costS t ≤ f := by simp [costL] at hf; omega
      have e : pSingle f (toksS t ++ rest) = some (t, rest) := by
        simpa [arrs, arrN] using rtS t ht f h1 0 rest hs.2.2 hs.2.1
      simp only [toksL, List.append_nil, pOneList, e]
      cases rest with
      | nil => rfl
      | cons x r =>
        cases x <;> first | rfl | (exact absurd rfl hs.1)
  | t, t2 :: l2, ht, hl, f, hf, rest, hs => by
    simp only [canonL, Bool.and_eq_true] at hl
    cases f with
    | zero => simp [costL] at hf
    | succ f =>
      have h1 : costS t ≤ f := by simp [costL] at hf; omega
      have h2 : costL (t2 :: l2) ≤ f := by simp [costL] at hf ⊢; omega
      have e : pSingle f (toksS t ++ (.bor :: (toksS t2 ++ toksL l2 ++ rest))) = some (t, .bor :: (toksS t2 ++ toksL l2 ++ rest)) := by
        simpa [arrs, arrN] using rtS t ht f h1 0 (.bor :: (toksS t2 ++ toksL l2 ++ rest)) (by simp) (by simp)
      have e2 := rtL t2 l2 hl.1 hl.2 f h2 rest hs
      have : toksS t ++ toksL (t2 :: l2) ++ rest = toksS t ++ (.bor :: (toksS t2 ++ toksL l2 ++ rest)) := by
        simp [toksL]
      rw [this]
      simp only [pOneList, e, e2]
termination_by t l => sizeOf t + sizeOf l
theorem rtM : (m : Ty) → canonM m = true → (f : Nat) → costM m ≤ f → (rest : List Tok) → Stops rest →
    pOne f (toksM m ++ rest) = some (m, rest)
  | .multi (t :: l), hc, f, hf, rest, hs => by
    simp only [canonM, Bool.and_eq_true] at hc
    cases f with
    | zero => simp [costM] at hf
    | succ f =>
      have h1 : costL (t :: l) ≤ f := by simp [costM] at hf; simp [costL]; omega
      have e := rtL t l hc.1 hc.2 f h1 rest hs
      simp only [toksM, pOne, e]
  | .multi [], hc, _, _, _, _ => by simp [canonM] at hc
  | .normal _, hc, _, _, _, _ => by simp [canonM] at hc
  | .array _, hc, _, _, _, _ => by simp [canonM] at hc
  | .tableE, hc, _, _, _, _ => by simp [canonM] at hc
  | .table _ _, hc, _, _, _, _ => by simp [canonM] at hc
  | .func _ _ _ _, hc, _, _, _, _ => by simp [canonM] at hc
  | .const _ _, hc, _, _, _, _ => by simp [canonM] at hc
termination_by m => sizeOf m
end

/-- PRINT-AND-READ: for every canonical type, reading the tokens of its printed form returns the same
    type and leaves whatever follows (a comment, a ',', a '>' …) untouched -/
theorem roundtrip (m : Ty) (hc : canonM m = true) (rest : List Tok) (hs : Stops rest)
    (f : Nat) (hf : costM m ≤ f) : pOne f (toksM m ++ rest) = some (m, rest) :=
  rtM m hc f hf rest hs
#print axioms roundtrip

/-! ### the fuel `parseLine` provides (2 · #tokens + 4) is enough -/

mutual
theorem costB_le : (b : Ty) → canonB b = true → costB b ≤ 2 * (toksB b).length
  | .normal _, _ => by simp [costB, toksB]
  | .tableE, _ => by simp [costB, toksB]
  | .table k v, hc => by
    simp only [canonB, Bool.and_eq_true] at hc
    have h1 := costM_le k hc.1
    have h2 := costM_le v hc.2
    simp [costB, toksB]
    omega
  | .multi (t :: t2 :: l), hc => by
    simp only [canonB, Bool.and_eq_true] at hc
    have h1 := costS_le t hc.1
    have h2 := costL_le (t2 :: l) hc.2
    simp [costB, toksB]
    omega
  | .multi [], hc => by simp [canonB] at hc
  | .multi [_], hc => by simp [canonB] at hc
  | .array _, hc => by simp [canonB] at hc
  | .func _ _ _ _, hc => by simp [canonB] at hc
  | .const _ _, hc => by simp [canonB] at hc
termination_by b => sizeOf b
theorem costS_le : (s : Ty) → canonS s = true → costS s ≤ 2 * (toksS s).length + 1
  | .array b, hc => by
    simp only [canonS] at hc
    have := costS_le b hc
    simp [costS, toksS]
    omega
  | .normal _, _ => by simp [costS, costB, toksS, toksB]
  | .tableE, _ => by simp [costS, costB, toksS, toksB]
  | .table k v, hc => by
    have hc' : canonM k = true ∧ canonM v = true := by simpa [canonS, canonB] using hc
    have h1 := costM_le k hc'.1
    have h2 := costM_le v hc'.2
    simp [costS, costB, toksS, toksB]
    omega
  | .multi (t :: t2 :: l), hc => by
    have hc' : canonS t = true ∧ canonL (t2 :: l) = true := by simpa [canonS, canonB] using hc
    have h1 := costS_le t hc'.1
    have h2 := costL_le (t2 :: l) hc'.2
    simp [costS, costB, toksS, toksB]
    omega
  | .multi [], hc => by simp [canonS, canonB] at hc
  | .multi [_], hc => by simp [canonS, canonB] at hc
  | .func _ _ _ _, hc => by simp [canonS, canonB] at hc
  | .const _ _, hc => by simp [canonS, canonB] at hc
termination_by s => sizeOf s
theorem costL_le : (l : List Ty) → canonL l = true → costL l ≤ 2 * (toksL l).length + 1
  | [], _ => by simp [costL]
  | t :: l, hc => by
    simp only [canonL, Bool.and_eq_true] at hc
    have h1 := costS_le t hc.1
    have h2 := costL_le l hc.2
    simp [costL, toksL]
    omega
termination_by l => sizeOf l
theorem costM_le : (m : Ty) → canonM m = true → costM m ≤ 2 * (toksM m).length + 3
  | .multi (t :: l), hc => by
    simp only [canonM, Bool.and_eq_true] at hc
    have h1 := costS_le t hc.1
    have h2 := costL_le l hc.2
    simp [costM, toksM]
    omega
  | .multi [], hc => by simp [canonM] at hc
  | .normal _, hc => by simp [canonM] at hc
  | .array _, hc => by simp [canonM] at hc
  | .tableE, hc => by simp [canonM] at hc
  | .table _ _, hc => by simp [canonM] at hc
  | .func _ _ _ _, hc => by simp [canonM] at hc
  | .const _ _, hc => by simp [canonM] at hc
termination_by m => sizeOf m
end

/-- with the fuel `parseLine` uses for a line whose tokens contain the printed type and at least one
    more token (the statement keyword), the printed form reads back -/
theorem roundtrip_with_model_fuel (m : Ty) (hc : canonM m = true) (rest : List Tok) (hs : Stops rest)
    (n : Nat) (hn : (toksM m).length + 1 ≤ n) : pOne (2 * n + 4) (toksM m ++ rest) = some (m, rest) :=
  roundtrip m hc rest hs _ (by have := costM_le m hc; omega)
#print axioms roundtrip_with_model_fuel

/-- premises satisfiable: `table<string, People[]> | number` followed by an `@` comment -/
example :
    let m : Ty := .multi [.table (.multi [.normal [115]]) (.multi [.array (.normal [80])]), .normal [110]]
    canonM m = true ∧ Stops [.at] ∧ pOne (costM m) (toksM m ++ [.at]) = some (m, [.at]) := by
  refine ⟨by simp [canonM, canonS, canonB, canonL], ⟨by simp, by simp, by simp⟩, ?_⟩
  exact roundtrip _ (by simp [canonM, canonS, canonB, canonL]) _ ⟨by simp, by simp, by simp⟩ _ (Nat.le_refl _)

/-! ### outside the fragment the property fails (model = code, see the correspondence) -/

def strB (s : String) : Bytes := LuaHelper.Lex.bytesOfString s

/-- K2: `fun(a: string)` is printed as `function(a: string)`, which reads back as the NAME `function` -/
theorem roundtrip_fails_fun :
    (parseLine (strB "type fun(a: string)")).map (fun st => match st with | .type _ _ [t] _ => pr t | _ => []) =
      some (strB "function(a: string)") ∧
    (parseLine (strB "type function(a: string)")).map (fun st => match st with | .type _ _ [t] _ => pr t | _ => []) =
      some (strB "function") := by decide +kernel
#print axioms roundtrip_fails_fun

/-- K3: the quoted constant '"r"' is printed as "r", which reads back as the unquoted constant r -/
theorem roundtrip_fails_const :
    (parseLine (strB "type '\"r\"'")).map (fun st => match st with | .type _ _ [t] _ => pr t | _ => []) = some (strB "\"r\"") ∧
    (parseLine (strB "type \"r\"")).map (fun st => match st with | .type _ _ [t] _ => pr t | _ => []) = some (strB "r") := by
  decide +kernel
#print axioms roundtrip_fails_const

/-- the former finding K4, repaired: a union of several types that is the item of an array (or a member of another
    union) is printed WITH its parentheses, and the printed form reads back as the same type (the general statement
    is `roundtrip`, whose fragment now contains parenthesised unions) -/
theorem paren_union_printed :
    (parseLine (strB "type (A|B)[]")).map (fun st => match st with | .type _ _ [t] _ => pr t | _ => []) =
      some (strB "(A | B)[]") ∧
    (parseLine (strB "type (A | B)[]")).map (fun st => match st with | .type _ _ [.multi [.array (.multi l)]] _ => l.length | _ => 0) = some 2 ∧
    (parseLine (strB "type A | (B | C)")).map (fun st => match st with | .type _ _ [t] _ => pr t | _ => []) =
      some (strB "A | (B | C)") := by
  decide +kernel
#print axioms paren_union_printed

/-- premises of `roundtrip` satisfiable with a parenthesised union: `(A | B[])[] | table<string, (A | B)>` -/
example :
    let m : Ty := .multi [.array (.multi [.normal [65], .array (.normal [66])]),
                          .table (.multi [.normal [115]]) (.multi [.multi [.normal [65], .normal [66]]])]
    canonM m = true ∧ pOne (costM m) (toksM m ++ [.at]) = some (m, [.at]) := by
  refine ⟨by simp [canonM, canonS, canonB, canonL], ?_⟩
  exact roundtrip _ (by simp [canonM, canonS, canonB, canonL]) _ ⟨by simp, by simp, by simp⟩ _ (Nat.le_refl _)

/-- the former finding K1, repaired: every `[]` suffix is read — `string[][]` is an array of arrays, printed as it was
    written (the general statement is `roundtrip`, whose fragment now has arrays of any depth) -/
theorem nested_array_read :
    (parseLine (strB "type string[][] @grid")).map
        (fun st => match st with | .type _ _ [.multi [.array (.array (.normal n))]] cm => (n, cm) | _ => ([], [])) =
      some (strB "string", strB "grid") ∧
    (parseLine (strB "type string[][]")).map (fun st => match st with | .type _ _ [t] _ => pr t | _ => []) =
      some (strB "string[][]") := by decide +kernel
#print axioms nested_array_read

/-- premises of `roundtrip` satisfiable with nested arrays: `table<string, People[][]>[] | number` -/
example :
    let m : Ty := .multi [.array (.table (.multi [.normal [115]]) (.multi [.array (.array (.normal [80]))])), .normal [110]]
    canonM m = true ∧ pOne (costM m) (toksM m ++ [.at]) = some (m, [.at]) := by
  refine ⟨by simp [canonM, canonS, canonB, canonL], ?_⟩
  exact roundtrip _ (by simp [canonM, canonS, canonB, canonL]) _ ⟨by simp, by simp, by simp⟩ _ (Nat.le_refl _)

end LuaHelper.C16
