/-
C03 — "Syntax errors are reported exactly for text that is not valid Lua".

Structure of the argument (DESIGN.md §6 C03):
  implementation  =(correspondence, every run)=  M-parse / M-lex (Model/Parser.lean, Model/Lexer.lean)
  M-parse accept bit  =(grammar oracle on generated programs and mutants; theorems below)=  S-ebnf
This file holds (1) the obligations over tables REGENERATED from the Go source on every run — a new
or re-prioritised operator, a changed keyword, a changed block-end set breaks them; (2) soundness of
the generic recogniser used as oracle (`oracle_sound`, proved in Proofs/Grammar.lean): whatever it accepts is
derivable from the manual's grammar; (3) the grammar-level facts about the finding classes K1 (assignment targets) and
the juxtaposition slice.  The unbounded theorems `parse_sound` / `parse_complete` for M-parse are NOT
proved yet (see `partial` in the evidence): the accept bit of M-parse is compared with S-ebnf by the
oracle on every generated case instead.
-/
import LuaHelper.Model.Parser
import LuaHelper.Spec.Grammar
import LuaHelper.Proofs.Grammar
import LuaHelper.Gen.Lexer
namespace LuaHelper.C03
open LuaHelper.Lex LuaHelper.Parse LuaHelper.Grammar

/-! ### regenerated tables -/

/-- the model's token kinds are the Go constants, in iota order -/
theorem token_kinds_match : TK.all.map TK.goName = Gen.tokenKinds := by decide
#print axioms token_kinds_match

/-- the model's keyword table is the Go map `keywords` -/
theorem keywords_match : keywordTable.map (fun p => (p.1, p.2.goName)) = Gen.keywords := by decide
#print axioms keywords_match

/-- the reserved words are exactly the 22 of the reference manual -/
theorem keywords_are_the_manuals :
    Gen.keywords.map (·.1) = ["and", "break", "do", "else", "elseif", "end", "false", "for", "function", "goto",
      "if", "in", "local", "nil", "not", "or", "repeat", "return", "then", "true", "until", "while"] := by decide
#print axioms keywords_are_the_manuals

/-- `getPriority`: the model's function is the Go switch (aliases resolved), default 0 -/
theorem priority_match :
    Gen.priorityDefault = 0 ∧
    ∀ k ∈ TK.all, (priority k : Int) =
      ((Gen.priority.find? (·.1 == k.goName)).map (·.2)).getD Gen.priorityDefault := by decide
#print axioms priority_match

/-- every binary operator of the manual's grammar has a positive priority (so the precedence loop
    consumes it) and nothing else has -/
theorem binops_have_priority :
    (TK.all.filter fun k => priority k > 0).map TK.goName =
      ["TkOpMinus", "TkOpWave", "TkOpAdd", "TkOpMul", "TkOpDiv", "TkOpIdiv", "TkOpPow", "TkOpMod", "TkOpBand",
       "TkOpBor", "TkOpShr", "TkOpShl", "TkOpConcat", "TkOpLt", "TkOpLe", "TkOpGt", "TkOpGe", "TkOpEq", "TkOpNe",
       "TkOpAnd", "TkOpOr"] ∧
    Grammar.binops.length = 21 := by decide
#print axioms binops_have_priority

/-- a block ends exactly at return / EOF / end / else / elseif / until -/
theorem block_end_match :
    Gen.isReturnOrBlockEnd = ["TkKwReturn", "TkEOF", "TkKwEnd", "TkKwElse", "TkKwElseif", "TkKwUntil"] ∧
    ∀ k ∈ TK.all, isBlockEnd k = Gen.isReturnOrBlockEnd.contains k.goName := by decide
#print axioms block_end_match

/-- spellings: every fixed token the model emits is spelled as in the Go table `tokenKinds` -/
theorem spelling_table_complete : Gen.tokenSpelling.map (·.1) = Gen.tokenKinds := by decide
#print axioms spelling_table_complete

/-! ### the grammar: finding class K1 and the juxtaposition slice, on concrete witnesses -/

/-- `(a) = 1` and `a, f() = 1, 2` are not derivable, but are once targets are relaxed (class K1) -/
theorem K1_class_witness :
    recognise ["(", "Name", ")", "=", "Numeral"] = false ∧
    recogniseRelaxed ["(", "Name", ")", "=", "Numeral"] = true ∧
    recognise ["Name", ",", "Name", "(", ")", "=", "Numeral", ",", "Numeral"] = false ∧
    recogniseRelaxed ["Name", ",", "Name", "(", ")", "=", "Numeral", ",", "Numeral"] = true := by
  decide +kernel
#print axioms K1_class_witness

/-- SOUNDNESS OF THE ORACLE: a token string the recogniser accepts is derivable from the manual's
    grammar (`Derives`, Spec/Grammar.lean) — for every token string, by induction on the fuel of the
    four mutually recursive recognisers (Proofs/Grammar.lean).  So "the oracle says valid, the parser
    reports an error" is always a disagreement with the MANUAL, never an artefact of the oracle. -/
theorem oracle_sound (w : List String) (h : recognise w = true) : ValidChunk w := recognise_sound w h
#print axioms oracle_sound

/-- non-vacuity of the oracle: a program using most productions is accepted, a one-token deletion not -/
theorem oracle_examples :
    recognise ["local", "Name", "=", "Numeral", "function", "Name", ".", "Name", ":", "Name", "(", "Name", ")",
      "return", "Name", "+", "Numeral", "end", "Name", ",", "Name", "=", "Name", "(", "Numeral", ")"] = true ∧
    recognise ["local", "Name", "=", "function", "Name", ".", "Name", ":", "Name", "(", "Name", ")",
      "return", "Name", "+", "Numeral", "end"] = false := by
  decide +kernel
#print axioms oracle_examples

end LuaHelper.C03
