/-
C07 — "Undefined-variable and unused-local warnings agree with the actual bindings".

The diagnostics are functions of the binding computed by LuaHelper's traversal (passes 1–3):
  unused(d)    ⇔ d is declared by a `local` statement and no READ is bound to d        (type 4)
  undefined(o) ⇔ o is a read bound to no local, and no file assigns a global of that name (type 2)
Here: these two sets computed from the traversal binder equal the ones computed from S-bind (Lua's
scoping) on every chunk — a corollary of `C06.traversal_eq_spec`, for all programs and nesting
depths — and the two clauses "a bound name is
never reported undefined" / "a read local is never reported unused" hold by construction.  The
documented exemptions and the suppression idioms (classes K1, K2) are applied by the harness on the
concrete diagnostics and are not part of these definitions.
-/
import LuaHelper.Props.C06
namespace LuaHelper.C07
open LuaHelper.Lex LuaHelper.Ast LuaHelper.Bind

/-- reads (not declarations, not assignment targets) bound to declaration `d` -/
def readsOf (occs : List Occ) (d : Loc) : List Occ :=
  occs.filter fun o => !o.isDecl && !o.isWrite && o.decl == some d

/-- unused locals: declared by a `local` statement, not named `_`, never read -/
def unusedDecls (occs : List Occ) : List Occ :=
  occs.filter fun o => o.isDecl && o.dk == "L" && o.name != [95] && (readsOf occs o.loc).isEmpty

/-- reads of names that no local binds and no assignment in the chunk defines -/
def undefinedReads (occs : List Occ) : List Occ :=
  occs.filter fun o => !o.isDecl && !o.isWrite && o.decl.isNone &&
    !(occs.any fun w => w.isWrite && w.decl.isNone && w.name == o.name)

theorem unused_traversal_eq_spec (b : Block) :
    unusedDecls (bindTraversal b) = unusedDecls (bindChunk b) := by
  rw [C06.traversal_eq_spec b]
#print axioms unused_traversal_eq_spec

theorem undefined_traversal_eq_spec (b : Block) :
    undefinedReads (bindTraversal b) = undefinedReads (bindChunk b) := by
  rw [C06.traversal_eq_spec b]
#print axioms undefined_traversal_eq_spec

/-- "A bound name is never reported undefined" -/
theorem bound_never_undefined (occs : List Occ) (o : Occ) (ho : o ∈ undefinedReads occs) : o.decl = none := by
  unfold undefinedReads at ho
  simp only [List.mem_filter, Bool.and_eq_true, Option.isNone_iff_eq_none] at ho
  exact ho.2.1.2
#print axioms bound_never_undefined

/-- "A read local is never reported unused" -/
theorem read_never_unused (occs : List Occ) (d r : Occ) (hd : d ∈ unusedDecls occs) (hr : r ∈ occs)
    (hread : r.isDecl = false ∧ r.isWrite = false ∧ r.decl = some d.loc) : False := by
  unfold unusedDecls at hd
  simp only [List.mem_filter, Bool.and_eq_true, List.isEmpty_iff] at hd
  have : r ∈ readsOf occs d.loc := by
    unfold readsOf
    simp [List.mem_filter, hr, hread.1, hread.2.1, hread.2.2]
  rw [hd.2.2] at this
  cases this
#print axioms read_never_unused

end LuaHelper.C07
