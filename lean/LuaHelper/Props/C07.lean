/-
C07 — "Undefined-variable and unused-local warnings agree with the actual bindings".

The diagnostics are functions of the binding computed by LuaHelper's traversal (passes 1–3):
  unused(d)    ⇔ d is declared by a `local` statement and no READ is bound to d        (type 4)
  undefined(o) ⇔ o is a read bound to no local, and no file assigns a global of that name (type 2)
Here: these two sets computed from the traversal binder equal the ones computed from S-bind (Lua's
scoping) on every chunk — a corollary of `C06.traversal_eq_spec`, for all programs and nesting
depths — and the two clauses "a bound name is
never reported undefined" / "a read local is never reported unused" hold by construction.  The
documented exemptions and the suppression idioms (classes K1, K2) are applied by the harness on the
concrete diagnostics and are not part of these definitions.
-/
import LuaHelper.Props.C06
namespace LuaHelper.C07
open LuaHelper.Lex LuaHelper.Ast LuaHelper.Bind

/-- reads (not declarations, not assignment targets) bound to declaration `d` -/
def readsOf (occs : List Occ) (d : Loc) : List Occ :=
  occs.filter fun o => !o.isDecl && !o.isWrite && o.decl == some d

/-- unused locals: declared by a `local` statement, not named `_`, never read -/
def unusedDecls (occs : List Occ) : List Occ :=
  occs.filter fun o => o.isDecl && o.dk == "L" && o.name != [95] && (readsOf occs o.loc).isEmpty

/-- reads of names that no local binds and no assignment in the chunk defines -/
def undefinedReads (occs : List Occ) : List Occ :=
  occs.filter fun o => !o.isDecl && !o.isWrite && o.decl.isNone &&
    !(occs.any fun w => w.isWrite && w.decl.isNone && w.name == o.name)

theorem unused_traversal_eq_spec (b : Block) :
    unusedDecls (bindTraversal b) = unusedDecls (bindChunk b) := by
  rw [C06.traversal_eq_spec b]
#print axioms unused_traversal_eq_spec

theorem undefined_traversal_eq_spec (b : Block) :
    undefinedReads (bindTraversal b) = undefinedReads (bindChunk b) := by
  rw [C06.traversal_eq_spec b]
#print axioms undefined_traversal_eq_spec

/-- "A bound name is never reported undefined" -/
theorem bound_never_undefined (occs : List Occ) (o : Occ) (ho : o ∈ undefinedReads occs) : o.decl = none := by
  unfold undefinedReads at ho
  simp only [List.mem_filter, Bool.and_eq_true, Option.isNone_iff_eq_none] at ho
  exact ho.2.1.2
#print axioms bound_never_undefined

/-- "A read local is never reported unused" -/
theorem read_never_unused (occs : List Occ) (d r : Occ) (hd : d ∈ unusedDecls occs) (hr : r ∈ occs)
    (hread : r.isDecl = false ∧ r.isWrite = false ∧ r.decl = some d.loc) : False := by
  unfold unusedDecls at hd
  simp only [List.mem_filter, Bool.and_eq_true, List.isEmpty_iff] at hd
  have : r ∈ readsOf occs d.loc := by
    unfold readsOf
    simp [List.mem_filter, hr, hread.1, hread.2.1, hread.2.2]
  rw [hd.2.2] at this
  cases this
#print axioms read_never_unused

/-! ## Workspace level: "no file of the workspace defines a global of that name"

A workspace is a list of files, each given by its binder output.  `wsDefines` is the set the third
pass consults (every global assignment of every file, wherever it is nested); `wsUndefined` is the
type-2 set of one file of that workspace with the built-in / configured-ignored names `ign`.  The
theorems are the "exactly when" of the statement and its consequences for every workspace: the set
does not depend on the order in which the files were scanned, a file that is added can only remove
reports, and providing a definition anywhere removes exactly the reports of that name. -/

/-- some file assigns a global called `n` -/
def wsDefines (files : List (List Occ)) (n : Bytes) : Bool :=
  files.any fun f => f.any fun w => w.isWrite && w.decl.isNone && w.name == n

/-- type 2 in file `f` of workspace `files` with ignored names `ign` -/
def wsUndefined (files : List (List Occ)) (ign : List Bytes) (f : List Occ) : List Occ :=
  f.filter fun o => !o.isDecl && !o.isWrite && o.decl.isNone && !wsDefines files o.name && !ign.contains o.name

/-- the statement's "exactly when" -/
theorem wsUndefined_iff (files : List (List Occ)) (ign : List Bytes) (f : List Occ) (o : Occ) :
    o ∈ wsUndefined files ign f ↔
      o ∈ f ∧ o.isDecl = false ∧ o.isWrite = false ∧ o.decl = none ∧
      (∀ g ∈ files, ∀ w ∈ g, ¬ (w.isWrite = true ∧ w.decl = none ∧ w.name = o.name)) ∧ o.name ∉ ign := by
  unfold wsUndefined wsDefines
  simp only [List.mem_filter, Bool.and_eq_true, Bool.not_eq_true', List.any_eq_false, List.any_eq_true,
    Option.isNone_iff_eq_none, beq_iff_eq, List.contains_eq_mem, decide_eq_false_iff_not, not_exists, not_and]
  grind
#print axioms wsUndefined_iff

/-- with a single file and nothing ignored this is the single-file set above -/
theorem wsUndefined_single (f : List Occ) : wsUndefined [f] [] f = undefinedReads f := by
  unfold wsUndefined undefinedReads wsDefines
  simp
#print axioms wsUndefined_single

theorem wsDefines_perm {fs gs : List (List Occ)} (h : fs.Perm gs) (n : Bytes) : wsDefines fs n = wsDefines gs n := by
  unfold wsDefines
  induction h with
  | nil => rfl
  | cons x _ ih => simp only [List.any_cons, ih]
  | swap x y l => simp only [List.any_cons]; cases (x.any _) <;> cases (y.any _) <;> rfl
  | trans _ _ ih1 ih2 => exact ih1.trans ih2

/-- the reports of a file do not depend on the order in which the workspace's files were scanned -/
theorem wsUndefined_scan_order {fs gs : List (List Occ)} (h : fs.Perm gs) (ign : List Bytes) (f : List Occ) :
    wsUndefined fs ign f = wsUndefined gs ign f := by
  unfold wsUndefined
  congr 1; funext o
  rw [wsDefines_perm h]
#print axioms wsUndefined_scan_order

/-- adding a file never adds a report to another file … -/
theorem wsUndefined_add_file (fs : List (List Occ)) (g : List Occ) (ign : List Bytes) (f : List Occ) (o : Occ)
    (ho : o ∈ wsUndefined (g :: fs) ign f) : o ∈ wsUndefined fs ign f := by
  rw [wsUndefined_iff] at ho ⊢
  obtain ⟨a, b, c, d, e, i⟩ := ho
  exact ⟨a, b, c, d, fun g' hg' => e g' (List.mem_cons_of_mem _ hg'), i⟩
#print axioms wsUndefined_add_file

/-- … and it removes exactly the reports of the names it assigns -/
theorem wsUndefined_provider (fs : List (List Occ)) (g : List Occ) (ign : List Bytes) (f : List Occ) :
    wsUndefined (g :: fs) ign f =
      (wsUndefined fs ign f).filter fun o => !(g.any fun w => w.isWrite && w.decl.isNone && w.name == o.name) := by
  unfold wsUndefined wsDefines
  rw [List.filter_filter]
  congr 1; funext o
  simp only [List.any_cons, Bool.not_or]
  cases o.isDecl <;> cases o.isWrite <;> cases o.decl.isNone <;> cases (ign.contains o.name) <;>
    cases (g.any _) <;> cases (fs.any _) <;> rfl
#print axioms wsUndefined_provider

/-- a name that is ignored (built in, or listed in luahelper.json) is never reported, whatever the files say -/
theorem ignored_never_undefined (files : List (List Occ)) (ign : List Bytes) (f : List Occ) (o : Occ)
    (ho : o ∈ wsUndefined files ign f) : o.name ∉ ign := ((wsUndefined_iff files ign f o).1 ho).2.2.2.2.2
#print axioms ignored_never_undefined

/-- non-vacuity: two files, the second provides `g`; the read of `g` in the first is reported alone, not together -/
example :
    let rd : Occ := { name := [103], loc := ⟨1, 0, 1, 1⟩, decl := none }
    let wr : Occ := { name := [103], loc := ⟨1, 0, 1, 1⟩, decl := none, isWrite := true }
    wsUndefined [[rd]] [] [rd] = [rd] ∧ wsUndefined [[wr], [rd]] [] [rd] = [] := by
  decide

/-! ## "exactly when" for unused locals -/

theorem unusedDecls_iff (occs : List Occ) (d : Occ) :
    d ∈ unusedDecls occs ↔
      d ∈ occs ∧ d.isDecl = true ∧ d.dk = "L" ∧ d.name ≠ [95] ∧
      ∀ r ∈ occs, ¬ (r.isDecl = false ∧ r.isWrite = false ∧ r.decl = some d.loc) := by
  unfold unusedDecls readsOf
  simp only [List.mem_filter, Bool.and_eq_true, List.isEmpty_iff, List.filter_eq_nil_iff, bne_iff_ne, ne_eq,
    beq_iff_eq, Bool.not_eq_true', not_and]
  constructor
  · rintro ⟨hd, ⟨⟨h1, h2⟩, h3⟩, h4⟩
    refine ⟨hd, h1, h2, h3, ?_⟩
    intro r hr a b c
    exact h4 r hr ⟨a, b⟩ c
  · rintro ⟨hd, h1, h2, h3, h4⟩
    refine ⟨hd, ⟨⟨h1, h2⟩, h3⟩, ?_⟩
    intro r hr hab c
    exact h4 r hr hab.1 hab.2 c
#print axioms unusedDecls_iff

/-- a write alone does not make a local used (the assignment is what type 17 reports) -/
theorem write_does_not_use (occs : List Occ) (d w : Occ) (hd : d ∈ unusedDecls occs) (hw : w.isWrite = true) :
    d ∈ unusedDecls (occs ++ [w]) := by
  rw [unusedDecls_iff] at hd ⊢
  obtain ⟨a, b, c, e, h⟩ := hd
  refine ⟨List.mem_append_left _ a, b, c, e, ?_⟩
  intro r hr
  rcases List.mem_append.1 hr with hr | hr
  · exact h r hr
  · simp only [List.mem_singleton] at hr
    subst hr
    intro hc
    rw [hw] at hc
    exact Bool.noConfusion hc.2.1
#print axioms write_does_not_use

end LuaHelper.C07
