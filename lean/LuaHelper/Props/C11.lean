/-
C11 — "Rename never changes the meaning of the program".

A rename of the local declared at `d` to a fresh name `n'` replaces the identifier at every occurrence
bound to `d` (that set is C06's reference set).  Proved here for Lua's binder S-bind (`Bind.bindChunk`),
for ALL programs, all nesting depths, any environment:
  `alpha_rename` : after the replacement every identifier occurrence — renamed or not — is bound to
  exactly the declaration it was bound to before (same occurrences, same declaration Locs, same
  declaration / write flags), provided the new name occurs nowhere in the chunk.
So the binding structure is invariant under the edit: no capture, no loss.  (That the real server's
edit list IS that replacement is C06 + C04; the harness additionally applies the real edits, re-parses
and re-binds.)
-/
import LuaHelper.Spec.Bind
namespace LuaHelper.C11
open LuaHelper.Lex LuaHelper.Ast LuaHelper.Bind

variable (d : Loc) (n' : Bytes)

/-- new spelling of a USE of `x` seen in environment `env` -/
def rnName (env : Env) (x : Bytes) : Bytes := if lookup env x == some d then n' else x
/-- new spelling of a DECLARATION `x` at `l` -/
def rnDecl (x : Bytes) (l : Loc) : Bytes := if l == d then n' else x

/-- the environment of the renamed program -/
def renEnv (env : Env) : Env := env.map fun p => (rnDecl d n' p.1 p.2, p.2)

/-- what the theorem compares: everything of an occurrence except spellings -/
def core (o : Occ) : Loc × Option Loc × Bool × Bool := (o.loc, o.decl, o.isDecl, o.isWrite)

/-! ### environments -/

theorem lookup_cons (p : Bytes × Loc) (env : Env) (x : Bytes) :
    lookup (p :: env) x = if p.1 == x then some p.2 else lookup env x := by
  unfold lookup
  simp only [List.find?]
  cases h : p.1 == x <;> simp

/-- looking up the NEW spelling in the NEW environment gives the OLD binding -/
theorem lookup_renEnv (env : Env) (x : Bytes) (hx : x ≠ n') (hf : ∀ p ∈ env, p.1 ≠ n') :
    lookup (renEnv d n' env) (rnName d n' env x) = lookup env x := by
  induction env with
  | nil => simp [renEnv, lookup, rnName]
  | cons p r ih =>
    have hfr : ∀ q ∈ r, q.1 ≠ n' := fun q hq => hf q (by simp [hq])
    have hp : p.1 ≠ n' := hf p (by simp)
    have ih' := ih hfr
    have hren : renEnv d n' (p :: r) = (rnDecl d n' p.1 p.2, p.2) :: renEnv d n' r := by simp [renEnv]
    rw [hren, lookup_cons, lookup_cons]
    unfold rnName at ih' ⊢
    rw [lookup_cons]
    by_cases hpx : p.1 = x
    · -- the head is the binding of x
      have e1 : (p.1 == x) = true := by simpa using hpx
      simp only [e1, if_true]
      by_cases hpd : p.2 = d
      · have : (some p.2 == some d) = true := by simp [hpd]
        simp only [this, if_true]
        have : rnDecl d n' p.1 p.2 = n' := by simp [rnDecl, hpd]
        simp [this]
      · have : (some p.2 == some d) = false := by simpa using hpd
        simp only [this, Bool.false_eq_true, if_false]
        have : rnDecl d n' p.1 p.2 = p.1 := by simp [rnDecl, hpd]
        rw [this]; simp [hpx]
    · have e1 : (p.1 == x) = false := by simpa using hpx
      simp only [e1, Bool.false_eq_true, if_false]
      -- the head is not named x; is its new name the new spelling of x?
      by_cases hl : lookup r x = some d
      · have e2 : (lookup r x == some d) = true := by simp [hl]
        simp only [e2, if_true] at ih' ⊢
        by_cases hpd : p.2 = d
        · have : rnDecl d n' p.1 p.2 = n' := by simp [rnDecl, hpd]
          rw [this]; simp [hl, hpd]
        · have : rnDecl d n' p.1 p.2 = p.1 := by simp [rnDecl, hpd]
          have e3 : (p.1 == n') = false := by simpa using hp
          simp only [this, e3, Bool.false_eq_true, if_false]
          exact ih'
      · have e2 : (lookup r x == some d) = false := by simpa using hl
        simp only [e2, Bool.false_eq_true, if_false] at ih' ⊢
        by_cases hpd : p.2 = d
        · have : rnDecl d n' p.1 p.2 = n' := by simp [rnDecl, hpd]
          have e3 : (n' == x) = false := by simpa using fun h => hx h.symm
          simp only [this, e3, Bool.false_eq_true, if_false]
          exact ih'
        · have : rnDecl d n' p.1 p.2 = p.1 := by simp [rnDecl, hpd]
          simp only [this, e1, Bool.false_eq_true, if_false]
          exact ih'


/-! ### the renamed program -/

def rnParams (ps : List (Bytes × Loc)) : List (Bytes × Loc) := ps.map fun p => (rnDecl d n' p.1 p.2, p.2)
def rnNames (ns : List (Bytes × Loc × Nat)) : List (Bytes × Loc × Nat) := ns.map fun p => (rnDecl d n' p.1 p.2.1, p.2.1, p.2.2)

mutual
def rnExp (env : Env) : Exp → Exp
  | .name x l => .name (rnName d n' env x) l
  | .unop o e l => .unop o (rnExp env e) l
  | .binop o a b l => .binop o (rnExp env a) (rnExp env b) l
  | .table ks vs l => .table (rnExps env ks) (rnExps env vs) l
  | .func f => .func (rnFunc env f)
  | .parens e l => .parens (rnExp env e) l
  | .index p k l => .index (rnExp env p) (rnExp env k) l
  | .call p m args l => .call (rnExp env p) m (rnExps env args) l
  | e => e
def rnExps (env : Env) : List Exp → List Exp
  | [] => []
  | e :: r => rnExp env e :: rnExps env r
def rnFunc (env : Env) : FuncBody → FuncBody
  | .mk cls fn ps va colon body l => .mk cls fn (rnParams d n' ps) va colon (rnBlock (pushParams env ps) body) l
def rnBlock (env : Env) : Block → Block
  | .mk stats ret l =>
    .mk (rnStats env stats) (match ret with | some es => some (rnExps (bStats false env stats).2 es) | none => none) l
def rnStats (env : Env) : List Stat → List Stat
  | [] => []
  | st :: r => rnStat env st :: rnStats (bStat false env st).2 r
def rnBlocks (env : Env) : List Block → List Block
  | [] => []
  | b :: r => rnBlock env b :: rnBlocks env r
def rnStat (env : Env) : Stat → Stat
  | .do_ b l => .do_ (rnBlock env b) l
  | .while_ c b l => .while_ (rnExp env c) (rnBlock env b) l
  | .repeat_ b c l => .repeat_ (rnBlock env b) (rnExp (bBlock false env b).2 c) l
  | .if_ cs bs e l => .if_ (rnExps env cs) (rnBlocks env bs) e l
  | .fornum v vl i lim st b l =>
    .fornum (rnDecl d n' v vl) vl (rnExp env i) (rnExp env lim) (rnExp env st) (rnBlock ((v, vl) :: env) b) l
  | .forin ns es b l => .forin (rnParams d n' ns) (rnExps env es) (rnBlock (pushParams env ns) b) l
  | .assign vars exps l => .assign (rnExps env vars) (rnExps env exps) l
  | .local_ names exps l => .local_ (rnNames d n' names) (rnExps env exps) l
  | .localfn n nl f l => .localfn (rnDecl d n' n nl) nl (rnFunc ((n, nl) :: env) f) l
  | .callstat e => .callstat (rnExp env e)
  | s => s
end

/-! ### freshness of the new name -/

mutual
def frExp : Exp → Bool
  | .name x _ => x != n'
  | .unop _ e _ => frExp e
  | .binop _ a b _ => frExp a && frExp b
  | .table ks vs _ => frExps ks && frExps vs
  | .func f => frFunc f
  | .parens e _ => frExp e
  | .index p k _ => frExp p && frExp k
  | .call p _ args _ => frExp p && frExps args
  | _ => true
def frExps : List Exp → Bool
  | [] => true
  | e :: r => frExp e && frExps r
def frFunc : FuncBody → Bool
  | .mk _ _ ps _ _ body _ => ps.all (fun p => p.1 != n') && frBlock body
def frBlock : Block → Bool
  | .mk stats ret _ => frStats stats && (match ret with | some es => frExps es | none => true)
def frStats : List Stat → Bool
  | [] => true
  | s :: r => frStat s && frStats r
def frBlocks : List Block → Bool
  | [] => true
  | b :: r => frBlock b && frBlocks r
def frStat : Stat → Bool
  | .do_ b _ => frBlock b
  | .while_ c b _ => frExp c && frBlock b
  | .repeat_ b c _ => frBlock b && frExp c
  | .if_ cs bs _ _ => frExps cs && frBlocks bs
  | .fornum v _ i lim st b _ => v != n' && frExp i && frExp lim && frExp st && frBlock b
  | .forin ns es b _ => ns.all (fun p => p.1 != n') && frExps es && frBlock b
  | .assign vars exps _ => frExps vars && frExps exps
  | .local_ names exps _ => names.all (fun p => p.1 != n') && frExps exps
  | .localfn n _ f _ => n != n' && frFunc f
  | .callstat e => frExp e
  | _ => true
end

def FreshEnv (env : Env) : Prop := ∀ p ∈ env, p.1 ≠ n'

/-! ### helper lemmas -/

theorem renEnv_cons (x : Bytes) (l : Loc) (env : Env) :
    renEnv d n' ((x, l) :: env) = (rnDecl d n' x l, l) :: renEnv d n' env := by simp [renEnv]

theorem pushParams_ren (ps : List (Bytes × Loc)) (env : Env) :
    pushParams (renEnv d n' env) (rnParams d n' ps) = renEnv d n' (pushParams env ps) := by
  induction ps generalizing env with
  | nil => simp [pushParams, rnParams]
  | cons p r ih =>
    obtain ⟨x, l⟩ := p
    have : rnParams d n' ((x, l) :: r) = (rnDecl d n' x l, l) :: rnParams d n' r := by simp [rnParams]
    rw [this]
    simp only [pushParams]
    rw [← renEnv_cons, ih]

theorem pushNames_ren (ns : List (Bytes × Loc × Nat)) (env : Env) :
    pushNames (renEnv d n' env) (rnNames d n' ns) = renEnv d n' (pushNames env ns) := by
  induction ns generalizing env with
  | nil => simp [pushNames, rnNames]
  | cons p r ih =>
    obtain ⟨x, l, k⟩ := p
    have : rnNames d n' ((x, l, k) :: r) = (rnDecl d n' x l, l, k) :: rnNames d n' r := by simp [rnNames]
    rw [this]
    simp only [pushNames]
    rw [← renEnv_cons, ih]

theorem fresh_cons (x : Bytes) (l : Loc) (env : Env) (hx : x ≠ n') (h : FreshEnv n' env) : FreshEnv n' ((x, l) :: env) := by
  intro p hp
  rcases List.mem_cons.mp hp with e | e
  · subst e; exact hx
  · exact h p e

theorem fresh_pushParams (ps : List (Bytes × Loc)) (env : Env) (hps : ps.all (fun p => p.1 != n') = true)
    (h : FreshEnv n' env) : FreshEnv n' (pushParams env ps) := by
  induction ps generalizing env with
  | nil => simpa [pushParams] using h
  | cons p r ih =>
    obtain ⟨x, l⟩ := p
    simp only [List.all_cons, Bool.and_eq_true] at hps
    simp only [pushParams]
    exact ih _ hps.2 (fresh_cons n' x l env (by simpa using hps.1) h)

theorem fresh_pushNames (ns : List (Bytes × Loc × Nat)) (env : Env) (hns : ns.all (fun p => p.1 != n') = true)
    (h : FreshEnv n' env) : FreshEnv n' (pushNames env ns) := by
  induction ns generalizing env with
  | nil => simpa [pushNames] using h
  | cons p r ih =>
    obtain ⟨x, l, k⟩ := p
    simp only [List.all_cons, Bool.and_eq_true] at hns
    simp only [pushNames]
    exact ih _ hns.2 (fresh_cons n' x l env (by simpa using hns.1) h)

/-- a use keeps its binding -/
theorem core_use (env : Env) (x : Bytes) (l : Loc) (w : Bool) (hx : x ≠ n') (hf : FreshEnv n' env) :
    core (use (renEnv d n' env) (rnName d n' env x) l w) = core (use env x l w) := by
  simp only [core, use]
  rw [lookup_renEnv d n' env x hx hf]

theorem core_params (ps : List (Bytes × Loc)) (rg : Loc) (dk : String) :
    ((rnParams d n' ps).map (fun p => declOcc p.1 p.2 rg dk)).map core = (ps.map (fun p => declOcc p.1 p.2 rg dk)).map core := by
  simp [rnParams, core, declOcc]

theorem rnExps_length (env : Env) (es : List Exp) : (rnExps d n' env es).length = es.length := by
  induction es with
  | nil => simp [rnExps]
  | cons e r ih => simp [rnExps, ih]

theorem core_localDecls (sl : Loc) (names : List (Bytes × Loc × Nat)) (es es' : List Exp) (hl : es'.length = es.length) :
    (localDecls sl (rnNames d n' names) es').map core = (localDecls sl names es).map core := by
  induction names generalizing es es' with
  | nil => simp [rnNames, localDecls]
  | cons p r ih =>
    obtain ⟨x, l, k⟩ := p
    have hr : rnNames d n' ((x, l, k) :: r) = (rnDecl d n' x l, l, k) :: rnNames d n' r := by simp [rnNames]
    rw [hr]
    cases es with
    | nil =>
      cases es' with
      | nil => simp only [localDecls, List.map]; rw [ih [] [] rfl]; simp [core, declOcc]
      | cons a b => simp at hl
    | cons e er =>
      cases es' with
      | nil => simp at hl
      | cons a b =>
        simp only [localDecls, List.map]
        rw [ih er b (by simpa using hl)]
        simp [core, declOcc]


/-! ### the binding structure is invariant -/

mutual
theorem aExp : (e : Exp) → (env : Env) → frExp n' e = true → FreshEnv n' env →
    (bExp false (renEnv d n' env) (rnExp d n' env e)).map core = (bExp false env e).map core
  | .name x l, env, h, hf => by
    simp only [frExp, bne_iff_ne, ne_eq] at h
    simp only [rnExp, bExp, List.map]
    rw [core_use d n' env x l false h hf]
  | .noKey, env, _, _ => by simp [rnExp, bExp]
  | .nil _, env, _, _ => by simp [rnExp, bExp]
  | .tru _, env, _, _ => by simp [rnExp, bExp]
  | .fls _, env, _, _ => by simp [rnExp, bExp]
  | .vararg _, env, _, _ => by simp [rnExp, bExp]
  | .int _ _, env, _, _ => by simp [rnExp, bExp]
  | .flt _ _, env, _, _ => by simp [rnExp, bExp]
  | .str _ _, env, _, _ => by simp [rnExp, bExp]
  | .bad _, env, _, _ => by simp [rnExp, bExp]
  | .unop _ e _, env, h, hf => by
    simp only [frExp] at h; simp only [rnExp, bExp]; exact aExp e env h hf
  | .parens e _, env, h, hf => by
    simp only [frExp] at h; simp only [rnExp, bExp]; exact aExp e env h hf
  | .binop _ a b _, env, h, hf => by
    simp only [frExp, Bool.and_eq_true] at h
    simp only [rnExp, bExp, List.map_append, aExp a env h.1 hf, aExp b env h.2 hf]
  | .index a b _, env, h, hf => by
    simp only [frExp, Bool.and_eq_true] at h
    simp only [rnExp, bExp, List.map_append, aExp a env h.1 hf, aExp b env h.2 hf]
  | .table ks vs _, env, h, hf => by
    simp only [frExp, Bool.and_eq_true] at h
    simp only [rnExp, bExp, List.map_append, aExps ks env h.1 hf, aExps vs env h.2 hf]
  | .call p _ args _, env, h, hf => by
    simp only [frExp, Bool.and_eq_true] at h
    simp only [rnExp, bExp, List.map_append, aExp p env h.1 hf, aExps args env h.2 hf]
  | .func f, env, h, hf => by
    simp only [frExp] at h; simp only [rnExp, bExp]; exact aFunc f env h hf
termination_by e => sizeOf e
theorem aExps : (es : List Exp) → (env : Env) → frExps n' es = true → FreshEnv n' env →
    (bExps false (renEnv d n' env) (rnExps d n' env es)).map core = (bExps false env es).map core
  | [], env, _, _ => by simp [rnExps, bExps]
  | e :: r, env, h, hf => by
    simp only [frExps, Bool.and_eq_true] at h
    simp only [rnExps, bExps, List.map_append, aExp e env h.1 hf, aExps r env h.2 hf]
termination_by es => sizeOf es
theorem aFunc : (f : FuncBody) → (env : Env) → frFunc n' f = true → FreshEnv n' env →
    (bFunc false (renEnv d n' env) (rnFunc d n' env f)).map core = (bFunc false env f).map core
  | .mk _ _ ps _ _ body _, env, h, hf => by
    simp only [frFunc, Bool.and_eq_true] at h
    have hb := aBlock body (pushParams env ps) h.2 (fresh_pushParams n' ps env h.1 hf)
    simp only [rnFunc, bFunc, List.map_append]
    rw [pushParams_ren, hb.1]
    congr 1
    simp [rnParams, core, declOcc]
termination_by f => sizeOf f
theorem aBlock : (b : Block) → (env : Env) → frBlock n' b = true → FreshEnv n' env →
    ((bBlock false (renEnv d n' env) (rnBlock d n' env b)).1.map core = (bBlock false env b).1.map core ∧
     (bBlock false (renEnv d n' env) (rnBlock d n' env b)).2 = renEnv d n' (bBlock false env b).2 ∧
     FreshEnv n' (bBlock false env b).2)
  | .mk stats none _, env, h, hf => by
    simp only [frBlock, Bool.and_eq_true] at h
    have hs := aStats stats env h.1 hf
    simp only [rnBlock, bBlock]
    exact hs
  | .mk stats (some es) _, env, h, hf => by
    simp only [frBlock, Bool.and_eq_true] at h
    have hs := aStats stats env h.1 hf
    have he := aExps es (bStats false env stats).2 h.2 hs.2.2
    simp only [rnBlock, bBlock, List.map_append]
    refine ⟨?_, hs.2.1, hs.2.2⟩
    rw [hs.1, hs.2.1, he]
termination_by b => sizeOf b
theorem aStats : (ss : List Stat) → (env : Env) → frStats n' ss = true → FreshEnv n' env →
    ((bStats false (renEnv d n' env) (rnStats d n' env ss)).1.map core = (bStats false env ss).1.map core ∧
     (bStats false (renEnv d n' env) (rnStats d n' env ss)).2 = renEnv d n' (bStats false env ss).2 ∧
     FreshEnv n' (bStats false env ss).2)
  | [], env, _, hf => by simp only [rnStats, bStats]; (refine ⟨?_, ?_, hf⟩ <;> first | rfl | trivial)
  | st :: r, env, h, hf => by
    simp only [frStats, Bool.and_eq_true] at h
    have h1 := aStat st env h.1 hf
    have h2 := aStats r (bStat false env st).2 h.2 h1.2.2
    simp only [rnStats, bStats, List.map_append]
    rw [h1.1, h1.2.1]
    exact ⟨by rw [h2.1], h2.2.1, h2.2.2⟩
termination_by ss => sizeOf ss
theorem aBlocks : (bs : List Block) → (env : Env) → frBlocks n' bs = true → FreshEnv n' env →
    (bBlocks false (renEnv d n' env) (rnBlocks d n' env bs)).map core = (bBlocks false env bs).map core
  | [], env, _, _ => by simp [rnBlocks, bBlocks]
  | b :: r, env, h, hf => by
    simp only [frBlocks, Bool.and_eq_true] at h
    simp only [rnBlocks, bBlocks, List.map_append, (aBlock b env h.1 hf).1, aBlocks r env h.2 hf]
termination_by bs => sizeOf bs
theorem aStat : (st : Stat) → (env : Env) → frStat n' st = true → FreshEnv n' env →
    ((bStat false (renEnv d n' env) (rnStat d n' env st)).1.map core = (bStat false env st).1.map core ∧
     (bStat false (renEnv d n' env) (rnStat d n' env st)).2 = renEnv d n' (bStat false env st).2 ∧
     FreshEnv n' (bStat false env st).2)
  | .brk, env, _, hf => by simp only [rnStat, bStat]; (refine ⟨?_, ?_, hf⟩ <;> first | rfl | trivial)
  | .label _ _, env, _, hf => by simp only [rnStat, bStat]; (refine ⟨?_, ?_, hf⟩ <;> first | rfl | trivial)
  | .goto_ _ _, env, _, hf => by simp only [rnStat, bStat]; (refine ⟨?_, ?_, hf⟩ <;> first | rfl | trivial)
  | .do_ b _, env, h, hf => by
    simp only [frStat] at h
    simp only [rnStat, bStat]
    exact ⟨(aBlock b env h hf).1, trivial, hf⟩
  | .while_ c b _, env, h, hf => by
    simp only [frStat, Bool.and_eq_true] at h
    simp only [rnStat, bStat, List.map_append, aExp c env h.1 hf, (aBlock b env h.2 hf).1]
    (refine ⟨?_, ?_, hf⟩ <;> first | rfl | trivial)
  | .repeat_ b c _, env, h, hf => by
    simp only [frStat, Bool.and_eq_true] at h
    have hb := aBlock b env h.1 hf
    have hc := aExp c (bBlock false env b).2 h.2 hb.2.2
    simp only [rnStat, bStat, List.map_append]
    rw [hb.1, hb.2.1, hc]
    (refine ⟨?_, ?_, hf⟩ <;> first | rfl | trivial)
  | .if_ cs bs _ _, env, h, hf => by
    simp only [frStat, Bool.and_eq_true] at h
    simp only [rnStat, bStat, List.map_append, aExps cs env h.1 hf, aBlocks bs env h.2 hf]
    (refine ⟨?_, ?_, hf⟩ <;> first | rfl | trivial)
  | .fornum v vl i lim st b _, env, h, hf => by
    simp only [frStat, Bool.and_eq_true, bne_iff_ne, ne_eq] at h
    have hb := aBlock b ((v, vl) :: env) h.2 (fresh_cons n' v vl env h.1.1.1.1 hf)
    simp only [rnStat, bStat, List.map_append, aExp i env h.1.1.1.2 hf, aExp lim env h.1.1.2 hf, aExp st env h.1.2 hf]
    rw [← renEnv_cons, hb.1]
    refine ⟨?_, trivial, hf⟩
    simp [core, declOcc]
  | .forin ns es b _, env, h, hf => by
    simp only [frStat, Bool.and_eq_true] at h
    have hb := aBlock b (pushParams env ns) h.2 (fresh_pushParams n' ns env h.1.1 hf)
    simp only [rnStat, bStat, List.map_append, aExps es env h.1.2 hf]
    rw [pushParams_ren, hb.1]
    refine ⟨?_, trivial, hf⟩
    simp [rnParams, core, declOcc]
  | .assign vars exps _, env, h, hf => by
    simp only [frStat, Bool.and_eq_true] at h
    simp only [rnStat, bStat, List.map_append, aExps exps env h.2 hf,
      aTargets vars env exps (rnExps d n' env exps) 0 h.1 hf]
    (refine ⟨?_, ?_, hf⟩ <;> first | rfl | trivial)
  | .local_ names exps sl, env, h, hf => by
    simp only [frStat, Bool.and_eq_true] at h
    simp only [rnStat, bStat, Bool.false_eq_true, if_false, List.map_append, aExps exps env h.2 hf]
    rw [core_localDecls d n' sl names exps (rnExps d n' env exps) (rnExps_length d n' env exps), pushNames_ren]
    exact ⟨rfl, rfl, fresh_pushNames n' names env h.1 hf⟩
  | .localfn x xl f _, env, h, hf => by
    simp only [frStat, Bool.and_eq_true, bne_iff_ne, ne_eq] at h
    have hfe := fresh_cons n' x xl env h.1 hf
    have hfn := aFunc f ((x, xl) :: env) h.2 hfe
    simp only [rnStat, bStat, List.map_append]
    rw [← renEnv_cons, hfn]
    refine ⟨?_, rfl, hfe⟩
    simp [core, declOcc]
  | .callstat e, env, h, hf => by
    simp only [frStat] at h
    simp only [rnStat, bStat, aExp e env h hf]
    (refine ⟨?_, ?_, hf⟩ <;> first | rfl | trivial)
termination_by st => sizeOf st
theorem aTargets : (vars : List Exp) → (env : Env) → (exps exps' : List Exp) → (i : Nat) →
    frExps n' vars = true → FreshEnv n' env →
    (bTargets false (renEnv d n' env) exps' i (rnExps d n' env vars)).map core = (bTargets false env exps i vars).map core
  | [], env, exps, exps', i, _, _ => by simp [rnExps, bTargets]
  | v :: r, env, exps, exps', i, h, hf => by
    simp only [frExps, Bool.and_eq_true] at h
    have hr := aTargets r env exps exps' (i + 1) h.2 hf
    have hv := aExp v env h.1 hf
    cases v with
    | name x l =>
      simp only [frExp, bne_iff_ne, ne_eq] at h
      simp only [rnExps, rnExp, bTargets, List.map, hr]
      congr 1
      have := core_use d n' env x l true h.1 hf
      simpa [core, use] using this
    | noKey => simp only [rnExps, rnExp, bTargets, List.map_append, hr] at hv ⊢; simp [bExp]
    | nil _ => simp only [rnExps, rnExp, bTargets, List.map_append, hr] at hv ⊢; simp [bExp]
    | tru _ => simp only [rnExps, rnExp, bTargets, List.map_append, hr] at hv ⊢; simp [bExp]
    | fls _ => simp only [rnExps, rnExp, bTargets, List.map_append, hr] at hv ⊢; simp [bExp]
    | vararg _ => simp only [rnExps, rnExp, bTargets, List.map_append, hr] at hv ⊢; simp [bExp]
    | int _ _ => simp only [rnExps, rnExp, bTargets, List.map_append, hr] at hv ⊢; simp [bExp]
    | flt _ _ => simp only [rnExps, rnExp, bTargets, List.map_append, hr] at hv ⊢; simp [bExp]
    | str _ _ => simp only [rnExps, rnExp, bTargets, List.map_append, hr] at hv ⊢; simp [bExp]
    | bad _ => simp only [rnExps, rnExp, bTargets, List.map_append, hr] at hv ⊢; simp [bExp]
    | unop _ _ _ => simp only [rnExps, rnExp, bTargets, List.map_append, hr] at hv ⊢; rw [hv]
    | binop _ _ _ _ => simp only [rnExps, rnExp, bTargets, List.map_append, hr] at hv ⊢; rw [hv]
    | table _ _ _ => simp only [rnExps, rnExp, bTargets, List.map_append, hr] at hv ⊢; rw [hv]
    | func _ => simp only [rnExps, rnExp, bTargets, List.map_append, hr] at hv ⊢; rw [hv]
    | parens _ _ => simp only [rnExps, rnExp, bTargets, List.map_append, hr] at hv ⊢; rw [hv]
    | index _ _ _ => simp only [rnExps, rnExp, bTargets, List.map_append, hr] at hv ⊢; rw [hv]
    | call _ _ _ _ => simp only [rnExps, rnExp, bTargets, List.map_append, hr] at hv ⊢; rw [hv]
termination_by vars => sizeOf vars
end

/-- ALPHA-RENAMING: renaming the local declared at `d` to a name that occurs nowhere in the chunk leaves
    every occurrence bound to the declaration it was bound to (same occurrences, same declaration
    Locs, same declaration / write flags) -/
theorem alpha_rename (b : Block) (h : frBlock n' b = true) :
    (bindChunk (rnBlock d n' [] b)).map core = (bindChunk b).map core := by
  unfold bindChunk
  have := (aBlock d n' b [] h (by intro p hp; cases hp)).1
  simpa [renEnv] using this

#print axioms alpha_rename

/-- premises satisfiable and the renaming non-trivial: `local x = 1; print(x)` with x ↦ z:
    the use is re-spelled z, the new name is fresh, and a use of another variable is left alone -/
example :
    let dx : Loc := ⟨1, 6, 1, 7⟩
    frBlock [122] (.mk [.local_ [([120], dx, 0)] [.int 1 ⟨1, 10, 1, 11⟩] ⟨1, 0, 1, 11⟩,
                         .callstat (.call (.name [112] ⟨2, 0, 2, 5⟩) none [.name [120] ⟨2, 6, 2, 7⟩] ⟨2, 0, 2, 8⟩)] none ⟨1, 0, 2, 8⟩) = true ∧
    rnExp dx [122] [([120], dx)] (.name [120] ⟨2, 6, 2, 7⟩) = .name [122] ⟨2, 6, 2, 7⟩ ∧
    rnExp dx [122] [([120], dx)] (.name [112] ⟨2, 0, 2, 5⟩) = .name [112] ⟨2, 0, 2, 5⟩ := by
  refine ⟨by simp [frBlock, frStats, frStat, frExps, frExp], by simp [rnExp, rnName, lookup], by simp [rnExp, rnName, lookup]⟩

end LuaHelper.C11
