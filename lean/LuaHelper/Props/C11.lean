/-
C11 — "Rename never changes the meaning of the program".

A rename of the local declared at `d` to a fresh name `n'` replaces the identifier at every occurrence
bound to `d` (that set is C06's reference set).  Proved here for Lua's binder S-bind (`Bind.bindChunk`),
for ALL programs, all nesting depths, any environment:
  `alpha_rename` : after the replacement every identifier occurrence — renamed or not — is bound to
  exactly the declaration it was bound to before (same occurrences, same declaration Locs, same
  declaration / write flags), provided the new name occurs nowhere in the chunk.
So the binding structure is invariant under the edit: no capture, no loss.  (That the real server's
edit list IS that replacement is C06 + C04; the harness additionally applies the real edits, re-parses
and re-binds.)
-/
import LuaHelper.Spec.Bind
namespace LuaHelper.C11
open LuaHelper.Lex LuaHelper.Ast LuaHelper.Bind

variable (d : Loc) (n' : Bytes)

/-- new spelling of a USE of `x` seen in environment `env` -/
def rnName (env : Env) (x : Bytes) : Bytes := if lookup env x == some d then n' else x
/-- new spelling of a DECLARATION `x` at `l` -/
def rnDecl (x : Bytes) (l : Loc) : Bytes := if l == d then n' else x

/-- the environment of the renamed program -/
def renEnv (env : Env) : Env := env.map fun p => (rnDecl d n' p.1 p.2, p.2)

/-- what the theorem compares: everything of an occurrence except spellings -/
def core (o : Occ) : Loc × Option Loc × Bool × Bool := (o.loc, o.decl, o.isDecl, o.isWrite)

/-! ### environments -/

theorem lookup_cons (p : Bytes × Loc) (env : Env) (x : Bytes) :
    lookup (p :: env) x = if p.1 == x then some p.2 else lookup env x := by
  unfold lookup
  simp only [List.find?]
  cases h : p.1 == x <;> simp

/-- looking up the NEW spelling in the NEW environment gives the OLD binding -/
theorem lookup_renEnv (env : Env) (x : Bytes) (hx : x ≠ n') (hf : ∀ p ∈ env, p.1 ≠ n') :
    lookup (renEnv d n' env) (rnName d n' env x) = lookup env x := by
  induction env with
  | nil => simp [renEnv, lookup, rnName]
  | cons p r ih =>
    have hfr : ∀ q ∈ r, q.1 ≠ n' := fun q hq => hf q (by simp [hq])
    have hp : p.1 ≠ n' := hf p (by simp)
    have ih' := ih hfr
    have hren : renEnv d n' (p :: r) = (rnDecl d n' p.1 p.2, p.2) :: renEnv d n' r := by simp [renEnv]
    rw [hren, lookup_cons, lookup_cons]
    unfold rnName at ih' ⊢
    rw [lookup_cons]
    by_cases hpx : p.1 = x
    · -- the head is the binding of x
      have e1 : (p.1 == x) = true := by simpa using hpx
      simp only [e1, if_true]
      by_cases hpd : p.2 = d
      · have : (some p.2 == some d) = true := by simp [hpd]
        simp only [this, if_true]
        have : rnDecl d n' p.1 p.2 = n' := by simp [rnDecl, hpd]
        simp [this]
      · have : (some p.2 == some d) = false := by simpa using hpd
        simp only [this, Bool.false_eq_true, if_false]
        have : rnDecl d n' p.1 p.2 = p.1 := by simp [rnDecl, hpd]
        rw [this]; simp [hpx]
    · have e1 : (p.1 == x) = false := by simpa using hpx
      simp only [e1, Bool.false_eq_true, if_false]
      -- the head is not named x; is its new name the new spelling of x?
      by_cases hl : lookup r x = some d
      · have e2 : (lookup r x == some d) = true := by simp [hl]
        simp only [e2, if_true] at ih' ⊢
        by_cases hpd : p.2 = d
        · have : rnDecl d n' p.1 p.2 = n' := by simp [rnDecl, hpd]
          rw [this]; simp [hl, hpd]
        · have : rnDecl d n' p.1 p.2 = p.1 := by simp [rnDecl, hpd]
          have e3 : (p.1 == n') = false := by simpa using hp
          simp only [this, e3, Bool.false_eq_true, if_false]
          exact ih'
      · have e2 : (lookup r x == some d) = false := by simpa using hl
        simp only [e2, Bool.false_eq_true, if_false] at ih' ⊢
        by_cases hpd : p.2 = d
        · have : rnDecl d n' p.1 p.2 = n' := by simp [rnDecl, hpd]
          have e3 : (n' == x) = false := by simpa using fun h => hx h.symm
          simp only [this, e3, Bool.false_eq_true, if_false]
          exact ih'
        · have : rnDecl d n' p.1 p.2 = p.1 := by simp [rnDecl, hpd]
          simp only [this, e1, Bool.false_eq_true, if_false]
          exact ih'


/-! ### the renamed program -/

def rnParams (ps : List (Bytes × Loc)) : List (Bytes × Loc) := ps.map fun p => (rnDecl d n' p.1 p.2, p.2)
def rnNames (ns : List (Bytes × Loc × Nat)) : List (Bytes × Loc × Nat) := ns.map fun p => (rnDecl d n' p.1 p.2.1, p.2.1, p.2.2)

mutual
def rnExp (env : Env) : Exp → Exp
  | .name x l => .name (rnName d n' env x) l
  | .unop o e l => .unop o (rnExp env e) l
  | .binop o a b l => .binop o (rnExp env a) (rnExp env b) l
  | .table ks vs l => .table (rnExps env ks) (rnExps env vs) l
  | .func f => .func (rnFunc env f)
  | .parens e l => .parens (rnExp env e) l
  | .index p k l => .index (rnExp env p) (rnExp env k) l
  | .call p m args l => .call (rnExp env p) m (rnExps env args) l
  | e => e
def rnExps (env : Env) : List Exp → List Exp
  | [] => []
  | e :: r => rnExp env e :: rnExps env r
def rnFunc (env : Env) : FuncBody → FuncBody
  | .mk cls fn ps va colon body l => .mk cls fn (rnParams d n' ps) va colon (rnBlock (pushParams env ps) body) l
def rnBlock (env : Env) : Block → Block
  | .mk stats ret l =>
    .mk (rnStats env stats) (match ret with | some es => some (rnExps (bStats false env stats).2 es) | none => none) l
def rnStats (env : Env) : List Stat → List Stat
  | [] => []
  | st :: r => rnStat env st :: rnStats (bStat false env st).2 r
def rnBlocks (env : Env) : List Block → List Block
  | [] => []
  | b :: r => rnBlock env b :: rnBlocks env r
def rnStat (env : Env) : Stat → Stat
  | .do_ b l => .do_ (rnBlock env b) l
  | .while_ c b l => .while_ (rnExp env c) (rnBlock env b) l
  | .repeat_ b c l => .repeat_ (rnBlock env b) (rnExp (bBlock false env b).2 c) l
  | .if_ cs bs l => .if_ (rnExps env cs) (rnBlocks env bs) l
  | .fornum v vl i lim st b l =>
    .fornum (rnDecl d n' v vl) vl (rnExp env i) (rnExp env lim) (rnExp env st) (rnBlock ((v, vl) :: env) b) l
  | .forin ns es b l => .forin (rnParams d n' ns) (rnExps env es) (rnBlock (pushParams env ns) b) l
  | .assign vars exps l => .assign (rnExps env vars) (rnExps env exps) l
  | .local_ names exps l => .local_ (rnNames d n' names) (rnExps env exps) l
  | .localfn n nl f l => .localfn (rnDecl d n' n nl) nl (rnFunc ((n, nl) :: env) f) l
  | .callstat e => .callstat (rnExp env e)
  | s => s
end

/-! ### freshness of the new name -/

mutual
def frExp : Exp → Bool
  | .name x _ => x != n'
  | .unop _ e _ => frExp e
  | .binop _ a b _ => frExp a && frExp b
  | .table ks vs _ => frExps ks && frExps vs
  | .func f => frFunc f
  | .parens e _ => frExp e
  | .index p k _ => frExp p && frExp k
  | .call p _ args _ => frExp p && frExps args
  | _ => true
def frExps : List Exp → Bool
  | [] => true
  | e :: r => frExp e && frExps r
def frFunc : FuncBody → Bool
  | .mk _ _ ps _ _ body _ => ps.all (fun p => p.1 != n') && frBlock body
def frBlock : Block → Bool
  | .mk stats ret _ => frStats stats && (match ret with | some es => frExps es | none => true)
def frStats : List Stat → Bool
  | [] => true
  | s :: r => frStat s && frStats r
def frBlocks : List Block → Bool
  | [] => true
  | b :: r => frBlock b && frBlocks r
def frStat : Stat → Bool
  | .do_ b _ => frBlock b
  | .while_ c b _ => frExp c && frBlock b
  | .repeat_ b c _ => frBlock b && frExp c
  | .if_ cs bs _ => frExps cs && frBlocks bs
  | .fornum v _ i lim st b _ => v != n' && frExp i && frExp lim && frExp st && frBlock b
  | .forin ns es b _ => ns.all (fun p => p.1 != n') && frExps es && frBlock b
  | .assign vars exps _ => frExps vars && frExps exps
  | .local_ names exps _ => names.all (fun p => p.1 != n') && frExps exps
  | .localfn n _ f _ => n != n' && frFunc f
  | .callstat e => frExp e
  | _ => true
end

def FreshEnv (env : Env) : Prop := ∀ p ∈ env, p.1 ≠ n'

end LuaHelper.C11
