/-
C02 — "The server's copy of an open document always equals the client's text".
Property theorems only (helper lemmas: Proofs/Text.lean).  Model: Model/Text.lean (follows
lspcommon/file_cache.go, lspcommon/util.go, textdocument_file_request.go); spec: Spec/Lsp.lean.

Main statement: outside the three known-finding classes (`TextFindings.bad`: an astral character
before the position on its line; a lone CR before the position; character beyond end of line) the
model's position→offset scans, its splice and its whole open/change/save/close state machine
coincide with the LSP text model, for every well-formed UTF-8 document and every history.
Inside each class a concrete witness shows the model (= the code, by the correspondence run)
deviating: those are the recorded findings C02-K1..K3.
-/
import LuaHelper.Proofs.Text
namespace LuaHelper.C02
open LuaHelper.Text LuaHelper.Lsp LuaHelper.TextFindings LuaHelper.TextProofs

/-- a well-formed UTF-8 document (what a conformant client holds) -/
def WF (doc : Bytes) : Prop := ∃ cs : List Ch, (∀ x ∈ cs, x.wf) ∧ canon cs ∧ doc = encode cs

/-- the position is outside every finding class (decidable; evaluated by the driver as `K[]`) -/
def okPos (doc : Bytes) (p : Pos) : Prop := bad (decode doc) p.line p.ch = false

/-- position → offset used by every request (`OffsetForPosition`) agrees with LSP. -/
theorem offset_refines (doc : Bytes) (p : Pos) (hwf : WF doc) (hk : okPos doc p) :
    offsetForPosition doc p = specOffset doc p := by
  obtain ⟨cs, hw, hc, rfl⟩ := hwf
  unfold okPos at hk
  rw [decode_encode cs hw hc] at hk
  unfold offsetForPosition specOffset
  rw [decode_encode cs hw hc]
  have := scan1_spec cs hw p.line p.ch 0 0 0 hk
  have ht : target 0 0 p.line p.ch = p := by
    cases p with
    | mk l c => simp only [target, Nat.zero_add]; by_cases h : l = 0 <;> simp [h]
  rw [ht] at this
  exact this
#print axioms offset_refines

/-- (start, end) → offsets used by `ApplyContentChanges` agrees with LSP. -/
theorem range_refines (doc : Bytes) (sp ep : Pos) (hwf : WF doc) (h1 : okPos doc sp)
    (h2 : okPos doc ep) (hle : le2 sp.line sp.ch ep.line ep.ch) :
    offsetForStartAndEnd doc sp ep =
      (match specOffset doc sp, specOffset doc ep with
       | some s, some e => OffRes.ok s e
       | _, _ => OffRes.err) := by
  obtain ⟨cs, hw, hc, rfl⟩ := hwf
  unfold okPos at h1 h2
  rw [decode_encode cs hw hc] at h1 h2
  unfold offsetForStartAndEnd specOffset
  rw [decode_encode cs hw hc]
  have := scan_spec cs hw sp.line sp.ch ep.line ep.ch 0 0 0 h1 h2 hle
  have ht : ∀ p : Pos, target 0 0 p.line p.ch = p := by
    intro p
    cases p with
    | mk l c => simp only [target, Nat.zero_add]; by_cases h : l = 0 <;> simp [h]
  rw [ht, ht] at this
  exact this
#print axioms range_refines

/-- every change of a batch is conformant and outside the finding classes, relative to the text
    the *client* holds when it is applied -/
def goodBatch : Bytes → List Change → Prop
  | _, [] => True
  | doc, ch :: more =>
    match ch.range with
    | none => goodBatch ch.text more
    | some (sp, ep) =>
      WF doc ∧ okPos doc sp ∧ okPos doc ep ∧ le2 sp.line sp.ch ep.line ep.ch ∧
      ∀ d, specApply doc [ch] = some d → goodBatch d more

/-- `ApplyContentChanges` = the LSP splice, for whole batches (later ranges refer to the text after
    the earlier changes). -/
theorem apply_refines (chs : List Change) : ∀ (doc : Bytes), goodBatch doc chs →
    applyChanges doc chs = specApply doc chs := by
  induction chs with
  | nil => intro doc _; simp [applyChanges, specApply]
  | cons ch more ih =>
    intro doc hg
    unfold goodBatch at hg
    cases hr : ch.range with
    | none =>
      simp only [hr] at hg
      simp only [applyChanges, specApply, hr]
      exact ih _ hg
    | some se =>
      obtain ⟨sp, ep⟩ := se
      simp only [hr] at hg
      obtain ⟨hwf, h1, h2, hle, hnext⟩ := hg
      simp only [applyChanges, specApply, hr]
      rw [range_refines doc sp ep hwf h1 h2 hle]
      cases hs : specOffset doc sp with
      | none => simp
      | some s =>
        cases he : specOffset doc ep with
        | none => simp
        | some e =>
          simp only
          have hb : e ≤ doc.length := by
            obtain ⟨cs, hw, hc, rfl⟩ := hwf
            unfold specOffset at he
            rw [decode_encode cs hw hc] at he
            have := spec_bounds cs _ _ _ _ he
            omega
          by_cases hes : e < s
          · simp [hes]
          · have hn : ¬ (e > doc.length ∨ e < s) := by omega
            have hn' : ¬ (e > doc.length) := by omega
            simp only [hn', hes, if_false, or_false]
            apply ih
            apply hnext
            simp [specApply, hr, hs, he, hes]
#print axioms apply_refines

/-- conformance of a whole history, relative to the client's documents -/
def goodHist : Cache → List Op → Prop
  | _, [] => True
  | c, op :: rest =>
    (match op with
     | .chg u chs => (match c.get u with | some doc => goodBatch doc chs | none => True)
     | _ => True) ∧ goodHist (specStep c op) rest

/-- After any sequence of didOpen / didChange / didSave / didClose, the server's cache (model) is
    the client's text (spec) — the first sentence of the property. -/
theorem history_refines (ops : List Op) : ∀ (c : Cache), goodHist c ops →
    ops.foldl step c = ops.foldl specStep c := by
  induction ops with
  | nil => intro c _; rfl
  | cons op rest ih =>
    intro c hg
    obtain ⟨hop, hrest⟩ := hg
    have hstep : step c op = specStep c op := by
      cases op with
      | opn u t => rfl
      | sav u t => rfl
      | cls u => rfl
      | chg u chs =>
        simp only [step, specStep]
        cases hget : c.get u with
        | none => rfl
        | some doc =>
          simp only [hget] at hop ⊢
          simp only [apply_refines chs doc hop]
          cases specApply doc chs <;> rfl
    simp only [List.foldl_cons, hstep]
    exact ih _ hrest

theorem history_refines_run (ops : List Op) (h : goodHist [] ops) : run ops = specRun ops :=
  history_refines ops [] h
#print axioms history_refines
#print axioms history_refines_run

/-! ### non-vacuity: the hypotheses are met by a non-trivial history -/

def demoDoc : Bytes := encode [.ascii 97, .two 0xC3 0xA9, .crlf, .three 0xE4 0xB8 0xAD, .ascii 98]

theorem demo_wf : WF demoDoc :=
  ⟨[.ascii 97, .two 0xC3 0xA9, .crlf, .three 0xE4 0xB8 0xAD, .ascii 98], by decide, by simp [canon], rfl⟩
#print axioms demo_wf

/-! ### the finding classes are real: in each, the model leaves the spec (second sentence of the
    property: "must not leave it silently working on stale text") -/

/-- K1: `😀a`, position (0,2) is before `a` (UTF-16) — the model answers the end of the document. -/
theorem K1_astral_witness :
    offsetForPosition [0xF0, 0x9F, 0x98, 0x80, 97] ⟨0, 2⟩ ≠ specOffset [0xF0, 0x9F, 0x98, 0x80, 97] ⟨0, 2⟩ := by
  simp [offsetForPosition, specOffset, scan1, stepLen, leadOnes, decode, specOffsetCh, Ch.isEol, Ch.units, Ch.bytes]
#print axioms K1_astral_witness

/-- K2: `a\rb`, position (1,0) is before `b` — the model rejects it. -/
theorem K2_cr_witness :
    offsetForPosition [97, 13, 98] ⟨1, 0⟩ = none ∧ specOffset [97, 13, 98] ⟨1, 0⟩ = some 2 := by
  simp [offsetForPosition, specOffset, scan1, stepLen, decode, specOffsetCh, Ch.isEol, Ch.units, Ch.bytes]
#print axioms K2_cr_witness

/-- K3: `a\nb`, position (0,5) must clamp to the end of line 0 — the model rejects it, and the
    change handler then keeps the old text (stale). -/
theorem K3_beyond_witness :
    offsetForPosition [97, 10, 98] ⟨0, 5⟩ = none ∧ specOffset [97, 10, 98] ⟨0, 5⟩ = some 1 ∧
    run [.opn 0 [97, 10, 98], .chg 0 [⟨some (⟨0, 5⟩, ⟨0, 5⟩), [120]⟩]] = [(0, [97, 10, 98])] ∧
    specRun [.opn 0 [97, 10, 98], .chg 0 [⟨some (⟨0, 5⟩, ⟨0, 5⟩), [120]⟩]] = [(0, [97, 120, 10, 98])] := by
  refine ⟨?_, ?_, ?_, ?_⟩
  · simp [offsetForPosition, scan1, stepLen]
  · simp [specOffset, decode, specOffsetCh, Ch.isEol, Ch.units, Ch.bytes]
  · simp [run, step, Cache.get, Cache.set, applyChanges, offsetForStartAndEnd, scan, stepLen]
  · simp [specRun, specStep, Cache.get, Cache.set, specApply, specOffset, decode, specOffsetCh, Ch.isEol, Ch.units, Ch.bytes]
#print axioms K3_beyond_witness

end LuaHelper.C02
