/-
C02 — "The server's copy of an open document always equals the client's text".
Property theorems only (helper lemmas: Proofs/Text.lean).  Model: Model/Text.lean (follows
lspcommon/util.go OffsetForPosition, lspcommon/file_cache.go, textdocument_file_request.go); spec: Spec/Lsp.lean.

Main statement (after the repair that made the position mapping follow LSP): for EVERY well-formed UTF-8
document, EVERY position and EVERY history, the model's position → offset mapping, its splice and its whole
open / change / save / close state machine coincide with the LSP text model — lines ended by LF, CR LF or a
lone CR, characters counted in UTF-16 code units (an astral character is two), a character beyond the end
of its line clamped to the line end, a position inside a surrogate pair clamped back; only a line that does
not exist is an error, and then the change is not applied by either side.
The three former finding classes (astral characters, lone CR, character beyond the end of line) are now
theorems: `astral_counts_two`, `lone_cr_ends_line`, `beyond_end_clamps`.
-/
import LuaHelper.Proofs.Text
namespace LuaHelper.C02
open LuaHelper.Text LuaHelper.Lsp LuaHelper.TextProofs

instance (c : Ch) : Decidable (Ch.cont c) := by cases c <;> unfold Ch.cont <;> exact inferInstance

/-- a well-formed UTF-8 document (what a conformant client holds) -/
def WF (doc : Bytes) : Prop :=
  ∃ cs : List Ch, (∀ x ∈ cs, x.wf) ∧ (∀ x ∈ cs, Ch.cont x) ∧ canon cs ∧ doc = encode cs

/-- position → offset used by every request and every edit (`OffsetForPosition`) agrees with LSP, for
    every position of every well-formed document. -/
theorem offset_refines (doc : Bytes) (p : Pos) (hwf : WF doc) :
    offsetForPosition doc p = specOffset doc p := by
  obtain ⟨cs, hw, hco, hc, rfl⟩ := hwf
  unfold specOffset
  rw [decode_encode cs hw hc]
  exact position_spec cs hw hco hc p
#print axioms offset_refines

/-- (start, end) → offsets used by `ApplyContentChanges` agrees with LSP. -/
theorem range_refines (doc : Bytes) (sp ep : Pos) (hwf : WF doc) :
    offsetForStartAndEnd doc sp ep =
      (match specOffset doc sp, specOffset doc ep with
       | some s, some e => if e < s then OffRes.err else OffRes.ok s e
       | _, _ => OffRes.err) := by
  unfold offsetForStartAndEnd
  rw [offset_refines doc sp hwf, offset_refines doc ep hwf]
  cases specOffset doc sp <;> cases specOffset doc ep <;> rfl
#print axioms range_refines

/-- every ranged change of a batch is applied to a well-formed text (the text the *client* holds when it is
    applied) -/
def goodBatch : Bytes → List Change → Prop
  | _, [] => True
  | doc, ch :: more =>
    match ch.range with
    | none => goodBatch ch.text more
    | some _ => WF doc ∧ ∀ d, specApply doc [ch] = some d → goodBatch d more

/-- `ApplyContentChanges` = the LSP splice, for whole batches (later ranges refer to the text after the
    earlier changes), whatever the positions are. -/
theorem apply_refines (chs : List Change) : ∀ (doc : Bytes), goodBatch doc chs →
    applyChanges doc chs = specApply doc chs := by
  induction chs with
  | nil => intro doc _; simp [applyChanges, specApply]
  | cons ch more ih =>
    intro doc hg
    unfold goodBatch at hg
    cases hr : ch.range with
    | none =>
      simp only [hr] at hg
      simp only [applyChanges, specApply, hr]
      exact ih _ hg
    | some se =>
      obtain ⟨sp, ep⟩ := se
      simp only [hr] at hg
      obtain ⟨hwf, hnext⟩ := hg
      simp only [applyChanges, specApply, hr]
      rw [range_refines doc sp ep hwf]
      cases hs : specOffset doc sp with
      | none => simp
      | some s =>
        cases he : specOffset doc ep with
        | none => simp
        | some e =>
          simp only
          have hb : e ≤ doc.length := by
            obtain ⟨cs, hw, _, hc, rfl⟩ := hwf
            unfold specOffset at he
            rw [decode_encode cs hw hc] at he
            have := spec_bounds cs _ _ _ _ he
            omega
          by_cases hes : e < s
          · simp [hes]
          · have hn' : ¬ (e > doc.length) := by omega
            simp only [hn', hes, if_false, or_false]
            apply ih
            apply hnext
            simp [specApply, hr, hs, he, hes]
#print axioms apply_refines

/-- conformance of a whole history, relative to the client's documents -/
def goodHist : Cache → List Op → Prop
  | _, [] => True
  | c, op :: rest =>
    (match op with
     | .chg u chs => (match c.get u with | some doc => goodBatch doc chs | none => True)
     | _ => True) ∧ goodHist (specStep c op) rest

/-- After any sequence of didOpen / didChange / didSave / didClose, the server's cache (model) is
    the client's text (spec) — the first sentence of the property. -/
theorem history_refines (ops : List Op) : ∀ (c : Cache), goodHist c ops →
    ops.foldl step c = ops.foldl specStep c := by
  induction ops with
  | nil => intro c _; rfl
  | cons op rest ih =>
    intro c hg
    obtain ⟨hop, hrest⟩ := hg
    have hstep : step c op = specStep c op := by
      cases op with
      | opn u t => rfl
      | sav u t => rfl
      | cls u => rfl
      | chg u chs =>
        simp only [step, specStep]
        cases hget : c.get u with
        | none => rfl
        | some doc =>
          simp only [hget] at hop ⊢
          simp only [apply_refines chs doc hop]
          cases specApply doc chs <;> rfl
    simp only [List.foldl_cons, hstep]
    exact ih _ hrest

theorem history_refines_run (ops : List Op) (h : goodHist [] ops) : run ops = specRun ops :=
  history_refines ops [] h
#print axioms history_refines
#print axioms history_refines_run

/-! ### non-vacuity: the hypotheses are met by a non-trivial document -/

def demoChars : List Ch := [.ascii 97, .two 0xC3 0xA9, .crlf, .three 0xE4 0xB8 0xAD, .four 0xF0 0x9F 0x98 0x80, .cr, .ascii 98]
def demoDoc : Bytes := encode demoChars

theorem demo_wf : WF demoDoc :=
  ⟨demoChars, by decide, by decide, by simp [demoChars, canon], rfl⟩
#print axioms demo_wf

/-! ### the three former finding classes, now instances of `offset_refines` -/

/-- `😀a`: position (0,2) is the offset of `a` — the astral character counts as two UTF-16 units -/
theorem astral_counts_two :
    offsetForPosition (encode [.four 0xF0 0x9F 0x98 0x80, .ascii 97]) ⟨0, 2⟩ = some 4 := by
  rw [position_spec _ (by decide) (by decide) (by simp [canon])]
  decide
#print axioms astral_counts_two

/-- `a\rb`: position (1,0) is the offset of `b` — a lone CR ends a line -/
theorem lone_cr_ends_line :
    offsetForPosition (encode [.ascii 97, .cr, .ascii 98]) ⟨1, 0⟩ = some 2 := by
  rw [position_spec _ (by decide) (by decide) (by simp [canon])]
  decide
#print axioms lone_cr_ends_line

/-- `a\nb`: position (0,5) is clamped to the end of line 0 -/
theorem beyond_end_clamps :
    offsetForPosition (encode [.ascii 97, .lf, .ascii 98]) ⟨0, 5⟩ = some 1 := by
  rw [position_spec _ (by decide) (by decide) (by simp [canon])]
  decide
#print axioms beyond_end_clamps

/-- a line that does not exist is the only error, on both sides -/
theorem missing_line_is_error :
    offsetForPosition (encode [.ascii 97, .lf, .ascii 98]) ⟨2, 0⟩ = none := by
  rw [position_spec _ (by decide) (by decide) (by simp [canon])]
  decide
#print axioms missing_line_is_error

end LuaHelper.C02
