/-
C17 — "Each configuration switch silences exactly the diagnostics it names".
Model: Model/Conf.lean (global_conf.go handleNotJSONCheckFlag / ReadConfig ignore part /
IsIgnoreErrorFile / IsSpecialCheck, file_result.go InsertRelateError); spec: Spec/Conf.lean.
Tables `Gen.*` are regenerated from /repo on every run.
-/
import LuaHelper.Model.Conf
import LuaHelper.Spec.Conf
import LuaHelper.Gen.Flags
import LuaHelper.Gen.Gates
import LuaHelper.Gen.Sites
namespace LuaHelper.C17
open LuaHelper.Conf LuaHelper.ConfSpec

/-! ### regenerated tables say what the documentation says -/

/-- The positional flag lists built for `initialize` and for `didChangeConfiguration` are the same
    list, slot 0 is the master switch, and slot `t` is the documented switch of diagnostic type `t`
    whose Go constant has value `t`, for every t = 1..25. -/
theorem flag_table :
    Gen.initFlagFields = Gen.changeFlagFields ∧
    Gen.initFlagFields.length = 26 ∧
    Gen.initFlagFields[0]? = some "AllEnable" ∧
    (∀ e ∈ switchOf, Gen.initFlagFields[e.1]? = some e.2.1 ∧ (e.2.2, e.1) ∈ Gen.errTypes) ∧
    switchOf.map (·.1) = (List.range 26).filter (· ≥ 1) := by
  decide
#print axioms flag_table

/-- every client flag is a JSON field of `initializationOptions` under its own name -/
theorem flag_json_names : ∀ f ∈ Gen.initFlagFields, (f, f) ∈ Gen.initOptionJson := by
  decide
#print axioms flag_json_names

/-- the two type loops of handleNotJSONCheckFlag run over 1 ≤ i < CheckErrorMax = 30 -/
theorem flag_loop_bounds :
    Gen.flagLoopBounds = ["CheckErrorSyntax<CheckErrorMax", "CheckErrorSyntax<CheckErrorMax"] ∧
    ("CheckErrorSyntax", 1) ∈ Gen.errTypes ∧ ("CheckErrorMax", errMax) ∈ Gen.errTypes := by
  decide
#print axioms flag_loop_bounds

/-- the recording choke point consults the configuration -/
theorem choke_point_guarded : Gen.chokeGuarded = true := by decide
#print axioms choke_point_guarded

/-- Every function that consults the configuration *before* producing diagnostics tests the type
    of the only diagnostics it produces — except the reviewed sites, where the test sits inside the
    function and guards only its own type (read in the source): cgBinopExp (float-eq branch only),
    cgAssignStat (self-assign branch only), checkLocVarCall (skips only if types 4 AND 17 are off). -/
def reviewedGateSites : List (String × String) :=
  [("check/analysis/analysis_exp.go", "cgBinopExp"), ("check/analysis/analysis_stat.go", "cgAssignStat"),
   ("check/analysis/analysis_check_loc_var.go", "checkLocVarCall")]

theorem gates_guard_own_type :
    ∀ g ∈ Gen.gateFuncs, (∀ t ∈ g.2.2.2, t ∈ g.2.2.1) ∨ (g.1, g.2.1) ∈ reviewedGateSites := by
  decide
#print axioms gates_guard_own_type

theorem checkLocVarCall_gate :
    ("check/analysis/analysis_check_loc_var.go", "checkLocVarCall",
      ["CheckErrorLocalNoUse", "CheckErrorNoUseAssign"], ["CheckErrorLocalNoUse", "CheckErrorNoUseAssign"])
      ∈ Gen.gateFuncs := by decide
#print axioms checkLocVarCall_gate

/-! ### the flag → ignore-map construction -/

theorem mem_range_filter (n ty : Nat) (p : Nat → Bool) :
    ((List.range n).filter p).contains ty = (decide (ty < n) && p ty) := by
  by_cases h : ty < n <;> by_cases hp : p ty = true <;> simp [List.contains_iff_mem, h, hp]

#print axioms mem_range_filter

/-- `handleNotJSONCheckFlag` with the master switch on ignores type `ty` (1 ≤ ty ≤ 25) iff the flag
    in slot `ty` is off. -/
theorem ignore_map_from_flags (prev : Conf) (flags : List Bool) (pats : List String) (ty : Nat)
    (hlen : flags.length = 26) (hm : flags[0]? = some true) (h1 : 1 ≤ ty) (h25 : ty ≤ 25) :
    (fromFlags prev flags pats).ignoreTypes.contains ty = !(flags.getD ty true) := by
  cases flags with
  | nil => simp at hlen
  | cons m rest =>
    have : m = true := by simpa using hm
    subst this
    simp only [fromFlags, Bool.not_true, Bool.false_eq_true, if_false]
    rw [mem_range_filter]
    have h30 : ty < errMax := by unfold errMax; omega
    have hgt : ¬ (ty > (true :: rest).length - 1) := by rw [hlen]; omega
    simp [h30, h1]
    intro hlt; simp at hlen; omega
#print axioms ignore_map_from_flags

theorem find_self : ∀ w ∈ switchOf, switchOf.find? (·.1 == w.1) = some w := by decide
#print axioms find_self
theorem switch_bounds : ∀ e ∈ switchOf, 1 ≤ e.1 ∧ e.1 ≤ 25 := by decide
#print axioms switch_bounds
theorem switch_not_master : ∀ e ∈ switchOf, e.2.1 ≠ "AllEnable" := by decide
#print axioms switch_not_master

/-- the flags list the Go code builds from the client settings -/
def flagsOf (s : Settings) : List Bool := Gen.initFlagFields.map s.val

theorem any_partition (l : List String) (p q : String → Bool) :
    ((l.filter (fun x => !q x) ++ ["server/meta"]).any p || (l.filter q).any p) =
      (l ++ ["server/meta"]).any p := by
  induction l with
  | nil => simp
  | cons a r ih =>
    by_cases hq : q a = true
    · simp only [List.filter_cons, hq, Bool.not_true, Bool.false_eq_true, if_false, if_true,
        List.any_cons, List.cons_append]
      rw [← ih]
      cases p a <;> simp [Bool.or_comm, Bool.or_left_comm]
    · simp only [List.filter_cons, hq, Bool.not_false, if_true, Bool.false_eq_true, if_false,
        List.any_cons, List.cons_append]
      rw [← ih]
      cases p a <;> simp [Bool.or_assoc]

#print axioms any_partition

/-- **Main theorem (client settings).** For every assignment of the 26 switches, every ignore
    pattern list, every file and every diagnostic type 1..25: the diagnostic is dropped at the choke
    point iff the documented semantics says it is not shown. -/
theorem flags_exact (s : Settings) (prev : Conf) (rx : String → String → Bool) (file : String)
    (ty : Nat) (h1 : 1 ≤ ty) (h25 : ty ≤ 25) (hprev : prev.fileTypeRules = []) :
    isIgnored (fromFlags prev (flagsOf s) s.ignoreErr) rx file ty = !shown s rx file ty := by
  obtain ⟨_, hlen, h0, hsw, hdom⟩ := flag_table
  have hflen : (flagsOf s).length = 26 := by simp [flagsOf, hlen]
  -- the switch documented for `ty`
  have hmem : ty ∈ switchOf.map (·.1) := by
    rw [hdom]; simp; omega
  obtain ⟨e, he, hety⟩ := List.mem_map.mp hmem
  have hfind : switchOf.find? (·.1 == ty) = some e := by
    rw [← hety]; exact find_self e he
  obtain ⟨hslot, _⟩ := hsw e he
  rw [hety] at hslot
  have hget : (flagsOf s).getD ty true = s.val e.2.1 := by
    simp [flagsOf, List.getD, hslot]
  by_cases hmaster : s.val "AllEnable" = true
  · have hm : (flagsOf s)[0]? = some true := by simp [flagsOf, h0, hmaster]
    have hig := ignore_map_from_flags prev (flagsOf s) s.ignoreErr ty hflen hm h1 h25
    have hshow : (fromFlags prev (flagsOf s) s.ignoreErr).showWarn = true := by
      cases hf : flagsOf s with
      | nil => simp [hf] at hflen
      | cons m rest =>
        have : m = true := by rw [hf] at hm; simpa using hm
        simp [fromFlags, this]
    have hdirs : (fromFlags prev (flagsOf s) s.ignoreErr).errDirs =
        s.ignoreErr.filter (fun p => !isLuaSuffix p) ++ ["server/meta"] := by
      cases hf : flagsOf s with
      | nil => simp [fromFlags]
      | cons m rest => cases m <;> simp [fromFlags]
    have hfiles : (fromFlags prev (flagsOf s) s.ignoreErr).errFiles = s.ignoreErr.filter isLuaSuffix := by
      cases hf : flagsOf s with
      | nil => simp [fromFlags]
      | cons m rest => cases m <;> simp [fromFlags]
    have hrules : (fromFlags prev (flagsOf s) s.ignoreErr).fileTypeRules = [] := by
      cases hf : flagsOf s with
      | nil => simp [fromFlags, hprev]
      | cons m rest => cases m <;> simp [fromFlags, hprev]
    unfold isIgnored shown
    rw [hshow, hig, hget, hdirs, hfiles, hrules, hfind, hmaster]
    have hp := any_partition s.ignoreErr (patMatch rx file) isLuaSuffix
    simp only [Bool.not_true, Bool.false_or, List.any_nil, Bool.or_false, Bool.true_and]
    rw [Bool.or_assoc, hp]
    cases s.val e.2.1 <;> simp
  · have hmf : s.val "AllEnable" = false := by simpa using hmaster
    have hshow : (fromFlags prev (flagsOf s) s.ignoreErr).showWarn = false := by
      cases hf : flagsOf s with
      | nil => simp [hf] at hflen
      | cons m rest =>
        have hm0 : (flagsOf s)[0]? = some false := by simp [flagsOf, h0, hmf]
        have : m = false := by rw [hf] at hm0; simpa using hm0
        simp [fromFlags, this]
    unfold isIgnored shown
    simp [hshow, hmf]
#print axioms flags_exact

/-- What is recorded under settings `s` is exactly the documented filter of the candidates. -/
theorem filter_exact (s : Settings) (prev : Conf) (rx : String → String → Bool) (cands : List Cand)
    (hty : ∀ e ∈ cands, 1 ≤ e.ty ∧ e.ty ≤ 25) (hprev : prev.fileTypeRules = []) :
    recorded (fromFlags prev (flagsOf s) s.ignoreErr) rx cands =
      cands.filter (fun e => shown s rx e.file e.ty) := by
  unfold recorded
  apply List.filter_congr
  intro e he
  obtain ⟨h1, h25⟩ := hty e he
  rw [flags_exact s prev rx e.file e.ty h1 h25 hprev]
  simp
#print axioms filter_exact

/-- "turning off one check type removes exactly that type's diagnostics and changes nothing else" -/
theorem switch_off_exact (s : Settings) (prev : Conf) (rx : String → String → Bool) (cands : List Cand)
    (hty : ∀ e ∈ cands, 1 ≤ e.ty ∧ e.ty ≤ 25) (hprev : prev.fileTypeRules = [])
    (t : Nat) (fld c : String) (hsw : (t, fld, c) ∈ switchOf) :
    let s' : Settings := { s with val := fun f => if f = fld then false else s.val f }
    recorded (fromFlags prev (flagsOf s') s'.ignoreErr) rx cands =
      (recorded (fromFlags prev (flagsOf s) s.ignoreErr) rx cands).filter (fun e => e.ty != t) := by
  intro s'
  rw [filter_exact s' prev rx cands hty hprev, filter_exact s prev rx cands hty hprev, List.filter_filter]
  apply List.filter_congr
  intro e he
  obtain ⟨h1, h25⟩ := hty e he
  have hfldne : fld ≠ "AllEnable" := switch_not_master _ hsw
  -- the switch of e.ty is fld iff e.ty = t (switchOf is injective both ways)
  have hinj : ∀ a ∈ switchOf, ∀ b ∈ switchOf, (a.2.1 = b.2.1 ↔ a.1 = b.1) := by decide
  have hmem : e.ty ∈ switchOf.map (·.1) := by
    rw [flag_table.2.2.2.2]; simp; omega
  obtain ⟨w, hw, hwty⟩ := List.mem_map.mp hmem
  have hfind : switchOf.find? (·.1 == e.ty) = some w := by
    rw [← hwty]; exact find_self w hw
  unfold shown
  simp only [hfind, s', hfldne.symm, if_false]
  have := hinj w hw (t, fld, c) hsw
  simp only at this
  by_cases hwf : w.2.1 = fld
  · have : e.ty = t := by rw [← hwty]; exact this.mp hwf
    simp [hwf, this]
  · have hne : e.ty ≠ t := by
      intro h; apply hwf; apply this.mpr; rw [hwty]; exact h
    simp [hwf, hne]
#print axioms switch_off_exact

/-- "the master switch removes all" -/
theorem master_off_removes_all (s : Settings) (prev : Conf) (rx : String → String → Bool)
    (cands : List Cand) (hty : ∀ e ∈ cands, 1 ≤ e.ty ∧ e.ty ≤ 25) (hprev : prev.fileTypeRules = [])
    (hoff : s.val "AllEnable" = false) :
    recorded (fromFlags prev (flagsOf s) s.ignoreErr) rx cands = [] := by
  rw [filter_exact s prev rx cands hty hprev]
  simp [shown, hoff]
#print axioms master_off_removes_all

/-- luahelper.json and the client flags build the same decision: `IgnoreErrorTypes` = the types
    whose switch is off, `IgnoreFileErr` = the ignore patterns, `ShowWarnFlag` = master. -/
theorem json_equiv (s : Settings) (prev : Conf) (rx : String → String → Bool) (file : String) (ty : Nat)
    (h1 : 1 ≤ ty) (h25 : ty ≤ 25) (hprev : prev.fileTypeRules = []) :
    let offTypes := (switchOf.filter (fun e => !s.val e.2.1)).map (·.1)
    isIgnored (fromJson (if s.val "AllEnable" then 1 else 0) offTypes s.ignoreErr []) rx file ty =
      isIgnored (fromFlags prev (flagsOf s) s.ignoreErr) rx file ty := by
  intro offTypes
  rw [flags_exact s prev rx file ty h1 h25 hprev]
  have hmem : ty ∈ switchOf.map (·.1) := by
    rw [flag_table.2.2.2.2]; simp; omega
  obtain ⟨w, hw, hwty⟩ := List.mem_map.mp hmem
  have hfind : switchOf.find? (·.1 == ty) = some w := by
    rw [← hwty]; exact find_self w hw
  have hinj : ∀ a ∈ switchOf, ∀ b ∈ switchOf, (a.1 = b.1 → a = b) := by decide
  have hoff : offTypes.contains ty = !s.val w.2.1 := by
    rw [Bool.eq_iff_iff]
    simp only [offTypes, List.contains_iff_mem, List.mem_map, List.mem_filter]
    constructor
    · rintro ⟨a, ⟨ha, hva⟩, hat⟩
      have : a = w := hinj a ha w hw (by rw [hat, hwty])
      subst this; exact hva
    · intro hv
      exact ⟨w, ⟨hw, hv⟩, hwty⟩
  unfold isIgnored shown fromJson
  simp only [hfind, hoff, List.any_nil, Bool.or_false]
  have hp := any_partition s.ignoreErr (patMatch rx file) isLuaSuffix
  rw [Bool.or_assoc, hp]
  cases s.val "AllEnable" <;> cases s.val w.2.1 <;> simp
#print axioms json_equiv

/-! ### the 'special check' gate (former finding C17-K1) -/

/-- numeric values of the types listed in IsSpecialCheck (regenerated from the Go source): the six types the
    cross-file pass produces, goto-label included since the repair -/
theorem special_types :
    Gen.specialCheckTypes.map (fun n => (Gen.errTypes.find? (·.1 == n)).map (·.2)) =
      ConfSpec.specialTypes.map some := by decide
#print axioms special_types

/-- the cross-file pass is skipped (`IsSpecialCheck` false) exactly when the master switch is off or the switches
    of all six cross-file types are off -/
theorem special_gate (s : Settings) (prev : Conf) :
    isSpecialCheck (fromFlags prev (flagsOf s) s.ignoreErr) ConfSpec.specialTypes =
      (s.val "AllEnable" && !specialOff s) := by
  obtain ⟨_, hlen, h0, hsw, _⟩ := flag_table
  have hflen : (flagsOf s).length = 26 := by simp [flagsOf, hlen]
  by_cases hmaster : s.val "AllEnable" = true
  · have hm : (flagsOf s)[0]? = some true := by simp [flagsOf, h0, hmaster]
    have hshow : (fromFlags prev (flagsOf s) s.ignoreErr).showWarn = true := by
      cases hf : flagsOf s with
      | nil => simp [hf] at hflen
      | cons m rest =>
        have : m = true := by rw [hf] at hm; simpa using hm
        simp [fromFlags, this]
    have g : ∀ ty fld, (∃ c, (ty, fld, c) ∈ switchOf) →
        (fromFlags prev (flagsOf s) s.ignoreErr).ignoreTypes.contains ty = !s.val fld := by
      intro ty fld ⟨c, hc⟩
      have hb : 1 ≤ ty ∧ ty ≤ 25 := switch_bounds _ hc
      rw [ignore_map_from_flags prev (flagsOf s) s.ignoreErr ty hflen hm hb.1 hb.2]
      have := (hsw _ hc).1
      simp only at this
      simp [flagsOf, List.getD, this]
    unfold isSpecialCheck specialOff ConfSpec.specialTypes
    simp only [hshow, hmaster, List.any_cons, List.any_nil, Bool.or_false, Bool.true_and]
    rw [g 2 "CheckNoDefine" ⟨"CheckErrorNoDefine", by decide⟩, g 3 "CheckAfterDefine" ⟨"CheckErrorCycleDefine", by decide⟩,
      g 9 "CheckGotoLable" ⟨"CheckErrorGotoLabel", by decide⟩,
      g 10 "CheckFuncParam" ⟨"CheckErrorCallParam", by decide⟩, g 11 "CheckImportModuleVar" ⟨"CheckErrorImportVar", by decide⟩,
      g 12 "CheckIfNotVar" ⟨"CheckErrorNotIfVar", by decide⟩]
    cases s.val "CheckNoDefine" <;> cases s.val "CheckAfterDefine" <;> cases s.val "CheckGotoLable" <;>
      cases s.val "CheckFuncParam" <;> cases s.val "CheckImportModuleVar" <;> cases s.val "CheckIfNotVar" <;> rfl
  · have hmf : s.val "AllEnable" = false := by simpa using hmaster
    have hshow : (fromFlags prev (flagsOf s) s.ignoreErr).showWarn = false := by
      cases hf : flagsOf s with
      | nil => simp [hf] at hflen
      | cons m rest =>
        have hm0 : (flagsOf s)[0]? = some false := by simp [flagsOf, h0, hmf]
        have : m = false := by rw [hf] at hm0; simpa using hm0
        simp [fromFlags, this]
    simp [isSpecialCheck, hshow, hmf]
#print axioms special_gate

/-- skipping the pass loses nothing: whenever the gate is closed, no diagnostic of a cross-file type is to be shown
    for any file (the documented filter `shown` is false for all six types) — with type 9 missing from the list
    this failed for goto-label diagnostics (finding K1) -/
theorem special_gate_harmless (s : Settings) (prev : Conf) (rx : String → String → Bool) (file : String)
    (h : isSpecialCheck (fromFlags prev (flagsOf s) s.ignoreErr) ConfSpec.specialTypes = false) :
    ∀ ty ∈ ConfSpec.specialTypes, shown s rx file ty = false := by
  rw [special_gate] at h
  intro ty hty
  simp only [ConfSpec.specialTypes, List.mem_cons, List.mem_nil_iff, or_false] at hty
  unfold specialOff at h
  rcases hty with rfl | rfl | rfl | rfl | rfl | rfl <;>
    (simp only [shown, switchOf, List.find?]; simp; revert h;
     cases s.val "AllEnable" <;> cases s.val "CheckNoDefine" <;> cases s.val "CheckAfterDefine" <;>
       cases s.val "CheckGotoLable" <;> cases s.val "CheckFuncParam" <;> cases s.val "CheckImportModuleVar" <;>
       cases s.val "CheckIfNotVar" <;> simp)
#print axioms special_gate_harmless

/-! ### malformed settings (shared with C01): user-supplied patterns reach regexp.MustCompile -/

/-- no regexp.MustCompile call takes a pattern that is not a literal or built from literals and
    regexp.QuoteMeta(…): a configuration value can no longer make the server panic while compiling
    a pattern (before the repair a72bfd6 six such sites existed: former finding C17-K4). -/
theorem mustcompile_sites :
    Gen.mustCompileSites.filter (·.2.2 == "dynamic") = [] := by decide
#print axioms mustcompile_sites

/-! ### non-vacuity -/
example : flagsOf { val := fun f => f != "CheckLocalNoUse", ignoreErr := [] } =
    [true, true, true, true, false, true, true, true, true, true, true, true, true, true, true, true,
     true, true, true, true, true, true, true, true, true, true] := by decide

end LuaHelper.C17
