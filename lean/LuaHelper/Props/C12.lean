/-
C12 — "Definition, references, highlight and hover agree with each other".

The four features are two resolutions of the same occurrences:
  pos  : the position-based resolver (go-to-definition, hover)      — C05's subject
  trav : the binding recorded while the file is traversed           — C06's subject
  references(p) = highlight(p) = { o | trav o = pos p }
Proved here for ANY pair of resolutions over ANY occurrence list: the consistency clauses of C12 hold
at every position where the two resolutions agree, and they fail exactly through a disagreement —
so C12 reduces to `pos = trav`, which Props/C05 (`flat_scope_correct`) and Props/C06
(`traversal_eq_spec`) establish outside the finding classes C05-K1/K2.
The harness checks the clauses on the real server without any oracle (every identifier of generated
single-file programs, multi-file module workspaces and annotated aliases).
-/
import LuaHelper.Spec.Bind
namespace LuaHelper.C12
open LuaHelper.Lex LuaHelper.Bind

/-- the reference set of a query occurrence -/
def refs (occs : List Occ) (pos trav : Occ → Option Loc) (p : Occ) : List Occ :=
  occs.filter fun o => trav o == pos p

/-- clause (i): a returned reference at which the two resolutions agree resolves, via go-to-definition,
    to the same declaration as the query -/
theorem refs_resolve_alike (occs : List Occ) (pos trav : Occ → Option Loc) (p o : Occ)
    (ho : o ∈ refs occs pos trav p) (hagree : pos o = trav o) : pos o = pos p := by
  unfold refs at ho
  have := (List.mem_filter.mp ho).2
  rw [hagree]; simpa using this
#print axioms refs_resolve_alike

/-- clause (i), converse: a reference that resolves differently is a position where the position-based
    resolver and the traversal disagree (this is how findings C12-K1 arise) -/
theorem refs_disagree (occs : List Occ) (pos trav : Occ → Option Loc) (p o : Occ)
    (ho : o ∈ refs occs pos trav p) (hne : pos o ≠ pos p) : pos o ≠ trav o := by
  intro h; exact hne (refs_resolve_alike occs pos trav p o ho h)
#print axioms refs_disagree

/-- clause (ii): p is among the references of its own declaration d, provided the resolutions agree
    at p and the declaration resolves to itself -/
theorem self_in_refs_of_decl (occs : List Occ) (pos trav : Occ → Option Loc) (p d : Occ)
    (hp : p ∈ occs) (hagree : pos p = trav p) (hd : pos p = some d.loc) (hself : pos d = some d.loc) :
    p ∈ refs occs pos trav d := by
  unfold refs
  refine List.mem_filter.mpr ⟨hp, ?_⟩
  rw [← hagree, hd, hself]; simp
#print axioms self_in_refs_of_decl

/-- clause (iii): highlight is the reference set restricted to the file — with one file, the same set -/
theorem highlight_eq_refs (occs : List Occ) (pos trav : Occ → Option Loc) (p : Occ) (inFile : Occ → Bool)
    (hall : ∀ o ∈ occs, inFile o = true) :
    (refs occs pos trav p).filter inFile = refs occs pos trav p := by
  apply List.filter_eq_self.mpr
  intro o ho
  exact hall o (List.mem_filter.mp ho).1
#print axioms highlight_eq_refs

/-- with agreement everywhere, "being a reference of" is symmetric and transitive on resolved
    occurrences: the reference sets partition the occurrences by declaration -/
theorem refs_symm (occs : List Occ) (pos trav : Occ → Option Loc) (hag : ∀ o ∈ occs, pos o = trav o)
    (p o : Occ) (hp : p ∈ occs) (ho : o ∈ refs occs pos trav p) : p ∈ refs occs pos trav o := by
  have hoo := (List.mem_filter.mp ho).1
  have h1 := refs_resolve_alike occs pos trav p o ho (hag o hoo)
  unfold refs
  refine List.mem_filter.mpr ⟨hp, ?_⟩
  rw [← hag p hp, h1]; simp
#print axioms refs_symm

/-- … and transitive: a reference of a reference is a reference -/
theorem refs_trans (occs : List Occ) (pos trav : Occ → Option Loc) (hag : ∀ o ∈ occs, pos o = trav o)
    (p o q : Occ) (ho : o ∈ refs occs pos trav p) (hq : q ∈ refs occs pos trav o) : q ∈ refs occs pos trav p := by
  have hoo := (List.mem_filter.mp ho).1
  have h1 := refs_resolve_alike occs pos trav p o ho (hag o hoo)
  unfold refs at hq ⊢
  have hq' := List.mem_filter.mp hq
  refine List.mem_filter.mpr ⟨hq'.1, ?_⟩
  rw [← h1]; exact hq'.2
#print axioms refs_trans

/-- hence every member of a reference set has that very reference set: whichever occurrence of a variable the
    user asks from, find-references answers with the same list (same order: the order of `occs`) -/
theorem refs_class (occs : List Occ) (pos trav : Occ → Option Loc) (hag : ∀ o ∈ occs, pos o = trav o)
    (p o : Occ) (ho : o ∈ refs occs pos trav p) : refs occs pos trav o = refs occs pos trav p := by
  have hoo := (List.mem_filter.mp ho).1
  have h1 := refs_resolve_alike occs pos trav p o ho (hag o hoo)
  unfold refs
  rw [h1]
#print axioms refs_class

/-- clause (iii) for workspaces of several files: highlight(p) is exactly the part of references(p) that lies in p's file -/
theorem highlight_iff (occs : List Occ) (pos trav : Occ → Option Loc) (p o : Occ) (inFile : Occ → Bool) :
    o ∈ (refs occs pos trav p).filter inFile ↔ o ∈ refs occs pos trav p ∧ inFile o = true := List.mem_filter
#print axioms highlight_iff

/-- computing the references per file and concatenating (what the server does: one traversal per file that can see the
    symbol) gives the references of the whole workspace, file by file -/
theorem refs_per_file (fa fb : List Occ) (pos trav : Occ → Option Loc) (p : Occ) :
    refs (fa ++ fb) pos trav p = refs fa pos trav p ++ refs fb pos trav p := by
  unfold refs; exact List.filter_append ..
#print axioms refs_per_file

/-- no occurrence is returned twice when the occurrence list has none twice -/
theorem refs_nodup (occs : List Occ) (pos trav : Occ → Option Loc) (p : Occ) (h : occs.Nodup) :
    (refs occs pos trav p).Nodup := by
  unfold refs; exact h.filter _
#print axioms refs_nodup

/-- hover's clause: an occurrence is presented as a local exactly when its definition is a local declaration -/
def hoverIsLocal (pos : Occ → Option Loc) (p : Occ) : Bool := (pos p).isSome

theorem hover_local_iff (pos : Occ → Option Loc) (p : Occ) :
    hoverIsLocal pos p = true ↔ ∃ d, pos p = some d := by
  unfold hoverIsLocal; exact Option.isSome_iff_exists
#print axioms hover_local_iff

/-- and every reference of p is presented the same way as p where the resolutions agree -/
theorem hover_same_on_refs (occs : List Occ) (pos trav : Occ → Option Loc) (p o : Occ)
    (ho : o ∈ refs occs pos trav p) (hagree : pos o = trav o) : hoverIsLocal pos o = hoverIsLocal pos p := by
  unfold hoverIsLocal; rw [refs_resolve_alike occs pos trav p o ho hagree]
#print axioms hover_same_on_refs

/-- the premises are satisfiable and the conclusion non-trivial: S-bind against itself on
    `local x = 1; print(x)`-like occurrence lists -/
example :
    let d : Occ := declOcc [120] ⟨1, 6, 1, 7⟩ ⟨1, 0, 1, 11⟩
    let u : Occ := { name := [120], loc := ⟨2, 6, 2, 7⟩, decl := some ⟨1, 6, 1, 7⟩ }
    refs [d, u] (·.decl) (·.decl) u = [d, u] := by decide

end LuaHelper.C12
