/-
C09 — "Results are a function of workspace and configuration, not of scheduling".

The order-sensitive step of the analysis is the merge of same-named globals of several files into the
workspace table.  Model: Model/Merge.lean.  Proved here:
 * `dominant_wins`: if one candidate dominates all others (no larger function level and scope level,
   strictly smaller line; e.g. the usual case of top-level definitions on different lines), every order
   of the files yields that candidate;
 * `visit_order_matters` / `same_line_visit_order_matters`: without a dominating candidate the winner
   depends on the visiting order (the former finding K1: the files were visited in map-iteration order);
 * `merge_visits_sorted` (regenerated facts): the merge of globals and the merge of annotation types now
   collect the file names, sort them and visit the files in that order;
 * `sorted_visit_function_of_workspace`: whatever order the candidates are handed over in (map iteration,
   directory listing, scheduling), the sorted visit and its winner are the same — the result is a function
   of the workspace.
The harness repeats the real server on identical workspaces (GOMAXPROCS 1 / 2 / 16, shuffled file
creation order; map iteration is randomised by the Go runtime), compares normalised answers, and checks
go-to-definition of every multiply defined global against `winnerSorted`.
-/
import LuaHelper.Model.Merge
import LuaHelper.Gen.Merge
namespace LuaHelper.C09
open LuaHelper.Merge

/-- the code the model was written after, as it stands in /repo now (regenerated on every run): the three
    blocking comparisons of `Merge.blocks` with their operators, the same-file exemption, and the
    backward scan that makes the LAST accepted candidate the winner -/
theorem merge_code_shape :
    Gen.mergeConds =
      ["oneVar.FileName == varInfo.FileName => continue",
       "oneVar.ExtraGlobal.FuncLv < varInfo.ExtraGlobal.FuncLv => return false",
       "oneVar.ExtraGlobal.ScopeLv < varInfo.ExtraGlobal.ScopeLv => return false",
       "oneVar.Loc.StartLine <= varInfo.Loc.StartLine => return false"] ∧
    Gen.findScanBackward = true := by decide
#print axioms merge_code_shape

/-- the two merges over files (globals with the members other files add to them; annotation types) range
    over the file map only to collect the names, sort them, and visit the files in sorted order -/
theorem merge_visits_sorted :
    Gen.globalVisits =
      ["range third.AllIncludeFile { fileList = append(fileList, strFile) }", "sort.Strings(fileList)",
       "range fileList", "range fileList"] ∧
    Gen.typeVisits =
      ["range a.fileStructMap { fileList = append(fileList, strFile) }", "sort.Strings(fileList)", "range fileList"] := by
  decide
#print axioms merge_visits_sorted

/-- the same for the per-project second pass of project mode (luahelper.json ProjectFiles; repaired): the helper collects
    and sorts the project's files, and the merge of the _G globals, the merge of the globals of required files and the merge of
    the members other files add to them all range over its result — so `sorted_visit_function_of_workspace` speaks about them too -/
theorem project_visits_sorted :
    Gen.projectVisits =
      ["range second.AllFiles { fileList = append(fileList, strFile) }", "sort.Strings(fileList)",
       "range sortedProjectFiles(second)", "range sortedProjectFiles(second)", "range sortedProjectFiles(second)"] := by
  decide
#print axioms project_visits_sorted

theorem run_append (a b : List Cand) : run (a ++ b) = b.foldl addCand (run a) := by
  unfold run; rw [List.foldl_append]

/-- everything listed was visited -/
theorem fold_subset (vec order : List Cand) : ∀ x ∈ order.foldl addCand vec, x ∈ vec ∨ x ∈ order := by
  induction order generalizing vec with
  | nil => intro x hx; exact Or.inl hx
  | cons v r ih =>
    intro x hx
    simp only [List.foldl] at hx
    rcases ih (addCand vec v) x hx with h | h
    · unfold addCand at h
      split at h
      · rcases List.mem_append.mp h with h1 | h1
        · exact Or.inl h1
        · simp at h1; exact Or.inr (by simp [h1])
      · exact Or.inl h
    · exact Or.inr (by simp [h])

/-- once a candidate that blocks everything still to come is last, it stays last -/
theorem fold_blocked (vec : List Cand) (m : Cand) (rest : List Cand)
    (hb : ∀ v ∈ rest, blocks m v = true) :
    rest.foldl addCand (vec ++ [m]) = vec ++ [m] := by
  induction rest with
  | nil => rfl
  | cons v r ih =>
    simp only [List.foldl]
    have : addCand (vec ++ [m]) v = vec ++ [m] := by
      unfold addCand accept
      have hbv := hb v (by simp)
      have : ((vec ++ [m]).all fun e => !blocks e v) = false := by
        rw [List.all_eq_false]
        exact ⟨m, by simp, by simp [hbv]⟩
      simp [this]
    rw [this]
    exact ih (fun x hx => hb x (by simp [hx]))

/-- the dominating candidate wins, whatever the order in which the files are visited -/
theorem dominant_wins (pre post : List Cand) (m : Cand)
    (hfile : ∀ x ∈ pre ++ post, x.file ≠ m.file)
    (hdom : ∀ x ∈ pre ++ post, dominates m x) :
    winner (pre ++ m :: post) = some m := by
  unfold winner
  rw [run_append]
  simp only [List.foldl]
  -- m is accepted after any prefix
  have hacc : accept (run pre) m = true := by
    unfold accept
    rw [List.all_eq_true]
    intro e he
    have hep : e ∈ pre := by
      rcases fold_subset [] pre e he with h | h
      · cases h
      · exact h
    have hd := hdom e (by simp [hep])
    unfold blocks
    unfold dominates at hd
    simp only [Bool.not_eq_true', Bool.and_eq_false_iff, Bool.or_eq_false_iff, decide_eq_false_iff_not]
    right
    refine ⟨⟨by omega, by omega⟩, by omega⟩
  have hins : addCand (run pre) m = run pre ++ [m] := by unfold addCand; simp [hacc]
  rw [hins]
  -- and blocks everything after it
  have hb : ∀ v ∈ post, blocks m v = true := by
    intro v hv
    have hd := hdom v (by simp [hv])
    have hf := hfile v (by simp [hv])
    unfold blocks
    unfold dominates at hd
    have h1 : (m.file != v.file) = true := by simpa using fun h => hf h.symm
    have h2 : decide (m.line ≤ v.line) = true := by simp; omega
    simp [h1, h2]
  rw [fold_blocked (run pre) m post hb]
  simp
#print axioms dominant_wins

/-- every permutation of the files gives the same winner when a dominating candidate exists -/
theorem dominant_wins_any_order (order : List Cand) (m : Cand) (hm : m ∈ order)
    (hfile : ∀ x ∈ order, x ≠ m → x.file ≠ m.file) (hone : order.count m = 1)
    (hdom : ∀ x ∈ order, x ≠ m → dominates m x) : winner order = some m := by
  obtain ⟨pre, post, rfl⟩ := List.append_of_mem hm
  have hne : ∀ x ∈ pre ++ post, x ≠ m := by
    intro x hx he
    subst he
    have : (pre ++ x :: post).count x ≥ 2 := by
      rcases List.mem_append.mp hx with h | h
      · have := List.count_pos_iff.mpr h
        simp [List.count_append, List.count_cons]; omega
      · have := List.count_pos_iff.mpr h
        simp [List.count_append, List.count_cons]; omega
    omega
  apply dominant_wins
  · intro x hx
    exact hfile x (by rcases List.mem_append.mp hx with h | h <;> simp [h]) (hne x hx)
  · intro x hx
    exact hdom x (by rcases List.mem_append.mp hx with h | h <;> simp [h]) (hne x hx)
#print axioms dominant_wins_any_order

/-- premises satisfiable: three top-level definitions on lines 3, 7, 9 of three files, any order -/
example : winner [⟨"b.lua", 0, 0, 7⟩, ⟨"a.lua", 0, 0, 3⟩, ⟨"c.lua", 0, 0, 9⟩] = some ⟨"a.lua", 0, 0, 3⟩ ∧
          winner [⟨"c.lua", 0, 0, 9⟩, ⟨"b.lua", 0, 0, 7⟩, ⟨"a.lua", 0, 0, 3⟩] = some ⟨"a.lua", 0, 0, 3⟩ := by decide

/-- why the visit has to be sorted (former finding K1): a nested definition on line 5 (scope level 1) and
    a top-level definition on line 9: neither dominates; whichever file is visited first wins -/
theorem visit_order_matters :
    winner [⟨"a.lua", 0, 1, 5⟩, ⟨"b.lua", 0, 0, 9⟩] = some ⟨"a.lua", 0, 1, 5⟩ ∧
    winner [⟨"b.lua", 0, 0, 9⟩, ⟨"a.lua", 0, 1, 5⟩] = some ⟨"b.lua", 0, 0, 9⟩ := by decide
#print axioms visit_order_matters

/-- the same global defined at top level on the same line number of two files -/
theorem same_line_visit_order_matters :
    winner [⟨"a.lua", 0, 0, 1⟩, ⟨"b.lua", 0, 0, 1⟩] = some ⟨"a.lua", 0, 0, 1⟩ ∧
    winner [⟨"b.lua", 0, 0, 1⟩, ⟨"a.lua", 0, 0, 1⟩] = some ⟨"b.lua", 0, 0, 1⟩ := by decide
#print axioms same_line_visit_order_matters

theorem byFile_trans (a b c : Cand) : byFile a b = true → byFile b c = true → byFile a c = true := by
  simp only [byFile, decide_eq_true_eq]
  exact String.le_trans
theorem byFile_total (a b : Cand) : (byFile a b || byFile b a) = true := by
  simp only [byFile, Bool.or_eq_true, decide_eq_true_eq]
  exact String.le_total a.file b.file

/-- the sorted visit does not depend on the order in which the candidates are handed over (one candidate
    per file: a file's table of globals has one entry per name) -/
theorem sortedVisit_perm (l1 l2 : List Cand) (hp : l1.Perm l2)
    (hfile : ∀ a ∈ l1, ∀ b ∈ l1, a.file = b.file → a = b) : sortedVisit l1 = sortedVisit l2 := by
  unfold sortedVisit
  apply List.Perm.eq_of_pairwise (le := fun a b => byFile a b = true)
  · intro a b ha hb hab hba
    have ha1 : a ∈ l1 := (List.mergeSort_perm l1 byFile).subset ha
    have hb1 : b ∈ l1 := hp.symm.subset ((List.mergeSort_perm l2 byFile).subset hb)
    apply hfile a ha1 b hb1
    simp only [byFile, decide_eq_true_eq] at hab hba
    exact String.le_antisymm hab hba
  · exact List.pairwise_mergeSort byFile_trans byFile_total l1
  · exact List.pairwise_mergeSort byFile_trans byFile_total l2
  · exact ((List.mergeSort_perm l1 byFile).trans hp).trans (List.mergeSort_perm l2 byFile).symm
#print axioms sortedVisit_perm

/-- the definition a multiply defined global is linked to is a function of the workspace: every order in
    which map iteration, directory listing or scheduling present the files gives the same winner — with or
    without a dominating definition -/
theorem sorted_visit_function_of_workspace (l1 l2 : List Cand) (hp : l1.Perm l2)
    (hfile : ∀ a ∈ l1, ∀ b ∈ l1, a.file = b.file → a = b) : winnerSorted l1 = winnerSorted l2 := by
  unfold winnerSorted
  rw [sortedVisit_perm l1 l2 hp hfile]
#print axioms sorted_visit_function_of_workspace

/-- premises satisfiable, and the two former K1 situations now have one answer -/
example : winnerSorted [⟨"a.lua", 0, 1, 5⟩, ⟨"b.lua", 0, 0, 9⟩] = some ⟨"a.lua", 0, 1, 5⟩ ∧
          winnerSorted [⟨"b.lua", 0, 0, 9⟩, ⟨"a.lua", 0, 1, 5⟩] = some ⟨"a.lua", 0, 1, 5⟩ ∧
          winnerSorted [⟨"b.lua", 0, 0, 1⟩, ⟨"a.lua", 0, 0, 1⟩] = some ⟨"a.lua", 0, 0, 1⟩ := by
  simp [winnerSorted, sortedVisit, List.mergeSort, byFile, winner, run, addCand, accept, blocks]


/-! ### workspace/symbol under the 200-symbol cap -/

/-- resultSorter.Less as it stands in /repo now (regenerated on every run): score first, then name, file, line, column —
    the order `symLe` models -/
theorem symbol_less_shape :
    Gen.symbolLess =
      ["a.score > b.score", "a.fileSymbol.Name < b.fileSymbol.Name", "a.fileSymbol.FileName < b.fileSymbol.FileName",
       "a.fileSymbol.Loc.StartLine < b.fileSymbol.Loc.StartLine", "a.fileSymbol.Loc.StartColumn < b.fileSymbol.Loc.StartColumn"] := by
  decide
#print axioms symbol_less_shape

/-- sorting by a total, transitive, antisymmetric order gives the same list for every order in which the elements are handed
    over — and therefore the same first n (the 200-symbol cap) -/
theorem cap_independent {α : Type} (le : α → α → Bool)
    (htot : ∀ a b, (le a b || le b a) = true) (htrans : ∀ a b c, le a b = true → le b c = true → le a c = true)
    (hanti : ∀ a b, le a b = true → le b a = true → a = b) (l1 l2 : List α) (hp : l1.Perm l2) (n : Nat) :
    (l1.mergeSort le).take n = (l2.mergeSort le).take n := by
  have h1 := List.mergeSort_perm l1 le
  have h2 := List.mergeSort_perm l2 le
  have s1 := List.pairwise_mergeSort (le := le) (fun a b c => htrans a b c) htot l1
  have s2 := List.pairwise_mergeSort (le := le) (fun a b c => htrans a b c) htot l2
  have : l1.mergeSort le = l2.mergeSort le :=
    List.Perm.eq_of_pairwise (fun a b _ _ hab hba => hanti a b hab hba) s1 s2 (h1.trans (hp.trans h2.symm))
  rw [this]
#print axioms cap_independent

structure Sym (N F : Type) where
  score : Nat
  name : N
  file : F
  line : Nat
  col : Nat
deriving DecidableEq

/-- resultSorter.Less as a non-strict order: higher score first; equal scores by name, file, line, column -/
def symLe {N F : Type} [DecidableEq N] [DecidableEq F] (nle : N → N → Bool) (fle : F → F → Bool) (a b : Sym N F) : Bool :=
  if a.score ≠ b.score then decide (a.score > b.score)
  else if a.name ≠ b.name then nle a.name b.name
  else if a.file ≠ b.file then fle a.file b.file
  else if a.line ≠ b.line then decide (a.line < b.line)
  else decide (a.col ≤ b.col)

structure LinOrd {K : Type} (le : K → K → Bool) : Prop where
  total : ∀ a b, (le a b || le b a) = true
  trans : ∀ a b c, le a b = true → le b c = true → le a c = true
  anti : ∀ a b, le a b = true → le b a = true → a = b

set_option linter.unusedSimpArgs false in
/-- the order of resultSorter.Less (since the repair) is linear whenever the orders on names and files are -/
theorem symLe_linOrd {N F : Type} [DecidableEq N] [DecidableEq F] (nle : N → N → Bool) (fle : F → F → Bool)
    (hn : LinOrd nle) (hf : LinOrd fle) : LinOrd (symLe nle fle) := by
  refine ⟨?_, ?_, ?_⟩
  · intro a b
    unfold symLe
    by_cases h1 : a.score = b.score
    · by_cases h2 : a.name = b.name
      · by_cases h3 : a.file = b.file
        · by_cases h4 : a.line = b.line
          · simp [h1, h2, h3, h4]; omega
          · have h4' : b.line ≠ a.line := fun h => h4 h.symm
            simp [h1, h2, h3, h4, h4']; omega
        · have h3' : b.file ≠ a.file := fun h => h3 h.symm
          simp [h1, h2, h3, h3']; simpa [Bool.or_eq_true] using hf.total a.file b.file
      · have h2' : b.name ≠ a.name := fun h => h2 h.symm
        simp [h1, h2, h2']; simpa [Bool.or_eq_true] using hn.total a.name b.name
    · have h1' : b.score ≠ a.score := fun h => h1 h.symm
      simp [h1, h1']; omega
  · intro a b c
    unfold symLe
    by_cases h1 : a.score = b.score <;> by_cases g1 : b.score = c.score
    · have e1 : a.score = c.score := h1.trans g1
      by_cases h2 : a.name = b.name <;> by_cases g2 : b.name = c.name
      · have e2 : a.name = c.name := h2.trans g2
        by_cases h3 : a.file = b.file <;> by_cases g3 : b.file = c.file
        · have e3 : a.file = c.file := h3.trans g3
          by_cases h4 : a.line = b.line <;> by_cases g4 : b.line = c.line
          · have e4 : a.line = c.line := h4.trans g4
            simp [h1, g1, e1, h2, g2, e2, h3, g3, e3, h4, g4, e4]; omega
          · have e4 : a.line ≠ c.line := fun h => g4 (h4 ▸ h)
            simp only [ne_eq, not_true_eq_false, not_false_eq_true, if_true, if_false, decide_eq_true_eq, h1, g1, e1, h2, g2, e2, h3, g3, e3, h4, g4, e4]
            all_goals (first | omega | (intros; first | assumption | omega))
          · have e4 : a.line ≠ c.line := fun h => h4 (g4 ▸ h)
            simp only [ne_eq, not_true_eq_false, not_false_eq_true, if_true, if_false, decide_eq_true_eq, h1, g1, e1, h2, g2, e2, h3, g3, e3, h4, g4, e4]
            all_goals (first | omega | (intros; first | assumption | omega))
          · simp only [h1, g1, e1, h2, g2, e2, h3, g3, e3, h4, g4, ne_eq, not_true_eq_false, not_false_eq_true, if_true, if_false, decide_eq_true_eq]
            intro x y
            have : a.line ≠ c.line := by omega
            simp [this]; omega
        · have e3 : a.file ≠ c.file := fun h => g3 (h3 ▸ h)
          simp only [ne_eq, not_true_eq_false, not_false_eq_true, if_true, if_false, decide_eq_true_eq, h1, g1, e1, h2, g2, e2, h3, g3, e3]
          all_goals (first | omega | (intros; first | assumption | omega))
        · have e3 : a.file ≠ c.file := fun h => h3 (g3 ▸ h)
          simp only [ne_eq, not_true_eq_false, not_false_eq_true, if_true, if_false, decide_eq_true_eq, h1, g1, e1, h2, g2, e2, h3, g3, e3]
          all_goals (first | omega | (intros; first | assumption | omega))
        · simp only [h1, g1, e1, h2, g2, e2, h3, g3, ne_eq, not_true_eq_false, not_false_eq_true, if_true, if_false]
          intro x y
          have t := hf.trans _ _ _ x y
          by_cases e3 : a.file = c.file
          · exfalso
            rw [e3] at x
            exact g3 (hf.anti _ _ y x)
          · simp [e3, t]
      · have e2 : a.name ≠ c.name := fun h => g2 (h2 ▸ h)
        simp only [ne_eq, not_true_eq_false, not_false_eq_true, if_true, if_false, decide_eq_true_eq, h1, g1, e1, h2, g2, e2]
        all_goals (first | omega | (intros; first | assumption | omega))
      · have e2 : a.name ≠ c.name := fun h => h2 (g2 ▸ h)
        simp only [ne_eq, not_true_eq_false, not_false_eq_true, if_true, if_false, decide_eq_true_eq, h1, g1, e1, h2, g2, e2]
        all_goals (first | omega | (intros; first | assumption | omega))
      · simp only [h1, g1, e1, h2, g2, ne_eq, not_true_eq_false, not_false_eq_true, if_true, if_false]
        intro x y
        have t := hn.trans _ _ _ x y
        by_cases e2 : a.name = c.name
        · exfalso
          rw [e2] at x
          exact g2 (hn.anti _ _ y x)
        · simp [e2, t]
    · have e1 : a.score ≠ c.score := fun h => g1 (h1 ▸ h)
      simp only [ne_eq, not_true_eq_false, not_false_eq_true, if_true, if_false, decide_eq_true_eq, h1, g1, e1]
      all_goals (first | omega | (intros; first | assumption | omega))
    · have e1 : a.score ≠ c.score := fun h => h1 (g1 ▸ h)
      simp only [ne_eq, not_true_eq_false, not_false_eq_true, if_true, if_false, decide_eq_true_eq, h1, g1, e1]
      all_goals (first | omega | (intros; first | assumption | omega))
    · simp only [h1, g1, ne_eq, not_false_eq_true, if_true, decide_eq_true_eq]
      intro x y
      have : a.score ≠ c.score := by omega
      simp [this]; omega
  · intro a b
    unfold symLe
    by_cases h1 : a.score = b.score
    · by_cases h2 : a.name = b.name
      · by_cases h3 : a.file = b.file
        · by_cases h4 : a.line = b.line
          · simp only [h1, h2, h3, h4, ne_eq, not_true_eq_false, if_false, decide_eq_true_eq]
            intro x y
            have : a.col = b.col := by omega
            cases a; cases b; simp_all
          · have h4' : b.line ≠ a.line := fun h => h4 h.symm
            simp [h1, h2, h3, h4, h4']; omega
        · have h3' : b.file ≠ a.file := fun h => h3 h.symm
          simp only [h1, h2, h3, h3', ne_eq, not_true_eq_false, not_false_eq_true, if_true, if_false]
          intro x y; exact absurd (hf.anti _ _ x y) h3
      · have h2' : b.name ≠ a.name := fun h => h2 h.symm
        simp only [h1, h2, h2', ne_eq, not_true_eq_false, not_false_eq_true, if_true, if_false]
        intro x y; exact absurd (hn.anti _ _ x y) h2
    · have h1' : b.score ≠ a.score := fun h => h1 h.symm
      simp [h1, h1']; omega
#print axioms symLe_linOrd

theorem natLe_linOrd : LinOrd (fun a b : Nat => decide (a ≤ b)) :=
  ⟨fun a b => by simp; omega, fun a b c h1 h2 => by simp at *; omega, fun a b h1 h2 => by simp at *; omega⟩

/-- workspace/symbol: the symbols answered under the cap do not depend on the order in which files, map entries and
    workers delivered the matches (names / files compared by any linear order, e.g. byte-wise as Go does) -/
theorem workspace_symbol_cap_deterministic {N F : Type} [DecidableEq N] [DecidableEq F] (nle : N → N → Bool)
    (fle : F → F → Bool) (hn : LinOrd nle) (hf : LinOrd fle) (l1 l2 : List (Sym N F)) (hp : l1.Perm l2) (n : Nat) :
    (l1.mergeSort (symLe nle fle)).take n = (l2.mergeSort (symLe nle fle)).take n :=
  let h := symLe_linOrd nle fle hn hf
  cap_independent _ h.total h.trans h.anti l1 l2 hp n
#print axioms workspace_symbol_cap_deterministic

/-- as it was (score only): two different symbols with one score are "equal" for the order — it is not antisymmetric,
    so the sorted list, and with it the cut, depended on the order in which the matches arrived -/
theorem score_only_not_antisymmetric :
    let le := fun (a b : Sym Nat Nat) => decide (a.score ≥ b.score)
    let a : Sym Nat Nat := ⟨1, 1, 1, 1, 0⟩
    let b : Sym Nat Nat := ⟨1, 2, 1, 2, 0⟩
    le a b = true ∧ le b a = true ∧ a ≠ b := by decide
#print axioms score_only_not_antisymmetric

/-- the premises of `workspace_symbol_cap_deterministic` are satisfiable -/
example : LinOrd (symLe (N := Nat) (F := Nat) (fun a b => decide (a ≤ b)) (fun a b => decide (a ≤ b))) :=
  symLe_linOrd _ _ natLe_linOrd natLe_linOrd


/-! ### which project answers for a file that belongs to several (findMaxSecondProject) -/

/-- the condition under which the visited project replaces the best one so far, as it stands in /repo now: more files, or
    as many files and a smaller entry-file name -/
theorem max_project_shape :
    Gen.maxProjectCond =
      "ok && (len(tmpSecond.AllFiles) > maxFileNum || (len(tmpSecond.AllFiles) == maxFileNum && secondProject != nil && tmpSecond.EntryFile < secondProject.EntryFile))" := by
  rfl
#print axioms max_project_shape

/-- findMaxSecondProject: one pass over the candidates keeping the best one so far -/
def pickBest {α : Type} (le : α → α → Bool) (l : List α) (init : Option α) : Option α :=
  l.foldl (fun b x => match b with
    | none => some x
    | some y => if le y x then some y else some x) init

theorem pickBest_spec {α : Type} (le : α → α → Bool)
    (htot : ∀ a b, (le a b || le b a) = true) (htrans : ∀ a b c, le a b = true → le b c = true → le a c = true)
    (l : List α) (y : α) :
    ∃ m, pickBest le l (some y) = some m ∧ (m = y ∨ m ∈ l) ∧ le m y = true ∧ ∀ x ∈ l, le m x = true := by
  induction l generalizing y with
  | nil =>
    refine ⟨y, rfl, Or.inl rfl, ?_, fun _ h => by cases h⟩
    have := htot y y; simpa using this
  | cons a r ih =>
    unfold pickBest
    simp only [List.foldl]
    by_cases h : le y a = true
    · simp only [h, if_true]
      obtain ⟨m, h1, h2, h3, h4⟩ := ih y
      refine ⟨m, h1, ?_, h3, ?_⟩
      · cases h2 with
        | inl e => exact Or.inl e
        | inr e => exact Or.inr (List.mem_cons_of_mem _ e)
      · intro x hx
        cases List.mem_cons.mp hx with
        | inl e => rw [e]; exact htrans m y a h3 h
        | inr e => exact h4 x e
    · have h' : le y a = false := by simpa using h
      simp only [h', Bool.false_eq_true, if_false]
      obtain ⟨m, h1, h2, h3, h4⟩ := ih a
      have hay : le a y = true := by
        have := htot y a; simp [h'] at this; exact this
      refine ⟨m, h1, ?_, htrans m a y h3 hay, ?_⟩
      · cases h2 with
        | inl e => exact Or.inr (by rw [e]; exact List.mem_cons_self)
        | inr e => exact Or.inr (List.mem_cons_of_mem _ e)
      · intro x hx
        cases List.mem_cons.mp hx with
        | inl e => rw [e]; exact h3
        | inr e => exact h4 x e

/-- with a linear order (ties broken, as since the repair, by the entry-file name) the project picked does not depend on the
    order in which the map of projects is walked -/
theorem pickBest_order_independent {α : Type} (le : α → α → Bool)
    (htot : ∀ a b, (le a b || le b a) = true) (htrans : ∀ a b c, le a b = true → le b c = true → le a c = true)
    (hanti : ∀ a b, le a b = true → le b a = true → a = b) (l1 l2 : List α) (hp : l1.Perm l2) :
    pickBest le l1 none = pickBest le l2 none := by
  cases l1 with
  | nil => have : l2 = [] := List.Perm.nil_eq hp |>.symm ▸ rfl; rw [this]
  | cons a r =>
    cases l2 with
    | nil => exact absurd (List.Perm.eq_nil hp) (by simp)
    | cons b s =>
      have e1 : pickBest le (a :: r) none = pickBest le r (some a) := rfl
      have e2 : pickBest le (b :: s) none = pickBest le s (some b) := rfl
      rw [e1, e2]
      obtain ⟨m, h1, h2, h3, h4⟩ := pickBest_spec le htot htrans r a
      obtain ⟨n, g1, g2, g3, g4⟩ := pickBest_spec le htot htrans s b
      rw [h1, g1]
      have hm : m ∈ a :: r := by
        cases h2 with
        | inl e => rw [e]; exact List.mem_cons_self
        | inr e => exact List.mem_cons_of_mem _ e
      have hn : n ∈ b :: s := by
        cases g2 with
        | inl e => rw [e]; exact List.mem_cons_self
        | inr e => exact List.mem_cons_of_mem _ e
      have hmall : ∀ x ∈ a :: r, le m x = true := by
        intro x hx
        cases List.mem_cons.mp hx with
        | inl e => rw [e]; exact h3
        | inr e => exact h4 x e
      have hnall : ∀ x ∈ b :: s, le n x = true := by
        intro x hx
        cases List.mem_cons.mp hx with
        | inl e => rw [e]; exact g3
        | inr e => exact g4 x e
      have hmn : le m n = true := hmall n (hp.symm.subset hn)
      have hnm : le n m = true := hnall m (hp.subset hm)
      rw [hanti m n hmn hnm]
#print axioms pickBest_order_independent

/-- "more files first, then the smaller entry name": a project is (number of files, entry name) -/
def projLe {N : Type} [DecidableEq N] (nle : N → N → Bool) (a b : Nat × N) : Bool :=
  if a.1 ≠ b.1 then decide (a.1 > b.1) else nle a.2 b.2

set_option linter.unusedSimpArgs false in
theorem projLe_linOrd {N : Type} [DecidableEq N] (nle : N → N → Bool) (hn : LinOrd nle) : LinOrd (projLe nle) := by
  refine ⟨?_, ?_, ?_⟩
  · intro a b
    unfold projLe
    by_cases h1 : a.1 = b.1
    · simp [h1]; simpa [Bool.or_eq_true] using hn.total a.2 b.2
    · have h1' : b.1 ≠ a.1 := fun h => h1 h.symm
      simp [h1, h1']; omega
  · intro a b c
    unfold projLe
    by_cases h1 : a.1 = b.1 <;> by_cases g1 : b.1 = c.1
    · have e1 : a.1 = c.1 := h1.trans g1
      simp only [h1, g1, e1, ne_eq, not_true_eq_false, if_false]
      exact hn.trans _ _ _
    · have e1 : a.1 ≠ c.1 := fun h => g1 (h1 ▸ h)
      simp only [h1, g1, e1, ne_eq, not_true_eq_false, not_false_eq_true, if_true, if_false, decide_eq_true_eq]
      intro _ y; omega
    · have e1 : a.1 ≠ c.1 := fun h => h1 (g1 ▸ h)
      simp only [h1, g1, e1, ne_eq, not_true_eq_false, not_false_eq_true, if_true, if_false, decide_eq_true_eq]
      intro x _; omega
    · simp only [h1, g1, ne_eq, not_false_eq_true, if_true, decide_eq_true_eq]
      intro x y
      have : a.1 ≠ c.1 := by omega
      simp [this]; omega
  · intro a b
    unfold projLe
    by_cases h1 : a.1 = b.1
    · simp only [h1, ne_eq, not_true_eq_false, if_false]
      intro x y
      have := hn.anti _ _ x y
      exact Prod.ext h1 this
    · have h1' : b.1 ≠ a.1 := fun h => h1 h.symm
      simp [h1, h1']; omega
#print axioms projLe_linOrd

/-- C09 for `findMaxSecondProject` (repaired): the project that answers for a file does not depend on the order in which
    the map of projects is walked -/
theorem max_project_deterministic {N : Type} [DecidableEq N] (nle : N → N → Bool) (hn : LinOrd nle)
    (l1 l2 : List (Nat × N)) (hp : l1.Perm l2) : pickBest (projLe nle) l1 none = pickBest (projLe nle) l2 none :=
  let h := projLe_linOrd nle hn
  pickBest_order_independent _ h.total h.trans h.anti l1 l2 hp
#print axioms max_project_deterministic

/-- as it was (more files only, strict): two equally large projects — whichever is visited first stays -/
theorem max_project_tie_before :
    let le := fun (a b : Nat × Nat) => decide (a.1 ≥ b.1)
    pickBest le [(3, 1), (3, 2)] none = some (3, 1) ∧ pickBest le [(3, 2), (3, 1)] none = some (3, 2) := by decide
#print axioms max_project_tie_before

end LuaHelper.C09
