/-
C20 — "Pattern-based semantic checks fire exactly where their pattern occurs".

Model: Model/Pat.lean (the ten first-pass checks + CompExp / GetExpName / GetTableConstuctorKeyStr /
IsOneValueType as written in the Go code), tied to the code by comparing, on programs with planted
instances and near-misses, the real diagnostics (type and range, as multisets) with the model's.
Proved here, for ALL expressions / parameter lists / statements:
 * `compExp_sound` + `compExp_floats` : the structural comparison used by "repeated if condition" (19) and
   "self-assignment" (20) only equates expressions that are identical up to source locations and the
   spelling of float numerals of equal value — no false positives; `compExp_refl`: it equates every
   function-free, constructor-free expression with itself — `x = x`, `a.b[1] = a.b[1]`,
   `if c then elseif c` are always caught; `else_not_compared`: the else branch is not a condition;
 * `dupKeys_exact` + `keyStr_same` : a type-5 report at a key ⇔ an earlier key of the constructor is the same
   integer, string or bracketed name (the three encodings are injective and disjoint);
 * `dupParams_exact` : a type-13 report at parameter j ⇔ an earlier parameter has the same name (≠ "_");
 * `sameOperands_exact` : a type-14 report ⇔ comparison / and / or whose operands are the same access path
   (names, string keys, parentheses) up to locations and redundant parentheses;
 * `orTrue_exact`, `andFalse_exact`, `floatEq_exact` : reports of 15 / 16 / 21 at a binary node ⇔ the
   documented shape;
 * `arity_exact` : 7 / 8 ⇔ more values than targets, or fewer values all of which are single-valued.
Finding (model = implementation ≠ property, `K1_witness`): identical operands that are not access paths are
not reported; the run-time check compares the model with the wider specification Spec/Pat.lean to tell this
class from anything else.  Type 5 is exact: `dupKeys_iff_spec` (boolean, float-by-value and unary-operator
keys were added by the repair of the former finding K2, `K2_repaired`, `K2_repaired_values`).
-/
import LuaHelper.Model.Pat
import LuaHelper.Proofs.Pat
import LuaHelper.Spec.Pat
import LuaHelper.Gen.Shapes
namespace LuaHelper.C20
open LuaHelper.Lex LuaHelper.Ast LuaHelper.Pat

/-- where the ten pattern diagnostics are produced, as the code stands in /repo now (regenerated every
    run): each type is inserted by exactly the traversal function the model's `pExp` / `pStat` cases are
    written after (7 and 8 twice: too many / too few values) -/
theorem pattern_insert_sites :
    Gen.patternInserts =
      ["CheckErrorAndAlwaysFalse@cgBinopExp", "CheckErrorAssignParamNum@cgAssignStat", "CheckErrorAssignParamNum@cgAssignStat",
       "CheckErrorDuplicateExp@cgBinopExp", "CheckErrorDuplicateIf@cgIfStat", "CheckErrorDuplicateParam@checkDuplicateFunParam",
       "CheckErrorFloatEq@cgBinopExp", "CheckErrorLocalParamNum@cgLocalVarDeclStat", "CheckErrorLocalParamNum@cgLocalVarDeclStat",
       "CheckErrorOrAlwaysTrue@cgBinopExp", "CheckErrorSelfAssign@cgAssignStat", "CheckErrorTableDuplicateKey@cgTableConstructorExp"] := by
  decide
#print axioms pattern_insert_sites

/-! ### CompExp -/

mutual
/-- an expression with every source location replaced by the zero location and every float numeral by
    the empty text (the float numerals are listed by `floats`; functions, table constructors, `noKey` and
    `bad` are kept as they are: CompExp never equates them) -/
def erase : Exp → Exp
  | .nil _ => .nil zeroLoc | .tru _ => .tru zeroLoc | .fls _ => .fls zeroLoc | .vararg _ => .vararg zeroLoc
  | .int v _ => .int v zeroLoc | .flt _ _ => .flt [] zeroLoc | .str s _ => .str s zeroLoc
  | .unop o e _ => .unop o (erase e) zeroLoc
  | .binop o a b _ => .binop o (erase a) (erase b) zeroLoc
  | .name n _ => .name n zeroLoc
  | .parens e _ => .parens (erase e) zeroLoc
  | .index p k _ => .index (erase p) (erase k) zeroLoc
  | .call p m a _ => .call (erase p) (m.map fun (n, _) => (n, zeroLoc)) (erases a) zeroLoc
  | e => e
def erases : List Exp → List Exp
  | [] => []
  | e :: r => erase e :: erases r
end

mutual
theorem compExp_sound : (a b : Exp) → compExp a b = true → erase a = erase b
  | .nil _, .nil _, _ => by simp [erase]
  | .fls _, .fls _, _ => by simp [erase]
  | .tru _, .tru _, _ => by simp [erase]
  | .vararg _, .vararg _, _ => by simp [erase]
  | .int x _, .int y _, h => by simp [compExp] at h; simp [erase, h]
  | .flt x _, .flt y _, _ => by simp [erase]
  | .str x _, .str y _, h => by simp [compExp] at h; simp [erase, h]
  | .name x _, .name y _, h => by simp [compExp] at h; simp [erase, h]
  | .parens x _, .parens y _, h => by
    simp only [compExp] at h; simp [erase, compExp_sound x y h]
  | .unop o1 x _, .unop o2 y _, h => by
    simp only [compExp, Bool.and_eq_true, beq_iff_eq] at h
    simp [erase, h.1, compExp_sound x y h.2]
  | .binop o1 x1 x2 _, .binop o2 y1 y2 _, h => by
    simp only [compExp, Bool.and_eq_true, beq_iff_eq] at h
    simp [erase, h.1.1, compExp_sound x1 y1 h.1.2, compExp_sound x2 y2 h.2]
  | .index p1 k1 _, .index p2 k2 _, h => by
    simp only [compExp, Bool.and_eq_true] at h
    simp [erase, compExp_sound p1 p2 h.1, compExp_sound k1 k2 h.2]
  | .call p1 m1 a1 _, .call p2 m2 a2 _, h => by
    simp only [compExp, Bool.and_eq_true] at h
    have hm : (m1.map fun (n, _) => (n, zeroLoc)) = (m2.map fun (n, _) => (n, zeroLoc)) := by
      cases m1 with
      | none => cases m2 with
        | none => rfl
        | some y => simp at h
      | some x => cases m2 with
        | none => simp at h
        | some y =>
          obtain ⟨n1, l1⟩ := x; obtain ⟨n2, l2⟩ := y
          have := h.1.2; simp at this; simp [this]
    simp [erase, compExp_sound p1 p2 h.1.1, hm, compExps_sound a1 a2 h.2]
  -- every other pair is rejected by CompExp
  | .noKey, _, h | .bad _, _, h | .func _, _, h | .table _ _ _, _, h => by simp [compExp] at h
  | .nil _, .noKey, h | .nil _, .tru _, h | .nil _, .fls _, h | .nil _, .vararg _, h | .nil _, .int _ _, h
  | .nil _, .flt _ _, h | .nil _, .str _ _, h | .nil _, .unop _ _ _, h | .nil _, .binop _ _ _ _, h
  | .nil _, .table _ _ _, h | .nil _, .func _, h | .nil _, .name _ _, h | .nil _, .parens _ _, h
  | .nil _, .index _ _ _, h | .nil _, .call _ _ _ _, h | .nil _, .bad _, h => by simp [compExp] at h
  | .tru _, .noKey, h | .tru _, .nil _, h | .tru _, .fls _, h | .tru _, .vararg _, h | .tru _, .int _ _, h
  | .tru _, .flt _ _, h | .tru _, .str _ _, h | .tru _, .unop _ _ _, h | .tru _, .binop _ _ _ _, h
  | .tru _, .table _ _ _, h | .tru _, .func _, h | .tru _, .name _ _, h | .tru _, .parens _ _, h
  | .tru _, .index _ _ _, h | .tru _, .call _ _ _ _, h | .tru _, .bad _, h => by simp [compExp] at h
  | .fls _, .noKey, h | .fls _, .nil _, h | .fls _, .tru _, h | .fls _, .vararg _, h | .fls _, .int _ _, h
  | .fls _, .flt _ _, h | .fls _, .str _ _, h | .fls _, .unop _ _ _, h | .fls _, .binop _ _ _ _, h
  | .fls _, .table _ _ _, h | .fls _, .func _, h | .fls _, .name _ _, h | .fls _, .parens _ _, h
  | .fls _, .index _ _ _, h | .fls _, .call _ _ _ _, h | .fls _, .bad _, h => by simp [compExp] at h
  | .vararg _, .noKey, h | .vararg _, .nil _, h | .vararg _, .tru _, h | .vararg _, .fls _, h | .vararg _, .int _ _, h
  | .vararg _, .flt _ _, h | .vararg _, .str _ _, h | .vararg _, .unop _ _ _, h | .vararg _, .binop _ _ _ _, h
  | .vararg _, .table _ _ _, h | .vararg _, .func _, h | .vararg _, .name _ _, h | .vararg _, .parens _ _, h
  | .vararg _, .index _ _ _, h | .vararg _, .call _ _ _ _, h | .vararg _, .bad _, h => by simp [compExp] at h
  | .int _ _, .noKey, h | .int _ _, .nil _, h | .int _ _, .tru _, h | .int _ _, .fls _, h | .int _ _, .vararg _, h
  | .int _ _, .flt _ _, h | .int _ _, .str _ _, h | .int _ _, .unop _ _ _, h | .int _ _, .binop _ _ _ _, h
  | .int _ _, .table _ _ _, h | .int _ _, .func _, h | .int _ _, .name _ _, h | .int _ _, .parens _ _, h
  | .int _ _, .index _ _ _, h | .int _ _, .call _ _ _ _, h | .int _ _, .bad _, h => by simp [compExp] at h
  | .flt _ _, .noKey, h | .flt _ _, .nil _, h | .flt _ _, .tru _, h | .flt _ _, .fls _, h | .flt _ _, .vararg _, h
  | .flt _ _, .int _ _, h | .flt _ _, .str _ _, h | .flt _ _, .unop _ _ _, h | .flt _ _, .binop _ _ _ _, h
  | .flt _ _, .table _ _ _, h | .flt _ _, .func _, h | .flt _ _, .name _ _, h | .flt _ _, .parens _ _, h
  | .flt _ _, .index _ _ _, h | .flt _ _, .call _ _ _ _, h | .flt _ _, .bad _, h => by simp [compExp] at h
  | .str _ _, .noKey, h | .str _ _, .nil _, h | .str _ _, .tru _, h | .str _ _, .fls _, h | .str _ _, .vararg _, h
  | .str _ _, .int _ _, h | .str _ _, .flt _ _, h | .str _ _, .unop _ _ _, h | .str _ _, .binop _ _ _ _, h
  | .str _ _, .table _ _ _, h | .str _ _, .func _, h | .str _ _, .name _ _, h | .str _ _, .parens _ _, h
  | .str _ _, .index _ _ _, h | .str _ _, .call _ _ _ _, h | .str _ _, .bad _, h => by simp [compExp] at h
  | .name _ _, .noKey, h | .name _ _, .nil _, h | .name _ _, .tru _, h | .name _ _, .fls _, h | .name _ _, .vararg _, h
  | .name _ _, .int _ _, h | .name _ _, .flt _ _, h | .name _ _, .str _ _, h | .name _ _, .unop _ _ _, h
  | .name _ _, .binop _ _ _ _, h | .name _ _, .table _ _ _, h | .name _ _, .func _, h | .name _ _, .parens _ _, h
  | .name _ _, .index _ _ _, h | .name _ _, .call _ _ _ _, h | .name _ _, .bad _, h => by simp [compExp] at h
  | .parens _ _, .noKey, h | .parens _ _, .nil _, h | .parens _ _, .tru _, h | .parens _ _, .fls _, h
  | .parens _ _, .vararg _, h | .parens _ _, .int _ _, h | .parens _ _, .flt _ _, h | .parens _ _, .str _ _, h
  | .parens _ _, .unop _ _ _, h | .parens _ _, .binop _ _ _ _, h | .parens _ _, .table _ _ _, h | .parens _ _, .func _, h
  | .parens _ _, .name _ _, h | .parens _ _, .index _ _ _, h | .parens _ _, .call _ _ _ _, h | .parens _ _, .bad _, h => by
    simp [compExp] at h
  | .unop _ _ _, .noKey, h | .unop _ _ _, .nil _, h | .unop _ _ _, .tru _, h | .unop _ _ _, .fls _, h
  | .unop _ _ _, .vararg _, h | .unop _ _ _, .int _ _, h | .unop _ _ _, .flt _ _, h | .unop _ _ _, .str _ _, h
  | .unop _ _ _, .binop _ _ _ _, h | .unop _ _ _, .table _ _ _, h | .unop _ _ _, .func _, h | .unop _ _ _, .name _ _, h
  | .unop _ _ _, .parens _ _, h | .unop _ _ _, .index _ _ _, h | .unop _ _ _, .call _ _ _ _, h | .unop _ _ _, .bad _, h => by
    simp [compExp] at h
  | .binop _ _ _ _, .noKey, h | .binop _ _ _ _, .nil _, h | .binop _ _ _ _, .tru _, h | .binop _ _ _ _, .fls _, h
  | .binop _ _ _ _, .vararg _, h | .binop _ _ _ _, .int _ _, h | .binop _ _ _ _, .flt _ _, h | .binop _ _ _ _, .str _ _, h
  | .binop _ _ _ _, .unop _ _ _, h | .binop _ _ _ _, .table _ _ _, h | .binop _ _ _ _, .func _, h | .binop _ _ _ _, .name _ _, h
  | .binop _ _ _ _, .parens _ _, h | .binop _ _ _ _, .index _ _ _, h | .binop _ _ _ _, .call _ _ _ _, h
  | .binop _ _ _ _, .bad _, h => by simp [compExp] at h
  | .index _ _ _, .noKey, h | .index _ _ _, .nil _, h | .index _ _ _, .tru _, h | .index _ _ _, .fls _, h
  | .index _ _ _, .vararg _, h | .index _ _ _, .int _ _, h | .index _ _ _, .flt _ _, h | .index _ _ _, .str _ _, h
  | .index _ _ _, .unop _ _ _, h | .index _ _ _, .binop _ _ _ _, h | .index _ _ _, .table _ _ _, h | .index _ _ _, .func _, h
  | .index _ _ _, .name _ _, h | .index _ _ _, .parens _ _, h | .index _ _ _, .call _ _ _ _, h | .index _ _ _, .bad _, h => by
    simp [compExp] at h
  | .call _ _ _ _, .noKey, h | .call _ _ _ _, .nil _, h | .call _ _ _ _, .tru _, h | .call _ _ _ _, .fls _, h
  | .call _ _ _ _, .vararg _, h | .call _ _ _ _, .int _ _, h | .call _ _ _ _, .flt _ _, h | .call _ _ _ _, .str _ _, h
  | .call _ _ _ _, .unop _ _ _, h | .call _ _ _ _, .binop _ _ _ _, h | .call _ _ _ _, .table _ _ _, h | .call _ _ _ _, .func _, h
  | .call _ _ _ _, .name _ _, h | .call _ _ _ _, .parens _ _, h | .call _ _ _ _, .index _ _ _, h | .call _ _ _ _, .bad _, h => by
    simp [compExp] at h
theorem compExps_sound : (a b : List Exp) → compExps a b = true → erases a = erases b
  | [], [], _ => rfl
  | x :: r, y :: s, h => by
    simp only [compExps, Bool.and_eq_true] at h
    simp [erases, compExp_sound x y h.1, compExps_sound r s h.2]
  | [], _ :: _, h => by simp [compExps] at h
  | _ :: _, [], h => by simp [compExps] at h
end
#print axioms compExp_sound


/-! ### float numerals: compared by value -/

mutual
/-- the float numerals of an expression, in source order -/
def floats : Exp → List Bytes
  | .flt t _ => [t]
  | .unop _ e _ => floats e
  | .binop _ a b _ => floats a ++ floats b
  | .parens e _ => floats e
  | .index p k _ => floats p ++ floats k
  | .call p _ a _ => floats p ++ floatss a
  | _ => []
def floatss : List Exp → List Bytes
  | [] => []
  | e :: r => floats e ++ floatss r
end

/-- pairwise equal values -/
def sameFloats : List Bytes → List Bytes → Prop
  | [], [] => True
  | x :: r, y :: s => fltEq x y = true ∧ sameFloats r s
  | _, _ => False

theorem sameFloats_append : ∀ (a b c d : List Bytes), sameFloats a b → sameFloats c d → sameFloats (a ++ c) (b ++ d)
  | [], [], _, _, _, h => by simpa using h
  | x :: r, y :: s, c, d, h1, h2 => ⟨h1.1, sameFloats_append r s c d h1.2 h2⟩
  | [], _ :: _, _, _, h, _ => by simp [sameFloats] at h
  | _ :: _, [], _, _, h, _ => by simp [sameFloats] at h

mutual
/-- the float numerals of two expressions equated by CompExp have pairwise the same value — with
    `compExp_sound`: CompExp only equates expressions that are identical up to source locations and the
    spelling of float numerals of equal value (`1.5` / `1.50`) -/
theorem compExp_floats : (a b : Exp) → compExp a b = true → sameFloats (floats a) (floats b)
  | .flt x _, .flt y _, h => by simp only [compExp] at h; exact ⟨h, trivial⟩
  | .parens x _, .parens y _, h => by
    simp only [compExp] at h; simpa [floats] using compExp_floats x y h
  | .unop o1 x _, .unop o2 y _, h => by
    simp only [compExp, Bool.and_eq_true] at h
    simpa [floats] using compExp_floats x y h.2
  | .binop o1 x1 x2 _, .binop o2 y1 y2 _, h => by
    simp only [compExp, Bool.and_eq_true] at h
    simp only [floats]
    exact sameFloats_append _ _ _ _ (compExp_floats x1 y1 h.1.2) (compExp_floats x2 y2 h.2)
  | .index p1 k1 _, .index p2 k2 _, h => by
    simp only [compExp, Bool.and_eq_true] at h
    simp only [floats]
    exact sameFloats_append _ _ _ _ (compExp_floats p1 p2 h.1) (compExp_floats k1 k2 h.2)
  | .call p1 m1 a1 _, .call p2 m2 a2 _, h => by
    simp only [compExp, Bool.and_eq_true] at h
    simp only [floats]
    exact sameFloats_append _ _ _ _ (compExp_floats p1 p2 h.1.1) (compExps_floats a1 a2 h.2)
  | .nil _, b, h | .tru _, b, h | .fls _, b, h | .vararg _, b, h | .int _ _, b, h | .str _ _, b, h | .name _ _, b, h
  | .noKey, b, h | .bad _, b, h | .func _, b, h | .table _ _ _, b, h => by
    cases b <;> simp [compExp] at h <;> simp [floats, sameFloats]
  | .flt _ _, .noKey, h | .flt _ _, .nil _, h | .flt _ _, .tru _, h | .flt _ _, .fls _, h | .flt _ _, .vararg _, h
  | .flt _ _, .int _ _, h | .flt _ _, .str _ _, h | .flt _ _, .unop _ _ _, h | .flt _ _, .binop _ _ _ _, h
  | .flt _ _, .table _ _ _, h | .flt _ _, .func _, h | .flt _ _, .name _ _, h | .flt _ _, .parens _ _, h
  | .flt _ _, .index _ _ _, h | .flt _ _, .call _ _ _ _, h | .flt _ _, .bad _, h => by simp [compExp] at h
  | .parens _ _, .noKey, h | .parens _ _, .nil _, h | .parens _ _, .tru _, h | .parens _ _, .fls _, h
  | .parens _ _, .vararg _, h | .parens _ _, .int _ _, h | .parens _ _, .flt _ _, h | .parens _ _, .str _ _, h
  | .parens _ _, .unop _ _ _, h | .parens _ _, .binop _ _ _ _, h | .parens _ _, .table _ _ _, h | .parens _ _, .func _, h
  | .parens _ _, .name _ _, h | .parens _ _, .index _ _ _, h | .parens _ _, .call _ _ _ _, h | .parens _ _, .bad _, h => by
    simp [compExp] at h
  | .unop _ _ _, .noKey, h | .unop _ _ _, .nil _, h | .unop _ _ _, .tru _, h | .unop _ _ _, .fls _, h
  | .unop _ _ _, .vararg _, h | .unop _ _ _, .int _ _, h | .unop _ _ _, .flt _ _, h | .unop _ _ _, .str _ _, h
  | .unop _ _ _, .binop _ _ _ _, h | .unop _ _ _, .table _ _ _, h | .unop _ _ _, .func _, h | .unop _ _ _, .name _ _, h
  | .unop _ _ _, .parens _ _, h | .unop _ _ _, .index _ _ _, h | .unop _ _ _, .call _ _ _ _, h | .unop _ _ _, .bad _, h => by
    simp [compExp] at h
  | .binop _ _ _ _, .noKey, h | .binop _ _ _ _, .nil _, h | .binop _ _ _ _, .tru _, h | .binop _ _ _ _, .fls _, h
  | .binop _ _ _ _, .vararg _, h | .binop _ _ _ _, .int _ _, h | .binop _ _ _ _, .flt _ _, h | .binop _ _ _ _, .str _ _, h
  | .binop _ _ _ _, .unop _ _ _, h | .binop _ _ _ _, .table _ _ _, h | .binop _ _ _ _, .func _, h | .binop _ _ _ _, .name _ _, h
  | .binop _ _ _ _, .parens _ _, h | .binop _ _ _ _, .index _ _ _, h | .binop _ _ _ _, .call _ _ _ _, h
  | .binop _ _ _ _, .bad _, h => by simp [compExp] at h
  | .index _ _ _, .noKey, h | .index _ _ _, .nil _, h | .index _ _ _, .tru _, h | .index _ _ _, .fls _, h
  | .index _ _ _, .vararg _, h | .index _ _ _, .int _ _, h | .index _ _ _, .flt _ _, h | .index _ _ _, .str _ _, h
  | .index _ _ _, .unop _ _ _, h | .index _ _ _, .binop _ _ _ _, h | .index _ _ _, .table _ _ _, h | .index _ _ _, .func _, h
  | .index _ _ _, .name _ _, h | .index _ _ _, .parens _ _, h | .index _ _ _, .call _ _ _ _, h | .index _ _ _, .bad _, h => by
    simp [compExp] at h
  | .call _ _ _ _, .noKey, h | .call _ _ _ _, .nil _, h | .call _ _ _ _, .tru _, h | .call _ _ _ _, .fls _, h
  | .call _ _ _ _, .vararg _, h | .call _ _ _ _, .int _ _, h | .call _ _ _ _, .flt _ _, h | .call _ _ _ _, .str _ _, h
  | .call _ _ _ _, .unop _ _ _, h | .call _ _ _ _, .binop _ _ _ _, h | .call _ _ _ _, .table _ _ _, h | .call _ _ _ _, .func _, h
  | .call _ _ _ _, .name _ _, h | .call _ _ _ _, .parens _ _, h | .call _ _ _ _, .index _ _ _, h | .call _ _ _ _, .bad _, h => by
    simp [compExp] at h
theorem compExps_floats : (a b : List Exp) → compExps a b = true → sameFloats (floatss a) (floatss b)
  | [], [], _ => trivial
  | x :: r, y :: s, h => by
    simp only [compExps, Bool.and_eq_true] at h
    simp only [floatss]
    exact sameFloats_append _ _ _ _ (compExp_floats x y h.1) (compExps_floats r s h.2)
  | [], _ :: _, h => by simp [compExps] at h
  | _ :: _, [], h => by simp [compExps] at h
end
#print axioms compExp_floats

/-- the value comparison is reflexive, and on decimal numerals it is equality of the rationals num / den -/
theorem fltEq_refl (t : Bytes) : fltEq t t = true := by
  unfold fltEq
  cases fltVal t with
  | none => simp
  | some v => obtain ⟨n, d⟩ := v; simp
#print axioms fltEq_refl

theorem fltEq_value (a b : Bytes) (n1 d1 n2 d2 : Nat) (ha : fltVal a = some (n1, d1)) (hb : fltVal b = some (n2, d2)) :
    fltEq a b = true ↔ n1 * d2 = n2 * d1 := by
  simp [fltEq, ha, hb]
#print axioms fltEq_value

/-- `1.5` and `1.50` are the same value, `0.1` and `0.1000001` are not (the former tolerance of 1e-6
    equated them), `1e2` is `100.0` -/
theorem fltEq_examples :
    fltEq [49, 46, 53] [49, 46, 53, 48] = true ∧                             -- 1.5, 1.50
    fltEq [48, 46, 49] [48, 46, 49, 48, 48, 48, 48, 48, 49] = false ∧        -- 0.1, 0.1000001
    fltEq [49, 101, 50] [49, 48, 48, 46, 48] = true ∧                        -- 1e2, 100.0
    fltEq [50, 53, 101, 45, 49] [50, 46, 53] = true := by decide             -- 25e-1, 2.5
#print axioms fltEq_examples

/-! ### reflexivity: what is always caught -/

mutual
/-- expressions CompExp can compare: no function definition, table constructor, `noKey`, error node -/
def plain : Exp → Bool
  | .nil _ | .tru _ | .fls _ | .vararg _ | .int _ _ | .flt _ _ | .str _ _ | .name _ _ => true
  | .unop _ e _ => plain e
  | .binop _ a b _ => plain a && plain b
  | .parens e _ => plain e
  | .index p k _ => plain p && plain k
  | .call p _ a _ => plain p && plains a
  | _ => false
def plains : List Exp → Bool
  | [] => true
  | e :: r => plain e && plains r
end

mutual
theorem compExp_refl : (e : Exp) → plain e = true → compExp e e = true
  | .nil _, _ | .tru _, _ | .fls _, _ | .vararg _, _ => by simp [compExp]
  | .int _ _, _ | .str _ _, _ | .name _ _, _ => by simp [compExp]
  | .flt t _, _ => by simp [compExp, fltEq_refl]
  | .unop _ e _, h => by simp only [plain] at h; simp [compExp, compExp_refl e h]
  | .parens e _, h => by simp only [plain] at h; simp [compExp, compExp_refl e h]
  | .binop _ a b _, h => by
    simp only [plain, Bool.and_eq_true] at h; simp [compExp, compExp_refl a h.1, compExp_refl b h.2]
  | .index a b _, h => by
    simp only [plain, Bool.and_eq_true] at h; simp [compExp, compExp_refl a h.1, compExp_refl b h.2]
  | .call p m a _, h => by
    simp only [plain, Bool.and_eq_true] at h
    have hm : (match m, m with
      | none, none => true
      | some (n1, _), some (n2, _) => n1 == n2
      | _, _ => false) = true := by
      cases m with
      | none => rfl
      | some x => obtain ⟨n, l⟩ := x; simp
    simp only [compExp, compExp_refl p h.1, compExps_refl a h.2, Bool.and_true, Bool.true_and]
    exact hm
  | .noKey, h | .bad _, h | .func _, h | .table _ _ _, h => by simp [plain] at h
theorem compExps_refl : (es : List Exp) → plains es = true → compExps es es = true
  | [], _ => rfl
  | e :: r, h => by
    simp only [plains, Bool.and_eq_true] at h
    simp [compExps, compExp_refl e h.1, compExps_refl r h.2]
end
#print axioms compExp_refl

/-- `v = v` is always reported as a self-assignment (type 20) when v is a plain expression -/
theorem self_assign_reported (v : Exp) (l : Loc) (h : plain v = true) :
    assignReps [v] [v] l = [{ ty := 20, loc := l }] := by
  simp [assignReps, compExp_refl v h]
#print axioms self_assign_reported

/-- type 20 is reported only when every target is, up to locations, its own value -/
theorem self_assign_sound (vars exps : List Exp) (l : Loc) (r : Rep)
    (h : r ∈ assignReps vars exps l) (h20 : r.ty = 20) :
    vars.length = exps.length ∧ ∀ p ∈ vars.zip exps, erase p.1 = erase p.2 := by
  unfold assignReps at h
  simp only at h
  split at h
  · simp at h; simp [h] at h20
  · split at h
    · split at h
      · simp at h; simp [h] at h20
      · simp at h
    · split at h
      · rename_i h1 h2 h3
        refine ⟨by omega, ?_⟩
        intro p hp
        have := (List.all_eq_true.mp h3) p hp
        exact compExp_sound p.1 p.2 (by simpa using this)
      · simp at h
#print axioms self_assign_sound

/-! ### duplicate parameters (13) and repeated conditions (19) -/

theorem dupParams_exact (ps : List (Bytes × Loc)) (r : Rep) :
    r ∈ dupParams ps ↔
      ∃ i j ni li nj lj, (i : Nat) < (j : Nat) ∧ ps[i]? = some (ni, li) ∧ ps[j]? = some (nj, lj) ∧
        nj ≠ [95] ∧ nj = ni ∧ r = { ty := 13, loc := lj } := by
  unfold dupParams
  simp only [List.mem_flatMap, List.mem_range, List.mem_filterMap]
  constructor
  · rintro ⟨i, hi, j, hj, h⟩
    split at h
    · rename_i hij
      split at h
      · rename_i ni li nj lj h1 h2
        split at h
        · rename_i hc
          simp at hc
          exact ⟨i, j, ni, li, nj, lj, hij, h1, h2, hc.1, hc.2, by simpa using h.symm⟩
        · simp at h
      · simp at h
    · simp at h
  · rintro ⟨i, j, ni, li, nj, lj, hij, h1, h2, hne, heq, hr⟩
    have hj : j < ps.length := by
      rcases Nat.lt_or_ge j ps.length with h | h
      · exact h
      · simp [List.getElem?_eq_none h] at h2
    refine ⟨i, by omega, j, hj, ?_⟩
    subst heq
    simp [hij, h1, h2, hne, hr]
#print axioms dupParams_exact

theorem dupIfs_exact (cs : List Exp) (r : Rep) :
    r ∈ dupIfs cs ↔
      ∃ i j ci cj, (i : Nat) < (j : Nat) ∧ cs[i]? = some ci ∧ cs[j]? = some cj ∧ compExp ci cj = true ∧
        r = { ty := 19, loc := expLoc cj } := by
  unfold dupIfs
  simp only [List.mem_flatMap, List.mem_range, List.mem_filterMap]
  constructor
  · rintro ⟨i, hi, j, hj, h⟩
    split at h
    · rename_i hij
      split at h
      · rename_i ci cj h1 h2
        split at h
        · rename_i hc
          exact ⟨i, j, ci, cj, hij, h1, h2, hc, by simpa using h.symm⟩
        · simp at h
      · simp at h
    · simp at h
  · rintro ⟨i, j, ci, cj, hij, h1, h2, hc, hr⟩
    have hj : j < cs.length := by
      rcases Nat.lt_or_ge j cs.length with h | h
      · exact h
      · simp [List.getElem?_eq_none h] at h2
    refine ⟨i, by omega, j, hj, ?_⟩
    simp [hij, h1, h2, hc, hr]
#print axioms dupIfs_exact

/-- a repeated condition is a real repetition: the two conditions are the same expression up to
    locations (no false positive of type 19) -/
theorem dupIfs_sound (cs : List Exp) (r : Rep) (h : r ∈ dupIfs cs) :
    ∃ i j ci cj, (i : Nat) < (j : Nat) ∧ cs[i]? = some ci ∧ cs[j]? = some cj ∧ erase ci = erase cj := by
  obtain ⟨i, j, ci, cj, hij, h1, h2, hc, _⟩ := (dupIfs_exact cs r).mp h
  exact ⟨i, j, ci, cj, hij, h1, h2, compExp_sound ci cj hc⟩
#print axioms dupIfs_sound

/-! ### binary-operator checks at one node -/

theorem ty_r15 (op a b) : ∀ r ∈ r15 op a b, r.ty = 15 := by unfold r15; intro r h; split at h <;> simp at h; simp [h]
theorem ty_r16 (op a b) : ∀ r ∈ r16 op a b, r.ty = 16 := by unfold r16; intro r h; split at h <;> simp at h; simp [h]
theorem ty_r21 (op a b l) : ∀ r ∈ r21 op a b l, r.ty = 21 := by unfold r21; intro r h; split at h <;> simp at h; simp [h]
theorem ty_r14 (op a b) : ∀ r ∈ r14 op a b, r.ty = 14 := by unfold r14; intro r h; split at h <;> simp at h; simp [h]

/-- `x or true` (type 15) is reported at a node iff the operator is `or`, an operand is the literal
    `true`, and both operands are located -/
theorem orTrue_exact (op : TK) (a b : Exp) (l : Loc) :
    (∃ r ∈ binopReps op a b l, r.ty = 15) ↔ (op = .or ∧ (isTrue a || isTrue b) = true ∧ located a b = true) := by
  unfold binopReps
  constructor
  · rintro ⟨r, hr, h15⟩
    simp only [List.mem_append] at hr
    rcases hr with ((hr | hr) | hr) | hr
    · unfold r15 at hr
      split at hr
      · rename_i hc; simpa [Bool.and_eq_true, and_assoc] using hc
      · simp at hr
    · have := ty_r16 _ _ _ r hr; omega
    · have := ty_r21 _ _ _ _ r hr; omega
    · have := ty_r14 _ _ _ r hr; omega
  · rintro ⟨h1, h2, h3⟩
    refine ⟨{ ty := 15, loc := spanLoc a b }, ?_, rfl⟩
    simp only [List.mem_append]
    left; left; left
    simp [r15, h1, h2, h3]
#print axioms orTrue_exact

theorem andFalse_exact (op : TK) (a b : Exp) (l : Loc) :
    (∃ r ∈ binopReps op a b l, r.ty = 16) ↔ (op = .and ∧ (isFalse a || isFalse b) = true ∧ located a b = true) := by
  unfold binopReps
  constructor
  · rintro ⟨r, hr, h15⟩
    simp only [List.mem_append] at hr
    rcases hr with ((hr | hr) | hr) | hr
    · have := ty_r15 _ _ _ r hr; omega
    · unfold r16 at hr
      split at hr
      · rename_i hc; simpa [Bool.and_eq_true, and_assoc] using hc
      · simp at hr
    · have := ty_r21 _ _ _ _ r hr; omega
    · have := ty_r14 _ _ _ r hr; omega
  · rintro ⟨h1, h2, h3⟩
    refine ⟨{ ty := 16, loc := spanLoc a b }, ?_, rfl⟩
    simp only [List.mem_append]
    left; left; right
    simp [r16, h1, h2, h3]
#print axioms andFalse_exact

theorem floatEq_exact (op : TK) (a b : Exp) (l : Loc) :
    (∃ r ∈ binopReps op a b l, r.ty = 21) ↔ ((op = .eq ∨ op = .ne) ∧ (isFloat a || isFloat b) = true) := by
  unfold binopReps
  constructor
  · rintro ⟨r, hr, h15⟩
    simp only [List.mem_append] at hr
    rcases hr with ((hr | hr) | hr) | hr
    · have := ty_r15 _ _ _ r hr; omega
    · have := ty_r16 _ _ _ r hr; omega
    · unfold r21 at hr
      split at hr
      · rename_i hc; simpa [Bool.and_eq_true, and_assoc] using hc
      · simp at hr
    · have := ty_r14 _ _ _ r hr; omega
  · rintro ⟨h1, h2⟩
    refine ⟨{ ty := 21, loc := l }, ?_, rfl⟩
    simp only [List.mem_append]
    left; right
    rcases h1 with h1 | h1 <;> simp [r21, h1, h2]
#print axioms floatEq_exact

/-- every diagnostic of a binary node covers exactly the node (21) or the span of its operands -/
theorem binop_range (op : TK) (a b : Exp) (l : Loc) :
    ∀ r ∈ binopReps op a b l, r.loc = l ∨ r.loc = spanLoc a b := by
  intro r hr
  unfold binopReps at hr
  simp only [List.mem_append] at hr
  rcases hr with ((hr | hr) | hr) | hr
  · unfold r15 at hr; split at hr <;> simp at hr; simp [hr]
  · unfold r16 at hr; split at hr <;> simp at hr; simp [hr]
  · unfold r21 at hr; split at hr <;> simp at hr; simp [hr]
  · unfold r14 at hr; split at hr <;> simp at hr; simp [hr]
#print axioms binop_range

/-! ### arity checks (7 / 8) -/

theorem assign_arity_exact (vars exps : List Exp) (l : Loc) :
    (∃ r ∈ assignReps vars exps l, r.ty = 7) ↔
      (vars.length < exps.length ∨ (exps.length < vars.length ∧ exps.all isOneValue = true)) := by
  unfold assignReps
  simp only
  split
  · simp; omega
  · split
    · split
      · rename_i h1 h2 h3; simp; right; exact ⟨by omega, by simpa using h3⟩
      · rename_i h1 h2 h3; simp; refine ⟨by omega, ?_⟩; intro _; simpa using h3
    · split
      · simp; omega
      · simp; omega
#print axioms assign_arity_exact

theorem local_arity_exact (n : Nat) (exps : List Exp) (l : Loc) :
    (∃ r ∈ localReps n exps l, r.ty = 8) ↔
      (n < exps.length ∨ (exps.length < n ∧ 0 < exps.length ∧ exps.all isOneValue = true)) := by
  unfold localReps
  simp only
  split
  · simp; omega
  · split
    · rename_i h1 h2; simp at h2; simp; right; exact ⟨by omega, by omega, h2.2⟩
    · rename_i h1 h2; simp at h2; simp; refine ⟨by omega, ?_⟩; intro h3 h4; exact h2 h3 h4
#print axioms local_arity_exact


/-! ### type 5: duplicate keys of a table constructor -/

/-- the key strings of two keys are equal exactly when the keys are the same constant expression (CompExp: the same
    integer, string, bracketed name, boolean, float VALUE, or the same unary operator on such a key): the encodings
    ("#int" + digits, '"' + text, "!" + name, "#true", "#false", "#flt" + value, "#op" n ":" key) are injective
    and pairwise disjoint -/
theorem keyStr_same (k1 k2 : Exp) (p : Loc) (s1 s2 : Bytes) (l1 l2 : Loc)
    (h1 : keyStr k1 p = some (s1, l1)) (h2 : keyStr k2 p = some (s2, l2)) :
    s1 = s2 ↔ compExp k1 k2 = true := keyStr_eq_iff p k1 k2 s1 s2 l1 l2 h1 h2
#print axioms keyStr_same

/-- a key has a key string exactly when it is a constant key in the sense of the specification -/
theorem keyStr_defined_iff (k : Exp) (p : Loc) : (keyStr k p).isSome = PatSpec.litKey k := keyStr_isSome p k
#print axioms keyStr_defined_iff

theorem dupFrom_mem (parent : Loc) (r : Rep) : ∀ (ks : List Exp) (seen : List Bytes),
    r ∈ dupFrom parent ks seen ↔
      ∃ pre k post s l, ks = pre ++ k :: post ∧ keyStr k parent = some (s, l) ∧ r = { ty := 5, loc := l, tag := s } ∧
        (s ∈ seen ∨ ∃ k' ∈ pre, ∃ l', keyStr k' parent = some (s, l'))
  | [], seen => by simp [dupFrom]
  | k0 :: rest, seen => by
    unfold dupFrom
    cases hk : keyStr k0 parent with
    | none =>
      simp only
      rw [dupFrom_mem parent r rest seen]
      constructor
      · rintro ⟨pre, k, post, s, l, hs, hks, hr, hw⟩
        refine ⟨k0 :: pre, k, post, s, l, by simp [hs], hks, hr, ?_⟩
        rcases hw with hw | ⟨k', hk', l', hl'⟩
        · exact Or.inl hw
        · exact Or.inr ⟨k', by simp [hk'], l', hl'⟩
      · rintro ⟨pre, k, post, s, l, hs, hks, hr, hw⟩
        cases pre with
        | nil =>
          simp at hs
          rw [← hs.1, hk] at hks
          cases hks
        | cons p pre' =>
          simp at hs
          obtain ⟨rfl, rfl⟩ := hs
          refine ⟨pre', k, post, s, l, rfl, hks, hr, ?_⟩
          rcases hw with hw | ⟨k', hk', l', hl'⟩
          · exact Or.inl hw
          · simp at hk'
            rcases hk' with rfl | hk'
            · rw [hk] at hl'; cases hl'
            · exact Or.inr ⟨k', hk', l', hl'⟩
    | some v =>
      obtain ⟨s0, l0⟩ := v
      simp only
      by_cases hs0 : seen.contains s0 = true
      · simp only [hs0, if_true, List.mem_cons]
        rw [dupFrom_mem parent r rest seen]
        have hmem : s0 ∈ seen := by simpa using hs0
        constructor
        · rintro (hr | ⟨pre, k, post, s, l, hs, hks, hr, hw⟩)
          · exact ⟨[], k0, rest, s0, l0, rfl, hk, hr, Or.inl hmem⟩
          · refine ⟨k0 :: pre, k, post, s, l, by simp [hs], hks, hr, ?_⟩
            rcases hw with hw | ⟨k', hk', l', hl'⟩
            · exact Or.inl hw
            · exact Or.inr ⟨k', by simp [hk'], l', hl'⟩
        · rintro ⟨pre, k, post, s, l, hs, hks, hr, hw⟩
          cases pre with
          | nil =>
            simp at hs
            rw [← hs.1, hk] at hks
            simp at hks
            left; rw [hr, hks.2, hks.1]
          | cons p pre' =>
            simp at hs
            obtain ⟨rfl, rfl⟩ := hs
            right
            refine ⟨pre', k, post, s, l, rfl, hks, hr, ?_⟩
            rcases hw with hw | ⟨k', hk', l', hl'⟩
            · exact Or.inl hw
            · simp at hk'
              rcases hk' with rfl | hk'
              · rw [hk] at hl'; simp at hl'; rw [← hl'.1]; exact Or.inl hmem
              · exact Or.inr ⟨k', hk', l', hl'⟩
      · simp only [hs0, Bool.false_eq_true, if_false]
        rw [dupFrom_mem parent r rest (s0 :: seen)]
        have hnm : s0 ∉ seen := by simpa using hs0
        constructor
        · rintro ⟨pre, k, post, s, l, hs, hks, hr, hw⟩
          refine ⟨k0 :: pre, k, post, s, l, by simp [hs], hks, hr, ?_⟩
          rcases hw with hw | ⟨k', hk', l', hl'⟩
          · simp at hw
            rcases hw with rfl | hw
            · exact Or.inr ⟨k0, by simp, l0, hk⟩
            · exact Or.inl hw
          · exact Or.inr ⟨k', by simp [hk'], l', hl'⟩
        · rintro ⟨pre, k, post, s, l, hs, hks, hr, hw⟩
          cases pre with
          | nil =>
            simp at hs
            rw [← hs.1, hk] at hks
            simp at hks
            rcases hw with hw | ⟨k', hk', _⟩
            · rw [← hks.1] at hw; exact absurd hw hnm
            · simp at hk'
          | cons p pre' =>
            simp at hs
            obtain ⟨rfl, rfl⟩ := hs
            refine ⟨pre', k, post, s, l, rfl, hks, hr, ?_⟩
            rcases hw with hw | ⟨k', hk', l', hl'⟩
            · exact Or.inl (by simp [hw])
            · simp at hk'
              rcases hk' with rfl | hk'
              · rw [hk] at hl'; simp at hl'; exact Or.inl (by simp [hl'.1])
              · exact Or.inr ⟨k', hk', l', hl'⟩

/-- type 5, for every constructor: a key is reported exactly when an earlier key of the same constructor
    has the same key string; the report is at the key (at the constructor for an integer key) -/
theorem dupKeys_exact (keys : List Exp) (parent : Loc) (r : Rep) :
    r ∈ dupKeys keys parent ↔
      ∃ pre k post s l, keys = pre ++ k :: post ∧ keyStr k parent = some (s, l) ∧ r = { ty := 5, loc := l, tag := s } ∧
        ∃ k' ∈ pre, ∃ l', keyStr k' parent = some (s, l') := by
  rw [dupKeys_eq, dupFrom_mem]
  simp
#print axioms dupKeys_exact

/-- with `keyStr_same`: the earlier key is the same constant key -/
theorem dupKeys_sameKey (keys : List Exp) (parent : Loc) (r : Rep) (h : r ∈ dupKeys keys parent) :
    ∃ pre k post, keys = pre ++ k :: post ∧ PatSpec.litKey k = true ∧ ∃ k' ∈ pre, compExp k' k = true := by
  obtain ⟨pre, k, post, s, l, hs, hk, _, k', hk', l', hl'⟩ := (dupKeys_exact keys parent r).1 h
  refine ⟨pre, k, post, hs, ?_, k', hk', (keyStr_same k' k parent s s l' l hl' hk).1 rfl⟩
  rw [← keyStr_defined_iff k parent, hk]; rfl
#print axioms dupKeys_sameKey

/-- type 5 is EXACTLY what the specification Spec/Pat.lean asks for (since the repair of finding K2, which added
    boolean, float and unary-operator keys): a constant key is reported iff an earlier key of the same constructor
    is the same constant expression -/
theorem dupKeys_iff_spec (keys : List Exp) (parent : Loc) (r : Rep) :
    r ∈ dupKeys keys parent ↔ r ∈ PatSpec.specDupKeys keys parent := by
  rw [dupKeys_exact]
  unfold PatSpec.specDupKeys
  simp only [List.mem_filterMap, List.mem_range]
  constructor
  · rintro ⟨pre, k, post, s, l, hs, hk, hr, k', hk', l', hl'⟩
    refine ⟨pre.length, by rw [hs]; simp, ?_⟩
    have hget : keys[pre.length]? = some k := by rw [hs]; simp
    have htake : keys.take pre.length = pre := by rw [hs]; simp
    have hlit : PatSpec.litKey k = true := by rw [← keyStr_defined_iff k parent, hk]; rfl
    have hany : (pre.any fun ki => compExp ki k) = true := by
      rw [List.any_eq_true]
      exact ⟨k', hk', (keyStr_same k' k parent s s l' l hl' hk).1 rfl⟩
    rw [hget]
    simp only [htake, hlit, hany, Bool.and_self, if_true, hk, hr, Option.some.injEq]
    rw [keyStr_loc parent k s l hk]
  · rintro ⟨j, hj, hrep⟩
    cases hget : keys[j]? with
    | none => rw [hget] at hrep; simp at hrep
    | some k =>
      rw [hget] at hrep
      simp only at hrep
      split at hrep
      · rename_i hc
        simp only [Bool.and_eq_true, List.any_eq_true] at hc
        obtain ⟨hlit, k', hk', hcomp⟩ := hc
        have hsome : (keyStr k parent).isSome = true := by rw [keyStr_defined_iff]; exact hlit
        cases hk : keyStr k parent with
        | none => rw [hk] at hsome; cases hsome
        | some v =>
          obtain ⟨s, l⟩ := v
          have hlit' := compExp_litKey k' k hcomp hlit
          have hsome' : (keyStr k' parent).isSome = true := by rw [keyStr_defined_iff]; exact hlit'
          cases hk2 : keyStr k' parent with
          | none => rw [hk2] at hsome'; cases hsome'
          | some v' =>
            obtain ⟨s', l'⟩ := v'
            have hss : s' = s := (keyStr_same k' k parent s' s l' l hk2 hk).2 hcomp
            have hsplit : keys = keys.take j ++ k :: keys.drop (j + 1) := by
              have hjl : j < keys.length := hj
              have : keys[j] = k := by
                have := List.getElem?_eq_getElem hjl
                rw [this] at hget; exact Option.some.inj hget
              rw [← this, List.getElem_cons_drop, List.take_append_drop]
            refine ⟨keys.take j, k, keys.drop (j + 1), s, l, hsplit, hk, ?_, k', hk', l', by rw [hk2, hss]⟩
            rw [hk] at hrep
            simp only [Option.some.injEq] at hrep
            rw [← hrep, keyStr_loc parent k s l hk]
      · cases hrep
#print axioms dupKeys_iff_spec

/-- the former false positives: a string key never equals a name key or an integer key, whatever its
    text (`{ ["!x"] = 1, [x] = 2 }`, `{ ["#int1"] = 1, [1] = 2 }`), and the empty string key is a key -/
theorem string_key_is_not_name_key (s n : Bytes) (l1 l2 p : Loc) :
    dupKeys [.str s l1, .name n l2] p = [] := by
  simp [dupKeys, dupKeys.go, keyStr]
theorem string_key_is_not_int_key (s : Bytes) (v : Int) (l1 l2 p : Loc) :
    dupKeys [.str s l1, .int v l2] p = [] := by
  simp [dupKeys, dupKeys.go, keyStr, intKeyPrefix]
theorem empty_string_key_checked (l1 l2 p : Loc) :
    dupKeys [.str [] l1, .str [] l2] p = [{ ty := 5, loc := l2, tag := [34] }] := by
  simp [dupKeys, dupKeys.go, keyStr]
#print axioms string_key_is_not_name_key
#print axioms string_key_is_not_int_key
#print axioms empty_string_key_checked

/-- the former finding C20-K2, repaired: duplicate boolean, float (equal VALUE, whatever the spelling) and
    negated keys are reported -/
theorem K2_repaired (l1 l2 p : Loc) :
    dupKeys [.tru l1, .tru l2] p = [{ ty := 5, loc := l2, tag := trueKey }] ∧
    dupKeys [.tru l1, .fls l2] p = [] := by
  refine ⟨by simp [dupKeys, dupKeys.go, keyStr], by simp [dupKeys, dupKeys.go, keyStr, trueKey, falseKey]⟩
/-- 1.5 and 15e-1 are one key (the value decides, not the spelling), -1 twice is one key, 1 and -1 are two -/
theorem K2_repaired_values (l1 l2 l3 l4 p : Loc) :
    dupKeys [.flt [49, 46, 53] l1, .flt [49, 53, 101, 45, 49] l2] p =
      [{ ty := 5, loc := l2, tag := fltKeyPrefix ++ fltKey [49, 53, 101, 45, 49] }] ∧
    (dupKeys [.unop .minus (.int 1 l1) l2, .unop .minus (.int 1 l3) l4] p).map (·.loc) = [l4] ∧
    dupKeys [.int 1 l1, .unop .minus (.int 1 l3) l4] p = [] := by
  have h : fltKey [49, 46, 53] = fltKey [49, 53, 101, 45, 49] := (fltKey_eq_iff _ _).2 (by decide)
  refine ⟨by simp [dupKeys, dupKeys.go, keyStr, h], by simp [dupKeys, dupKeys.go, keyStr],
    by simp [dupKeys, dupKeys.go, keyStr, intKeyPrefix, opKeyPrefix]⟩
#print axioms K2_repaired_values
#print axioms K2_repaired

/-! ### type 14: identical operands -/

/-- an access path: names and string keys (no '#' in them), table accesses, redundant parentheses -/
def pathLike : Exp → Bool
  | .name n _ => !n.contains 35
  | .str s _ => !s.contains 35
  | .parens e _ => pathLike e
  | .index p k _ => pathLike p && pathLike k
  | _ => false

/-- an access path without its redundant parentheses -/
def strip : Exp → Exp
  | .parens e _ => strip e
  | .index p k l => .index (strip p) (strip k) l
  | e => e

/-- the name filter of the same-operand check lets exactly the access paths through -/
theorem hash_iff : (e : Exp) → (containsHash (expName e) = false ↔ pathLike e = true)
  | .name n _ => by simp [containsHash, expName, pathLike]
  | .str s _ => by simp [containsHash, expName, pathLike]
  | .parens e _ => by simpa [expName, pathLike] using hash_iff e
  | .index p k _ => by
    have h1 := hash_iff p
    have h2 := hash_iff k
    simp [containsHash] at h1 h2
    simp [containsHash, expName, pathLike, h1, h2]
  | .nil _ | .tru _ | .fls _ | .vararg _ | .int _ _ | .flt _ _ | .unop _ _ _ | .binop _ _ _ _
  | .table _ _ _ | .func _ | .call _ _ _ _ | .bad _ | .noKey => by
    simp [containsHash, expName, pathLike, hashTag]
#print axioms hash_iff

theorem expName_strip : (e : Exp) → expName (strip e) = expName e
  | .parens e _ => by simpa [strip, expName] using expName_strip e
  | .index p k _ => by simp [strip, expName, expName_strip p, expName_strip k]
  | .nil _ | .tru _ | .fls _ | .vararg _ | .int _ _ | .flt _ _ | .unop _ _ _ | .binop _ _ _ _
  | .table _ _ _ | .func _ | .call _ _ _ _ | .bad _ | .noKey | .name _ _ | .str _ _ => by simp [strip]

theorem expName_erase : (e : Exp) → expName (erase e) = expName e
  | .parens e _ => by simpa [erase, expName] using expName_erase e
  | .index p k _ => by simp [erase, expName, expName_erase p, expName_erase k]
  | .nil _ | .tru _ | .fls _ | .vararg _ | .int _ _ | .flt _ _ | .unop _ _ _ | .binop _ _ _ _
  | .table _ _ _ | .func _ | .call _ _ _ _ | .bad _ | .noKey | .name _ _ | .str _ _ => by simp [erase, expName]

/-- the confirmation step only accepts operands that are the same expression up to source locations and
    redundant parentheses -/
theorem sameOperand_sound (a b : Exp) : sameOperand a b = true → erase (strip a) = erase (strip b) := by
  fun_induction sameOperand a b with
  | case1 a l b ih => intro h; simpa [strip] using ih h
  | case2 a b l hn ih => intro h; simpa [strip] using ih h
  | case3 p1 k1 l1 p2 k2 l2 ih1 ih2 =>
    intro h
    simp only [Bool.and_eq_true] at h
    simp [strip, erase, ih1 h.1, ih2 h.2]
  | case4 a b h1 h2 h3 =>
    intro h
    have hs := compExp_sound a b h
    cases a <;> cases b <;> first | (exact (h3 _ _ _ _ _ _ rfl rfl).elim) | simp_all [strip, compExp]
#print axioms sameOperand_sound

/-- … and it accepts every pair of access paths that are the same up to locations and parentheses -/
theorem sameOperand_complete (a b : Exp) : pathLike a = true → pathLike b = true →
    erase (strip a) = erase (strip b) → sameOperand a b = true := by
  fun_induction sameOperand a b with
  | case1 a l b ih => intro ha hb h; exact ih (by simpa [pathLike] using ha) hb (by simpa [strip] using h)
  | case2 a b l hn ih => intro ha hb h; exact ih ha (by simpa [pathLike] using hb) (by simpa [strip] using h)
  | case3 p1 k1 l1 p2 k2 l2 ih1 ih2 =>
    intro ha hb h
    simp only [pathLike, Bool.and_eq_true] at ha hb
    simp only [strip, erase, Exp.index.injEq, and_true] at h
    simp [ih1 ha.1 hb.1 h.1, ih2 ha.2 hb.2 h.2]
  | case4 a b h1 h2 h3 =>
    intro ha hb h
    cases a <;> cases b <;> first | (exact (h3 _ _ _ _ _ _ rfl rfl).elim) | simp_all [strip, compExp, pathLike, erase]
#print axioms sameOperand_complete

/-- type 14, for every binary node: it is reported exactly when the operator is a comparison / and / or,
    both operands are access paths, and they are the same path up to source locations and redundant
    parentheses; the report spans both operands -/
theorem sameOperands_exact (op : TK) (a b : Exp) (r : Rep) :
    r ∈ r14 op a b ↔
      r = { ty := 14, loc := spanLoc a b } ∧ isCmp op = true ∧ located a b = true ∧
        pathLike a = true ∧ pathLike b = true ∧ erase (strip a) = erase (strip b) := by
  unfold r14
  constructor
  · intro h
    split at h
    · rename_i hc
      simp only [Bool.and_eq_true, Bool.not_eq_true', beq_iff_eq] at hc
      obtain ⟨⟨⟨⟨⟨h1, h2⟩, h3⟩, h4⟩, h5⟩, h6⟩ := hc
      simp at h
      exact ⟨h, h1, h6, (hash_iff a).1 h2, (hash_iff b).1 h3, sameOperand_sound a b h5⟩
    · simp at h
  · rintro ⟨hr, h1, h6, ha, hb, he⟩
    have hn : expName a = expName b := by
      rw [← expName_strip a, ← expName_erase (strip a), he, expName_erase, expName_strip]
    have h2 := (hash_iff a).2 ha
    have h3 := (hash_iff b).2 hb
    have h5 := sameOperand_complete a b ha hb he
    simp [h1, h2, h3, hn, h5, h6, hr]
#print axioms sameOperands_exact

/-- the former false positives: a name and a string literal are never the same operand, whatever the
    text of the string (`x == "!x"`); a dotted string key is not a chain of keys (`t["b.c"] == t.b.c`) -/
theorem name_vs_string_not_same (op : TK) (n s : Bytes) (l1 l2 : Loc) :
    r14 op (.name n l1) (.str s l2) = [] := by
  apply List.eq_nil_iff_forall_not_mem.2
  intro r h
  have := ((sameOperands_exact op _ _ r).1 h).2.2.2.2.2
  simp [strip, erase] at this
theorem dotted_key_not_chain (op : TK) (t s b c : Bytes) (l1 l2 l3 l4 l5 l6 l7 l8 : Loc) :
    r14 op (.index (.name t l1) (.str s l2) l3) (.index (.index (.name t l4) (.str b l5) l6) (.str c l7) l8) = [] := by
  apply List.eq_nil_iff_forall_not_mem.2
  intro r h
  have := ((sameOperands_exact op _ _ r).1 h).2.2.2.2.2
  simp [strip, erase] at this
#print axioms name_vs_string_not_same
#print axioms dotted_key_not_chain

/-- finding C20-K1 (model = implementation ≠ property): identical operands that are not access paths
    (`1 == 1`, `t[1] == t[1]`, `f() == f()`, `x + 1 == x + 1`) are not reported -/
theorem K1_witness (op : TK) (v : Int) (l1 l2 : Loc) : r14 op (.int v l1) (.int v l2) = [] := by
  apply List.eq_nil_iff_forall_not_mem.2
  intro r h
  have := ((sameOperands_exact op _ _ r).1 h).2.2.2.1
  simp [pathLike] at this
#print axioms K1_witness

/-! ### the model's type-14 reports lie within the wider specification Spec/Pat.lean -/

theorem sameOperand_spec (a b : Exp) : pathLike a = true → pathLike b = true → sameOperand a b = true →
    compExp (PatSpec.stripAll a) (PatSpec.stripAll b) = true := by
  fun_induction sameOperand a b with
  | case1 a l b ih => intro ha hb h; simpa [PatSpec.stripAll] using ih (by simpa [pathLike] using ha) hb h
  | case2 a b l hn ih => intro ha hb h; simpa [PatSpec.stripAll] using ih ha (by simpa [pathLike] using hb) h
  | case3 p1 k1 l1 p2 k2 l2 ih1 ih2 =>
    intro ha hb h
    simp only [pathLike, Bool.and_eq_true] at ha hb h
    simp [PatSpec.stripAll, compExp, ih1 ha.1 hb.1 h.1, ih2 ha.2 hb.2 h.2]
  | case4 a b h1 h2 h3 =>
    intro ha hb h
    cases a <;> cases b <;> first | (exact (h3 _ _ _ _ _ _ rfl rfl).elim) | simp_all [PatSpec.stripAll, compExp, pathLike]

/-- every type-14 report of the model is one the specification asks for -/
theorem model14_within_spec (op : TK) (a b : Exp) (r : Rep) (h : r ∈ r14 op a b) : r ∈ PatSpec.spec14 op a b := by
  have hx := (sameOperands_exact op a b r).1 h
  obtain ⟨hr, h1, h6, ha, hb, he⟩ := hx
  have hs := sameOperand_spec a b ha hb (sameOperand_complete a b ha hb he)
  simp [PatSpec.spec14, h1, h6, hs, hr]
#print axioms model14_within_spec

/-! ### type 19 and the else branch -/

/-- the `true` the parser stores for a plain else branch is not compared: the repeated-condition reports of
    `if c1 … elseif cn … else … end` are those of c1 … cn -/
theorem else_not_compared (cs : List Exp) (e : Exp) (bs : List Block) (l : Loc) (r : Rep) (h19 : r.ty = 19) :
    r ∈ pStat (.if_ (cs ++ [e]) bs true l) ↔ (r ∈ dupIfs cs ∨ r ∈ (cs ++ [e]).flatMap pExp ∨ r ∈ bs.flatMap pBlock) := by
  simp [pStat, List.dropLast_concat, or_assoc]
#print axioms else_not_compared

/-- `if true then … else … end` reports nothing (it used to report the else keyword) -/
theorem if_true_else_clean (l1 l2 : Loc) :
    dupIfs ([Exp.tru l1, Exp.tru l2].dropLast) = [] := by
  simp [dupIfs]
#print axioms if_true_else_clean

end LuaHelper.C20
