/-
C20 — "Pattern-based semantic checks fire exactly where their pattern occurs".

Model: Model/Pat.lean (the ten first-pass checks + CompExp / GetExpName / GetTableConstuctorKeyStr /
IsOneValueType as written in the Go code), tied to the code by comparing, on programs with planted
instances and near-misses, the real diagnostics (type and range, as multisets) with the model's.
Proved here, for ALL expressions / parameter lists / statements:
 * `compExp_sound`  : the structural comparison used by "repeated if condition" (19) and
   "self-assignment" (20) only equates expressions that are identical up to source locations
   — no false positives; `compExp_refl`: it equates every function-free, constructor-free expression
   with itself — `x = x`, `a.b[1] = a.b[1]`, `if c then elseif c` are always caught;
 * `dupParams_exact` : a type-13 report at parameter j ⇔ an earlier parameter has the same name (≠ "_");
 * `orTrue_exact`, `andFalse_exact`, `floatEq_exact` : reports of 15 / 16 / 21 at a binary node ⇔ the
   documented shape;
 * `arity_exact` : 7 / 8 ⇔ more values than targets, or fewer values all of which are single-valued.
-/
import LuaHelper.Model.Pat
import LuaHelper.Gen.Shapes
namespace LuaHelper.C20
open LuaHelper.Lex LuaHelper.Ast LuaHelper.Pat

/-- where the ten pattern diagnostics are produced, as the code stands in /repo now (regenerated every
    run): each type is inserted by exactly the traversal function the model's `pExp` / `pStat` cases are
    written after (7 and 8 twice: too many / too few values) -/
theorem pattern_insert_sites :
    Gen.patternInserts =
      ["CheckErrorAndAlwaysFalse@cgBinopExp", "CheckErrorAssignParamNum@cgAssignStat", "CheckErrorAssignParamNum@cgAssignStat",
       "CheckErrorDuplicateExp@cgBinopExp", "CheckErrorDuplicateIf@cgIfStat", "CheckErrorDuplicateParam@checkDuplicateFunParam",
       "CheckErrorFloatEq@cgBinopExp", "CheckErrorLocalParamNum@cgLocalVarDeclStat", "CheckErrorLocalParamNum@cgLocalVarDeclStat",
       "CheckErrorOrAlwaysTrue@cgBinopExp", "CheckErrorSelfAssign@cgAssignStat", "CheckErrorTableDuplicateKey@cgTableConstructorExp"] := by
  decide
#print axioms pattern_insert_sites

/-! ### CompExp -/

mutual
/-- an expression with every source location replaced by the zero location (functions, table
    constructors, `noKey` and `bad` are kept as they are: CompExp never equates them) -/
def erase : Exp → Exp
  | .nil _ => .nil zeroLoc | .tru _ => .tru zeroLoc | .fls _ => .fls zeroLoc | .vararg _ => .vararg zeroLoc
  | .int v _ => .int v zeroLoc | .flt t _ => .flt t zeroLoc | .str s _ => .str s zeroLoc
  | .unop o e _ => .unop o (erase e) zeroLoc
  | .binop o a b _ => .binop o (erase a) (erase b) zeroLoc
  | .name n _ => .name n zeroLoc
  | .parens e _ => .parens (erase e) zeroLoc
  | .index p k _ => .index (erase p) (erase k) zeroLoc
  | .call p m a _ => .call (erase p) (m.map fun (n, _) => (n, zeroLoc)) (erases a) zeroLoc
  | e => e
def erases : List Exp → List Exp
  | [] => []
  | e :: r => erase e :: erases r
end

mutual
theorem compExp_sound : (a b : Exp) → compExp a b = true → erase a = erase b
  | .nil _, .nil _, _ => by simp [erase]
  | .fls _, .fls _, _ => by simp [erase]
  | .tru _, .tru _, _ => by simp [erase]
  | .vararg _, .vararg _, _ => by simp [erase]
  | .int x _, .int y _, h => by simp [compExp] at h; simp [erase, h]
  | .flt x _, .flt y _, h => by simp [compExp] at h; simp [erase, h]
  | .str x _, .str y _, h => by simp [compExp] at h; simp [erase, h]
  | .name x _, .name y _, h => by simp [compExp] at h; simp [erase, h]
  | .parens x _, .parens y _, h => by
    simp only [compExp] at h; simp [erase, compExp_sound x y h]
  | .unop o1 x _, .unop o2 y _, h => by
    simp only [compExp, Bool.and_eq_true, beq_iff_eq] at h
    simp [erase, h.1, compExp_sound x y h.2]
  | .binop o1 x1 x2 _, .binop o2 y1 y2 _, h => by
    simp only [compExp, Bool.and_eq_true, beq_iff_eq] at h
    simp [erase, h.1.1, compExp_sound x1 y1 h.1.2, compExp_sound x2 y2 h.2]
  | .index p1 k1 _, .index p2 k2 _, h => by
    simp only [compExp, Bool.and_eq_true] at h
    simp [erase, compExp_sound p1 p2 h.1, compExp_sound k1 k2 h.2]
  | .call p1 m1 a1 _, .call p2 m2 a2 _, h => by
    simp only [compExp, Bool.and_eq_true] at h
    have hm : (m1.map fun (n, _) => (n, zeroLoc)) = (m2.map fun (n, _) => (n, zeroLoc)) := by
      cases m1 with
      | none => cases m2 with
        | none => rfl
        | some y => simp at h
      | some x => cases m2 with
        | none => simp at h
        | some y =>
          obtain ⟨n1, l1⟩ := x; obtain ⟨n2, l2⟩ := y
          have := h.1.2; simp at this; simp [this]
    simp [erase, compExp_sound p1 p2 h.1.1, hm, compExps_sound a1 a2 h.2]
  -- every other pair is rejected by CompExp
  | .noKey, _, h | .bad _, _, h | .func _, _, h | .table _ _ _, _, h => by simp [compExp] at h
  | .nil _, .noKey, h | .nil _, .tru _, h | .nil _, .fls _, h | .nil _, .vararg _, h | .nil _, .int _ _, h
  | .nil _, .flt _ _, h | .nil _, .str _ _, h | .nil _, .unop _ _ _, h | .nil _, .binop _ _ _ _, h
  | .nil _, .table _ _ _, h | .nil _, .func _, h | .nil _, .name _ _, h | .nil _, .parens _ _, h
  | .nil _, .index _ _ _, h | .nil _, .call _ _ _ _, h | .nil _, .bad _, h => by simp [compExp] at h
  | .tru _, .noKey, h | .tru _, .nil _, h | .tru _, .fls _, h | .tru _, .vararg _, h | .tru _, .int _ _, h
  | .tru _, .flt _ _, h | .tru _, .str _ _, h | .tru _, .unop _ _ _, h | .tru _, .binop _ _ _ _, h
  | .tru _, .table _ _ _, h | .tru _, .func _, h | .tru _, .name _ _, h | .tru _, .parens _ _, h
  | .tru _, .index _ _ _, h | .tru _, .call _ _ _ _, h | .tru _, .bad _, h => by simp [compExp] at h
  | .fls _, .noKey, h | .fls _, .nil _, h | .fls _, .tru _, h | .fls _, .vararg _, h | .fls _, .int _ _, h
  | .fls _, .flt _ _, h | .fls _, .str _ _, h | .fls _, .unop _ _ _, h | .fls _, .binop _ _ _ _, h
  | .fls _, .table _ _ _, h | .fls _, .func _, h | .fls _, .name _ _, h | .fls _, .parens _ _, h
  | .fls _, .index _ _ _, h | .fls _, .call _ _ _ _, h | .fls _, .bad _, h => by simp [compExp] at h
  | .vararg _, .noKey, h | .vararg _, .nil _, h | .vararg _, .tru _, h | .vararg _, .fls _, h | .vararg _, .int _ _, h
  | .vararg _, .flt _ _, h | .vararg _, .str _ _, h | .vararg _, .unop _ _ _, h | .vararg _, .binop _ _ _ _, h
  | .vararg _, .table _ _ _, h | .vararg _, .func _, h | .vararg _, .name _ _, h | .vararg _, .parens _ _, h
  | .vararg _, .index _ _ _, h | .vararg _, .call _ _ _ _, h | .vararg _, .bad _, h => by simp [compExp] at h
  | .int _ _, .noKey, h | .int _ _, .nil _, h | .int _ _, .tru _, h | .int _ _, .fls _, h | .int _ _, .vararg _, h
  | .int _ _, .flt _ _, h | .int _ _, .str _ _, h | .int _ _, .unop _ _ _, h | .int _ _, .binop _ _ _ _, h
  | .int _ _, .table _ _ _, h | .int _ _, .func _, h | .int _ _, .name _ _, h | .int _ _, .parens _ _, h
  | .int _ _, .index _ _ _, h | .int _ _, .call _ _ _ _, h | .int _ _, .bad _, h => by simp [compExp] at h
  | .flt _ _, .noKey, h | .flt _ _, .nil _, h | .flt _ _, .tru _, h | .flt _ _, .fls _, h | .flt _ _, .vararg _, h
  | .flt _ _, .int _ _, h | .flt _ _, .str _ _, h | .flt _ _, .unop _ _ _, h | .flt _ _, .binop _ _ _ _, h
  | .flt _ _, .table _ _ _, h | .flt _ _, .func _, h | .flt _ _, .name _ _, h | .flt _ _, .parens _ _, h
  | .flt _ _, .index _ _ _, h | .flt _ _, .call _ _ _ _, h | .flt _ _, .bad _, h => by simp [compExp] at h
  | .str _ _, .noKey, h | .str _ _, .nil _, h | .str _ _, .tru _, h | .str _ _, .fls _, h | .str _ _, .vararg _, h
  | .str _ _, .int _ _, h | .str _ _, .flt _ _, h | .str _ _, .unop _ _ _, h | .str _ _, .binop _ _ _ _, h
  | .str _ _, .table _ _ _, h | .str _ _, .func _, h | .str _ _, .name _ _, h | .str _ _, .parens _ _, h
  | .str _ _, .index _ _ _, h | .str _ _, .call _ _ _ _, h | .str _ _, .bad _, h => by simp [compExp] at h
  | .name _ _, .noKey, h | .name _ _, .nil _, h | .name _ _, .tru _, h | .name _ _, .fls _, h | .name _ _, .vararg _, h
  | .name _ _, .int _ _, h | .name _ _, .flt _ _, h | .name _ _, .str _ _, h | .name _ _, .unop _ _ _, h
  | .name _ _, .binop _ _ _ _, h | .name _ _, .table _ _ _, h | .name _ _, .func _, h | .name _ _, .parens _ _, h
  | .name _ _, .index _ _ _, h | .name _ _, .call _ _ _ _, h | .name _ _, .bad _, h => by simp [compExp] at h
  | .parens _ _, .noKey, h | .parens _ _, .nil _, h | .parens _ _, .tru _, h | .parens _ _, .fls _, h
  | .parens _ _, .vararg _, h | .parens _ _, .int _ _, h | .parens _ _, .flt _ _, h | .parens _ _, .str _ _, h
  | .parens _ _, .unop _ _ _, h | .parens _ _, .binop _ _ _ _, h | .parens _ _, .table _ _ _, h | .parens _ _, .func _, h
  | .parens _ _, .name _ _, h | .parens _ _, .index _ _ _, h | .parens _ _, .call _ _ _ _, h | .parens _ _, .bad _, h => by
    simp [compExp] at h
  | .unop _ _ _, .noKey, h | .unop _ _ _, .nil _, h | .unop _ _ _, .tru _, h | .unop _ _ _, .fls _, h
  | .unop _ _ _, .vararg _, h | .unop _ _ _, .int _ _, h | .unop _ _ _, .flt _ _, h | .unop _ _ _, .str _ _, h
  | .unop _ _ _, .binop _ _ _ _, h | .unop _ _ _, .table _ _ _, h | .unop _ _ _, .func _, h | .unop _ _ _, .name _ _, h
  | .unop _ _ _, .parens _ _, h | .unop _ _ _, .index _ _ _, h | .unop _ _ _, .call _ _ _ _, h | .unop _ _ _, .bad _, h => by
    simp [compExp] at h
  | .binop _ _ _ _, .noKey, h | .binop _ _ _ _, .nil _, h | .binop _ _ _ _, .tru _, h | .binop _ _ _ _, .fls _, h
  | .binop _ _ _ _, .vararg _, h | .binop _ _ _ _, .int _ _, h | .binop _ _ _ _, .flt _ _, h | .binop _ _ _ _, .str _ _, h
  | .binop _ _ _ _, .unop _ _ _, h | .binop _ _ _ _, .table _ _ _, h | .binop _ _ _ _, .func _, h | .binop _ _ _ _, .name _ _, h
  | .binop _ _ _ _, .parens _ _, h | .binop _ _ _ _, .index _ _ _, h | .binop _ _ _ _, .call _ _ _ _, h
  | .binop _ _ _ _, .bad _, h => by simp [compExp] at h
  | .index _ _ _, .noKey, h | .index _ _ _, .nil _, h | .index _ _ _, .tru _, h | .index _ _ _, .fls _, h
  | .index _ _ _, .vararg _, h | .index _ _ _, .int _ _, h | .index _ _ _, .flt _ _, h | .index _ _ _, .str _ _, h
  | .index _ _ _, .unop _ _ _, h | .index _ _ _, .binop _ _ _ _, h | .index _ _ _, .table _ _ _, h | .index _ _ _, .func _, h
  | .index _ _ _, .name _ _, h | .index _ _ _, .parens _ _, h | .index _ _ _, .call _ _ _ _, h | .index _ _ _, .bad _, h => by
    simp [compExp] at h
  | .call _ _ _ _, .noKey, h | .call _ _ _ _, .nil _, h | .call _ _ _ _, .tru _, h | .call _ _ _ _, .fls _, h
  | .call _ _ _ _, .vararg _, h | .call _ _ _ _, .int _ _, h | .call _ _ _ _, .flt _ _, h | .call _ _ _ _, .str _ _, h
  | .call _ _ _ _, .unop _ _ _, h | .call _ _ _ _, .binop _ _ _ _, h | .call _ _ _ _, .table _ _ _, h | .call _ _ _ _, .func _, h
  | .call _ _ _ _, .name _ _, h | .call _ _ _ _, .parens _ _, h | .call _ _ _ _, .index _ _ _, h | .call _ _ _ _, .bad _, h => by
    simp [compExp] at h
theorem compExps_sound : (a b : List Exp) → compExps a b = true → erases a = erases b
  | [], [], _ => rfl
  | x :: r, y :: s, h => by
    simp only [compExps, Bool.and_eq_true] at h
    simp [erases, compExp_sound x y h.1, compExps_sound r s h.2]
  | [], _ :: _, h => by simp [compExps] at h
  | _ :: _, [], h => by simp [compExps] at h
end
#print axioms compExp_sound


/-! ### reflexivity: what is always caught -/

mutual
/-- expressions CompExp can compare: no function definition, table constructor, `noKey`, error node -/
def plain : Exp → Bool
  | .nil _ | .tru _ | .fls _ | .vararg _ | .int _ _ | .flt _ _ | .str _ _ | .name _ _ => true
  | .unop _ e _ => plain e
  | .binop _ a b _ => plain a && plain b
  | .parens e _ => plain e
  | .index p k _ => plain p && plain k
  | .call p _ a _ => plain p && plains a
  | _ => false
def plains : List Exp → Bool
  | [] => true
  | e :: r => plain e && plains r
end

mutual
theorem compExp_refl : (e : Exp) → plain e = true → compExp e e = true
  | .nil _, _ | .tru _, _ | .fls _, _ | .vararg _, _ => by simp [compExp]
  | .int _ _, _ | .flt _ _, _ | .str _ _, _ | .name _ _, _ => by simp [compExp]
  | .unop _ e _, h => by simp only [plain] at h; simp [compExp, compExp_refl e h]
  | .parens e _, h => by simp only [plain] at h; simp [compExp, compExp_refl e h]
  | .binop _ a b _, h => by
    simp only [plain, Bool.and_eq_true] at h; simp [compExp, compExp_refl a h.1, compExp_refl b h.2]
  | .index a b _, h => by
    simp only [plain, Bool.and_eq_true] at h; simp [compExp, compExp_refl a h.1, compExp_refl b h.2]
  | .call p m a _, h => by
    simp only [plain, Bool.and_eq_true] at h
    have hm : (match m, m with
      | none, none => true
      | some (n1, _), some (n2, _) => n1 == n2
      | _, _ => false) = true := by
      cases m with
      | none => rfl
      | some x => obtain ⟨n, l⟩ := x; simp
    simp only [compExp, compExp_refl p h.1, compExps_refl a h.2, Bool.and_true, Bool.true_and]
    exact hm
  | .noKey, h | .bad _, h | .func _, h | .table _ _ _, h => by simp [plain] at h
theorem compExps_refl : (es : List Exp) → plains es = true → compExps es es = true
  | [], _ => rfl
  | e :: r, h => by
    simp only [plains, Bool.and_eq_true] at h
    simp [compExps, compExp_refl e h.1, compExps_refl r h.2]
end
#print axioms compExp_refl

/-- `v = v` is always reported as a self-assignment (type 20) when v is a plain expression -/
theorem self_assign_reported (v : Exp) (l : Loc) (h : plain v = true) :
    assignReps [v] [v] l = [{ ty := 20, loc := l }] := by
  simp [assignReps, compExp_refl v h]
#print axioms self_assign_reported

/-- type 20 is reported only when every target is, up to locations, its own value -/
theorem self_assign_sound (vars exps : List Exp) (l : Loc) (r : Rep)
    (h : r ∈ assignReps vars exps l) (h20 : r.ty = 20) :
    vars.length = exps.length ∧ ∀ p ∈ vars.zip exps, erase p.1 = erase p.2 := by
  unfold assignReps at h
  simp only at h
  split at h
  · simp at h; simp [h] at h20
  · split at h
    · split at h
      · simp at h; simp [h] at h20
      · simp at h
    · split at h
      · rename_i h1 h2 h3
        refine ⟨by omega, ?_⟩
        intro p hp
        have := (List.all_eq_true.mp h3) p hp
        exact compExp_sound p.1 p.2 (by simpa using this)
      · simp at h
#print axioms self_assign_sound

/-! ### duplicate parameters (13) and repeated conditions (19) -/

theorem dupParams_exact (ps : List (Bytes × Loc)) (r : Rep) :
    r ∈ dupParams ps ↔
      ∃ i j ni li nj lj, (i : Nat) < (j : Nat) ∧ ps[i]? = some (ni, li) ∧ ps[j]? = some (nj, lj) ∧
        nj ≠ [95] ∧ nj = ni ∧ r = { ty := 13, loc := lj } := by
  unfold dupParams
  simp only [List.mem_flatMap, List.mem_range, List.mem_filterMap]
  constructor
  · rintro ⟨i, hi, j, hj, h⟩
    split at h
    · rename_i hij
      split at h
      · rename_i ni li nj lj h1 h2
        split at h
        · rename_i hc
          simp at hc
          exact ⟨i, j, ni, li, nj, lj, hij, h1, h2, hc.1, hc.2, by simpa using h.symm⟩
        · simp at h
      · simp at h
    · simp at h
  · rintro ⟨i, j, ni, li, nj, lj, hij, h1, h2, hne, heq, hr⟩
    have hj : j < ps.length := by
      rcases Nat.lt_or_ge j ps.length with h | h
      · exact h
      · simp [List.getElem?_eq_none h] at h2
    refine ⟨i, by omega, j, hj, ?_⟩
    subst heq
    simp [hij, h1, h2, hne, hr]
#print axioms dupParams_exact

theorem dupIfs_exact (cs : List Exp) (r : Rep) :
    r ∈ dupIfs cs ↔
      ∃ i j ci cj, (i : Nat) < (j : Nat) ∧ cs[i]? = some ci ∧ cs[j]? = some cj ∧ compExp ci cj = true ∧
        r = { ty := 19, loc := expLoc cj } := by
  unfold dupIfs
  simp only [List.mem_flatMap, List.mem_range, List.mem_filterMap]
  constructor
  · rintro ⟨i, hi, j, hj, h⟩
    split at h
    · rename_i hij
      split at h
      · rename_i ci cj h1 h2
        split at h
        · rename_i hc
          exact ⟨i, j, ci, cj, hij, h1, h2, hc, by simpa using h.symm⟩
        · simp at h
      · simp at h
    · simp at h
  · rintro ⟨i, j, ci, cj, hij, h1, h2, hc, hr⟩
    have hj : j < cs.length := by
      rcases Nat.lt_or_ge j cs.length with h | h
      · exact h
      · simp [List.getElem?_eq_none h] at h2
    refine ⟨i, by omega, j, hj, ?_⟩
    simp [hij, h1, h2, hc, hr]
#print axioms dupIfs_exact

/-- a repeated condition is a real repetition: the two conditions are the same expression up to
    locations (no false positive of type 19) -/
theorem dupIfs_sound (cs : List Exp) (r : Rep) (h : r ∈ dupIfs cs) :
    ∃ i j ci cj, (i : Nat) < (j : Nat) ∧ cs[i]? = some ci ∧ cs[j]? = some cj ∧ erase ci = erase cj := by
  obtain ⟨i, j, ci, cj, hij, h1, h2, hc, _⟩ := (dupIfs_exact cs r).mp h
  exact ⟨i, j, ci, cj, hij, h1, h2, compExp_sound ci cj hc⟩
#print axioms dupIfs_sound

/-! ### binary-operator checks at one node -/

theorem ty_r15 (op a b) : ∀ r ∈ r15 op a b, r.ty = 15 := by unfold r15; intro r h; split at h <;> simp at h; simp [h]
theorem ty_r16 (op a b) : ∀ r ∈ r16 op a b, r.ty = 16 := by unfold r16; intro r h; split at h <;> simp at h; simp [h]
theorem ty_r21 (op a b l) : ∀ r ∈ r21 op a b l, r.ty = 21 := by unfold r21; intro r h; split at h <;> simp at h; simp [h]
theorem ty_r14 (op a b) : ∀ r ∈ r14 op a b, r.ty = 14 := by unfold r14; intro r h; split at h <;> simp at h; simp [h]

/-- `x or true` (type 15) is reported at a node iff the operator is `or`, an operand is the literal
    `true`, and both operands are located -/
theorem orTrue_exact (op : TK) (a b : Exp) (l : Loc) :
    (∃ r ∈ binopReps op a b l, r.ty = 15) ↔ (op = .or ∧ (isTrue a || isTrue b) = true ∧ located a b = true) := by
  unfold binopReps
  constructor
  · rintro ⟨r, hr, h15⟩
    simp only [List.mem_append] at hr
    rcases hr with ((hr | hr) | hr) | hr
    · unfold r15 at hr
      split at hr
      · rename_i hc; simpa [Bool.and_eq_true, and_assoc] using hc
      · simp at hr
    · have := ty_r16 _ _ _ r hr; omega
    · have := ty_r21 _ _ _ _ r hr; omega
    · have := ty_r14 _ _ _ r hr; omega
  · rintro ⟨h1, h2, h3⟩
    refine ⟨{ ty := 15, loc := spanLoc a b }, ?_, rfl⟩
    simp only [List.mem_append]
    left; left; left
    simp [r15, h1, h2, h3]
#print axioms orTrue_exact

theorem andFalse_exact (op : TK) (a b : Exp) (l : Loc) :
    (∃ r ∈ binopReps op a b l, r.ty = 16) ↔ (op = .and ∧ (isFalse a || isFalse b) = true ∧ located a b = true) := by
  unfold binopReps
  constructor
  · rintro ⟨r, hr, h15⟩
    simp only [List.mem_append] at hr
    rcases hr with ((hr | hr) | hr) | hr
    · have := ty_r15 _ _ _ r hr; omega
    · unfold r16 at hr
      split at hr
      · rename_i hc; simpa [Bool.and_eq_true, and_assoc] using hc
      · simp at hr
    · have := ty_r21 _ _ _ _ r hr; omega
    · have := ty_r14 _ _ _ r hr; omega
  · rintro ⟨h1, h2, h3⟩
    refine ⟨{ ty := 16, loc := spanLoc a b }, ?_, rfl⟩
    simp only [List.mem_append]
    left; left; right
    simp [r16, h1, h2, h3]
#print axioms andFalse_exact

theorem floatEq_exact (op : TK) (a b : Exp) (l : Loc) :
    (∃ r ∈ binopReps op a b l, r.ty = 21) ↔ ((op = .eq ∨ op = .ne) ∧ (isFloat a || isFloat b) = true) := by
  unfold binopReps
  constructor
  · rintro ⟨r, hr, h15⟩
    simp only [List.mem_append] at hr
    rcases hr with ((hr | hr) | hr) | hr
    · have := ty_r15 _ _ _ r hr; omega
    · have := ty_r16 _ _ _ r hr; omega
    · unfold r21 at hr
      split at hr
      · rename_i hc; simpa [Bool.and_eq_true, and_assoc] using hc
      · simp at hr
    · have := ty_r14 _ _ _ r hr; omega
  · rintro ⟨h1, h2⟩
    refine ⟨{ ty := 21, loc := l }, ?_, rfl⟩
    simp only [List.mem_append]
    left; right
    rcases h1 with h1 | h1 <;> simp [r21, h1, h2]
#print axioms floatEq_exact

/-- every diagnostic of a binary node covers exactly the node (21) or the span of its operands -/
theorem binop_range (op : TK) (a b : Exp) (l : Loc) :
    ∀ r ∈ binopReps op a b l, r.loc = l ∨ r.loc = spanLoc a b := by
  intro r hr
  unfold binopReps at hr
  simp only [List.mem_append] at hr
  rcases hr with ((hr | hr) | hr) | hr
  · unfold r15 at hr; split at hr <;> simp at hr; simp [hr]
  · unfold r16 at hr; split at hr <;> simp at hr; simp [hr]
  · unfold r21 at hr; split at hr <;> simp at hr; simp [hr]
  · unfold r14 at hr; split at hr <;> simp at hr; simp [hr]
#print axioms binop_range

/-! ### arity checks (7 / 8) -/

theorem assign_arity_exact (vars exps : List Exp) (l : Loc) :
    (∃ r ∈ assignReps vars exps l, r.ty = 7) ↔
      (vars.length < exps.length ∨ (exps.length < vars.length ∧ exps.all isOneValue = true)) := by
  unfold assignReps
  simp only
  split
  · simp; omega
  · split
    · split
      · rename_i h1 h2 h3; simp; right; exact ⟨by omega, by simpa using h3⟩
      · rename_i h1 h2 h3; simp; refine ⟨by omega, ?_⟩; intro _; simpa using h3
    · split
      · simp; omega
      · simp; omega
#print axioms assign_arity_exact

theorem local_arity_exact (n : Nat) (exps : List Exp) (l : Loc) :
    (∃ r ∈ localReps n exps l, r.ty = 8) ↔
      (n < exps.length ∨ (exps.length < n ∧ 0 < exps.length ∧ exps.all isOneValue = true)) := by
  unfold localReps
  simp only
  split
  · simp; omega
  · split
    · rename_i h1 h2; simp at h2; simp; right; exact ⟨by omega, by omega, h2.2⟩
    · rename_i h1 h2; simp at h2; simp; refine ⟨by omega, ?_⟩; intro h3 h4; exact h2 h3 h4
#print axioms local_arity_exact

end LuaHelper.C20
