/-
C05 — "Go-to-definition follows Lua's lexical scoping".

What is proved here:
 * the Location predicates the position-based resolver is made of (`IsBeforeLoc`, `IsContainLoc`,
   `isInLocation`) are TRANSLATED from the Go source on every run (`Gen.Preds`) and proved equal to the
   ones the resolver model uses, for all arguments;
 * `flat_scope_correct`: in one scope whose declarations are ordered by position, the position-based
   lookup (last declaration of that name that is before the cursor and whose position test succeeds)
   returns exactly the declaration Lua's scoping rule gives — the innermost earlier declaration whose
   declaring statement has ENDED before the cursor — provided the cursor is not inside the declaring
   statement of a later same-named declaration that the position test fails to exempt (that situation
   is finding class C05-K1 and `K1_witness` shows it is real).
 * `chain_scope_correct`: the same along any chain of enclosing scopes (any depth, shadowing across blocks);
 * `chainIn_path` / `scopePath_ends`: for EVERY scope tree — any depth, sub-scopes in any order and even
   overlapping — and every position, the model of `FindMinScope` returns a path of scopes whose Locs contain
   the position, starting at a scope none of whose sub-scopes contains it. The proof needs no ordering of the
   sub-scopes; attempting it for the code as it was (early exit at a sibling that starts after the cursor
   line) is what exposed the defect repaired by 24205bf (`unordered_siblings_witness`).
What is validated by correspondence only (see evidence): the scope TREE construction (which construct
opens a scope with which Loc, insertion order, ReferExp re-pointing), on every identifier occurrence of
generated programs against the real server.
-/
import LuaHelper.Model.Scope
import LuaHelper.Spec.Bind
import LuaHelper.Gen.Preds
import LuaHelper.Gen.Shapes
namespace LuaHelper.C05
open LuaHelper.Lex LuaHelper.Scope

def toG (l : Loc) : Gen.GLoc := ⟨l.sl, l.sc, l.el, l.ec⟩

theorem isBeforeLoc_is_go (a b : Loc) : isBeforeLoc a b = Gen.isBeforeLoc (toG a) (toG b) := by
  unfold isBeforeLoc Gen.isBeforeLoc toG
  by_cases h1 : a.sl < b.sl <;> by_cases h2 : a.sl = b.sl <;> by_cases h3 : a.sc ≤ b.sc <;> simp [h1, h2, h3]
#print axioms isBeforeLoc_is_go

theorem isContainLoc_is_go (a b : Loc) : isContainLoc a b = Gen.isContainLoc (toG a) (toG b) := by
  unfold isContainLoc Gen.isContainLoc toG
  rfl
#print axioms isContainLoc_is_go

theorem isInLocation_is_go (l : Loc) (line col : Int) :
    isInLocation l line col = Gen.isInLocation (toG l) line col := by
  unfold isInLocation Gen.isInLocation toG
  by_cases h1 : line < l.sl <;> by_cases h2 : line > l.el <;> by_cases h3 : line = l.sl <;>
    by_cases h4 : line = l.el <;> by_cases h5 : col < l.sc <;> by_cases h6 : col > l.ec <;>
    simp [h1, h2, h3, h4, h5, h6]
#print axioms isInLocation_is_go

/-! ### one scope: the position test against Lua's "scope begins after the declaring statement" -/

/-- a declaration together with where its declaring statement ends -/
structure FDecl where
  var : Var
  /-- last position (line, column) of the declaring statement / loop header -/
  endLine : Int
  endCol : Int
deriving Repr

/-- a cursor position as the degenerate Loc the resolver is called with -/
def pt (line col : Int) : Loc := ⟨line, col, line, col⟩

/-- strictly after the end of the declaring statement -/
def afterStmt (d : FDecl) (line col : Int) : Bool := d.endLine < line || (d.endLine == line && d.endCol < col)

/-- Lua: a local is visible once its declaring statement has ended; `local function f` (the
    function expression contains the declared name) is visible from its name on -/
def visibleAt (d : FDecl) (line col : Int) : Bool :=
  match d.var.ref with
  | .func fl => if isContainLoc fl d.var.loc then isBeforeLoc d.var.loc (pt line col) else afterStmt d line col
  | _ => afterStmt d line col

/-- well-formed declaration: the name is inside its statement, and so is the initialiser -/
def FDecl.wf (d : FDecl) : Prop :=
  d.var.loc.sl = d.var.loc.el ∧
  (d.var.loc.sl < d.endLine ∨ (d.var.loc.sl = d.endLine ∧ d.var.loc.sc ≤ d.endCol)) ∧
  (match d.var.ref with
   | .name l | .call l | .func l => (l.el < d.endLine ∨ (l.el = d.endLine ∧ l.ec ≤ d.endCol))
   | _ => True)

/-- finding class C05-K1 for one declaration: the cursor is at or after the declared name, the
    declaring statement has not ended, and the position test does not exempt it -/
def inK1Zone (d : FDecl) (line col : Int) : Bool :=
  isCorrectPosition d.var (pt line col) && !visibleAt d line col

/-- outside the K1 zone the resolver's position test IS Lua's visibility rule -/
theorem position_test_exact (d : FDecl) (hwf : d.wf) (line col : Int) (h : inK1Zone d line col = false) :
    isCorrectPosition d.var (pt line col) = visibleAt d line col := by
  obtain ⟨hline, hend, href⟩ := hwf
  unfold inK1Zone at h
  by_cases hc : isCorrectPosition d.var (pt line col) = true
  · simp [hc] at h; rw [hc, h]
  · have hc' : isCorrectPosition d.var (pt line col) = false := by simpa using hc
    rw [hc']
    symm
    -- the position test fails ⇒ not visible
    unfold isCorrectPosition at hc'
    unfold visibleAt afterStmt
    cases hr : d.var.ref with
    | none =>
      simp only [hr] at hc' ⊢
      unfold isBeforeLoc pt at hc'
      simp at hc' ⊢
      omega
    | other =>
      simp only [hr] at hc' ⊢
      unfold isBeforeLoc pt at hc'
      simp at hc' ⊢
      omega
    | name l =>
      simp only [hr] at hc' href ⊢
      unfold isBeforeLoc isContainLoc pt at hc'
      simp at hc' ⊢
      omega
    | call l =>
      simp only [hr] at hc' href ⊢
      unfold isBeforeLoc isContainLoc pt at hc'
      simp at hc' ⊢
      omega
    | func l =>
      simp only [hr] at hc' href ⊢
      by_cases hcv : isContainLoc l d.var.loc = true
      · simp only [hcv, if_true] at hc' ⊢
        simpa using hc'
      · simp only [hcv, Bool.false_eq_true, if_false] at hc' ⊢
        unfold isBeforeLoc isContainLoc pt at hc'
        simp at hc' ⊢
        omega
#print axioms position_test_exact

/-- the resolver's lookup in one scope: last declaration of that name passing the position test -/
def modelFind (ds : List FDecl) (n : Bytes) (line col : Int) : Option FDecl :=
  ds.reverse.find? fun d => d.var.name == n && isCorrectPosition d.var (pt line col)

/-- Lua: the innermost (= last declared) visible declaration of that name -/
def specFind (ds : List FDecl) (n : Bytes) (line col : Int) : Option FDecl :=
  ds.reverse.find? fun d => d.var.name == n && visibleAt d line col

/-- **One scope.** For any declaration list (shadowing and re-declaration included) and any cursor
    that lies in no K1 zone of a declaration of the queried name, the position-based resolver
    returns Lua's binding. -/
theorem flat_scope_correct (ds : List FDecl) (hwf : ∀ d ∈ ds, d.wf) (n : Bytes) (line col : Int)
    (hk : ∀ d ∈ ds, d.var.name = n → inK1Zone d line col = false) :
    modelFind ds n line col = specFind ds n line col := by
  unfold modelFind specFind
  have key : ∀ (l : List FDecl), (∀ d ∈ l, d ∈ ds) →
      l.find? (fun d => d.var.name == n && isCorrectPosition d.var (pt line col)) =
      l.find? (fun d => d.var.name == n && visibleAt d line col) := by
    intro l
    induction l with
    | nil => intro _; rfl
    | cons d r ih =>
      intro hmem
      have hd' : d ∈ ds := hmem d (by simp)
      have ih := ih (fun x hx => hmem x (by simp [hx]))
      by_cases hn : d.var.name = n
      · simp only [List.find?_cons, position_test_exact d (hwf d hd') line col (hk d hd' hn), ih]
      · have : (d.var.name == n) = false := by simpa using hn
        simp only [List.find?_cons, this, Bool.false_and, ih]
  exact key ds.reverse (fun d hd => by simpa using hd)
#print axioms flat_scope_correct

/-- the resolver along a chain of scopes (innermost first): the first scope that has a match wins -/
def modelFindChain (chain : List (List FDecl)) (n : Bytes) (line col : Int) : Option FDecl :=
  chain.findSome? fun ds => modelFind ds n line col

/-- Lua along the chain of enclosing blocks: the innermost visible declaration -/
def specFindChain (chain : List (List FDecl)) (n : Bytes) (line col : Int) : Option FDecl :=
  chain.findSome? fun ds => specFind ds n line col

/-- **Nested scopes.** For any chain of enclosing scopes (any depth, shadowing across blocks, a
    declaration of an outer block placed after the inner block) and any cursor outside the K1 zones of
    the same-named declarations of those scopes, the position-based resolver returns Lua's binding. -/
theorem chain_scope_correct (chain : List (List FDecl)) (hwf : ∀ ds ∈ chain, ∀ d ∈ ds, d.wf) (n : Bytes)
    (line col : Int) (hk : ∀ ds ∈ chain, ∀ d ∈ ds, d.var.name = n → inK1Zone d line col = false) :
    modelFindChain chain n line col = specFindChain chain n line col := by
  unfold modelFindChain specFindChain
  induction chain with
  | nil => rfl
  | cons ds r ih =>
    have h1 := flat_scope_correct ds (hwf ds (by simp)) n line col (hk ds (by simp))
    have ih' := ih (fun x hx => hwf x (by simp [hx])) (fun x hx => hk x (by simp [hx]))
    simp only [List.findSome?_cons, h1, ih']
#print axioms chain_scope_correct

/-! ### which scopes form the chain: `FindMinScope` -/

/-- `ch` is a path of nested scopes from a scope none of whose sub-scopes contains the position up to `t`,
    every step going to a sub-scope whose Loc contains the position -/
inductive ScopePath (line col : Int) : Tree → List Tree → Prop
  | leaf (t : Tree) : (∀ c ∈ t.subs, isInLocation c.loc line col = false) → ScopePath line col t [t]
  | node (t c : Tree) (ch : List Tree) : c ∈ t.subs → isInLocation c.loc line col = true →
      ScopePath line col c ch → ScopePath line col t (ch ++ [t])

theorem ends_before_not_in (l : Loc) (line col : Int) (h : l.el < line) : isInLocation l line col = false := by
  unfold isInLocation
  have : (line > l.el) = True := by simp; omega
  simp [this]

mutual
/-- for EVERY scope tree (any depth, any order and overlap of sub-scopes) and every position, the model of
    `FindMinScope` returns a path of scopes that contain the position, ending where no sub-scope contains it -/
theorem chainIn_path (line col : Int) : (t : Tree) → ScopePath line col t (chainIn t line col)
  | .mk l vs subs => by
    unfold chainIn
    rcases scan_spec line col subs with ⟨h1, h2⟩ | ⟨c, hc, hin, ch, h1, h2⟩
    · rw [h1]; exact ScopePath.leaf _ (by simpa [Tree.subs] using h2)
    · rw [h1]; exact ScopePath.node _ c ch (by simpa [Tree.subs] using hc) hin h2
theorem scan_spec (line col : Int) : (subs : List Tree) →
    (scanSubs subs line col = none ∧ ∀ c ∈ subs, isInLocation c.loc line col = false) ∨
    (∃ c ∈ subs, isInLocation c.loc line col = true ∧ ∃ ch, scanSubs subs line col = some ch ∧ ScopePath line col c ch)
  | [] => Or.inl ⟨by unfold scanSubs; rfl, by simp⟩
  | s :: rest => by
    unfold scanSubs
    by_cases h1 : s.loc.el < line
    · simp only [h1, if_true]
      rcases scan_spec line col rest with ⟨a, b⟩ | ⟨c, hc, hin, ch, a, b⟩
      · exact Or.inl ⟨a, by
          intro c hc
          rcases List.mem_cons.mp hc with rfl | hc
          · exact ends_before_not_in _ line col h1
          · exact b c hc⟩
      · exact Or.inr ⟨c, by simp [hc], hin, ch, a, b⟩
    · simp only [h1, if_false]
      by_cases h2 : isInLocation s.loc line col = true
      · simp only [h2, if_true]
        exact Or.inr ⟨s, by simp, h2, _, rfl, chainIn_path line col s⟩
      · simp only [h2, Bool.false_eq_true, if_false]
        rcases scan_spec line col rest with ⟨a, b⟩ | ⟨c, hc, hin, ch, a, b⟩
        · exact Or.inl ⟨a, by
            intro c hc
            rcases List.mem_cons.mp hc with rfl | hc
            · simpa using h2
            · exact b c hc⟩
        · exact Or.inr ⟨c, by simp [hc], hin, ch, a, b⟩
end
#print axioms chainIn_path

/-- the innermost scope of the chain is one none of whose sub-scopes contains the position, the outermost is
    the scope the search started in, and the chain is never empty -/
theorem scopePath_ends (line col : Int) (t : Tree) (ch : List Tree) (h : ScopePath line col t ch) :
    ch.getLast? = some t ∧ ∃ m, ch.head? = some m ∧ ∀ c ∈ m.subs, isInLocation c.loc line col = false := by
  induction h with
  | leaf t hl => exact ⟨rfl, t, rfl, hl⟩
  | node t c ch _ _ hp ih =>
    obtain ⟨_, m, hm, hs⟩ := ih
    refine ⟨by simp, m, ?_, hs⟩
    cases ch with
    | nil => simp at hm
    | cons x r => simpa using hm
#print axioms scopePath_ends

/-- the Go function has exactly the control structure of the model `chainIn` / `scanSubs` (regenerated from
    scope_info.go on every run): the guard, the loop over SubScopes, "ends before the line → continue",
    "contains the position → recurse and stop", and nothing else — in particular no early exit -/
theorem find_min_scope_shape :
    Gen.findMinScopeShape = ["guard:!isInLocation(&scope.Loc,line,column)", "range:scope.SubScopes",
      "if:subScope.Loc.EndLine<line=>continue",
      "if:isInLocation(&subScope.Loc,line,column)=>minScope=subScope.FindMinScope(line,column);break"] := by
  decide
#print axioms find_min_scope_shape

/-- the scenario of the repaired defect (fix 24205bf): the sub-scopes are in traversal order — the step
    closure of a numeric for (lines 9-11) is listed before the limit closure (lines 7-9) — and the cursor is in
    the limit closure; the model with the early exit `StartLine > line` would stop at the first sibling -/
theorem unordered_siblings_witness :
    let limit : Tree := .mk ⟨7, 12, 9, 3⟩ [] []
    let step : Tree := .mk ⟨9, 10, 11, 3⟩ [] []
    let root : Tree := .mk ⟨1, 0, 14, 3⟩ [] [step, limit]
    (findMinChain root 8 9).map (fun ch => ch.map (·.loc)) = some [⟨7, 12, 9, 3⟩, ⟨1, 0, 14, 3⟩] := by
  decide
#print axioms unordered_siblings_witness

/-- The class is real: `local x = 1` / `local x = x + 1` with the cursor on the right-hand `x`:
    the resolver answers the NEW x (declared on line 2) although its scope has not begun. -/
theorem K1_witness :
    let d1 : FDecl := { var := { name := [120], loc := ⟨1, 6, 1, 7⟩, ref := .other }, endLine := 1, endCol := 11 }
    let d2 : FDecl := { var := { name := [120], loc := ⟨2, 6, 2, 7⟩, ref := .other }, endLine := 2, endCol := 15 }
    (modelFind [d1, d2] [120] 2 10).map (·.var.loc) = some ⟨2, 6, 2, 7⟩ ∧
    (specFind [d1, d2] [120] 2 10).map (·.var.loc) = some ⟨1, 6, 1, 7⟩ ∧
    inK1Zone d2 2 10 = true := by
  decide
#print axioms K1_witness

/-- non-vacuity: the same two declarations, cursor on line 3 — hypotheses hold, both answer the new x -/
example :
    let d1 : FDecl := { var := { name := [120], loc := ⟨1, 6, 1, 7⟩, ref := .other }, endLine := 1, endCol := 11 }
    let d2 : FDecl := { var := { name := [120], loc := ⟨2, 6, 2, 7⟩, ref := .other }, endLine := 2, endCol := 15 }
    inK1Zone d1 3 6 = false ∧ inK1Zone d2 3 6 = false ∧
    (modelFind [d1, d2] [120] 3 6).map (·.var.loc) = some ⟨2, 6, 2, 7⟩ := by decide

end LuaHelper.C05
