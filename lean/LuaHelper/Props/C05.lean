/-
C05 — "Go-to-definition follows Lua's lexical scoping".

What is proved here:
 * the Location predicates the position-based resolver is made of (`IsBeforeLoc`, `IsContainLoc`,
   `isInLocation`) are TRANSLATED from the Go source on every run (`Gen.Preds`) and proved equal to the
   ones the resolver model uses, for all arguments;
 * `position_test_exact` / `flat_scope_correct`: in one scope, for every declaration list (shadowing and
   re-declaration included) and EVERY cursor position, the position-based lookup (last declaration of that
   name that is before the cursor and whose position test succeeds) returns exactly the declaration Lua's
   scoping rule gives — the innermost earlier declaration whose declaring statement (loop header) has ended
   before the cursor, or the declaration whose own name the cursor is on. Before the repair 73bd950 (every
   local records the region in which it is not yet in scope) this held only outside a zone that was
   finding class C05-K1; `own_initialiser_invisible` is the former witness of that class.
 * `chain_scope_correct`: the same along any chain of enclosing scopes (any depth, shadowing across blocks);
 * `chainIn_path` / `scopePath_ends`: for EVERY scope tree — any depth, sub-scopes in any order and even
   overlapping — and every position, the model of `FindMinScope` returns a path of scopes whose Locs contain
   the position, starting at a scope none of whose sub-scopes contains it. The proof needs no ordering of the
   sub-scopes; attempting it for the code as it was (early exit at a sibling that starts after the cursor
   line) is what exposed the defect repaired by 24205bf (`unordered_siblings_witness`).
What is validated by correspondence only (see evidence): the scope TREE construction (which construct
opens a scope with which Loc, insertion order, ReferExp re-pointing), on every identifier occurrence of
generated programs against the real server.
-/
import LuaHelper.Model.Scope
import LuaHelper.Spec.Bind
import LuaHelper.Gen.Preds
import LuaHelper.Gen.Shapes
namespace LuaHelper.C05
open LuaHelper.Lex LuaHelper.Scope

def toG (l : Loc) : Gen.GLoc := ⟨l.sl, l.sc, l.el, l.ec⟩

theorem isBeforeLoc_is_go (a b : Loc) : isBeforeLoc a b = Gen.isBeforeLoc (toG a) (toG b) := by
  unfold isBeforeLoc Gen.isBeforeLoc toG
  by_cases h1 : a.sl < b.sl <;> by_cases h2 : a.sl = b.sl <;> by_cases h3 : a.sc ≤ b.sc <;> simp [h1, h2, h3]
#print axioms isBeforeLoc_is_go

theorem isContainLoc_is_go (a b : Loc) : isContainLoc a b = Gen.isContainLoc (toG a) (toG b) := by
  unfold isContainLoc Gen.isContainLoc toG
  rfl
#print axioms isContainLoc_is_go

theorem isInLocation_is_go (l : Loc) (line col : Int) :
    isInLocation l line col = Gen.isInLocation (toG l) line col := by
  unfold isInLocation Gen.isInLocation toG
  by_cases h1 : line < l.sl <;> by_cases h2 : line > l.el <;> by_cases h3 : line = l.sl <;>
    by_cases h4 : line = l.el <;> by_cases h5 : col < l.sc <;> by_cases h6 : col > l.ec <;>
    simp [h1, h2, h3, h4, h5, h6]
#print axioms isInLocation_is_go

/-- the visibility test as it stands in /repo now (regenerated on every run): declared before the position; the
    owner exemption; inside the declaration region only on the declared name; the ReferExp switch for
    variables without a region — the shape `Scope.isCorrectPosition` is written after — and the lookup
    tries the declarations of a name from the last one backwards, scope by scope outwards -/
theorem visibility_code_shape :
    Gen.correctPositionShape =
      ["if !varInfo.Loc.IsBeforeLoc(loc) {return false}",
       "if !varInfo.DeclRegion.IsInitialLoc()&&ownerFlag {return true}",
       "if !varInfo.DeclRegion.IsInitialLoc() {if varInfo.DeclRegion.IsContainLoc(loc)&&!varInfo.Loc.IsContainLoc(loc) {return false};return true}",
       "typeswitch varInfo.ReferExp.(type)"] ∧
    Gen.findLocVarShape =
      ["if locInfoList==nil {if scope.Parent!=nil {return scope.Parent.findLocVar(name,loc,ownerFlag)};return nil,false}",
       "for i:=len(locInfoList.VarVec)-1;i>=0;i-- {if locVar.isCorrectPosition(loc,ownerFlag) {return locVar,true}}",
       "if scope.Parent!=nil {return scope.Parent.findLocVar(name,loc,ownerFlag)}",
       "return nil,false"] := ⟨by rfl, by rfl⟩
#print axioms visibility_code_shape

/-! ### one scope: the position test against Lua's "scope begins after the declaring statement" -/

def pt (line col : Int) : Loc := ⟨line, col, line, col⟩

/-- strictly after the end of the declaration region -/
def afterRegion (r : Loc) (line col : Int) : Bool := r.el < line || (r.el == line && r.ec < col)

/-- the position is on the declared name (both ends included) -/
def onName (v : Var) (line col : Int) : Bool := isContainLoc v.loc (pt line col)

/-- Lua: a local is in scope once its declaring statement (for a loop variable: the loop header) has ended;
    the declared name itself denotes the variable; a parameter and a `local function` name are in scope from
    the name on (the enclosing scope tree confines them to the function body) -/
def visibleAt (v : Var) (line col : Int) : Bool :=
  match v.region with
  | some r => onName v line col || afterRegion r line col
  | none => isBeforeLoc v.loc (pt line col)

/-- well-formed declaration: the name is on one line and lies inside its region; without a region the
    variable is a parameter (no ReferExp) or a `local function` whose function expression contains the name -/
def wfVar (v : Var) : Prop :=
  v.loc.sl = v.loc.el ∧ v.loc.sc ≤ v.loc.ec ∧
  (match v.region with
   | some r => (r.sl < v.loc.sl ∨ (r.sl = v.loc.sl ∧ r.sc ≤ v.loc.sc)) ∧ (v.loc.el < r.el ∨ (v.loc.el = r.el ∧ v.loc.ec ≤ r.ec))
   | none => v.ref = .none ∨ ∃ fl, v.ref = .func fl ∧ isContainLoc fl v.loc = true)

/-- the resolver's position test IS Lua's visibility rule, for every well-formed declaration and position -/
theorem position_test_exact (v : Var) (hwf : wfVar v) (line col : Int) :
    isCorrectPosition v (pt line col) = visibleAt v line col := by
  obtain ⟨hline, hcol, hreg⟩ := hwf
  unfold isCorrectPosition visibleAt
  cases hr : v.region with
  | some r =>
    simp only [hr] at hreg ⊢
    obtain ⟨hs, he⟩ := hreg
    have hB : isBeforeLoc v.loc (pt line col) = true ↔ (v.loc.sl < line ∨ (v.loc.sl = line ∧ v.loc.sc ≤ col)) := by
      unfold isBeforeLoc pt; simp
    have hIn : isContainLoc r (pt line col) = true ↔
        (r.sl ≤ line ∧ line ≤ r.el ∧ (r.sl = line → r.sc ≤ col) ∧ (r.el = line → col ≤ r.ec)) := by
      unfold isContainLoc pt
      by_cases a1 : r.sl > line <;> by_cases a2 : r.el < line <;> by_cases a3 : r.sl = line <;>
        by_cases a4 : r.sc > col <;> by_cases a5 : r.el = line <;> by_cases a6 : r.ec < col <;> simp_all <;> omega
    have hOn : isContainLoc v.loc (pt line col) = true ↔ (v.loc.sl = line ∧ v.loc.sc ≤ col ∧ col ≤ v.loc.ec) := by
      unfold isContainLoc pt
      by_cases a1 : v.loc.sl > line <;> by_cases a2 : v.loc.el < line <;> by_cases a3 : v.loc.sl = line <;>
        by_cases a4 : v.loc.sc > col <;> by_cases a5 : v.loc.el = line <;> by_cases a6 : v.loc.ec < col <;> simp_all <;> omega
    have hAf : afterRegion r line col = true ↔ (r.el < line ∨ (r.el = line ∧ r.ec < col)) := by
      unfold afterRegion; simp
    unfold onName
    by_cases hb : isBeforeLoc v.loc (pt line col) = true <;> by_cases hin : isContainLoc r (pt line col) = true <;>
      by_cases hon : isContainLoc v.loc (pt line col) = true <;> by_cases haf : afterRegion r line col = true <;>
      simp only [hb, hin, hon, haf, Bool.not_true, Bool.not_false, Bool.and_true, Bool.and_false, Bool.or_true, Bool.or_false,
        Bool.true_and, Bool.false_and, Bool.true_or, Bool.false_or, if_true, if_false, Bool.false_eq_true, Bool.not_eq_true] <;>
      (try rfl) <;> (exfalso; rw [hB] at hb; rw [hIn] at hin; rw [hOn] at hon; rw [hAf] at haf; omega)
  | none =>
    simp only [hr] at hreg ⊢
    rcases hreg with h | ⟨fl, h, hc⟩
    · simp [h]
    · simp [h, hc]
#print axioms position_test_exact

/-- the resolver's lookup in one scope: last declaration of that name passing the position test -/
def modelFind (ds : List Var) (n : Bytes) (line col : Int) : Option Var :=
  ds.reverse.find? fun d => d.name == n && isCorrectPosition d (pt line col)

/-- Lua: the innermost (= last declared) visible declaration of that name -/
def specFind (ds : List Var) (n : Bytes) (line col : Int) : Option Var :=
  ds.reverse.find? fun d => d.name == n && visibleAt d line col

/-- **One scope.** For any declaration list (shadowing and re-declaration included) and EVERY cursor
    position, the position-based resolver returns Lua's binding. -/
theorem flat_scope_correct (ds : List Var) (hwf : ∀ d ∈ ds, wfVar d) (n : Bytes) (line col : Int) :
    modelFind ds n line col = specFind ds n line col := by
  unfold modelFind specFind
  have key : ∀ (l : List Var), (∀ d ∈ l, d ∈ ds) →
      l.find? (fun d => d.name == n && isCorrectPosition d (pt line col)) =
      l.find? (fun d => d.name == n && visibleAt d line col) := by
    intro l
    induction l with
    | nil => intro _; rfl
    | cons d r ih =>
      intro hmem
      have hd' : d ∈ ds := hmem d (by simp)
      have ih := ih (fun x hx => hmem x (by simp [hx]))
      simp only [List.find?_cons, position_test_exact d (hwf d hd') line col, ih]
  exact key ds.reverse (fun d hd => by simpa using hd)
#print axioms flat_scope_correct

/-- the resolver along a chain of scopes (innermost first): the first scope that has a match wins -/
def modelFindChain (chain : List (List Var)) (n : Bytes) (line col : Int) : Option Var :=
  chain.findSome? fun ds => modelFind ds n line col

/-- Lua along the chain of enclosing blocks: the innermost visible declaration -/
def specFindChain (chain : List (List Var)) (n : Bytes) (line col : Int) : Option Var :=
  chain.findSome? fun ds => specFind ds n line col

/-- **Nested scopes.** For any chain of enclosing scopes (any depth, shadowing across blocks, a
    declaration of an outer block placed after the inner block) and EVERY cursor position, the
    position-based resolver returns Lua's binding. -/
theorem chain_scope_correct (chain : List (List Var)) (hwf : ∀ ds ∈ chain, ∀ d ∈ ds, wfVar d) (n : Bytes)
    (line col : Int) : modelFindChain chain n line col = specFindChain chain n line col := by
  unfold modelFindChain specFindChain
  induction chain with
  | nil => rfl
  | cons ds r ih =>
    have h1 := flat_scope_correct ds (hwf ds (by simp)) n line col
    have ih' := ih (fun x hx => hwf x (by simp [hx]))
    simp only [List.findSome?_cons, h1, ih']
#print axioms chain_scope_correct

/-! ### which scopes form the chain: `FindMinScope` -/

/-- `ch` is a path of nested scopes from a scope none of whose sub-scopes contains the position up to `t`,
    every step going to a sub-scope whose Loc contains the position -/
inductive ScopePath (line col : Int) : Tree → List Tree → Prop
  | leaf (t : Tree) : (∀ c ∈ t.subs, isInLocation c.loc line col = false) → ScopePath line col t [t]
  | node (t c : Tree) (ch : List Tree) : c ∈ t.subs → isInLocation c.loc line col = true →
      ScopePath line col c ch → ScopePath line col t (ch ++ [t])

theorem ends_before_not_in (l : Loc) (line col : Int) (h : l.el < line) : isInLocation l line col = false := by
  unfold isInLocation
  have : (line > l.el) = True := by simp; omega
  simp [this]

mutual
/-- for EVERY scope tree (any depth, any order and overlap of sub-scopes) and every position, the model of
    `FindMinScope` returns a path of scopes that contain the position, ending where no sub-scope contains it -/
theorem chainIn_path (line col : Int) : (t : Tree) → ScopePath line col t (chainIn t line col)
  | .mk l vs subs => by
    unfold chainIn
    rcases scan_spec line col subs with ⟨h1, h2⟩ | ⟨c, hc, hin, ch, h1, h2⟩
    · rw [h1]; exact ScopePath.leaf _ (by simpa [Tree.subs] using h2)
    · rw [h1]; exact ScopePath.node _ c ch (by simpa [Tree.subs] using hc) hin h2
theorem scan_spec (line col : Int) : (subs : List Tree) →
    (scanSubs subs line col = none ∧ ∀ c ∈ subs, isInLocation c.loc line col = false) ∨
    (∃ c ∈ subs, isInLocation c.loc line col = true ∧ ∃ ch, scanSubs subs line col = some ch ∧ ScopePath line col c ch)
  | [] => Or.inl ⟨by unfold scanSubs; rfl, by simp⟩
  | s :: rest => by
    unfold scanSubs
    by_cases h1 : s.loc.el < line
    · simp only [h1, if_true]
      rcases scan_spec line col rest with ⟨a, b⟩ | ⟨c, hc, hin, ch, a, b⟩
      · exact Or.inl ⟨a, by
          intro c hc
          rcases List.mem_cons.mp hc with rfl | hc
          · exact ends_before_not_in _ line col h1
          · exact b c hc⟩
      · exact Or.inr ⟨c, by simp [hc], hin, ch, a, b⟩
    · simp only [h1, if_false]
      by_cases h2 : isInLocation s.loc line col = true
      · simp only [h2, if_true]
        exact Or.inr ⟨s, by simp, h2, _, rfl, chainIn_path line col s⟩
      · simp only [h2, Bool.false_eq_true, if_false]
        rcases scan_spec line col rest with ⟨a, b⟩ | ⟨c, hc, hin, ch, a, b⟩
        · exact Or.inl ⟨a, by
            intro c hc
            rcases List.mem_cons.mp hc with rfl | hc
            · simpa using h2
            · exact b c hc⟩
        · exact Or.inr ⟨c, by simp [hc], hin, ch, a, b⟩
end
#print axioms chainIn_path

/-- the innermost scope of the chain is one none of whose sub-scopes contains the position, the outermost is
    the scope the search started in, and the chain is never empty -/
theorem scopePath_ends (line col : Int) (t : Tree) (ch : List Tree) (h : ScopePath line col t ch) :
    ch.getLast? = some t ∧ ∃ m, ch.head? = some m ∧ ∀ c ∈ m.subs, isInLocation c.loc line col = false := by
  induction h with
  | leaf t hl => exact ⟨rfl, t, rfl, hl⟩
  | node t c ch _ _ hp ih =>
    obtain ⟨_, m, hm, hs⟩ := ih
    refine ⟨by simp, m, ?_, hs⟩
    cases ch with
    | nil => simp at hm
    | cons x r => simpa using hm
#print axioms scopePath_ends

/-- the Go function has exactly the control structure of the model `chainIn` / `scanSubs` (regenerated from
    scope_info.go on every run): the guard, the loop over SubScopes, "ends before the line → continue",
    "contains the position → recurse and stop", and nothing else — in particular no early exit -/
theorem find_min_scope_shape :
    Gen.findMinScopeShape = ["guard:!isInLocation(&scope.Loc,line,column)", "range:scope.SubScopes",
      "if:subScope.Loc.EndLine<line=>continue",
      "if:isInLocation(&subScope.Loc,line,column)=>minScope=subScope.FindMinScope(line,column);break"] := by
  decide
#print axioms find_min_scope_shape

/-- the scenario of the repaired defect (fix 24205bf): the sub-scopes are in traversal order — the step
    closure of a numeric for (lines 9-11) is listed before the limit closure (lines 7-9) — and the cursor is in
    the limit closure; the model with the early exit `StartLine > line` would stop at the first sibling -/
theorem unordered_siblings_witness :
    let limit : Tree := .mk ⟨7, 12, 9, 3⟩ [] []
    let step : Tree := .mk ⟨9, 10, 11, 3⟩ [] []
    let root : Tree := .mk ⟨1, 0, 14, 3⟩ [] [step, limit]
    (findMinChain root 8 9).map (fun ch => ch.map (·.loc)) = some [⟨7, 12, 9, 3⟩, ⟨1, 0, 14, 3⟩] := by
  decide
#print axioms unordered_siblings_witness

/-- the former finding C05-K1, now an instance of `flat_scope_correct`: `local x = 1` / `local x = x + 1`
    with the cursor on the right-hand `x` (line 2, column 10): the resolver answers the FIRST x, whose
    statement has ended; on its own name (column 6) and after its statement (line 3) the second x -/
theorem own_initialiser_invisible :
    let d1 : Var := { name := [120], loc := ⟨1, 6, 1, 7⟩, ref := .other, region := some ⟨1, 0, 1, 11⟩ }
    let d2 : Var := { name := [120], loc := ⟨2, 6, 2, 7⟩, ref := .other, region := some ⟨2, 0, 2, 15⟩ }
    (modelFind [d1, d2] [120] 2 10).map (·.loc) = some ⟨1, 6, 1, 7⟩ ∧
    (modelFind [d1, d2] [120] 2 6).map (·.loc) = some ⟨2, 6, 2, 7⟩ ∧
    (modelFind [d1, d2] [120] 3 6).map (·.loc) = some ⟨2, 6, 2, 7⟩ := by
  decide
#print axioms own_initialiser_invisible

/-- non-vacuity of the well-formedness hypothesis -/
example : wfVar { name := [120], loc := ⟨2, 6, 2, 7⟩, ref := .other, region := some ⟨2, 0, 2, 15⟩ } := by
  simp [wfVar]

end LuaHelper.C05
