/-
C10 — "Requests that the transport runs concurrently are safe and serialisable".

* `single_lock_serialisable` (M-sync, Model/Sync.lean): for EVERY schedule of the dispatcher, if
  every handler body is bracketed by the one request mutex, the shared state and every handler's
  observations are those of the serial execution of the handlers in lock-acquisition order
  (mid-flight: plus the steps the lock holder has taken so far).  No two handlers ever interleave
  steps on the shared state (data-race freedom in the model's sense).
* `handlers_locked` ties that hypothesis to the code: it is checked by `decide` over the table
  `Gen.handlers`, REGENERATED from lsp_server.go and the handler bodies on every run — a handler
  that touches the document cache / project / diagnostics maps / common.GConfig outside the mutex,
  or that would re-take the mutex while holding it, breaks this theorem.
* `unlocked_witness`: without the mutex two read-modify-write handlers lose an update — the
  discipline is necessary, not decoration.
* `structure_locks`: the per-structure locks used by the worker goroutines INSIDE one request (LRU cache of
  live syntax trees, directory cache, file-exist cache, first-phase result map, the analysis mutex) are,
  in the regenerated table `Gen.lockScopes`, held for the whole method body or released as often as taken;
  the three LRU methods reached from the worker pools hold their lock for the whole body.
What the model cannot exhibit: the Go memory model and an actual crash ("concurrent map read and
map write"); the harness supplies that witness with the race detector (DESIGN.md §6 C10).
-/
import LuaHelper.Proofs.Sync
import LuaHelper.Gen.Handlers
import LuaHelper.Gen.Sites
import LuaHelper.Gen.Locks
namespace LuaHelper.C10
open LuaHelper.Sync

variable {S O : Type}

/-- At every point of every schedule: finished handlers + the holder's progress = serial run. -/
theorem single_lock_serialisable (prog : Nat → List (Step S O)) (s0 : S) (n : Nat) (sched : List Nat) :
    let c := run prog s0 n sched
    match c.cur with
    | none => (c.st, c.obs) = serialRun prog c.order s0 (fun _ => [])
    | some (h, rem) =>
      ∃ done, prog h = done ++ rem ∧
        let p := serialRun prog c.order s0 (fun _ => [])
        (c.st, c.obs h) = runSteps done p.1 [] ∧ ∀ j, j ≠ h → c.obs j = p.2 j := by
  have h := inv_run prog s0 n sched
  obtain ⟨_, hcur⟩ := h
  intro c
  cases hc : c.cur with
  | none =>
    have : (run prog s0 n sched).cur = none := hc
    simp only [this] at hcur
    exact hcur
  | some hr =>
    obtain ⟨h, rem⟩ := hr
    have : (run prog s0 n sched).cur = some (h, rem) := hc
    simp only [this] at hcur
    obtain ⟨_, _, done, hp, hr, ho⟩ := hcur
    exact ⟨done, hp, hr, ho⟩
#print axioms single_lock_serialisable

/-- Quiescent corollary in the property's words: when no handler is in flight, the state and each
    answer equal those of *some sequential order of the same messages* (namely `order`). -/
theorem answers_equal_some_serial_order (prog : Nat → List (Step S O)) (s0 : S) (n : Nat)
    (sched : List Nat) (hq : (run prog s0 n sched).cur = none) :
    ∃ order : List Nat, ((run prog s0 n sched).st, (run prog s0 n sched).obs) =
      serialRun prog order s0 (fun _ => []) := by
  have h := single_lock_serialisable prog s0 n sched
  simp only [hq] at h
  exact ⟨_, h⟩
#print axioms answers_equal_some_serial_order

/-- lifecycle messages: `initialize` is answered before the client may send anything else, and
    `initialized` is a notification, which jrpc2 completes before it starts any later message -/
def lifecycle : List String := ["initialize", "initialized"]

/-- The lock discipline holds for every registered handler of the current source tree. -/
theorem handlers_locked :
    ∀ h ∈ Gen.handlers, h.method ∈ lifecycle ∨
      (h.unprotected = [] ∧ h.gconfigUnprotected = false ∧ h.relocks = []) := by
  decide
#print axioms handlers_locked

/-- No code path releases or re-takes the request mutex other than through the canonical
    `Lock(); defer Unlock()` pair that opens a critical section (so a critical section, once
    entered, extends to the end of the handler - what `single_lock_serialisable` assumes). -/
theorem no_irregular_mutex_use : Gen.irregularMutexUse = [] := by decide
#print axioms no_irregular_mutex_use

/-- every LSP method the property quantifies over is registered (so the table covers them) -/
theorem handlers_cover :
    ∀ m ∈ ["textDocument/hover", "textDocument/definition", "textDocument/references",
           "textDocument/rename", "textDocument/documentSymbol", "workspace/symbol",
           "textDocument/completion", "textDocument/documentHighlight", "textDocument/documentColor",
           "textDocument/didChange", "textDocument/didSave", "textDocument/didOpen",
           "textDocument/didClose", "workspace/didChangeWatchedFiles",
           "workspace/didChangeConfiguration"],
      m ∈ Gen.handlers.map (·.method) := by
  decide
#print axioms handlers_cover

/-- Every per-structure mutex is used either for the whole method body (`Lock(); defer Unlock()` first) or in
    balanced Lock/Unlock pairs; the one reviewed exception locks conditionally for the first phase only.
    The LRU cache read by sibling worker goroutines locks the whole body of Get, Set and Remove. -/
theorem structure_locks :
    (∀ e ∈ Gen.lockScopes, e.2.2 = "whole" ∨ e.2.2 = "paired1" ∨ e.2.2 = "paired2" ∨
        e = ("check:AllProject.GetFirstFileStuct", "a.fileStructMutex", "other")) ∧
    (∀ m ∈ ["check/common:LRUCache.Get", "check/common:LRUCache.Set", "check/common:LRUCache.Remove"],
        (m, "lru.cacheMutex", "whole") ∈ Gen.lockScopes) := by
  decide
#print axioms structure_locks

theorem dispatcher_concurrency : Gen.concurrency = 4 := by decide
#print axioms dispatcher_concurrency

/-- The goroutines the server starts are exactly the reviewed ones (worker pools that hand results
    back over channels, directory walkers, telemetry): a new `go` statement invalidates the
    "handlers are the only concurrent actors" abstraction and must be reviewed. -/
theorem goroutines_expected :
    Gen.goSites = [
      ("check/check_first_hanlde.go", "firstCreateAndTraverseAst", "GoRoutineFirstWork"),
      ("check/check_lsp_references.go", "handleAllFilesReference", "GoRoutineFourFile"),
      ("check/check_lsp_symbol.go", "handleAllFilesSymbols", "goroutineFindSymbols"),
      ("check/check_second_project.go", "handleProjectEntryFileVec", "goSecondProject"),
      ("check/check_third_file.go", "handleFiles", "goThirdFile"),
      ("check/common/dir_manager.go", "GetDirFileList", "func"),
      ("check/common/dir_manager.go", "GetDirFileList", "getAllFile"),
      ("check/common/dir_manager.go", "getAllFile", "getAllFile"),
      ("get_online_req.go", "UDPReportOnline", "handleRecv"),
      ("initialize.go", "Initialize", "func"),
      ("initialize.go", "initialCheckProject", "UDPReportOnline")] := by
  decide
#print axioms goroutines_expected

/-! ### the discipline is necessary: lost update without the mutex -/

def rmwRead : Step Nat Nat := fun s => (s, s)            -- read shared counter
def rmwWrite (v : Nat) : Step Nat Nat := fun _ => (v, v) -- write back a value computed from the read

/-- two handlers that each do `x := x + 1` as read-then-write of the value they read (0) -/
def rmwProg : Nat → List (Step Nat Nat) := fun _ => [rmwRead, rmwWrite 1]

theorem unlocked_witness :
    (runU rmwProg 0 [0, 1, 0, 1]).st = 1 ∧           -- both read 0, both write 1: an update is lost
    (serialRun (fun _ => [rmwRead, fun s => (s + 1, s + 1)]) [0, 1] (0 : Nat) (fun _ => [])).1 = 2 := by
  decide
#print axioms unlocked_witness

/-- non-vacuity: a concrete 2-handler program under the mutex, interleaved picks, ends serial -/
example : (run (fun _ => [rmwRead, fun s => (s + 1, s + 1)]) (0 : Nat) 2 [0, 1, 0, 1, 0, 1, 0, 1, 1, 1, 1]).st = 2 := by
  decide

end LuaHelper.C10
