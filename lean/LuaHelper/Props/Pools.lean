/-
Worker-pool dispatch: the five parallel passes of the server (first-phase analysis, second-phase projects,
third-phase files, cross-file references, workspace symbols) hand their jobs to a pool of NumCPU+2 goroutines
with one scheme.  `dispatch_all` proves that the scheme (Model/Pool.lean) sends every job index exactly once
for every number of jobs and workers, whatever order the results arrive in; `pools_shape` pins the five loops
of the current source (regenerated table `Gen.workerPools`) to that scheme.  Used by the checks of C06
(references of a global visit every file), C09 and C19 (workspace symbols visit every file).
-/
import LuaHelper.Gen.Pools
import LuaHelper.Model.Pool
namespace LuaHelper.Pools

open LuaHelper.Pool in
theorem fm_some {f : Nat → Option Nat} (g : Nat → Nat) : ∀ (l : List Nat), (∀ x ∈ l, f x = some (g x)) →
    l.filterMap f = l.map g
  | [], _ => rfl
  | x :: r, h => by
    simp [h x (by simp), fm_some g r (fun y hy => h y (by simp [hy]))]

open LuaHelper.Pool in
theorem fm_none {f : Nat → Option Nat} : ∀ (l : List Nat), (∀ x ∈ l, f x = none) → l.filterMap f = []
  | [], _ => rfl
  | x :: r, h => by
    simp [h x (by simp), fm_none r (fun y hy => h y (by simp [hy]))]

open LuaHelper.Pool in
/-- with at most as many workers as jobs, every job index is dispatched exactly once, in increasing order -/
theorem dispatched_eq (n cor : Nat) (h : cor ≤ n) : dispatched n cor = List.range n := by
  unfold dispatched initial
  have hn : n = (n - cor) + cor := by omega
  have e1 : (List.range n).filterMap (refill n cor) = (List.range (n - cor)).map (cor + ·) := by
    conv => lhs; rw [hn, List.range_add, List.filterMap_append]
    rw [fm_some (cor + ·) (List.range (n - cor)) (by
        intro x hx
        have : x < n - cor := by simpa using hx
        simp [refill] <;> omega),
      fm_none _ (by
        intro x hx
        simp only [List.mem_map, List.mem_range] at hx
        obtain ⟨y, hy, rfl⟩ := hx
        simp [refill] <;> omega)]
    simp
  rw [e1]
  conv => rhs; rw [show n = cor + (n - cor) by omega, List.range_add]
#print axioms dispatched_eq

open LuaHelper.Pool in
/-- the property for every number of files and of workers: no file is skipped, none is scanned twice -/
theorem dispatch_all (n workers : Nat) : dispatched n (clamp n workers) = List.range n := by
  apply dispatched_eq
  unfold clamp; split <;> omega
#print axioms dispatch_all

/-- the same statement with an off-by-one refill index is false (the seeded change `wssymbol-refill-index`) -/
theorem dispatch_off_by_one_witness :
    (List.range 3 ++ (List.range 5).filterMap (fun r => if r + 3 < 5 then some (r + 3 - 1) else none)) ≠ List.range 5 := by
  decide
#print axioms dispatch_off_by_one_witness

/-- a dispatch loop has the shape of Model/Pool for the job-count expression `jobs` -/
def poolOk (p : Gen.Pool) (jobs : String) : Bool :=
  p.loopCond == "recvNum<" ++ jobs && p.guard == "recvNum+corNum<" ++ jobs && p.refillIdx == ["recvNum+corNum"] &&
  p.initBound == "<corNum" && p.initIdx == ["i"] && p.clamp == jobs ++ "<corNum=>corNum=" ++ jobs && p.incs == 2 && p.exits == 0

/-- the five dispatch loops of the current source are instances of the scheme `dispatch_all` is about -/
theorem pools_shape :
    (Gen.workerPools.map (·.func)) = ["firstCreateAndTraverseAst", "handleAllFilesReference", "handleAllFilesSymbols",
      "handleFiles", "handleProjectEntryFileVec"] ∧
    (List.zip Gen.workerPools ["len(filesList)", "listLen", "handleFileLen", "listLen", "vecLen"]).all
      (fun pj => poolOk pj.1 pj.2) = true := by
  decide
#print axioms pools_shape

/-- the per-project second pass: the step that writes state shared by ALL projects (the member tables of the first-pass
    symbols of globals: handleOtherFileInsertSub) is not among the calls of the worker, it is what the coordinator does
    after its receive loop — when every worker has reported (repair 3f5ac55: it used to run inside the workers and two of
    them writing one Go map killed the process) -/
theorem shared_member_tables_written_after_the_workers :
    "handleOtherFileInsertSub" ∉ Gen.secondPassWorkerCalls ∧ Gen.secondPassAfterLoopCalls = ["handleOtherFileInsertSub"] := by
  decide
#print axioms shared_member_tables_written_after_the_workers

/-- the third pass (scattered files of a project-mode workspace): the results are folded into the shared, unlocked
    AnalysisThird.FileErrorMap by recvThirdFile — called by the coordinator inside its receive loop, once per received
    result, and by no worker: the map has one writer for any number of workers and files -/
theorem third_pass_results_folded_by_the_coordinator :
    "recvThirdFile" ∉ Gen.thirdPassWorkerCalls ∧ Gen.thirdPassLoopCalls = ["recvThirdFile"] ∧
    Gen.thirdPassWorkerCalls = ["CreateAnalysisThirdFile", "handleOneFile"] := by
  decide
#print axioms third_pass_results_folded_by_the_coordinator

end LuaHelper.Pools
