/-
C19 — "Symbol outlines list every declaration at its real place, findable by name".

 * the range arithmetic of a table symbol with members (`Outline.extend`, the formula of
   FindAllSymbol / FindAllLocalVal): for EVERY declaring Loc and EVERY list of member Locs the
   rewritten range is well formed, starts where the declaring identifier starts, contains the
   identifier and reaches the end of every member; the formula the code had before the repair
   (`extendOld`) produces a range that starts after it ends (witness);
 * the generated table `Gen.symRangeAssigns` (go/ast extraction of both builders) says the code
   writes exactly the fields `extend` writes (EndLine, EndColumn) — a change back to StartColumn
   breaks this theorem;
 * the spec `Outline.required` is sound w.r.t. S-bind: every required top-level local is a
   declaration occurrence of the reference binder, at the required Loc;
 * the per-file symbol collection of workspace/symbol runs on a worker pool; `dispatch_all` proves, for
   every number of files and every number of workers, that the dispatch scheme of Model/Pool sends every
   file index exactly once, in any completion order; `pools_shape` pins the five dispatch loops of the
   code (regenerated table `Gen.workerPools`: loop condition, refill guard, refill index, initial loop,
   clamp, increments) to exactly that scheme — an off-by-one in a refill index breaks it. These two live in
   Props/Pools.lean, which is also part of the checks of C06 (cross-file references) and C09.
-/
import LuaHelper.Spec.Outline
import LuaHelper.Gen.Symbols
namespace LuaHelper.C19
open LuaHelper.Lex LuaHelper.Ast LuaHelper.Bind LuaHelper.Outline

/-! ### range arithmetic -/

/-- `maxEnd` only moves the end forward -/
theorem maxEnd_ge (m : Int × Int) (c : Loc) :
    posLe m.1 m.2 (maxEnd m c).1 (maxEnd m c).2 = true := by
  unfold maxEnd posLe
  split
  · simp; omega
  · split
    · rename_i h1 h2; simp at h2; simp; omega
    · simp

theorem maxEnd_covers (m : Int × Int) (c : Loc) :
    posLe c.el c.ec (maxEnd m c).1 (maxEnd m c).2 = true := by
  unfold maxEnd posLe
  split
  · simp
  · split
    · rename_i h1 h2; simp at h2; simp; omega
    · rename_i h1 h2; simp at h1 h2 ⊢; omega

theorem posLe_trans {a b c d e f : Int} (h1 : posLe a b c d = true) (h2 : posLe c d e f = true) :
    posLe a b e f = true := by
  unfold posLe at *; simp at *; omega

theorem foldl_ge (cs : List Loc) (m : Int × Int) :
    posLe m.1 m.2 (cs.foldl maxEnd m).1 (cs.foldl maxEnd m).2 = true := by
  induction cs generalizing m with
  | nil => unfold posLe; simp
  | cons c cs ih => exact posLe_trans (maxEnd_ge m c) (ih (maxEnd m c))

theorem foldl_covers (cs : List Loc) (m : Int × Int) (c : Loc) (hc : c ∈ cs) :
    posLe c.el c.ec (cs.foldl maxEnd m).1 (cs.foldl maxEnd m).2 = true := by
  induction cs generalizing m with
  | nil => cases hc
  | cons x cs ih =>
    rcases List.mem_cons.mp hc with h | h
    · subst h; exact posLe_trans (maxEnd_covers m c) (foldl_ge cs (maxEnd m c))
    · exact ih (maxEnd m x) h

/-- the range of a function symbol contains the name it is declared by, whichever comes first, and the
    function itself — for every pair of Locs such that the name ends inside the function's extent (the name
    of `function f() … end` lies inside the function; the name of `local f = function … end` ends before it) -/
theorem funcSymbolLoc_contains (v f : Loc) (hnz : isInitialLoc v = false) (hv : wellFormed v = true)
    (hf : wellFormed f = true) (hend : posLe v.el v.ec f.el f.ec = true) :
    contains (funcSymbolLoc v f) v = true ∧ contains (funcSymbolLoc v f) f = true ∧
    wellFormed (funcSymbolLoc v f) = true := by
  unfold funcSymbolLoc
  by_cases hc : (v.sl > f.sl || (v.sl == f.sl && v.sc ≥ f.sc)) = true
  · simp only [hnz, hc, Bool.false_or, if_true]
    unfold contains wellFormed posLe at *
    simp at *
    omega
  · have hc' : (decide (v.sl > f.sl) || (v.sl == f.sl && decide (v.sc ≥ f.sc))) = false := by simpa using hc
    simp only [hnz, hc', Bool.false_or, Bool.false_eq_true, if_false]
    unfold contains wellFormed posLe at *
    simp at *
    omega
#print axioms funcSymbolLoc_contains

/-- the former finding C19-K2: `local f = function(a) … end` — name at 1:6-1:7, function at 1:10-3:3: the symbol
    range is 1:6-3:3; for `function f() … end` (function 1:0-1:20, name 1:9-1:10) it is the function's range -/
example : funcSymbolLoc ⟨1, 6, 1, 7⟩ ⟨1, 10, 3, 3⟩ = ⟨1, 6, 3, 3⟩ ∧ funcSymbolLoc ⟨1, 9, 1, 10⟩ ⟨1, 0, 1, 20⟩ = ⟨1, 0, 1, 20⟩ := by
  decide

/-- the rewritten range keeps the start of the declaring identifier -/
theorem extend_start (d : Loc) (cs : List Loc) : (extend d cs).sl = d.sl ∧ (extend d cs).sc = d.sc := by
  simp [extend]

/-- for every declaring Loc and every list of member Locs: well formed and contains the identifier -/
theorem extend_wellformed_contains (d : Loc) (cs : List Loc) (hd : wellFormed d = true) :
    wellFormed (extend d cs) = true ∧ contains (extend d cs) d = true := by
  have h := foldl_ge cs (d.el, d.ec)
  constructor
  · unfold wellFormed at *
    simp only [extend]
    exact posLe_trans hd h
  · unfold contains
    simp only [extend, Bool.and_eq_true]
    exact ⟨by unfold posLe; simp, h⟩
#print axioms extend_wellformed_contains

/-- … and reaches the end of every member -/
theorem extend_covers_members (d : Loc) (cs : List Loc) (c : Loc) (hc : c ∈ cs) :
    posLe c.el c.ec (extend d cs).el (extend d cs).ec = true := by
  simp only [extend]; exact foldl_covers cs _ c hc
#print axioms extend_covers_members

/-- the formula before the repair: `local u = { x = 1, y = function() end }` (identifier 1:6-1:7,
    members ending at 1:13 and 1:37) gets the range 1:37-1:7, which starts after it ends -/
theorem extendOld_witness :
    wellFormed (extendOld ⟨1, 6, 1, 7⟩ [⟨1, 12, 1, 13⟩, ⟨1, 23, 1, 37⟩]) = false ∧
    contains (extendOld ⟨1, 6, 1, 7⟩ [⟨1, 12, 1, 13⟩, ⟨1, 23, 1, 37⟩]) ⟨1, 6, 1, 7⟩ = false := by decide
#print axioms extendOld_witness

/-- premises satisfiable: a concrete well-formed identifier with members on later lines -/
example : wellFormed ⟨5, 6, 5, 7⟩ = true ∧ extend ⟨5, 6, 5, 7⟩ [⟨6, 2, 6, 3⟩, ⟨7, 0, 9, 3⟩] = ⟨5, 6, 9, 3⟩ := by decide

/-- the code writes exactly the fields `extend` writes (regenerated from /repo on every run) -/
theorem range_rewrite_sites :
    Gen.symRangeAssigns =
      [("FindAllSymbol", "EndLine", "EndLine"), ("FindAllSymbol", "EndColumn", "EndColumn"),
       ("FindAllLocalVal", "EndLine", "EndLine"), ("FindAllLocalVal", "EndColumn", "EndColumn")] := by decide
#print axioms range_rewrite_sites

/-! ### the spec is sound w.r.t. the reference binder -/

theorem localPairs_decl (sl : Loc) (names : List (Bytes × Loc × Nat)) (exps : List Exp)
    (n : Bytes) (l : Loc) (e : Option Exp) (h : (n, l, e) ∈ localPairs names exps) :
    ∃ o ∈ localDecls sl names exps, o.isDecl = true ∧ o.loc = l ∧ o.name = n := by
  induction names generalizing exps with
  | nil => simp [localPairs] at h
  | cons x xs ih =>
    obtain ⟨n', l', k⟩ := x
    cases exps with
    | nil =>
      simp only [localPairs, List.mem_cons] at h
      rcases h with h | h
      · simp only [Prod.mk.injEq] at h
        exact ⟨declOcc n' l' sl, by simp [localDecls], by simp [declOcc], by simp [declOcc, h.2.1], by simp [declOcc, h.1]⟩
      · obtain ⟨o, ho, hp⟩ := ih [] h
        exact ⟨o, by simp [localDecls, ho], hp⟩
    | cons e' es =>
      simp only [localPairs, List.mem_cons] at h
      rcases h with h | h
      · simp only [Prod.mk.injEq] at h
        exact ⟨{ declOcc n' l' sl with init := initDesc e' }, by simp [localDecls], by simp [declOcc],
          by simp [declOcc, h.2.1], by simp [declOcc, h.1]⟩
      · obtain ⟨o, ho, hp⟩ := ih es h
        exact ⟨o, by simp [localDecls, ho], hp⟩

/-- every top-level local required by the outline spec is a declaration occurrence of S-bind -/
theorem topLocals_declared (ss : List Stat) (env : Env) (n : Bytes) (l : Loc) (e : Option Exp)
    (h : (n, l, e) ∈ topLocals ss) :
    ∃ o ∈ (bStats false env ss).1, o.isDecl = true ∧ o.loc = l ∧ o.name = n := by
  induction ss generalizing env with
  | nil => simp [topLocals] at h
  | cons s r ih =>
    have tail : (n, l, e) ∈ topLocals r →
        ∃ o ∈ (bStats false env (s :: r)).1, o.isDecl = true ∧ o.loc = l ∧ o.name = n := by
      intro hr
      obtain ⟨o, ho, hp⟩ := ih (bStat false env s).2 hr
      exact ⟨o, by simp [bStats, ho], hp⟩
    cases s with
    | local_ names exps sl =>
      simp only [topLocals, List.mem_append] at h
      rcases h with h | h
      · obtain ⟨o, ho, hp⟩ := localPairs_decl sl names exps n l e h
        exact ⟨o, by simp [bStats, bStat, ho], hp⟩
      · exact tail h
    | localfn fnm nl f sl =>
      simp only [topLocals, List.mem_cons] at h
      rcases h with h | h
      · simp only [Prod.mk.injEq] at h
        exact ⟨declOcc fnm nl ⟨0, 0, 0, 0⟩ "N", by simp [bStats, bStat], by simp [declOcc],
          by simp [declOcc, h.2.1], by simp [declOcc, h.1]⟩
      · exact tail h
    | brk | label _ _ | goto_ _ _ | do_ _ _ | while_ _ _ _ | repeat_ _ _ _ | if_ _ _ _ _ | fornum _ _ _ _ _ _ _
    | forin _ _ _ _ | assign _ _ _ | callstat _ =>
      simp only [topLocals] at h
      exact tail h

theorem required_locals_declared (b : Block) (n : Bytes) (l : Loc) (e : Option Exp)
    (h : (n, l, e) ∈ topLocals (blockStats b)) :
    ∃ o ∈ bindChunk b, o.isDecl = true ∧ o.loc = l ∧ o.name = n := by
  obtain ⟨ss, ret, bl⟩ := b
  obtain ⟨o, ho, hp⟩ := topLocals_declared ss [] n l e (by simpa [blockStats] using h)
  refine ⟨o, ?_, hp⟩
  unfold bindChunk
  cases ret <;> simp [bBlock, ho]
#print axioms required_locals_declared

end LuaHelper.C19
