/-
C15 — "Annotated types give a variable exactly its declared and inherited members".

The member set of a typed variable is the union of the ---@field lists of the classes reachable from
the names of its type through class → parent and alias → aliased-name edges.  Proved here, for EVERY
declaration graph (multiple inheritance, diamonds, cycles, aliases of aliases, names declared several
times, undeclared names):
 * `closure` is a total function — it terminates on cyclic graphs (its definition carries the
   termination proof: every expansion visits a not-yet-visited node of the finite node list);
 * `closure_sound`    : every collected name is reachable from a root;
 * `closure_complete` : every declared name reachable from a declared root is collected
so members are neither invented nor lost.  The executable `closure` is what the harness compares
with the real server's member completion / member go-to-definition on generated hierarchies.
-/
import LuaHelper.Spec.Closure
import LuaHelper.Gen.Shapes
namespace LuaHelper.C15
open LuaHelper.Closure

/-- the real collector (getClassTypeInfoList), as it stands in /repo now: in both look-up branches a
    declaration is marked visited BEFORE its parents and its alias target are expanded — the order that
    makes the recursion stop on cycles (`go` marks `n :: vis` before visiting `succs g n`) -/
theorem collector_marks_before_expanding :
    Gen.closureOrder = ["mark", "parents", "alias", "mark", "parents", "alias"] := by decide
#print axioms collector_marks_before_expanding

/-- the invariant that makes the result closed under successors -/
theorem go_closed (g : Graph) (nodes work vis : List Name) :
    (∀ x ∈ vis, x ∈ go g nodes work vis) ∧
    (∀ w ∈ work, nodes.contains w = true → w ∈ go g nodes work vis) ∧
    (∀ x ∈ go g nodes work vis, x ∉ vis → ∀ c ∈ succs g x, nodes.contains c = true → c ∈ go g nodes work vis) := by
  fun_induction go g nodes work vis with
  | case1 vis => exact ⟨fun x hx => hx, ⟨fun w hw _ => absurd hw (by simp), fun x hx hxv => absurd hx hxv⟩⟩
  | case2 n work vis h ih =>
    obtain ⟨i1, i2, i3⟩ := ih
    refine ⟨i1, ?_, i3⟩
    intro w hw hwn
    rcases List.mem_cons.mp hw with e | e
    · subst e
      rcases h with h | h
      · exact i1 w (by simpa using h)
      · rw [h] at hwn; cases hwn
    · exact i2 w e hwn
  | case3 n work vis h ih =>
    obtain ⟨i1, i2, i3⟩ := ih
    have hn_in : n ∈ go g nodes (succs g n ++ work) (n :: vis) := i1 n (by simp)
    refine ⟨fun x hx => i1 x (by simp [hx]), ?_, ?_⟩
    · intro w hw hwn
      rcases List.mem_cons.mp hw with e | e
      · subst e; exact hn_in
      · exact i2 w (by simp [e]) hwn
    · intro x hx hxv c hc hcn
      by_cases e : x = n
      · subst e
        exact i2 c (by simp [hc]) hcn
      · exact i3 x hx (by simp [e, hxv]) c hc hcn

/-- everything collected was reachable from the work list (or already visited) -/
theorem go_sound (g : Graph) (work vis : List Name) :
    ∀ x ∈ go g (nodesOf g) work vis, x ∈ vis ∨ ∃ w ∈ work, Reach g w x := by
  fun_induction go g (nodesOf g) work vis with
  | case1 vis => intro x hx; exact Or.inl hx
  | case2 n work vis h ih =>
    intro x hx
    rcases ih x hx with h1 | ⟨w, hw, hr⟩
    · exact Or.inl h1
    · exact Or.inr ⟨w, by simp [hw], hr⟩
  | case3 n work vis h ih =>
    intro x hx
    have hn : (nodesOf g).contains n = true := by
      cases hc : (nodesOf g).contains n
      · exact absurd (Or.inr hc) h
      · rfl
    rcases ih x hx with h1 | ⟨w, hw, hr⟩
    · rcases List.mem_cons.mp h1 with e | e
      · subst e; exact Or.inr ⟨x, by simp, Reach.refl x hn⟩
      · exact Or.inl e
    · rcases List.mem_append.mp hw with hs | hwk
      · -- w is a successor of n: n reaches x through w
        refine Or.inr ⟨n, by simp, ?_⟩
        have hwn : (nodesOf g).contains w = true := by
          -- the start of a Reach chain is declared
          clear hx hw hs
          induction hr with
          | refl h => exact h
          | step _ _ _ _ _ ih => exact ih
        have base : Reach g n w := Reach.step n n w (Reach.refl n hn) hs hwn
        -- compose base with hr
        clear hx hw
        induction hr with
        | refl _ => exact base
        | step b c _ hbc hcn ih => exact Reach.step n b c ih hbc hcn
      · exact Or.inr ⟨w, by simp [hwk], hr⟩

theorem closure_sound (g : Graph) (roots : List Name) :
    ∀ x ∈ closure g roots, ∃ r ∈ roots, Reach g r x := by
  intro x hx
  rcases go_sound g roots [] x hx with h | h
  · cases h
  · exact h
#print axioms closure_sound

theorem closure_complete (g : Graph) (roots : List Name) (r x : Name) (hr : r ∈ roots)
    (h : Reach g r x) : x ∈ closure g roots := by
  obtain ⟨_, i2, i3⟩ := go_closed g (nodesOf g) roots []
  induction h with
  | refl hn => exact i2 r hr hn
  | step b c _ hbc hcn ih => exact i3 b ih (by simp) c hbc hcn
#print axioms closure_complete

/-- exactly the reachable declared names -/
theorem closure_exact (g : Graph) (roots : List Name) (x : Name) :
    x ∈ closure g roots ↔ ∃ r ∈ roots, Reach g r x :=
  ⟨closure_sound g roots x, fun ⟨r, hr, h⟩ => closure_complete g roots r x hr h⟩
#print axioms closure_exact

/-- a diamond with a cycle and an alias chain: D : B, C;  B : A;  C : A;  A : D (cycle);  T = alias of U, U = alias of D -/
example :
    closure [("D", ["B", "C"]), ("B", ["A"]), ("C", ["A"]), ("A", ["D"]), ("T", ["U"]), ("U", ["D"]), ("Z", [])] ["T"] =
      ["C", "A", "B", "D", "U", "T"] := by
  simp [closure, go, succs, nodesOf]

end LuaHelper.C15
