/-
M-sync: handlers as sequences of atomic steps over one shared state, run by a dispatcher that may
interleave them arbitrarily (jrpc2: up to `Concurrency` handlers in flight), with and without the
one request mutex.  Core Lean only.

`exec`  : every handler body is bracketed by `requestMutex.Lock(); defer requestMutex.Unlock()`
          (a handler is fresh, *the* current lock holder, or finished; a scheduler pick of any other
          handler is a blocked/finished no-op).
`execU` : no mutex: any started handler may take its next step at any pick.
-/
namespace LuaHelper.Sync

variable {S O : Type}

abbrev Step (S O : Type) := S → S × O

def upd {α : Type} (f : Nat → α) (i : Nat) (v : α) : Nat → α := fun j => if j = i then v else f j

/-- run steps serially, collecting observations -/
def runSteps : List (Step S O) → S → List O → S × List O
  | [], s, acc => (s, acc)
  | f :: r, s, acc => let p := f s; runSteps r p.1 (acc ++ [p.2])

/-- serial execution of whole handlers in the given order -/
def serialRun (prog : Nat → List (Step S O)) : List Nat → S → (Nat → List O) → S × (Nat → List O)
  | [], s, obs => (s, obs)
  | i :: r, s, obs => let p := runSteps (prog i) s []; serialRun prog r p.1 (upd obs i p.2)

structure Cfg (S O : Type) where
  st : S
  obs : Nat → List O
  /-- finished handlers in lock-acquisition order -/
  order : List Nat
  /-- lock holder, its steps already done (observations so far are in `obs`) and its remaining steps -/
  cur : Option (Nat × List (Step S O))
  fresh : Nat → Bool

def init (s0 : S) (n : Nat) : Cfg S O :=
  { st := s0, obs := fun _ => [], order := [], cur := none, fresh := fun i => decide (i < n) }

/-- one scheduler pick under the lock discipline -/
def exec (prog : Nat → List (Step S O)) (c : Cfg S O) (i : Nat) : Cfg S O :=
  match c.cur with
  | some (h, rem) =>
    if i = h then
      match rem with
      | [] => { c with cur := none, order := c.order ++ [h] }                 -- Unlock
      | f :: r => let p := f c.st
                  { c with st := p.1, obs := upd c.obs h (c.obs h ++ [p.2]), cur := some (h, r) }
    else c                                                                     -- blocked in Lock() or finished
  | none =>
    if c.fresh i then { c with cur := some (i, prog i), fresh := upd c.fresh i false,
                               obs := upd c.obs i [] }                         -- Lock acquired
    else c

def run (prog : Nat → List (Step S O)) (s0 : S) (n : Nat) (sched : List Nat) : Cfg S O :=
  sched.foldl (exec prog) (init s0 n)

/-! ### without the mutex -/

structure CfgU (S O : Type) where
  st : S
  obs : Nat → List O
  rem : Nat → List (Step S O)

def execU (c : CfgU S O) (i : Nat) : CfgU S O :=
  match c.rem i with
  | [] => c
  | f :: r => let p := f c.st
              { st := p.1, obs := upd c.obs i (c.obs i ++ [p.2]), rem := upd c.rem i r }

def runU (prog : Nat → List (Step S O)) (s0 : S) (sched : List Nat) : CfgU S O :=
  sched.foldl execU { st := s0, obs := fun _ => [], rem := prog }

end LuaHelper.Sync
