/-
M-parse: executable model of luahelper-lsp/langserver/check/compiler/parser/*.go — every production,
error recording (with the 31-error sentinel), Location computation and the AST, following the Go code
function by function.  The lexer is pre-run (`Lex.lexAll`); the parser pulls tokens with one token of
look-ahead and merges the lexical errors of a token into its error list at the moment the Go lexer
would have scanned it (first look at it).

Recursion is on a fuel argument (depth); `PS.fuelOut` is set if it ever runs out (never observed:
initial fuel = 8·tokens + 64 and every recursion consumes a token within a bounded number of calls —
`Props/C01` states this).  Core Lean only.
-/
import LuaHelper.Model.Ast
import LuaHelper.Model.Number
namespace LuaHelper.Parse
open LuaHelper.Lex LuaHelper.Ast

structure PErr where
  loc : Loc
  msg : String
  lexical : Bool
deriving Repr, Inhabited

structure PS where
  toks : Array Tok
  /-- number of tokens consumed so far: `now` = toks[pos-1] (invalid if pos = 0), look-ahead = toks[pos] -/
  pos : Nat := 0
  /-- tokens already scanned by the lexer (their lexical errors are merged) -/
  scanned : Nat := 0
  errs : Array PErr := #[]
  aborted : Bool := false          -- TooManyErr was raised
  fuelOut : Bool := false
  panic : Bool := false
deriving Inhabited

abbrev P := StateM PS

def eofIdx (s : PS) : Nat := s.toks.size - 1

/-- token i of the stream; past the end the lexer keeps producing EOF -/
def PS.tokAt (s : PS) (i : Nat) : Token :=
  match s.toks[min i (eofIdx s)]? with
  | some t => t.tok
  | none => {}

def PS.nowTok (s : PS) : Token := if s.pos == 0 then {} else s.tokAt (s.pos - 1)
def PS.preTok (s : PS) : Token := if s.pos ≤ 1 then {} else s.tokAt (s.pos - 2)
def PS.aheadTok (s : PS) : Token := s.tokAt s.pos

/-- `insertErr` -/
def pushErr (e : PErr) : P Unit := modify fun s =>
  if s.aborted then s
  else if s.errs.size < 30 then { s with errs := s.errs.push e }
  else { s with errs := s.errs.push e, aborted := true }

/-- make sure token `i` has been scanned: merge the lexical errors of tokens scanned..i -/
def scanTo (i : Nat) : P Unit := do
  let s ← get
  let hi := min i (eofIdx s)
  if s.scanned ≤ hi then
    for j in [s.scanned : hi + 1] do
      match s.toks[j]? with
      | some t => for e in t.errs do pushErr { loc := e.loc, msg := e.msg, lexical := true }
      | none => pure ()
    modify fun s => { s with scanned := hi + 1 }

def err (loc : Loc) (msg : String) : P Unit := pushErr { loc := loc, msg := msg, lexical := false }

/-- `LookAheadKind` -/
def lookKind : P TK := do
  scanTo (← get).pos
  return (← get).aheadTok.kind

/-- `GetHeardTokenLoc` -/
def heardLocP : P Loc := do
  scanTo (← get).pos
  let s ← get
  return heardLoc s.nowTok s.aheadTok

/-- `GetNowTokenLoc` -/
def nowLocP : P Loc := do
  let s ← get
  if !s.nowTok.valid then heardLocP
  else return nowLoc s.preTok s.nowTok s.aheadTok

def preLocP : P Loc := do return preLoc (← get).preTok

/-- `NextToken` -/
def next : P Token := do
  scanTo (← get).pos
  modify fun s => { s with pos := s.pos + 1 }
  return (← get).nowTok

/-- `NextTokenKind` -/
def nextKind (k : TK) : P Token := do
  let t ← next
  if t.kind != k then err (← nowLocP) s!"expected {k.goName}"
  return t

def nextIdent : P Token := nextKind .ident

def rangeLoc (a b : Loc) : Loc := ⟨a.sl, a.sc, b.el, b.ec⟩
def rangeLocExcl (a b : Loc) : Loc := ⟨a.sl, a.sc, b.sl, b.sc⟩

/-- `getPriority` (tied to `Gen.priority` in Props/C03) -/
def priority : TK → Nat
  | .pow => 12 | .mul | .mod | .div | .idiv => 10 | .add | .minus => 9 | .concat => 8
  | .shl | .shr => 7 | .band => 6 | .wave => 5 | .bor => 4
  | .lt | .gt | .ne | .le | .ge | .eq => 3 | .and => 2 | .or => 1 | _ => 0

def isBlockEnd : TK → Bool
  | .kwReturn | .eof | .kwEnd | .kwElse | .kwElseif | .kwUntil => true
  | _ => false

def outOfFuel {α} [Inhabited α] : P α := do
  modify fun s => { s with fuelOut := true }
  return default

mutual

/-- `parseBlock` -/
def parseBlock : Nat → P (List Stat × Option (List Exp))
  | 0 => outOfFuel
  | f + 1 => do
    let stats ← parseStats f []
    let ret ← parseRetExps f
    return (stats, ret)

/-- the loop of `parseStats` (EmptyStat results are dropped) -/
def parseStats : Nat → List Stat → P (List Stat)
  | 0, acc => do let _ ← (outOfFuel : P Unit); return acc.reverse
  | f + 1, acc => do
    if isBlockEnd (← lookKind) then return acc.reverse
    if (← get).aborted then return acc.reverse
    match ← parseStat f with
    | some st => parseStats f (st :: acc)
    | none => parseStats f acc

def parseRetExps : Nat → P (Option (List Exp))
  | 0 => outOfFuel
  | f + 1 => do
    if (← lookKind) != .kwReturn then return none
    let _ ← next
    match ← lookKind with
    | .eof | .kwEnd | .kwElse | .kwElseif | .kwUntil => return some []
    | .semi => let _ ← next; return some []
    | _ =>
      let exps ← parseExpList f
      if (← lookKind) == .semi then let _ ← next
      return some exps

/-- a block with the Loc the callers compute: begin = look-ahead before, end = now after -/
def parseBlockLoc : Nat → P Block
  | 0 => outOfFuel
  | f + 1 => do
    let b ← heardLocP
    let (stats, ret) ← parseBlock f
    let e ← nowLocP
    return .mk stats ret (rangeLoc b e)

/-- the `if` variant: end = look-ahead after, exclusive -/
def parseBlockLocIf : Nat → P Block
  | 0 => outOfFuel
  | f + 1 => do
    let b ← heardLocP
    let (stats, ret) ← parseBlock f
    let e ← heardLocP
    return .mk stats ret (rangeLocExcl b e)

/-- `parseStat`; `none` = EmptyStat -/
def parseStat : Nat → P (Option Stat)
  | 0 => outOfFuel
  | f + 1 => do
    match ← lookKind with
    | .semi => let _ ← nextKind .semi; return none
    | .kwBreak => let _ ← nextKind .kwBreak; return some .brk
    | .label =>
      let _ ← nextKind .label
      let n ← nextIdent
      let loc ← nowLocP
      let _ ← nextKind .label
      return some (.label n.str loc)
    | .kwGoto =>
      let _ ← nextKind .kwGoto
      let n ← nextIdent
      return some (.goto_ n.str (← nowLocP))
    | .kwDo =>
      let _ ← nextKind .kwDo
      let b ← nowLocP
      let blk ← parseBlockLoc f
      let _ ← nextKind .kwEnd
      return some (.do_ blk (rangeLoc b (← nowLocP)))
    | .kwWhile =>
      let _ ← nextKind .kwWhile
      let b ← nowLocP
      let c ← parseExp f
      let _ ← nextKind .kwDo
      let blk ← parseBlockLoc f
      let _ ← nextKind .kwEnd
      return some (.while_ c blk (rangeLoc b (← nowLocP)))
    | .kwRepeat =>
      let _ ← nextKind .kwRepeat
      let b ← nowLocP
      let blk ← parseBlockLoc f
      let _ ← nextKind .kwUntil
      let c ← parseExp f
      return some (.repeat_ blk c (rangeLoc b (← nowLocP)))
    | .kwIf => parseIfStat f
    | .kwFor => parseForStat f
    | .kwFunction => parseFuncDefStat f
    | .kwLocal =>
      let _ ← nextKind .kwLocal
      if (← lookKind) == .kwFunction then
        let b ← nowLocP
        let _ ← nextKind .kwFunction
        let n ← nextIdent
        let nl ← nowLocP
        let fb ← parseFuncBody f b [] [] false none
        return some (.localfn n.str nl fb (rangeLoc b (← nowLocP)))
      else parseLocalVarDecl f
    | .illegal => let _ ← next; return none
    | _ => parseAssignOrCall f

def parseIfStat : Nat → P (Option Stat)
  | 0 => outOfFuel
  | f + 1 => do
    let _ ← nextKind .kwIf
    let b ← nowLocP
    let c0 ← parseExp f
    let _ ← nextKind .kwThen
    let b0 ← parseBlockLocIf f
    let (cs, bs) ← parseElseifs f [c0] [b0]
    let (cs, bs, els) ← (do
      if (← lookKind) == .kwElse then
        let _ ← next
        let tl ← nowLocP
        let eb ← parseBlockLocIf f
        return (cs ++ [Exp.tru tl], bs ++ [eb], true)
      else return (cs, bs, false))
    let _ ← nextKind .kwEnd
    return some (.if_ cs bs els (rangeLoc b (← nowLocP)))

def parseElseifs : Nat → List Exp → List Block → P (List Exp × List Block)
  | 0, cs, bs => do let _ ← (outOfFuel : P Unit); return (cs, bs)
  | f + 1, cs, bs => do
    if (← lookKind) != .kwElseif then return (cs, bs)
    if (← get).aborted then return (cs, bs)
    let _ ← next
    let c ← parseExp f
    let _ ← nextKind .kwThen
    let b ← parseBlockLocIf f
    parseElseifs f (cs ++ [c]) (bs ++ [b])

def parseForStat : Nat → P (Option Stat)
  | 0 => outOfFuel
  | f + 1 => do
    let _ ← nextKind .kwFor
    let b ← nowLocP
    let n ← nextIdent
    if (← lookKind) == .assign then
      let vl ← nowLocP
      let _ ← nextKind .assign
      let i ← parseExp f
      let _ ← nextKind .comma
      let lim ← parseExp f
      let step ← (do
        if (← lookKind) == .comma then let _ ← next; parseExp f
        else return Exp.int 1 zeroLoc)
      let _ ← nextKind .kwDo
      let blk ← parseBlockLoc f
      let _ ← nextKind .kwEnd
      return some (.fornum n.str vl i lim step blk (rangeLoc b (← nowLocP)))
    else
      let vl ← nowLocP
      let names ← finishNameList f [(n.str, vl)]
      let _ ← nextKind .kwIn
      let exps ← parseExpList f
      let _ ← nextKind .kwDo
      let blk ← parseBlockLoc f
      let _ ← nextKind .kwEnd
      return some (.forin names exps blk (rangeLoc b (← nowLocP)))

def finishNameList : Nat → List (Bytes × Loc) → P (List (Bytes × Loc))
  | 0, acc => do let _ ← (outOfFuel : P Unit); return acc
  | f + 1, acc => do
    if (← lookKind) != .comma then return acc
    if (← get).aborted then return acc
    let _ ← next
    let n ← nextIdent
    let l ← nowLocP
    finishNameList f (acc ++ [(n.str, l)])

/-- `getLocalAttribute`: 0 regular, 1 close, 2 const -/
def getLocalAttribute : P Nat := do
  if (← lookKind) == .lt then
    let _ ← next
    let a ← nextIdent
    if a.str == bytesOfString "close" then let _ ← nextKind .gt; return 1
    else if a.str == bytesOfString "const" then let _ ← nextKind .gt; return 2
    else
      err (← nowLocP) "unrecognized local varible attribute"
      let _ ← nextKind .gt
      return 0
  else return 0

def finishLocalNameList : Nat → Bool → List (Bytes × Loc × Nat) → P (List (Bytes × Loc × Nat))
  | 0, _, acc => do let _ ← (outOfFuel : P Unit); return acc
  | f + 1, haveClose, acc => do
    if (← lookKind) != .comma then return acc
    if (← get).aborted then return acc
    let _ ← next
    let n ← nextIdent
    let l ← nowLocP
    let k ← getLocalAttribute
    let haveClose ← (do
      if k == 1 then
        if haveClose then
          err (← preLocP) "more than one to_be_close variables found in local list"
          return true
        else return true
      else return haveClose)
    finishLocalNameList f haveClose (acc ++ [(n.str, l, k)])

def parseLocalVarDecl : Nat → P (Option Stat)
  | 0 => outOfFuel
  | f + 1 => do
    let b ← nowLocP
    let n ← nextIdent
    let l0 ← nowLocP
    let k0 ← getLocalAttribute
    let names ← finishLocalNameList f (k0 == 1) [(n.str, l0, k0)]
    let exps ← (do
      if (← lookKind) == .assign then let _ ← next; parseExpList f
      else return [])
    return some (.local_ names exps (rangeLoc b (← nowLocP)))

def parseAssignOrCall : Nat → P (Option Stat)
  | 0 => outOfFuel
  | f + 1 => do
    let b ← heardLocP
    let e ← parsePrefixExp f
    match e with
    | .bad _ => return none
    | .call p m a _ => return some (.callstat (.call p m a (rangeLoc b (← nowLocP))))
    | _ =>
      let vars ← finishVarList f [← checkVar e]
      if (← lookKind) != .assign then
        err (rangeLoc b (← nowLocP)) "expression cannot be used as a statement"
        return none
      let _ ← nextKind .assign
      let exps ← parseExpList f
      return some (.assign vars exps (rangeLoc b (← nowLocP)))

def finishVarList : Nat → List Exp → P (List Exp)
  | 0, acc => do let _ ← (outOfFuel : P Unit); return acc
  | f + 1, acc => do
    if (← lookKind) != .comma then return acc
    if (← get).aborted then return acc
    let _ ← next
    let e ← parsePrefixExp f
    finishVarList f (acc ++ [← checkVar e])

/-- `parseFuncDefStat`: `function a.b:c() … end` → assignment -/
def parseFuncDefStat : Nat → P (Option Stat)
  | 0 => outOfFuel
  | f + 1 => do
    let _ ← nextKind .kwFunction
    let b ← nowLocP
    -- parseFuncName
    let n ← nextIdent
    let nl ← nowLocP
    -- Go: `className = name` inside the loops refers to the FIRST identifier (the inner `name` is a
    -- shadowing declaration), so the class name is the first identifier whenever a '.' or ':' follows
    let (e, dotted, fnm) ← funcNameDots f (Exp.name n.str nl) nl false n.str
    let (e, fnm, colon) ← (do
      if (← lookKind) == .colon then
        let _ ← next
        let m ← nextIdent
        let ml ← nowLocP
        return (Exp.index e (.str m.str ml) (rangeLoc nl ml), m.str, true)
      else return (e, fnm, false))
    let cls : Bytes := if dotted || colon then n.str else []
    let selfLoc ← nowLocP
    let fb ← parseFuncBody f b cls fnm colon (some selfLoc)
    return some (.assign [e] [.func fb] (rangeLoc b (← nowLocP)))

def funcNameDots : Nat → Exp → Loc → Bool → Bytes → P (Exp × Bool × Bytes)
  | 0, e, _, d, fnm => do let _ ← (outOfFuel : P Unit); return (e, d, fnm)
  | f + 1, e, b, d, fnm => do
    if (← lookKind) != .dot then return (e, d, fnm)
    if (← get).aborted then return (e, d, fnm)
    let _ ← next
    let m ← nextIdent
    let ml ← nowLocP
    funcNameDots f (Exp.index e (.str m.str ml) (rangeLoc b ml)) b true m.str

/-- `parseFuncDefExp` (+ the `self` insertion of parseFuncDefStat when `selfLoc` is given and colon) -/
def parseFuncBody : Nat → Loc → Bytes → Bytes → Bool → Option Loc → P FuncBody
  | 0, _, _, _, _, _ => outOfFuel
  | f + 1, b, cls, fnm, colon, selfLoc => do
    let _ ← nextKind .lparen
    let (ps, va) ← parseParList f
    let _ ← nextKind .rparen
    let blk ← parseBlockLoc f
    let _ ← nextKind .kwEnd
    let loc := rangeLoc b (← nowLocP)
    let ps := match colon, selfLoc with
      | true, some sl => (bytesOfString "self", sl) :: ps
      | _, _ => ps
    return .mk cls fnm ps va colon blk loc

def parseParList : Nat → P (List (Bytes × Loc) × Bool)
  | 0 => outOfFuel
  | f + 1 => do
    match ← lookKind with
    | .rparen => return ([], false)
    | .vararg => let _ ← next; return ([], true)
    | _ =>
      let n ← nextIdent
      let l ← nowLocP
      parParams f [(n.str, l)]

def parParams : Nat → List (Bytes × Loc) → P (List (Bytes × Loc) × Bool)
  | 0, acc => do let _ ← (outOfFuel : P Unit); return (acc, false)
  | f + 1, acc => do
    if (← lookKind) != .comma then return (acc, false)
    if (← get).aborted then return (acc, false)
    let _ ← next
    if (← lookKind) == .ident then
      let n ← nextIdent
      let l ← nowLocP
      parParams f (acc ++ [(n.str, l)])
    else
      let _ ← nextKind .vararg
      return (acc, true)

/-- `parseExpList` -/
def parseExpList : Nat → P (List Exp)
  | 0 => outOfFuel
  | f + 1 => do
    let e ← parseExp f
    expListMore f [e]

def expListMore : Nat → List Exp → P (List Exp)
  | 0, acc => do let _ ← (outOfFuel : P Unit); return acc
  | f + 1, acc => do
    if (← lookKind) != .comma then return acc
    if (← get).aborted then return acc
    let _ ← next
    let e ← parseExp f
    expListMore f (acc ++ [e])

def parseExp : Nat → P Exp
  | 0 => outOfFuel
  | f + 1 => parseSubExp f 0

/-- `parseSubExp` (precedence climbing) -/
def parseSubExp : Nat → Nat → P Exp
  | 0, _ => outOfFuel
  | f + 1, limit => do
    let k ← lookKind
    let b ← heardLocP
    let e ← (do
      if k == .nen || k == .minus || k == .wave || k == .not then
        let t ← next
        let bl ← nowLocP
        let a ← parseSubExp f 10
        return Exp.unop t.kind a (rangeLoc bl (← nowLocP))
      else parseExp0 f)
    binLoop f limit b e

def binLoop : Nat → Nat → Loc → Exp → P Exp
  | 0, _, _, e => do let _ ← (outOfFuel : P Unit); return e
  | f + 1, limit, b, e => do
    let k ← lookKind
    let pr := priority k
    if pr == 0 || pr ≤ limit then return e
    if (← get).aborted then return e
    let pr := if k == .pow || k == .concat then pr - 1 else pr
    let _ ← next
    let r ← parseSubExp f pr
    let _ ← lookKind
    let loc := rangeLoc b (← nowLocP)
    binLoop f limit b (.binop k e r loc)

def parseExp0 : Nat → P Exp
  | 0 => outOfFuel
  | f + 1 => do
    match ← lookKind with
    | .vararg => let _ ← next; return .vararg (← nowLocP)
    | .kwNil => let _ ← next; return .nil (← nowLocP)
    | .kwTrue => let _ ← next; return .tru (← nowLocP)
    | .kwFalse => let _ ← next; return .fls (← nowLocP)
    | .string => let t ← next; return .str t.str (← nowLocP)
    | .number =>
      let t ← next
      match Num.classify t.str with
      | .int v => return .int v (← nowLocP)
      | .flt => return .flt t.str (← nowLocP)
      | .notNumber => err (← preLocP) "not a number"; return .flt [] zeroLoc
      | .panic => modify (fun s => { s with panic := true }); return .flt [] zeroLoc
    | .lcurly => parseTable f
    | .kwFunction =>
      let _ ← next
      let b ← nowLocP
      let fb ← parseFuncBody f b [] [] false none
      return .func fb
    | _ => parsePrefixExp f

def parseTable : Nat → P Exp
  | 0 => outOfFuel
  | f + 1 => do
    let _ ← nextKind .lcurly
    let b ← nowLocP
    let (ks, vs) ← (do
      if (← lookKind) != .rcurly then
        let (k, v) ← parseField f
        fieldsMore f [k] [v]
      else return ([], []))
    let _ ← nextKind .rcurly
    return .table ks vs (rangeLoc b (← nowLocP))

def fieldsMore : Nat → List Exp → List Exp → P (List Exp × List Exp)
  | 0, ks, vs => do let _ ← (outOfFuel : P Unit); return (ks, vs)
  | f + 1, ks, vs => do
    let k ← lookKind
    if !(k == .comma || k == .semi) then return (ks, vs)
    if (← get).aborted then return (ks, vs)
    let _ ← next
    if (← lookKind) != .rcurly then
      let (k, v) ← parseField f
      fieldsMore f (ks ++ [k]) (vs ++ [v])
    else return (ks, vs)

def parseField : Nat → P (Exp × Exp)
  | 0 => outOfFuel
  | f + 1 => do
    if (← lookKind) == .lbrack then
      let _ ← next
      let k ← parseExp f
      let _ ← nextKind .rbrack
      let _ ← nextKind .assign
      let v ← parseExp f
      return (k, v)
    let e ← parseExp f
    match e with
    | .name n l =>
      if (← lookKind) == .assign then
        let _ ← next
        let v ← parseExp f
        return (.str n l, v)
      else return (.noKey, e)
    | _ => return (.noKey, e)

/-- `parsePrefixExp` -/
def parsePrefixExp : Nat → P Exp
  | 0 => outOfFuel
  | f + 1 => do
    let b ← heardLocP
    let k ← lookKind
    let e ← (do
      if k == .ident then
        let n ← nextIdent
        return Exp.name n.str (← nowLocP)
      else if k == .lparen then
        -- parseParensExp
        let _ ← nextKind .lparen
        let pb ← nowLocP
        let inner ← parseExp f
        let _ ← nextKind .rparen
        let loc := rangeLoc pb (← nowLocP)
        match inner with
        | .vararg _ | .call .. | .name .. | .index .. => return Exp.parens inner loc
        | _ => return inner
      else
        let _ ← next
        let loc ← nowLocP
        err loc "can not start"
        return Exp.bad loc)
    finishPrefix f e b

def finishPrefix : Nat → Exp → Loc → P Exp
  | 0, e, _ => do let _ ← (outOfFuel : P Unit); return e
  | f + 1, e, b => do
    if (← get).aborted then return e
    match ← lookKind with
    | .lbrack =>
      let _ ← next
      let k ← parseExp f
      let _ ← nextKind .rbrack
      finishPrefix f (.index e k (rangeLoc b (← nowLocP))) b
    | .dot =>
      let _ ← next
      let (nm, loc) ← (do
        if (← lookKind) == .ident then
          let n ← nextIdent
          return (n.str, ← nowLocP)
        else
          let loc ← nowLocP
          err loc "missing field or attribute names"
          return (([] : Bytes), loc))
      finishPrefix f (.index e (.str nm loc) (rangeLoc b (← nowLocP))) b
    | .colon | .lparen | .lcurly | .string =>
      -- finishFuncCallExp
      let cb ← nowLocP
      let meth ← (do
        if (← lookKind) == .colon then
          let _ ← next
          let nm ← (do
            if (← lookKind) == .ident then
              let n ← nextIdent
              return n.str
            else
              err (← nowLocP) "missing field or attribute names"
              return ([] : Bytes))
          return some (nm, ← nowLocP)
        else return none)
      let args ← parseArgs f
      finishPrefix f (.call e meth args (rangeLoc cb (← nowLocP))) b
    | _ => return e

def parseArgs : Nat → P (List Exp)
  | 0 => outOfFuel
  | f + 1 => do
    match ← lookKind with
    | .lparen =>
      let _ ← next
      let args ← (do
        if (← lookKind) != .rparen then parseExpList f else return [])
      let _ ← nextKind .rparen
      return args
    | .lcurly => return [← parseTable f]
    | .string =>
      let t ← nextKind .string
      return [.str t.str (← nowLocP)]
    | _ =>
      err (← nowLocP) "missing function call args"
      return []

/-- `checkVar` -/
def checkVar (e : Exp) : P Exp := do
  match e with
  | .name .. | .index .. | .bad _ => return e
  | _ => return .bad (← nowLocP)

end

structure ParseResult where
  block : Block
  errs : Array PErr
  aborted : Bool
  fuelOut : Bool
  panic : Bool
  lexPanic : Bool
  convMissing : Bool

/-- `BeginAnalyze` -/
def parseChunk (src : Bytes) (conv : List (Bytes × Nat)) : ParseResult :=
  let (toks, ls) := lexAll src conv
  let s0 : PS := { toks := toks.toArray }
  let fuel := 8 * toks.length + 64
  let act : P Block := do
    let b ← heardLocP
    let (stats, ret) ← parseBlock fuel
    let e ← nowLocP
    let _ ← nextKind .eof
    return .mk stats ret (rangeLoc b e)
  let (blk, s) := act.run s0
  { block := if s.aborted then .mk [] none zeroLoc else blk,
    errs := s.errs, aborted := s.aborted, fuelOut := s.fuelOut, panic := s.panic,
    lexPanic := ls.panic, convMissing := ls.convMissing }

end LuaHelper.Parse
