/-
M-scope: model of the scope tree LuaHelper builds while traversing the AST
  (check/analysis/analysis_stat.go, analysis_exp.go: which construct opens a scope with which Loc,
   when each local / parameter / loop variable is inserted, what `ReferExp` it carries)
and of the POSITION-BASED resolver used by go-to-definition, hover and completion
  (results/file_result.go FindASTNode, common/scope_info.go FindMinScope / FindLocVar / GetCompleteVar,
   common/var_info.go IsCorrectPosition, lexer/common.go Location predicates).
Core Lean only.
-/
import LuaHelper.Model.Ast
namespace LuaHelper.Scope
open LuaHelper.Lex LuaHelper.Ast

/-- what `IsCorrectPosition` looks at in `VarInfo.ReferExp` -/
inductive RefKind where
  | none                      -- nil ReferExp (parameters, loop variables, `local x` without value)
  | name (l : Loc)            -- *ast.NameExp
  | call (l : Loc)            -- *ast.FuncCallExp
  | func (l : Loc)            -- *ast.FuncDefExp
  | other                     -- any other expression kind
deriving Repr, DecidableEq, Inhabited

structure Var where
  name : Bytes
  loc : Loc
  ref : RefKind
  /-- `IsExpEmpty`: declared without a value (or `= nil`); a later plain assignment re-points ReferExp -/
  expEmpty : Bool := false
  /-- `len(SubMaps) > 0`: a member with a constant string key was assigned through this variable
      (`v.f = …`, `v["k"] = …`, `v.f.g = …`); such a variable is no longer re-pointed -/
  hasSubs : Bool := false
  isParam : Bool := false
  /-- `DeclRegion`: the part of the declaring statement in which the variable is not yet in scope — the
      whole `local` statement; for a loop variable from its name to the end of the last header
      expression; none for parameters and `local function` names -/
  region : Option Loc := none
deriving Repr, DecidableEq, Inhabited

inductive Tree where
  | mk (loc : Loc) (vars : List Var) (subs : List Tree)
deriving Repr, Inhabited

def Tree.loc : Tree → Loc | .mk l _ _ => l
def Tree.vars : Tree → List Var | .mk _ v _ => v
def Tree.subs : Tree → List Tree | .mk _ _ s => s

/-! ### lexer/common.go Location predicates -/

def isBeforeLoc (a b : Loc) : Bool := a.sl < b.sl || (a.sl == b.sl && a.sc ≤ b.sc)

def isContainLoc (a b : Loc) : Bool :=
  if a.sl > b.sl || a.el < b.el then false
  else if a.sl == b.sl && a.sc > b.sc then false
  else if a.el == b.el && a.ec < b.ec then false
  else true

/-- `isInLocation` (scope_info.go) -/
def isInLocation (l : Loc) (line col : Int) : Bool :=
  if line < l.sl || line > l.el then false
  else if line == l.sl && col < l.sc then false
  else if line == l.el && col > l.ec then false
  else true

/-! ### building the tree (first-pass traversal order) -/

def refKindOf : Exp → RefKind
  | .name _ l => .name l
  | .call _ _ _ l => .call l
  | .func (.mk _ _ _ _ _ _ l) => .func l
  | _ => .other

/-- `IsLocalReferExpEmpty` (approximation used by the re-pointing rule): `nil` literal -/
def isNilExp : Exp → Bool
  | .nil _ => true
  | _ => false

/-- accumulator of one scope under construction -/
structure Acc where
  vars : List Var := []
  subs : List Tree := []
deriving Inhabited

/-- `IsCorrectPosition`: declared before the position, and — for a variable with a declaration region — the
    position not inside that region unless it is on the declared name itself; variables without a region
    (parameters, `local function`) keep the test on `ReferExp` -/
def isCorrectPosition (v : Var) (loc : Loc) : Bool :=
  if !isBeforeLoc v.loc loc then false
  else match v.region with
    | some r => !(isContainLoc r loc && !isContainLoc v.loc loc)
    | none =>
      match v.ref with
      | .func fl => if isContainLoc fl v.loc then true else !isContainLoc fl loc
      | .name el => !isContainLoc el loc
      | .call el => !isContainLoc el loc
      | _ => true

/-- `forDeclRegion`: from the loop variable to the end of the last header expression that has a location -/
def forRegion (vl : Loc) (heads : List Exp) : Loc :=
  heads.foldl (fun r e =>
    let l := expLoc e
    if isInitialLoc l then r
    else if l.el > r.el || (l.el == r.el && l.ec > r.ec) then { r with el := l.el, ec := l.ec } else r) vl

/-- the scopes under construction, innermost first -/
abbrev St := List Acc

def St.addVar (s : St) (v : Var) : St :=
  match s with
  | a :: r => { a with vars := a.vars ++ [v] } :: r
  | [] => [{ vars := [v] }]

def St.addSub (s : St) (t : Tree) : St :=
  match s with
  | a :: r => { a with subs := a.subs ++ [t] } :: r
  | [] => [{ subs := [t] }]

/-- traversal-time `FindLocVar(name, loc)` + the re-pointing rule of cgAssignStat: the variable the
    assignment target resolves to, if it is still `IsExpEmpty`, gets the assigned expression as
    ReferExp -/
def St.repoint (s : St) (n : Bytes) (nl : Loc) (e : Exp) : St :=
  let rec updScope : List Var → Option (List Var)      -- vars reversed (last declared first)
    | [] => none
    | v :: r =>
      if v.name == n && isCorrectPosition v nl then
        some ((if v.expEmpty && !v.hasSubs then { v with ref := refKindOf e, expEmpty := isNilExp e } else v) :: r)
      else (updScope r).map (v :: ·)
  let rec go : St → St
    | [] => []
    | a :: r =>
      match updScope a.vars.reverse with
      | some vs => { a with vars := vs.reverse } :: r
      | none => a :: go r
  go s

/-- the root name of an access chain all of whose keys are string constants (`v.f`, `v["k"]`, `v.f.g`) -/
def strChainRoot : Exp → Option (Bytes × Loc)
  | .index (.name n nl) (.str _ _) _ => some (n, nl)
  | .index p (.str _ _) _ => strChainRoot p
  | _ => none

/-- an assignment through `v.f…`: the variable the chain starts at (traversal-time `FindLocVar`) gets a member -/
def St.markSubs (s : St) (n : Bytes) (nl : Loc) : St :=
  let rec updScope : List Var → Option (List Var)
    | [] => none
    | v :: r =>
      if v.name == n && isCorrectPosition v nl then some ({ v with hasSubs := true } :: r)
      else (updScope r).map (v :: ·)
  let rec go : St → St
    | [] => []
    | a :: r =>
      match updScope a.vars.reverse with
      | some vs => { a with vars := vs.reverse } :: r
      | none => a :: go r
  go s

/-- close the child scope opened on top of `orig`: attach it (with location `l`) to its parent -/
def St.close (after orig : St) (l : Loc) : St :=
  match after with
  | c :: rest => St.addSub rest (.mk l c.vars c.subs)
  | [] => orig

/-- keys that are not traversed: an absent key (positional field) and a string constant -/
def skipKey : Exp → Bool
  | .noKey => true
  | .str .. => true
  | _ => false

def nameOf : Exp → Option (Bytes × Loc)
  | .name n nl => some (n, nl)
  | _ => none

def markTarget (s : St) (v : Exp) : St :=
  match strChainRoot v with
  | some (n, nl) => s.markSubs n nl
  | none => s

def blockLoc : Block → Loc
  | .mk _ _ bl => bl

/-- open a child scope with the initial variables `init` -/
def St.open (s : St) (init : List Var) : St := { vars := init } :: s

/-- the names of a local declaration, inserted after all initialisers were analysed: name i gets
    expression i; surplus names refer to a trailing call or are empty -/
def declLocals (s : St) (lastCall : Option Loc) (sl : Loc) : List (Bytes × Loc × Nat) → List Exp → St
  | ns, [] =>
    ns.foldl (fun s (n, nl, _) =>
      match lastCall with
      | some cl => s.addVar { name := n, loc := nl, ref := .call cl, region := some sl }
      | none => s.addVar { name := n, loc := nl, ref := .none, expEmpty := true, region := some sl }) s
  | [], _ :: _ => s
  | (n, nl, _) :: ns, e :: es =>
    declLocals (s.addVar { name := n, loc := nl, ref := refKindOf e, expEmpty := isNilExp e, region := some sl }) lastCall sl ns es

mutual
/-- traverse an expression: only function bodies create scopes -/
def cgExp (s : St) : Exp → St
  | .unop _ e _ => cgExp s e
  | .binop _ x y _ => cgExp (cgExp s x) y
  | .table ks vs _ => cgFields s ks vs
  | .func f => cgFunc s f
  | .parens e _ => cgExp s e
  | .index p k _ => cgExp (cgExp s p) k
  | .call p _ args _ => cgExps (cgExp s p) args
  | _ => s
termination_by e => sizeOf e
/-- expressions left to right -/
def cgExps (s : St) : List Exp → St
  | [] => s
  | e :: es => cgExps (cgExp s e) es
termination_by es => sizeOf es
/-- table fields: key (unless absent or a string constant) then value, field by field -/
def cgFields (s : St) : List Exp → List Exp → St
  | k :: ks, v :: vs =>
    cgFields (cgExp (if skipKey k then s else cgExp s k) v) ks vs
  | _, _ => s
termination_by ks vs => sizeOf ks + sizeOf vs
/-- a function: main scope with the parameters, then the body -/
def cgFunc (s : St) : FuncBody → St
  | .mk _ _ ps _ _ body l =>
    St.close (cgBlock (s.open (ps.map fun (n, pl) => { name := n, loc := pl, ref := .none, isParam := true })) body) s l
termination_by f => sizeOf f
def cgBlock (s : St) : Block → St
  | .mk stats ret _ =>
    match ret with
    | some es => cgExps (cgStats s stats) es
    | none => cgStats s stats
termination_by b => sizeOf b
def cgStats (s : St) : List Stat → St
  | [] => s
  | st :: r => cgStats (cgStat s st) r
termination_by ss => sizeOf ss
/-- if / elseif / else: condition i, then block i in a scope of its own -/
def cgIf (s : St) : List Exp → List Block → St
  | c :: cs, b :: bs =>
    let s1 := cgExp s c
    cgIf (St.close (cgBlock (s1.open []) b) s1 (blockLoc b)) cs bs
  | _, _ => s
termination_by cs bs => sizeOf cs + sizeOf bs
/-- assignment: for each target i, expression i first, then the target (re-pointing for bare names) -/
def cgAssign (s : St) : List Exp → List Exp → St
  | [], _ => s
  | v :: vs, [] => cgAssign (if (nameOf v).isSome then s else markTarget (cgExp s v) v) vs []
  | v :: vs, e :: es =>
    let s1 := cgExp s e
    cgAssign (match nameOf v with
      | some (n, nl) => s1.repoint n nl e
      | none => markTarget (cgExp s1 v) v) vs es
termination_by vs es => sizeOf vs + sizeOf es
def cgStat (s : St) : Stat → St
  | .do_ b l => St.close (cgBlock (s.open []) b) s l
  | .while_ c b l =>
    let s1 := cgExp s c
    St.close (cgBlock (s1.open []) b) s1 l
  | .repeat_ b c l => St.close (cgExp (cgBlock (s.open []) b) c) s l
  | .if_ cs bs _ _ => cgIf s cs bs
  | .fornum v vl i lim st b l =>
    -- the step is visited before the limit
    let x := cgExp (cgExp (cgExp (s.open []) i) st) lim
    St.close (cgBlock (x.addVar { name := v, loc := vl, ref := .none, region := some (forRegion vl [i, lim, st]) }) b) s l
  | .forin ns es b l =>
    let x := cgExps (s.open []) es
    let x := ns.foldl (fun x (n, nl) => x.addVar { name := n, loc := nl, ref := .none, region := some (forRegion nl es) }) x
    St.close (cgBlock x b) s l
  | .assign vars exps _ => cgAssign s vars exps
  | .local_ names exps sl =>
    let nE := exps.length
    let lastCall : Option Loc :=
      match exps.getLast? with
      | some (.call _ _ _ l) => if nE ≤ names.length then some l else none
      | _ => none
    -- every initialiser first (also surplus ones), then the names
    declLocals (cgExps s exps) lastCall sl names exps
  | .localfn n nl f _ =>
    let fl := match f with | .mk _ _ _ _ _ _ l => l
    cgFunc (s.addVar { name := n, loc := nl, ref := .func fl }) f
  | .callstat e => cgExp s e
  | _ => s
termination_by st => sizeOf st
end

/-- the scope tree of a file: main scope with the chunk's block Loc -/
def build : Block → Tree
  | .mk stats ret l =>
    match cgBlock [{}] (.mk stats ret l) with
    | a :: _ => .mk l a.vars a.subs
    | [] => .mk l [] []

/-! ### position-based resolution -/

mutual
/-- `FindMinScope` inside a scope whose Loc contains the position: the chain of scopes from the smallest one
    containing the position up to this one (innermost first) -/
def chainIn : Tree → Int → Int → List Tree
  | .mk l vs subs, line, col =>
    match scanSubs subs line col with
    | some ch => ch ++ [.mk l vs subs]
    | none => [.mk l vs subs]
/-- the loop over `SubScopes`: a child that ends before the line is skipped, the first child whose Loc contains
    the position ends the search, every other child is passed over (sub-scopes are in traversal order, which
    is not always the source order: there is no early exit) -/
def scanSubs : List Tree → Int → Int → Option (List Tree)
  | [], _, _ => none
  | s :: rest, line, col =>
    if s.loc.el < line then scanSubs rest line col
    else if isInLocation s.loc line col then some (chainIn s line col)
    else scanSubs rest line col
end

/-- `FindMinScope`: `none` if the root does not contain the position -/
def findMinChain (t : Tree) (line col : Int) : Option (List Tree) :=
  if !isInLocation t.loc line col then none else some (chainIn t line col)

/-- `FindLocVar` along the chain: in each scope the LAST declared variable of that name whose
    position test succeeds -/
def findLocVar (chain : List Tree) (name : Bytes) (loc : Loc) : Option Var :=
  chain.findSome? fun t => (t.vars.reverse.find? fun v => v.name == name && isCorrectPosition v loc)

/-- go-to-definition of a bare name with the cursor at (line, col) (line 1-based as in Loc) -/
def defineAt (root : Tree) (name : Bytes) (line col : Int) : Option Var :=
  let chain := (findMinChain root line col).getD [root]
  findLocVar chain name ⟨line, col, line, col⟩

/-- `GetCompleteVar`: locals offered at the cursor: per scope of the chain and per name, the last
    declaration that passes the position test of the resolver (`IsCorrectPosition`) -/
def completeAt (root : Tree) (line col : Int) : List Bytes :=
  let chain := (findMinChain root line col).getD [root]
  let names := chain.flatMap fun t =>
    (t.vars.filter fun v => isCorrectPosition v ⟨line, col, line, col⟩).map (·.name)
  names.eraseDups

end LuaHelper.Scope
