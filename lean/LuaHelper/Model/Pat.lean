/-
M-pat: the purely syntactic checks of the first pass, following the Go code:
  analysis_exp.go  cgTableConstructorExp (type 5), checkDuplicateFunParam (13), cgBinopExp (14, 15, 16, 21)
  analysis_stat.go cgIfStat (19), cgAssignStat (7, 20), cgLocalVarDeclStat (8)
  common/util.go   CompExp, GetExpName (+ GetTableAccessName), GetTableConstuctorKeyStr, IsOneValueType, GetExpLoc
Every check yields (type, Loc) in traversal order.  Core Lean only.
-/
import LuaHelper.Model.Ast
namespace LuaHelper.Pat
open LuaHelper.Lex LuaHelper.Ast

structure Rep where
  ty : Nat
  loc : Loc
  /-- what else tells two diagnostics of the same type and range apart (their message): the key string of
      a duplicate-key report — two different integer keys are both reported at the constructor -/
  tag : Bytes := []
deriving Repr, DecidableEq, Inhabited


/-! float literals are compared through their value: a decimal numeral `ddd[.ddd][e[±]ddd]` denotes the
rational num / den (exactly — the rounding of `strconv.ParseFloat` to a float64 is not modelled, so numerals
with more than 15 significant digits are outside the tie); any other numeral text (hex floats) is compared
as text -/

def isDigit (b : UInt8) : Bool := 48 ≤ b && b ≤ 57

/-- the value of a run of decimal digits, continuing from `acc` -/
def digitsVal (acc : Nat) : Bytes → Nat
  | [] => acc
  | b :: r => digitsVal (acc * 10 + (b.toNat - 48)) r

/-- (numerator, denominator) of a decimal float numeral; none for every other text -/
def fltVal (t : Bytes) : Option (Nat × Nat) :=
  let ip := t.takeWhile isDigit
  let r1 := t.dropWhile isDigit
  let (fp, r2) := match r1 with
    | 46 :: r => (r.takeWhile isDigit, r.dropWhile isDigit)
    | _ => ([], r1)
  if ip.isEmpty && fp.isEmpty then none else
  let m := digitsVal 0 (ip ++ fp)
  match r2 with
  | [] => some (m, 10 ^ fp.length)
  | e :: r3 =>
    if e == 101 || e == 69 then
      let (neg, ds) := match r3 with
        | 45 :: r => (true, r)
        | 43 :: r => (false, r)
        | _ => (false, r3)
      if ds.isEmpty || !ds.all isDigit then none
      else
        let x := digitsVal 0 ds
        if neg then some (m, 10 ^ (fp.length + x)) else some (m * 10 ^ x, 10 ^ fp.length)
    else none

/-- equal values (exact), or equal text when a value is not available -/
def fltEq (a b : Bytes) : Bool :=
  match fltVal a, fltVal b with
  | some (n1, d1), some (n2, d2) => n1 * d2 == n2 * d1
  | _, _ => a == b

mutual
/-- `CompExp` -/
def compExp : Exp → Exp → Bool
  | .nil _, .nil _ => true
  | .fls _, .fls _ => true
  | .tru _, .tru _ => true
  | .int a _, .int b _ => a == b
  | .flt a _, .flt b _ => fltEq a b
  | .str a _, .str b _ => a == b
  | .parens a _, .parens b _ => compExp a b
  | .vararg _, .vararg _ => true
  | .name a _, .name b _ => a == b
  | .unop o1 a _, .unop o2 b _ => o1 == o2 && compExp a b
  | .binop o1 a1 a2 _, .binop o2 b1 b2 _ => o1 == o2 && compExp a1 b1 && compExp a2 b2
  | .index p1 k1 _, .index p2 k2 _ => compExp p1 p2 && compExp k1 k2
  | .call p1 m1 a1 _, .call p2 m2 a2 _ =>
    compExp p1 p2 &&
    (match m1, m2 with
     | none, none => true
     | some (n1, _), some (n2, _) => n1 == n2
     | _, _ => false) &&
    compExps a1 a2
  | _, _ => false
def compExps : List Exp → List Exp → Bool
  | [], [] => true
  | a :: r, b :: s => compExp a b && compExps r s
  | _, _ => false
end

/-- "#" followed by the tag: the placeholder names of `GetExpName` -/
def hashTag (s : String) : Bytes := 35 :: bytesOfString s

/-- `GetExpName` (with GetTableAccessName: prefix "." key) -/
def expName : Exp → Bytes
  | .nil _ => hashTag "nil" | .fls _ => hashTag "flase" | .tru _ => hashTag "true"
  | .int _ _ => hashTag "int" | .flt _ _ => hashTag "float"
  | .str s _ => s
  | .parens e _ => expName e
  | .vararg _ => hashTag "vararg"
  | .name n _ => 33 :: n
  | .func _ => hashTag "errror"
  | .table _ _ _ => hashTag "table"
  | .unop _ _ _ => hashTag "astUnopExp"
  | .binop _ _ _ _ => hashTag "astBinopExp"
  | .index p k _ => expName p ++ [46] ++ expName k
  | .call _ _ _ _ => hashTag "funcall"
  | _ => hashTag "other"

/-- `IsOneValueType` -/
def isOneValue : Exp → Bool
  | .name _ _ | .str _ _ | .flt _ _ | .int _ _ | .fls _ | .tru _ | .nil _ => true
  | _ => false

/-- decimal digits of a natural number (`strconv.FormatInt` for a non-negative value) -/
def natBytes (n : Nat) : Bytes :=
  if n < 10 then [UInt8.ofNat (48 + n)] else natBytes (n / 10) ++ [UInt8.ofNat (48 + n % 10)]

/-- `strconv.FormatInt(v, 10)` -/
def intStr : Int → Bytes
  | .ofNat n => natBytes n
  | .negSucc n => 45 :: natBytes (n + 1)

/-- the bytes of "#int" -/
def intKeyPrefix : Bytes := [35, 105, 110, 116]

/-- the key text of a float key: equal VALUES give equal texts (Go: the shortest text that reads back as the same
    float64, strconv.FormatFloat(v, 'g', -1, 64); here: the reduced fraction numerator "/" denominator of the
    decimal numeral, or "?" + the text for a numeral `fltVal` does not read) -/
def fltKey (t : Bytes) : Bytes :=
  match fltVal t with
  | some (n, d) => natBytes (n / Nat.gcd n d) ++ 47 :: natBytes (d / Nat.gcd n d)
  | none => 63 :: t

/-- the bytes of "#true", "#false", "#flt", "#op" -/
def trueKey : Bytes := [35, 116, 114, 117, 101]
def falseKey : Bytes := [35, 102, 97, 108, 115, 101]
def fltKeyPrefix : Bytes := [35, 102, 108, 116]
def opKeyPrefix : Bytes := [35, 111, 112]

/-- `GetTableConstuctorKeyStr`: (key string, location reported) or none.  The kinds of key live in disjoint name
    spaces: "#int" + decimal digits, '"' + the string, "!" + the name, "#true", "#false", "#flt" + the value's
    text, and for a key under a unary operator "#op" + the operator's number + ":" + the key of the operand. -/
def keyStr (k : Exp) (parent : Loc) : Option (Bytes × Loc) :=
  match k with
  | .int v _ => some (intKeyPrefix ++ intStr v, parent)
  | .str s l => some (34 :: s, l)
  | .name n l => some (33 :: n, l)
  | .tru l => some (trueKey, l)
  | .fls l => some (falseKey, l)
  | .flt t l => some (fltKeyPrefix ++ fltKey t, l)
  | .unop op e l =>
    match keyStr e parent with
    | some (s, _) => some (opKeyPrefix ++ natBytes op.toNat ++ 58 :: s, l)
    | none => none
  | _ => none

/-- type 5: every key whose string was already seen in this constructor -/
def dupKeys (keys : List Exp) (parent : Loc) : List Rep :=
  let rec go : List Exp → List Bytes → List Rep → List Rep
    | [], _, acc => acc.reverse
    | k :: r, seen, acc =>
      match keyStr k parent with
      | none => go r seen acc
      | some (s, l) => if seen.contains s then go r seen ({ ty := 5, loc := l, tag := s } :: acc) else go r (s :: seen) acc
  go keys [] []

/-- type 13: for i < j, parameter j (not "_") equal to parameter i → reported at j (once per pair) -/
def dupParams (ps : List (Bytes × Loc)) : List Rep :=
  let n := ps.length
  (List.range n).flatMap fun i =>
    (List.range n).filterMap fun j =>
      if i < j then
        match ps[i]?, ps[j]? with
        | some (ni, _), some (nj, lj) => if nj != [95] && nj == ni then some { ty := 13, loc := lj } else none
        | _, _ => none
      else none

def containsHash (s : Bytes) : Bool := s.contains 35

def isTrue : Exp → Bool | .tru _ => true | _ => false
def isFalse : Exp → Bool | .fls _ => true | _ => false
def isFloat : Exp → Bool | .flt _ _ => true | _ => false
def isCmp (op : TK) : Bool :=
  op == .or || op == .and || op == .lt || op == .le || op == .gt || op == .ge || op == .eq || op == .ne
def spanLoc (a b : Exp) : Loc := ⟨(expLoc a).sl, (expLoc a).sc, (expLoc b).el, (expLoc b).ec⟩
/-- both operands carry a source location -/
def located (a b : Exp) : Bool := !isInitialLoc (expLoc a) && !isInitialLoc (expLoc b)
def r15 (op : TK) (a b : Exp) : List Rep :=
  if op == .or && (isTrue a || isTrue b) && located a b then [{ ty := 15, loc := spanLoc a b }] else []
def r16 (op : TK) (a b : Exp) : List Rep :=
  if op == .and && (isFalse a || isFalse b) && located a b then [{ ty := 16, loc := spanLoc a b }] else []
def r21 (op : TK) (a b : Exp) (l : Loc) : List Rep :=
  if (op == .eq || op == .ne) && (isFloat a || isFloat b) then [{ ty := 21, loc := l }] else []
/-- `isSameOperand`: the structural comparison that confirms equal names; redundant parentheses are
ignored at every level of a table access, everything else is left to `CompExp` -/
def sameOperand : Exp → Exp → Bool
  | .parens a _, b => sameOperand a b
  | a, .parens b _ => sameOperand a b
  | .index p1 k1 _, .index p2 k2 _ => sameOperand p1 p2 && sameOperand k1 k2
  | a, b => compExp a b
termination_by a b => sizeOf a + sizeOf b

def r14 (op : TK) (a b : Exp) : List Rep :=
  if isCmp op && !containsHash (expName a) && !containsHash (expName b) && expName a == expName b &&
     sameOperand a b && located a b
  then [{ ty := 14, loc := spanLoc a b }] else []

/-- the reports of `cgBinopExp` for one node, in the Go order: 15/16, 21, 14 -/
def binopReps (op : TK) (a b : Exp) (l : Loc) : List Rep :=
  r15 op a b ++ r16 op a b ++ r21 op a b l ++ r14 op a b

/-- type 19: for i < j with CompExp(cond i, cond j): reported at cond j -/
def dupIfs (conds : List Exp) : List Rep :=
  let n := conds.length
  (List.range n).flatMap fun i =>
    (List.range n).filterMap fun j =>
      if i < j then
        match conds[i]?, conds[j]? with
        | some ci, some cj => if compExp ci cj then some { ty := 19, loc := expLoc cj } else none
        | _, _ => none
      else none

/-- types 7 / 20 for an assignment statement -/
def assignReps (vars exps : List Exp) (l : Loc) : List Rep :=
  let nv := vars.length
  let ne := exps.length
  if nv < ne then [{ ty := 7, loc := l }]
  else if nv > ne then (if (exps.all isOneValue) then [{ ty := 7, loc := l }] else [])
  else if (vars.zip exps).all (fun (v, e) => compExp v e) then [{ ty := 20, loc := l }] else []

/-- type 8 for a local declaration -/
def localReps (nNames : Nat) (exps : List Exp) (l : Loc) : List Rep :=
  let ne := exps.length
  if nNames < ne then [{ ty := 8, loc := l }]
  else if nNames > ne && ne > 0 && exps.all isOneValue then [{ ty := 8, loc := l }]
  else []

mutual
/-- traversal collecting every report (order of the Go traversal is not kept; compared as multisets) -/
def pExp : Exp → List Rep
  | .unop _ e _ => pExp e
  | .binop op a b l => pExp a ++ pExp b ++ binopReps op a b l
  | .table ks vs l => ks.flatMap pExp ++ vs.flatMap pExp ++ dupKeys ks l
  | .func f => pFunc f
  | .parens e _ => pExp e
  | .index p k _ => pExp p ++ pExp k
  | .call p _ a _ => pExp p ++ a.flatMap pExp
  | _ => []
def pFunc : FuncBody → List Rep
  | .mk _ _ ps _ colon body _ =>
    -- the implicit self is part of ParList when the check runs
    dupParams ps ++ pBlock body
def pBlock : Block → List Rep
  | .mk ss ret _ => ss.flatMap pStat ++ (match ret with | some es => es.flatMap pExp | none => [])
def pStat : Stat → List Rep
  | .do_ b _ => pBlock b
  | .while_ c b _ => pExp c ++ pBlock b
  | .repeat_ b c _ => pBlock b ++ pExp c
  | .if_ cs bs els _ => dupIfs (if els then cs.dropLast else cs) ++ cs.flatMap pExp ++ bs.flatMap pBlock
  | .fornum _ _ i l s b _ => pExp i ++ pExp l ++ pExp s ++ pBlock b
  | .forin _ es b _ => es.flatMap pExp ++ pBlock b
  | .assign vs es l =>
    (match vs, es with
     | [_], [.func _] => []          -- `function name() … end` is built by the parser, arity is 1 = 1
     | _, _ => assignReps vs es l) ++ vs.flatMap pExp ++ es.flatMap pExp
  | .local_ ns es l => localReps ns.length es l ++ es.flatMap pExp
  | .localfn _ _ f _ => pFunc f
  | .callstat e => pExp e
  | _ => []
end

/-- what the client is shown: `GetAllFileErrorInfo` drops diagnostics with identical type, location and
    message (so `f(a, a, a)` shows two type-13 diagnostics, not three) -/
def reports (b : Block) : List Rep := (pBlock b).eraseDups

end LuaHelper.Pat
