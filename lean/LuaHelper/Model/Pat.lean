/-
M-pat: the purely syntactic checks of the first pass, following the Go code:
  analysis_exp.go  cgTableConstructorExp (type 5), checkDuplicateFunParam (13), cgBinopExp (14, 15, 16, 21)
  analysis_stat.go cgIfStat (19), cgAssignStat (7, 20), cgLocalVarDeclStat (8)
  common/util.go   CompExp, GetExpName (+ GetTableAccessName), GetTableConstuctorKeyStr, IsOneValueType, GetExpLoc
Every check yields (type, Loc) in traversal order.  Core Lean only.
-/
import LuaHelper.Model.Ast
namespace LuaHelper.Pat
open LuaHelper.Lex LuaHelper.Ast

structure Rep where
  ty : Nat
  loc : Loc
deriving Repr, DecidableEq, Inhabited

/-- `GetExpLoc` -/
def expLoc : Exp → Loc
  | .nil l | .tru l | .fls l | .vararg l | .int _ l | .flt _ l | .str _ l | .unop _ _ l | .binop _ _ _ l
  | .table _ _ l | .name _ l | .parens _ l | .index _ _ l | .call _ _ _ l | .bad l => l
  | .func (.mk _ _ _ _ _ _ l) => l
  | .noKey => zeroLoc

def isInitialLoc (l : Loc) : Bool := l.sl == 0 && l.sc == 0 && l.el == 0 && l.ec == 0

mutual
/-- `CompExp` (floats: equal numeral text stands for |a − b| < 1e-6) -/
def compExp : Exp → Exp → Bool
  | .nil _, .nil _ => true
  | .fls _, .fls _ => true
  | .tru _, .tru _ => true
  | .int a _, .int b _ => a == b
  | .flt a _, .flt b _ => a == b
  | .str a _, .str b _ => a == b
  | .parens a _, .parens b _ => compExp a b
  | .vararg _, .vararg _ => true
  | .name a _, .name b _ => a == b
  | .unop o1 a _, .unop o2 b _ => o1 == o2 && compExp a b
  | .binop o1 a1 a2 _, .binop o2 b1 b2 _ => o1 == o2 && compExp a1 b1 && compExp a2 b2
  | .index p1 k1 _, .index p2 k2 _ => compExp p1 p2 && compExp k1 k2
  | .call p1 m1 a1 _, .call p2 m2 a2 _ =>
    compExp p1 p2 &&
    (match m1, m2 with
     | none, none => true
     | some (n1, _), some (n2, _) => n1 == n2
     | _, _ => false) &&
    compExps a1 a2
  | _, _ => false
def compExps : List Exp → List Exp → Bool
  | [], [] => true
  | a :: r, b :: s => compExp a b && compExps r s
  | _, _ => false
end

def hashPrefix (s : String) : Bytes := bytesOfString s

/-- `GetExpName` (with GetTableAccessName: prefix "." key) -/
def expName : Exp → Bytes
  | .nil _ => hashPrefix "#nil" | .fls _ => hashPrefix "#flase" | .tru _ => hashPrefix "#true"
  | .int _ _ => hashPrefix "#int" | .flt _ _ => hashPrefix "#float"
  | .str s _ => s
  | .parens e _ => expName e
  | .vararg _ => hashPrefix "#vararg"
  | .name n _ => 33 :: n
  | .func _ => hashPrefix "#errror"
  | .table _ _ _ => hashPrefix "#table"
  | .unop _ _ _ => hashPrefix "#astUnopExp"
  | .binop _ _ _ _ => hashPrefix "#astBinopExp"
  | .index p k _ => expName p ++ [46] ++ expName k
  | .call _ _ _ _ => hashPrefix "#funcall"
  | _ => hashPrefix "#other"

/-- `IsOneValueType` -/
def isOneValue : Exp → Bool
  | .name _ _ | .str _ _ | .flt _ _ | .int _ _ | .fls _ | .tru _ | .nil _ => true
  | _ => false

def intStr (v : Int) : Bytes := bytesOfString (toString v)

/-- `GetTableConstuctorKeyStr`: (key string, location reported) or none -/
def keyStr (k : Exp) (parent : Loc) : Option (Bytes × Loc) :=
  match k with
  | .int v _ => some (hashPrefix "#int" ++ intStr v, parent)
  | .str s l => if s.isEmpty then none else some (s, l)
  | .name n l => some (33 :: n, l)
  | _ => none

/-- type 5: every key whose string was already seen in this constructor -/
def dupKeys (keys : List Exp) (parent : Loc) : List Rep :=
  let rec go : List Exp → List Bytes → List Rep → List Rep
    | [], _, acc => acc.reverse
    | k :: r, seen, acc =>
      match keyStr k parent with
      | none => go r seen acc
      | some (s, l) => if seen.contains s then go r seen ({ ty := 5, loc := l } :: acc) else go r (s :: seen) acc
  go keys [] []

/-- type 13: for i < j, parameter j (not "_") equal to parameter i → reported at j (once per pair) -/
def dupParams (ps : List (Bytes × Loc)) : List Rep :=
  let n := ps.length
  (List.range n).flatMap fun i =>
    (List.range n).filterMap fun j =>
      if i < j then
        match ps[i]?, ps[j]? with
        | some (ni, _), some (nj, lj) => if nj != [95] && nj == ni then some { ty := 13, loc := lj } else none
        | _, _ => none
      else none

def containsHash (s : Bytes) : Bool := s.contains 35

def isTrue : Exp → Bool | .tru _ => true | _ => false
def isFalse : Exp → Bool | .fls _ => true | _ => false
def isFloat : Exp → Bool | .flt _ _ => true | _ => false
def isCmp (op : TK) : Bool :=
  op == .or || op == .and || op == .lt || op == .le || op == .gt || op == .ge || op == .eq || op == .ne
def spanLoc (a b : Exp) : Loc := ⟨(expLoc a).sl, (expLoc a).sc, (expLoc b).el, (expLoc b).ec⟩
/-- both operands carry a source location -/
def located (a b : Exp) : Bool := !isInitialLoc (expLoc a) && !isInitialLoc (expLoc b)
def r15 (op : TK) (a b : Exp) : List Rep :=
  if op == .or && (isTrue a || isTrue b) && located a b then [{ ty := 15, loc := spanLoc a b }] else []
def r16 (op : TK) (a b : Exp) : List Rep :=
  if op == .and && (isFalse a || isFalse b) && located a b then [{ ty := 16, loc := spanLoc a b }] else []
def r21 (op : TK) (a b : Exp) (l : Loc) : List Rep :=
  if (op == .eq || op == .ne) && (isFloat a || isFloat b) then [{ ty := 21, loc := l }] else []
def r14 (op : TK) (a b : Exp) : List Rep :=
  if isCmp op && !containsHash (expName a) && !containsHash (expName b) && expName a == expName b && located a b
  then [{ ty := 14, loc := spanLoc a b }] else []

/-- the reports of `cgBinopExp` for one node, in the Go order: 15/16, 21, 14 -/
def binopReps (op : TK) (a b : Exp) (l : Loc) : List Rep :=
  r15 op a b ++ r16 op a b ++ r21 op a b l ++ r14 op a b

/-- type 19: for i < j with CompExp(cond i, cond j): reported at cond j -/
def dupIfs (conds : List Exp) : List Rep :=
  let n := conds.length
  (List.range n).flatMap fun i =>
    (List.range n).filterMap fun j =>
      if i < j then
        match conds[i]?, conds[j]? with
        | some ci, some cj => if compExp ci cj then some { ty := 19, loc := expLoc cj } else none
        | _, _ => none
      else none

/-- types 7 / 20 for an assignment statement -/
def assignReps (vars exps : List Exp) (l : Loc) : List Rep :=
  let nv := vars.length
  let ne := exps.length
  if nv < ne then [{ ty := 7, loc := l }]
  else if nv > ne then (if (exps.all isOneValue) then [{ ty := 7, loc := l }] else [])
  else if (vars.zip exps).all (fun (v, e) => compExp v e) then [{ ty := 20, loc := l }] else []

/-- type 8 for a local declaration -/
def localReps (nNames : Nat) (exps : List Exp) (l : Loc) : List Rep :=
  let ne := exps.length
  if nNames < ne then [{ ty := 8, loc := l }]
  else if nNames > ne && ne > 0 && exps.all isOneValue then [{ ty := 8, loc := l }]
  else []

mutual
/-- traversal collecting every report (order of the Go traversal is not kept; compared as multisets) -/
def pExp : Exp → List Rep
  | .unop _ e _ => pExp e
  | .binop op a b l => pExp a ++ pExp b ++ binopReps op a b l
  | .table ks vs l => ks.flatMap pExp ++ vs.flatMap pExp ++ dupKeys ks l
  | .func f => pFunc f
  | .parens e _ => pExp e
  | .index p k _ => pExp p ++ pExp k
  | .call p _ a _ => pExp p ++ a.flatMap pExp
  | _ => []
def pFunc : FuncBody → List Rep
  | .mk _ _ ps _ colon body _ =>
    -- the implicit self is part of ParList when the check runs
    dupParams ps ++ pBlock body
def pBlock : Block → List Rep
  | .mk ss ret _ => ss.flatMap pStat ++ (match ret with | some es => es.flatMap pExp | none => [])
def pStat : Stat → List Rep
  | .do_ b _ => pBlock b
  | .while_ c b _ => pExp c ++ pBlock b
  | .repeat_ b c _ => pBlock b ++ pExp c
  | .if_ cs bs _ => dupIfs cs ++ cs.flatMap pExp ++ bs.flatMap pBlock
  | .fornum _ _ i l s b _ => pExp i ++ pExp l ++ pExp s ++ pBlock b
  | .forin _ es b _ => es.flatMap pExp ++ pBlock b
  | .assign vs es l =>
    (match vs, es with
     | [_], [.func _] => []          -- `function name() … end` is built by the parser, arity is 1 = 1
     | _, _ => assignReps vs es l) ++ vs.flatMap pExp ++ es.flatMap pExp
  | .local_ ns es l => localReps ns.length es l ++ es.flatMap pExp
  | .localfn _ _ f _ => pFunc f
  | .callstat e => pExp e
  | _ => []
end

/-- what the client is shown: `GetAllFileErrorInfo` drops diagnostics with identical type, location and
    message (so `f(a, a, a)` shows two type-13 diagnostics, not three) -/
def reports (b : Block) : List Rep := (pBlock b).eraseDups

end LuaHelper.Pat
