/-
M-diag: the publish / clear bookkeeping of diagnostics_manager.go and the order in which the file
handlers of textdocument_file_request.go invoke it.
  saved  = LspServer.fileErrorMap        (per file: the errors of the last full analysis)
  change = LspServer.fileChangeErrorMap  (per file: the syntax errors of an unsaved buffer)
  hidden = LspServer.fileHideSyntaxMap   (files whose unsaved buffer parses cleanly: saved syntax errors hidden;
                                          added by the repair of finding C08-K1)
  client = what the client is left holding: the LAST list published for each file
The analysis itself is an input: each event carries the error map the (incremental) analysis produced.
Core Lean only.
-/
namespace LuaHelper.Diag

structure Err where
  ty : Nat            -- 1 = syntax error
  key : String        -- CheckError.ToString(): type, range, message — what IsSameErrList compares
  extra : String := ""  -- published and compared separately (isSameErrExtra): entry-file suffix, related information
deriving DecidableEq, Repr, Inhabited

abbrev File := String
abbrev EMap := List (File × List Err)      -- association list, first entry wins

def lk (m : EMap) (f : File) : Option (List Err) := (m.find? (·.1 == f)).map (·.2)
def del (m : EMap) (f : File) : EMap := m.filter (·.1 != f)
def ins (m : EMap) (f : File) (e : List Err) : EMap := (f, e) :: del m f

structure St where
  saved : EMap := []
  change : EMap := []
  hidden : List File := []
  client : File → List Err := fun _ => []

def publish (s : St) (f : File) (e : List Err) : St :=
  { s with client := fun g => if g == f then e else s.client g }

def nonSyntax (e : List Err) : List Err := e.filter (·.ty != 1)

/-- IsSameErrList: type, range and message (ToString) and, since repair of finding C08-K2, the entry file and
    the related locations (isSameErrExtra) -/
def sameErrs (a b : List Err) : Bool :=
  a.map (fun e => (e.ty, e.key, e.extra)) == b.map (fun e => (e.ty, e.key, e.extra))

/-- IsSameErrList as it was: related information and entry file ignored (kept for theorem C08.stale_extra_before) -/
def sameErrsOld (a b : List Err) : Bool := a.map (fun e => (e.ty, e.key)) == b.map (fun e => (e.ty, e.key))

/-- pushFileDiagnostic -/
def pushFile (s : St) (f : File) (ignoreSyntax : Bool) : St :=
  match lk s.saved f with
  | none => s
  | some e => publish s f (if ignoreSyntax then nonSyntax e else e)

def clearStep (new : EMap) (s : St) (p : File × List Err) : St :=
  if (lk new p.1).isNone then publish s p.1 [] else s

def pushStep (old : EMap) (s : St) (p : File × List Err) : St :=
  match lk old p.1 with
  | none => publish s p.1 p.2
  | some o => if sameErrs o p.2 then s else publish s p.1 p.2

def rechangeStep (s : St) (p : File × List Err) : St := publish (publish s p.1 []) p.1 p.2

/-- second loop of pushAllChangeFileDiagnosticErr: a file whose unsaved buffer parses cleanly shows its saved
    diagnostics without the syntax errors -/
def rehideStep (s : St) (f : File) : St :=
  if (lk s.change f).isSome then s else pushFile (publish s f []) f true

/-- pushAllDiagnosticsAgain with the freshly computed error map; since the repair of finding C08-K1 the files
    with unsaved edits are ALWAYS brought back to the view of their buffer afterwards -/
def pushAll (s : St) (new : EMap) : St :=
  let s1 := s.saved.foldl (clearStep new) s
  let s2 := new.foldl (pushStep s.saved) s1
  let s3 := { s2 with saved := new }
  let s4 := s3.change.foldl rechangeStep s3
  s4.hidden.foldl rehideStep s4

/-- pushAllDiagnosticsAgain as it was: the unsaved errors were shown again only when the new map was empty
    (kept for theorem C08.dirty_view_overridden_before) -/
def pushAllOld (s : St) (new : EMap) : St :=
  let s1 := s.saved.foldl (clearStep new) s
  let s2 := new.foldl (pushStep s.saved) s1
  let s3 := { s2 with saved := new }
  if new.isEmpty then s3.change.foldl rechangeStep s3 else s3

def insertChange (s : St) (f : File) (e : List Err) : St :=
  publish { s with change := ins s.change f e, hidden := s.hidden.filter (· != f) } f e

def clearChange (s : St) (f : File) : St :=
  match lk s.change f with
  | none => s
  | some _ => pushFile (publish { s with change := del s.change f } f []) f true

def saveOne (s : St) (f : File) : St :=
  let s := { s with change := del s.change f, hidden := s.hidden.filter (· != f) }
  match lk s.saved f with
  | some _ => pushFile s f false
  | none => publish s f []

def clearSyntax (s : St) (f : File) : St :=
  let s := { s with hidden := f :: s.hidden.filter (· != f) }
  match lk s.saved f with
  | none => s
  | some _ => pushFile (publish s f []) f true

/-! ### the handlers -/

/-- didOpen (the analysis ran only if the file was new to the workspace; an unchanged map is a no-op) -/
def evOpen (s : St) (f : File) (new : EMap) : St := clearChange (pushAll s new) f

/-- didOpen in general: `edit` = none when the opened text is the file's, else the syntax errors of the opened
    text, which is then analysed like an unsaved edit (code order: pushAll; errors → InsertChangeFileErr and
    return; none → ClearFileSyntaxErr, then ClearChangeFileErr) -/
def evOpenWith (s : St) (f : File) (new : EMap) (edit : Option (List Err)) : St :=
  match edit with
  | none => evOpen s f new
  | some errs =>
    if errs.isEmpty then clearChange (clearSyntax (pushAll s new) f) f else insertChange (pushAll s new) f errs

/-- didChange: `errs` = the syntax errors of the new buffer -/
def evChange (s : St) (f : File) (errs : List Err) : St :=
  if errs.isEmpty then clearSyntax (clearChange s f) f else insertChange s f errs

/-- didChangeWatchedFiles (the unsaved-error entries of the announced files are no longer dropped: repair of C08-K1) -/
def evWatched (s : St) (_fs : List File) (new : EMap) : St := pushAll s new

/-- didSave -/
def evSave (s : St) (f : File) (new : EMap) : St := saveOne (pushAll s new) f

/-- didClose: the unsaved edits are discarded; the saved diagnostics of the file are shown again -/
def evClose (s : St) (f : File) (inDir : Bool) : St :=
  let s := saveOne s f
  if inDir then s else { publish s f [] with saved := del s.saved f }

/-- initialize: GetAllDiagnostics publishes every list of the first analysis -/
def evInit (m : EMap) : St := m.foldl (fun s p => publish s p.1 p.2) { saved := m }

/-- what a freshly started server publishes for an error map -/
def shown (m : EMap) (f : File) : List Err := (lk m f).getD []

end LuaHelper.Diag
