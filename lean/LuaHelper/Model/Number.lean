/-
M-num: model of parser/parser_number.go + the classification in parse_exp.go:parseNumberExp.
Go's strconv is an external: `parseIntDec`, `parseUintDec`, `parseUintHex`, `goParseFloatOk` state the
assumed behaviour of strconv.ParseInt / ParseUint / ParseFloat on the strings that can reach them
(range rule modelled exactly with Nat arithmetic).  Core Lean only.
-/
import LuaHelper.Model.Lexer
namespace LuaHelper.Num
open LuaHelper.Lex

inductive NumClass where
  | int (v : Int)       -- IntegerExp (decimal / hex, or LuaJIT LL/ULL)
  | flt                 -- FloatExp
  | notNumber           -- "not a number" syntax error
  | panic               -- index out of range inside parseLuajitNum
deriving Repr, DecidableEq, Inhabited

def lower (c : UInt8) : UInt8 := if c >= 65 && c <= 90 then c + 32 else c
def isDig (c : UInt8) : Bool := c >= 48 && c <= 57
def isHexLower (c : UInt8) : Bool := isDig c || (c >= 97 && c <= 102)
def digVal (c : UInt8) : Nat := if isDig c then c.toNat - 48 else c.toNat - 87

def natOfDigits (base : Nat) (ds : Bytes) : Nat := ds.foldl (fun acc c => acc * base + digVal c) 0

/-- two's complement reinterpretation of a 64-bit value -/
def toInt64 (n : Nat) : Int :=
  let m : Nat := n % (2 ^ 64 : Nat)
  if m < (2 ^ 63 : Nat) then Int.ofNat m else Int.ofNat m - Int.ofNat (2 ^ 64)

/-- strconv.ParseInt(s, 10, 64) on a non-empty all-digit string -/
def parseIntDec (s : Bytes) : Option Int :=
  if s.isEmpty || !s.all isDig then none
  else let v := natOfDigits 10 s; if v < (2 ^ 63 : Nat) then some (Int.ofNat v) else none

/-- strconv.ParseUint(s, 10, 64) -/
def parseUintDec (s : Bytes) : Option Nat :=
  if s.isEmpty || !s.all isDig then none
  else let v := natOfDigits 10 s; if v < 2 ^ 64 then some v else none

/-- strconv.ParseUint(s, 16, 64) -/
def parseUintHex (s : Bytes) : Option Nat :=
  if s.isEmpty || !s.all isHexLower then none
  else let v := natOfDigits 16 s; if v < 2 ^ 64 then some v else none

def startsWith0x (s : Bytes) : Bool := match s with | 48 :: 120 :: _ => true | _ => false
def contains0x : Bytes → Bool
  | [] => false
  | 48 :: 120 :: _ => true
  | _ :: r => contains0x r

def lastN (n : Nat) (s : Bytes) : Bytes := s.drop (s.length - n)

/-- `isHexInteger` on a lower-cased token (no sign) -/
def isHexInteger (s : Bytes) : Bool :=
  s.length > 2 && startsWith0x s && (s.drop 2).all isHexLower

/-- `parseInteger` -/
def parseInteger (s : Bytes) : Option Int :=
  if s.isEmpty then none
  else if !(s.all isDig) && !isHexInteger s then none
  else if !contains0x s then parseIntDec s
  else
    let h := s.drop 2
    let h := if h.length > 16 then lastN 16 h else h
    (parseUintHex h).map toInt64

/-- the regular expression `reHexFloat` on the text after `0x` -/
def hexFloatOk (s : Bytes) : Bool :=
  let mant := s.takeWhile (· != 112)
  let rest := s.drop mant.length
  let ip := mant.takeWhile isHexLower
  let afterIp := mant.drop ip.length
  let mantOk :=
    match afterIp with
    | [] => !ip.isEmpty
    | 46 :: fr => fr.all isHexLower && (!ip.isEmpty || !fr.isEmpty)
    | _ => false
  let expOk :=
    match rest with
    | [] => true
    | _ :: e =>
      let e := match e with | 43 :: r => r | 45 :: r => r | e => e
      !e.isEmpty && e.all isDig
  mantOk && expOk

/-- strconv.ParseFloat(s, 64) returns a nil error OR a range error, for lower-cased tokens that do not start
    with `0x` followed by something (those go to `parseHexFloat`).  Decimal grammar
    digits [. digits] | . digits, optional e[+-]digits; the whole string must be consumed.  A well-formed numeral
    whose value overflows float64 (1e999) is accepted with the value ±Inf (repair of finding C03-K3): only the
    syntax decides. -/
def goParseFloatOk (s : Bytes) : Bool :=
  let ip := s.takeWhile isDig
  let r := s.drop ip.length
  let (fr, r) := match r with
    | 46 :: t => let f := t.takeWhile isDig; (f, t.drop f.length)
    | _ => ([], r)
  if ip.isEmpty && fr.isEmpty then false
  else
    let (ed, r, hasExp) := match r with
      | 101 :: t =>
        let t := match t with | 45 :: u => u | 43 :: u => u | _ => t
        let d := t.takeWhile isDig
        (d, t.drop d.length, true)
      | _ => ([], r, false)
    if hasExp && ed.isEmpty then false
    else r.isEmpty

/-- `parseFloat` -/
def parseFloat (s : Bytes) : Bool :=
  if startsWith0x s && s.length > 2 then hexFloatOk (s.drop 2)
  else goParseFloatOk s

def isSuffixLL (s : Bytes) : Bool := s == [117, 108, 108] || s == [108, 108]

/-- `isLuajitSimpleInterger`: loc = index of the first non-digit; `loc == 0` (none found, or found
    at index 0) makes the Go function answer true -/
def isLuajitSimple (s : Bytes) : Bool :=
  let ds := s.takeWhile isDig
  let loc := if ds.length == s.length then 0 else ds.length
  if loc != 0 then isSuffixLL (s.drop loc) else true

def isLuajitHex (s : Bytes) : Bool :=
  if s.length ≤ 2 then false
  else if !startsWith0x s then false
  else
    let r := s.drop 2
    let ds := r.takeWhile isHexLower
    -- no hexadecimal digit behind 0x (0x. 0xl 0xu) is not a number (repair: index 0 used to mean "no suffix")
    if ds.length == r.length then true
    else if ds.length == 0 then false
    else isSuffixLL (r.drop ds.length)

/-- `parseLuajitNum`; `none` = the Go code indexes out of range -/
def parseLuajit (s : Bytes) : Option (Option Int) :=
  if s.isEmpty then some none
  else if !isLuajitSimple s && !isLuajitHex s then some none
  else if s.length < 3 then none                                     -- str[len(str)-3] panics
  else
    let s := if s[s.length - 3]? == some 117 then s.take (s.length - 3) else s.take (s.length - 2)
    if !contains0x s then some ((parseUintDec s).map toInt64)
    else
      -- Go: str = str[2:] (a leading '-' cannot occur in a token); guard the slice
      if s.length < 2 then none
      else
        let h := s.drop 2
        let h := if h.length > 16 then lastN 16 h else h
        some ((parseUintHex h).map toInt64)

/-- `parseNumberExp`'s classification of a number token -/
def classify (tok : Bytes) : NumClass :=
  let s := tok.map lower
  match parseInteger s with
  | some v => .int v
  | none =>
    if parseFloat s then .flt
    else match parseLuajit s with
      | none => .panic
      | some (some v) => .int v
      | some none => .notNumber

end LuaHelper.Num
