/-
M-lex: executable model of luahelper-lsp/langserver/check/compiler/lexer/lexer.go, written branch by
branch after the Go code (quirks included): tokens, numerals, short and long strings, escapes,
comments, illegal tokens, the line / lineStartPos / currentPos bookkeeping and the Location functions.

The Go lexer is pulled by the parser one token at a time with one token of look-ahead; scanning a
token never depends on what the parser does (only on the two previously produced tokens, for error
locations), so the model produces the whole token stream up front (`lexAll`).  Lexical errors are
attached to the token during whose scan they are reported, which lets the parser model interleave
them with its own errors in the Go order.

`currentPos` is NOT a byte offset: after a short string or an illegal token it advances by the rune
count of `codingconv.ConvertStrToUtf8(content)`; GBK decoding is opaque, so that count is a parameter
(`conv`) that the harness fills from the real function for contents that are not `isUtf8`.
Guarded slice accesses set `panic`.  Core Lean only.
-/
namespace LuaHelper.Lex

abbrev Bytes := List UInt8

/-- token kinds, in the iota order of lexer/token.go (tied to `Gen.tokenKinds` in Props/C03) -/
inductive TK where
  | illegal | eof | vararg | semi | comma | dot | colon | label | lparen | rparen | lbrack | rbrack
  | lcurly | rcurly | assign | minus | wave | add | mul | div | idiv | pow | mod | band | bor | shr | shl
  | concat | lt | le | gt | ge | eq | ne | nen | and | or | not
  | kwBreak | kwDo | kwElse | kwElseif | kwEnd | kwFalse | kwFor | kwFunction | kwGoto | kwIf | kwIn
  | kwLocal | kwNil | kwRepeat | kwReturn | kwThen | kwTrue | kwUntil | kwWhile
  | ident | number | string
deriving Repr, DecidableEq, Inhabited

def TK.all : List TK := [.illegal, .eof, .vararg, .semi, .comma, .dot, .colon, .label, .lparen, .rparen,
  .lbrack, .rbrack, .lcurly, .rcurly, .assign, .minus, .wave, .add, .mul, .div, .idiv, .pow, .mod, .band,
  .bor, .shr, .shl, .concat, .lt, .le, .gt, .ge, .eq, .ne, .nen, .and, .or, .not, .kwBreak, .kwDo, .kwElse,
  .kwElseif, .kwEnd, .kwFalse, .kwFor, .kwFunction, .kwGoto, .kwIf, .kwIn, .kwLocal, .kwNil, .kwRepeat,
  .kwReturn, .kwThen, .kwTrue, .kwUntil, .kwWhile, .ident, .number, .string]

def TK.toNat (k : TK) : Nat := (TK.all.idxOf k)

/-- Go constant name -/
def TK.goName : TK → String
  | .illegal => "IKIllegal" | .eof => "TkEOF" | .vararg => "TkVararg" | .semi => "TkSepSemi"
  | .comma => "TkSepComma" | .dot => "TkSepDot" | .colon => "TkSepColon" | .label => "TkSepLabel"
  | .lparen => "TkSepLparen" | .rparen => "TkSepRparen" | .lbrack => "TkSepLbrack" | .rbrack => "TkSepRbrack"
  | .lcurly => "TkSepLcurly" | .rcurly => "TkSepRcurly" | .assign => "TkOpAssign" | .minus => "TkOpMinus"
  | .wave => "TkOpWave" | .add => "TkOpAdd" | .mul => "TkOpMul" | .div => "TkOpDiv" | .idiv => "TkOpIdiv"
  | .pow => "TkOpPow" | .mod => "TkOpMod" | .band => "TkOpBand" | .bor => "TkOpBor" | .shr => "TkOpShr"
  | .shl => "TkOpShl" | .concat => "TkOpConcat" | .lt => "TkOpLt" | .le => "TkOpLe" | .gt => "TkOpGt"
  | .ge => "TkOpGe" | .eq => "TkOpEq" | .ne => "TkOpNe" | .nen => "TkOpNen" | .and => "TkOpAnd"
  | .or => "TkOpOr" | .not => "TkOpNot" | .kwBreak => "TkKwBreak" | .kwDo => "TkKwDo" | .kwElse => "TkKwElse"
  | .kwElseif => "TkKwElseif" | .kwEnd => "TkKwEnd" | .kwFalse => "TkKwFalse" | .kwFor => "TkKwFor"
  | .kwFunction => "TkKwFunction" | .kwGoto => "TkKwGoto" | .kwIf => "TkKwIf" | .kwIn => "TkKwIn"
  | .kwLocal => "TkKwLocal" | .kwNil => "TkKwNil" | .kwRepeat => "TkKwRepeat" | .kwReturn => "TkKwReturn"
  | .kwThen => "TkKwThen" | .kwTrue => "TkKwTrue" | .kwUntil => "TkKwUntil" | .kwWhile => "TkKwWhile"
  | .ident => "TkIdentifier" | .number => "TkNumber" | .string => "TkString"

/-- reserved words (the Go map `keywords`; tied to `Gen.keywords` in Props/C03) -/
def keywordTable : List (String × TK) := [
  ("and", .and), ("break", .kwBreak), ("do", .kwDo), ("else", .kwElse), ("elseif", .kwElseif),
  ("end", .kwEnd), ("false", .kwFalse), ("for", .kwFor), ("function", .kwFunction), ("goto", .kwGoto),
  ("if", .kwIf), ("in", .kwIn), ("local", .kwLocal), ("nil", .kwNil), ("not", .not), ("or", .or),
  ("repeat", .kwRepeat), ("return", .kwReturn), ("then", .kwThen), ("true", .kwTrue), ("until", .kwUntil),
  ("while", .kwWhile)]

def bytesOfString (s : String) : Bytes := s.toUTF8.toList

def keywordOf (w : Bytes) : Option TK :=
  (keywordTable.find? (fun p => bytesOfString p.1 == w)).map (·.2)

structure Loc where
  sl : Int
  sc : Int
  el : Int
  ec : Int
deriving Repr, DecidableEq, Inhabited

structure Token where
  valid : Bool := false
  str : Bytes := []
  kind : TK := .illegal
  line : Int := 0
  lineStart : Int := 0
  from_ : Int := 0
  to : Int := 0
  /-- the line the token begins on and where that line starts (≠ `line` / `lineStart` for a token that spans lines) -/
  sline : Int := 0
  slineStart : Int := 0
  /-- true byte offsets of the token in the source (ghost fields: not present in the Go code) -/
  offFrom : Nat := 0
  offTo : Nat := 0
deriving Repr, DecidableEq, Inhabited

structure LexErr where
  msg : String
  loc : Loc
deriving Repr, DecidableEq, Inhabited

/-- one produced token together with the lexical errors reported while it was scanned -/
structure Tok where
  tok : Token
  errs : List LexErr
deriving Repr, Inhabited

structure LS where
  chunk : Bytes
  line : Int := 1
  lineStart : Int := 0
  tokStart : Int := 0
  tokSLine : Int := 0
  tokSLineStart : Int := 0
  cur : Int := 0
  pre : Token := {}
  now : Token := {}
  errs : List LexErr := []     -- errors of the token being scanned, oldest first
  panic : Bool := false
  convMissing : Bool := false
  /-- ghost: bytes consumed so far, and the byte offset where the current token started -/
  off : Nat := 0
  tokOff : Nat := 0
deriving Repr, Inhabited

/-! ### character classes (tied to the Go functions by the extractor's predicate translation) -/
def isWhiteSpace (c : UInt8) : Bool := c == 32 || c == 9 || c == 11 || c == 12
def isNewLine (c : UInt8) : Bool := c == 13 || c == 10
def isDigit (c : UInt8) : Bool := c >= 48 && c <= 57
def isLetter (c : UInt8) : Bool := (c >= 97 && c <= 122) || (c >= 65 && c <= 90)
def isHexDigit (c : UInt8) : Bool := (c >= 48 && c <= 57) || (c >= 97 && c <= 102) || (c >= 65 && c <= 70)

/-! ### codingconv.isUtf8 / rune count -/

/-- `preNUm`: length of the run of one bits ending at the most significant set bit = number of
    leading one bits for bytes ≥ 0x80 -/
def preNum (b : UInt8) : Nat :=
  if b < 0x80 then (if b == 0 then 0 else
    -- for bytes < 0x80 the Go loop ends at the top set bit; only used for ≥ 0x80 in isUtf8
    0)
  else if b < 0xC0 then 1 else if b < 0xE0 then 2 else if b < 0xF0 then 3
  else if b < 0xF8 then 4 else if b < 0xFC then 5 else if b < 0xFE then 6 else if b < 0xFF then 7 else 8

/-- `codingconv.isUtf8` as a scan with a counter of continuation bytes still owed (note `num > 2`:
    two-byte sequences are rejected) -/
def utf8Go : Nat → Bytes → Bool
  | 0, [] => true
  | _ + 1, [] => false
  | 0, b :: r =>
    if b &&& 0x80 == 0 then utf8Go 0 r
    else if preNum b > 2 then utf8Go (preNum b - 1) r else false
  | n + 1, c :: r => if c &&& 0xC0 == 0x80 then utf8Go n r else false

def isUtf8 (s : Bytes) : Bool := utf8Go 0 s

/-- `utf16Len` on bytes (the lexer's column unit since the repair of finding C04-K3), i.e. Go's `for _, r := range s`
    with one unit per rune and two for a rune above U+FFFF.  Go decodes strictly: a lead byte must be followed by
    continuation bytes in the ranges of the Unicode standard (no overlong forms, no surrogates, nothing above
    U+10FFFF); any byte that does not start a well-formed sequence is ONE replacement rune and decoding resumes
    at the next byte.  Fuel = the length of the input. -/
def unitsAux : Nat → Bytes → Nat
  | 0, _ => 0
  | _ + 1, [] => 0
  | f + 1, b :: r =>
    let cont (c : UInt8) : Bool := c &&& 0xC0 == 0x80
    if b < 0x80 then 1 + unitsAux f r
    else if 0xC2 ≤ b && b ≤ 0xDF then
      match r with
      | c1 :: r1 => if cont c1 then 1 + unitsAux f r1 else 1 + unitsAux f r
      | [] => 1
    else if 0xE0 ≤ b && b ≤ 0xEF then
      let lo : UInt8 := if b == 0xE0 then 0xA0 else 0x80
      let hi : UInt8 := if b == 0xED then 0x9F else 0xBF
      match r with
      | c1 :: c2 :: r2 => if lo ≤ c1 && c1 ≤ hi && cont c2 then 1 + unitsAux f r2 else 1 + unitsAux f r
      | _ => 1 + unitsAux f r
    else if 0xF0 ≤ b && b ≤ 0xF4 then
      let lo : UInt8 := if b == 0xF0 then 0x90 else 0x80
      let hi : UInt8 := if b == 0xF4 then 0x8F else 0xBF
      match r with
      | c1 :: c2 :: c3 :: r3 => if lo ≤ c1 && c1 ≤ hi && cont c2 && cont c3 then 2 + unitsAux f r3 else 1 + unitsAux f r
      | _ => 1 + unitsAux f r
    else 1 + unitsAux f r

def runeCount (bs : Bytes) : Nat := unitsAux bs.length bs

/-- rune count of `ConvertStrToUtf8 s`: exact when `isUtf8 s` (identity), else looked up in the table
    measured by the harness from the real GBK decoder -/
def convCount (conv : List (Bytes × Nat)) (s : Bytes) : Option Nat :=
  if s.isEmpty then some 0
  else if isUtf8 s then some (runeCount s)
  else (conv.find? (·.1 == s)).map (·.2)

/-! ### primitive state operations -/

def LS.next (l : LS) (n : Nat) : LS :=
  if n > l.chunk.length then { l with panic := true, chunk := [], cur := l.cur + n, off := l.off + l.chunk.length }
  else { l with chunk := l.chunk.drop n, cur := l.cur + n, off := l.off + n }

def LS.test (l : LS) (s : String) : Bool := (bytesOfString s).isPrefixOf l.chunk

def LS.err (l : LS) (loc : Loc) (msg : String) : LS := { l with errs := l.errs ++ [{ msg := msg, loc := loc }] }

/-- `setNowToken` -/
def LS.setNow (l : LS) (k : TK) (s : Bytes) : LS :=
  { l with pre := l.now,
           now := { valid := true, line := l.line, lineStart := l.lineStart, from_ := l.tokStart,
                    sline := l.tokSLine, slineStart := l.tokSLineStart,
                    to := l.cur, kind := k, str := s, offFrom := l.tokOff, offTo := l.off } }

/-- the EOF token the look-ahead produces when the chunk is empty -/
def LS.eofAhead (l : LS) : Token :=
  { valid := true, line := l.line, lineStart := l.lineStart, from_ := l.cur, to := l.cur, kind := .eof,
    sline := l.line, slineStart := l.lineStart, str := bytesOfString "EOF" }

/-- `tokenLoc`: a token that spans lines begins on the line and at the column it began (repair: it used to be
    placed right behind the token before it) -/
def tokenLoc (t : Token) : Loc :=
  if t.lineStart > t.from_ then ⟨t.sline, t.from_ - t.slineStart, t.line, t.to - t.lineStart⟩
  else ⟨t.line, t.from_ - t.lineStart, t.line, t.to - t.lineStart⟩

/-- `GetHeardTokenLoc` for a given look-ahead token -/
def heardLoc (_now ahead : Token) : Loc := tokenLoc ahead

/-- `GetNowTokenLoc` given the following token (only consulted when `now` is invalid) -/
def nowLoc (_pre now : Token) (ahead : Token) : Loc :=
  if !now.valid then heardLoc now ahead else tokenLoc now

/-- `GetPreTokenLoc` -/
def preLoc (pre : Token) : Loc :=
  if !pre.valid then ⟨1, 0, 1, 0⟩ else tokenLoc pre

/-- `GetHeardTokenLoc` called from inside the lexer: only reachable with an empty chunk, where the
    look-ahead is the EOF token (see the header) -/
def LS.heardLocAtEnd (l : LS) : Loc := heardLoc l.now l.eofAhead

/-! ### long brackets -/

/-- `matchLongStringBacket`: (opening bracket, count) -/
def matchLongAux : Bytes → Nat → Bytes → (Bytes × Nat)
  | [], count, _ => ([], count + 2)
  | c :: r, count, acc =>
    if c == 61 then matchLongAux r (count + 1) (acc ++ [c])
    else if c != 91 then ([], count + 2)
    else (acc ++ [c], count + 2)

def LS.matchLong (l : LS) : Bytes × Nat :=
  match l.chunk with
  | 91 :: 91 :: _ => ([91, 91], 0)
  | 91 :: r => matchLongAux r 0 [91]
  | _ => ([], 0)

/-- first index of `pat` in `s` (`strings.Index`) -/
def indexOf (pat : Bytes) : Bytes → Nat → Option Nat
  | [], i => if pat.isEmpty then some i else none
  | c :: r, i => if pat.isPrefixOf (c :: r) then some i else indexOf pat r (i + 1)

/-- `newLineReplacer.Replace`: \r\n, \n\r, \r, \n all become \n -/
def normNewlines : Bytes → Bytes
  | [] => []
  | 13 :: 10 :: r => 10 :: normNewlines r
  | 10 :: 13 :: r => 10 :: normNewlines r
  | 13 :: r => 10 :: normNewlines r
  | c :: r => c :: normNewlines r

def countNl (s : Bytes) : Nat := (s.filter (· == 10)).length

/-- length of the last line of an already normalised string -/
def lastLineLen (s : Bytes) : Nat := (s.reverse.takeWhile (· != 10)).length

/-- `scanLongString`: returns the state and the string value -/
def LS.scanLongString (l : LS) (conv : List (Bytes × Nat)) : LS × Bytes :=
  let (lb, count) := l.matchLong
  if lb.isEmpty then
    let l := if l.chunk.length < 2 then { l with panic := true } else l
    let l := l.err ⟨l.line, l.cur - l.lineStart, l.line, l.cur - l.lineStart + count⟩ "invalid long string delimiter"
    (l.next (min count l.chunk.length), [])
  else
    let lbEnd := lb.map fun c => if c == 91 then (93 : UInt8) else c
    match indexOf lbEnd l.chunk 0 with
    | none =>
      let str := normNewlines (l.chunk.drop lb.length)
      let l := l.next l.chunk.length
      let l := if countNl str > 0 then
          { l with line := l.line + countNl str, lineStart := l.cur - lastLineLen str }
        else l
      -- the look-ahead taken for the error location re-enters NextTokenStruct, which moves tokenStartPos
      ({ (l.err l.heardLocAtEnd "missing `]]`") with tokStart := l.cur, tokSLine := l.line, tokSLineStart := l.lineStart }, [])
    | some idx =>
      let str := normNewlines ((l.chunk.take idx).drop lb.length)
      let l := l.next (idx + lbEnd.length)
      -- the last line of the string counts in characters (repair of finding C04-K2: the line of the closing
      -- bracket starts behind the last line break inside the string, or where it started before)
      let lastLine := (str.reverse.takeWhile (· != 10)).reverse
      let (chars, l) := match convCount conv lastLine with
        | some n => (n, l)
        | none => (runeCount lastLine, { l with convMissing := true })
      let l := { l with cur := l.cur - ((lastLine.length : Int) - (chars : Int)) }
      let l := if countNl str > 0 then
          { l with line := l.line + countNl str, lineStart := l.cur - (lbEnd.length : Int) - (chars : Int) }
        else l
      (l, match str with | 10 :: r => r | s => s)

/-! ### comments and white space -/

/-- `skipComment` (content is not kept here; the comment map is modelled in M-hov) -/
def LS.skipComment (l : LS) (conv : List (Bytes × Nat)) : LS :=
  let l := l.next 2
  let long := l.test "[" && !(l.matchLong).1.isEmpty
  if long then (l.scanLongString conv).1
  else l.next (l.chunk.takeWhile (fun c => !isNewLine c)).length

/-- `skipWhiteSpaces`; fuel = remaining bytes + 1 (every iteration but the last consumes ≥ 1 byte) -/
def skipWs (conv : List (Bytes × Nat)) : Nat → LS → LS
  | 0, l => l
  | fuel + 1, l =>
    match l.chunk with
    | [] => l
    | c :: r =>
      let wrap := match r with
        | d :: _ => (c == 13 && d == 10) || (c == 10 && d == 13)
        | [] => false
      if wrap then
        let l := l.next 2
        skipWs conv fuel { l with line := l.line + 1, lineStart := l.cur }
      else if isNewLine c then
        let l := l.next 1
        skipWs conv fuel { l with line := l.line + 1, lineStart := l.cur }
      else if isWhiteSpace c then skipWs conv fuel (l.next 1)
      else if l.test "--" then skipWs conv fuel (l.skipComment conv)
      else l

/-! ### identifiers and numbers -/

def LS.scanIdentifier (l : LS) : LS × Bytes :=
  match l.chunk with
  | [] => ({ l with panic := true }, [])
  | c :: r =>
    let tail := r.takeWhile fun c => isLetter c || isDigit c || c == 95
    (l.next (1 + tail.length), c :: tail)

def isHexish (c : UInt8) : Bool :=
  isDigit c || (c >= 97 && c <= 102) || (c >= 65 && c <= 70) || c == 117 || c == 85 || c == 108 || c == 76

/-- the inner loop of `scanNumber`: returns the final index; `expo` = the two exponent letters -/
def numLoop (ch : Bytes) (expo : UInt8 × UInt8) : Nat → Nat → Nat
  | 0, i => i
  | fuel + 1, i =>
    match ch[i]? with
    | none => i
    | some c2 =>
      let i := if c2 == expo.1 || c2 == expo.2 then
          let i := i + 1
          match ch[i]? with
          | some c3 => if c3 == 45 || c3 == 43 then i + 1 else i
          | none => i
        else i
      match ch[i]? with
      | none => i
      | some c4 => if isHexish c4 || c4 == 46 then numLoop ch expo fuel (i + 1) else i

/-- `scanNumber` -/
def LS.scanNumber (l : LS) : LS × Bytes :=
  let ch := l.chunk
  match ch with
  | [] => ({ l with panic := true }, [])
  | b0 :: _ =>
    -- i = 1; a leading '.' is followed by a digit (guaranteed by the caller)
    let (begin, i, l) :=
      if b0 == 46 then
        match ch[1]? with
        | some c => (c, 2, l)
        | none => ((32 : UInt8), 2, l.err l.heardLocAtEnd "malformed number")
      else (b0, 1, l)
    let i :=
      match ch[i]? with
      | none => i
      | some nx =>
        let hex := begin == 48 && (nx == 120 || nx == 88)
        let expo : UInt8 × UInt8 := if hex then (80, 112) else (69, 101)
        let i := if hex then i + 1 else i
        numLoop ch expo (ch.length + 1) i
    let i := min i ch.length
    (l.next i, ch.take i)

/-! ### short strings -/

def isNewWhiteSpace (c : UInt8) : Bool := c == 9 || c == 11 || c == 12 || c == 32

/-- scanner-local state of `scanShortString`/`readEscapeSequence`: index `i` into the chunk, and the
    lexer fields `consumeEOL` updates -/
structure SS where
  i : Nat
  l : LS

/-- `consumeEOL` -/
def consumeEOL (ch : Bytes) (s : SS) : SS × Bool :=
  match ch[s.i]? with
  | none => ({ s with l := { s.l with panic := true } }, false)
  | some c =>
    let peek := (ch[s.i + 1]?).getD 0
    if c == 13 || c == 10 then
      let i := if (c == 13 && peek == 10) || (peek == 13 && c == 10) then s.i + 1 else s.i
      let i := i + 1
      ({ i := i, l := { s.l with line := s.l.line + 1, lineStart := s.l.cur + i } }, true)
    else (s, false)

/-- the `\z` loop -/
def skipZ (ch : Bytes) : Nat → SS → SS
  | 0, s => s
  | fuel + 1, s =>
    match ch[s.i]? with
    | none => s
    | some c =>
      if isNewWhiteSpace c then skipZ ch fuel { s with i := s.i + 1 }
      else
        let (s', ok) := consumeEOL ch s
        if ok then skipZ ch fuel s' else s'

def digitsFrom (ch : Bytes) (i : Nat) : Nat := ((ch.drop i).takeWhile isDigit).length

/-- `readEscapeSequence`: `s.i` points at the character after the backslash; returns the text
    appended to the token string -/
def readEscape (ch : Bytes) (s : SS) : SS × Bytes :=
  match ch[s.i]? with
  | none => ({ s with l := s.l.err s.l.heardLocAtEnd "unfinished string" }, [])
  | some c =>
    let adv (out : Bytes) : SS × Bytes := ({ s with i := s.i + 1 }, out)
    if c == 97 then adv [7] else if c == 98 then adv [8] else if c == 102 then adv [12]
    else if c == 110 then adv [10] else if c == 114 then adv [13] else if c == 116 then adv [9]
    else if c == 118 then adv [11]
    else if c == 120 then
      match ch[s.i + 1]?, ch[s.i + 2]? with
      | some a, some b =>
        if isHexDigit a && isHexDigit b then ({ s with i := s.i + 3 }, [92, c, a, b]) else adv [92, 120]
      | _, _ => adv [92, 120]
    else if c == 10 || c == 13 then
      let (s', ok) := consumeEOL ch s
      if ok then (s', [10]) else ({ s' with l := s'.l.err s'.l.heardLocAtEnd "unfinished string" }, [10])
    else if c == 92 || c == 39 || c == 34 then adv [c]
    else if c == 122 then (skipZ ch (ch.length + 1) { s with i := s.i + 1 }, [])
    else if isDigit c then
      let n := digitsFrom ch s.i
      ({ s with i := s.i + n }, 92 :: (ch.drop s.i).take n)
    -- Go: `string(oneChar)` with oneChar a byte is the UTF-8 text of the code point of that VALUE: a byte above
    -- 0x7F behind a backslash becomes two bytes in the token text
    else adv (if c >= 128 then [(0xC0 : UInt8) ||| (c >>> 6), (0x80 : UInt8) ||| (c &&& 0x3F)] else [c])

/-- how the loop of `scanShortString` ends -/
inductive SSRes where
  | unfinishedIn (s : SS) (i : Nat) (atEnd : Bool)   -- the `return ""` inside the loop (i already incremented)
  | ended (s : SS) (str : Bytes) (stringStart : Nat)  -- loop exited (delimiter found or input exhausted)

/-- the loop of `scanShortString`; `s.i` = i, `st` = stringStart -/
def shortLoop (ch : Bytes) (delim : UInt8) : Nat → SS → Bytes → Nat → SSRes
  | 0, s, str, st => .ended s str st
  | fuel + 1, s, str, st =>
    if s.i < ch.length then
      let c := (ch[s.i]?).getD 0
      let i := s.i + 1
      if c == delim then .ended { s with i := i } str st
      else if i >= ch.length || c == 13 || c == 10 then .unfinishedIn s i (i >= ch.length)
      else if c != 92 then shortLoop ch delim fuel { s with i := i } str st
      else
        let pre := (ch.drop st).take (i - 1 - st)
        let (s', esc) := readEscape ch { s with i := i }
        shortLoop ch delim fuel s' (str ++ pre ++ esc) s'.i
    else .ended s str st

/-- `scanShortString` -/
def LS.scanShortString (l : LS) (conv : List (Bytes × Nat)) : LS × Bytes :=
  let ch := l.chunk
  match ch with
  | [] => ({ l with panic := true }, [])
  | delim :: _ =>
    match shortLoop ch delim (ch.length + 1) { i := 1, l := l } [] 1 with
    | .unfinishedIn s i atEnd =>
      let l := if atEnd then s.l.next i else s.l.next (i - 1)
      -- GetNowTokenLoc(): nowToken is still the previous token.  If there is none (the unfinished
      -- string is the first token of the file) the Go code re-enters the scanner through the
      -- look-ahead; that path is not modelled (`convMissing` doubles as the "unmodelled" flag).
      let l := if !l.now.valid then { l with convMissing := true } else l
      let nl := nowLoc l.pre l.now l.eofAhead
      let sc := nl.sc + i
      (l.err ⟨nl.sl, sc, nl.el, sc + 1⟩ "unfinished string", [])
    | .ended s str st =>
      let l := s.l
      if st >= ch.length then
        let l := l.next s.i
        ({ (l.err l.heardLocAtEnd "unfinished string") with tokStart := l.cur, tokSLine := l.line, tokSLineStart := l.lineStart }, [])
      else
        let str := str ++ (ch.drop st).take (s.i - 1 - st)
        -- the column advances by the converted SOURCE text between the quotes (not by the string value)
        let raw := (ch.drop 1).take (s.i - 2)
        match convCount conv raw with
        | some n => ({ l with chunk := ch.drop s.i, cur := l.cur + n + 2, off := l.off + s.i }, str)
        | none => ({ l with chunk := ch.drop s.i, cur := l.cur + runeCount raw + 2, convMissing := true, off := l.off + s.i }, str)

/-- `scanIllegalToken`: (line break seen, token text).  The token runs up to the next space / CR / LF, which
    is left to `skipWhiteSpaces` (it used to be consumed here without being counted). -/
def LS.scanIllegal (l : LS) (conv : List (Bytes × Nat)) : LS × Bool × Bytes :=
  let ch := l.chunk
  let str := ch.takeWhile fun c => !(c == 32 || c == 13 || c == 10)
  let i := str.length
  match convCount conv str with
  | some n => ({ l with chunk := ch.drop i, cur := l.cur + n, off := l.off + i }, false, str)
  | none => ({ l with chunk := ch.drop i, cur := l.cur + runeCount str, convMissing := true, off := l.off + i }, false, str)

/-- fixed-spelling tokens -/
def LS.emit (l : LS) (n : Nat) (k : TK) (s : String) : LS := (l.next n).setNow k (bytesOfString s)

/-- `NextTokenStruct` when no look-ahead token is buffered: scans one token -/
def LS.scanToken (l : LS) (conv : List (Bytes × Nat)) : LS :=
  let l := skipWs conv (l.chunk.length + 1) l
  let l := { l with tokStart := l.cur, tokSLine := l.line, tokSLineStart := l.lineStart, tokOff := l.off }
  match l.chunk with
  | [] => l.setNow .eof (bytesOfString "EOF")
  | c :: r =>
    let second := r.head?
    let numberOrRest (l : LS) : LS :=
      if c == 46 || isDigit c then
        let (l, t) := l.scanNumber
        l.setNow .number t
      else if c == 95 || isLetter c then
        let (l, t) := l.scanIdentifier
        match keywordOf t with
        | some k => l.setNow k t
        | none => l.setNow .ident t
      else
        let (l, lineFlag, t) := l.scanIllegal conv
        let l := l.setNow .illegal t
        let l := l.err (nowLoc l.pre l.now l.eofAhead) "unexpected Unicode-name"
        if lineFlag then { l with line := l.line + 1, lineStart := l.cur } else l
    if c == 59 then l.emit 1 .semi ";" else if c == 44 then l.emit 1 .comma ","
    else if c == 40 then l.emit 1 .lparen "(" else if c == 41 then l.emit 1 .rparen ")"
    else if c == 93 then l.emit 1 .rbrack "]" else if c == 123 then l.emit 1 .lcurly "{"
    else if c == 125 then l.emit 1 .rcurly "}" else if c == 43 then l.emit 1 .add "+"
    else if c == 45 then l.emit 1 .minus "-" else if c == 42 then l.emit 1 .mul "*"
    else if c == 94 then l.emit 1 .pow "^" else if c == 37 then l.emit 1 .mod "%"
    else if c == 38 then l.emit 1 .band "&" else if c == 124 then l.emit 1 .bor "|"
    else if c == 35 then l.emit 1 .nen "#"
    else if c == 58 then (if second == some 58 then l.emit 2 .label "::" else l.emit 1 .colon ":")
    else if c == 47 then (if second == some 47 then l.emit 2 .idiv "//" else l.emit 1 .div "/")
    else if c == 126 then (if second == some 61 then l.emit 2 .ne "~=" else l.emit 1 .wave "~")
    else if c == 61 then (if second == some 61 then l.emit 2 .eq "==" else l.emit 1 .assign "=")
    else if c == 60 then
      (if second == some 60 then l.emit 2 .shl "<<" else if second == some 61 then l.emit 2 .le "<="
       else l.emit 1 .lt "<")
    else if c == 62 then
      (if second == some 62 then l.emit 2 .shr ">>" else if second == some 61 then l.emit 2 .ge ">="
       else l.emit 1 .gt ">")
    else if c == 46 then
      if l.test "..." then l.emit 3 .vararg "..."
      else if l.test ".." then l.emit 2 .concat ".."
      else if r.isEmpty || !isDigit (r.headD 0) then l.emit 1 .dot "."
      else numberOrRest l
    else if c == 91 then
      if l.test "[[" || l.test "[=" then
        let (l, t) := l.scanLongString conv
        l.setNow .string t
      else l.emit 1 .lbrack "["
    else if c == 39 || c == 34 then
      let (l, t) := l.scanShortString conv
      l.setNow .string t
    else numberOrRest l

/-- `SkipFirstLineComment` (BOM and `#!` line) -/
def LS.skipFirstLine (l : LS) : LS :=
  let l := match l.chunk with
    | 239 :: 187 :: 191 :: r => { l with chunk := r, off := l.off + 3 }
    | _ => l
  match l.chunk with
  | 35 :: _ =>
    let l := l.next 1
    l.next (l.chunk.takeWhile (fun c => !isNewLine c)).length
  | _ => l

/-- the whole token stream, EOF token included; fuel = bytes + 2 (every token but EOF consumes ≥ 1 byte) -/
def lexLoop (conv : List (Bytes × Nat)) : Nat → LS → List Tok → List Tok × LS
  | 0, l, acc => (acc.reverse, l)
  | fuel + 1, l, acc =>
    let l := (l.scanToken conv)
    let t : Tok := { tok := l.now, errs := l.errs }
    let l := { l with errs := [] }
    if t.tok.kind == .eof then ((t :: acc).reverse, l) else lexLoop conv fuel l (t :: acc)

def lexAll (src : Bytes) (conv : List (Bytes × Nat)) : List Tok × LS :=
  let l : LS := { chunk := src }
  let l := l.skipFirstLine
  lexLoop conv (src.length + 2) l []

end LuaHelper.Lex
