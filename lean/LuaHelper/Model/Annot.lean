/-
M-annot: the annotation line lexer (annotatelexer/annotate_lexer.go), the type grammar
(annotateparser/annotate_parser_type.go), the statement parsers (annotate_parser_state.go) and the type
printer (annotateast/annotate_util.go TypeConvertStr).
The lexer is context free, so a line is tokenised up front; end of input is the empty token list
(the code's EOF token) and an unlexable remainder is one final `other` token (the code never consumes
either successfully).  A parse error (the code's panic carrying ParseAnnotateErr) is `none`.
Core Lean only.
-/
import LuaHelper.Model.Lexer
namespace LuaHelper.Annot
open LuaHelper.Lex

inductive Kw where
  | fun_ | table | type | param | field | class_ | return_ | overload | alias | generic
  | public_ | protected_ | private_ | vararg | const | enum
deriving DecidableEq, Repr, Inhabited

def kwTable : List (String × Kw) := [("fun", .fun_), ("table", .table), ("type", .type), ("param", .param),
  ("field", .field), ("class", .class_), ("return", .return_), ("overload", .overload), ("alias", .alias),
  ("generic", .generic), ("public", .public_), ("protected", .protected_), ("private", .private_),
  ("vararg", .vararg), ("const", .const), ("enum", .enum)]

def kwOf (w : Bytes) : Option Kw := (kwTable.find? fun p => bytesOfString p.1 == w).map (·.2)
def kwText (k : Kw) : Bytes := bytesOfString (((kwTable.find? fun p => p.2 == k).map (·.1)).getD "")

inductive Tok where
  | comma | colon | vararg | lparen | rparen | lbrack | rbrack | bor | lt | gt | at | opt
  | str (s : Bytes) | kw (k : Kw) | ident (s : Bytes) | other (s : Bytes)
deriving DecidableEq, Repr, Inhabited

/-- `tokenStr` of the code -/
def tokText : Tok → Bytes
  | .comma => [44] | .colon => [58] | .vararg => [46, 46, 46] | .lparen => [40] | .rparen => [41]
  | .lbrack => [91] | .rbrack => [93] | .bor => [124] | .lt => [60] | .gt => [62] | .at => [64] | .opt => [63]
  | .str s => s | .kw k => kwText k | .ident s => s | .other s => s

def isWs (c : UInt8) : Bool := c == 9 || c == 10 || c == 11 || c == 12 || c == 13 || c == 32
def isLetter (c : UInt8) : Bool := (c ≥ 97 && c ≤ 122) || (c ≥ 65 && c ≤ 90)
def isDigit (c : UInt8) : Bool := c ≥ 48 && c ≤ 57
def isIdStart (c : UInt8) : Bool := c == 95 || isLetter c || isDigit c
def isIdCont (c : UInt8) : Bool := isLetter c || isDigit c || c == 95 || c == 46

/-- scanShortString: the content up to the closing delimiter; an unterminated string loses its last byte -/
def scanStr (delim : UInt8) (rest : Bytes) : Bytes × Bytes :=
  -- rest = the chunk after the opening delimiter
  let body := rest.takeWhile (· != delim)
  let after := rest.dropWhile (· != delim)
  match after with
  | _ :: r => (body, r)
  | [] => (body.dropLast, [])

/-- one token of a chunk that does not start with white space: (token, text after it, go on?);
    `none` = end of input; an unlexable remainder is a final `other` token -/
def lexStep : Bytes → Option (Tok × Bytes × Bool)
  | [] => none
  | 44 :: r => some (.comma, r, true)
  | 40 :: r => some (.lparen, r, true)
  | 41 :: r => some (.rparen, r, true)
  | 91 :: r => some (.lbrack, r, true)
  | 93 :: r => some (.rbrack, r, true)
  | 124 :: r => some (.bor, r, true)
  | 60 :: r => some (.lt, r, true)
  | 62 :: r => some (.gt, r, true)
  | 64 :: r => some (.at, r, true)
  | 63 :: r => some (.opt, r, true)
  | 58 :: r => some (.colon, r, true)
  | 46 :: 46 :: 46 :: r => some (.vararg, r, true)
  | 39 :: r => some (.str (scanStr 39 r).1, (scanStr 39 r).2, true)
  | 34 :: r => some (.str (scanStr 34 r).1, (scanStr 34 r).2, true)
  | ch :: r =>
    if isIdStart ch then
      let w := ch :: r.takeWhile isIdCont
      some (match kwOf w with | some k => Tok.kw k | none => Tok.ident w, r.dropWhile isIdCont, true)
    else some (.other (ch :: r), ch :: r, false)

/-- tokens with, for each token, the raw text that follows it -/
def lexLine : Nat → Bytes → List (Tok × Bytes)
  | 0, _ => []
  | fuel + 1, chunk =>
    match lexStep (chunk.dropWhile isWs) with
    | none => []
    | some (t, r, true) => (t, r) :: lexLine fuel r
    | some (t, r, false) => [(t, r)]

/-! ### types -/

inductive Ty where
  | multi (l : List Ty)
  | normal (n : Bytes)
  | array (t : Ty)
  | tableE
  | table (k v : Ty)
  | func (names : List Bytes) (opts : List Bool) (ptys : List Ty) (rets : List Ty)
  | const (n : Bytes) (quotes : Bool)
deriving Repr, Inhabited

/-- splitStrQuotes -/
def splitQuotes (s : Bytes) : Bytes × Bool :=
  if s.length ≤ 2 then (s, false)
  else if (s.head? == some 39 && s.getLast? == some 39) || (s.head? == some 34 && s.getLast? == some 34)
    then ((s.drop 1).dropLast, true)
  else (s, false)

/-- the `[]` suffixes of parserSingleType: each one wraps the type read so far (`string[][]` is an array of
    `string[]`; before the repair of finding C16-K1 only one suffix was read) -/
def arrSuffix (t : Ty) : List Tok → Option (Ty × List Tok)
  | .lbrack :: .rbrack :: r => arrSuffix (.array t) r
  | .lbrack :: _ => none
  | r => some (t, r)

def anyTy : Ty := .normal (bytesOfString "any")

mutual
/-- parserSingleType without the array suffix -/
def pBase : Nat → List Tok → Option (Ty × List Tok)
  | 0, _ => none
  | f + 1, .lparen :: r =>
    match pOne f r with
    | some (t, .rparen :: r') => some (t, r')
    | _ => none
  | f + 1, .kw .fun_ :: r => pFun f r
  | f + 1, .kw .table :: r =>
    match r with
    | .lt :: r0 =>
      match pOne f r0 with
      | some (k, .comma :: r1) =>
        match pOne f r1 with
        | some (v, .gt :: r2) => some (.table k v, r2)
        | _ => none
      | _ => none
    | _ => some (.tableE, r)
  | _ + 1, .ident n :: r => some (.normal n, r)
  | _ + 1, .vararg :: r => some (.normal [46, 46, 46], r)
  | _ + 1, .str s :: r => some (.const (splitQuotes s).1 (splitQuotes s).2, r)
  | _, _ => none
/-- parserSingleType -/
def pSingle : Nat → List Tok → Option (Ty × List Tok)
  | 0, _ => none
  | f + 1, ts =>
    match pBase f ts with
    | some (t, r) => arrSuffix t r
    | none => none
/-- parserOneType: singles separated by '|' -/
def pOneList : Nat → List Tok → Option (List Ty × List Tok)
  | 0, _ => none
  | f + 1, ts =>
    match pSingle f ts with
    | some (t, .bor :: r) =>
      match pOneList f r with
      | some (l, r') => some (t :: l, r')
      | none => none
    | some (t, r) => some ([t], r)
    | none => none
def pOne : Nat → List Tok → Option (Ty × List Tok)
  | 0, _ => none
  | f + 1, ts =>
    match pOneList f ts with
    | some (l, r) => some (.multi l, r)
    | none => none
/-- generic names of `fun<…>` (NextFieldName: an identifier or a keyword) -/
def pGenNames : Nat → List Tok → Option (List Tok)
  | 0, _ => none
  | f + 1, .ident _ :: .comma :: r => pGenNames f r
  | f + 1, .kw _ :: .comma :: r => pGenNames f r
  | _ + 1, .ident _ :: r => some r
  | _ + 1, .kw _ :: r => some r
  | _, _ => none
/-- the parameters of a fun type -/
def pParams : Nat → List Tok → Option (List Bytes × List Bool × List Ty × List Tok)
  | 0, _ => none
  | f + 1, t :: r =>
    let name : Option Bytes := match t with
      | .ident s => some s | .vararg => some [46, 46, 46] | .kw k => some (kwText k) | _ => none
    match name with
    | none => none
    | some nm =>
      let (o, r1) := match r with | .opt :: r' => (true, r') | _ => (false, r)
      let pt : Option (Ty × List Tok) := match r1 with
        | .colon :: r2 => pOne f r2
        | _ => some (anyTy, r1)
      match pt with
      | none => none
      | some (ty, .comma :: r3) =>
        match pParams f r3 with
        | some (ns, os, ts, r4) => some (nm :: ns, o :: os, ty :: ts, r4)
        | none => none
      | some (ty, r3) => some ([nm], [o], [ty], r3)
  | _, _ => none
def pRets : Nat → List Tok → Option (List Ty × List Tok)
  | 0, _ => none
  | f + 1, ts =>
    match pOne f ts with
    | some (t, .comma :: r) =>
      match pRets f r with
      | some (l, r') => some (t :: l, r')
      | none => none
    | some (t, r) => some ([t], r)
    | none => none
/-- parserFunType after the `fun` keyword -/
def pFun : Nat → List Tok → Option (Ty × List Tok)
  | 0, _ => none
  | f + 1, ts =>
    let afterGen : Option (List Tok) := match ts with
      | .lt :: r => (match pGenNames f r with | some (.gt :: r') => some r' | _ => none)
      | _ => some ts
    match afterGen with
    | some (.lparen :: .rparen :: r) => pFunRets f [] [] [] r
    | some (.lparen :: r) =>
      match pParams f r with
      | some (ns, os, tys, .rparen :: r') => pFunRets f ns os tys r'
      | _ => none
    | _ => none
def pFunRets : Nat → List Bytes → List Bool → List Ty → List Tok → Option (Ty × List Tok)
  | 0, _, _, _, _ => none
  | f + 1, ns, os, tys, .colon :: r =>
    match pRets f r with
    | some (rs, r') => some (.func ns os tys rs, r')
    | none => none
  | _ + 1, ns, os, tys, r => some (.func ns os tys [], r)
end

/-! ### printer (TypeConvertStr) -/

def sepBy (sep : Bytes) : List Bytes → Bytes
  | [] => []
  | [x] => x
  | x :: r => x ++ sep ++ sepBy sep r

def prParams : List Bytes → List Bytes → List Bytes
  | [], _ => []
  | n :: ns, [] => (n ++ bytesOfString ": ") :: prParams ns []
  | n :: ns, t :: ts => (n ++ bytesOfString ": " ++ t) :: prParams ns ts

mutual
/-- `TypeConvertStr` (grouped = false) / `typeConvertGroupStr` (grouped = true: the item of an array or a member of
    a union, where a union of several types keeps its parentheses — repair of finding C16-K4) -/
def prG : Bool → Ty → Bytes
  | grouped, .multi l =>
    let ps := (prGList true l).filter (· != [])
    let s := sepBy (bytesOfString " | ") ps
    if grouped && ps.length > 1 then [40] ++ s ++ [41] else s
  | _, .normal n => n
  | _, .array t => prG true t ++ bytesOfString "[]"
  | _, .tableE => bytesOfString "table"
  | _, .table k v => bytesOfString "table<" ++ prG false k ++ bytesOfString ", " ++ prG false v ++ bytesOfString ">"
  | _, .func ns _ tys rets =>
    bytesOfString "function(" ++ sepBy (bytesOfString ", ") (prParams ns (prGList false tys)) ++ bytesOfString ")" ++
      (match prGList false rets with
       | [] => []
       | rs => bytesOfString ": " ++ sepBy (bytesOfString ", ") rs)
  | _, .const n q => if q then [34] ++ n ++ [34] else n
def prGList : Bool → List Ty → List Bytes
  | _, [] => []
  | g, t :: r => prG g t :: prGList g r
end

/-- `TypeConvertStr` -/
def pr (t : Ty) : Bytes := prG false t

/-! ### the canonical fragment: what print-and-read preserves -/

mutual
/-- a name, `table`, `table<K, V>` over canonical unions, or a parenthesised canonical union -/
def canonB : Ty → Bool
  | .normal _ => true
  | .tableE => true
  | .table k v => canonM k && canonM v
  | .multi (t :: t2 :: l) => canonS t && canonL (t2 :: l)   -- a parenthesised union of at least two types
  | _ => false
/-- a base type, or an array (of arrays …) of a base type -/
def canonS : Ty → Bool
  | .array t => canonS t
  | t => canonB t
/-- a union of at least one canonical single type -/
def canonM : Ty → Bool
  | .multi (t :: l) => canonS t && canonL l
  | _ => false
def canonL : List Ty → Bool
  | [] => true
  | t :: l => canonS t && canonL l
end

mutual
/-- the tokens of the printed form (TypeConvertStr followed by the lexer, at token level) -/
def toksB : Ty → List Tok
  | .normal n => [.ident n]
  | .tableE => [.kw .table]
  | .table k v => [.kw .table, .lt] ++ toksM k ++ [.comma] ++ toksM v ++ [.gt]
  | .multi (t :: t2 :: l) => .lparen :: (toksS t ++ toksL (t2 :: l)) ++ [.rparen]
  | _ => []
def toksS : Ty → List Tok
  | .array t => toksS t ++ [.lbrack, .rbrack]
  | t => toksB t
def toksM : Ty → List Tok
  | .multi (t :: l) => toksS t ++ toksL l
  | _ => []
/-- the remaining members of a union, each preceded by '|' -/
def toksL : List Ty → List Tok
  | [] => []
  | t :: l => .bor :: toksS t ++ toksL l
end

mutual
/-- fuel that suffices to read the printed form back -/
def costB : Ty → Nat
  | .table k v => max (costM k) (costM v) + 2
  | .multi (t :: t2 :: l) => max (costS t) (costL (t2 :: l)) + 3
  | _ => 1
def costS : Ty → Nat
  | .array t => costS t
  | t => costB t + 1
def costM : Ty → Nat
  | .multi (t :: l) => max (costS t) (costL l) + 2
  | _ => 0
def costL : List Ty → Nat
  | [] => 0
  | t :: l => max (costS t) (costL l) + 1
end

/-! ### statements -/

inductive Stat where
  | type (consts enums : List Bool) (tys : List Ty) (cm : Bytes)
  | alias (name : Bytes) (ty : Option Ty) (cm : Bytes)
  | class_ (name : Bytes) (parents : List Bytes) (cm : Bytes)
  | overload (ty : Ty) (cm : Bytes)
  | field (scope : Nat) (name : Bytes) (colon : Bool) (ty : Ty) (cm : Bytes)
  | param (const : Bool) (name : Bytes) (opt : Bool) (ty : Ty) (cm : Bytes)
  | return_ (tys : List Ty) (opts : List Bool) (cm : Bytes)
  | generic (names parents : List Bytes) (cm : Bytes)
  | vararg (ty : Ty) (cm : Bytes)
  | enum (kind : Nat) (cm : Bytes)        -- 0 none, 1 start, 2 end
  | notValid
deriving Repr, Inhabited

def stripAt (s : Bytes) : Bytes := match s with | 64 :: r => r | _ => s

/-- GetRemainComment with a valid look-ahead: `all` is the whole token list of the line with the text
    after each token, `rest` the tokens not yet consumed (a suffix of it) -/
def remain (all : List (Tok × Bytes)) (rest : List Tok) : Bytes :=
  let i := all.length - rest.length
  match all[i]? with
  | none => []                                   -- EOF
  | some (.other s, _) => stripAt s
  | some (t, after) => stripAt (tokText t ++ after)

/-- GetRemainComment without a look-ahead token: the raw text after the last consumed token -/
def remainRaw (all : List (Tok × Bytes)) (rest : List Tok) : Bytes :=
  let i := all.length - rest.length
  match i with
  | 0 => []
  | k + 1 => stripAt ((all[k]?.map (·.2)).getD [])

def fieldName : Tok → Option Bytes
  | .ident s => some s | .kw k => some (kwText k) | _ => none
def paramName : Tok → Option Bytes
  | .ident s => some s | .vararg => some [46, 46, 46] | .kw k => some (kwText k) | _ => none

def pTypeItems : Nat → Nat → List Tok → Option (List Bool × List Bool × List Ty × List Tok)
  | 0, _, _ => none
  | n + 1, f, ts =>
    let (c, e, r) : Bool × Bool × List Tok := match ts with
      | .kw .const :: .kw .enum :: r => (true, true, r)
      | .kw .const :: r => (true, false, r)
      | .kw .enum :: .kw .const :: r => (true, true, r)
      | .kw .enum :: r => (false, true, r)
      | r => (false, false, r)
    match pOne f r with
    | some (t, .comma :: r') =>
      match pTypeItems n f r' with
      | some (cs, es, tys, r'') => some (c :: cs, e :: es, t :: tys, r'')
      | none => none
    | some (t, r') => some ([c], [e], [t], r')
    | none => none

def pParents (name : Bytes) : Nat → List Tok → Option (List Bytes × List Tok)
  | 0, _ => none
  | n + 1, t :: r =>
    match fieldName t with
    | none => none
    | some p =>
      let keep := p != name
      match r with
      | .comma :: r' =>
        match pParents name n r' with
        | some (ps, r'') => some (if keep then p :: ps else ps, r'')
        | none => none
      | _ => some (if keep then [p] else [], r)
  | _, _ => none

def pReturnItems : Nat → Nat → List Tok → Option (List Ty × List Bool × List Tok)
  | 0, _, _ => none
  | n + 1, f, ts =>
    match pOne f ts with
    | none => none
    | some (t, r) =>
      let (o, r1) := match r with | .opt :: r' => (true, r') | _ => (false, r)
      match r1 with
      | .comma :: r2 =>
        match pReturnItems n f r2 with
        | some (tys, os, r3) => some (t :: tys, o :: os, r3)
        | none => none
      | _ => some ([t], [o], r1)

def pGenerics : Nat → List Tok → Option (List Bytes × List Bytes × List Tok)
  | 0, _ => none
  | n + 1, .ident g :: r =>
    let pr : Option (Bytes × List Tok) := match r with
      | .colon :: .ident p :: r' => some (p, r')
      | .colon :: _ => none
      | _ => some ([], r)
    match pr with
    | none => none
    | some (p, .comma :: r') =>
      match pGenerics n r' with
      | some (gs, ps, r'') => some (g :: gs, p :: ps, r'')
      | none => none
    | some (p, r') => some ([g], [p], r')
  | _, _ => none

/-- ParserLine on the text after "-@" -/
def parseLine (line : Bytes) : Option Stat :=
  let all := lexLine (line.length + 1) line
  let toks := all.map (·.1)
  let f := 2 * toks.length + 4
  match toks with
  | .kw .type :: r =>
    match pTypeItems (toks.length + 1) f r with
    | some (cs, es, tys, r') => some (.type cs es tys (remain all r'))
    | none => none
  | .kw .alias :: .ident n :: r =>
    match r with
    | [] => some (.alias n none [])
    | .at :: _ => some (.alias n none (remain all r))
    | _ =>
      match pOne f r with
      | some (t, r') => some (.alias n (some t) (remain all r'))
      | none => none
  | .kw .alias :: _ => none
  | .kw .class_ :: t :: r =>
    match fieldName t with
    | none => none
    | some n =>
      match r with
      | .colon :: r' =>
        match pParents n (toks.length + 1) r' with
        | some (ps, r'') => some (.class_ n ps (remain all r''))
        | none => none
      | _ => some (.class_ n [] (remain all r))
  | .kw .class_ :: [] => none
  | .kw .overload :: .kw .fun_ :: r =>
    match pFun f r with
    | some (t, r') => some (.overload t (remain all r'))
    | none => none
  | .kw .overload :: _ => none
  | .kw .field :: r =>
    let (scope, r1) : Nat × List Tok := match r with
      | .kw .public_ :: r' => (0, r') | .kw .protected_ :: r' => (1, r') | .kw .private_ :: r' => (2, r') | _ => (0, r)
    match r1 with
    | t :: r2 =>
      match fieldName t with
      | none => none
      | some n =>
        let (colon, r3) := match r2 with | .colon :: r' => (true, r') | _ => (false, r2)
        match pOne f r3 with
        | some (ty, r4) => some (.field scope n colon ty (remain all r4))
        | none => none
    | [] => none
  | .kw .param :: r =>
    let (c, r1) := match r with | .kw .const :: r' => (true, r') | _ => (false, r)
    match r1 with
    | t :: r2 =>
      match paramName t with
      | none => none
      | some n =>
        let (o, r3) := match r2 with | .opt :: r' => (true, r') | _ => (false, r2)
        match pOne f r3 with
        | some (ty, r4) => some (.param c n o ty (remain all r4))
        | none => none
    | [] => none
  | .kw .return_ :: r =>
    match pReturnItems (toks.length + 1) f r with
    | some (tys, os, r') => some (.return_ tys os (remain all r'))
    | none => none
  | .kw .generic :: r =>
    match pGenerics (toks.length + 1) r with
    | some (gs, ps, r') => some (.generic gs ps (remain all r'))
    | none => none
  | .kw .vararg :: r =>
    match pOne f r with
    | some (t, r') => some (.vararg t (remain all r'))
    | none => none
  | .kw .enum :: .ident w :: r =>
    if w == bytesOfString "start" then some (.enum 1 (remainRaw all r))
    else if w == bytesOfString "end" then some (.enum 2 (remainRaw all r))
    else some .notValid
  | .kw .enum :: r => some (.enum 0 (remain all r))
  | _ => some .notValid

end LuaHelper.Annot
