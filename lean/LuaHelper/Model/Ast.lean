/-
The one AST shared by M-parse, M-scope, M-pat, M-sym and S-bind (check/compiler/ast/*.go).
Core Lean only.
-/
import LuaHelper.Model.Lexer
namespace LuaHelper.Ast
open LuaHelper.Lex

mutual
inductive Exp where
  | noKey                                   -- nil key of a positional table field
  | nil (l : Loc) | tru (l : Loc) | fls (l : Loc) | vararg (l : Loc)
  | int (v : Int) (l : Loc)
  | flt (txt : Bytes) (l : Loc)             -- numeral text (the value is compared through it; [] = synthesised 0)
  | str (s : Bytes) (l : Loc)
  | unop (op : TK) (e : Exp) (l : Loc)
  | binop (op : TK) (a b : Exp) (l : Loc)
  | table (keys vals : List Exp) (l : Loc)
  | func (f : FuncBody)
  | name (n : Bytes) (l : Loc)
  | parens (e : Exp) (l : Loc)
  | index (p k : Exp) (l : Loc)
  | call (p : Exp) (meth : Option (Bytes × Loc)) (args : List Exp) (l : Loc)
  | bad (l : Loc)
inductive FuncBody where
  | mk (cls fn : Bytes) (params : List (Bytes × Loc)) (isVararg isColon : Bool) (body : Block) (l : Loc)
inductive Stat where
  | brk
  | label (n : Bytes) (l : Loc)
  | goto_ (n : Bytes) (l : Loc)
  | do_ (b : Block) (l : Loc)
  | while_ (c : Exp) (b : Block) (l : Loc)
  | repeat_ (b : Block) (c : Exp) (l : Loc)
  | if_ (conds : List Exp) (blocks : List Block) (hasElse : Bool) (l : Loc)   -- hasElse: the last cond is the `true` standing for a plain else
  | fornum (v : Bytes) (vl : Loc) (i lim step : Exp) (b : Block) (l : Loc)
  | forin (names : List (Bytes × Loc)) (exps : List Exp) (b : Block) (l : Loc)
  | assign (vars exps : List Exp) (l : Loc)
  | local_ (names : List (Bytes × Loc × Nat)) (exps : List Exp) (l : Loc)
  | localfn (n : Bytes) (nl : Loc) (f : FuncBody) (l : Loc)
  | callstat (e : Exp)
inductive Block where
  | mk (stats : List Stat) (ret : Option (List Exp)) (l : Loc)
end

instance : Inhabited Exp := ⟨.noKey⟩
instance : Inhabited Block := ⟨.mk [] none ⟨0, 0, 0, 0⟩⟩
instance : Inhabited FuncBody := ⟨.mk [] [] [] false false default ⟨0, 0, 0, 0⟩⟩
instance : Inhabited Stat := ⟨.brk⟩

def zeroLoc : Loc := ⟨0, 0, 0, 0⟩

/-- `GetExpLoc` -/
def expLoc : Exp → Loc
  | .nil l | .tru l | .fls l | .vararg l | .int _ l | .flt _ l | .str _ l | .unop _ _ l | .binop _ _ _ l
  | .table _ _ l | .name _ l | .parens _ l | .index _ _ l | .call _ _ _ l | .bad l => l
  | .func (.mk _ _ _ _ _ _ l) => l
  | .noKey => zeroLoc

def isInitialLoc (l : Loc) : Bool := l.sl == 0 && l.sc == 0 && l.el == 0 && l.ec == 0

end LuaHelper.Ast
