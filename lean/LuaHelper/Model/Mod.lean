/-
M-mod: how a require / dofile argument is mapped to a workspace file in the default ("fuzzy", no
luahelper.json) mode, following
  results/file_result.go CheckReferFile, common/dir_manager.go GetBestMatchReferFile + calcMatchStrScore,
  common/file_index_info.go (index by file name / by the part of the file name before its first '.'),
  check_lsp_define.go FindOpenFileDefine, stringutil GetOpenFileStr (the patterns tried for the string
  under the cursor).
Paths are lists of components; a file name is split at its FIRST '.' into `stem` and `rest`.
The score of a candidate is computed as the code does; candidates with the same best score are ALL
returned (the code picks one of them depending on map iteration order).
S-mod, the documented mapping (docs/manual/config.md: '.' or '/' separate directories, name.lua, then
name/init.lua), is `specCandidates`.  Core Lean only.
-/
namespace LuaHelper.Mod

structure File where
  dirs : List String       -- directories below the workspace root
  stem : String            -- file name up to its first '.'
  rest : String            -- the remainder of the file name ("" or starting with '.')
deriving DecidableEq, Repr, Inhabited

def File.name (f : File) : String := f.stem ++ f.rest

/-- does `l` end with `s`? -/
def endsWith (l s : List String) : Bool := s.length ≤ l.length && l.drop (l.length - s.length) == s

/-- indexed by stem: the file name contains a '.' -/
def indexedByStem (f : File) : Bool := f.rest != ""

/-- candidate test of GetBestMatchReferFile for a reference WITHOUT suffix (`require`):
    the path up to the first '.' of the file name ends with "/" ++ refer -/
def matchPre (root : List String) (rs : List String) (f : File) : Bool :=
  indexedByStem f && rs.getLast? == some f.stem && !rs.contains "" && endsWith (root ++ f.dirs ++ [f.stem]) rs

/-- candidate test for a reference WITH suffix (dofile, the patterns of go-to-definition, init.lua) -/
def matchSuf (root : List String) (rs : List String) (f : File) : Bool :=
  rs.getLast? == some f.name && !rs.contains "" && endsWith (root ++ f.dirs ++ [f.name]) rs

def commonPrefixLen : List String → List String → Nat
  | a :: as, b :: bs => if a == b then commonPrefixLen as bs + 1 else 0
  | _, _ => 0

/-- calcMatchStrScore: `pre` = the directories of the candidate in front of the matched reference -/
def score (root cur : List String) (rs : List String) (f : File) : Int :=
  let pre := (root ++ f.dirs).take ((root ++ f.dirs).length - (rs.length - 1))
  -- strings.Split("/" ++ join pre ++ "/", "/") = "" :: pre ++ [""]; the current file splits to "" :: root ++ cur
  let common := 1 + commonPrefixLen (pre ++ [""]) (root ++ cur)
  (-1000) * ((pre.length : Int) + 2) + 10 * (common : Int)

def maxScore (root cur rs : List String) : List File → Option Int
  | [] => none
  | f :: r =>
    match maxScore root cur rs r with
    | none => some (score root cur rs f)
    | some m => some (max m (score root cur rs f))

/-- the files GetBestMatchReferFile may return: the only candidate, or every candidate with the best score -/
def best (root cur rs : List String) (cands : List File) : List File :=
  match cands with
  | [] => []
  | [f] => [f]
  | _ =>
    match maxScore root cur rs cands with
    | some m => cands.filter fun f => score root cur rs f == m
    | none => []

/-- the path of a file below the workspace root (the candidates share the root, so this orders them as their
    absolute paths do) -/
def File.rel (f : File) : String := "/".intercalate (f.dirs ++ [f.name])

/-- the smaller of two files by path -/
def minPath (a b : File) : File := if b.rel < a.rel then b else a

/-- the candidate with the smallest path -/
def pickMin : List File → Option File
  | [] => none
  | f :: r => match pickMin r with
    | none => some f
    | some g => some (minPath f g)

/-- `GetBestMatchReferFile` after the sort: highest score, equal scores ordered by path -/
def choose (root cur rs : List String) (cands : List File) : Option File := pickMin (best root cur rs cands)

/-- CheckReferFile for `require(str)` (components of str after '.' → '/'): the files the analysis may
    load; `[]` = not found (type-6 diagnostic unless a .so exists at the workspace root) -/
def resolveRequire (files : List File) (root cur rs : List String) : List File :=
  match best root cur rs (files.filter (matchPre root rs)) with
  | [] => best root cur (rs ++ ["init.lua"]) (files.filter (matchSuf root (rs ++ ["init.lua"])))
  | r => r

/-- the file the analysis loads -/
def loadRequire (files : List File) (root cur rs : List String) : Option File :=
  match choose root cur rs (files.filter (matchPre root rs)) with
  | none => choose root cur (rs ++ ["init.lua"]) (files.filter (matchSuf root (rs ++ ["init.lua"])))
  | r => r

/-- go-to-definition / hover on the string: patterns name.lua, then name/init.lua -/
def withLua : List String → List String
  | [] => []
  | [x] => [x ++ ".lua"]
  | x :: r => x :: withLua r

def resolveDefine (files : List File) (root cur rs : List String) : List File :=
  match best root cur (withLua rs) (files.filter (matchSuf root (withLua rs))) with
  | [] => best root cur (rs ++ ["init.lua"]) (files.filter (matchSuf root (rs ++ ["init.lua"])))
  | r => r

/-- the file go-to-definition / hover on the string open -/
def loadDefine (files : List File) (root cur rs : List String) : Option File :=
  match choose root cur (withLua rs) (files.filter (matchSuf root (withLua rs))) with
  | none => choose root cur (rs ++ ["init.lua"]) (files.filter (matchSuf root (rs ++ ["init.lua"])))
  | r => r

/-! ### S-mod -/

/-- name.lua in a directory chain that ends with the module's directory components -/
def specLua (rs : List String) (f : File) : Bool :=
  f.rest == ".lua" && rs.getLast? == some f.stem && !rs.contains "" && endsWith (f.dirs ++ [f.stem]) rs

def specInit (rs : List String) (f : File) : Bool :=
  f.stem == "init" && f.rest == ".lua" && rs != [] && !rs.contains "" && endsWith f.dirs rs

def specCandidates (files : List File) (rs : List String) : List File :=
  match files.filter (specLua rs) with
  | [] => files.filter (specInit rs)
  | r => r

end LuaHelper.Mod
