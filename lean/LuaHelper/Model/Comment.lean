/-
Model of the comment map built by the lexer (`skipWhiteSpaces`, lexer.go:525-616) and of the lookup
`GetLineComment` (check_util.go:169-209).

One call of `skipWhiteSpaces` sees the comments of ONE gap between two tokens.  `prevEnd` is the line on
which the token before the gap ends (0 when there is none).  A comment is described by the line of its
leading `--`, the line on which it ends (the same line for a short comment), whether it is a short one,
and its text.  `go` emits the map insertions in the order the Go code performs them; `insertAll` replays
them into an association list in which a later insertion under the same key replaces the earlier one.
-/
import LuaHelper.Model.Lexer
namespace LuaHelper.Comment
open LuaHelper.Lex

structure CLine where
  line : Nat
  endLine : Nat
  short : Bool
  text : Bytes
deriving Repr, DecidableEq

structure CInfo where
  short : Bool
  head : Bool
  lines : List (Nat × Bytes)
deriving Repr, DecidableEq

/-- a comment that starts a new `CommentInfo` -/
def fresh (prevEnd : Nat) (c : CLine) : CInfo :=
  { short := c.short, head := !(prevEnd == c.line), lines := if c.short then [(c.endLine, c.text)] else [] }

/-- a comment appended to the current `CommentInfo` -/
def extend (ci : CInfo) (c : CLine) : CInfo :=
  if c.short then { ci with lines := ci.lines ++ [(c.endLine, c.text)] } else ci

/-- the test that closes the current block: kinds differ, both are long comments, or the new comment does
not end on the line directly after the last one -/
def breaks (ci : CInfo) (last : Nat) (c : CLine) : Bool :=
  (ci.short != c.short) || (!ci.short && !c.short) || (c.endLine != last + 1)

/-- the insertions of one gap, in order (`cur` = the `commentInfo` variable, `last` = `lastLine`) -/
def go (prevEnd : Nat) : Option CInfo → Nat → List CLine → List (Nat × CInfo)
  | none, _, [] => []
  | some ci, last, [] => [(last, ci)]
  | none, _, c :: cs =>
    if (fresh prevEnd c).head then go prevEnd (some (fresh prevEnd c)) c.endLine cs
    else (c.endLine, fresh prevEnd c) :: go prevEnd none c.endLine cs
  | some ci, last, c :: cs =>
    if breaks ci last c then (last, ci) :: go prevEnd (some (fresh prevEnd c)) c.endLine cs
    else go prevEnd (some (extend ci c)) c.endLine cs

def gap (prevEnd : Nat) (cs : List CLine) : List (Nat × CInfo) := go prevEnd none 0 cs

/-- the comment map as an association list, newest binding first -/
abbrev CMap := List (Nat × CInfo)

def insertAll (m : CMap) (ins : List (Nat × CInfo)) : CMap := ins.foldl (fun m e => e :: m) m

def find (m : CMap) (k : Nat) : Option CInfo := (m.find? fun e => e.1 == k).map (·.2)

/-- the comment map of a file: the gaps in source order -/
def fileMap (gaps : List (Nat × List CLine)) : CMap :=
  gaps.foldl (fun m g => insertAll m (gap g.1 g.2)) []

/-- the join loop of `getSpecialLineComment`: while the text so far is empty the next line replaces it -/
def joinLines (ls : List Bytes) : Bytes :=
  ls.foldl (fun acc l => if acc.isEmpty then l else acc ++ [10] ++ l) []

/-- `getSpecialLineComment` -/
def special (m : CMap) (line : Nat) (head : Bool) : Bytes :=
  match find m line with
  | none => []
  | some ci => if ci.head != head then [] else joinLines (ci.lines.map (·.2))

/-- `GetLineComment`: the trailing comment of the line, else the head block that ends on the line before -/
def lineComment (m : CMap) (line : Nat) : Bytes :=
  let t := special m line false
  if t.isEmpty then special m (line - 1) true else t

end LuaHelper.Comment
