/-
M-hov: the text path of hover documentation:
  codingconv.isUtf8 / preNUm / ConvertStrToUtf8 (GBK decoding opaque)  — `Lex.isUtf8`, `Lex.preNum`
  check/check_util.go getFinalStrComment (per-line clean-up)
Core Lean only.
-/
import LuaHelper.Model.Lexer
namespace LuaHelper.Hov
open LuaHelper.Lex

def dropPrefix (p : Bytes) (s : Bytes) : Bytes := if p.isPrefixOf s then s.drop p.length else s

/-- one line of `getFinalStrComment`: TrimPrefix "-*", "*", "-", then TrimLeft " " -/
def cleanLine (s : Bytes) : Bytes :=
  let s := dropPrefix [45, 42] s
  let s := dropPrefix [42] s
  let s := dropPrefix [45] s
  s.dropWhile (· == 32)

def splitLines : Bytes → List Bytes
  | [] => [[]]
  | 10 :: r => [] :: splitLines r
  | c :: r => match splitLines r with
    | l :: ls => (c :: l) :: ls
    | [] => [[c]]

def joinLines : List Bytes → Bytes
  | [] => []
  | [l] => l
  | l :: r => l ++ [10] ++ joinLines r

/-- `getFinalStrComment` (beforeEmptyLine = false): clean every line; a last line that is empty after
    cleaning is dropped -/
def finalComment (s : Bytes) : Bytes :=
  if s.isEmpty then s else
  let ls := (splitLines s).map cleanLine
  let ls := match ls.getLast? with
    | some [] => ls.dropLast
    | _ => ls
  joinLines ls

/-- `ConvertStrToUtf8`: identity when `isUtf8`; otherwise the GBK decoder's output (opaque) -/
def convert (gbk : Bytes → Bytes) (s : Bytes) : Bytes :=
  if s.isEmpty then s else if isUtf8 s then s else gbk s

end LuaHelper.Hov
