/-
M-text: executable model of
  luahelper-lsp/langserver/lspcommon/file_cache.go  offsetForStartAndEnd, ApplyContentChanges
  luahelper-lsp/langserver/lspcommon/util.go        OffsetForPosition
  luahelper-lsp/langserver/textdocument_file_request.go  (cache effect of open/change/save/close)
written branch by branch after the Go code (after the repair that made the position mapping follow LSP).  Core Lean only.
-/
namespace LuaHelper.Text

abbrev Bytes := List UInt8

structure Pos where
  line : Nat
  ch   : Nat
deriving Repr, DecidableEq, Inhabited

/-- Go: `getCharBytes` — number of leading one bits of the byte (0 … 8). -/
def leadOnes (b : UInt8) : Nat :=
  if b < 0x80 then 0 else if b < 0xC0 then 1 else if b < 0xE0 then 2 else if b < 0xF0 then 3
  else if b < 0xF8 then 4 else if b < 0xFC then 5 else if b < 0xFE then 6 else if b < 0xFF then 7 else 8

/-- bytes consumed by one loop iteration that starts on byte `c` -/
def stepLen (c : UInt8) : Nat := if c > 127 then leadOnes c else 1

theorem stepLen_pos (c : UInt8) : 0 < stepLen c := by
  unfold stepLen leadOnes
  by_cases h : c > 127
  · have : ¬ c < 0x80 := by
      simp only [UInt8.lt_iff_toNat_lt, gt_iff_lt] at *; simp at *; omega
    simp only [h, this, if_true, if_false]
    repeat (first | omega | split)
  · simp [h]

inductive OffRes where
  | ok (s e : Nat)
  | err
deriving Repr, DecidableEq, Inhabited

/-- first loop of `OffsetForPosition`: skip `l` lines (a line ends with LF, CR LF or CR); `none` = the
    document has fewer lines.  Returns the rest of the document and the bytes consumed. -/
def skipLines : Bytes → Nat → Nat → Option (Bytes × Nat)
  | r, 0, off => some (r, off)
  | [], _ + 1, _ => none
  | c :: r, l + 1, off =>
    if c = 10 then skipLines r l (off + 1)
    else if c = 13 then
      if r.head? = some 10 then skipLines r.tail l (off + 2) else skipLines r l (off + 1)
    else skipLines r (l + 1) (off + 1)
termination_by r => r.length
decreasing_by all_goals (first | (simp [List.length_tail]; done) | (simp [List.length_tail]; omega) | omega)

/-- UTF-16 code units of the character that starts with byte `c` -/
def unitsOf (c : UInt8) : Nat := if c > 127 ∧ leadOnes c = 4 then 2 else 1

/-- second loop: walk `rem` UTF-16 units along the line; stops at a line end, at the end of the document
    and before a character that needs more units than are left (inside a surrogate pair) -/
def walk : Bytes → Nat → Nat → Nat
  | [], _, off => off
  | _ :: _, 0, off => off
  | c :: tl, rem + 1, off =>
    if c = 10 ∨ c = 13 then off
    else if rem + 1 < unitsOf c then off
    else walk (tl.drop (stepLen c - 1)) (rem + 1 - unitsOf c) (off + stepLen c)
termination_by r => r.length
decreasing_by all_goals (first | (simp [List.length_drop]; done) | (simp [List.length_drop]; omega) | omega)

/-- `OffsetForPosition` (lspcommon/util.go) -/
def offsetForPosition (doc : Bytes) (p : Pos) : Option Nat :=
  match skipLines doc p.line 0 with
  | none => none
  | some (r, off) => some (min (walk r p.ch off) doc.length)

/-- `offsetForStartAndEnd` (file_cache.go): both ends through `OffsetForPosition`, end before start is an error -/
def offsetForStartAndEnd (doc : Bytes) (sp ep : Pos) : OffRes :=
  match offsetForPosition doc sp, offsetForPosition doc ep with
  | some s, some e => if e < s then .err else .ok s e
  | _, _ => .err

/-- One content change.  `range = none` ⇒ full replacement (the Go test `Range == nil &&
    RangeLength == 0`; conformant clients never send a rangeLength without a range). -/
structure Change where
  range : Option (Pos × Pos)
  text  : Bytes
deriving Repr, DecidableEq, Inhabited

/-- `ApplyContentChanges`: `none` = the Go function returned an error. -/
def applyChanges (doc : Bytes) : List Change → Option Bytes
  | [] => some doc
  | ch :: more =>
    match ch.range with
    | none => applyChanges ch.text more
    | some (sp, ep) =>
      match offsetForStartAndEnd doc sp ep with
      | .err => none
      | .ok s e =>
        if e > doc.length ∨ e < s then none
        else applyChanges (doc.take s ++ ch.text ++ doc.drop e) more

/-! ### document cache under the four notifications -/

inductive Op where
  | opn (uri : Nat) (text : Bytes)
  | chg (uri : Nat) (changes : List Change)
  | sav (uri : Nat) (text : Bytes)
  | cls (uri : Nat)
deriving Repr, DecidableEq, Inhabited

/-- cache: association list uri ↦ bytes (latest binding first) -/
abbrev Cache := List (Nat × Bytes)

def Cache.get (c : Cache) (u : Nat) : Option Bytes := (c.find? (·.1 == u)).map (·.2)
def Cache.set (c : Cache) (u : Nat) (b : Bytes) : Cache := (u, b) :: c.filter (·.1 != u)
def Cache.del (c : Cache) (u : Nat) : Cache := c.filter (·.1 != u)

/-- cache effect of the handlers in textdocument_file_request.go -/
def step (c : Cache) : Op → Cache
  | .opn u t => c.set u t
  | .chg u chs =>
    match c.get u with
    | none => c                                -- "ApplyContentChanges get strFile error": ignored
    | some doc =>
      match applyChanges doc chs with
      | none => c                              -- error is logged, old text kept
      | some d => c.set u d
  | .sav u t => c.set u t
  | .cls u => c.del u

def run (ops : List Op) : Cache := ops.foldl step []

end LuaHelper.Text
