/-
M-text: executable model of
  luahelper-lsp/langserver/lspcommon/file_cache.go  offsetForStartAndEnd, ApplyContentChanges
  luahelper-lsp/langserver/lspcommon/util.go        OffsetForPosition
  luahelper-lsp/langserver/textdocument_file_request.go  (cache effect of open/change/save/close)
written branch by branch after the Go code (quirks included).  Core Lean only.
-/
namespace LuaHelper.Text

abbrev Bytes := List UInt8

structure Pos where
  line : Nat
  ch   : Nat
deriving Repr, DecidableEq, Inhabited

/-- Go: `getCharBytes` — number of leading one bits of the byte (0 … 8). -/
def leadOnes (b : UInt8) : Nat :=
  if b < 0x80 then 0 else if b < 0xC0 then 1 else if b < 0xE0 then 2 else if b < 0xF0 then 3
  else if b < 0xF8 then 4 else if b < 0xFC then 5 else if b < 0xFE then 6 else if b < 0xFF then 7 else 8

/-- bytes consumed by one loop iteration that starts on byte `c` -/
def stepLen (c : UInt8) : Nat := if c > 127 then leadOnes c else 1

theorem stepLen_pos (c : UInt8) : 0 < stepLen c := by
  unfold stepLen leadOnes
  by_cases h : c > 127
  · have : ¬ c < 0x80 := by
      simp only [UInt8.lt_iff_toNat_lt, gt_iff_lt] at *; simp at *; omega
    simp only [h, this, if_true, if_false]
    repeat (first | omega | split)
  · simp [h]

inductive OffRes where
  | ok (s e : Nat)
  | err
deriving Repr, DecidableEq, Inhabited

/-- After the loop of `offsetForStartAndEnd` (no more bytes). -/
def finish (sp ep : Pos) (line col off : Nat) (start : Option Nat) : OffRes :=
  match start with
  | some s => if line = ep.line ∧ col = ep.ch then .ok s off else .err
  | none =>
    if line = sp.line ∧ col = sp.ch ∧ line = ep.line ∧ col = ep.ch then .ok off off else .err

/-- The loop of `offsetForStartAndEnd`.  `rest` is `contents[index:]`; `off` = `index` = `offset`
    (the Go code keeps them equal); `start` = `some startOffset` iff `startFlag`. -/
def scan (sp ep : Pos) (rest : Bytes) (line col off : Nat) (start : Option Nat) : OffRes :=
  match rest with
  | [] => finish sp ep line col off start
  | c :: tl =>
    -- first `if !startFlag`
    let start1 : Option Nat :=
      match start with
      | some s => some s
      | none => if line = sp.line ∧ col = sp.ch then some off else none
    match start1 with
    | none =>
      if (line = sp.line ∧ col > sp.ch) ∨ line > sp.line then .err
      else
        let n := stepLen c
        if c = 10 then scan sp ep (tl.drop (n - 1)) (line + 1) 0 (off + n) none
        else scan sp ep (tl.drop (n - 1)) line (col + 1) (off + n) none
    | some s =>
      if line = ep.line ∧ col = ep.ch then .ok s off
      else if (line = ep.line ∧ col > ep.ch) ∨ line > ep.line then .err
      else
        let n := stepLen c
        if c = 10 then scan sp ep (tl.drop (n - 1)) (line + 1) 0 (off + n) (some s)
        else scan sp ep (tl.drop (n - 1)) line (col + 1) (off + n) (some s)
termination_by rest.length
decreasing_by all_goals (simp [List.length_drop]; omega)

def offsetForStartAndEnd (doc : Bytes) (sp ep : Pos) : OffRes := scan sp ep doc 0 0 0 none

/-- `OffsetForPosition` (lspcommon/util.go): same scan with one position. -/
def scan1 (p : Pos) (rest : Bytes) (line col off : Nat) : Option Nat :=
  match rest with
  | [] => if line = p.line ∧ col = p.ch then some off else none
  | c :: tl =>
    if line = p.line ∧ col = p.ch then some off
    else if (line = p.line ∧ col > p.ch) ∨ line > p.line then none
    else
      let n := stepLen c
      if c = 10 then scan1 p (tl.drop (n - 1)) (line + 1) 0 (off + n)
      else scan1 p (tl.drop (n - 1)) line (col + 1) (off + n)
termination_by rest.length
decreasing_by all_goals (simp [List.length_drop]; omega)

def offsetForPosition (doc : Bytes) (p : Pos) : Option Nat := scan1 p doc 0 0 0

/-- One content change.  `range = none` ⇒ full replacement (the Go test `Range == nil &&
    RangeLength == 0`; conformant clients never send a rangeLength without a range). -/
structure Change where
  range : Option (Pos × Pos)
  text  : Bytes
deriving Repr, DecidableEq, Inhabited

/-- `ApplyContentChanges`: `none` = the Go function returned an error. -/
def applyChanges (doc : Bytes) : List Change → Option Bytes
  | [] => some doc
  | ch :: more =>
    match ch.range with
    | none => applyChanges ch.text more
    | some (sp, ep) =>
      match offsetForStartAndEnd doc sp ep with
      | .err => none
      | .ok s e =>
        if e > doc.length ∨ e < s then none
        else applyChanges (doc.take s ++ ch.text ++ doc.drop e) more

/-! ### document cache under the four notifications -/

inductive Op where
  | opn (uri : Nat) (text : Bytes)
  | chg (uri : Nat) (changes : List Change)
  | sav (uri : Nat) (text : Bytes)
  | cls (uri : Nat)
deriving Repr, DecidableEq, Inhabited

/-- cache: association list uri ↦ bytes (latest binding first) -/
abbrev Cache := List (Nat × Bytes)

def Cache.get (c : Cache) (u : Nat) : Option Bytes := (c.find? (·.1 == u)).map (·.2)
def Cache.set (c : Cache) (u : Nat) (b : Bytes) : Cache := (u, b) :: c.filter (·.1 != u)
def Cache.del (c : Cache) (u : Nat) : Cache := c.filter (·.1 != u)

/-- cache effect of the handlers in textdocument_file_request.go -/
def step (c : Cache) : Op → Cache
  | .opn u t => c.set u t
  | .chg u chs =>
    match c.get u with
    | none => c                                -- "ApplyContentChanges get strFile error": ignored
    | some doc =>
      match applyChanges doc chs with
      | none => c                              -- error is logged, old text kept
      | some d => c.set u d
  | .sav u t => c.set u t
  | .cls u => c.del u

def run (ops : List Op) : Cache := ops.foldl step []

end LuaHelper.Text
