/-
Model of the worker-pool dispatch used by the five parallel passes (first-phase analysis, second-phase
projects, third-phase files, cross-file references, workspace symbols):

    corNum := NumCPU + 2;  if N < corNum { corNum = N }
    for i := 0; i < corNum; i++ { send job i }
    for recvNum := 0; recvNum < N; { receive one result;
        if recvNum+corNum < N { send job recvNum+corNum } else { stop that worker };  recvNum++ }

Which worker answers is decided by the scheduler, but the index of the job sent next depends on the
number of results received only, so the set of dispatched jobs is schedule-independent.
-/
namespace LuaHelper.Pool

def clamp (n workers : Nat) : Nat := if n < workers then n else workers

def initial (cor : Nat) : List Nat := List.range cor

/-- the job sent after the r-th result (r = 0, 1, …) -/
def refill (n cor r : Nat) : Option Nat := if r + cor < n then some (r + cor) else none

/-- every job index sent during the whole loop, in sending order -/
def dispatched (n cor : Nat) : List Nat := initial cor ++ (List.range n).filterMap (refill n cor)

end LuaHelper.Pool
