/-
M-merge: how the workspace-wide table of globals chooses among several files that define the same
global (check_third_file.go generateAllGlobalMaps + results/third_result.go
JudgeShouldInsertGlobalInfo / InsertThirdGlobalGMaps / FindThirdGlobalGInfo).
Files are visited in the order of their names (sort.Strings over the keys of the file map; before the
repair: in Go map-iteration order); a candidate is appended to the name's list unless an already listed
candidate of ANOTHER file has a smaller function level, or a smaller scope level, or a line number that is
not larger; look-ups take the LAST listed candidate.
Core Lean only.
-/
namespace LuaHelper.Merge

structure Cand where
  file : String
  funcLv : Nat
  scopeLv : Nat
  line : Nat
deriving DecidableEq, Repr, Inhabited

/-- `existing` blocks `v` (JudgeShouldInsertGlobalInfo returns false because of it) -/
def blocks (existing v : Cand) : Bool :=
  existing.file != v.file && (existing.funcLv < v.funcLv || existing.scopeLv < v.scopeLv || existing.line ≤ v.line)

def accept (vec : List Cand) (v : Cand) : Bool := vec.all fun e => !blocks e v

def addCand (vec : List Cand) (v : Cand) : List Cand := if accept vec v then vec ++ [v] else vec

/-- the candidates of one global name, in the order the files are visited -/
def run (order : List Cand) : List Cand := order.foldl addCand []

/-- FindThirdGlobalGInfo: the definition every other file is linked to -/
def winner (order : List Cand) : Option Cand := (run order).getLast?

/-- `m` dominates `x`: at most x's function level and scope level, strictly smaller line -/
def dominates (m x : Cand) : Prop := m.funcLv ≤ x.funcLv ∧ m.scopeLv ≤ x.scopeLv ∧ m.line < x.line

/-- executable test of `dominates` -/
def dominatesB (m x : Cand) : Bool := m.funcLv ≤ x.funcLv && m.scopeLv ≤ x.scopeLv && m.line < x.line

/-- the candidate that dominates all others, if there is one -/
def dominantOf (l : List Cand) : Option Cand := l.find? fun m => l.all fun x => x == m || dominatesB m x

/-- the visiting order: the files sorted by name -/
def byFile (a b : Cand) : Bool := decide (a.file ≤ b.file)

def sortedVisit (cands : List Cand) : List Cand := cands.mergeSort byFile

/-- the definition every file is linked to: the winner of the sorted visit -/
def winnerSorted (cands : List Cand) : Option Cand := winner (sortedVisit cands)

end LuaHelper.Merge
