/-
M-conf: model of the configuration → "is this diagnostic recorded?" decision:
  check/common/global_conf.go  handleNotJSONCheckFlag (client flags), the ignore part of ReadConfig
                               (luahelper.json), IsIgnoreErrorFile, IsSpecialCheck
  check/results/file_result.go InsertRelateError (the choke point)
Regular-expression matching is an opaque parameter `rx pattern file`.  Core Lean only.
-/
namespace LuaHelper.Conf

/-- number of error types: CheckErrorSyntax = 1 … CheckErrorMax = 30 (exclusive) -/
def errMax : Nat := 30

structure Conf where
  showWarn : Bool
  ignoreTypes : List Nat                    -- keys of IgnoreErrorTypeMap
  errDirs : List String                     -- IgnoreErrorFloderVec
  errFiles : List String                    -- IgnoreErrorFileVec
  fileTypeRules : List (String × List Nat)  -- IgnoreFileErrTypesMap
deriving Repr, DecidableEq

def Conf.default : Conf := { showWarn := true, ignoreTypes := [], errDirs := [], errFiles := [], fileTypeRules := [] }

def isLuaSuffix (s : String) : Bool := s.endsWith ".lua"

/-- `handleNotJSONCheckFlag`: client flags (positional) + IgnoreFileOrDirError patterns -/
def fromFlags (prev : Conf) (flags : List Bool) (ignoreErr : List String) : Conf :=
  let dirs := ignoreErr.filter (fun p => !isLuaSuffix p) ++ ["server/meta"]
  let files := ignoreErr.filter isLuaSuffix
  let base := { prev with errDirs := dirs, errFiles := files }
  match flags with
  | [] => base                                                   -- listLen < 1: nothing else changes
  | master :: _ =>
    if !master then
      { base with showWarn := false, ignoreTypes := prev.ignoreTypes ++ (List.range errMax).filter (· ≥ 1) }
    else
      { base with showWarn := true,
                  ignoreTypes := (List.range errMax).filter fun i =>
                    i ≥ 1 && (i > flags.length - 1 || !(flags.getD i true)) }

/-- ignore part of the luahelper.json branch of `ReadConfig` -/
def fromJson (showWarnFlag : Nat) (ignoreErrorTypes : List Nat) (ignoreFileErr : List String)
    (ignoreFileErrTypes : List (String × List Nat)) : Conf :=
  { showWarn := showWarnFlag == 1,
    ignoreTypes := ignoreErrorTypes,
    errDirs := ignoreFileErr.filter (fun p => !isLuaSuffix p) ++ ["server/meta"],
    errFiles := ignoreFileErr.filter isLuaSuffix,
    fileTypeRules := ignoreFileErrTypes }

/-- substring test (`strings.Contains`) -/
def contains (s pat : String) : Bool := (s.splitOn pat).length > 1 || pat.isEmpty

def patMatch (rx : String → String → Bool) (file pat : String) : Bool := contains file pat || rx pat file

/-- `IsIgnoreErrorFile` -/
def isIgnored (c : Conf) (rx : String → String → Bool) (file : String) (ty : Nat) : Bool :=
  !c.showWarn || c.ignoreTypes.contains ty ||
  c.errDirs.any (patMatch rx file) || c.errFiles.any (patMatch rx file) ||
  c.fileTypeRules.any (fun r => patMatch rx file r.1 && r.2.contains ty)

/-- a candidate diagnostic reaching `InsertRelateError` -/
structure Cand where
  file : String
  ty : Nat
  tag : Nat          -- identity (position/message) — opaque
deriving Repr, DecidableEq

/-- the choke point: what `CheckErrVec` holds after the candidates were offered in order -/
def recorded (c : Conf) (rx : String → String → Bool) (cands : List Cand) : List Cand :=
  cands.filter fun e => !isIgnored c rx e.file e.ty

/-- `IsSpecialCheck`: the cross-file pass runs iff warnings are shown and at least one of the
    listed types is not ignored -/
def isSpecialCheck (c : Conf) (special : List Nat) : Bool :=
  c.showWarn && special.any fun t => !c.ignoreTypes.contains t

end LuaHelper.Conf
