import LuaHelper.Model.Mod
import LuaHelper.Driver.Proto
namespace LuaHelper.ModOps
open LuaHelper.Proto LuaHelper.Mod

def strOfHex (h : String) : Option String :=
  (hexToBytes h).map fun bs => String.ofList (bs.map fun b => Char.ofNat b.toNat)

def splitFirstDot (name : String) : String × String :=
  match name.splitOn "." with
  | [] => ("", "")
  | [s] => (s, "")
  | s :: r => (s, "." ++ ".".intercalate r)

def fileOfPath (p : String) : File :=
  let cs := p.splitOn "/"
  let name := cs.getLast?.getD ""
  let (stem, rest) := splitFirstDot name
  { dirs := cs.dropLast, stem := stem, rest := rest }

def pathOfFile (f : File) : String := "/".intercalate (f.dirs ++ [f.name])

def comps (root : String) : List String := (root.splitOn "/").filter (· ≠ "")

/-- `modres <roothex> <curhex> <modhex> <filehex>…` →
    "A=<analysis candidates> D=<definition candidates> S=<spec candidates>" (paths joined by '|') -/
def handle (cmd : String) (args : List String) : Option String :=
  match cmd, args with
  | "modres", rh :: ch :: mh :: fhs =>
    match strOfHex rh, strOfHex ch, strOfHex mh with
    | some root, some cur, some m =>
      let files := (fhs.filterMap strOfHex).map fileOfPath
      let rootc := comps root
      let curc := cur.splitOn "/"
      let rs := (m.replace "." "/").splitOn "/"
      let show_ (l : List File) := "|".intercalate (l.map pathOfFile)
      some s!"A={show_ (loadRequire files rootc curc rs).toList} D={show_ (loadDefine files rootc curc rs).toList} S={show_ (specCandidates files rs)}"
    | _, _, _ => some "bad-op"
  -- `modbest <roothex> <curhex> <referhex> <filehex>…` → what GetBestMatchReferFile may return
  | "modbest", rh :: ch :: mh :: fhs =>
    match strOfHex rh, strOfHex ch, strOfHex mh with
    | some root, some cur, some refer =>
      let files := (fhs.filterMap strOfHex).map fileOfPath
      let rootc := comps root
      let curc := cur.splitOn "/"
      let rs := refer.splitOn "/"
      let cands := if refer.contains '.' then files.filter (matchSuf rootc rs) else files.filter (matchPre rootc rs)
      some ("B=" ++ "|".intercalate ((choose rootc curc rs cands).toList.map pathOfFile))
    | _, _, _ => some "bad-op"
  | _, _ => none
end LuaHelper.ModOps
