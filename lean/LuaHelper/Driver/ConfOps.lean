/- Driver operations for M-conf / S-conf (C17). -/
import LuaHelper.Model.Conf
import LuaHelper.Spec.Conf
import LuaHelper.Gen.Flags
import LuaHelper.Driver.Proto
namespace LuaHelper.ConfOps
open LuaHelper.Conf LuaHelper.ConfSpec LuaHelper.Proto

def bits (s : String) : List Bool := s.toList.map (· == '1')

def strOfHex (h : String) : String :=
  match hexToBytes h with
  | some bs => (String.fromUTF8? ⟨bs.toArray⟩).getD ""
  | none => ""

/-- patterns: `hex:rxbit` joined by ',' ("-" = none); rxbit = whether Go's regexp matched the file -/
def parsePats (s : String) : List (String × Bool) :=
  if s == "-" then [] else
  (splitOn s ',').map fun it =>
    match splitOn it ':' with
    | [h, b] => (strOfHex h, b == "1")
    | _ => ("", false)

def b2s (b : Bool) : String := if b then "1" else "0"

/-- `conf <flags>[/<flags>…] <pats> <filehex> <ty>`: the flag vectors are applied in sequence
    (HandleChangeCheckList called repeatedly); the decision is taken under the last. -/
def handle (cmd : String) (args : List String) : Option String :=
  match cmd, args with
  | "conf", [fl, pats, fileh, ty] =>
    match ty.toNat? with
    | none => some "bad-op"
    | some ty =>
      let pl := parsePats pats
      let file := strOfHex fileh
      let rx : String → String → Bool := fun p _ => (pl.find? (·.1 == p)).map (·.2) |>.getD (p == "server/meta" && contains file "server/meta")
      let vecs := (splitOn fl '/').map bits
      let conf := vecs.foldl (fun c v => fromFlags c v (pl.map (·.1))) Conf.default
      let last := vecs.getLast?.getD []
      let names := Gen.initFlagFields
      let s : Settings := { val := fun f => match names.idxOf? f with
                                            | some i => last.getD i false
                                            | none => false,
                            ignoreErr := pl.map (·.1) }
      some s!"M ign={b2s (isIgnored conf rx file ty)} special={b2s (isSpecialCheck conf ConfSpec.specialTypes)} S shown={b2s (shown s rx file ty)} specialOff={b2s (specialOff s)}"
  | "confrules", [rules, fileh, ty] =>
    -- `confrules <hexfile:rxbit=t.t.t;…> <filehex> <ty>`: is (file, ty) silenced by the per-file type rules
    -- of luahelper.json (IgnoreFileErrTypes) under the model (`fromJson` + `isIgnored`, everything else on)?
    match ty.toNat? with
    | none => some "bad-op"
    | some ty =>
      let file := strOfHex fileh
      let rl : List (String × Bool × List Nat) := if rules == "-" then [] else
        (splitOn rules ';').map fun it =>
          match splitOn it '=' with
          | [fb, ts] =>
            (match splitOn fb ':' with
             | [h, b] => (strOfHex h, b == "1", (splitOn ts '.').filterMap String.toNat?)
             | _ => ("", false, []))
          | _ => ("", false, [])
      let rx : String → String → Bool := fun p _ => (rl.find? (·.1 == p)).map (·.2.1) |>.getD false
      let conf := fromJson 1 [] [] (rl.map fun r => (r.1, r.2.2))
      let conf := { conf with errDirs := [] }
      some s!"R ign={b2s (isIgnored conf rx file ty)}"
  | _, _ => none

end LuaHelper.ConfOps
