import LuaHelper.Model.Merge
namespace LuaHelper.MergeOps
open LuaHelper.Merge

def parseCand (s : String) : Cand :=
  match s.splitOn ":" with
  | [f, a, b, c] => { file := f, funcLv := a.toNat!, scopeLv := b.toNat!, line := c.toNat! }
  | _ => { file := s, funcLv := 0, scopeLv := 0, line := 0 }

/-- `merge <file:funcLv:scopeLv:line;…>` (in any order) → "W=<winner file of that visiting order> S=<winner file of the sorted visit> D=<dominating file or ->" -/
def handle (cmd : String) (args : List String) : Option String :=
  match cmd, args with
  | "merge", [cs] =>
    let l := ((cs.splitOn ";").filter (· ≠ "")).map parseCand
    let w := (winner l).map (·.file) |>.getD "-"
    let d := (dominantOf l).map (·.file) |>.getD "-"
    let sw := (winnerSorted l).map (·.file) |>.getD "-"
    some s!"W={w} S={sw} D={d}"
  | _, _ => none
end LuaHelper.MergeOps
