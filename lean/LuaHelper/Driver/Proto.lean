/- Line protocol helpers for the model driver (core Lean only). -/
namespace LuaHelper.Proto

def hexDigit (n : Nat) : Char :=
  if n < 10 then Char.ofNat (48 + n) else Char.ofNat (87 + n)

def bytesToHex (bs : List UInt8) : String :=
  if bs.isEmpty then "-" else
  String.ofList (bs.flatMap fun b => [hexDigit (b.toNat / 16), hexDigit (b.toNat % 16)])

def hexVal (c : Char) : Option Nat :=
  if '0' ≤ c ∧ c ≤ '9' then some (c.toNat - 48)
  else if 'a' ≤ c ∧ c ≤ 'f' then some (c.toNat - 87)
  else if 'A' ≤ c ∧ c ≤ 'F' then some (c.toNat - 55)
  else none

def hexToBytesAux : List Char → List UInt8 → Option (List UInt8)
  | [], acc => some acc.reverse
  | [_], _ => none
  | a :: b :: r, acc =>
    match hexVal a, hexVal b with
    | some x, some y => hexToBytesAux r (UInt8.ofNat (x * 16 + y) :: acc)
    | _, _ => none

/-- "-" is the empty byte string -/
def hexToBytes (s : String) : Option (List UInt8) :=
  if s == "-" then some [] else hexToBytesAux s.toList []

def splitOn (s : String) (sep : Char) : List String :=
  (s.splitOn (String.singleton sep))

end LuaHelper.Proto
