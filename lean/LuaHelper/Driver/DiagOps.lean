import LuaHelper.Model.Diag
namespace LuaHelper.DiagOps
open LuaHelper.Diag

def splitNE (s sep : String) : List String := (s.splitOn sep).filter (· ≠ "")

/-- err = ty:key:extra (key / extra are opaque tokens without separators) -/
def parseErr (s : String) : Err :=
  match s.splitOn ":" with
  | [t, k, x] => { ty := t.toNat!, key := k, extra := x }
  | [t, k] => { ty := t.toNat!, key := k }
  | _ => { ty := 0, key := s }

def parseErrs (s : String) : List Err := if s == "-" then [] else (splitNE s ",").map parseErr

/-- map = file=err,err;file=err  ("-" = empty) -/
def parseMap (s : String) : EMap :=
  if s == "-" then [] else (splitNE s ";").map fun d =>
    match d.splitOn "=" with
    | [f, es] => (f, parseErrs es)
    | [f] => (f, [])
    | _ => ("", [])

def step (s : St) (ev : String) : St :=
  match ev.splitOn "~" with
  | ["O", f, m] => evOpen s f (parseMap m)
  | ["OE", f, m, es] => evOpenWith s f (parseMap m) (some (parseErrs es))
  | ["C", f, es] => evChange s f (parseErrs es)
  | ["W", fs, m] => evWatched s (splitNE fs ",") (parseMap m)
  | ["S", f, m] => evSave s f (parseMap m)
  | ["X", f, d] => evClose s f (d == "1")
  | ["I", m] => -- initialize: GetAllDiagnostics publishes every list of the first analysis
    evInit (parseMap m)
  | _ => s

def showErr (e : Err) : String := s!"{e.ty}:{e.key}:{e.extra}"

/-- `diag <file,file,…> <event>|<event>|…` → the client view of the listed files after the history -/
def handle (cmd : String) (args : List String) : Option String :=
  match cmd, args with
  | "diag", [fs, evs] =>
    let s := (splitNE evs "|").foldl step {}
    let files := splitNE fs ","
    some ("V=" ++ ";".intercalate (files.map fun f => f ++ "=" ++ ",".intercalate ((s.client f).map showErr)))
  | _, _ => none
end LuaHelper.DiagOps
