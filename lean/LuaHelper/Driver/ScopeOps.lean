/- Driver operations for M-scope / S-bind (C05, C06, C07, C11, C12, C14). -/
import LuaHelper.Model.Parser
import LuaHelper.Model.Scope
import LuaHelper.Spec.Bind
import LuaHelper.Driver.Proto
import LuaHelper.Driver.LexOps
namespace LuaHelper.ScopeOps
open LuaHelper.Lex LuaHelper.Ast LuaHelper.Parse LuaHelper.Proto LuaHelper.Scope LuaHelper.Bind

def L (l : Loc) : String := s!"{l.sl}:{l.sc}:{l.el}:{l.ec}"

def showDecl : Option Loc → String
  | some l => L l
  | none => "G"

def showVar : Option Var → String
  | some v => L v.loc
  | none => "-"

-- Locs of all function bodies of a chunk (for the function level of an occurrence)
mutual
def fnLocsE : Exp → List Loc
  | .unop _ e _ => fnLocsE e
  | .binop _ a b _ => fnLocsE a ++ fnLocsE b
  | .table ks vs _ => ks.flatMap fnLocsE ++ vs.flatMap fnLocsE
  | .func (.mk _ _ _ _ _ body l) => l :: fnLocsB body
  | .parens e _ => fnLocsE e
  | .index p k _ => fnLocsE p ++ fnLocsE k
  | .call p _ a _ => fnLocsE p ++ a.flatMap fnLocsE
  | _ => []
def fnLocsB : Block → List Loc
  | .mk ss ret _ => ss.flatMap fnLocsS ++ (match ret with | some es => es.flatMap fnLocsE | none => [])
def fnLocsS : Stat → List Loc
  | .do_ b _ => fnLocsB b
  | .while_ c b _ => fnLocsE c ++ fnLocsB b
  | .repeat_ b c _ => fnLocsB b ++ fnLocsE c
  | .if_ cs bs _ _ => cs.flatMap fnLocsE ++ bs.flatMap fnLocsB
  | .fornum _ _ i l s b _ => fnLocsE i ++ fnLocsE l ++ fnLocsE s ++ fnLocsB b
  | .forin _ es b _ => es.flatMap fnLocsE ++ fnLocsB b
  | .assign vs es _ => vs.flatMap fnLocsE ++ es.flatMap fnLocsE
  | .local_ _ es _ => es.flatMap fnLocsE
  | .localfn _ _ (.mk _ _ _ _ _ body l) _ => l :: fnLocsB body
  | .callstat e => fnLocsE e
  | _ => []
end

def allVars : Tree → List Var
  | .mk _ vs subs => vs ++ subs.flatMap allVars

/-- `scope <srchex> <conv>`: one item per identifier occurrence:
    namehex@loc,<D|W|U>,S=<decl|G>,Ms=<decl|->,Me=<decl|->   (S = S-bind, Ms/Me = the position-based
    model with the cursor on the first character / just after the last character) -/
def handle (cmd : String) (args : List String) : Option String :=
  match cmd, args with
  | "scope", [h, conv] =>
    match hexToBytes h with
    | none => some "bad-op"
    | some src =>
      let r := parseChunk src (LexOps.parseConv conv)
      if r.errs.size > 0 then some s!"ERR{r.errs.size}" else
      let tree := build r.block
      let occs := bindChunk r.block
      let toccs := bindTraversal r.block
      let vars := allVars tree
      let fns := fnLocsB r.block
      let items := occs.map fun o =>
        let kind := if o.isDecl then "D" ++ o.dk else if o.isWrite then "W" else "U"
        let ms := defineAt tree o.name o.loc.sl o.loc.sc
        let me := defineAt tree o.name o.loc.el o.loc.ec
        -- class I: the resolver picked a variable whose declaring statement / loop header contains
        -- this occurrence (the variable's scope has not begun there)
        -- class R: the spec's declaration was declared without a value and later re-pointed by a plain
        -- assignment `v = <name|call|function>`; the occurrence lies inside that expression
        let clsR : String :=
          match o.decl with
          | none => "?"
          | some dl =>
            match vars.find? (fun v => v.loc == dl) with
            | some v =>
              let inside := match v.ref with
                | .name l | .call l | .func l => Scope.isContainLoc l o.loc
                | _ => false
              if inside then "R" else "?"
            | none => "?"
        -- class I: the resolver picked a variable whose declaring statement / loop header contains
        -- this occurrence (the variable's scope has not begun there)
        let cls (m : Option Var) : String :=
          match m with
          | some v =>
            if o.decl == some v.loc then "" else
            match occs.find? (fun d => d.isDecl && d.loc == v.loc) with
            | some d => if Scope.isContainLoc d.region o.loc then "I" else clsR
            | none => clsR
          | none => if o.decl.isNone then "" else clsR
        let t := match toccs.find? (fun x => x.loc == o.loc) with
          | some x => showDecl x.decl
          | none => "?"
        s!"{bytesToHex o.name}@{L o.loc},{kind},S={showDecl o.decl},Ms={showVar ms},Me={showVar me},K={cls ms}{cls me},T={t},F={(fns.filter fun fl => Scope.isContainLoc fl o.loc).length},I={if o.init.isEmpty then "-" else o.init}"
      some ("OK " ++ ";".intercalate items)
  | "complete", [h, conv, line, col] =>
    -- cursor just after an identifier that ends at (line, col): S = locals visible there under Lua's
    -- rules (S-bind environment of that occurrence), M = GetCompleteVar's candidates
    match hexToBytes h, line.toInt?, col.toInt? with
    | some src, some line, some col =>
      let r := parseChunk src (LexOps.parseConv conv)
      if r.errs.size > 0 then some s!"ERR{r.errs.size}" else
      let tree := build r.block
      let occs := bindChunk r.block
      let sv := match occs.find? (fun o => !o.isDecl && o.loc.el == line && o.loc.ec == col) with
        | some o => ",".intercalate (o.vis.eraseDups.map bytesToHex)
        | none => "?"
      let decls := (occs.filter (·.isDecl)).map (·.name) |>.eraseDups
      let globals := (occs.filter (fun o => o.decl.isNone)).map (·.name) |>.eraseDups
      -- class K1: declarations whose declaring statement / loop header contains the cursor
      let k1 := (occs.filter (fun d => d.isDecl && Scope.isContainLoc d.region ⟨line, col, line, col⟩)).map (·.name) |>.eraseDups
      some s!"OK S={sv} M={",".intercalate ((completeAt tree line col).map bytesToHex)} D={",".intercalate (decls.map bytesToHex)} G={",".intercalate (globals.map bytesToHex)} K={",".intercalate (k1.map bytesToHex)}"
    | _, _, _ => some "bad-op"
  | _, _ => none

end LuaHelper.ScopeOps
