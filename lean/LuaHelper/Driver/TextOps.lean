/- Driver operations for M-text / S-lsp (C02, C01). -/
import LuaHelper.Model.Text
import LuaHelper.Spec.Lsp
import LuaHelper.Spec.TextFindings
import LuaHelper.Driver.Proto
namespace LuaHelper.TextOps
open LuaHelper.Text LuaHelper.Lsp LuaHelper.Proto

def showOff : OffRes → String
  | .ok s e => s!"ok {s} {e}"
  | .err => "err"

def showOpt : Option Nat → String
  | some n => s!"ok {n}"
  | none => "err"

def showCache (c : Cache) : String :=
  let sorted := c.toArray.qsort (fun a b => a.1 < b.1) |>.toList
  ",".intercalate (sorted.map fun (u, b) => s!"{u}={bytesToHex b}")

/-- change syntax: `f:<hex>` (full) or `r:sl:sc:el:ec:<hex>` -/
def parseChange (s : String) : Option Change :=
  match splitOn s ':' with
  | ["f", h] => (hexToBytes h).map fun t => { range := none, text := t }
  | ["r", a, b, c, d, h] =>
    match a.toNat?, b.toNat?, c.toNat?, d.toNat?, hexToBytes h with
    | some a, some b, some c, some d, some t => some { range := some (⟨a, b⟩, ⟨c, d⟩), text := t }
    | _, _, _, _, _ => none
  | _ => none

/-- op syntax: `o,<uri>,<hex>` | `c,<uri>,<change>/<change>…` | `s,<uri>,<hex>` | `x,<uri>` -/
def parseOp (s : String) : Option Op :=
  match splitOn s ',' with
  | ["o", u, h] => do some (.opn (← u.toNat?) (← hexToBytes h))
  | ["s", u, h] => do some (.sav (← u.toNat?) (← hexToBytes h))
  | ["x", u] => do some (.cls (← u.toNat?))
  | ["c", u, chs] => do
    let cs ← (splitOn chs '/').mapM parseChange
    some (.chg (← u.toNat?) cs)
  | _ => none

/-- history: for every op, model cache, spec cache and the finding classes the op falls in -/
def runHist (ops : List Op) : String :=
  let rec go (m s : Cache) : List Op → List String → List String
    | [], acc => acc.reverse
    | op :: rest, acc =>
      let k := TextFindings.opClasses s op
      let m' := step m op
      let s' := specStep s op
      go m' s' rest (s!"M[{showCache m'}] S[{showCache s'}] K[{k}]" :: acc)
  ";".intercalate (go [] [] ops [])

def handle (cmd : String) (args : List String) : Option String :=
  match cmd, args with
  | "off1", [h, l, c] =>
    match hexToBytes h, l.toNat?, c.toNat? with
    | some doc, some l, some c =>
      let p : Pos := ⟨l, c⟩
      some s!"M {showOpt (offsetForPosition doc p)} S {showOpt (specOffset doc p)} K[{TextFindings.posClasses doc p}]"
    | _, _, _ => some "bad-op"
  | "off2", [h, a, b, c, d] =>
    match hexToBytes h, a.toNat?, b.toNat?, c.toNat?, d.toNat? with
    | some doc, some a, some b, some c, some d =>
      let sp : Pos := ⟨a, b⟩
      let ep : Pos := ⟨c, d⟩
      let sres := match specOffset doc sp, specOffset doc ep with
        | some s, some e => if e < s then "err" else s!"ok {s} {e}"
        | _, _ => "err"
      some s!"M {showOff (offsetForStartAndEnd doc sp ep)} S {sres} K[{TextFindings.posClasses doc sp}{TextFindings.posClasses doc ep}]"
    | _, _, _, _, _ => some "bad-op"
  | "hist", [opsStr] =>
    match (splitOn opsStr ';').mapM parseOp with
    | some ops => some (runHist ops)
    | none => some "bad-op"
  | _, _ => none

end LuaHelper.TextOps
