import LuaHelper.Model.Comment
import LuaHelper.Driver.Proto
namespace LuaHelper.CommentOps
open LuaHelper.Comment LuaHelper.Proto

def splitNE (s : String) (sep : String) : List String := (s.splitOn sep).filter (· ≠ "")

def hexOr (s : String) : List UInt8 := if s == "-" then [] else (hexToBytes s).getD []

def parseLine (s : String) : Option CLine :=
  match s.splitOn ":" with
  | [l, e, sh, t] =>
    match l.toNat?, e.toNat? with
    | some l, some e => some { line := l, endLine := e, short := sh == "1", text := hexOr t }
    | _, _ => none
  | _ => none

def parseGap (s : String) : Option (Nat × List CLine) :=
  match s.splitOn "~" with
  | [p, cs] =>
    match p.toNat? with
    | some p => ((splitNE cs ",").mapM parseLine).map fun l => (p, l)
    | none => none
  | _ => none

def hexOut (b : List UInt8) : String := if b.isEmpty then "-" else bytesToHex b

def showInfo (k : Nat) (ci : CInfo) : String :=
  s!"{k}:{if ci.short then 1 else 0}:{if ci.head then 1 else 0}:" ++
    ",".intercalate (ci.lines.map fun (l, t) => s!"{l}={hexOut t}")

/-- `cmap <prevEnd~line:endLine:short:hex,…|prevEnd~…|…> <line,line,…>` → the comment map (entries by increasing key,
    `key:short:head:line=hex,…` joined by ';') followed by ` D=` and `GetLineComment` of each asked line -/
def handle (cmd : String) (args : List String) : Option String :=
  match cmd, args with
  | "cmap", [gs, ls] =>
    match (if gs == "-" then some [] else (splitNE gs "|").mapM parseGap) with
    | none => some "bad-op"
    | some gaps =>
      let m := fileMap gaps
      let keys := (m.map (·.1)).eraseDups.toArray.qsort (· < ·) |>.toList
      let ents := keys.filterMap fun k => (find m k).map (showInfo k)
      let asked := (splitNE ls ",").filterMap String.toNat?
      let docs := asked.map fun l => s!"{l}={hexOut (lineComment m l)}"
      some ("M=" ++ ";".intercalate ents ++ " D=" ++ ";".intercalate docs)
  | _, _ => none
end LuaHelper.CommentOps
