import LuaHelper.Model.Parser
import LuaHelper.Model.Pat
import LuaHelper.Spec.Pat
import LuaHelper.Driver.Proto
import LuaHelper.Driver.LexOps
namespace LuaHelper.PatOps
open LuaHelper.Lex LuaHelper.Ast LuaHelper.Parse LuaHelper.Proto LuaHelper.Pat

/-- `pat <srchex> <conv>` → model reports as "ty@sl:sc:el:ec" (0-based lines as the client sees them), then
    " | " and the type-14 / type-5 reports of the specification Spec/Pat.lean -/
def handle (cmd : String) (args : List String) : Option String :=
  match cmd, args with
  | "pat", [h, conv] =>
    match hexToBytes h with
    | none => some "bad-op"
    | some src =>
      let r := parseChunk src (LexOps.parseConv conv)
      if r.errs.size > 0 then some s!"ERR{r.errs.size}" else
      let reps := reports r.block
      let sh := fun (x : Rep) => s!"{x.ty}@{x.loc.sl - 1}:{x.loc.sc}:{x.loc.el - 1}:{x.loc.ec}"
      some ("OK " ++ ";".intercalate (reps.map sh) ++ " | " ++ ";".intercalate ((PatSpec.reports r.block).map sh))
  | _, _ => none
end LuaHelper.PatOps
