import LuaHelper.Model.Parser
import LuaHelper.Model.Pat
import LuaHelper.Driver.Proto
import LuaHelper.Driver.LexOps
namespace LuaHelper.PatOps
open LuaHelper.Lex LuaHelper.Ast LuaHelper.Parse LuaHelper.Proto LuaHelper.Pat

/-- `pat <srchex> <conv>` → reports as "ty@sl:sc:el:ec" (0-based lines as the client sees them) -/
def handle (cmd : String) (args : List String) : Option String :=
  match cmd, args with
  | "pat", [h, conv] =>
    match hexToBytes h with
    | none => some "bad-op"
    | some src =>
      let r := parseChunk src (LexOps.parseConv conv)
      if r.errs.size > 0 then some s!"ERR{r.errs.size}" else
      let reps := reports r.block
      some ("OK " ++ ";".intercalate (reps.map fun x => s!"{x.ty}@{x.loc.sl - 1}:{x.loc.sc}:{x.loc.el - 1}:{x.loc.ec}"))
  | _, _ => none
end LuaHelper.PatOps
