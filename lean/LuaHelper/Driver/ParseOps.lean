/- Driver operations for M-parse (C03, C04, C01): AST printer in the harness' canonical format. -/
import LuaHelper.Model.Parser
import LuaHelper.Driver.Proto
import LuaHelper.Driver.LexOps
namespace LuaHelper.ParseOps
open LuaHelper.Lex LuaHelper.Ast LuaHelper.Parse LuaHelper.Proto

def L (l : Loc) : String := s!"{l.sl}:{l.sc}:{l.el}:{l.ec}"
def H (b : Bytes) : String := bytesToHex b

mutual
def showExp : Exp → String
  | .noKey => "_"
  | .nil l => s!"(nil {L l})" | .tru l => s!"(true {L l})" | .fls l => s!"(false {L l})"
  | .vararg l => s!"(va {L l})"
  | .int v l => s!"(int {v} {L l})"
  | .flt _ l => s!"(flt {L l})"
  | .str s l => s!"(str {H s} {L l})"
  | .unop op e l => s!"(un {op.toNat} {showExp e} {L l})"
  | .binop op a b l => s!"(bin {op.toNat} {showExp a} {showExp b} {L l})"
  | .table ks vs l => s!"(tbl [{" ".intercalate (ks.map showExp)}] [{" ".intercalate (vs.map showExp)}] {L l})"
  | .func f => showFunc f
  | .name n l => s!"(name {H n} {L l})"
  | .parens e l => s!"(par {showExp e} {L l})"
  | .index p k l => s!"(idx {showExp p} {showExp k} {L l})"
  | .call p m a l =>
    let ms := match m with | some (n, ml) => s!"(str {H n} {L ml})" | none => "_"
    s!"(call {showExp p} {ms} [{" ".intercalate (a.map showExp)}] {L l})"
  | .bad l => s!"(bad {L l})"
def showFunc : FuncBody → String
  | .mk cls fn ps va colon body l =>
    let pss := ps.map fun (n, pl) => s!"{H n}@{L pl}"
    s!"(fn {H cls} {H fn} [{" ".intercalate pss}] {if va then 1 else 0} {if colon then 1 else 0} {showBlock body} {L l})"
def showStat : Stat → String
  | .brk => "(break)"
  | .label n l => s!"(label {H n} {L l})"
  | .goto_ n l => s!"(goto {H n} {L l})"
  | .do_ b l => s!"(do {showBlock b} {L l})"
  | .while_ c b l => s!"(while {showExp c} {showBlock b} {L l})"
  | .repeat_ b c l => s!"(repeat {showBlock b} {showExp c} {L l})"
  | .if_ cs bs els l => s!"(if{if els then "+else" else ""} [{" ".intercalate (cs.map showExp)}] [{" ".intercalate (bs.map showBlock)}] {L l})"
  | .fornum v vl i lim st b l => s!"(fornum {H v}@{L vl} {showExp i} {showExp lim} {showExp st} {showBlock b} {L l})"
  | .forin ns es b l =>
    let nss := ns.map fun (n, nl) => s!"{H n}@{L nl}"
    s!"(forin [{" ".intercalate nss}] [{" ".intercalate (es.map showExp)}] {showBlock b} {L l})"
  | .assign vs es l => s!"(assign [{" ".intercalate (vs.map showExp)}] [{" ".intercalate (es.map showExp)}] {L l})"
  | .local_ ns es l =>
    let nss := ns.map fun (n, nl, k) => s!"{H n}@{L nl}@{k}"
    s!"(local [{" ".intercalate nss}] [{" ".intercalate (es.map showExp)}] {L l})"
  | .localfn n nl f l => s!"(localfn {H n}@{L nl} {showFunc f} {L l})"
  | .callstat e => showExp e
def showBlock : Block → String
  | .mk stats ret l =>
    let r := match ret with | none => "R_" | some es => s!"R[{" ".intercalate (es.map showExp)}]"
    s!"(block [{" ".intercalate (stats.map showStat)}] {r} {L l})"
end

def handle (cmd : String) (args : List String) : Option String :=
  match cmd, args with
  | "parse", [h, conv] =>
    match hexToBytes h with
    | none => some "bad-op"
    | some src =>
      let r := parseChunk src (LexOps.parseConv conv)
      let es := r.errs.toList.map fun e => L e.loc
      let flags := s!"P{if r.panic || r.lexPanic then 1 else 0}M{if r.convMissing then 1 else 0}F{if r.fuelOut then 1 else 0}T{if r.aborted then 1 else 0}"
      some s!"{flags} E{es.length}{if es.isEmpty then "" else "/" ++ "/".intercalate es} {showBlock r.block}"
  | _, _ => none

end LuaHelper.ParseOps
