import LuaHelper.Spec.Grammar
import LuaHelper.Driver.Proto
namespace LuaHelper.GrammarOps
open LuaHelper.Grammar LuaHelper.Proto

def strOfHex (h : String) : String :=
  match hexToBytes h with
  | some bs => (String.fromUTF8? ⟨bs.toArray⟩).getD ""
  | none => ""

/-- `recog <hex of the token classes joined by '\n'>` → 1 / 0 -/
def handle (cmd : String) (args : List String) : Option String :=
  match cmd, args with
  | "recog", [h] =>
    let s := strOfHex h
    let toks := if s.isEmpty then [] else s.splitOn "\n"
    some ((if recognise toks then "1" else "0") ++ (if recogniseRelaxed toks then "1" else "0") ++ (if recogniseMunch toks then "1" else "0"))
  | _, _ => none
end LuaHelper.GrammarOps
