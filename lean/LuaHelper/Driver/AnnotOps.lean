import LuaHelper.Model.Annot
import LuaHelper.Driver.Proto
namespace LuaHelper.AnnotOps
open LuaHelper.Lex LuaHelper.Proto LuaHelper.Annot

def b01 (b : Bool) : String := if b then "1" else "0"
def joinS (sep : String) (l : List String) : String := sep.intercalate l

def dumpParams : List Bytes → List Bool → List String → List String
  | n :: ns, o :: os, t :: ts => (bytesToHex n ++ (if o then "?" else "") ++ ":" ++ t) :: dumpParams ns os ts
  | _, _, _ => []

mutual
def dumpTy : Ty → String
  | .multi l => "M[" ++ joinS "," (dumpTys l) ++ "]"
  | .normal n => "N:" ++ bytesToHex n
  | .array t => "A[" ++ dumpTy t ++ "]"
  | .tableE => "TE"
  | .table k v => "T[" ++ dumpTy k ++ "," ++ dumpTy v ++ "]"
  | .func ns os tys rets =>
    "F[" ++ joinS "," (dumpParams ns os (dumpTys tys)) ++ "][" ++ joinS "," (dumpTys rets) ++ "]"
  | .const n q => "C:" ++ bytesToHex n ++ ":" ++ b01 q
def dumpTys : List Ty → List String
  | [] => []
  | t :: r => dumpTy t :: dumpTys r
end

def hexS (b : Bytes) : String := "#" ++ bytesToHex b
def strOf (b : Bytes) : String := String.ofList (b.map fun c => Char.ofNat c.toNat)

def dumpStat : Stat → String
  | .type cs es tys cm =>
    "type " ++ joinS ";" ((List.zip (List.zip cs es) (dumpTys tys)).map fun ((c, e), t) => b01 c ++ b01 e ++ t) ++ " " ++ hexS cm
      ++ " P=" ++ joinS ";" (tys.map fun t => bytesToHex (pr t))
  | .alias n ty cm => "alias " ++ bytesToHex n ++ " " ++ (match ty with | some t => dumpTy t | none => "-") ++ " " ++ hexS cm
  | .class_ n ps cm => "class " ++ bytesToHex n ++ " " ++ joinS "," (ps.map bytesToHex) ++ " " ++ hexS cm
  | .overload t cm => "overload " ++ dumpTy t ++ " " ++ hexS cm
  | .field sc n c t cm => s!"field {sc} " ++ bytesToHex n ++ " " ++ b01 c ++ " " ++ dumpTy t ++ " " ++ hexS cm ++ " P=" ++ bytesToHex (pr t)
  | .param c n o t cm => "param " ++ b01 c ++ " " ++ bytesToHex n ++ " " ++ b01 o ++ " " ++ dumpTy t ++ " " ++ hexS cm ++ " P=" ++ bytesToHex (pr t)
  | .return_ tys os cm =>
    "return " ++ joinS ";" ((List.zip (dumpTys tys) os).map fun (t, o) => t ++ (if o then "?" else "")) ++ " " ++ hexS cm
  | .generic gs ps cm => "generic " ++ joinS "," ((List.zip gs ps).map fun (g, p) => bytesToHex g ++ ":" ++ bytesToHex p) ++ " " ++ hexS cm
  | .vararg t cm => "vararg " ++ dumpTy t ++ " " ++ hexS cm
  | .enum k cm => s!"enum {k} " ++ hexS cm
  | .notValid => "notvalid"

/-- `annot <hex of the line after "-@">` → canonical dump of the parsed statement, or ERR -/
def handle (cmd : String) (args : List String) : Option String :=
  match cmd, args with
  | "annot", [h] =>
    match hexToBytes h with
    | none => some "bad-op"
    | some line =>
      match parseLine line with
      | some st => some (dumpStat st)
      | none => some "ERR"
  -- `annotcanon <hex>`: is the first type of a `type` line in the canonical fragment?
  | "annotcanon", [h] =>
    match hexToBytes h with
    | none => some "bad-op"
    | some line =>
      match parseLine line with
      | some (.type _ _ (t :: _) _) => some (if canonM t then "canon=1" else "canon=0")
      | _ => some "canon=0"
  | "annot", [] => some (match parseLine [] with | some st => dumpStat st | none => "ERR")
  | _, _ => none
end LuaHelper.AnnotOps
