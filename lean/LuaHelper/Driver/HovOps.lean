import LuaHelper.Model.Hov
import LuaHelper.Driver.Proto
namespace LuaHelper.HovOps
open LuaHelper.Lex LuaHelper.Hov LuaHelper.Proto

def handle (cmd : String) (args : List String) : Option String :=
  match cmd, args with
  | "utf8", [h] =>
    match hexToBytes h with
    | some b => some (if isUtf8 b then "1" else "0")
    | none => some "bad-op"
  | "cmt", [h] =>
    match hexToBytes h with
    | some b => some (bytesToHex (finalComment b))
    | none => some "bad-op"
  | _, _ => none
end LuaHelper.HovOps
