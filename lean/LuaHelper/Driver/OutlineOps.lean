import LuaHelper.Model.Parser
import LuaHelper.Spec.Outline
import LuaHelper.Driver.Proto
import LuaHelper.Driver.LexOps
namespace LuaHelper.OutlineOps
open LuaHelper.Lex LuaHelper.Ast LuaHelper.Parse LuaHelper.Proto LuaHelper.Outline

def b01 (b : Bool) : String := if b then "1" else "0"
def locStr (l : Loc) : String := s!"{l.sl - 1}:{l.sc}:{l.el - 1}:{l.ec}"

/-- `outline <srchex> <conv>` → required entries
    "q=<hexname>,c=<cls>,L=<loc>|<loc>…,m=<colon>,f=<fn>,a=<byAssign>,s=<shadowed>" (0-based lines);
    `extend <d> <c1> <c2> …` (Locs as sl:sc:el:ec) → the extended range, well-formedness, containment -/
def handle (cmd : String) (args : List String) : Option String :=
  match cmd, args with
  | "outline", [h, conv] =>
    match hexToBytes h with
    | none => some "bad-op"
    | some src =>
      let r := parseChunk src (LexOps.parseConv conv)
      if r.errs.size > 0 then some s!"ERR{r.errs.size}" else
      let reqs := required r.block
      some ("OK " ++ ";".intercalate (reqs.map fun x =>
        s!"q={bytesToHex x.qname},c={x.cls},L={"|".intercalate (x.locs.map locStr)},m={b01 x.colon},f={b01 x.fn},a={b01 x.byAssign},s={b01 x.shadowed}"))
  | "funcsym", [vs, fs] =>
    -- `funcsym <sl:sc:el:ec of the name> <sl:sc:el:ec of the function>` → the symbol range (FuncSymbolLoc)
    let p := fun (t : String) => match (t.splitOn ":").map String.toInt? with
      | [some a, some b, some c, some d] => some (⟨a, b, c, d⟩ : Loc)
      | _ => none
    match p vs, p fs with
    | some v, some f => let r := funcSymbolLoc v f; some s!"{r.sl}:{r.sc}:{r.el}:{r.ec}"
    | _, _ => some "bad-op"
  | _, _ => none
end LuaHelper.OutlineOps
