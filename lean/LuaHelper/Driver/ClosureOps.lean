import LuaHelper.Spec.Closure
namespace LuaHelper.ClosureOps
open LuaHelper.Closure

def splitNE (s : String) (sep : String) : List String := (s.splitOn sep).filter (· ≠ "")

/-- `closure <root,root,…> <name=succ,succ;name=succ;…>` → the reachable declared names, sorted, joined by ','
    ("-" stands for an empty list in either argument) -/
def handle (cmd : String) (args : List String) : Option String :=
  match cmd, args with
  | "closure", [rs, es] =>
    let roots := if rs == "-" then [] else splitNE rs ","
    let g : Graph := if es == "-" then [] else (splitNE es ";").map fun d =>
      match d.splitOn "=" with
      | [n, ss] => (n, splitNE ss ",")
      | [n] => (n, [])
      | _ => ("", [])
    let out := (closure g roots).toArray.qsort (· < ·) |>.toList
    some ("R=" ++ ",".intercalate out)
  | _, _ => none
end LuaHelper.ClosureOps
