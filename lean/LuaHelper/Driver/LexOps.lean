/- Driver operations for M-lex (C03, C04, C01). -/
import LuaHelper.Model.Lexer
import LuaHelper.Driver.Proto
import LuaHelper.Spec.Col
namespace LuaHelper.LexOps
open LuaHelper.Lex LuaHelper.Proto

def parseConv (s : String) : List (Bytes × Nat) :=
  if s == "-" then [] else
  (splitOn s ',').filterMap fun it =>
    match splitOn it ':' with
    | [h, n] => match hexToBytes h, n.toNat? with
      | some b, some n => some (b, n)
      | _, _ => none
    | _ => none

def showLoc (l : Loc) : String := s!"{l.sl}:{l.sc}:{l.el}:{l.ec}"

/-- token line: kind, text, line, GetNowTokenLoc, errors reported while scanning it -/
def showToks : List Tok → Token → List String → List String
  | [], _, acc => acc.reverse
  | t :: rest, pre, acc =>
    let loc := nowLoc pre t.tok {}
    let es := t.errs.map fun e => showLoc e.loc
    let line := s!"{t.tok.kind.toNat},{bytesToHex t.tok.str},{t.tok.line},{showLoc loc},E{es.length}" ++
      (if es.isEmpty then "" else "/" ++ "/".intercalate es)
    showToks rest t.tok (line :: acc)

def handle (cmd : String) (args : List String) : Option String :=
  match cmd, args with
  | "lex", [h, conv] =>
    match hexToBytes h with
    | none => some "bad-op"
    | some src =>
      let (toks, l) := lexAll src (parseConv conv)
      some (";".intercalate (showToks toks {} []) ++ s!" P{if l.panic then 1 else 0}M{if l.convMissing then 1 else 0}")
  | "lexcol", [h, conv] =>
    -- for every identifier token: model (line, startCol, endCol) as LocToRange reports it (line − 1),
    -- the true LSP position of its first / last+1 byte, and the classes of its line prefix
    match hexToBytes h with
    | none => some "bad-op"
    | some src =>
      let (toks, l) := lexAll src (parseConv conv)
      let rec go : List Tok → Token → List String → List String
        | [], _, acc => acc.reverse
        | t :: rest, pre, acc =>
          if t.tok.kind == .ident then
            let loc := nowLoc pre t.tok {}
            let (tl, tc) := Col.posOfOffset src t.tok.offFrom
            let (el, ec) := Col.posOfOffset src t.tok.offTo
            let item := s!"{bytesToHex t.tok.str},M={loc.sl - 1}:{loc.sc}:{loc.el - 1}:{loc.ec},S={tl}:{tc}:{el}:{ec},K={Col.lineClasses src t.tok.offFrom},O={t.tok.offFrom}:{t.tok.offTo}"
            go rest t.tok (item :: acc)
          else go rest t.tok acc
      some (";".intercalate (go toks {} []) ++ s!" P{if l.panic then 1 else 0}M{if l.convMissing then 1 else 0}")
  | _, _ => none

end LuaHelper.LexOps
