/-
S-bind: Lua's lexical scoping (reference manual §3.5 "Visibility Rules") as an environment-passing
binder over the shared AST.  For every identifier occurrence (NameExp) it says which declaration
binds it (the Loc of the declaring identifier) or that it is a global.  Written to be read in minutes:
  * the scope of a local variable begins at the first statement AFTER its declaration and lasts
    until the last non-void statement of the innermost block that includes the declaration;
  * `local function f` : f is in scope inside its own body; `local f = function` : it is not;
  * a numeric / generic `for` declares its variables for the body only (not for the bounds / explist);
  * the condition of `repeat … until` can see the locals of the loop block;
  * function parameters are locals of the body; a method (`function a:m()`) has the implicit `self`.
The flag `tr` selects LuaHelper's own traversal-time variant (`bindTraversal`).  It used to differ in ONE
place — in `local a, b = e1, e2` the name `a` was already inserted while `e2` was analysed
(`bLocalInterleaved`, kept to state what the defect was); since the repair of cgLocalVarDeclStat the
traversal analyses every initialiser before it inserts a name, and the two variants are written alike.
All functions are structurally recursive (no `partial`), so theorems can be proved about them.
Core Lean only.
-/
import LuaHelper.Model.Ast
namespace LuaHelper.Bind
open LuaHelper.Lex LuaHelper.Ast

/-- one identifier occurrence -/
structure Occ where
  name : Bytes
  loc : Loc                    -- where the identifier is written
  decl : Option Loc            -- binding declaration (its identifier's Loc); none = global
  isDecl : Bool := false       -- this occurrence IS a declaration
  isWrite : Bool := false      -- assignment target
  /-- for declarations: the part of the declaring statement that precedes the variable's scope
      (local statement: the whole statement; for loops: the header up to the body) -/
  region : Loc := ⟨0, 0, 0, 0⟩
  /-- for uses: the names of the locals visible at this occurrence (innermost first) -/
  vis : List Bytes := []
  /-- for declarations by `local` and for assignment targets: a description of the i-th right-hand
      expression: "" none, "func", "name:<n>" (a possibly parenthesised bare name), "member:<base>",
      "or:<n>" (`n or …`), "other" -/
  init : String := ""
  /-- for declarations: L local statement, P parameter, F loop variable, N local function -/
  dk : String := ""
deriving Repr, DecidableEq, Inhabited

abbrev Env := List (Bytes × Loc)   -- innermost first

def lookup (env : Env) (n : Bytes) : Option Loc := (env.find? (·.1 == n)).map (·.2)

def use (env : Env) (n : Bytes) (l : Loc) (w : Bool := false) : Occ :=
  { name := n, loc := l, decl := lookup env n, isWrite := w, vis := env.map (·.1) }

def declOcc (n : Bytes) (l : Loc) (region : Loc := ⟨0, 0, 0, 0⟩) (dk : String := "L") : Occ :=
  { name := n, loc := l, decl := some l, isDecl := true, region := region, dk := dk }

def blockLoc : Block → Loc | .mk _ _ l => l

def nameStr (n : Bytes) : String := String.ofList (n.map fun b => Char.ofNat b.toNat)

/-- shape of an initialiser, as far as the documented exemptions / idioms look at it -/
def stripParens : Exp → Exp
  | .parens e _ => stripParens e
  | e => e

def initDesc : Exp → String
  | .func _ => "func"
  | .nil _ => "nil"
  | .binop .or (.name n _) _ _ => "or:" ++ nameStr n
  | e =>
    -- GetExpName looks through any number of parentheses
    match stripParens e with
    | .name n _ => "name:" ++ nameStr n
    | .index p _ _ =>
      (match stripParens p with
       | .name n _ => "member:" ++ nameStr n
       | _ => "other")
    | _ => "other"

def initAt (exps : List Exp) (i : Nat) : String :=
  match exps[i]? with
  | some e => initDesc e
  | none => ""

/-- the declaration occurrences of `local n1, n2, … = e1, e2, …` (name i paired with expression i) -/
def localDecls (sl : Loc) : List (Bytes × Loc × Nat) → List Exp → List Occ
  | [], _ => []
  | (n, l, _) :: ns, [] => declOcc n l sl :: localDecls sl ns []
  | (n, l, _) :: ns, e :: es => { declOcc n l sl with init := initDesc e } :: localDecls sl ns es

def pushParams (env : Env) : List (Bytes × Loc) → Env
  | [] => env
  | (n, l) :: r => pushParams ((n, l) :: env) r

def pushNames (env : Env) : List (Bytes × Loc × Nat) → Env
  | [] => env
  | (n, l, _) :: r => pushNames ((n, l) :: env) r

mutual
def bExp (tr : Bool) (env : Env) : Exp → List Occ
  | .name n l => [use env n l]
  | .unop _ e _ => bExp tr env e
  | .binop _ a b _ => bExp tr env a ++ bExp tr env b
  | .table ks vs _ => bExps tr env ks ++ bExps tr env vs
  | .func f => bFunc tr env f
  | .parens e _ => bExp tr env e
  | .index p k _ => bExp tr env p ++ bExp tr env k
  | .call p _ args _ => bExp tr env p ++ bExps tr env args
  | _ => []
def bExps (tr : Bool) (env : Env) : List Exp → List Occ
  | [] => []
  | e :: r => bExp tr env e ++ bExps tr env r
def bFunc (tr : Bool) (env : Env) : FuncBody → List Occ
  | .mk _ _ ps _ _ body _ =>
    ps.map (fun (n, l) => declOcc n l ⟨0, 0, 0, 0⟩ "P") ++ (bBlock tr (pushParams env ps) body).1
/-- occurrences of a block and the environment at its end (needed by repeat-until) -/
def bBlock (tr : Bool) (env : Env) : Block → List Occ × Env
  | .mk stats ret _ =>
    let (occs, env') := bStats tr env stats
    match ret with
    | some es => (occs ++ bExps tr env' es, env')
    | none => (occs, env')
def bStats (tr : Bool) (env : Env) : List Stat → List Occ × Env
  | [] => ([], env)
  | st :: r =>
    let (o, e') := bStat tr env st
    let (o2, e'') := bStats tr e' r
    (o ++ o2, e'')
/-- the blocks of an `if` (all in the environment of the `if` statement) -/
def bBlocks (tr : Bool) (env : Env) : List Block → List Occ
  | [] => []
  | b :: bs => (bBlock tr env b).1 ++ bBlocks tr env bs
/-- assignment targets: a bare name is a write occurrence, anything else is traversed as an expression -/
def bTargets (tr : Bool) (env : Env) (exps : List Exp) (i : Nat) : List Exp → List Occ
  | [] => []
  | .name n l :: r => { use env n l true with init := initAt exps i } :: bTargets tr env exps (i + 1) r
  | v :: r => bExp tr env v ++ bTargets tr env exps (i + 1) r
def bStat (tr : Bool) (env : Env) : Stat → List Occ × Env
  | .do_ b _ => ((bBlock tr env b).1, env)
  | .while_ c b _ => (bExp tr env c ++ (bBlock tr env b).1, env)
  | .repeat_ b c _ => ((bBlock tr env b).1 ++ bExp tr (bBlock tr env b).2 c, env)
  | .if_ cs bs _ _ => (bExps tr env cs ++ bBlocks tr env bs, env)
  | .fornum v vl i lim st b _ =>
    (bExp tr env i ++ bExp tr env lim ++ bExp tr env st ++
      [declOcc v vl ⟨vl.sl, vl.sc, (blockLoc b).sl, (blockLoc b).sc⟩ "F"] ++ (bBlock tr ((v, vl) :: env) b).1, env)
  | .forin ns es b _ =>
    (bExps tr env es ++ ns.map (fun (n, l) => declOcc n l ⟨l.sl, l.sc, (blockLoc b).sl, (blockLoc b).sc⟩ "F") ++
      (bBlock tr (pushParams env ns) b).1, env)
  | .assign vars exps _ => (bExps tr env exps ++ bTargets tr env exps 0 vars, env)
  | .local_ names exps sl =>
    -- every initialiser (also surplus ones) in the environment before the statement, then the names
    (bExps tr env exps ++ localDecls sl names exps, pushNames env names)
  | .localfn n nl f _ => ([declOcc n nl ⟨0, 0, 0, 0⟩ "N"] ++ bFunc tr ((n, nl) :: env) f, (n, nl) :: env)
  | .callstat e => (bExp tr env e, env)
  | _ => ([], env)
end

/-- the traversal of `local n1, n2, … = e1, e2, …` BEFORE the repair: name i was inserted right after e_i
    and nothing past the first surplus initialiser was analysed -/
def bLocalInterleaved (sl : Loc) (env : Env) : List (Bytes × Loc × Nat) → List Exp → List Occ × Env
  | ns, [] => (ns.map (fun (n, l, _) => declOcc n l sl), pushNames env ns)
  | [], e :: _ => (bExp false env e, env)
  | (n, l, _) :: ns, e :: es =>
    let (o, env') := bLocalInterleaved sl ((n, l) :: env) ns es
    (bExp false env e ++ [{ declOcc n l sl with init := initDesc e }] ++ o, env')

/-- every identifier occurrence of a chunk with its binding under Lua's rules -/
def bindChunk (b : Block) : List Occ := (bBlock false [] b).1

/-- the binding LuaHelper's own traversal computes (passes 1-4) -/
def bindTraversal (b : Block) : List Occ := (bBlock true [] b).1

end LuaHelper.Bind
