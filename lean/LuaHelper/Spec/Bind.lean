/-
S-bind: Lua's lexical scoping (reference manual §3.5 "Visibility Rules") as an environment-passing
binder over the shared AST.  For every identifier occurrence (NameExp) it says which declaration
binds it (the Loc of the declaring identifier) or that it is a global.  ≈100 lines; written to be
read in minutes:
  * the scope of a local variable begins at the first statement AFTER its declaration and lasts
    until the last non-void statement of the innermost block that includes the declaration;
  * `local function f` : f is in scope inside its own body; `local f = function` : it is not;
  * a numeric / generic `for` declares its variables for the body only (not for the bounds / explist);
  * the condition of `repeat … until` can see the locals of the loop block;
  * function parameters are locals of the body; a method (`function a:m()`) has the implicit `self`.
Core Lean only.
-/
import LuaHelper.Model.Ast
namespace LuaHelper.Bind
open LuaHelper.Lex LuaHelper.Ast

/-- one identifier occurrence -/
structure Occ where
  name : Bytes
  loc : Loc                    -- where the identifier is written
  decl : Option Loc            -- binding declaration (its identifier's Loc); none = global
  isDecl : Bool := false       -- this occurrence IS a declaration
  isWrite : Bool := false      -- assignment target
  /-- for declarations: the part of the declaring statement that precedes the variable's scope
      (local statement: the whole statement; for loops: the header up to the body) -/
  region : Loc := ⟨0, 0, 0, 0⟩
deriving Repr, DecidableEq, Inhabited

abbrev Env := List (Bytes × Loc)   -- innermost first

def lookup (env : Env) (n : Bytes) : Option Loc := (env.find? (·.1 == n)).map (·.2)

def use (env : Env) (n : Bytes) (l : Loc) (w : Bool := false) : Occ :=
  { name := n, loc := l, decl := lookup env n, isWrite := w }

def declOcc (n : Bytes) (l : Loc) (region : Loc := ⟨0, 0, 0, 0⟩) : Occ :=
  { name := n, loc := l, decl := some l, isDecl := true, region := region }

def blockLoc : Block → Loc | .mk _ _ l => l

mutual
partial def bExp (env : Env) : Exp → List Occ
  | .name n l => [use env n l]
  | .unop _ e _ => bExp env e
  | .binop _ a b _ => bExp env a ++ bExp env b
  | .table ks vs _ => (ks.zip vs).flatMap fun (k, v) => (match k with | .noKey => [] | k => bExp env k) ++ bExp env v
  | .func f => bFunc env f
  | .parens e _ => bExp env e
  | .index p k _ => bExp env p ++ bExp env k
  | .call p _ args _ => bExp env p ++ args.flatMap (bExp env)
  | _ => []
partial def bFunc (env : Env) : FuncBody → List Occ
  | .mk _ _ ps _ _ body _ =>
    let env' := ps.foldl (fun e (n, l) => (n, l) :: e) env
    ps.map (fun (n, l) => declOcc n l) ++ (bBlock env' body).1
/-- occurrences of a block and the environment at its end (needed by repeat-until) -/
partial def bBlock (env : Env) : Block → List Occ × Env
  | .mk stats ret _ =>
    let (occs, env') := stats.foldl (fun (acc, e) st => let (o, e') := bStat e st; (acc ++ o, e')) ([], env)
    match ret with
    | some es => (occs ++ es.flatMap (bExp env'), env')
    | none => (occs, env')
partial def bStat (env : Env) : Stat → List Occ × Env
  | .do_ b _ => ((bBlock env b).1, env)
  | .while_ c b _ => (bExp env c ++ (bBlock env b).1, env)
  | .repeat_ b c _ => let (o, e') := bBlock env b; (o ++ bExp e' c, env)
  | .if_ cs bs _ => ((cs.zip bs).flatMap (fun (c, b) => bExp env c ++ (bBlock env b).1), env)
  | .fornum v vl i lim st b _ =>
    (bExp env i ++ bExp env lim ++ bExp env st ++ [declOcc v vl ⟨vl.sl, vl.sc, (blockLoc b).sl, (blockLoc b).sc⟩] ++
      (bBlock ((v, vl) :: env) b).1, env)
  | .forin ns es b _ =>
    let env' := ns.foldl (fun e (n, l) => (n, l) :: e) env
    (es.flatMap (bExp env) ++ ns.map (fun (n, l) => declOcc n l ⟨l.sl, l.sc, (blockLoc b).sl, (blockLoc b).sc⟩) ++
      (bBlock env' b).1, env)
  | .assign vars exps _ =>
    (exps.flatMap (bExp env) ++ vars.flatMap (fun v => match v with
      | .name n l => [use env n l true]
      | v => bExp env v), env)
  | .local_ names exps sl =>
    let env' := names.foldl (fun e (n, l, _) => (n, l) :: e) env
    (exps.flatMap (bExp env) ++ names.map (fun (n, l, _) => declOcc n l sl), env')
  | .localfn n nl f _ =>
    let env' := (n, nl) :: env
    ([declOcc n nl] ++ bFunc env' f, env')
  | .callstat e => (bExp env e, env)
  | _ => ([], env)
end

/-- every identifier occurrence of a chunk with its binding -/
def bindChunk (b : Block) : List Occ := (bBlock [] b).1

end LuaHelper.Bind
