/-
Known-finding classes of C02 as decidable predicates (hypotheses of the C02 main theorems and
evaluated by the driver, so harness and theorem cannot disagree about what a class is).
-/
import LuaHelper.Spec.Lsp
namespace LuaHelper.TextFindings
open LuaHelper.Text LuaHelper.Lsp

/-- Classification of a position w.r.t. a decoded document, mirroring `specOffsetCh`:
    * `astral`  : a 4-byte character precedes the position on its own line   (C02-K1)
    * `cr`      : a lone CR line end precedes the position                  (C02-K2)
    * `beyond`  : character value beyond the end of the line (must clamp)    (C02-K3)
    * `noline`  : the line does not exist (non-conformant position; no requirement)
    * `inpair`  : position inside a surrogate pair (non-conformant)                      -/
structure Cls where
  astral : Bool := false
  cr : Bool := false
  beyond : Bool := false
  noline : Bool := false
  inpair : Bool := false
deriving Repr, DecidableEq, Inhabited

def Cls.any (k : Cls) : Bool := k.astral || k.cr || k.beyond || k.noline || k.inpair

def classify : List Ch → (l c : Nat) → Cls → Cls
  | [], l, c, k => if l ≠ 0 then { k with noline := true } else if c ≠ 0 then { k with beyond := true } else k
  | x :: xs, 0, c, k =>
    if x.isEol then (if c ≠ 0 then { k with beyond := true } else k)
    else if c = 0 then k
    else if c < x.units then { k with inpair := true }
    else classify xs 0 (c - x.units) (if x.units = 2 then { k with astral := true } else k)
  | x :: xs, l + 1, c, k =>
    if x = .cr then classify xs l c { k with cr := true }
    else if x.isEol then classify xs l c k
    else classify xs (l + 1) c k

/-- `bad cs l c` ⇔ the position (l lines further, c UTF-16 units into that line) falls in one of the
    classes above.  This is the hypothesis of the C02 theorems (`Props/C02.lean`). -/
def bad : List Ch → (l c : Nat) → Bool
  | [], l, c => l ≠ 0 || c ≠ 0
  | x :: xs, 0, c =>
    if x.isEol then c ≠ 0
    else if c = 0 then false
    else if c < x.units then true
    else x.units = 2 || bad xs 0 (c - x.units)
  | x :: xs, l + 1, c =>
    if x = .cr then true
    else if x.isEol then bad xs l c
    else bad xs (l + 1) c

def posCls (doc : Bytes) (p : Pos) : Cls := classify (decode doc) p.line p.ch {}

def Cls.show (k : Cls) : String :=
  (if k.astral then "A" else "") ++ (if k.cr then "C" else "") ++ (if k.beyond then "B" else "")
  ++ (if k.noline then "N" else "") ++ (if k.inpair then "P" else "")

def posClasses (doc : Bytes) (p : Pos) : String := (posCls doc p).show

/-- classes hit by the changes of one op, evaluated against the *spec* (client) documents -/
def changesClasses (doc : Bytes) : List Change → String
  | [] => ""
  | ch :: more =>
    match ch.range with
    | none => changesClasses ch.text more
    | some (sp, ep) =>
      let k := posClasses doc sp ++ posClasses doc ep
      match specApply doc [ch] with
      | some d => k ++ changesClasses d more
      | none => k ++ "X"      -- non-conformant change; rest not classified

def opClasses (s : Cache) : Op → String
  | .chg u chs => match s.get u with
    | some doc => changesClasses doc chs
    | none => "U"              -- change for a document that is not open
  | _ => ""

end LuaHelper.TextFindings
