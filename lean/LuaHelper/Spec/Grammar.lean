/-
S-ebnf: "The Complete Syntax of Lua" (Lua 5.4 reference manual §9) as DATA, the meaning of a grammar
as an inductive derivation relation, and a generic executable recogniser (sets of end positions, so
no exponential backtracking) used as the oracle of the C03 search.  Left recursion of the manual's
`exp` / `prefixexp` is written with repetition, which derives the same token strings:
  exp        ::= {unop} simpleexp {binop {unop} simpleexp}
  prefixexp  ::= (Name | '(' exp ')') {suffix}
Terminals are token classes: a reserved word / punctuation spelled out, or Name / Numeral / String.
Context conditions (break outside a loop, goto/label visibility, '...' outside a vararg function,
attribute names other than const/close, a second <close>) are not part of the grammar.
Core Lean only.
-/
namespace LuaHelper.Grammar

inductive G where
  | t (s : String)            -- terminal
  | n (name : String)         -- non-terminal
  | seq (l : List G)
  | alt (l : List G)
  | star (g : G)
  | opt (g : G)
  | nla (s : String)          -- negative look-ahead: next token is not `s` (consumes nothing); oracle only
deriving Repr, Inhabited

open G

def binops : List String := ["+", "-", "*", "/", "//", "^", "%", "&", "~", "|", ">>", "<<", "..", "<", "<=", ">", ">=",
  "==", "~=", "and", "or"]
def unops : List String := ["-", "not", "#", "~"]

/-- the productions -/
def rules : List (String × G) := [
  ("chunk", n "block"),
  ("block", seq [star (n "stat"), opt (n "retstat")]),
  ("stat", alt [
    t ";",
    seq [n "varlist", t "=", n "explist"],
    n "functioncall",
    seq [t "::", t "Name", t "::"],
    t "break",
    seq [t "goto", t "Name"],
    seq [t "do", n "block", t "end"],
    seq [t "while", n "exp", t "do", n "block", t "end"],
    seq [t "repeat", n "block", t "until", n "exp"],
    seq [t "if", n "exp", t "then", n "block",
         star (seq [t "elseif", n "exp", t "then", n "block"]), opt (seq [t "else", n "block"]), t "end"],
    seq [t "for", t "Name", t "=", n "exp", t ",", n "exp", opt (seq [t ",", n "exp"]), t "do", n "block", t "end"],
    seq [t "for", n "namelist", t "in", n "explist", t "do", n "block", t "end"],
    seq [t "function", n "funcname", n "funcbody"],
    seq [t "local", t "function", t "Name", n "funcbody"],
    seq [t "local", n "attnamelist", opt (seq [t "=", n "explist"])]]),
  ("attnamelist", seq [t "Name", n "attrib", star (seq [t ",", t "Name", n "attrib"])]),
  ("attrib", opt (seq [t "<", t "Name", t ">"])),
  ("retstat", seq [t "return", opt (n "explist"), opt (t ";")]),
  ("funcname", seq [t "Name", star (seq [t ".", t "Name"]), opt (seq [t ":", t "Name"])]),
  ("varlist", seq [n "var", star (seq [t ",", n "var"])]),
  ("namelist", seq [t "Name", star (seq [t ",", t "Name"])]),
  ("explist", seq [n "exp", star (seq [t ",", n "exp"])]),
  ("exp", seq [n "operand", star (seq [alt (binops.map t), n "operand"])]),
  ("operand", seq [star (alt (unops.map t)), n "simpleexp"]),
  ("simpleexp", alt [t "nil", t "false", t "true", t "Numeral", t "String", t "...", n "functiondef",
                     n "prefixexp", n "tableconstructor"]),
  ("primary", alt [t "Name", seq [t "(", n "exp", t ")"]]),
  ("indexsuffix", alt [seq [t "[", n "exp", t "]"], seq [t ".", t "Name"]]),
  ("callsuffix", alt [n "args", seq [t ":", t "Name", n "args"]]),
  ("suffix", alt [n "indexsuffix", n "callsuffix"]),
  ("prefixexp", seq [n "primary", star (n "suffix")]),
  -- var ::= Name | prefixexp '[' exp ']' | prefixexp '.' Name
  ("var", alt [t "Name", seq [n "primary", star (n "suffix"), n "indexsuffix"]]),
  -- functioncall ::= prefixexp args | prefixexp ':' Name args
  ("functioncall", seq [n "primary", star (n "suffix"), n "callsuffix"]),
  ("args", alt [seq [t "(", opt (n "explist"), t ")"], n "tableconstructor", t "String"]),
  ("functiondef", seq [t "function", n "funcbody"]),
  ("funcbody", seq [t "(", opt (n "parlist"), t ")", n "block", t "end"]),
  ("parlist", alt [seq [n "namelist", opt (seq [t ",", t "..."])], t "..."]),
  ("tableconstructor", seq [t "{", opt (n "fieldlist"), t "}"]),
  ("fieldlist", seq [n "field", star (seq [n "fieldsep", n "field"]), opt (n "fieldsep")]),
  ("field", alt [seq [t "[", n "exp", t "]", t "=", n "exp"], seq [t "Name", t "=", n "exp"], n "exp"]),
  ("fieldsep", alt [t ",", t ";"])]

def lookup (name : String) : G := ((rules.find? (·.1 == name)).map (·.2)).getD (alt [])

/-- The reference manual (§3.3.1) resolves the `f` newline `(g)()` ambiguity of the grammar by always
    continuing the call: a prefix expression is never directly followed by '('.  `lookupMunch` adds
    that look-ahead; token strings on which it changes the verdict form the "ambiguous juxtaposition"
    slice, which the C03 oracle leaves out. -/
def lookupMunch (name : String) : G :=
  if name == "prefixexp" || name == "var" || name == "functioncall" then seq [lookup name, nla "("]
  else lookup name

/-- the relaxation that defines finding class C03-K1: any prefix expression (also a parenthesised
    expression or a call) is allowed as an assignment target -/
def lookupRelaxed (name : String) : G :=
  if name == "var" then n "prefixexp" else lookup name

/-! ### meaning of a grammar: derivations -/

/-- `Derives g w`: the token string `w` is derived from the grammar expression `g` -/
inductive Derives : G → List String → Prop where
  | tok (s : String) : Derives (t s) [s]
  | nt (name : String) (w : List String) : Derives (lookup name) w → Derives (n name) w
  | seqNil : Derives (seq []) []
  | seqCons (g : G) (gs : List G) (u v : List String) :
      Derives g u → Derives (seq gs) v → Derives (seq (g :: gs)) (u ++ v)
  | altHere (g : G) (gs : List G) (w : List String) : Derives g w → Derives (alt (g :: gs)) w
  | altThere (g : G) (gs : List G) (w : List String) : Derives (alt gs) w → Derives (alt (g :: gs)) w
  | starNil (g : G) : Derives (star g) []
  | starCons (g : G) (u v : List String) : Derives g u → Derives (star g) v → Derives (star g) (u ++ v)
  | optNone (g : G) : Derives (opt g) []
  | optSome (g : G) (w : List String) : Derives g w → Derives (opt g) w

/-- a chunk is syntactically valid iff its token classes are derived from `chunk` -/
def ValidChunk (w : List String) : Prop := Derives (n "chunk") w

/-! ### generic recogniser: set of positions reachable after deriving `g` from position `i` -/

def insertPos (p : Nat) (ps : List Nat) : List Nat := if ps.contains p then ps else p :: ps
def unionPos (a b : List Nat) : List Nat := a.foldl (fun acc p => insertPos p acc) b

mutual
/-- end positions of `g` started at any of `starts`; `fuel` bounds non-terminal expansion depth -/
def recog (lk : String → G) (inp : Array String) : Nat → G → List Nat → List Nat
  | 0, _, _ => []
  | fuel + 1, g, starts =>
    if starts.isEmpty then [] else
    match g with
    | t s => starts.filterMap fun i => if inp[i]? == some s then some (i + 1) else none
    | n name => recog lk inp fuel (lk name) starts
    | seq gs => recogSeq lk inp fuel gs starts
    | alt gs => recogAlt lk inp fuel gs starts
    | opt g => unionPos starts (recog lk inp fuel g starts)
    | nla s => starts.filter fun i => inp[i]? != some s
    | star g => recogStar lk inp fuel g starts starts (inp.size + 1)
def recogSeq (lk : String → G) (inp : Array String) : Nat → List G → List Nat → List Nat
  | 0, _, _ => []
  | _ + 1, [], starts => starts
  | fuel + 1, g :: gs, starts => recogSeq lk inp fuel gs (recog lk inp fuel g starts)
def recogAlt (lk : String → G) (inp : Array String) : Nat → List G → List Nat → List Nat
  | 0, _, _ => []
  | _ + 1, [], _ => []
  | fuel + 1, g :: gs, starts => unionPos (recog lk inp fuel g starts) (recogAlt lk inp fuel gs starts)
/-- closure: `frontier` = positions found in the last round, `acc` = all positions so far -/
def recogStar (lk : String → G) (inp : Array String) : Nat → G → List Nat → List Nat → Nat → List Nat
  | 0, _, _, acc, _ => acc
  | _, _, _, acc, 0 => acc
  | fuel + 1, g, frontier, acc, rounds + 1 =>
    let nxt := (recog lk inp fuel g frontier).filter fun p => !acc.contains p
    if nxt.isEmpty then acc else recogStar lk inp fuel g nxt (unionPos nxt acc) rounds
end

/-- the executable oracle: is the token-class string a valid chunk? -/
def recognise (w : List String) : Bool :=
  let inp := w.toArray
  (recog lookup inp (40 * (w.length + 4)) (n "chunk") [0]).contains w.length

def recogniseMunch (w : List String) : Bool :=
  let inp := w.toArray
  (recog lookupMunch inp (40 * (w.length + 4)) (n "chunk") [0]).contains w.length

/-- valid once assignment targets are relaxed (class C03-K1 = ¬recognise ∧ recogniseRelaxed) -/
def recogniseRelaxed (w : List String) : Bool :=
  let inp := w.toArray
  (recog lookupRelaxed inp (40 * (w.length + 4)) (n "chunk") [0]).contains w.length

end LuaHelper.Grammar
