/-
S-pat: the two pattern checks whose implementation is deliberately narrower than the documented
pattern, stated at full width.  Written independently of the name strings the implementation compares.
  type 14  a comparison / and / or whose operands are the same expression up to source locations and
           redundant parentheses (whatever the operands are made of);
  type 5   a key of a table constructor that repeats an earlier literal key (integer, string, float,
           boolean, possibly negated) or bracketed name of the same constructor.
The model reports a subset (Props/C20 `sameOperands_exact`, `dupKeys_exact`); the difference is the
finding classes C20-K1 / C20-K2.
-/
import LuaHelper.Model.Pat
namespace LuaHelper.PatSpec
open LuaHelper.Lex LuaHelper.Ast LuaHelper.Pat

mutual
/-- the expression without any parentheses -/
def stripAll : Exp → Exp
  | .parens e _ => stripAll e
  | .unop o e l => .unop o (stripAll e) l
  | .binop o a b l => .binop o (stripAll a) (stripAll b) l
  | .index p k l => .index (stripAll p) (stripAll k) l
  | .call p m a l => .call (stripAll p) m (stripAlls a) l
  | e => e
def stripAlls : List Exp → List Exp
  | [] => []
  | e :: r => stripAll e :: stripAlls r
end

def spec14 (op : TK) (a b : Exp) : List Rep :=
  if isCmp op && located a b && compExp (stripAll a) (stripAll b) then [{ ty := 14, loc := spanLoc a b }] else []

/-- a literal key, possibly under unary operators -/
def litKey : Exp → Bool
  | .int _ _ | .str _ _ | .name _ _ | .flt _ _ | .tru _ | .fls _ => true
  | .unop _ e _ => litKey e
  | _ => false

def keyLoc (k : Exp) (parent : Loc) : Loc := match k with | .int _ _ => parent | _ => expLoc k

def specDupKeys (keys : List Exp) (parent : Loc) : List Rep :=
  (List.range keys.length).filterMap fun j =>
    match keys[j]? with
    | some kj =>
      if litKey kj && (keys.take j).any (fun ki => compExp ki kj) then some { ty := 5, loc := keyLoc kj parent, tag := (match keyStr kj parent with | some (s, _) => s | none => []) } else none
    | none => none

mutual
def sExp : Exp → List Rep
  | .unop _ e _ => sExp e
  | .binop op a b _ => sExp a ++ sExp b ++ spec14 op a b
  | .table ks vs l => ks.flatMap sExp ++ vs.flatMap sExp ++ specDupKeys ks l
  | .func f => sFunc f
  | .parens e _ => sExp e
  | .index p k _ => sExp p ++ sExp k
  | .call p _ a _ => sExp p ++ a.flatMap sExp
  | _ => []
def sFunc : FuncBody → List Rep
  | .mk _ _ _ _ _ body _ => sBlock body
def sBlock : Block → List Rep
  | .mk ss ret _ => ss.flatMap sStat ++ (match ret with | some es => es.flatMap sExp | none => [])
def sStat : Stat → List Rep
  | .do_ b _ => sBlock b
  | .while_ c b _ => sExp c ++ sBlock b
  | .repeat_ b c _ => sBlock b ++ sExp c
  | .if_ cs bs _ _ => cs.flatMap sExp ++ bs.flatMap sBlock
  | .fornum _ _ i l s b _ => sExp i ++ sExp l ++ sExp s ++ sBlock b
  | .forin _ es b _ => es.flatMap sExp ++ sBlock b
  | .assign vs es _ => vs.flatMap sExp ++ es.flatMap sExp
  | .local_ _ es _ => es.flatMap sExp
  | .localfn _ _ f _ => sFunc f
  | .callstat e => sExp e
  | _ => []
end

/-- the type-14 and type-5 reports the documented patterns ask for -/
def reports (b : Block) : List Rep := (sBlock b).eraseDups

end LuaHelper.PatSpec
