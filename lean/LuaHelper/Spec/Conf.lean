/-
S-conf: the documented meaning of the client settings (package.json of the extension /
docs/manual/config.md): one master switch, one switch per diagnostic type, ignore patterns.
`shown` = the diagnostic is shown.  Written to be read in a minute.
-/
import LuaHelper.Model.Conf
namespace LuaHelper.ConfSpec
open LuaHelper.Conf

/-- documented switch of every diagnostic type 1..25 (type, settings field, error constant) -/
def switchOf : List (Nat × String × String) := [
  (1, "CheckSyntax", "CheckErrorSyntax"), (2, "CheckNoDefine", "CheckErrorNoDefine"),
  (3, "CheckAfterDefine", "CheckErrorCycleDefine"), (4, "CheckLocalNoUse", "CheckErrorLocalNoUse"),
  (5, "CheckTableDuplicateKey", "CheckErrorTableDuplicateKey"), (6, "CheckReferNoFile", "CheckErrorNoFile"),
  (7, "CheckAssignParamNum", "CheckErrorAssignParamNum"), (8, "CheckLocalDefineParamNum", "CheckErrorLocalParamNum"),
  (9, "CheckGotoLable", "CheckErrorGotoLabel"), (10, "CheckFuncParam", "CheckErrorCallParam"),
  (11, "CheckImportModuleVar", "CheckErrorImportVar"), (12, "CheckIfNotVar", "CheckErrorNotIfVar"),
  (13, "CheckFunctionDuplicateParam", "CheckErrorDuplicateParam"),
  (14, "CheckBinaryExpressionDuplicate", "CheckErrorDuplicateExp"),
  (15, "CheckErrorOrAlwaysTrue", "CheckErrorOrAlwaysTrue"), (16, "CheckErrorAndAlwaysFalse", "CheckErrorAndAlwaysFalse"),
  (17, "CheckNoUseAssign", "CheckErrorNoUseAssign"), (18, "CheckAnnotateType", "CheckErrorAnnotate"),
  (19, "CheckDuplicateIf", "CheckErrorDuplicateIf"), (20, "CheckSelfAssign", "CheckErrorSelfAssign"),
  (21, "CheckFloatEq", "CheckErrorFloatEq"), (22, "CheckClassField", "CheckErrorClassField"),
  (23, "CheckConstAssign", "CheckErrorConstAssign"), (24, "CheckFuncParamType", "CheckErrorCallParamType"),
  (25, "CheckFuncReturnType", "CheckErrorFuncRetErr")]

/-- client settings: a value for every switch, and the ignore patterns -/
structure Settings where
  val : String → Bool
  ignoreErr : List String

/-- is a diagnostic of type `ty` (1..25) in `file` shown under `s`? -/
def shown (s : Settings) (rx : String → String → Bool) (file : String) (ty : Nat) : Bool :=
  s.val "AllEnable" &&
  (match switchOf.find? (·.1 == ty) with
   | some (_, fld, _) => s.val fld
   | none => false) &&
  !(s.ignoreErr ++ ["server/meta"]).any (patMatch rx file)

/-- the types whose diagnostics are produced by the cross-file pass (the list of `IsSpecialCheck`; goto-label,
    type 9, was missing from it: finding C17-K1, repaired) -/
def specialTypes : List Nat := [2, 3, 9, 10, 11, 12]

/-- master on and the switches of ALL the cross-file types off: the configuration in which the pass is skipped -/
def specialOff (s : Settings) : Bool :=
  s.val "AllEnable" && !s.val "CheckNoDefine" && !s.val "CheckAfterDefine" && !s.val "CheckGotoLable" &&
  !s.val "CheckFuncParam" && !s.val "CheckImportModuleVar" && !s.val "CheckIfNotVar"

end LuaHelper.ConfSpec
