/-
S-lsp: the LSP text-document model (LSP 3.17 §"Text Documents" / "Position"):
  * a document is a sequence of characters; lines are ended by LF, CRLF or CR;
  * Position.character counts UTF-16 code units from the start of the line;
  * a character value greater than the line length defaults back to the line length;
  * a content change with a range replaces the text between the two offsets, one without a range
    replaces the whole document.
The spec works on *spec characters* (`Ch`) and their UTF-8 encoding.  Core Lean only.
-/
import LuaHelper.Model.Text
namespace LuaHelper.Lsp
open LuaHelper.Text

/-- A spec character: UTF-8 bytes, UTF-16 length, and whether it ends a line. -/
inductive Ch where
  | ascii (b : UInt8)          -- 0x00..0x7F except LF and CR
  | two (a b : UInt8)          -- U+0080..U+07FF
  | three (a b c : UInt8)      -- U+0800..U+FFFF (BMP)
  | four (a b c d : UInt8)     -- astral: two UTF-16 units
  | lf | crlf | cr
deriving Repr, DecidableEq, Inhabited

def Ch.bytes : Ch → Bytes
  | .ascii b => [b] | .two a b => [a, b] | .three a b c => [a, b, c] | .four a b c d => [a, b, c, d]
  | .lf => [10] | .crlf => [13, 10] | .cr => [13]

def Ch.units : Ch → Nat
  | .four .. => 2 | _ => 1

def Ch.isEol : Ch → Bool
  | .lf | .crlf | .cr => true | _ => false

/-- well-formed spec character (what a UTF-8 encoder can produce) -/
def Ch.wf : Ch → Prop
  | .ascii b => b < 0x80 ∧ b ≠ 10 ∧ b ≠ 13
  | .two a _ => 0xC0 ≤ a ∧ a < 0xE0
  | .three a _ _ => 0xE0 ≤ a ∧ a < 0xF0
  | .four a _ _ _ => 0xF0 ≤ a ∧ a < 0xF8
  | _ => True

instance (c : Ch) : Decidable c.wf := by cases c <;> unfold Ch.wf <;> exact inferInstance

def encode (cs : List Ch) : Bytes := cs.flatMap Ch.bytes

/-- LSP position of the point just after `pre` (line, UTF-16 column), starting from `(l, c)`. -/
def posAfter (l c : Nat) : List Ch → Pos
  | [] => ⟨l, c⟩
  | x :: xs => if x.isEol then posAfter (l + 1) 0 xs else posAfter l (c + x.units) xs

def posOf (pre : List Ch) : Pos := posAfter 0 0 pre

/-- Decode UTF-8 bytes into spec characters.  Stray / truncated bytes become one `ascii`-like unit
    each (never produced by the generators for spec comparisons; present to keep `decode` total). -/
def decode : Bytes → List Ch
  | [] => []
  | 13 :: 10 :: r => .crlf :: decode r
  | 13 :: r => .cr :: decode r
  | 10 :: r => .lf :: decode r
  | a :: r =>
    if a < 0x80 then .ascii a :: decode r
    else if 0xC0 ≤ a ∧ a < 0xE0 then
      match hr : r with
      | b :: r' => .two a b :: decode r'
      | _ => .ascii a :: decode r
    else if 0xE0 ≤ a ∧ a < 0xF0 then
      match hr : r with
      | b :: c :: r' => .three a b c :: decode r'
      | _ => .ascii a :: decode r
    else if 0xF0 ≤ a ∧ a < 0xF8 then
      match hr : r with
      | b :: c :: d :: r' => .four a b c d :: decode r'
      | _ => .ascii a :: decode r
    else .ascii a :: decode r
termination_by b => b.length
decreasing_by all_goals (subst_vars; simp; try omega)

/-- Spec: byte offset of an LSP position in a decoded document; `none` = line does not exist.
    `off` = bytes consumed so far, `l`,`c` = remaining lines / remaining UTF-16 units to skip. -/
def specOffsetCh : List Ch → (l c off : Nat) → Option Nat
  | [], l, _, off => if l = 0 then some off else none          -- last line: clamp to its end
  | x :: xs, 0, c, off =>
    if x.isEol then some off                                   -- beyond end of line: clamp
    else if c = 0 then some off
    else if c < x.units then some off                          -- inside a surrogate pair: clamp back
    else specOffsetCh xs 0 (c - x.units) (off + x.bytes.length)
  | x :: xs, l + 1, c, off =>
    if x.isEol then specOffsetCh xs l c (off + x.bytes.length)
    else specOffsetCh xs (l + 1) c (off + x.bytes.length)

def specOffset (doc : Bytes) (p : Pos) : Option Nat := specOffsetCh (decode doc) p.line p.ch 0

/-- Spec: apply one batch of content changes. `none` = the client referred to a line that does not
    exist or gave end < start (non-conformant). -/
def specApply (doc : Bytes) : List Change → Option Bytes
  | [] => some doc
  | ch :: more =>
    match ch.range with
    | none => specApply ch.text more
    | some (sp, ep) =>
      match specOffset doc sp, specOffset doc ep with
      | some s, some e =>
        if e < s then none else specApply (doc.take s ++ ch.text ++ doc.drop e) more
      | _, _ => none

/-- Spec state: what the *client* holds for each open document. -/
def specStep (c : Cache) : Op → Cache
  | .opn u t => c.set u t
  | .chg u chs =>
    match c.get u with
    | none => c
    | some doc =>
      match specApply doc chs with
      | none => c            -- non-conformant change: the client would not have sent it
      | some d => c.set u d
  | .sav u t => c.set u t
  | .cls u => c.del u

def specRun (ops : List Op) : Cache := ops.foldl specStep []

end LuaHelper.Lsp
