/-
S-col: the true LSP position (0-based line; UTF-16 column) of a byte offset of a document, and the
decidable classes of "what precedes a token on its line" that the C04 statements exclude.
Core Lean only.
-/
import LuaHelper.Spec.Lsp
namespace LuaHelper.Col
open LuaHelper.Text LuaHelper.Lsp

/-- walk the decoded characters until `off` bytes are consumed -/
def posOfOffsetCh : List Ch → (off line col consumed : Nat) → Nat × Nat
  | [], _, line, col, _ => (line, col)
  | x :: xs, off, line, col, consumed =>
    if consumed ≥ off then (line, col)
    else if x.isEol then posOfOffsetCh xs off (line + 1) 0 (consumed + x.bytes.length)
    else posOfOffsetCh xs off line (col + x.units) (consumed + x.bytes.length)

/-- true (line, UTF-16 column) of byte offset `off` -/
def posOfOffset (doc : Bytes) (off : Nat) : Nat × Nat := posOfOffsetCh (decode doc) off 0 0 0

/-- byte offset at which the line containing `off` starts (after the last LF / CRLF / CR before it) -/
def lineStartOff (doc : Bytes) (off : Nat) : Nat :=
  let pre := doc.take off
  let rec go : Bytes → Nat → Nat → Nat
    | [], _, last => last
    | 13 :: 10 :: r, i, _ => go r (i + 2) (i + 2)
    | 13 :: r, i, _ => go r (i + 1) (i + 1)
    | 10 :: r, i, _ => go r (i + 1) (i + 1)
    | _ :: r, i, last => go r (i + 1) last
  go pre 0 0

def hasInfix (pat : Bytes) : Bytes → Bool
  | [] => pat.isEmpty
  | c :: r => pat.isPrefixOf (c :: r) || hasInfix pat r

/-- what precedes a token on its own line / in the file (letters):
    (E — a backslash earlier on the line — was a class until the lexer was repaired to advance by the
      source text of a string instead of its value)
    L a long bracket ([[ or [=) earlier on the line or a multi-line token ends on this line (computed, no longer a
      class: the line start behind a long bracket was repaired)
    A a character outside the BMP (4-byte UTF-8) earlier on the line (computed, no longer a class: the lexer counts
      UTF-16 units since the repair)
    N the lead byte of a two-byte UTF-8 sequence earlier on the line (a string containing one is taken for GBK;
      three- and four-byte sequences alone are exact)
    R an LF CR pair somewhere before (counted as ONE line break by the lexer, two by LSP)
    M the token starts on a line where a multi-line construct (long string/comment, backslash-newline
      in a string) ended -/
def lineClasses (doc : Bytes) (off : Nat) : String :=
  let ls := lineStartOff doc off
  let pre := (doc.take off).drop ls
  let before := doc.take off
  (if hasInfix [91, 91] pre || hasInfix [91, 61] pre || hasInfix [93, 93] pre || hasInfix [61, 93] pre then "L" else "") ++
  (if pre.any (· ≥ 0xF0) then "A" else "") ++
  (if pre.any (fun b => b ≥ 0xC0 && b < 0xE0) then "N" else "") ++   -- the lead byte of a two-byte sequence
  (if hasInfix [10, 13] before then "R" else "")

end LuaHelper.Col
