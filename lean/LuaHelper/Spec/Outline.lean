/-
S-outline: what the document-symbol outline / workspace-symbol index of a file must contain (C19):
every top-level local, every global variable, and every function — including function-valued table
members `t.f` / `t:m` of a top-level local or global table (declared by a function statement, by
assigning a function expression, or as a named field of the table constructor that initialises t).
Each requirement carries the Loc of the declaring identifier; "global" is decided by S-bind.
Also: the range a table symbol with children gets (`extend`), after the repair of the range rewrite.
Core Lean only; every function is structurally recursive.
-/
import LuaHelper.Spec.Bind
namespace LuaHelper.Outline
open LuaHelper.Lex LuaHelper.Ast LuaHelper.Bind

structure Req where
  /-- "a", "g", "t.f" (methods are written with '.', `colon` says the outline shows "t:m") -/
  qname : Bytes
  colon : Bool := false
  /-- "local" | "global" | "member" -/
  cls : String
  /-- acceptable places: the declaring identifier (for a global: every assignment target of that name) -/
  locs : List Loc
  /-- function-valued -/
  fn : Bool := false
  /-- function-valued through `name = function … end` / a constructor field (the function expression
      starts after the identifier) rather than through a function statement -/
  byAssign : Bool := false
  /-- a later top-level local of the same name exists (for members: of the base) -/
  shadowed : Bool := false
deriving Repr, DecidableEq, Inhabited

def isFunc : Exp → Bool | .func _ => true | _ => false
/-- a function expression that is not the body of a function statement -/
def isFuncExp : Exp → Bool | .func (.mk _ fnm _ _ _ _ _) => fnm.isEmpty | _ => false
def isColonFunc : Exp → Bool | .func (.mk _ _ _ _ c _ _) => c | _ => false

/-- top-level `local` declarations: (name, identifier Loc, initialiser if any) -/
def localPairs : List (Bytes × Loc × Nat) → List Exp → List (Bytes × Loc × Option Exp)
  | [], _ => []
  | (n, l, _) :: ns, [] => (n, l, none) :: localPairs ns []
  | (n, l, _) :: ns, e :: es => (n, l, some e) :: localPairs ns es

def topLocals : List Stat → List (Bytes × Loc × Option Exp)
  | [] => []
  | .local_ names exps _ :: r => localPairs names exps ++ topLocals r
  | .localfn n nl f _ :: r => (n, nl, some (.func f)) :: topLocals r
  | _ :: r => topLocals r

/-- named fields of a table constructor: (key, key Loc, value) -/
def ctorFields : List Exp → List Exp → List (Bytes × Loc × Exp)
  | .str k kl :: ks, v :: vs => (k, kl, v) :: ctorFields ks vs
  | _ :: ks, _ :: vs => ctorFields ks vs
  | _, _ => []

/-- the fields of the constructor that initialises a table: `{ … }` itself, or the default idiom `X or { … }` -/
def fieldsOf : Option Exp → List (Bytes × Loc × Exp)
  | some (.table ks vs _) => ctorFields ks vs
  | some (.binop .or _ (.table ks vs _) _) => ctorFields ks vs
  | _ => []

/-- member declarations made by the top-level statements: (base name, base identifier Loc, key, key Loc, value) -/
def topMembers : List Stat → List (Bytes × Loc × Bytes × Loc × Exp)
  | [] => []
  | .assign [.index (.name t tl) (.str k kl) _] [e] _ :: r => (t, tl, k, kl, e) :: topMembers r
  | .assign [.name t tl] [.table ks vs _] _ :: r =>
    (ctorFields ks vs).map (fun (k, kl, v) => (t, tl, k, kl, v)) ++ topMembers r
  | .assign [.name t tl] [.binop .or _ (.table ks vs _) _] _ :: r =>
    (ctorFields ks vs).map (fun (k, kl, v) => (t, tl, k, kl, v)) ++ topMembers r
  | .local_ names exps _ :: r =>
    (localPairs names exps).flatMap (fun (n, l, e) => (fieldsOf e).map fun (k, kl, v) => (n, l, k, kl, v)) ++ topMembers r
  | _ :: r => topMembers r

def blockStats : Block → List Stat | .mk ss _ _ => ss

mutual
/-- every `name = function … end` (function EXPRESSION, at any depth): the Loc of the target name -/
def fxExp : Exp → List Loc
  | .unop _ e _ => fxExp e
  | .binop _ a b _ => fxExp a ++ fxExp b
  | .table ks vs _ => fxExps ks ++ fxExps vs
  | .func f => fxFunc f
  | .parens e _ => fxExp e
  | .index p k _ => fxExp p ++ fxExp k
  | .call p _ a _ => fxExp p ++ fxExps a
  | _ => []
def fxExps : List Exp → List Loc
  | [] => []
  | e :: r => fxExp e ++ fxExps r
def fxFunc : FuncBody → List Loc
  | .mk _ _ _ _ _ b _ => fxBlock b
def fxBlock : Block → List Loc
  | .mk ss ret _ => fxStats ss ++ (match ret with | some es => fxExps es | none => [])
def fxStats : List Stat → List Loc
  | [] => []
  | s :: r => fxStat s ++ fxStats r
def fxBlocks : List Block → List Loc
  | [] => []
  | b :: r => fxBlock b ++ fxBlocks r
def fxStat : Stat → List Loc
  | .do_ b _ => fxBlock b
  | .while_ c b _ => fxExp c ++ fxBlock b
  | .repeat_ b c _ => fxBlock b ++ fxExp c
  | .if_ cs bs _ _ => fxExps cs ++ fxBlocks bs
  | .fornum _ _ i l s b _ => fxExp i ++ fxExp l ++ fxExp s ++ fxBlock b
  | .forin _ es b _ => fxExps es ++ fxBlock b
  | .assign vs es _ =>
    (match vs, es with
     | [.name _ l], [e] => if isFuncExp e then [l] else []
     | _, _ => []) ++ fxExps vs ++ fxExps es
  | .local_ _ es _ => fxExps es
  | .localfn _ _ f _ => fxFunc f
  | .callstat e => fxExp e
  | _ => []
end

def dot (a b : Bytes) : Bytes := a ++ [46] ++ b

def countName (n : Bytes) (l : List (Bytes × Loc × Option Exp)) : Nat := (l.filter (·.1 == n)).length

/-- is `l` the LAST top-level local declaration of its name? -/
def lastOf (tl : List (Bytes × Loc × Option Exp)) (n : Bytes) : Option Loc :=
  ((tl.filter (·.1 == n)).getLast?).map (·.2.1)

def required (b : Block) : List Req :=
  let occs := bindChunk b
  let tl := topLocals (blockStats b)
  let locals : List Req := tl.map fun (n, l, e) =>
    { qname := n, cls := "local", locs := [l], fn := (e.map isFunc).getD false,
      byAssign := (e.map isFuncExp).getD false, shadowed := lastOf tl n != some l }
  let gw := occs.filter fun o => o.isWrite && o.decl.isNone
  let gnames := (gw.map (·.name)).eraseDups
  let fx := fxBlock b
  let globals : List Req := gnames.map fun n =>
    let ws := gw.filter (·.name == n)
    { qname := n, cls := "global", locs := ws.map (·.loc), fn := ws.any (·.init == "func"),
      byAssign := ws.all (fun o => fx.contains o.loc) }
  let members : List Req := (topMembers (blockStats b)).filterMap fun (t, tloc, k, kl, v) =>
    if !isFunc v then none else
    -- the base resolves to a top-level local, to a global, or (declaring occurrence) is that local itself
    let d : Option (Option Loc) :=
      match occs.find? (fun o => o.loc == tloc && o.name == t) with
      | some o => some o.decl
      | none => none
    match d with
    | none => none
    | some none => some { qname := dot t k, colon := isColonFunc v, cls := "member", locs := [kl], fn := true, byAssign := isFuncExp v }
    | some (some dl) =>
      if tl.any (fun (n, l, _) => n == t && l == dl) then
        some { qname := dot t k, colon := isColonFunc v, cls := "member", locs := [kl], fn := true, byAssign := isFuncExp v,
               shadowed := lastOf tl t != some dl }
      else none
  locals ++ globals ++ members

/-! ### the range of a table symbol with children -/

/-- later of two end positions -/
def maxEnd (m : Int × Int) (c : Loc) : Int × Int :=
  if c.el > m.1 then (c.el, c.ec)
  else if c.el == m.1 && c.ec > m.2 then (m.1, c.ec)
  else m

/-- FindAllSymbol / FindAllLocalVal: the symbol's range starts at the declaring identifier and is
    extended to the latest end among its children -/
def extend (d : Loc) (children : List Loc) : Loc :=
  let m := children.foldl maxEnd (d.el, d.ec)
  { d with el := m.1, ec := m.2 }

/-- the formula before the repair: `Loc.EndLine = max.EndLine; Loc.StartColumn = max.EndColumn` -/
def extendOld (d : Loc) (children : List Loc) : Loc :=
  let m := children.foldl maxEnd (d.el, d.ec)
  { d with el := m.1, sc := m.2 }

/-- positions in order -/
def posLe (l1 c1 l2 c2 : Int) : Bool := l1 < l2 || (l1 == l2 && c1 ≤ c2)
def wellFormed (l : Loc) : Bool := posLe l.sl l.sc l.el l.ec
/-- range `a` contains range `b` -/
def contains (a b : Loc) : Bool := posLe a.sl a.sc b.sl b.sc && posLe b.el b.ec a.el a.ec

/-- `FuncSymbolLoc` (var_info.go): the range of a function symbol — the function, extended back to the name it
    is assigned to when the name comes first (`local f = function … end`); the function's own range when it
    starts at or before the name (`function f() … end`) or the name has no location -/
def funcSymbolLoc (v f : Loc) : Loc :=
  if isInitialLoc v || v.sl > f.sl || (v.sl == f.sl && v.sc ≥ f.sc) then f
  else { f with sl := v.sl, sc := v.sc }

end LuaHelper.Outline
