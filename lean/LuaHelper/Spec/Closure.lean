/-
S-closure: the classes whose ---@field members a typed variable has: everything reachable from the
names of its type through class → parent and alias → aliased-name edges (C15).  `go` is a worklist
search with a visited list; it is total (terminates on every graph, cyclic ones included) because
each expansion visits a node of the finite node list that was not visited before.
`Reach` is the mathematical transitive closure; Props/C15 proves `closure` computes exactly it.
Core Lean only.
-/
namespace LuaHelper.Closure

abbrev Name := String
/-- declarations: (name, successors); a name may be declared several times (a class split across
    files): its successors are merged -/
abbrev Graph := List (Name × List Name)

def succs (g : Graph) (n : Name) : List Name := (g.filter (·.1 == n)).flatMap (·.2)
def nodesOf (g : Graph) : List Name := g.map (·.1)

def unvisited (nodes vis : List Name) : Nat := (nodes.filter fun n => !vis.contains n).length

theorem filter_len_le (l : List Name) (p q : Name → Bool) (h : ∀ x, q x = true → p x = true) :
    (l.filter q).length ≤ (l.filter p).length := by
  induction l with
  | nil => simp
  | cons a r ih =>
    rw [List.filter_cons, List.filter_cons]
    cases hq : q a
    · cases hp : p a
      · simpa using ih
      · simp; omega
    · rw [h a hq]; simpa using ih

theorem filter_len_lt (l : List Name) (p q : Name → Bool) (n : Name) (h : ∀ x, q x = true → p x = true)
    (hn : n ∈ l) (hp : p n = true) (hq : q n = false) : (l.filter q).length < (l.filter p).length := by
  induction l with
  | nil => cases hn
  | cons a r ih =>
    rw [List.filter_cons, List.filter_cons]
    by_cases ha : a = n
    · subst ha
      rw [hp, hq]
      have := filter_len_le r p q h
      simp; omega
    · have hr : n ∈ r := by
        rcases List.mem_cons.mp hn with h1 | h1
        · exact absurd h1.symm ha
        · exact h1
      have ih' := ih hr
      cases hqa : q a
      · cases hpa : p a
        · simpa using ih'
        · simp; omega
      · rw [h a hqa]; simpa using ih'

theorem unvisited_lt (nodes vis : List Name) (n : Name) (hn : nodes.contains n = true) (hv : vis.contains n = false) :
    unvisited nodes (n :: vis) < unvisited nodes vis := by
  unfold unvisited
  apply filter_len_lt nodes (fun x => !vis.contains x) (fun x => !(n :: vis).contains x) n
  · intro x hx
    simp at hx ⊢
    exact hx.2
  · simpa using hn
  · have : ¬ n ∈ vis := by simpa using hv
    simp [this]
  · simp

/-- worklist search: `work` = names still to look at, `vis` = nodes already collected -/
def go (g : Graph) (nodes : List Name) : List Name → List Name → List Name
  | [], vis => vis
  | n :: work, vis =>
    if h : vis.contains n = true ∨ nodes.contains n = false then go g nodes work vis
    else go g nodes (succs g n ++ work) (n :: vis)
termination_by work vis => (unvisited nodes vis, work.length)
decreasing_by
  · exact Prod.Lex.right _ (by simp)
  · apply Prod.Lex.left
    have h1 : vis.contains n = false := by
      cases hc : vis.contains n
      · rfl
      · exact absurd (Or.inl hc) h
    have h2 : nodes.contains n = true := by
      cases hc : nodes.contains n
      · exact absurd (Or.inr hc) h
      · rfl
    exact unvisited_lt nodes vis n h2 h1

/-- the declared names reachable from `roots` -/
def closure (g : Graph) (roots : List Name) : List Name := go g (nodesOf g) roots []

/-- reachability among declared names -/
inductive Reach (g : Graph) : Name → Name → Prop where
  | refl (a : Name) : (nodesOf g).contains a = true → Reach g a a
  | step (a b c : Name) : Reach g a b → c ∈ succs g b → (nodesOf g).contains c = true → Reach g a c

end LuaHelper.Closure
