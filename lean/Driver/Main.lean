/- lhdriver: one operation per line in, one canonical line out. Imports models/specs only. -/
import LuaHelper.Driver.TextOps
import LuaHelper.Driver.ConfOps
import LuaHelper.Driver.LexOps
import LuaHelper.Driver.ParseOps
import LuaHelper.Driver.GrammarOps
import LuaHelper.Driver.ScopeOps
import LuaHelper.Driver.HovOps
import LuaHelper.Driver.PatOps
import LuaHelper.Driver.OutlineOps
import LuaHelper.Driver.ModOps
import LuaHelper.Driver.AnnotOps
import LuaHelper.Driver.ClosureOps
import LuaHelper.Driver.CommentOps
import LuaHelper.Driver.DiagOps
import LuaHelper.Driver.MergeOps
open LuaHelper

def dispatch (cmd : String) (args : List String) : String :=
  match TextOps.handle cmd args with
  | some r => r
  | none =>
  match ConfOps.handle cmd args with
  | some r => r
  | none =>
  match LexOps.handle cmd args with
  | some r => r
  | none =>
  match ParseOps.handle cmd args with
  | some r => r
  | none =>
  match GrammarOps.handle cmd args with
  | some r => r
  | none =>
  match ScopeOps.handle cmd args with
  | some r => r
  | none =>
  match HovOps.handle cmd args with
  | some r => r
  | none =>
  match PatOps.handle cmd args with
  | some r => r
  | none =>
  match OutlineOps.handle cmd args with
  | some r => r
  | none =>
  match ModOps.handle cmd args with
  | some r => r
  | none =>
  match AnnotOps.handle cmd args with
  | some r => r
  | none =>
  match ClosureOps.handle cmd args with
  | some r => r
  | none =>
  match DiagOps.handle cmd args with
  | some r => r
  | none =>
  match MergeOps.handle cmd args with
  | some r => r
  | none =>
  match CommentOps.handle cmd args with
  | some r => r
  | none => "bad-op"

partial def loop (h : IO.FS.Stream) (out : IO.FS.Stream) : IO Unit := do
  let line ← h.getLine
  if line.isEmpty then return ()
  let ws := (line.trimAscii.toString.splitOn " ").filter (· ≠ "")
  match ws with
  | [] => out.putStrLn "bad-op"
  | cmd :: args => out.putStrLn (dispatch cmd args)
  out.flush
  loop h out

def main : IO Unit := do loop (← IO.getStdin) (← IO.getStdout)
