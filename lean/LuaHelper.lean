import LuaHelper.Model.Text
import LuaHelper.Spec.Lsp
