package main

import (
	"fmt"
	"os"
	"go/ast"
	"go/parser"
	"path/filepath"
	"sort"
	"strings"
)

// genShapes: (a) for the document / file handlers, the diagnostics-bookkeeping methods they call, in
// source order (C08's model Diag.ev* is written after these sequences); (b) the keyword table of the
// annotation lexer (C16's model Annot.kwTable).
func genShapes(repo string) {
	book := map[string]bool{"pushAllDiagnosticsAgain": true, "ClearChangeFileErr": true, "InsertChangeFileErr": true, "ClearFileSyntaxErr": true,
		"SaveOneFilePushAgain": true, "ClearOneFileDiagnostic": true, "RemoveFile": true, "GetAllDiagnostics": true}
	handlers := []string{"TextDocumentDidOpen", "TextDocumentDidChange", "WorkspaceChangeWatchedFiles", "TextDocumentDidClose", "TextDocumentDidSave"}
	calls := map[string][]string{}
	path := filepath.Join(repo, "langserver/textdocument_file_request.go")
	f, err := parser.ParseFile(fset, path, nil, 0)
	if err != nil {
		fail("parse %s: %v", path, err)
	}
	for _, d := range f.Decls {
		fd, ok := d.(*ast.FuncDecl)
		if !ok || fd.Body == nil {
			continue
		}
		ast.Inspect(fd.Body, func(n ast.Node) bool {
			c, ok := n.(*ast.CallExpr)
			if !ok {
				return true
			}
			if se, ok := c.Fun.(*ast.SelectorExpr); ok {
				if id, ok := se.X.(*ast.Ident); ok && id.Name == "l" && book[se.Sel.Name] {
					calls[fd.Name.Name] = append(calls[fd.Name.Name], se.Sel.Name)
				}
			}
			return true
		})
	}
	var b strings.Builder
	b.WriteString("namespace LuaHelper.Gen\n\n/-- (handler, the diagnostics-bookkeeping methods it calls, in source order) -/\n")
	b.WriteString("def bookkeepingCalls : List (String × List String) := [\n")
	for i, h := range handlers {
		if _, ok := calls[h]; !ok {
			fail("handler %s not found or calls no bookkeeping method", h)
		}
		sep := ","
		if i == len(handlers)-1 {
			sep = ""
		}
		fmt.Fprintf(&b, "  (%s, %s)%s\n", leanStr(h), leanStrList(calls[h]), sep)
	}
	b.WriteString("]\n\n")
	// the bookkeeping methods themselves: what each does to the three maps and which other methods it calls, with the
	// nesting depth (number of enclosing if / for statements; 0 = unconditionally) — Diag.pushAll / insertChange /
	// saveOne / clearSyntax are written after these
	mpath := filepath.Join(repo, "langserver/diagnostics_manager.go")
	mf, err := parser.ParseFile(fset, mpath, nil, 0)
	if err != nil {
		fail("parse %s: %v", mpath, err)
	}
	managers := []string{"pushAllDiagnosticsAgain", "pushAllChangeFileDiagnosticErr", "InsertChangeFileErr", "ClearChangeFileErr", "SaveOneFilePushAgain", "ClearFileSyntaxErr"}
	mops := map[string][]string{}
	selOfL := func(e ast.Expr) string {
		if se, ok := e.(*ast.SelectorExpr); ok {
			if id, ok := se.X.(*ast.Ident); ok && id.Name == "l" {
				return se.Sel.Name
			}
		}
		return ""
	}
	for _, d := range mf.Decls {
		fd, ok := d.(*ast.FuncDecl)
		if !ok || fd.Body == nil {
			continue
		}
		var stack []ast.Node
		depth := func() int {
			n := 0
			for _, x := range stack {
				switch x.(type) {
				case *ast.IfStmt, *ast.ForStmt, *ast.RangeStmt:
					n++
				}
			}
			return n
		}
		ast.Inspect(fd.Body, func(n ast.Node) bool {
			if n == nil {
				stack = stack[:len(stack)-1]
				return true
			}
			switch x := n.(type) {
			case *ast.CallExpr:
				if name := selOfL(x.Fun); name != "" && !strings.HasPrefix(name, "send") {
					mops[fd.Name.Name] = append(mops[fd.Name.Name], fmt.Sprintf("call:%s@%d", name, depth()))
				}
				if id, ok := x.Fun.(*ast.Ident); ok && id.Name == "delete" && len(x.Args) == 2 {
					if name := selOfL(x.Args[0]); name != "" {
						mops[fd.Name.Name] = append(mops[fd.Name.Name], fmt.Sprintf("del:%s@%d", name, depth()))
					}
				}
			case *ast.AssignStmt:
				for _, lhs := range x.Lhs {
					if ie, ok := lhs.(*ast.IndexExpr); ok {
						if name := selOfL(ie.X); name != "" {
							mops[fd.Name.Name] = append(mops[fd.Name.Name], fmt.Sprintf("set:%s@%d", name, depth()))
						}
					} else if name := selOfL(lhs); name != "" {
						mops[fd.Name.Name] = append(mops[fd.Name.Name], fmt.Sprintf("assign:%s@%d", name, depth()))
					}
				}
			}
			stack = append(stack, n)
			return true
		})
	}
	b.WriteString("/-- (bookkeeping method, its map updates and calls in source order, each with its if/for nesting depth) -/\n")
	b.WriteString("def managerOps : List (String × List String) := [\n")
	for i, h := range managers {
		if _, ok := mops[h]; !ok {
			fail("bookkeeping method %s not found in diagnostics_manager.go", h)
		}
		sep := ","
		if i == len(managers)-1 {
			sep = ""
		}
		fmt.Fprintf(&b, "  (%s, %s)%s\n", leanStr(h), leanStrList(mops[h]), sep)
	}
	b.WriteString("]\n\n")
	// the owner lookup of getVarCommonFuncParam (go-to-definition on a table-constructor key): its guard and whether it
	// marks the name chain, and the cut of FindVarDefineInfo's retry loop — Props/C01 Retry.* is written after these
	dpath := filepath.Join(repo, "langserver/check/check_lsp_define.go")
	defFile, defErr := parser.ParseFile(fset, dpath, nil, 0)
	if defErr != nil {
		fail("parse %s: %v", dpath, defErr)
	}
	var ownerLookup []string
	for _, d := range defFile.Decls {
		fd, ok := d.(*ast.FuncDecl)
		if !ok || fd.Body == nil {
			continue
		}
		switch fd.Name.Name {
		case "getVarCommonFuncParam":
			ast.Inspect(fd.Body, func(n ast.Node) bool {
				is, ok := n.(*ast.IfStmt)
				if !ok || !strings.Contains(exprText(is.Cond), "len(varStruct.StrVec)==1") {
					return true
				}
				ownerLookup = append(ownerLookup, "guard:"+exprText(is.Cond))
				ast.Inspect(is.Body, func(m ast.Node) bool {
					if as, ok := m.(*ast.AssignStmt); ok && len(as.Lhs) == 1 && exprText(as.Lhs[0]) == "varStruct.OwnerFlag" {
						ownerLookup = append(ownerLookup, "sets:varStruct.OwnerFlag="+exprText(as.Rhs[0]))
					}
					return true
				})
				return false
			})
		case "FindVarDefineInfo":
			ast.Inspect(fd.Body, func(n ast.Node) bool {
				if as, ok := n.(*ast.AssignStmt); ok && len(as.Lhs) == 1 && exprText(as.Lhs[0]) == "varStruct.StrVec" {
					ownerLookup = append(ownerLookup, "cut:"+exprText(as.Rhs[0]))
				}
				if as, ok := n.(*ast.AssignStmt); ok && len(as.Lhs) == 1 && exprText(as.Lhs[0]) == "subLen" {
					ownerLookup = append(ownerLookup, "subLen:"+exprText(as.Rhs[0]))
				}
				return true
			})
		}
	}
	if len(ownerLookup) == 0 {
		fail("check_lsp_define.go: owner lookup / retry loop not found")
	}
	b.WriteString("/-- owner lookup of getVarCommonFuncParam and the cut of FindVarDefineInfo's retry loop -/\ndef ownerLookup : List String := " + leanStrList(ownerLookup) + "\n\n")
	// annotation keywords
	kpath := filepath.Join(repo, "langserver/check/annotation/annotatelexer/annotate_token.go")
	kf, err := parser.ParseFile(fset, kpath, nil, 0)
	if err != nil {
		fail("parse %s: %v", kpath, err)
	}
	var kws []string
	ast.Inspect(kf, func(n ast.Node) bool {
		vs, ok := n.(*ast.ValueSpec)
		if !ok || len(vs.Names) != 1 || vs.Names[0].Name != "keywords" || len(vs.Values) != 1 {
			return true
		}
		cl, ok := vs.Values[0].(*ast.CompositeLit)
		if !ok {
			fail("annotate_token.go: keywords is not a composite literal")
		}
		for _, e := range cl.Elts {
			kv := e.(*ast.KeyValueExpr)
			k := strings.Trim(kv.Key.(*ast.BasicLit).Value, "\"")
			kws = append(kws, k+"="+kv.Value.(*ast.Ident).Name)
		}
		return false
	})
	if len(kws) == 0 {
		fail("annotate_token.go: keyword map not found")
	}
	sort.Strings(kws)
	b.WriteString("/-- the keyword map of the annotation lexer: \"word=ATokenKw…\", sorted -/\n")
	b.WriteString("def annotKeywords : List String := " + leanStrList(kws) + "\n\n")
	// module resolution: order of attempts in CheckReferFile, score constants of calcMatchStrScore
	var attempts, lits, consts []string
	rf, err := parser.ParseFile(fset, filepath.Join(repo, "langserver/check/results/file_result.go"), nil, 0)
	if err != nil {
		fail("parse file_result.go: %v", err)
	}
	for _, d := range rf.Decls {
		fd, ok := d.(*ast.FuncDecl)
		if !ok || fd.Name.Name != "CheckReferFile" {
			continue
		}
		ast.Inspect(fd.Body, func(n ast.Node) bool {
			switch x := n.(type) {
			case *ast.CallExpr:
				if se, ok := x.Fun.(*ast.SelectorExpr); ok {
					switch se.Sel.Name {
					case "MatchCompleteReferFile", "GetBestMatchReferFile", "MatchAllDirReferFile", "InsertError":
						attempts = append(attempts, se.Sel.Name)
					}
				}
			case *ast.BasicLit:
				if strings.HasPrefix(x.Value, "\"") && (strings.Contains(x.Value, ".") || strings.Contains(x.Value, "/")) && !strings.Contains(x.Value, "%") {
					lits = append(lits, strings.Trim(x.Value, "\""))
				}
			}
			return true
		})
	}
	df, err := parser.ParseFile(fset, filepath.Join(repo, "langserver/check/common/dir_manager.go"), nil, 0)
	if err != nil {
		fail("parse dir_manager.go: %v", err)
	}
	for _, d := range df.Decls {
		fd, ok := d.(*ast.FuncDecl)
		if !ok || fd.Name.Name != "calcMatchStrScore" {
			continue
		}
		ast.Inspect(fd.Body, func(n ast.Node) bool {
			if x, ok := n.(*ast.BasicLit); ok && !strings.HasPrefix(x.Value, "\"") {
				consts = append(consts, x.Value)
			}
			return true
		})
	}
	if len(attempts) == 0 || len(consts) == 0 {
		fail("CheckReferFile / calcMatchStrScore not found")
	}
	// pattern checks: which function of check/analysis passes which constant error type to InsertError
	pat := map[string]bool{"CheckErrorTableDuplicateKey": true, "CheckErrorAssignParamNum": true, "CheckErrorLocalParamNum": true, "CheckErrorDuplicateParam": true,
		"CheckErrorDuplicateExp": true, "CheckErrorOrAlwaysTrue": true, "CheckErrorAndAlwaysFalse": true, "CheckErrorDuplicateIf": true, "CheckErrorSelfAssign": true, "CheckErrorFloatEq": true}
	var patIns []string
	adir := filepath.Join(repo, "langserver/check/analysis")
	pkgs, err := parser.ParseDir(fset, adir, func(fi os.FileInfo) bool { return !strings.HasSuffix(fi.Name(), "_test.go") }, 0)
	if err != nil {
		fail("parse %s: %v", adir, err)
	}
	for _, pk := range pkgs {
		for _, file := range pk.Files {
			for _, d := range file.Decls {
				fd, ok := d.(*ast.FuncDecl)
				if !ok || fd.Body == nil {
					continue
				}
				ast.Inspect(fd.Body, func(n ast.Node) bool {
					c, ok := n.(*ast.CallExpr)
					if !ok || len(c.Args) < 1 {
						return true
					}
					se, ok := c.Fun.(*ast.SelectorExpr)
					if !ok || (se.Sel.Name != "InsertError" && se.Sel.Name != "InsertRelateError") {
						return true
					}
					name := ""
					switch a := c.Args[0].(type) {
					case *ast.SelectorExpr:
						name = a.Sel.Name
					case *ast.Ident:
						name = a.Name
					}
					if pat[name] {
						patIns = append(patIns, name+"@"+fd.Name.Name)
					}
					return true
				})
			}
		}
	}
	sort.Strings(patIns)
	b.WriteString("/-- \"type@function\" for every InsertError call of check/analysis with one of the ten pattern-check types -/\n")
	b.WriteString("def patternInserts : List String := " + leanStrList(patIns) + "\n\n")
	// class closure: order of "mark visited" / "expand parents" / "expand alias" in getClassTypeInfoList
	var closureOrder []string
	af, err := parser.ParseFile(fset, filepath.Join(repo, "langserver/check/check_lsp_annotate.go"), nil, 0)
	if err != nil {
		fail("parse check_lsp_annotate.go: %v", err)
	}
	for _, d := range af.Decls {
		fd, ok := d.(*ast.FuncDecl)
		if !ok || fd.Name.Name != "getClassTypeInfoList" {
			continue
		}
		ast.Inspect(fd.Body, func(n ast.Node) bool {
			switch x := n.(type) {
			case *ast.AssignStmt:
				if len(x.Lhs) == 1 {
					if se, ok := x.Lhs[0].(*ast.SelectorExpr); ok && se.Sel.Name == "List" {
						if id, ok := se.X.(*ast.Ident); ok && id.Name == "repeatTypeList" {
							closureOrder = append(closureOrder, "mark")
						}
					}
				}
			case *ast.RangeStmt:
				if se, ok := x.X.(*ast.SelectorExpr); ok && se.Sel.Name == "ParentNameList" {
					closureOrder = append(closureOrder, "parents")
				}
			case *ast.CallExpr:
				if se, ok := x.Fun.(*ast.SelectorExpr); ok && se.Sel.Name == "getInLineAllNormalAnnotateClass" {
					closureOrder = append(closureOrder, "alias")
				}
			}
			return true
		})
	}
	if len(closureOrder) == 0 {
		fail("getClassTypeInfoList not found")
	}
	b.WriteString("/-- getClassTypeInfoList: order of marking a declaration visited / expanding its parents / its alias target -/\n")
	b.WriteString("def closureOrder : List String := " + leanStrList(closureOrder) + "\n\n")
	b.WriteString("/-- CheckReferFile: the look-up calls in source order, and the path literals it appends -/\n")
	b.WriteString("def referAttempts : List String := " + leanStrList(attempts) + "\n")
	b.WriteString("def referLiterals : List String := " + leanStrList(lits) + "\n\n")
	b.WriteString("/-- calcMatchStrScore: the numeric literals in source order -/\n")
	b.WriteString("def scoreConsts : List String := " + leanStrList(consts) + "\n\n")
	// FindMinScope: the guard at the top and, for every `if` directly in the body of the loop over SubScopes,
	// its condition and what its body does (continue / break / recurse+break / other)
	var minScope []string
	sp := parseDir(filepath.Join(repo, "langserver/check/common"))
	if fd := sp.methodDecl("ScopeInfo", "FindMinScope"); fd != nil {
		for _, st := range fd.Body.List {
			switch x := st.(type) {
			case *ast.IfStmt:
				minScope = append(minScope, "guard:"+exprText(x.Cond))
			case *ast.RangeStmt:
				minScope = append(minScope, "range:"+exprText(x.X))
				for _, bs := range x.Body.List {
					is, ok := bs.(*ast.IfStmt)
					if !ok {
						minScope = append(minScope, "stmt:"+exprText(bs))
						continue
					}
					var acts []string
					for _, a := range is.Body.List {
						switch y := a.(type) {
						case *ast.BranchStmt:
							acts = append(acts, y.Tok.String())
						case *ast.AssignStmt:
							acts = append(acts, exprText(y))
						default:
							acts = append(acts, "other")
						}
					}
					minScope = append(minScope, "if:"+exprText(is.Cond)+"=>"+strings.Join(acts, ";"))
				}
			}
		}
	} else {
		fail("FindMinScope not found")
	}
	b.WriteString("/-- FindMinScope: guard, loop and the `if`s of the loop body in source order -/\n")
	b.WriteString("def findMinScopeShape : List String := " + leanStrList(minScope) + "\n\n")
	// skeletons of the functions that decide where a local is visible and in which order a local statement
	// analyses its initialisers and declares its names
	interesting := map[string]bool{"cgExp": true, "AddLocVar": true, "InsertCompleteVar": true, "isCorrectPosition": true,
		"IsCorrectPosition": true, "findLocVar": true}
	ap := parseDir(filepath.Join(repo, "langserver/check/analysis"))
	skel := func(pk *pkgFiles, recv, name string) []string {
		fd := pk.methodDecl(recv, name)
		if fd == nil {
			fail("%s.%s not found", recv, name)
		}
		var out []string
		for _, st := range fd.Body.List {
			if t := stmtSkel(st, 3, interesting); t != "" {
				out = append(out, t)
			}
		}
		return out
	}
	b.WriteString("/-- isCorrectPosition (var_info.go): the visibility test of the position-based lookup -/\n")
	b.WriteString("def correctPositionShape : List String := " + leanStrList(skel(sp, "VarInfo", "isCorrectPosition")) + "\n\n")
	b.WriteString("/-- findLocVar (scope_info.go): the declarations of a name are tried from the last one backwards -/\n")
	b.WriteString("def findLocVarShape : List String := " + leanStrList(skel(sp, "ScopeInfo", "findLocVar")) + "\n\n")
	b.WriteString("/-- GetCompleteVar (scope_info.go): the candidate test of completion -/\n")
	b.WriteString("def completeVarShape : List String := " + leanStrList(skel(sp, "ScopeInfo", "GetCompleteVar")) + "\n\n")
	// cgLocalVarDeclStat: per top-level statement the calls of cgExp / AddLocVar inside it (statements without any are left out)
	var declCalls []string
	if fd := ap.methodDecl("Analysis", "cgLocalVarDeclStat"); fd != nil {
		for _, st := range fd.Body.List {
			var names []string
			ast.Inspect(st, func(m ast.Node) bool {
				if ce, ok := m.(*ast.CallExpr); ok {
					if se, ok := ce.Fun.(*ast.SelectorExpr); ok && (se.Sel.Name == "cgExp" || se.Sel.Name == "AddLocVar") {
						names = append(names, se.Sel.Name)
					}
				}
				return true
			})
			if len(names) > 0 {
				declCalls = append(declCalls, strings.Join(names, ","))
			}
		}
	} else {
		fail("cgLocalVarDeclStat not found")
	}
	b.WriteString("/-- cgLocalVarDeclStat (analysis_stat.go): per top-level statement, its calls of cgExp (an initialiser is analysed) and AddLocVar (a name is declared) -/\n")
	b.WriteString("def localDeclCalls : List String := " + leanStrList(declCalls) + "\n\nend LuaHelper.Gen\n")
	write("Shapes.lean", b.String())
}


// stmtSkel: control structure of a statement down to the given depth: conditions, returns, branches, loop
// heads, and calls of the named functions; everything else is left out
func stmtSkel(st ast.Stmt, depth int, calls map[string]bool) string {
	body := func(l []ast.Stmt) string {
		if depth <= 0 {
			return "…"
		}
		var parts []string
		for _, x := range l {
			if t := stmtSkel(x, depth-1, calls); t != "" {
				parts = append(parts, t)
			}
		}
		return strings.Join(parts, ";")
	}
	callsIn := func(n ast.Node) string {
		var names []string
		ast.Inspect(n, func(m ast.Node) bool {
			if _, ok := m.(*ast.FuncLit); ok {
				return false
			}
			if ce, ok := m.(*ast.CallExpr); ok {
				fn := ""
				switch f := ce.Fun.(type) {
				case *ast.Ident:
					fn = f.Name
				case *ast.SelectorExpr:
					fn = f.Sel.Name
				}
				if calls[fn] {
					names = append(names, fn)
				}
			}
			return true
		})
		if len(names) == 0 {
			return ""
		}
		return "call:" + strings.Join(names, ",")
	}
	switch x := st.(type) {
	case *ast.IfStmt:
		t := "if " + exprText(x.Cond) + " {" + body(x.Body.List) + "}"
		if x.Else != nil {
			t += " else " + stmtSkel(x.Else, depth, calls)
		}
		return t
	case *ast.BlockStmt:
		return "{" + body(x.List) + "}"
	case *ast.ReturnStmt:
		var rs []string
		for _, r := range x.Results {
			rs = append(rs, exprText(r))
		}
		return "return " + strings.Join(rs, ",")
	case *ast.BranchStmt:
		return x.Tok.String()
	case *ast.ForStmt:
		h := ""
		if x.Init != nil {
			h += exprText(x.Init)
		}
		h += ";"
		if x.Cond != nil {
			h += exprText(x.Cond)
		}
		h += ";"
		if x.Post != nil {
			h += exprText(x.Post)
		}
		return "for " + h + " {" + body(x.Body.List) + "}"
	case *ast.RangeStmt:
		return "range " + exprText(x.X) + " {" + body(x.Body.List) + "}"
	case *ast.SwitchStmt:
		if x.Tag != nil {
			return "switch " + exprText(x.Tag)
		}
		return "switch"
	case *ast.TypeSwitchStmt:
		return "typeswitch " + exprText(x.Assign)
	default:
		return callsIn(st)
	}
}
