package main

import (
	"fmt"
	"go/ast"
	"go/parser"
	"path/filepath"
	"sort"
	"strings"
)

// genShapes: (a) for the document / file handlers, the diagnostics-bookkeeping methods they call, in
// source order (C08's model Diag.ev* is written after these sequences); (b) the keyword table of the
// annotation lexer (C16's model Annot.kwTable).
func genShapes(repo string) {
	book := map[string]bool{"pushAllDiagnosticsAgain": true, "ClearChangeFileErr": true, "InsertChangeFileErr": true, "ClearFileSyntaxErr": true,
		"SaveOneFilePushAgain": true, "ClearOneFileDiagnostic": true, "RemoveFile": true, "GetAllDiagnostics": true}
	handlers := []string{"TextDocumentDidOpen", "TextDocumentDidChange", "WorkspaceChangeWatchedFiles", "TextDocumentDidClose", "TextDocumentDidSave"}
	calls := map[string][]string{}
	path := filepath.Join(repo, "langserver/textdocument_file_request.go")
	f, err := parser.ParseFile(fset, path, nil, 0)
	if err != nil {
		fail("parse %s: %v", path, err)
	}
	for _, d := range f.Decls {
		fd, ok := d.(*ast.FuncDecl)
		if !ok || fd.Body == nil {
			continue
		}
		ast.Inspect(fd.Body, func(n ast.Node) bool {
			c, ok := n.(*ast.CallExpr)
			if !ok {
				return true
			}
			if se, ok := c.Fun.(*ast.SelectorExpr); ok {
				if id, ok := se.X.(*ast.Ident); ok && id.Name == "l" && book[se.Sel.Name] {
					calls[fd.Name.Name] = append(calls[fd.Name.Name], se.Sel.Name)
				}
			}
			return true
		})
	}
	var b strings.Builder
	b.WriteString("namespace LuaHelper.Gen\n\n/-- (handler, the diagnostics-bookkeeping methods it calls, in source order) -/\n")
	b.WriteString("def bookkeepingCalls : List (String × List String) := [\n")
	for i, h := range handlers {
		if _, ok := calls[h]; !ok {
			fail("handler %s not found or calls no bookkeeping method", h)
		}
		sep := ","
		if i == len(handlers)-1 {
			sep = ""
		}
		fmt.Fprintf(&b, "  (%s, %s)%s\n", leanStr(h), leanStrList(calls[h]), sep)
	}
	b.WriteString("]\n\n")
	// annotation keywords
	kpath := filepath.Join(repo, "langserver/check/annotation/annotatelexer/annotate_token.go")
	kf, err := parser.ParseFile(fset, kpath, nil, 0)
	if err != nil {
		fail("parse %s: %v", kpath, err)
	}
	var kws []string
	ast.Inspect(kf, func(n ast.Node) bool {
		vs, ok := n.(*ast.ValueSpec)
		if !ok || len(vs.Names) != 1 || vs.Names[0].Name != "keywords" || len(vs.Values) != 1 {
			return true
		}
		cl, ok := vs.Values[0].(*ast.CompositeLit)
		if !ok {
			fail("annotate_token.go: keywords is not a composite literal")
		}
		for _, e := range cl.Elts {
			kv := e.(*ast.KeyValueExpr)
			k := strings.Trim(kv.Key.(*ast.BasicLit).Value, "\"")
			kws = append(kws, k+"="+kv.Value.(*ast.Ident).Name)
		}
		return false
	})
	if len(kws) == 0 {
		fail("annotate_token.go: keyword map not found")
	}
	sort.Strings(kws)
	b.WriteString("/-- the keyword map of the annotation lexer: \"word=ATokenKw…\", sorted -/\n")
	b.WriteString("def annotKeywords : List String := " + leanStrList(kws) + "\n\nend LuaHelper.Gen\n")
	write("Shapes.lean", b.String())
}
