package main

import (
	"fmt"
	"go/ast"
	"go/token"
	"path/filepath"
	"strconv"
	"strings"
)

// genPreds: syntax-directed translation of loop-free Go predicates into Lean definitions.
// Supported subset: a body that is a sequence of `if cond { return e }` (optionally with else-if /
// else branches that return) followed by `return e`; expressions built from parameters, field
// selection, integer / character / boolean literals, comparisons, && || !, + -, conversions
// (ignored) and composite literals of Location / Range / Position.  Anything else fails loudly.

type predSpec struct {
	pkgDir, fn, recvType string // recvType "" for plain functions
	leanName             string
}

var predSpecs = []predSpec{
	{"langserver/check/compiler/lexer", "IsBeforeLoc", "Location", "isBeforeLoc"},
	{"langserver/check/compiler/lexer", "IsContainLoc", "Location", "isContainLoc"},
	{"langserver/check/compiler/lexer", "IsInLocStruct", "Location", "isInLocStruct"},
	{"langserver/check/compiler/lexer", "IsInitialLoc", "Location", "isInitialLoc"},
	{"langserver/check/compiler/lexer", "CompareTwoLoc", "", "compareTwoLoc"},
	{"langserver/check/compiler/lexer", "GetRangeLoc", "", "getRangeLoc"},
	{"langserver/check/compiler/lexer", "GetRangeLocExcludeEnd", "", "getRangeLocExcludeEnd"},
	{"langserver/check/compiler/lexer", "tokenLoc", "", "tokenLoc"},
	{"langserver/check/compiler/lexer", "isWhiteSpace", "", "isWhiteSpace"},
	{"langserver/check/compiler/lexer", "isNewLine", "", "isNewLine"},
	{"langserver/check/compiler/lexer", "isDigit", "", "isDigit"},
	{"langserver/check/compiler/lexer", "isLetter", "", "isLetter"},
	{"langserver/check/compiler/lexer", "isHexDigit", "", "isHexDigit"},
	{"langserver/check/common", "isInLocation", "", "isInLocation"},
	{"langserver/check/common", "MakeVarIndex", "", "makeVarIndex"},
	{"langserver/lspcommon", "LocToRange", "", "locToRange"},
	{"langserver/check/compiler/parser", "_isFieldSep", "", "isFieldSep"},
}

type ptrans struct {
	fn     string
	params map[string]string // Go param name -> Lean type tag ("loc", "int", "byte", "kind")
}

func (t *ptrans) expr(e ast.Expr) string {
	switch x := e.(type) {
	case *ast.ParenExpr:
		return "(" + t.expr(x.X) + ")"
	case *ast.Ident:
		switch x.Name {
		case "true", "false":
			return x.Name
		}
		if _, ok := t.params[x.Name]; ok {
			return x.Name
		}
		fail("%s: unknown identifier %s", t.fn, x.Name)
	case *ast.BasicLit:
		switch x.Kind {
		case token.INT:
			return x.Value
		case token.CHAR:
			s, err := strconv.Unquote(x.Value)
			if err != nil || len(s) != 1 {
				fail("%s: bad char literal %s", t.fn, x.Value)
			}
			return strconv.Itoa(int(s[0]))
		}
		fail("%s: unsupported literal %s", t.fn, x.Value)
	case *ast.SelectorExpr:
		// param.Field, lexer.TkX
		if id, ok := x.X.(*ast.Ident); ok && id.Name == "lexer" {
			return strconv.Quote(x.Sel.Name)
		}
		return t.expr(x.X) + "." + x.Sel.Name
	case *ast.StarExpr:
		return t.expr(x.X)
	case *ast.UnaryExpr:
		switch x.Op {
		case token.NOT:
			return "(!" + t.expr(x.X) + ")"
		case token.AND:
			return t.expr(x.X)
		}
		fail("%s: unsupported unary %s", t.fn, x.Op)
	case *ast.BinaryExpr:
		op := map[token.Token]string{token.LAND: "&&", token.LOR: "||", token.EQL: "==", token.NEQ: "!=", token.LSS: "<",
			token.GTR: ">", token.LEQ: "≤", token.GEQ: "≥", token.ADD: "+", token.SUB: "-"}[x.Op]
		if op == "" {
			fail("%s: unsupported operator %s", t.fn, x.Op)
		}
		l, r := t.expr(x.X), t.expr(x.Y)
		switch x.Op {
		case token.LSS, token.GTR, token.LEQ, token.GEQ:
			return "(decide (" + l + " " + op + " " + r + "))"
		}
		return "(" + l + " " + op + " " + r + ")"
	case *ast.CallExpr:
		// conversions uint32(x), int(x), (int)(x)
		if len(x.Args) == 1 {
			switch f := x.Fun.(type) {
			case *ast.Ident:
				if f.Name == "uint32" || f.Name == "int" || f.Name == "uint8" {
					return t.expr(x.Args[0])
				}
			case *ast.ParenExpr:
				if id, ok := f.X.(*ast.Ident); ok && (id.Name == "int" || id.Name == "uint32") {
					return t.expr(x.Args[0])
				}
			}
		}
		fail("%s: unsupported call", t.fn)
	case *ast.CompositeLit:
		var fields []string
		for _, el := range x.Elts {
			kv, ok := el.(*ast.KeyValueExpr)
			if !ok {
				fail("%s: positional composite literal", t.fn)
			}
			fields = append(fields, kv.Key.(*ast.Ident).Name+" := "+t.expr(kv.Value))
		}
		return "{ " + strings.Join(fields, ", ") + " }"
	}
	fail("%s: unsupported expression %T", t.fn, e)
	return ""
}

// stmts translates a statement list that must end by returning on every path.
func (t *ptrans) stmts(list []ast.Stmt) string {
	if len(list) == 0 {
		fail("%s: path without return", t.fn)
	}
	switch s := list[0].(type) {
	case *ast.ReturnStmt:
		if len(s.Results) != 1 {
			fail("%s: return with %d values", t.fn, len(s.Results))
		}
		return t.expr(s.Results[0])
	case *ast.IfStmt:
		if s.Init != nil {
			fail("%s: if with init", t.fn)
		}
		rest := list[1:]
		var elsePart string
		switch e := s.Else.(type) {
		case nil:
			elsePart = t.stmts(rest)
		case *ast.BlockStmt:
			elsePart = t.stmts(append(append([]ast.Stmt{}, e.List...), rest...))
		case *ast.IfStmt:
			elsePart = t.stmts(append([]ast.Stmt{e}, rest...))
		}
		thenPart := t.stmts(append(append([]ast.Stmt{}, s.Body.List...), rest...))
		return "(if " + t.expr(s.Cond) + " then " + thenPart + " else " + elsePart + ")"
	case *ast.SwitchStmt:
		// switch x { case a, b: return true } return false
		if s.Init != nil || s.Tag == nil {
			fail("%s: unsupported switch", t.fn)
		}
		tag := t.expr(s.Tag)
		rest := t.stmts(list[1:])
		out := rest
		for i := len(s.Body.List) - 1; i >= 0; i-- {
			cc := s.Body.List[i].(*ast.CaseClause)
			if cc.List == nil {
				out = t.stmts(cc.Body)
				continue
			}
			var conds []string
			for _, c := range cc.List {
				conds = append(conds, "("+tag+" == "+t.expr(c)+")")
			}
			out = "(if " + strings.Join(conds, " || ") + " then " + t.stmts(append(append([]ast.Stmt{}, cc.Body...), list[1:]...)) + " else " + out + ")"
		}
		return out
	}
	fail("%s: unsupported statement %T", t.fn, list[0])
	return ""
}

func leanType(e ast.Expr) (string, string) {
	switch x := e.(type) {
	case *ast.StarExpr:
		return leanType(x.X)
	case *ast.Ident:
		switch x.Name {
		case "Location":
			return "GLoc", "loc"
		case "Token":
			return "GTok", "tok"
		case "int", "uint32", "uint8":
			return "Int", "int"
		case "byte":
			return "Int", "byte"
		case "bool":
			return "Bool", "bool"
		}
	case *ast.SelectorExpr:
		switch x.Sel.Name {
		case "Location":
			return "GLoc", "loc"
		case "Range":
			return "GRange", "range"
		case "TkKind":
			return "String", "kind"
		}
	}
	return "", ""
}

func genPreds(repo string) {
	var b strings.Builder
	b.WriteString("namespace LuaHelper.Gen\n\n")
	b.WriteString("structure GLoc where\n  StartLine : Int\n  StartColumn : Int\n  EndLine : Int\n  EndColumn : Int\nderiving DecidableEq, Repr\n\n")
	b.WriteString("/-- the position fields of lexer.Token -/\nstructure GTok where\n  line : Int\n  lineStartPos : Int\n  rangeFromPos : Int\n  rangeToPos : Int\n  startLine : Int\n  startLineStartPos : Int\nderiving DecidableEq, Repr\n\n")
	b.WriteString("structure GPos where\n  Line : Int\n  Character : Int\nderiving DecidableEq, Repr\n\n")
	b.WriteString("structure GRange where\n  Start : GPos\n  End : GPos\nderiving DecidableEq, Repr\n\n")
	cache := map[string]*pkgFiles{}
	for _, ps := range predSpecs {
		pk := cache[ps.pkgDir]
		if pk == nil {
			pk = parseDir(filepath.Join(repo, ps.pkgDir))
			cache[ps.pkgDir] = pk
		}
		var fd *ast.FuncDecl
		for _, f := range pk.allFuncs() {
			if f.Name.Name != ps.fn {
				continue
			}
			if (ps.recvType == "") != (f.Recv == nil) {
				continue
			}
			fd = f
		}
		if fd == nil {
			fail("predicate %s not found in %s", ps.fn, ps.pkgDir)
		}
		t := &ptrans{fn: ps.fn, params: map[string]string{}}
		var params []string
		add := func(names []*ast.Ident, ty ast.Expr) {
			lt, tag := leanType(ty)
			if lt == "" {
				fail("%s: unsupported parameter type", ps.fn)
			}
			for _, n := range names {
				t.params[n.Name] = tag
				params = append(params, fmt.Sprintf("(%s : %s)", n.Name, lt))
			}
		}
		if fd.Recv != nil {
			add(fd.Recv.List[0].Names, fd.Recv.List[0].Type)
		}
		for _, p := range fd.Type.Params.List {
			add(p.Names, p.Type)
		}
		if fd.Type.Results == nil || len(fd.Type.Results.List) != 1 {
			fail("%s: must have one result", ps.fn)
		}
		rt, _ := leanType(fd.Type.Results.List[0].Type)
		if rt == "" {
			fail("%s: unsupported result type", ps.fn)
		}
		body := t.stmts(fd.Body.List)
		fmt.Fprintf(&b, "/-- %s/%s -/\ndef %s %s : %s :=\n  %s\n\n", ps.pkgDir, ps.fn, ps.leanName, strings.Join(params, " "), rt, body)
	}
	b.WriteString("end LuaHelper.Gen\n")
	write("Preds.lean", b.String())
}
