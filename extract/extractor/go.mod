module extractor

go 1.15
