package main

import (
	"bytes"
	"fmt"
	"go/ast"
	"go/printer"
	"path/filepath"
	"sort"
	"strings"
)

func exprText(e ast.Node) string {
	var b bytes.Buffer
	printer.Fprint(&b, fset, e)
	return strings.Join(strings.Fields(b.String()), "")
}

// genPools: the worker-pool dispatch loops (`for recvNum := 0; recvNum < N; { … reflect.Select … }`).
// For each one: the function, the loop condition, the refill guard, the distinct index expressions used
// with the received count inside the refill branch, the initial dispatch loop (bound and index) and the
// clamp of the worker count.  Props/C19 (`pools_shape`) pins these to the shape `dispatch_all` is about.
func genPools(repo string) {
	p := parseDir(filepath.Join(repo, "langserver/check"))
	type pool struct {
		fn, cond, guard, initBound, clamp string
		idx, initIdx                      []string
		incs, exits                       int
	}
	var pools []pool
	for _, fd := range p.allFuncs() {
		if fd.Body == nil {
			continue
		}
		var pl *pool
		ast.Inspect(fd.Body, func(n ast.Node) bool {
			fs, ok := n.(*ast.ForStmt)
			if !ok || fs.Body == nil || len(fs.Body.List) == 0 {
				return true
			}
			as, ok := fs.Body.List[0].(*ast.AssignStmt)
			if !ok || len(as.Rhs) != 1 || !strings.HasPrefix(exprText(as.Rhs[0]), "reflect.Select(") {
				return true
			}
			init, ok := fs.Init.(*ast.AssignStmt)
			if !ok || len(init.Lhs) != 1 {
				fail("%s: worker-pool loop without a counter initialisation", fd.Name.Name)
			}
			cnt := exprText(init.Lhs[0])
			if exprText(init.Rhs[0]) != "0" || fs.Post != nil {
				fail("%s: worker-pool loop: unexpected init/post", fd.Name.Name)
			}
			pl = &pool{fn: fd.Name.Name, cond: exprText(fs.Cond)}
			seen := map[string]bool{}
			ast.Inspect(fs.Body, func(m ast.Node) bool {
				switch x := m.(type) {
				case *ast.FuncLit:
					return false
				case *ast.BranchStmt:
					// anything that leaves the receive loop before every result has arrived (a plain
					// `continue` stays in the loop)
					if x.Tok.String() != "continue" || x.Label != nil {
						pl.exits++
					}
				case *ast.ReturnStmt:
					pl.exits++
				case *ast.IncDecStmt:
					if exprText(x.X) == cnt {
						pl.incs++
					}
				case *ast.IfStmt:
					be, ok := x.Cond.(*ast.BinaryExpr)
					if ok && strings.Contains(exprText(be.X), cnt) && pl.guard == "" {
						pl.guard = exprText(x.Cond)
						ast.Inspect(x.Body, func(k ast.Node) bool {
							if ie, ok := k.(*ast.IndexExpr); ok && strings.Contains(exprText(ie.Index), cnt) {
								t := exprText(ie.Index)
								if !seen[t] {
									seen[t] = true
									pl.idx = append(pl.idx, t)
								}
							}
							return true
						})
					}
				}
				return true
			})
			sort.Strings(pl.idx)
			return false
		})
		if pl == nil {
			continue
		}
		// initial dispatch: `for i := 0; i < B; i++` loops that send a request built from X[i]
		seenInit := map[string]bool{}
		ast.Inspect(fd.Body, func(n ast.Node) bool {
			fs, ok := n.(*ast.ForStmt)
			if !ok || fs.Init == nil || fs.Cond == nil || fs.Post == nil {
				return true
			}
			init, ok := fs.Init.(*ast.AssignStmt)
			if !ok || len(init.Lhs) != 1 || exprText(init.Rhs[0]) != "0" {
				return true
			}
			iv := exprText(init.Lhs[0])
			sends := false
			ast.Inspect(fs.Body, func(m ast.Node) bool {
				if _, ok := m.(*ast.SendStmt); ok {
					sends = true
				}
				return true
			})
			if !sends {
				return true
			}
			be, ok := fs.Cond.(*ast.BinaryExpr)
			if !ok || exprText(be.X) != iv {
				fail("%s: initial dispatch loop with an unexpected condition %s", fd.Name.Name, exprText(fs.Cond))
			}
			pl.initBound = be.Op.String() + exprText(be.Y)
			ast.Inspect(fs.Body, func(m ast.Node) bool {
				if kv, ok := m.(*ast.KeyValueExpr); ok {
					if ie, ok := kv.Value.(*ast.IndexExpr); ok && strings.EqualFold(exprText(kv.Key), "strfile") {
						t := exprText(ie.Index)
						if !seenInit[t] {
							seenInit[t] = true
							pl.initIdx = append(pl.initIdx, t)
						}
					}
				}
				return true
			})
			return true
		})
		// clamp of the worker count: `if N < corNum { corNum = N }`
		ast.Inspect(fd.Body, func(n ast.Node) bool {
			is, ok := n.(*ast.IfStmt)
			if !ok || len(is.Body.List) != 1 {
				return true
			}
			as, ok := is.Body.List[0].(*ast.AssignStmt)
			if ok && len(as.Lhs) == 1 && exprText(as.Lhs[0]) == "corNum" {
				pl.clamp = exprText(is.Cond) + "=>" + exprText(as.Lhs[0]) + "=" + exprText(as.Rhs[0])
			}
			return true
		})
		pools = append(pools, *pl)
	}
	if len(pools) == 0 {
		fail("no worker-pool dispatch loop found in langserver/check")
	}
	sort.Slice(pools, func(i, j int) bool { return pools[i].fn < pools[j].fn })
	var b strings.Builder
	b.WriteString("namespace LuaHelper.Gen\n\nstructure Pool where\n  func : String\n  /-- condition of the receive loop -/\n  loopCond : String\n  /-- how often the received count is incremented in the loop body (error path + normal path) -/\n  incs : Nat\n  /-- statements that leave the receive loop early (break, return, goto, labelled continue) -/\n  exits : Nat\n  /-- guard of the refill branch -/\n  guard : String\n  /-- distinct index expressions mentioning the received count inside the refill branch -/\n  refillIdx : List String\n  /-- bound of the initial dispatch loop and the index of the file it sends -/\n  initBound : String\n  initIdx : List String\n  /-- clamp of the worker count to the number of jobs -/\n  clamp : String\nderiving Repr, DecidableEq\n\n")
	b.WriteString("def workerPools : List Pool := [\n")
	for i, pl := range pools {
		sep := ","
		if i == len(pools)-1 {
			sep = ""
		}
		fmt.Fprintf(&b, "  { func := %s, loopCond := %s, incs := %d, exits := %d, guard := %s, refillIdx := %s, initBound := %s, initIdx := %s, clamp := %s }%s\n",
			leanStr(pl.fn), leanStr(pl.cond), pl.incs, pl.exits, leanStr(pl.guard), leanStrList(pl.idx), leanStr(pl.initBound), leanStrList(pl.initIdx), leanStr(pl.clamp), sep)
	}
	b.WriteString("]\n\n")
	// the per-project second pass: the methods of AllProject the WORKER (checkOneProject) calls, and the ones the
	// coordinator (handleProjectEntryFileVec) calls after its receive loop — handleOtherFileInsertSub writes the member
	// tables of first-pass symbols that all projects share, so it belongs to the second list
	methodCalls := func(stmts []ast.Stmt) []string {
		var out []string
		for _, st := range stmts {
			ast.Inspect(st, func(n ast.Node) bool {
				if c, ok := n.(*ast.CallExpr); ok {
					if se, ok := c.Fun.(*ast.SelectorExpr); ok {
						if id, ok := se.X.(*ast.Ident); ok && id.Name == "a" {
							out = append(out, se.Sel.Name)
						}
					}
				}
				return true
			})
		}
		return out
	}
	var workerCalls, afterLoopCalls []string
	foundW, foundC := false, false
	for _, fd := range p.allFuncs() {
		if fd.Body == nil {
			continue
		}
		switch fd.Name.Name {
		case "checkOneProject":
			foundW = true
			workerCalls = methodCalls(fd.Body.List)
		case "handleProjectEntryFileVec":
			foundC = true
			after := false
			for _, st := range fd.Body.List {
				if fs, ok := st.(*ast.ForStmt); ok && strings.Contains(exprText(fs.Cond), "recvNum") {
					after = true
					continue
				}
				if after {
					afterLoopCalls = append(afterLoopCalls, methodCalls([]ast.Stmt{st})...)
				}
			}
		}
	}
	if !foundW || !foundC {
		fail("checkOneProject / handleProjectEntryFileVec not found")
	}
	b.WriteString("/-- methods of AllProject called by the second-pass WORKER checkOneProject, in source order -/\ndef secondPassWorkerCalls : List String := " + leanStrList(workerCalls) + "\n\n")
	b.WriteString("/-- methods of AllProject called by handleProjectEntryFileVec AFTER its receive loop (all workers have reported) -/\ndef secondPassAfterLoopCalls : List String := " + leanStrList(afterLoopCalls) + "\n\n")
	// the third pass: every function the WORKER goThirdFile calls (any callee, by its last name), and the ones the
	// coordinator handleFiles calls inside its receive loop — recvThirdFile writes the unlocked map
	// AnalysisThird.FileErrorMap, so it must be in the second list only
	anyCalls := func(stmts []ast.Stmt) []string {
		var out []string
		for _, st := range stmts {
			ast.Inspect(st, func(n ast.Node) bool {
				if c, ok := n.(*ast.CallExpr); ok {
					switch f := c.Fun.(type) {
					case *ast.Ident:
						out = append(out, f.Name)
					case *ast.SelectorExpr:
						out = append(out, f.Sel.Name)
					}
				}
				return true
			})
		}
		return out
	}
	var thirdWorker, thirdLoop []string
	foundTW, foundTC := false, false
	for _, fd := range p.allFuncs() {
		if fd.Body == nil {
			continue
		}
		switch fd.Name.Name {
		case "goThirdFile":
			foundTW = true
			thirdWorker = anyCalls(fd.Body.List)
		case "handleFiles":
			for _, st := range fd.Body.List {
				if fs, ok := st.(*ast.ForStmt); ok && strings.Contains(exprText(fs.Cond), "recvNum") {
					foundTC = true
					for _, c := range anyCalls(fs.Body.List) {
						if c == "recvThirdFile" || strings.HasPrefix(c, "handle") || strings.HasPrefix(c, "Insert") {
							thirdLoop = append(thirdLoop, c)
						}
					}
				}
			}
		}
	}
	if !foundTW || !foundTC {
		fail("goThirdFile / handleFiles receive loop not found")
	}
	b.WriteString("/-- every function the third-pass WORKER goThirdFile calls, in source order -/\ndef thirdPassWorkerCalls : List String := " + leanStrList(thirdWorker) + "\n\n")
	b.WriteString("/-- result-handling calls inside the receive loop of the third-pass coordinator handleFiles -/\ndef thirdPassLoopCalls : List String := " + leanStrList(thirdLoop) + "\n\nend LuaHelper.Gen\n")
	write("Pools.lean", b.String())
}
