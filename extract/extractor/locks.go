package main

import (
	"fmt"
	"go/ast"
	"path/filepath"
	"sort"
	"strings"
)

// genLocks: for every method (or function) under langserver/check that mentions a per-structure mutex
// (a field or variable whose name ends in "Mutex"/"mutex"), how it uses it:
//   "whole"   the body starts with  x.M.Lock(); defer x.M.Unlock()
//   "paired"  Lock() … Unlock() appear as plain statements in the same block, as many of one as of the other
//   "other"   anything else
// C10 (`structure_locks`) pins the table: shrinking a critical section changes the entry.
func genLocks(repo string) {
	type ent struct{ fn, mutex, how string }
	var ents []ent
	for _, sub := range []string{"langserver/check", "langserver/check/common", "langserver/check/analysis", "langserver/lspcommon"} {
		p := parseDir(filepath.Join(repo, sub))
		for _, fd := range p.allFuncs() {
			if fd.Body == nil {
				continue
			}
			name := fd.Name.Name
			if fd.Recv != nil && len(fd.Recv.List) == 1 {
				name = strings.TrimPrefix(exprText(fd.Recv.List[0].Type), "*") + "." + name
			}
			type use struct{ locks, unlocks, deferred int }
			uses := map[string]*use{}
			record := func(call *ast.CallExpr, deferred bool) {
				se, ok := call.Fun.(*ast.SelectorExpr)
				if !ok || (se.Sel.Name != "Lock" && se.Sel.Name != "Unlock") {
					return
				}
				m := exprText(se.X)
				if !strings.HasSuffix(strings.ToLower(m), "mutex") {
					return
				}
				u := uses[m]
				if u == nil {
					u = &use{}
					uses[m] = u
				}
				switch {
				case se.Sel.Name == "Lock":
					u.locks++
				case deferred:
					u.deferred++
				default:
					u.unlocks++
				}
			}
			ast.Inspect(fd.Body, func(n ast.Node) bool {
				switch x := n.(type) {
				case *ast.DeferStmt:
					record(x.Call, true)
					return false
				case *ast.CallExpr:
					record(x, false)
				}
				return true
			})
			for m, u := range uses {
				how := "other"
				whole := false
				if len(fd.Body.List) >= 2 {
					if es, ok := fd.Body.List[0].(*ast.ExprStmt); ok {
						if ds, ok := fd.Body.List[1].(*ast.DeferStmt); ok {
							whole = exprText(es.X) == m+".Lock()" && exprText(ds.Call) == m+".Unlock()"
						}
					}
				}
				switch {
				case whole && u.locks == 1 && u.deferred == 1 && u.unlocks == 0:
					how = "whole"
				case u.deferred == 0 && u.locks == u.unlocks && u.locks > 0:
					how = fmt.Sprintf("paired%d", u.locks)
				}
				ents = append(ents, ent{sub[len("langserver/"):] + ":" + name, m, how})
			}
		}
	}
	sort.Slice(ents, func(i, j int) bool {
		if ents[i].fn != ents[j].fn {
			return ents[i].fn < ents[j].fn
		}
		return ents[i].mutex < ents[j].mutex
	})
	var b strings.Builder
	b.WriteString("namespace LuaHelper.Gen\n\n/-- (package:function, mutex expression, how it is used: whole / pairedN / other) -/\ndef lockScopes : List (String × String × String) := [\n")
	for i, e := range ents {
		sep := ","
		if i == len(ents)-1 {
			sep = ""
		}
		fmt.Fprintf(&b, "  (%s, %s, %s)%s\n", leanStr(e.fn), leanStr(e.mutex), leanStr(e.how), sep)
	}
	b.WriteString("]\n\nend LuaHelper.Gen\n")
	write("Locks.lean", b.String())
}
