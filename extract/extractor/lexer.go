package main

import (
	"fmt"
	"go/ast"
	"go/token"
	"path/filepath"
	"sort"
	"strconv"
	"strings"
)

// genLexer: token kinds (iota order), their spellings, the keyword map, getPriority, isReturnOrBlockEnd.
func genLexer(repo string) {
	lx := parseDir(filepath.Join(repo, "langserver/check/compiler/lexer"))
	ps := parseDir(filepath.Join(repo, "langserver/check/compiler/parser"))
	tf := lx.files["token.go"]
	if tf == nil {
		fail("token.go not found")
	}
	var kinds []string          // iota order
	alias := map[string]string{} // TkOpUnm -> TkOpMinus
	var spell [][2]string
	var kw [][2]string
	for _, d := range tf.Decls {
		gd, ok := d.(*ast.GenDecl)
		if !ok {
			continue
		}
		if gd.Tok == token.CONST {
			for _, s := range gd.Specs {
				vs := s.(*ast.ValueSpec)
				for i, n := range vs.Names {
					if len(vs.Values) > i {
						if id, ok := vs.Values[i].(*ast.Ident); ok && id.Name != "iota" {
							alias[n.Name] = id.Name
							continue
						}
					}
					kinds = append(kinds, n.Name)
				}
			}
		}
		if gd.Tok == token.VAR {
			for _, s := range gd.Specs {
				vs := s.(*ast.ValueSpec)
				if len(vs.Names) != 1 || len(vs.Values) != 1 {
					continue
				}
				cl, ok := vs.Values[0].(*ast.CompositeLit)
				if !ok {
					continue
				}
				for _, e := range cl.Elts {
					kv, ok := e.(*ast.KeyValueExpr)
					if !ok {
						fail("token.go: %s has a non key-value element", vs.Names[0].Name)
					}
					switch vs.Names[0].Name {
					case "tokenKinds":
						k := kv.Key.(*ast.Ident).Name
						v, _ := strconv.Unquote(kv.Value.(*ast.BasicLit).Value)
						spell = append(spell, [2]string{k, v})
					case "keywords":
						k, _ := strconv.Unquote(kv.Key.(*ast.BasicLit).Value)
						v := kv.Value.(*ast.Ident).Name
						kw = append(kw, [2]string{k, v})
					}
				}
			}
		}
	}
	if len(kinds) == 0 || len(kw) == 0 {
		fail("token.go: token kinds or keywords not found")
	}
	sort.Slice(kw, func(i, j int) bool { return kw[i][0] < kw[j][0] })
	var b strings.Builder
	b.WriteString("namespace LuaHelper.Gen\n\n")
	b.WriteString("/-- token kinds of lexer/token.go in iota order (index = numeric value) -/\n")
	b.WriteString("def tokenKinds : List String := " + leanStrList(kinds) + "\n\n")
	b.WriteString("def tokenAliases : List (String × String) := [")
	var ak []string
	for k := range alias {
		ak = append(ak, k)
	}
	sort.Strings(ak)
	for i, k := range ak {
		if i > 0 {
			b.WriteString(", ")
		}
		fmt.Fprintf(&b, "(%s, %s)", leanStr(k), leanStr(alias[k]))
	}
	b.WriteString("]\n\n/-- spelling table `tokenKinds` -/\ndef tokenSpelling : List (String × String) := [")
	for i, s := range spell {
		if i > 0 {
			b.WriteString(", ")
		}
		fmt.Fprintf(&b, "(%s, %s)", leanStr(s[0]), leanStr(s[1]))
	}
	b.WriteString("]\n\n/-- reserved words → token kind (the Go map `keywords`, sorted) -/\ndef keywords : List (String × String) := [")
	for i, s := range kw {
		if i > 0 {
			b.WriteString(", ")
		}
		fmt.Fprintf(&b, "(%s, %s)", leanStr(s[0]), leanStr(s[1]))
	}
	b.WriteString("]\n\n")

	resolve := func(n string) string {
		if a, ok := alias[n]; ok {
			return a
		}
		return n
	}
	// getPriority: switch with `case lexer.X, lexer.Y: return N` and default
	fd := ps.funcDecl("getPriority")
	if fd == nil {
		fail("getPriority not found")
	}
	type pr struct {
		k string
		p int
	}
	var prios []pr
	deflt := -999
	ast.Inspect(fd.Body, func(n ast.Node) bool {
		sw, ok := n.(*ast.SwitchStmt)
		if !ok {
			return true
		}
		for _, c := range sw.Body.List {
			cc := c.(*ast.CaseClause)
			if len(cc.Body) != 1 {
				fail("getPriority: case body is not a single return")
			}
			rs, ok := cc.Body[0].(*ast.ReturnStmt)
			if !ok || len(rs.Results) != 1 {
				fail("getPriority: case body is not a single return")
			}
			v, err := strconv.Atoi(exprString(rs.Results[0]))
			if err != nil {
				fail("getPriority: non-literal priority %s", exprString(rs.Results[0]))
			}
			if cc.List == nil {
				deflt = v
			}
			for _, e := range cc.List {
				se, ok := e.(*ast.SelectorExpr)
				if !ok {
					fail("getPriority: case label is not lexer.X")
				}
				prios = append(prios, pr{resolve(se.Sel.Name), v})
			}
		}
		return false
	})
	// a trailing `return N` after the switch is the default
	if deflt == -999 {
		if rs, ok := fd.Body.List[len(fd.Body.List)-1].(*ast.ReturnStmt); ok && len(rs.Results) == 1 {
			if v, err := strconv.Atoi(exprString(rs.Results[0])); err == nil {
				deflt = v
			}
		}
	}
	if deflt == -999 {
		fail("getPriority: no default")
	}
	b.WriteString("/-- parse_exp.go:getPriority -/\ndef priority : List (String × Int) := [")
	for i, p := range prios {
		if i > 0 {
			b.WriteString(", ")
		}
		fmt.Fprintf(&b, "(%s, %d)", leanStr(p.k), p.p)
	}
	fmt.Fprintf(&b, "]\ndef priorityDefault : Int := %d\n\n", deflt)

	// isReturnOrBlockEnd / similar: functions whose body is a switch over token kinds returning bool
	for _, name := range []string{"isReturnOrBlockEnd", "isBlockEnd"} {
		fd := ps.funcDecl(name)
		if fd == nil {
			continue
		}
		var ks []string
		ast.Inspect(fd.Body, func(n ast.Node) bool {
			if cc, ok := n.(*ast.CaseClause); ok {
				truth := false
				for _, s := range cc.Body {
					if rs, ok := s.(*ast.ReturnStmt); ok && len(rs.Results) == 1 && exprString(rs.Results[0]) == "true" {
						truth = true
					}
				}
				if truth {
					for _, e := range cc.List {
						if se, ok := e.(*ast.SelectorExpr); ok {
							ks = append(ks, resolve(se.Sel.Name))
						}
					}
				}
			}
			return true
		})
		fmt.Fprintf(&b, "/-- token kinds for which parser.%s returns true -/\ndef %s : List String := %s\n\n", name, name, leanStrList(ks))
	}
	b.WriteString("end LuaHelper.Gen\n")
	write("Lexer.lean", b.String())
}

func exprString(e ast.Expr) string {
	switch x := e.(type) {
	case *ast.BasicLit:
		return x.Value
	case *ast.Ident:
		return x.Name
	case *ast.UnaryExpr:
		return x.Op.String() + exprString(x.X)
	case *ast.SelectorExpr:
		return exprString(x.X) + "." + x.Sel.Name
	}
	return fmt.Sprintf("<%T>", e)
}
