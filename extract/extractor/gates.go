package main

import (
	"fmt"
	"go/ast"
	"go/parser"
	"os"
	"path/filepath"
	"sort"
	"strings"
)

// genGates: every function that consults the configuration before producing a diagnostic
// (IsGlobalIgnoreErrType(K) / IsIgnoreErrorFile(_, K) with a constant K), together with the
// constant types it passes to InsertError / InsertRelateError.  Also: is the choke point guarded?
func genGates(repo string) {
	type gf struct {
		file, fn       string
		gates, inserts []string
	}
	var out []gf
	chokeGuarded := false
	root := filepath.Join(repo, "langserver/check")
	filepath.Walk(root, func(path string, fi os.FileInfo, err error) error {
		if err != nil || fi.IsDir() || !strings.HasSuffix(path, ".go") || strings.HasSuffix(path, "_test.go") {
			return nil
		}
		f, err := parser.ParseFile(fset, path, nil, 0)
		if err != nil {
			fail("parse %s: %v", path, err)
		}
		rel, _ := filepath.Rel(filepath.Join(repo, "langserver"), path)
		for _, d := range f.Decls {
			fd, ok := d.(*ast.FuncDecl)
			if !ok || fd.Body == nil {
				continue
			}
			gates := map[string]bool{}
			inserts := map[string]bool{}
			constName := func(e ast.Expr) string {
				switch x := e.(type) {
				case *ast.Ident:
					if strings.HasPrefix(x.Name, "CheckError") {
						return x.Name
					}
					return "<dynamic>"
				case *ast.SelectorExpr:
					if strings.HasPrefix(x.Sel.Name, "CheckError") {
						return x.Sel.Name
					}
				}
				return "<dynamic>"
			}
			ast.Inspect(fd.Body, func(n ast.Node) bool {
				call, ok := n.(*ast.CallExpr)
				if !ok {
					return true
				}
				se, ok := call.Fun.(*ast.SelectorExpr)
				if !ok {
					return true
				}
				switch se.Sel.Name {
				case "IsGlobalIgnoreErrType":
					if len(call.Args) == 1 {
						gates[constName(call.Args[0])] = true
					}
				case "IsIgnoreErrorFile":
					if len(call.Args) == 2 {
						gates[constName(call.Args[1])] = true
						if fd.Name.Name == "InsertRelateError" {
							chokeGuarded = true
						}
					}
				case "InsertError", "InsertRelateError":
					if len(call.Args) >= 1 && fd.Name.Name != "InsertError" {
						inserts[constName(call.Args[0])] = true
					}
				}
				return true
			})
			if len(gates) > 0 && fd.Name.Name != "InsertRelateError" {
				g := gf{file: rel, fn: fd.Name.Name}
				for k := range gates {
					g.gates = append(g.gates, k)
				}
				for k := range inserts {
					g.inserts = append(g.inserts, k)
				}
				sort.Strings(g.gates)
				sort.Strings(g.inserts)
				out = append(out, g)
			}
		}
		return nil
	})
	sort.Slice(out, func(i, j int) bool {
		if out[i].file != out[j].file {
			return out[i].file < out[j].file
		}
		return out[i].fn < out[j].fn
	})
	var b strings.Builder
	b.WriteString("namespace LuaHelper.Gen\n\n")
	b.WriteString("/-- functions consulting the configuration before producing diagnostics:\n    (file, function, tested type constants, constant types passed to InsertError in that function) -/\n")
	b.WriteString("def gateFuncs : List (String × String × List String × List String) := [\n")
	for i, g := range out {
		sep := ","
		if i == len(out)-1 {
			sep = ""
		}
		fmt.Fprintf(&b, "  (%s, %s, %s, %s)%s\n", leanStr(g.file), leanStr(g.fn), leanStrList(g.gates), leanStrList(g.inserts), sep)
	}
	fmt.Fprintf(&b, "]\n\n/-- InsertRelateError consults IsIgnoreErrorFile(f.Name, errType) before recording -/\ndef chokeGuarded : Bool := %v\n\nend LuaHelper.Gen\n", chokeGuarded)
	write("Gates.lean", b.String())
}
