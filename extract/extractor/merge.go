package main

import (
	"bytes"
	"fmt"
	"go/ast"
	"go/parser"
	"go/printer"
	"go/token"
	"path/filepath"
	"strings"
)

// genMerge: the duplicate-global merge of results/third_result.go as facts:
//   - the conditions of the if statements inside the range loop of JudgeShouldInsertGlobalInfo with what
//     they do (continue / return false), in order;
//   - whether FindThirdGlobalGInfo scans the candidate list from the LAST element downwards.
func genMerge(repo string) {
	path := filepath.Join(repo, "langserver/check/results/third_result.go")
	f, err := parser.ParseFile(fset, path, nil, 0)
	if err != nil {
		fail("parse %s: %v", path, err)
	}
	src := func(n ast.Node) string {
		var b bytes.Buffer
		printer.Fprint(&b, fset, n)
		return strings.Join(strings.Fields(b.String()), " ")
	}
	var conds []string
	backward := false
	foundJ, foundF := false, false
	for _, d := range f.Decls {
		fd, ok := d.(*ast.FuncDecl)
		if !ok || fd.Body == nil {
			continue
		}
		switch fd.Name.Name {
		case "JudgeShouldInsertGlobalInfo":
			foundJ = true
			ast.Inspect(fd.Body, func(n ast.Node) bool {
				rs, ok := n.(*ast.RangeStmt)
				if !ok {
					return true
				}
				for _, st := range rs.Body.List {
					is, ok := st.(*ast.IfStmt)
					if !ok {
						fail("JudgeShouldInsertGlobalInfo: loop body contains a statement that is not an if")
					}
					act := "?"
					if len(is.Body.List) > 0 {
						switch last := is.Body.List[len(is.Body.List)-1].(type) {
						case *ast.BranchStmt:
							act = last.Tok.String()
						case *ast.ReturnStmt:
							act = "return " + src(last.Results[0])
						}
					}
					conds = append(conds, src(is.Cond)+" => "+act)
				}
				return false
			})
		case "FindThirdGlobalGInfo":
			foundF = true
			ast.Inspect(fd.Body, func(n ast.Node) bool {
				fs, ok := n.(*ast.ForStmt)
				if !ok {
					return true
				}
				if inc, ok := fs.Post.(*ast.IncDecStmt); ok && inc.Tok == token.DEC {
					backward = true
				}
				return false
			})
		}
	}
	if !foundJ || !foundF {
		fail("third_result.go: JudgeShouldInsertGlobalInfo / FindThirdGlobalGInfo not found")
	}
	var b strings.Builder
	b.WriteString("namespace LuaHelper.Gen\n\n/-- the if statements of the candidate loop of JudgeShouldInsertGlobalInfo: condition => action -/\n")
	b.WriteString("def mergeConds : List String := " + leanStrList(conds) + "\n\n")
	fmt.Fprintf(&b, "/-- FindThirdGlobalGInfo scans the candidate list from its last element downwards -/\ndef findScanBackward : Bool := %v\n\nend LuaHelper.Gen\n", backward)
	write("Merge.lean", b.String())
}
