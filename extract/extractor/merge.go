package main

import (
	"bytes"
	"fmt"
	"go/ast"
	"go/parser"
	"go/printer"
	"go/token"
	"path/filepath"
	"strings"
)

// genMerge: the duplicate-global merge of results/third_result.go as facts:
//   - the conditions of the if statements inside the range loop of JudgeShouldInsertGlobalInfo with what
//     they do (continue / return false), in order;
//   - whether FindThirdGlobalGInfo scans the candidate list from the LAST element downwards.
func genMerge(repo string) {
	path := filepath.Join(repo, "langserver/check/results/third_result.go")
	f, err := parser.ParseFile(fset, path, nil, 0)
	if err != nil {
		fail("parse %s: %v", path, err)
	}
	src := func(n ast.Node) string {
		var b bytes.Buffer
		printer.Fprint(&b, fset, n)
		return strings.Join(strings.Fields(b.String()), " ")
	}
	var conds []string
	backward := false
	foundJ, foundF := false, false
	for _, d := range f.Decls {
		fd, ok := d.(*ast.FuncDecl)
		if !ok || fd.Body == nil {
			continue
		}
		switch fd.Name.Name {
		case "JudgeShouldInsertGlobalInfo":
			foundJ = true
			ast.Inspect(fd.Body, func(n ast.Node) bool {
				rs, ok := n.(*ast.RangeStmt)
				if !ok {
					return true
				}
				for _, st := range rs.Body.List {
					is, ok := st.(*ast.IfStmt)
					if !ok {
						fail("JudgeShouldInsertGlobalInfo: loop body contains a statement that is not an if")
					}
					act := "?"
					if len(is.Body.List) > 0 {
						switch last := is.Body.List[len(is.Body.List)-1].(type) {
						case *ast.BranchStmt:
							act = last.Tok.String()
						case *ast.ReturnStmt:
							act = "return " + src(last.Results[0])
						}
					}
					conds = append(conds, src(is.Cond)+" => "+act)
				}
				return false
			})
		case "FindThirdGlobalGInfo":
			foundF = true
			ast.Inspect(fd.Body, func(n ast.Node) bool {
				fs, ok := n.(*ast.ForStmt)
				if !ok {
					return true
				}
				if inc, ok := fs.Post.(*ast.IncDecStmt); ok && inc.Tok == token.DEC {
					backward = true
				}
				return false
			})
		}
	}
	if !foundJ || !foundF {
		fail("third_result.go: JudgeShouldInsertGlobalInfo / FindThirdGlobalGInfo not found")
	}
	// the order in which the files are visited: the top-level statements of the two functions that merge
	// per-file tables into workspace tables, reduced to "range <X>", "<slice> = append(<slice>, <key>)" for the
	// body of a collecting loop, and "sort.Strings(<slice>)"
	visits := func(file, fn string) []string {
		pf, err := parser.ParseFile(fset, filepath.Join(repo, file), nil, 0)
		if err != nil {
			fail("parse %s: %v", file, err)
		}
		var out []string
		found := false
		for _, d := range pf.Decls {
			fd, ok := d.(*ast.FuncDecl)
			if !ok || fd.Body == nil || fd.Name.Name != fn {
				continue
			}
			found = true
			for _, st := range fd.Body.List {
				switch x := st.(type) {
				case *ast.RangeStmt:
					t := "range " + src(x.X)
					if len(x.Body.List) == 1 {
						if as, ok := x.Body.List[0].(*ast.AssignStmt); ok && strings.Contains(src(as), "append(") {
							t += " { " + src(as) + " }"
						}
					}
					out = append(out, t)
				case *ast.ExprStmt:
					if strings.HasPrefix(src(x.X), "sort.") {
						out = append(out, src(x.X))
					}
				}
			}
		}
		if !found {
			fail("%s: %s not found", file, fn)
		}
		return out
	}
	globalVisits := visits("langserver/check/check_third_file.go", "generateAllGlobalMaps")
	typeVisits := visits("langserver/check/check_all.go", "rebuidCreateTypeMap")
	// the per-project second pass (ProjectFiles): the helper that sorts the project's files and the two merges that use it
	projectVisits := append(visits("langserver/check/check_second_project.go", "sortedProjectFiles"),
		append(visits("langserver/check/check_second_project.go", "generateAllFristGlobalGMaps"),
			append(visits("langserver/check/check_second_project.go", "generateRequireFileGlobalGmaps"), visits("langserver/check/check_second_project.go", "handleOtherFileInsertSub")...)...)...)
	// the comparisons of resultSorter.Less (workspace/symbol), in source order: what every return statement compares
	var lessKeys []string
	{
		pf, err := parser.ParseFile(fset, filepath.Join(repo, "langserver/check/check_lsp_symbol.go"), nil, 0)
		if err != nil {
			fail("parse check_lsp_symbol.go: %v", err)
		}
		for _, d := range pf.Decls {
			fd, ok := d.(*ast.FuncDecl)
			if !ok || fd.Body == nil || fd.Name.Name != "Less" || fd.Recv == nil || !strings.Contains(src(fd.Recv.List[0].Type), "resultSorter") {
				continue
			}
			ast.Inspect(fd.Body, func(n ast.Node) bool {
				if r, ok := n.(*ast.ReturnStmt); ok && len(r.Results) == 1 {
					lessKeys = append(lessKeys, src(r.Results[0]))
				}
				return true
			})
		}
		if len(lessKeys) == 0 {
			fail("check_lsp_symbol.go: resultSorter.Less not found")
		}
	}
	// findMaxSecondProject: the condition under which the project visited replaces the best one so far
	maxProjectCond := ""
	{
		pf, err := parser.ParseFile(fset, filepath.Join(repo, "langserver/check/check_lsp_define.go"), nil, 0)
		if err != nil {
			fail("parse check_lsp_define.go: %v", err)
		}
		for _, d := range pf.Decls {
			fd, ok := d.(*ast.FuncDecl)
			if !ok || fd.Body == nil || fd.Name.Name != "findMaxSecondProject" {
				continue
			}
			ast.Inspect(fd.Body, func(n ast.Node) bool {
				if is, ok := n.(*ast.IfStmt); ok && maxProjectCond == "" {
					maxProjectCond = strings.Join(strings.Fields(src(is.Cond)), " ")
				}
				return true
			})
		}
		if maxProjectCond == "" {
			fail("check_lsp_define.go: findMaxSecondProject not found")
		}
	}
	var b strings.Builder
	b.WriteString("namespace LuaHelper.Gen\n\n/-- the if statements of the candidate loop of JudgeShouldInsertGlobalInfo: condition => action -/\n")
	b.WriteString("def mergeConds : List String := " + leanStrList(conds) + "\n\n")
	fmt.Fprintf(&b, "/-- FindThirdGlobalGInfo scans the candidate list from its last element downwards -/\ndef findScanBackward : Bool := %v\n\n", backward)
	b.WriteString("/-- generateAllGlobalMaps: its loops over files and the sort between them -/\ndef globalVisits : List String := " + leanStrList(globalVisits) + "\n\n")
	b.WriteString("/-- rebuidCreateTypeMap: its loops over files and the sort between them -/\ndef typeVisits : List String := " + leanStrList(typeVisits) + "\n\n")
	b.WriteString("/-- resultSorter.Less: the comparisons it returns, in source order -/\ndef symbolLess : List String := " + leanStrList(lessKeys) + "\n\n")
	b.WriteString("/-- findMaxSecondProject: when the visited project replaces the best one so far -/\ndef maxProjectCond : String := " + leanStr(maxProjectCond) + "\n\n")
	b.WriteString("/-- sortedProjectFiles, generateAllFristGlobalGMaps, handleOtherFileInsertSub: their loops over files and the sort -/\ndef projectVisits : List String := " + leanStrList(projectVisits) + "\n\nend LuaHelper.Gen\n")
	write("Merge.lean", b.String())
}
