package main

import (
	"fmt"
	"go/ast"
	"go/parser"
	"path/filepath"
	"strings"
)

// genSymbols: how the outline builders rewrite the range of a table symbol with members:
// every assignment `oneSymbol.Loc.<X> = maxLoc.<Y>` in FindAllSymbol / FindAllLocalVal.
func genSymbols(repo string) {
	type as struct{ fn, lhs, rhs string }
	var out []as
	for _, site := range [][2]string{{"langserver/check/results/file_result.go", "FindAllSymbol"}, {"langserver/check/common/scope_info.go", "FindAllLocalVal"}} {
		f, err := parser.ParseFile(fset, filepath.Join(repo, site[0]), nil, 0)
		if err != nil {
			fail("parse %s: %v", site[0], err)
		}
		found := false
		for _, d := range f.Decls {
			fd, ok := d.(*ast.FuncDecl)
			if !ok || fd.Name.Name != site[1] || fd.Body == nil {
				continue
			}
			found = true
			ast.Inspect(fd.Body, func(n ast.Node) bool {
				a, ok := n.(*ast.AssignStmt)
				if !ok || len(a.Lhs) != 1 || len(a.Rhs) != 1 {
					return true
				}
				l, ok1 := a.Lhs[0].(*ast.SelectorExpr)
				r, ok2 := a.Rhs[0].(*ast.SelectorExpr)
				if !ok1 || !ok2 {
					return true
				}
				ll, ok3 := l.X.(*ast.SelectorExpr)
				rx, ok4 := r.X.(*ast.Ident)
				if !ok3 || !ok4 || ll.Sel.Name != "Loc" || rx.Name != "maxLoc" {
					return true
				}
				if lx, ok := ll.X.(*ast.Ident); !ok || lx.Name != "oneSymbol" {
					return true
				}
				out = append(out, as{site[1], l.Sel.Name, r.Sel.Name})
				return true
			})
		}
		if !found {
			fail("function %s not found in %s", site[1], site[0])
		}
	}
	var b strings.Builder
	b.WriteString("namespace LuaHelper.Gen\n\n/-- (function, field of oneSymbol.Loc written, field of maxLoc read) -/\n")
	b.WriteString("def symRangeAssigns : List (String × String × String) := [\n")
	for i, a := range out {
		sep := ","
		if i == len(out)-1 {
			sep = ""
		}
		fmt.Fprintf(&b, "  (%s, %s, %s)%s\n", leanStr(a.fn), leanStr(a.lhs), leanStr(a.rhs), sep)
	}
	b.WriteString("]\n\nend LuaHelper.Gen\n")
	write("Symbols.lean", b.String())
}
