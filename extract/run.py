#!/usr/bin/env python3
"""Regenerates lean/LuaHelper/Gen/*.lean from /repo's working tree (facts extractor, see DESIGN.md §3.1).
Files are rewritten only when their content changed, so an unchanged tree costs no Lean rebuild."""
import os, subprocess, sys
VERIF = os.path.dirname(os.path.dirname(os.path.abspath(__file__)))
GEN = os.path.join(VERIF, "lean", "LuaHelper", "Gen")
ENV = dict(os.environ, GOFLAGS="-mod=mod", GOPROXY="off", GOSUMDB="off", GOTOOLCHAIN="local")

def main():
    os.makedirs(GEN, exist_ok=True)
    src = os.path.join(VERIF, "extract", "extractor")
    if not os.path.isdir(src):
        return 0
    out = os.path.join(VERIF, ".work", "gen.new")
    os.makedirs(out, exist_ok=True)
    p = subprocess.run(["go", "run", ".", "-repo", os.environ.get("VERIF_REPO", "/repo") + "/luahelper-lsp", "-out", out], cwd=src, env=ENV,
                       stdout=subprocess.PIPE, stderr=subprocess.STDOUT, text=True)
    sys.stdout.write(p.stdout)
    if p.returncode != 0:
        return p.returncode
    for fn in sorted(os.listdir(out)):
        new = open(os.path.join(out, fn)).read()
        dst = os.path.join(GEN, fn) if fn.endswith(".lean") else os.path.join(VERIF, ".work", fn)
        old = open(dst).read() if os.path.exists(dst) else None
        if old != new:
            with open(dst + ".tmp", "w") as f:
                f.write(new)
            os.replace(dst + ".tmp", dst)
    return 0

if __name__ == "__main__":
    sys.exit(main())
