package lib

import (
	"fmt"
	"strings"
	"unicode/utf8"

	"luahelper-lsp/langserver/check/compiler/ast"
	"luahelper-lsp/langserver/check/compiler/lexer"
	"luahelper-lsp/langserver/check/compiler/parser"
	"luahelper-lsp/langserver/codingconv"
)

func lc(l lexer.Location) string {
	return fmt.Sprintf("%d:%d:%d:%d", l.StartLine, l.StartColumn, l.EndLine, l.EndColumn)
}

func hx(s string) string { return Hex([]byte(s)) }

func dumpExps(es []ast.Exp) string {
	parts := make([]string, len(es))
	for i, e := range es {
		parts[i] = DumpExp(e)
	}
	return strings.Join(parts, " ")
}

// DumpExp renders an expression in the canonical S-expression format shared with the Lean driver.
func DumpExp(e ast.Exp) string {
	switch x := e.(type) {
	case nil:
		return "_"
	case *ast.NilExp:
		return "(nil " + lc(x.Loc) + ")"
	case *ast.TrueExp:
		return "(true " + lc(x.Loc) + ")"
	case *ast.FalseExp:
		return "(false " + lc(x.Loc) + ")"
	case *ast.VarargExp:
		return "(va " + lc(x.Loc) + ")"
	case *ast.IntegerExp:
		return fmt.Sprintf("(int %d %s)", x.Val, lc(x.Loc))
	case *ast.FloatExp:
		return "(flt " + lc(x.Loc) + ")"
	case *ast.StringExp:
		if x == nil {
			return "_"
		}
		return fmt.Sprintf("(str %s %s)", hx(x.Str), lc(x.Loc))
	case *ast.UnopExp:
		return fmt.Sprintf("(un %d %s %s)", int(x.Op), DumpExp(x.Exp), lc(x.Loc))
	case *ast.BinopExp:
		return fmt.Sprintf("(bin %d %s %s %s)", int(x.Op), DumpExp(x.Exp1), DumpExp(x.Exp2), lc(x.Loc))
	case *ast.TableConstructorExp:
		return fmt.Sprintf("(tbl [%s] [%s] %s)", dumpExps(x.KeyExps), dumpExps(x.ValExps), lc(x.Loc))
	case *ast.FuncDefExp:
		return dumpFunc(x)
	case *ast.NameExp:
		return fmt.Sprintf("(name %s %s)", hx(x.Name), lc(x.Loc))
	case *ast.ParensExp:
		return fmt.Sprintf("(par %s %s)", DumpExp(x.Exp), lc(x.Loc))
	case *ast.TableAccessExp:
		return fmt.Sprintf("(idx %s %s %s)", DumpExp(x.PrefixExp), DumpExp(x.KeyExp), lc(x.Loc))
	case *ast.FuncCallExp:
		m := "_"
		if x.NameExp != nil {
			m = fmt.Sprintf("(str %s %s)", hx(x.NameExp.Str), lc(x.NameExp.Loc))
		}
		return fmt.Sprintf("(call %s %s [%s] %s)", DumpExp(x.PrefixExp), m, dumpExps(x.Args), lc(x.Loc))
	case *ast.BadExpr:
		return "(bad " + lc(x.Loc) + ")"
	}
	return fmt.Sprintf("(unknown-exp %T)", e)
}

func dumpFunc(f *ast.FuncDefExp) string {
	ps := make([]string, len(f.ParList))
	for i := range f.ParList {
		l := lexer.Location{}
		if i < len(f.ParLocList) {
			l = f.ParLocList[i]
		}
		ps[i] = hx(f.ParList[i]) + "@" + lc(l)
	}
	b := func(v bool) int {
		if v {
			return 1
		}
		return 0
	}
	return fmt.Sprintf("(fn %s %s [%s] %d %d %s %s)", hx(f.ClassName), hx(f.FuncName), strings.Join(ps, " "), b(f.IsVararg), b(f.IsColon), DumpBlock(f.Block), lc(f.Loc))
}

func DumpStat(s ast.Stat) string {
	switch x := s.(type) {
	case *ast.BreakStat:
		return "(break)"
	case *ast.LabelStat:
		return fmt.Sprintf("(label %s %s)", hx(x.Name), lc(x.Loc))
	case *ast.GotoStat:
		return fmt.Sprintf("(goto %s %s)", hx(x.Name), lc(x.Loc))
	case *ast.DoStat:
		return fmt.Sprintf("(do %s %s)", DumpBlock(x.Block), lc(x.Loc))
	case *ast.WhileStat:
		return fmt.Sprintf("(while %s %s %s)", DumpExp(x.Exp), DumpBlock(x.Block), lc(x.Loc))
	case *ast.RepeatStat:
		return fmt.Sprintf("(repeat %s %s %s)", DumpBlock(x.Block), DumpExp(x.Exp), lc(x.Loc))
	case *ast.IfStat:
		bs := make([]string, len(x.Blocks))
		for i, b := range x.Blocks {
			bs[i] = DumpBlock(b)
		}
		els := ""
		if x.HasElse {
			els = "+else"
		}
		return fmt.Sprintf("(if%s [%s] [%s] %s)", els, dumpExps(x.Exps), strings.Join(bs, " "), lc(x.Loc))
	case *ast.ForNumStat:
		return fmt.Sprintf("(fornum %s@%s %s %s %s %s %s)", hx(x.VarName), lc(x.VarLoc), DumpExp(x.InitExp), DumpExp(x.LimitExp), DumpExp(x.StepExp), DumpBlock(x.Block), lc(x.Loc))
	case *ast.ForInStat:
		ns := make([]string, len(x.NameList))
		for i := range x.NameList {
			ns[i] = hx(x.NameList[i]) + "@" + lc(x.NameLocList[i])
		}
		return fmt.Sprintf("(forin [%s] [%s] %s %s)", strings.Join(ns, " "), dumpExps(x.ExpList), DumpBlock(x.Block), lc(x.Loc))
	case *ast.AssignStat:
		return fmt.Sprintf("(assign [%s] [%s] %s)", dumpExps(x.VarList), dumpExps(x.ExpList), lc(x.Loc))
	case *ast.LocalVarDeclStat:
		ns := make([]string, len(x.NameList))
		for i := range x.NameList {
			ns[i] = fmt.Sprintf("%s@%s@%d", hx(x.NameList[i]), lc(x.VarLocList[i]), int(x.AttrList[i]))
		}
		return fmt.Sprintf("(local [%s] [%s] %s)", strings.Join(ns, " "), dumpExps(x.ExpList), lc(x.Loc))
	case *ast.LocalFuncDefStat:
		return fmt.Sprintf("(localfn %s@%s %s %s)", hx(x.Name), lc(x.NameLoc), dumpFunc(x.Exp), lc(x.Loc))
	case *ast.FuncCallStat:
		return DumpExp(x)
	case *ast.EmptyStat:
		return "(empty)"
	}
	return fmt.Sprintf("(unknown-stat %T)", s)
}

func DumpBlock(b *ast.Block) string {
	if b == nil {
		return "(nilblock)"
	}
	ss := make([]string, len(b.Stats))
	for i, s := range b.Stats {
		ss[i] = DumpStat(s)
	}
	r := "R_"
	if b.RetExps != nil {
		r = "R[" + dumpExps(b.RetExps) + "]"
	}
	return fmt.Sprintf("(block [%s] %s %s)", strings.Join(ss, " "), r, lc(b.Loc))
}

// ParseDump runs the REAL parser (CreateParser + BeginAnalyze) and renders errors + AST in the
// driver's `parse` answer format.  recovered reports a non-sentinel value swallowed by recover().
func ParseDump(src []byte) (dump string, nerr int, recovered interface{}) {
	prev := parser.VerifRecovered
	parser.VerifRecovered = func(v interface{}) { recovered = v }
	defer func() { parser.VerifRecovered = prev }()
	p := parser.CreateParser(append([]byte(nil), src...), "t")
	block, _, errs := p.BeginAnalyze()
	es := make([]string, len(errs))
	for i, e := range errs {
		es[i] = lc(e.Loc)
	}
	t := 0
	if len(errs) > 30 {
		t = 1
	}
	pflag := 0
	if recovered != nil {
		pflag = 1
	}
	s := fmt.Sprintf("P%dM0F0T%d E%d", pflag, t, len(errs))
	if len(errs) > 0 {
		s += "/" + strings.Join(es, "/")
	}
	return s + " " + DumpBlock(block), len(errs), recovered
}

// ConvTableFor lexes src with the real lexer only to collect the GBK rune counts the model needs.
func ConvTableFor(src []byte) string {
	_, conv, _ := LexDump(src)
	return conv
}

var _ = utf8.RuneCountInString
var _ = codingconv.ConvertStrToUtf8
