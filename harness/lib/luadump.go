package lib

import (
	"fmt"
	"strings"

	"luahelper-lsp/langserver/check/compiler/lexer"
	"luahelper-lsp/langserver/codingconv"
)

// LexDump runs the REAL lexer over src and renders the token stream in the driver's `lex` format:
// kind,texthex,line,sl:sc:el:ec,E<n>[/loc…] joined by ';'.  It also returns the rune counts of
// ConvertStrToUtf8 for every string/illegal token text (the opaque GBK parameter of the model).
// A panic inside the lexer is reported as panicked=true (the parser would swallow it in recover()).
func LexDump(src []byte) (dump string, conv string, panicked bool) {
	var parts []string
	convSet := map[string]int{}
	defer func() {
		if r := recover(); r != nil {
			if _, ok := r.(*lexer.TooManyErr); !ok {
				panicked = true
			}
			dump = strings.Join(parts, ";")
			conv = convTable(convSet)
		}
	}()
	// the lexer advances the column by the converted SOURCE text of a short string: every candidate text between
	// two equal quotes gets an entry (a superset is harmless, the table is only looked up)
	for i := 0; i < len(src); i++ {
		q := src[i]
		if q != '"' && q != '\'' {
			continue
		}
		for j := i + 1; j < len(src); j++ {
			c := src[j]
			if c == '\\' {
				j++
				continue
			}
			if c == q {
				raw := string(src[i+1 : j])
				if raw != "" {
					convSet[raw] = utf16Units(codingconv.ConvertStrToUtf8(raw))
				}
				break
			}
			if c == '\n' || c == '\r' {
				break
			}
		}
	}
	// the last line of a long string / long comment counts in characters too: every candidate text between a line start
	// (or the end of an opening long bracket on that line) and a closing long bracket gets an entry
	for j := 0; j < len(src); j++ {
		if src[j] != ']' {
			continue
		}
		k := j + 1
		for k < len(src) && src[k] == '=' {
			k++
		}
		if k >= len(src) || src[k] != ']' {
			continue
		}
		ls := j
		for ls > 0 && src[ls-1] != '\n' && src[ls-1] != '\r' {
			ls--
		}
		if seg := string(src[ls:j]); seg != "" {
			convSet[seg] = utf16Units(codingconv.ConvertStrToUtf8(seg))
		}
		for o := ls; o < j; o++ {
			if src[o] != '[' {
				continue
			}
			e := o + 1
			for e < j && src[e] == '=' {
				e++
			}
			if e < j && src[e] == '[' {
				if seg := string(src[e+1 : j]); seg != "" {
					convSet[seg] = utf16Units(codingconv.ConvertStrToUtf8(seg))
				}
			}
		}
	}
	l := lexer.NewLexer(append([]byte(nil), src...), "t")
	var cur []string
	l.SetErrHandler(func(e lexer.ParseError) {
		cur = append(cur, fmt.Sprintf("%d:%d:%d:%d", e.Loc.StartLine, e.Loc.StartColumn, e.Loc.EndLine, e.Loc.EndColumn))
	})
	l.SkipFirstLineComment()
	for n := 0; n < len(src)+3; n++ {
		cur = nil
		line, kind, str := l.NextToken()
		loc := l.GetNowTokenLoc()
		if kind == lexer.TkString || kind == lexer.IKIllegal {
			if str != "" {
				convSet[str] = utf16Units(codingconv.ConvertStrToUtf8(str))
			}
		}
		p := fmt.Sprintf("%d,%s,%d,%d:%d:%d:%d,E%d", int(kind), Hex([]byte(str)), line, loc.StartLine, loc.StartColumn, loc.EndLine, loc.EndColumn, len(cur))
		if len(cur) > 0 {
			p += "/" + strings.Join(cur, "/")
		}
		parts = append(parts, p)
		if kind == lexer.TkEOF {
			break
		}
	}
	return strings.Join(parts, ";"), convTable(convSet), false
}

// utf16Units: the lexer's column unit (UTF-16 code units)
func utf16Units(s string) int {
	n := 0
	for _, r := range s {
		n++
		if r > 0xFFFF {
			n++
		}
	}
	return n
}

func convTable(m map[string]int) string {
	if len(m) == 0 {
		return "-"
	}
	var parts []string
	for s, n := range m {
		parts = append(parts, fmt.Sprintf("%s:%d", Hex([]byte(s)), n))
	}
	// order is irrelevant to the driver (lookup table) but keep it canonical
	sortStrings(parts)
	return strings.Join(parts, ",")
}

func sortStrings(a []string) {
	for i := 1; i < len(a); i++ {
		for j := i; j > 0 && a[j] < a[j-1]; j-- {
			a[j], a[j-1] = a[j-1], a[j]
		}
	}
}
