package lib

import (
	"bufio"
	"encoding/hex"
	"fmt"
	"io"
	"os"
	"os/exec"
	"strings"
)

// Driver is the Lean model driver (lhdriver) behind a line protocol.
type Driver struct {
	cmd *exec.Cmd
	in  io.WriteCloser
	out *bufio.Reader
	N   int // operations sent
}

// DriverPath locates the compiled driver.
func DriverPath() string {
	if p := os.Getenv("LHDRIVER"); p != "" {
		return p
	}
	return "/verif/lean/.lake/build/bin/lhdriver"
}

func StartDriver() (*Driver, error) {
	cmd := exec.Command(DriverPath())
	in, err := cmd.StdinPipe()
	if err != nil {
		return nil, err
	}
	out, err := cmd.StdoutPipe()
	if err != nil {
		return nil, err
	}
	cmd.Stderr = os.Stderr
	if err := cmd.Start(); err != nil {
		return nil, err
	}
	return &Driver{cmd: cmd, in: in, out: bufio.NewReaderSize(out, 1<<20)}, nil
}

// Ask sends one line and returns the answer line.
func (d *Driver) Ask(line string) (string, error) {
	d.N++
	if _, err := io.WriteString(d.in, line+"\n"); err != nil {
		return "", err
	}
	ans, err := d.out.ReadString('\n')
	if err != nil {
		return "", fmt.Errorf("driver died on %q: %v", trunc(line, 200), err)
	}
	return strings.TrimRight(ans, "\r\n"), nil
}

func (d *Driver) Close() {
	d.in.Close()
	d.cmd.Wait()
}

// Hex encodes bytes for the protocol ("-" = empty).
func Hex(b []byte) string {
	if len(b) == 0 {
		return "-"
	}
	return hex.EncodeToString(b)
}

func UnHex(s string) []byte {
	if s == "-" {
		return nil
	}
	b, _ := hex.DecodeString(s)
	return b
}

func trunc(s string, n int) string {
	if len(s) > n {
		return s[:n] + "…"
	}
	return s
}

func Trunc(s string, n int) string { return trunc(s, n) }
