package lib

import (
	"encoding/json"
	"fmt"
	"io/ioutil"
	"os"
	"path/filepath"
	"sort"
	"time"
)

// Result is what a harness sub-command reports to ./check (which merges it with the proof audit
// into evidence/<id>.json).
type Result struct {
	Property     string                 `json:"property_id"`
	Tier         string                 `json:"tier"`
	Seed         int64                  `json:"seed"`
	Evaluations  int                    `json:"evaluations"`
	Distinct     int                    `json:"distinct_nontrivial"`
	Rule         string                 `json:"rule"`
	Samples      []interface{}          `json:"samples"`
	Distribution map[string]int         `json:"distribution"`
	Known        []KnownHit             `json:"known_findings_hit"`
	Violations   []Violation            `json:"violations"`
	Notes        []string               `json:"notes"`
	Extra        map[string]interface{} `json:"extra,omitempty"`
	WallS        float64                `json:"wall_s"`
	start        time.Time
	seen         map[string]bool
}

type KnownHit struct {
	ID    string `json:"id"`
	What  string `json:"what"`
	Count int    `json:"count"`
	First string `json:"first_case"`
}

type Violation struct {
	Kind   string `json:"kind"` // impl-vs-model | impl-vs-spec | crash | timeout | theorem
	Detail string `json:"detail"`
	Case   string `json:"case"`
	Replay string `json:"replay"`
	NoFailingInput bool `json:"no_failing_input_found"`
}

func NewResult(prop, tier string, seed int64) *Result {
	return &Result{Property: prop, Tier: tier, Seed: seed, Distribution: map[string]int{},
		start: time.Now(), seen: map[string]bool{}, Extra: map[string]interface{}{}}
}

// Count records one evaluated case; key is its canonical form, nontrivial by the caller's rule.
func (r *Result) Count(key string, nontrivial bool) {
	r.Evaluations++
	if nontrivial && !r.seen[key] {
		r.seen[key] = true
		r.Distinct++
	}
}

func (r *Result) Dist(k string) { r.Distribution[k]++ }

func (r *Result) Sample(v interface{}) {
	if len(r.Samples) < 6 {
		r.Samples = append(r.Samples, v)
	}
}

func (r *Result) HitKnown(id, what, firstCase string) {
	for i := range r.Known {
		if r.Known[i].ID == id {
			r.Known[i].Count++
			return
		}
	}
	r.Known = append(r.Known, KnownHit{ID: id, What: what, Count: 1, First: firstCase})
}

// AddViolation writes the replay file and records the violation (at most 5 are kept).
func (r *Result) AddViolation(kind, detail, caseText string, noFailingInput bool) {
	// at most 4 violations without a failing input and 4 with one are kept
	n := 0
	for _, v := range r.Violations {
		if v.NoFailingInput == noFailingInput {
			n++
		}
	}
	if n >= 4 {
		return
	}
	dir := "/verif/replays"
	os.MkdirAll(dir, 0o755)
	name := fmt.Sprintf("%s_%s_%d_%d.txt", r.Property, r.Tier, r.Seed, len(r.Violations))
	path := filepath.Join(dir, name)
	body := fmt.Sprintf("property=%s\nkind=%s\ndetail=%s\ncase:\n%s\n", r.Property, kind, detail, caseText)
	ioutil.WriteFile(path, []byte(body), 0o644)
	r.Violations = append(r.Violations, Violation{Kind: kind, Detail: detail, Case: trunc(caseText, 4000), Replay: path, NoFailingInput: noFailingInput})
}

func (r *Result) Note(f string, a ...interface{}) { r.Notes = append(r.Notes, fmt.Sprintf(f, a...)) }

// Write stores the result JSON at path.
func (r *Result) Write(path string) error {
	r.WallS = time.Since(r.start).Seconds()
	sort.Slice(r.Known, func(i, j int) bool { return r.Known[i].ID < r.Known[j].ID })
	if r.Samples == nil {
		r.Samples = []interface{}{}
	}
	b, err := json.MarshalIndent(r, "", " ")
	if err != nil {
		return err
	}
	return ioutil.WriteFile(path, b, 0o644)
}

// CorpusLines returns the non-empty, non-comment lines of /verif/corpus/<prop>/*.case (sorted by file name).
func CorpusLines(prop string) []string {
	dir := filepath.Join("/verif/corpus", prop)
	ents, err := ioutil.ReadDir(dir)
	if err != nil {
		return nil
	}
	var out []string
	for _, e := range ents {
		if e.IsDir() || filepath.Ext(e.Name()) != ".case" {
			continue
		}
		b, err := ioutil.ReadFile(filepath.Join(dir, e.Name()))
		if err != nil {
			continue
		}
		for _, l := range splitLines(string(b)) {
			if l != "" && l[0] != '#' {
				out = append(out, l)
			}
		}
	}
	return out
}

func splitLines(s string) []string {
	var out []string
	cur := ""
	for _, c := range s {
		if c == '\n' {
			out = append(out, cur)
			cur = ""
		} else if c != '\r' {
			cur += string(c)
		}
	}
	if cur != "" {
		out = append(out, cur)
	}
	return out
}

// Breadcrumb records the case about to be executed in-process, so that if the real code takes the
// whole process down (fatal error, unrecovered panic in a server goroutine) ./check can name the input.
func Breadcrumb(text string) {
	base := os.Getenv("VERIF_WORK")
	if base == "" {
		base = "/verif/.work"
	}
	ioutil.WriteFile(filepath.Join(base, "current_case.txt"), []byte(text), 0o644)
}
