package lib

import (
	"fmt"
	"strings"

	"luahelper-lsp/langserver/check/annotation/annotateast"
	"luahelper-lsp/langserver/check/annotation/annotatelexer"
	"luahelper-lsp/langserver/check/annotation/annotateparser"
)

func b01(b bool) string {
	if b {
		return "1"
	}
	return "0"
}

// AnnotTypeDump renders an annotation type in the canonical form of the Lean driver (AnnotOps.dumpTy).
func AnnotTypeDump(t annotateast.Type) string {
	switch x := t.(type) {
	case *annotateast.MultiType:
		var l []string
		for _, y := range x.TypeList {
			l = append(l, AnnotTypeDump(y))
		}
		return "M[" + strings.Join(l, ",") + "]"
	case *annotateast.NormalType:
		return "N:" + Hex([]byte(x.StrName))
	case *annotateast.ArrayType:
		return "A[" + AnnotTypeDump(x.ItemType) + "]"
	case *annotateast.TableType:
		if x.EmptyFlag {
			return "TE"
		}
		return "T[" + AnnotTypeDump(x.KeyType) + "," + AnnotTypeDump(x.ValueType) + "]"
	case *annotateast.FuncType:
		var ps, rs []string
		for i, n := range x.ParamNameList {
			if i >= len(x.ParamOptionList) || i >= len(x.ParamTypeList) {
				break
			}
			o := ""
			if x.ParamOptionList[i] {
				o = "?"
			}
			ps = append(ps, Hex([]byte(n))+o+":"+AnnotTypeDump(x.ParamTypeList[i]))
		}
		for _, r := range x.ReturnTypeList {
			rs = append(rs, AnnotTypeDump(r))
		}
		return "F[" + strings.Join(ps, ",") + "][" + strings.Join(rs, ",") + "]"
	case *annotateast.ConstType:
		return "C:" + Hex([]byte(x.Name)) + ":" + b01(x.QuotesFlag)
	case nil:
		return "<nil>"
	}
	return fmt.Sprintf("<%T>", t)
}

// AnnotLineDump parses one annotation line (the text after "-@") with the real parser and renders the
// statement like AnnotOps.dumpStat; a parse error is "ERR"; a Go panic other than the parser's own
// error value is reported as "PANIC: …".
func AnnotLineDump(line string) (out string) {
	defer func() {
		if e := recover(); e != nil {
			out = fmt.Sprintf("PANIC: %v", e)
		}
	}()
	str := "-@" + line
	l := annotatelexer.CreateAnnotateLexer(&str, 1, 0)
	if !l.CheckHeardValid() {
		return "noheader"
	}
	st, perr := annotateparser.ParserLine(l)
	if perr.ErrType != annotatelexer.AErrorOk {
		return "ERR"
	}
	hexS := func(s string) string { return "#" + Hex([]byte(s)) }
	switch x := st.(type) {
	case *annotateast.AnnotateTypeState:
		var items, ps []string
		for i, t := range x.ListType {
			items = append(items, b01(x.ListConst[i])+b01(x.ListEnum[i])+AnnotTypeDump(t))
			ps = append(ps, Hex([]byte(annotateast.TypeConvertStr(t))))
		}
		return "type " + strings.Join(items, ";") + " " + hexS(x.Comment) + " P=" + strings.Join(ps, ";")
	case *annotateast.AnnotateAliasState:
		t := "-"
		if x.AliasType != nil {
			t = AnnotTypeDump(x.AliasType)
		}
		return "alias " + Hex([]byte(x.Name)) + " " + t + " " + hexS(x.Comment)
	case *annotateast.AnnotateClassState:
		var ps []string
		for _, p := range x.ParentNameList {
			ps = append(ps, Hex([]byte(p)))
		}
		return "class " + Hex([]byte(x.Name)) + " " + strings.Join(ps, ",") + " " + hexS(x.Comment)
	case *annotateast.AnnotateOverloadState:
		return "overload " + AnnotTypeDump(x.OverFunType) + " " + hexS(x.Comment)
	case *annotateast.AnnotateFieldState:
		return fmt.Sprintf("field %d ", x.FieldScopeType) + Hex([]byte(x.Name)) + " " + b01(x.FieldColonType == annotateast.FieldColonYes) + " " +
			AnnotTypeDump(x.FiledType) + " " + hexS(x.Comment) + " P=" + Hex([]byte(annotateast.TypeConvertStr(x.FiledType)))
	case *annotateast.AnnotateParamState:
		return "param " + b01(x.IsConst) + " " + Hex([]byte(x.Name)) + " " + b01(x.IsOptional) + " " + AnnotTypeDump(x.ParamType) + " " + hexS(x.Comment) +
			" P=" + Hex([]byte(annotateast.TypeConvertStr(x.ParamType)))
	case *annotateast.AnnotateReturnState:
		var items []string
		for i, t := range x.ReturnTypeList {
			o := ""
			if x.ReturnOptionList[i] {
				o = "?"
			}
			items = append(items, AnnotTypeDump(t)+o)
		}
		return "return " + strings.Join(items, ";") + " " + hexS(x.Comment)
	case *annotateast.AnnotateGenericState:
		var items []string
		for i, g := range x.NameList {
			items = append(items, Hex([]byte(g))+":"+Hex([]byte(x.ParentNameList[i])))
		}
		return "generic " + strings.Join(items, ",") + " " + hexS(x.Comment)
	case *annotateast.AnnotateVarargState:
		return "vararg " + AnnotTypeDump(x.VarargType) + " " + hexS(x.Comment)
	case *annotateast.AnnotateEnumState:
		return fmt.Sprintf("enum %d ", x.EnumType) + hexS(x.Comment)
	case *annotateast.AnnotateNotValidState:
		return "notvalid"
	}
	return fmt.Sprintf("<%T>", st)
}
