package lib

// Rng is a splitmix64 PRNG: every random choice of a run derives from one seed.
type Rng struct{ s uint64 }

func NewRng(seed uint64) *Rng { return &Rng{s: seed*0x9E3779B97F4A7C15 + 0x1234567} }

func (r *Rng) U64() uint64 {
	r.s += 0x9E3779B97F4A7C15
	z := r.s
	z = (z ^ (z >> 30)) * 0xBF58476D1CE4E5B9
	z = (z ^ (z >> 27)) * 0x94D049BB133111EB
	return z ^ (z >> 31)
}

// Intn returns a value in [0,n); n<=0 gives 0.
func (r *Rng) Intn(n int) int {
	if n <= 0 {
		return 0
	}
	return int(r.U64() % uint64(n))
}

// Chance returns true with probability num/den.
func (r *Rng) Chance(num, den int) bool { return r.Intn(den) < num }

// Fork derives an independent stream (so that case i does not depend on how many draws case i-1 made).
func (r *Rng) Fork(i uint64) *Rng { return NewRng(r.s ^ (i+1)*0xD1B54A32D192ED03) }

// Pick chooses one string.
func (r *Rng) Pick(xs []string) string { return xs[r.Intn(len(xs))] }

// Shuffle permutes in place.
func (r *Rng) Shuffle(n int, swap func(i, j int)) {
	for i := n - 1; i > 0; i-- {
		j := r.Intn(i + 1)
		swap(i, j)
	}
}
