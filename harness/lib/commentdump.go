package lib

import (
	"fmt"
	"sort"
	"strings"

	"luahelper-lsp/langserver/check/compiler/parser"
)

// CommentMapDump runs the REAL parser on src and renders the lexer's comment map in the driver's
// `cmap` answer format: entries by increasing key, "key:short:head:line=hex,…" joined by ';'.
func CommentMapDump(src []byte) string {
	p := parser.CreateParser(append([]byte(nil), src...), "t")
	_, cm, _ := p.BeginAnalyze()
	var keys []int
	for k := range cm {
		keys = append(keys, k)
	}
	sort.Ints(keys)
	b2i := func(b bool) int {
		if b {
			return 1
		}
		return 0
	}
	var ents []string
	for _, k := range keys {
		ci := cm[k]
		var ls []string
		for _, l := range ci.LineVec {
			ls = append(ls, fmt.Sprintf("%d=%s", l.Line, Hex([]byte(l.Str))))
		}
		ents = append(ents, fmt.Sprintf("%d:%d:%d:%s", k, b2i(ci.ShortFlag), b2i(ci.HeadFlag), strings.Join(ls, ",")))
	}
	return strings.Join(ents, ";")
}
