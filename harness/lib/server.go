package lib

import (
	"net/url"
	"encoding/json"
	"fmt"
	"io/ioutil"
	"os"
	"path/filepath"
	"sort"
	"strings"
	"sync"
	"time"

	"github.com/yinfei8/jrpc2"
	"github.com/yinfei8/jrpc2/channel"

	"luahelper-lsp/langserver"
	"luahelper-lsp/langserver/check/common"
	lhlog "luahelper-lsp/langserver/log"
)

// Session is one real LuaHelper server (the real jrpc2 dispatcher and handlers) driven in-process
// over channel.Direct() by a minimal ordered JSON-RPC client: messages from the server are
// consumed by ONE goroutine in arrival order (jrpc2.Client would deliver them out of order).
type Session struct {
	Root   string
	srv    *jrpc2.Server
	ch     channel.Channel
	mu     sync.Mutex
	nextID int
	pend   map[int]chan rpcMsg
	// Diag is the client's view: last publishDiagnostics per URI (files with an empty last list are kept with len 0).
	Diag map[string][]Diag
	// DiagLog is every publishDiagnostics in arrival order.
	DiagLog []DiagPush
	done    chan struct{}
	Timeout time.Duration
}

type rpcMsg struct {
	ID     *json.RawMessage `json:"id,omitempty"`
	Method string           `json:"method,omitempty"`
	Params json.RawMessage  `json:"params,omitempty"`
	Result json.RawMessage  `json:"result,omitempty"`
	Error  *struct {
		Code    int    `json:"code"`
		Message string `json:"message"`
	} `json:"error,omitempty"`
}

type Pos struct {
	Line      int `json:"line"`
	Character int `json:"character"`
}
type Range struct {
	Start Pos `json:"start"`
	End   Pos `json:"end"`
}
type Location struct {
	URI   string `json:"uri"`
	Range Range  `json:"range"`
}
type Diag struct {
	Range    Range  `json:"range"`
	Severity int    `json:"severity"`
	Message  string `json:"message"`
	Related  []struct {
		Location Location `json:"location"`
		Message  string   `json:"message"`
	} `json:"relatedInformation,omitempty"`
}
type DiagPush struct {
	URI   string
	Diags []Diag
}

// ErrType extracts N of "[Warn type:N], …".
func (d Diag) ErrType() int {
	var n int
	fmt.Sscanf(d.Message, "[Warn type:%d]", &n)
	return n
}

var globalInit sync.Once

// InitOptions mirrors langserver.InitializationOptions loosely; nil ⇒ the server's defaults.
type InitOptions map[string]interface{}

// AllChecksOptions enables every check flag (client "vsc", not LocalRun unless asked).
func AllChecksOptions() InitOptions {
	o := InitOptions{"client": "vsc", "LocalRun": true}
	for _, k := range CheckFlagNames {
		o[k] = true
	}
	return o
}

// CheckFlagNames in the positional order of getCheckFlagList.
var CheckFlagNames = []string{"AllEnable", "CheckSyntax", "CheckNoDefine", "CheckAfterDefine", "CheckLocalNoUse",
	"CheckTableDuplicateKey", "CheckReferNoFile", "CheckAssignParamNum", "CheckLocalDefineParamNum", "CheckGotoLable",
	"CheckFuncParam", "CheckImportModuleVar", "CheckIfNotVar", "CheckFunctionDuplicateParam",
	"CheckBinaryExpressionDuplicate", "CheckErrorOrAlwaysTrue", "CheckErrorAndAlwaysFalse", "CheckNoUseAssign",
	"CheckAnnotateType", "CheckDuplicateIf", "CheckSelfAssign", "CheckFloatEq", "CheckClassField", "CheckConstAssign",
	"CheckFuncParamType", "CheckFuncReturnType"}

// StartSession starts a fresh server on the workspace directory root (which must exist on disk).
// Sessions in one process must be sequential: common.GConfig is a process global.
func StartSession(root string, opts InitOptions) (*Session, error) {
	globalInit.Do(func() { lhlog.InitLog(false) })
	if b, err := json.Marshal(opts); err == nil {
		Breadcrumb("StartSession root=" + root + " initializationOptions=" + string(b))
	}
	common.GlobalConfigDefautInit()
	common.GConfig.IntialGlobalVar()
	srv := langserver.CreateServer()
	cch, sch := channel.Direct()
	srv.Start(sch)
	s := &Session{Root: root, srv: srv, ch: cch, pend: map[int]chan rpcMsg{}, Diag: map[string][]Diag{},
		done: make(chan struct{}), Timeout: 20 * time.Second}
	go s.reader()
	params := map[string]interface{}{
		"rootPath": root,
		"rootUri":  "file://" + root,
	}
	if opts != nil {
		params["initializationOptions"] = opts
	}
	if _, err := s.Call("initialize", params); err != nil {
		s.Close()
		return nil, fmt.Errorf("initialize: %v", err)
	}
	if err := s.Notify("initialized", map[string]interface{}{}); err != nil {
		s.Close()
		return nil, err
	}
	if err := s.Sync(); err != nil {
		s.Close()
		return nil, err
	}
	return s, nil
}

func (s *Session) reader() {
	defer close(s.done)
	for {
		bits, err := s.ch.Recv()
		if err != nil {
			return
		}
		var m rpcMsg
		if err := json.Unmarshal(bits, &m); err != nil {
			continue
		}
		if m.Method != "" && m.ID == nil {
			if m.Method == "textDocument/publishDiagnostics" {
				var p struct {
					URI         string `json:"uri"`
					Diagnostics []Diag `json:"diagnostics"`
				}
				json.Unmarshal(m.Params, &p)
				s.mu.Lock()
				s.Diag[p.URI] = p.Diagnostics
				s.DiagLog = append(s.DiagLog, DiagPush{p.URI, p.Diagnostics})
				s.mu.Unlock()
			}
			continue
		}
		if m.ID != nil && m.Method == "" {
			var id int
			json.Unmarshal(*m.ID, &id)
			s.mu.Lock()
			c := s.pend[id]
			delete(s.pend, id)
			s.mu.Unlock()
			if c != nil {
				c <- m
			}
		}
	}
}

// Call sends a request and waits for its response (error on timeout or JSON-RPC error).
func (s *Session) Call(method string, params interface{}) (json.RawMessage, error) {
	s.mu.Lock()
	s.nextID++
	id := s.nextID
	c := make(chan rpcMsg, 1)
	s.pend[id] = c
	s.mu.Unlock()
	msg := map[string]interface{}{"jsonrpc": "2.0", "id": id, "method": method, "params": params}
	bits, err := json.Marshal(msg)
	if err != nil {
		return nil, err
	}
	if err := s.ch.Send(bits); err != nil {
		return nil, err
	}
	select {
	case m := <-c:
		if m.Error != nil {
			return nil, fmt.Errorf("rpc error %d: %s", m.Error.Code, m.Error.Message)
		}
		return m.Result, nil
	case <-time.After(s.Timeout):
		return nil, fmt.Errorf("TIMEOUT after %v in %s", s.Timeout, method)
	case <-s.done:
		return nil, fmt.Errorf("server connection closed during %s", method)
	}
}

// CallAsync sends a request and returns a function that waits for the response.
func (s *Session) CallAsync(method string, params interface{}) func() (json.RawMessage, error) {
	s.mu.Lock()
	s.nextID++
	id := s.nextID
	c := make(chan rpcMsg, 1)
	s.pend[id] = c
	s.mu.Unlock()
	msg := map[string]interface{}{"jsonrpc": "2.0", "id": id, "method": method, "params": params}
	bits, _ := json.Marshal(msg)
	err := s.ch.Send(bits)
	return func() (json.RawMessage, error) {
		if err != nil {
			return nil, err
		}
		select {
		case m := <-c:
			if m.Error != nil {
				return nil, fmt.Errorf("rpc error %d: %s", m.Error.Code, m.Error.Message)
			}
			return m.Result, nil
		case <-time.After(s.Timeout):
			return nil, fmt.Errorf("TIMEOUT after %v in %s", s.Timeout, method)
		}
	}
}

func (s *Session) Notify(method string, params interface{}) error {
	msg := map[string]interface{}{"jsonrpc": "2.0", "method": method, "params": params}
	bits, err := json.Marshal(msg)
	if err != nil {
		return err
	}
	return s.ch.Send(bits)
}

// Sync waits until every earlier notification has been handled: jrpc2 starts a request only after
// all earlier notifications finished, and pushes made by them precede the response on the wire.
func (s *Session) Sync() error {
	_, err := s.Call("luahelper/getOnlineReq", map[string]interface{}{"Req": 0})
	return err
}

func (s *Session) Close() {
	s.ch.Close()
	s.srv.Stop()
}

// URI of a workspace-relative path.
func (s *Session) URI(rel string) string { return "file://" + filepath.Join(s.Root, rel) }
func (s *Session) Path(rel string) string { return filepath.Join(s.Root, rel) }

func (s *Session) DidOpen(rel, text string) error {
	return s.Notify("textDocument/didOpen", map[string]interface{}{
		"textDocument": map[string]interface{}{"uri": s.URI(rel), "languageId": "lua", "version": 1, "text": text}})
}
func (s *Session) DidClose(rel string) error {
	return s.Notify("textDocument/didClose", map[string]interface{}{
		"textDocument": map[string]interface{}{"uri": s.URI(rel)}})
}
func (s *Session) DidSave(rel, text string) error {
	return s.Notify("textDocument/didSave", map[string]interface{}{
		"textDocument": map[string]interface{}{"uri": s.URI(rel)}, "text": text})
}

// ContentChange: Range nil ⇒ full text.
type ContentChange struct {
	Range *Range `json:"range,omitempty"`
	// deprecated in LSP 3.x but still sent by many clients: the length of the replaced range in UTF-16 code units
	RangeLength int    `json:"rangeLength,omitempty"`
	Text        string `json:"text"`
}

func (s *Session) DidChange(rel string, changes []ContentChange) error {
	return s.Notify("textDocument/didChange", map[string]interface{}{
		"textDocument":   map[string]interface{}{"uri": s.URI(rel), "version": 2},
		"contentChanges": changes})
}

// Watched sends workspace/didChangeWatchedFiles; typ 1 created, 2 changed, 3 deleted.
func (s *Session) Watched(events map[string]int) error {
	var ch []map[string]interface{}
	keys := make([]string, 0, len(events))
	for k := range events {
		keys = append(keys, k)
	}
	sort.Strings(keys)
	for _, rel := range keys {
		ch = append(ch, map[string]interface{}{"uri": s.URI(rel), "type": events[rel]})
	}
	return s.Notify("workspace/didChangeWatchedFiles", map[string]interface{}{"changes": ch})
}

// WatchedSeq sends one didChangeWatchedFiles notification with the given (file, type) events in order; a file may
// occur more than once (an editor that writes a new file reports Created and Changed together).
func (s *Session) WatchedSeq(events [][2]interface{}) error {
	var ch []map[string]interface{}
	for _, e := range events {
		ch = append(ch, map[string]interface{}{"uri": s.URI(e[0].(string)), "type": e[1].(int)})
	}
	return s.Notify("workspace/didChangeWatchedFiles", map[string]interface{}{"changes": ch})
}

func (s *Session) posParams(rel string, line, ch int) map[string]interface{} {
	return map[string]interface{}{
		"textDocument": map[string]interface{}{"uri": s.URI(rel)},
		"position":     map[string]interface{}{"line": line, "character": ch}}
}

func (s *Session) Definition(rel string, line, ch int) ([]Location, error) {
	raw, err := s.Call("textDocument/definition", s.posParams(rel, line, ch))
	if err != nil {
		return nil, err
	}
	var locs []Location
	json.Unmarshal(raw, &locs)
	return locs, nil
}

func (s *Session) References(rel string, line, ch int, includeDecl bool) ([]Location, error) {
	p := s.posParams(rel, line, ch)
	p["context"] = map[string]interface{}{"includeDeclaration": includeDecl}
	raw, err := s.Call("textDocument/references", p)
	if err != nil {
		return nil, err
	}
	var locs []Location
	json.Unmarshal(raw, &locs)
	return locs, nil
}

func (s *Session) Highlight(rel string, line, ch int) ([]Range, error) {
	langserver.VerifResetColorTime()
	raw, err := s.Call("textDocument/documentHighlight", s.posParams(rel, line, ch))
	if err != nil {
		return nil, err
	}
	var hs []struct {
		Range Range `json:"range"`
	}
	json.Unmarshal(raw, &hs)
	out := make([]Range, len(hs))
	for i := range hs {
		out[i] = hs[i].Range
	}
	return out, nil
}

// Hover returns contents.value.
func (s *Session) Hover(rel string, line, ch int) (string, error) {
	raw, err := s.Call("textDocument/hover", s.posParams(rel, line, ch))
	if err != nil {
		return "", err
	}
	var h struct {
		Contents json.RawMessage `json:"contents"`
	}
	json.Unmarshal(raw, &h)
	var mc struct {
		Value string `json:"value"`
	}
	if json.Unmarshal(h.Contents, &mc) == nil && mc.Value != "" {
		return mc.Value, nil
	}
	return string(h.Contents), nil
}

type TextEdit struct {
	Range   Range  `json:"range"`
	NewText string `json:"newText"`
}

// Rename returns edits per URI.
func (s *Session) Rename(rel string, line, ch int, newName string) (map[string][]TextEdit, error) {
	p := s.posParams(rel, line, ch)
	p["newName"] = newName
	raw, err := s.Call("textDocument/rename", p)
	if err != nil {
		return nil, err
	}
	var we struct {
		Changes map[string][]TextEdit `json:"changes"`
	}
	json.Unmarshal(raw, &we)
	return we.Changes, nil
}

type CompletionItem struct {
	Label string `json:"label"`
	Kind  int    `json:"kind"`
}

func (s *Session) Completion(rel string, line, ch int) ([]CompletionItem, error) {
	raw, err := s.Call("textDocument/completion", s.posParams(rel, line, ch))
	if err != nil {
		return nil, err
	}
	var cl struct {
		Items []CompletionItem `json:"items"`
	}
	if json.Unmarshal(raw, &cl) != nil || cl.Items == nil {
		var items []CompletionItem
		json.Unmarshal(raw, &items)
		return items, nil
	}
	return cl.Items, nil
}

type DocSymbol struct {
	Name           string      `json:"name"`
	Kind           int         `json:"kind"`
	Range          Range       `json:"range"`
	SelectionRange Range       `json:"selectionRange"`
	Children       []DocSymbol `json:"children"`
}

func (s *Session) DocumentSymbol(rel string) ([]DocSymbol, error) {
	raw, err := s.Call("textDocument/documentSymbol", map[string]interface{}{
		"textDocument": map[string]interface{}{"uri": s.URI(rel)}})
	if err != nil {
		return nil, err
	}
	var syms []DocSymbol
	json.Unmarshal(raw, &syms)
	return syms, nil
}

type SymbolInfo struct {
	Name     string   `json:"name"`
	Kind     int      `json:"kind"`
	Location Location `json:"location"`
}

func (s *Session) WorkspaceSymbol(q string) ([]SymbolInfo, error) {
	raw, err := s.Call("workspace/symbol", map[string]interface{}{"query": q})
	if err != nil {
		return nil, err
	}
	var syms []SymbolInfo
	json.Unmarshal(raw, &syms)
	return syms, nil
}

// DiagView is a copy of the client's view restricted to non-empty lists, keyed by workspace-relative path.
func (s *Session) DiagView() map[string][]Diag {
	s.mu.Lock()
	defer s.mu.Unlock()
	out := map[string][]Diag{}
	for uri, ds := range s.Diag {
		if len(ds) == 0 {
			continue
		}
		out[s.Rel(uri)] = append([]Diag(nil), ds...)
	}
	return out
}

// Rel turns a URI or absolute path into a workspace-relative path.
func (s *Session) Rel(uri string) string {
	p := strings.TrimPrefix(uri, "file://")
	// a URI is percent-encoded (RFC 3986): what it denotes is the decoded path
	if u, err := url.PathUnescape(p); err == nil {
		p = u
	}
	if r, err := filepath.Rel(s.Root, p); err == nil {
		return r
	}
	return p
}

// AnalysedText reads, through the verif hook, the text that the analysis requests on the document are answered
// from was made of.
func (s *Session) AnalysedText(rel string) (contents []byte, found bool) {
	return langserver.VerifAnalysedText(s.Path(rel))
}

// CachedText reads the server's copy of an open document through the verif hook.
func (s *Session) CachedText(rel string) ([]byte, bool) {
	return langserver.VerifCachedText(s.Path(rel))
}

// WriteWorkspace creates dir with the given relative files (overwriting) and returns its absolute path.
func WriteWorkspace(dir string, files map[string]string) error {
	if err := os.MkdirAll(dir, 0o755); err != nil {
		return err
	}
	for rel, text := range files {
		p := filepath.Join(dir, rel)
		if err := os.MkdirAll(filepath.Dir(p), 0o755); err != nil {
			return err
		}
		if err := ioutil.WriteFile(p, []byte(text), 0o644); err != nil {
			return err
		}
	}
	return nil
}

// ScratchDir returns a fresh scratch directory under /verif/.work (never /tmp).
func ScratchDir(tag string) string {
	base := os.Getenv("VERIF_WORK")
	if base == "" {
		base = "/verif/.work"
	}
	d := filepath.Join(base, fmt.Sprintf("%s.%d", tag, os.Getpid()))
	os.RemoveAll(d)
	os.MkdirAll(d, 0o755)
	return d
}
