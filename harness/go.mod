module verifharness

go 1.15

require (
	github.com/yinfei8/jrpc2 v0.13.1
	luahelper-lsp v0.0.0
)

replace luahelper-lsp => /repo/luahelper-lsp
