package main

import (
	"fmt"
	"io/ioutil"
	"path/filepath"

	"verifharness/lib"
)

// probeRefs: definition, references and highlight at (line, col) of dir/<file>.
func probeRefs(dir, file string, line, col int) {
	src, _ := ioutil.ReadFile(filepath.Join(dir, file))
	s, err := lib.StartSession(dir, lib.AllChecksOptions())
	if err != nil {
		fmt.Println("ERR", err)
		return
	}
	defer s.Close()
	s.DidOpen(file, string(src))
	s.Sync()
	d, err := s.Definition(file, line, col)
	fmt.Println("definition:", err)
	for _, l := range d {
		fmt.Printf("  %s %d:%d-%d:%d\n", s.Rel(l.URI), l.Range.Start.Line, l.Range.Start.Character, l.Range.End.Line, l.Range.End.Character)
	}
	r, err := s.References(file, line, col, true)
	fmt.Println("references:", err)
	for _, l := range r {
		fmt.Printf("  %s %d:%d-%d:%d\n", s.Rel(l.URI), l.Range.Start.Line, l.Range.Start.Character, l.Range.End.Line, l.Range.End.Character)
	}
	h, err := s.Highlight(file, line, col)
	fmt.Println("highlight:", err)
	for _, l := range h {
		fmt.Printf("  %d:%d-%d:%d\n", l.Start.Line, l.Start.Character, l.End.Line, l.End.Character)
	}
}
