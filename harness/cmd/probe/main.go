// probe: ad-hoc exploration tool (not part of any check): start a server on a directory and print diagnostics.
package main

import (
	"fmt"
	"io/ioutil"
	"os"
	"path/filepath"
	"sort"
	"strings"

	"verifharness/lib"
)

func main() {
	dir := os.Args[1]
	if len(os.Args) > 4 && os.Args[2] == "complete" {
		var l, c int
		fmt.Sscanf(os.Args[3], "%d", &l)
		fmt.Sscanf(os.Args[4], "%d", &c)
		probeComplete(dir, l, c)
		return
	}
	if len(os.Args) > 4 && os.Args[2] == "rename" {
		var l, c int
		fmt.Sscanf(os.Args[3], "%d", &l)
		fmt.Sscanf(os.Args[4], "%d", &c)
		probeRename(dir, l, c)
		return
	}
	if len(os.Args) > 2 && os.Args[2] == "hover" {
		probeHover(dir, os.Args[3:])
		return
	}
	if len(os.Args) > 2 && os.Args[2] == "syms" {
		probeSyms(dir, os.Args[3:])
		return
	}
	if len(os.Args) > 4 && os.Args[2] == "defat" {
		var l, c int
		fmt.Sscanf(os.Args[3], "%d", &l)
		fmt.Sscanf(os.Args[4], "%d", &c)
		probeDefAt(dir, l, c)
		return
	}
	if len(os.Args) > 5 && os.Args[2] == "refs" {
		var l, c int
		fmt.Sscanf(os.Args[4], "%d", &l)
		fmt.Sscanf(os.Args[5], "%d", &c)
		probeRefs(dir, os.Args[3], l, c)
		return
	}
	if len(os.Args) > 2 && os.Args[2] == "emptied" {
		probeEmptied(dir)
		return
	}
	if len(os.Args) > 2 && os.Args[2] == "defsall" {
		probeDefsAll(dir)
		return
	}
	if len(os.Args) > 2 && os.Args[2] == "defs" {
		probeDefs(dir)
		return
	}
	opts := lib.AllChecksOptions()
	for _, a := range os.Args[2:] {
		if strings.HasPrefix(a, "-") {
			opts[a[1:]] = false
		}
	}
	s, err := lib.StartSession(dir, opts)
	if err != nil {
		fmt.Println("ERR", err)
		return
	}
	defer s.Close()
	v := s.DiagView()
	var files []string
	for f := range v {
		files = append(files, f)
	}
	sort.Strings(files)
	for _, f := range files {
		src, _ := ioutil.ReadFile(filepath.Join(dir, f))
		lines := strings.Split(string(src), "\n")
		for _, d := range v[f] {
			l := ""
			if d.Range.Start.Line < len(lines) {
				l = lines[d.Range.Start.Line]
			}
			fmt.Printf("%s %d:%d-%d:%d t%d %s   | %s\n", f, d.Range.Start.Line, d.Range.Start.Character, d.Range.End.Line, d.Range.End.Character, d.ErrType(), d.Message, l)
		}
	}
}
