package main

import (
	"fmt"
	"io/ioutil"
	"os"
	"path/filepath"
	"runtime"
	"time"

	"verifharness/lib"
)

// probeDefAt: one definition request at (line, col) of dir/main.lua with a short timeout.
func probeDefAt(dir string, line, col int) {
	src, _ := ioutil.ReadFile(filepath.Join(dir, "main.lua"))
	s, err := lib.StartSession(dir, lib.AllChecksOptions())
	if err != nil {
		fmt.Println("ERR", err)
		return
	}
	s.Timeout = 5 * time.Second
	go func() {
		time.Sleep(2 * time.Second)
		buf := make([]byte, 1<<20)
		n := runtime.Stack(buf, true)
		os.Stderr.Write(buf[:n])
	}()
	s.DidOpen("main.lua", string(src))
	s.Sync()
	locs, err := s.Definition("main.lua", line, col)
	fmt.Println(locs, err)
}
