package main

import (
	"fmt"
	"io/ioutil"
	"path/filepath"
	"regexp"
	"sort"
	"strings"

	"verifharness/lib"
)

// probeDefsAll: like probeDefs over every .lua file of dir (all opened first, sorted order).
func probeDefsAll(dir string) {
	s, err := lib.StartSession(dir, lib.AllChecksOptions())
	if err != nil {
		fmt.Println("ERR", err)
		return
	}
	defer s.Close()
	ents, _ := ioutil.ReadDir(dir)
	var names []string
	srcs := map[string]string{}
	for _, e := range ents {
		if strings.HasSuffix(e.Name(), ".lua") {
			b, _ := ioutil.ReadFile(filepath.Join(dir, e.Name()))
			names = append(names, e.Name())
			srcs[e.Name()] = string(b)
		}
	}
	sort.Strings(names)
	for _, n := range names {
		s.DidOpen(n, srcs[n])
	}
	s.Sync()
	re := regexp.MustCompile(`[A-Za-z_][A-Za-z0-9_]*`)
	for _, n := range names {
		for ln, line := range strings.Split(srcs[n], "\n") {
			for _, m := range re.FindAllStringIndex(line, -1) {
				name := line[m[0]:m[1]]
				locs, _ := s.Definition(n, ln, m[0])
				refs, _ := s.References(n, ln, m[0], true)
				d := "-"
				if len(locs) > 0 {
					d = fmt.Sprintf("%s@%d:%d-%d", s.Rel(locs[0].URI), locs[0].Range.Start.Line, locs[0].Range.Start.Character, locs[0].Range.End.Character)
				}
				var rs []string
				for _, r := range refs {
					rs = append(rs, fmt.Sprintf("%s@%d:%d", s.Rel(r.URI), r.Range.Start.Line, r.Range.Start.Character))
				}
				s.Highlight(n, ln, m[0])
				hv, _ := s.Hover(n, ln, m[0])
				fmt.Printf("%s %d:%d %-8s def=%-10s refs=%v hover=%q\n", n, ln, m[0], name, d, rs, lib.Trunc(hv, 40))
			}
		}
	}
}
