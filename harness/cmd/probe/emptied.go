package main

import (
	"fmt"
	"os"
	"path/filepath"

	"verifharness/lib"
)

// probeEmptied: a.lua on disk differs from what the client opens; then the client deletes everything.
func probeEmptied(dir string) {
	os.WriteFile(filepath.Join(dir, "a.lua"), []byte("-- stale on disk\r\n"), 0o644)
	s, err := lib.StartSession(dir, lib.AllChecksOptions())
	if err != nil {
		fmt.Println("ERR", err)
		return
	}
	defer s.Close()
	s.DidOpen("a.lua", "ba\n\n =\nxb\n")
	s.Sync()
	fmt.Println("after open:", s.DiagView()["a.lua"])
	c, f := s.AnalysedText("a.lua")
	fmt.Printf("analysed %q found=%v\n", c, f)
	s.DidChange("a.lua", []lib.ContentChange{{Range: &lib.Range{Start: lib.Pos{Line: 0, Character: 0}, End: lib.Pos{Line: 4, Character: 0}}, Text: ""}})
	s.Sync()
	fmt.Println("after emptying:", s.DiagView()["a.lua"])
	c, f = s.AnalysedText("a.lua")
	fmt.Printf("analysed %q found=%v\n", c, f)
	syms, _ := s.DocumentSymbol("a.lua")
	fmt.Println("symbols:", syms)
}
