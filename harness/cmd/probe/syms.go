package main

import (
	"fmt"
	"os"
	"strings"

	"verifharness/lib"
)

func printSyms(ind string, syms []lib.DocSymbol) {
	for _, y := range syms {
		fmt.Printf("%s%q kind=%d %d:%d-%d:%d\n", ind, y.Name, y.Kind, y.Range.Start.Line, y.Range.Start.Character, y.Range.End.Line, y.Range.End.Character)
		printSyms(ind+"  ", y.Children)
	}
}

func probeSyms(dir string, queries []string) {
	s, err := lib.StartSession(dir, lib.AllChecksOptions())
	if err != nil {
		fmt.Println("ERR", err)
		return
	}
	defer s.Close()
	ents, _ := os.ReadDir(dir)
	for _, e := range ents {
		if strings.HasSuffix(e.Name(), ".lua") {
			syms, err := s.DocumentSymbol(e.Name())
			fmt.Println("==", e.Name(), err)
			printSyms("  ", syms)
		}
	}
	for _, q := range queries {
		ws, err := s.WorkspaceSymbol(q)
		fmt.Println("?? ", q, err)
		for _, w := range ws {
			fmt.Printf("   %q kind=%d %s %d:%d-%d:%d\n", w.Name, w.Kind, s.Rel(w.Location.URI), w.Location.Range.Start.Line, w.Location.Range.Start.Character, w.Location.Range.End.Line, w.Location.Range.End.Character)
		}
	}
}
