package main

import (
	"fmt"
	"io/ioutil"
	"path/filepath"

	"verifharness/lib"
)

// probeHover: hover requests at the given (line, col) pairs of dir/main.lua.
func probeHover(dir string, args []string) {
	src, _ := ioutil.ReadFile(filepath.Join(dir, "main.lua"))
	s, err := lib.StartSession(dir, lib.AllChecksOptions())
	if err != nil {
		fmt.Println("ERR", err)
		return
	}
	defer s.Close()
	s.DidOpen("main.lua", string(src))
	s.Sync()
	for i := 0; i+1 < len(args); i += 2 {
		var l, c int
		fmt.Sscanf(args[i], "%d", &l)
		fmt.Sscanf(args[i+1], "%d", &c)
		h, err := s.Hover("main.lua", l, c)
		fmt.Printf("%d:%d %q %v\n", l, c, h, err)
	}
}
