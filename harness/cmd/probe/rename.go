package main

import (
	"fmt"
	"io/ioutil"
	"path/filepath"

	"verifharness/lib"
)

// probeRename: rename / references at (line, col) of dir/main.lua.
func probeRename(dir string, l, c int) {
	src, _ := ioutil.ReadFile(filepath.Join(dir, "main.lua"))
	s, err := lib.StartSession(dir, lib.AllChecksOptions())
	if err != nil {
		fmt.Println("ERR", err)
		return
	}
	defer s.Close()
	s.DidOpen("main.lua", string(src))
	s.Sync()
	ed, err := s.Rename("main.lua", l, c, "NEW")
	fmt.Println("rename:", ed, err)
	refs, err := s.References("main.lua", l, c, true)
	fmt.Println("references:", refs, err)
}
