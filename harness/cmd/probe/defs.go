package main

import (
	"os"
	"fmt"
	"io/ioutil"
	"path/filepath"
	"regexp"
	"strings"

	"verifharness/lib"
)

// probeDefs prints definition/references/hover for every identifier in dir/main.lua.
func probeDefs(dir string) {
	mainName := "main.lua"
	if len(os.Args) > 3 {
		mainName = os.Args[3]
	}
	src, _ := ioutil.ReadFile(filepath.Join(dir, mainName))
	s, err := lib.StartSession(dir, lib.AllChecksOptions())
	if err != nil {
		fmt.Println("ERR", err)
		return
	}
	defer s.Close()
	if ents, err := ioutil.ReadDir(dir); err == nil && len(ents) > 1 {
		for _, e := range ents {
			if strings.HasSuffix(e.Name(), ".lua") && e.Name() != mainName {
				b, _ := ioutil.ReadFile(filepath.Join(dir, e.Name()))
				s.DidOpen(e.Name(), string(b))
			}
		}
	}
	s.DidOpen(mainName, string(src))
	s.Sync()
	re := regexp.MustCompile(`[A-Za-z_][A-Za-z0-9_]*`)
	for ln, line := range strings.Split(string(src), "\n") {
		for _, m := range re.FindAllStringIndex(line, -1) {
			name := line[m[0]:m[1]]
			locs, _ := s.Definition(mainName, ln, m[0])
			refs, _ := s.References(mainName, ln, m[0], true)
			d := "-"
			if len(locs) > 0 {
				d = fmt.Sprintf("%d:%d-%d", locs[0].Range.Start.Line, locs[0].Range.Start.Character, locs[0].Range.End.Character)
			}
			var rs []string
			for _, r := range refs {
				rs = append(rs, fmt.Sprintf("%d:%d", r.Range.Start.Line, r.Range.Start.Character))
			}
			hv, _ := s.Hover(mainName, ln, m[0])
			hl, _ := s.Highlight(mainName, ln, m[0])
			fmt.Printf("%d:%d %-8s def=%-10s refs=%v hl=%d hover=%q\n", ln, m[0], name, d, rs, len(hl), lib.Trunc(hv, 60))
		}
	}
}

func probeComplete(dir string, line, ch int) {
	src, _ := ioutil.ReadFile(filepath.Join(dir, "main.lua"))
	s, err := lib.StartSession(dir, lib.AllChecksOptions())
	if err != nil {
		fmt.Println("ERR", err)
		return
	}
	defer s.Close()
	s.DidOpen("main.lua", string(src))
	s.Sync()
	items, err := s.Completion("main.lua", line, ch)
	fmt.Println(err)
	for _, it := range items {
		fmt.Printf("%s(kind %d) ", it.Label, it.Kind)
	}
	fmt.Println()
}
