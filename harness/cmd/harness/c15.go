package main

import (
	"fmt"
	"os"
	"path/filepath"
	"sort"
	"strings"

	"verifharness/lib"
)

func init() { register("C15", runC15) }

type c15Class struct {
	name    string
	parents []string
	decls   []c15Decl // one per declaring file
}
type c15Decl struct {
	file   string
	fields []string
}
type c15Alias struct {
	name    string
	targets []string // union members (simple names)
	file    string
}
type c15Var struct {
	name  string
	typ   string   // annotation text
	roots []string // names whose closure gives the members of `query`
	query string   // the variable to complete on (the variable itself or its element variable)
	extra string   // extra declaration line (element variable)
}

type c15World struct {
	classes []c15Class
	aliases []c15Alias
	wrapAl  []string // extra alias lines (aliases of T[] / table<K,V>, and aliases of those), kept out of the class graph
	vars    []c15Var
	split   bool // some class is declared in more than one file
	selfPar bool
}

func genC15World(r *lib.Rng) *c15World {
	w := &c15World{}
	files := []string{"a.lua", "b.lua", "main.lua"}
	nC := 3 + r.Intn(5)
	for i := 0; i < nC; i++ {
		w.classes = append(w.classes, c15Class{name: fmt.Sprintf("K%d", i)})
	}
	nA := r.Intn(4)
	for i := 0; i < nA; i++ {
		w.aliases = append(w.aliases, c15Alias{name: fmt.Sprintf("Al%d", i), file: files[r.Intn(3)]})
	}
	anyName := func() string {
		k := r.Intn(nC + nA + 1)
		switch {
		case k < nC:
			return w.classes[k].name
		case k < nC+nA:
			return w.aliases[k-nC].name
		}
		return "Nope"
	}
	for i := range w.classes {
		c := &w.classes[i]
		for k := r.Intn(3); k > 0; k-- {
			p := w.classes[r.Intn(nC)].name // parents are classes, any direction: cycles and diamonds happen
			if p == c.name {
				w.selfPar = true
			}
			dup := false
			for _, q := range c.parents {
				if q == p {
					dup = true
				}
			}
			if !dup {
				c.parents = append(c.parents, p)
			}
		}
		nd := 1
		if r.Chance(1, 6) {
			nd = 2
			w.split = true
		}
		used := map[string]bool{}
		for d := 0; d < nd; d++ {
			f := files[r.Intn(3)]
			for used[f] {
				f = files[r.Intn(3)]
			}
			used[f] = true
			var fs []string
			for j := 0; j < 1+r.Intn(2); j++ {
				fs = append(fs, fmt.Sprintf("k%dd%df%d", i, d, j))
			}
			c.decls = append(c.decls, c15Decl{file: f, fields: fs})
		}
	}
	for i := range w.aliases {
		a := &w.aliases[i]
		for k := 1 + r.Intn(2); k > 0; k-- {
			t := anyName()
			if t != a.name || r.Chance(1, 4) {
				a.targets = append(a.targets, t)
			}
		}
		if len(a.targets) == 0 {
			a.targets = []string{w.classes[0].name}
		}
	}
	nV := 2 + r.Intn(4)
	for i := 0; i < nV; i++ {
		v := c15Var{name: fmt.Sprintf("v%d", i)}
		switch r.Intn(9) {
		case 7:
			// an array of a parenthesised union
			t1, t2 := anyName(), anyName()
			v.typ, v.roots = "("+t1+" | "+t2+")[]", []string{t1, t2}
			v.query = fmt.Sprintf("e%d", i)
			v.extra = fmt.Sprintf("local e%d = v%d[1]", i, i)
		case 8:
			// an array of maps
			t := anyName()
			v.typ, v.roots = "table<string, "+t+">[]", []string{t}
			v.query = fmt.Sprintf("e%d", i)
			v.extra = fmt.Sprintf("local e%d = v%d[1].somekey", i, i)
		case 5, 6:
			// the wrapper is reached through an alias (possibly an alias of an alias)
			t := anyName()
			wa := fmt.Sprintf("WAl%d", i)
			kcls := w.classes[r.Intn(nC)].name
			isMap := r.Chance(1, 2)
			if isMap {
				w.wrapAl = append(w.wrapAl, "---@alias "+wa+" table<"+kcls+", "+t+">")
			} else {
				w.wrapAl = append(w.wrapAl, "---@alias "+wa+" "+t+"[]")
			}
			name := wa
			if r.Chance(1, 2) {
				name = wa + "b"
				w.wrapAl = append(w.wrapAl, "---@alias "+name+" "+wa)
			}
			v.typ, v.roots = name, []string{t}
			v.query = fmt.Sprintf("e%d", i)
			if isMap {
				v.extra = fmt.Sprintf("local e%d = v%d.somekey", i, i)
			} else {
				v.extra = fmt.Sprintf("local e%d = v%d[1]", i, i)
			}
		case 0:
			t := anyName()
			v.typ, v.roots = t+"[]", []string{t}
			v.query = fmt.Sprintf("e%d", i)
			v.extra = fmt.Sprintf("local e%d = v%d[1]", i, i)
		case 1:
			t := anyName()
			v.typ, v.roots = "table<string, "+t+">", []string{t}
			v.query = fmt.Sprintf("e%d", i)
			v.extra = fmt.Sprintf("local e%d = v%d.somekey", i, i)
		case 2:
			t1, t2 := anyName(), anyName()
			v.typ, v.roots, v.query = t1+" | "+t2, []string{t1, t2}, v.name
		default:
			t := anyName()
			v.typ, v.roots, v.query = t, []string{t}, v.name
		}
		w.vars = append(w.vars, v)
	}
	return w
}

// render: the files; fieldAt[field] = list of "file:line" of its ---@field lines
func (w *c15World) render() (map[string]string, map[string][]string) {
	lines := map[string][]string{}
	fieldAt := map[string][]string{}
	for _, c := range w.classes {
		for di, d := range c.decls {
			l := lines[d.file]
			h := "---@class " + c.name
			if len(c.parents) > 0 {
				h += " : " + strings.Join(c.parents, ", ")
			}
			l = append(l, h)
			for _, f := range d.fields {
				fieldAt[f] = append(fieldAt[f], fmt.Sprintf("%s:%d", d.file, len(l)))
				// documented scope modifiers: public / protected / private before the field name
				l = append(l, "---@field "+[]string{"", "", "public ", "protected ", "private "}[(len(f)+len(l))%5]+f+" number")
			}
			if (len(l)+di)%3 == 0 {
				// no statement and no blank line: the next annotation of this file continues the same comment block
				// (several ---@class statements in one block)
			} else {
				if (len(l)+di)%3 == 1 {
					// a trailing comment on the statement, and the next annotation block starts on the very next line
					l = append(l, fmt.Sprintf("local %s_%d = {} -- holder of %s", c.name, di, c.name))
				} else {
					l = append(l, fmt.Sprintf("local %s_%d = {}", c.name, di), "")
				}
			}
			lines[d.file] = l
		}
	}
	for _, a := range w.aliases {
		lines[a.file] = append(lines[a.file], "---@alias "+a.name+" "+strings.Join(a.targets, " | "), "")
	}
	for i, l := range w.wrapAl {
		f := []string{"a.lua", "b.lua", "main.lua"}[i%3]
		lines[f] = append(lines[f], l, "")
	}
	m := lines["main.lua"]
	paired := false
	for vi, v := range w.vars {
		if paired {
			paired = false
			continue
		}
		if vi%2 == 0 {
			// a statement with a trailing comment directly above the annotation
			m = append(m, fmt.Sprintf("local cnt%d = %d -- counter %d", vi, vi, vi))
		}
		if vi%3 == 1 && vi+1 < len(w.vars) && v.extra == "" && w.vars[vi+1].extra == "" && !strings.Contains(v.typ+w.vars[vi+1].typ, ",") {
			// one annotation line typing two variables of one declaration: the i-th type is the i-th variable's
			n := w.vars[vi+1]
			m = append(m, "---@type "+v.typ+", "+n.typ, "local "+v.name+", "+n.name+" = {}, {}", "")
			paired = true
			continue
		}
		m = append(m, "---@type "+v.typ, "local "+v.name+" = {}")
		if v.extra != "" {
			m = append(m, v.extra)
		}
		m = append(m, "")
	}
	lines["main.lua"] = m
	out := map[string]string{}
	for _, f := range []string{"a.lua", "b.lua", "main.lua"} {
		out[f] = strings.Join(lines[f], "\n") + "\n"
	}
	return out, fieldAt
}

func (w *c15World) graphArg() string {
	var es []string
	for _, c := range w.classes {
		es = append(es, c.name+"="+strings.Join(c.parents, ","))
	}
	for _, a := range w.aliases {
		es = append(es, a.name+"="+strings.Join(a.targets, ","))
	}
	return strings.Join(es, ";")
}

func runC15(res *lib.Result, tier string, seed int64, args []string) error {
	nW := 40
	if tier == "thorough" {
		nW = 2500
	}
	res.Rule = "generated annotation worlds over three files: 3-7 classes with fields, 0-2 parents each in any direction (multiple inheritance, diamonds, cycles, self-parents), classes declared in two files, 0-3 aliases of classes / aliases / unions / undeclared names (chains and cycles), variables typed by a class, an alias, a union, T[] or table<K,T> — written directly or reached through one or two aliases — (wrappers are queried through an element variable); the real member completion after 'x.' must offer EXACTLY the ---@field members of the classes in the Lean closure (theorem closure_exact) of the type's names, and go-to-definition on 'x.member' must lead to a ---@field line of that member; no request may crash or time out; non-trivial = the expected member set is non-empty; distinct by (world, variable)"
	drv, err := lib.StartDriver()
	if err != nil {
		return err
	}
	defer drv.Close()
	root := lib.NewRng(uint64(seed))
	for wi := 0; wi < nW; wi++ {
		r := root.Fork(uint64(wi))
		w := genC15World(r)
		if wi%10 == 0 {
			// a fixed shape in every tier: a cycle K0 -> K1 -> K0 whose back-edge is followed by a further parent (K1's
			// parents are K0, then K2), a diamond under it, and variables of every class
			w = &c15World{}
			mk := func(name string, parents []string, file string, fields ...string) {
				w.classes = append(w.classes, c15Class{name: name, parents: parents, decls: []c15Decl{{file: file, fields: fields}}})
			}
			// (the cycle is declared in the file the lookups start in — the same-file branch of the class walk — or, every
			// other time, in two other files — its workspace branch)
			f0, f1, f2 := "main.lua", "main.lua", "a.lua"
			if wi%20 == 10 {
				f0, f1, f2 = "a.lua", "b.lua", "main.lua"
			}
			mk("K0", []string{"K1"}, f0, "k0d0f0")
			mk("K1", []string{"K0", "K2"}, f1, "k1d0f0", "k1d0f1")
			mk("K2", []string{"K3", "K4"}, f2, "k2d0f0")
			mk("K3", []string{"K5"}, "a.lua", "k3d0f0")
			mk("K4", []string{"K5", "K4"}, "b.lua", "k4d0f0")
			mk("K5", nil, "a.lua", "k5d0f0")
			w.selfPar = true
			for i, c := range w.classes {
				w.vars = append(w.vars, c15Var{name: fmt.Sprintf("v%d", i), typ: c.name, roots: []string{c.name}, query: fmt.Sprintf("v%d", i)})
			}
		}
		files, fieldAt := w.render()
		dir := lib.ScratchDir(fmt.Sprintf("c15w%d", wi))
		if err := lib.WriteWorkspace(dir, files); err != nil {
			return err
		}
		// member use lines for go-to-definition (valid Lua), appended to main.lua on disk
		fieldsOf := map[string][]string{}
		for _, c := range w.classes {
			for _, d := range c.decls {
				fieldsOf[c.name] = append(fieldsOf[c.name], d.fields...)
			}
		}
		type q struct {
			v        c15Var
			expected []string
			useLine  int
			useField string
		}
		var qs []q
		mainLines := strings.Split(strings.TrimSuffix(files["main.lua"], "\n"), "\n")
		for _, v := range w.vars {
			ans, err := drv.Ask("closure " + strings.Join(v.roots, ",") + " " + w.graphArg())
			if err != nil {
				return err
			}
			var exp []string
			if body := strings.TrimPrefix(ans, "R="); body != "" {
				for _, n := range strings.Split(body, ",") {
					exp = append(exp, fieldsOf[n]...)
				}
			}
			sort.Strings(exp)
			qq := q{v: v, expected: exp, useLine: -1}
			if len(exp) > 0 {
				qq.useField = exp[r.Intn(len(exp))]
				qq.useLine = len(mainLines)
				mainLines = append(mainLines, "print("+v.query+"."+qq.useField+")")
			}
			qs = append(qs, qq)
		}
		validMain := strings.Join(mainLines, "\n") + "\n"
		plainMain := files["main.lua"] // without the member-use lines: a use 'x.f' would itself add f to x's members
		worldText := fmt.Sprintf("-- a.lua\n%s-- b.lua\n%s-- main.lua\n%s", files["a.lua"], files["b.lua"], validMain)
		lib.Breadcrumb("C15 world:\n" + worldText)
		// a class declared in a file of its own, which is deleted later: its members must go with it
		delFile := "-- to be deleted\n---@class DelK\n---@field dk1 number\n---@class DelL : DelK\n---@field dl1 number\n"
		os.WriteFile(filepath.Join(dir, "del.lua"), []byte(delFile), 0o644)
		sess, err := lib.StartSession(dir, lib.AllChecksOptions())
		if err != nil {
			os.RemoveAll(dir)
			res.AddViolation("crash-or-timeout", "server start: "+err.Error(), worldText, false)
			continue
		}
		sess.DidOpen("main.lua", plainMain)
		sess.Sync()
		if wi < 1 {
			res.Sample(map[string]interface{}{"world": lib.Trunc(worldText, 700)})
		}
		// class K1 concerns a split class one of whose declaring files is the file a lookup starts in: the file
		// of the typed variables (main.lua), of a child class, or of an alias naming it.  A class split over
		// files none of which starts a lookup must show all its fields.
		splitField := map[string]bool{}
		for _, c := range w.classes {
			if len(c.decls) > 1 {
				declIn := map[string]bool{}
				for _, d := range c.decls {
					declIn[d.file] = true
				}
				starts := declIn["main.lua"]
				for _, o := range w.classes {
					for _, p := range o.parents {
						if p == c.name {
							for _, d := range o.decls {
								starts = starts || declIn[d.file]
							}
						}
					}
				}
				for _, a := range w.aliases {
					for _, t := range a.targets {
						starts = starts || (t == c.name && declIn[a.file])
					}
				}
				// … or of a wrapper alias (table<K, V> / T[]) whose value type names it: the lookup of the element type
				// starts in the file that declares the alias
				for i, l := range w.wrapAl {
					f := []string{"a.lua", "b.lua", "main.lua"}[i%3]
					for _, word := range strings.FieldsFunc(l, func(c rune) bool { return !(c == '_' || c >= '0' && c <= '9' || c >= 'A' && c <= 'Z' || c >= 'a' && c <= 'z') }) {
						starts = starts || (word == c.name && declIn[f])
					}
				}
				if !starts {
					continue
				}
				for _, d := range c.decls {
					for _, f := range d.fields {
						splitField[f] = true
					}
				}
			}
		}
		classify := func(caseText string, detail string, involved []string) {
			onlySplit := len(involved) > 0
			for _, f := range involved {
				if !splitField[f] {
					onlySplit = false
				}
			}
			switch {
			case w.split && onlySplit:
				res.HitKnown("C15-K1", "a class declared in more than one file: when the file of the typed variable (or of the class being expanded) declares it, only that declaration's fields are used (GetBestCreateTypeInfo wins over the workspace-wide list); members declared by the other file are not offered", caseText+"\n"+detail)
				res.Dist("hit.C15-K1")
			default:
				res.AddViolation("impl-vs-spec", detail, caseText, false)
			}
		}
		// completions on an unsaved buffer that ends with "x."
		for _, qq := range qs {
			buf := plainMain + qq.v.query + "."
			line := strings.Count(plainMain, "\n")
			caseText := fmt.Sprintf("completion after %q (type %q)\n%s", qq.v.query+".", qq.v.typ, worldText)
			lib.Breadcrumb("C15 " + caseText)
			sess.DidChange("main.lua", []lib.ContentChange{{Text: buf}})
			items, err := sess.Completion("main.lua", line, len(qq.v.query)+1)
			if err != nil {
				res.AddViolation("crash-or-timeout", err.Error(), caseText, false)
				continue
			}
			var got []string
			for _, it := range items {
				got = append(got, it.Label)
			}
			sort.Strings(got)
			res.Count(fmt.Sprintf("%d/%s", wi, qq.v.name), len(qq.expected) > 0)
			res.Dist(fmt.Sprintf("completion.members=%d", minInt(len(qq.expected), 6)))
			if strings.Join(got, ",") != strings.Join(qq.expected, ",") {
				var diff []string
				for _, f := range got {
					if !inList(qq.expected, f) {
						diff = append(diff, f)
					}
				}
				for _, f := range qq.expected {
					if !inList(got, f) {
						diff = append(diff, f)
					}
				}
				classify(caseText, fmt.Sprintf("member completion offers [%s], the declared and inherited members are [%s]", strings.Join(got, ","), strings.Join(qq.expected, ",")), diff)
			}
		}
		// the class file is deleted (only a file event, nothing is re-analysed): the members it declared are gone
		{
			buf := plainMain + "---@type DelL\nlocal dv = nil\ndv."
			line := strings.Count(buf, "\n")
			ask := func() ([]string, error) {
				sess.DidChange("main.lua", []lib.ContentChange{{Text: buf}})
				items, err := sess.Completion("main.lua", line, len("dv."))
				var got []string
				for _, it := range items {
					got = append(got, it.Label)
				}
				sort.Strings(got)
				return got, err
			}
			before, err1 := ask()
			os.Remove(filepath.Join(dir, "del.lua"))
			sess.Watched(map[string]int{"del.lua": 3})
			sess.Sync()
			after, err2 := ask()
			caseText := fmt.Sprintf("completion after \"dv.\" (---@type DelL) before and after del.lua is deleted\n-- del.lua\n%s%s", delFile, worldText)
			res.Dist("deleted-class-file")
			if err1 != nil || err2 != nil {
				res.AddViolation("crash-or-timeout", fmt.Sprint(err1, err2), caseText, false)
			} else if strings.Join(before, ",") != "dk1,dl1" || len(after) != 0 {
				res.AddViolation("impl-vs-spec", fmt.Sprintf("members offered with del.lua present %v (declared and inherited: [dk1 dl1]), after its deletion %v (the class is declared nowhere: none)", before, after), caseText, false)
			}
		}
		sess.Close()
		// second session: main.lua with the member-use lines, for go-to-definition
		files["main.lua"] = validMain
		if err := lib.WriteWorkspace(dir, files); err != nil {
			return err
		}
		sess, err = lib.StartSession(dir, lib.AllChecksOptions())
		if err != nil {
			os.RemoveAll(dir)
			res.AddViolation("crash-or-timeout", "server start: "+err.Error(), worldText, false)
			continue
		}
		sess.DidOpen("main.lua", validMain)
		sess.Sync()
		// definitions
		for _, qq := range qs {
			if qq.useLine < 0 {
				continue
			}
			caseText := fmt.Sprintf("definition of %s.%s (line %d of main.lua), type %q\n%s", qq.v.query, qq.useField, qq.useLine, qq.v.typ, worldText)
			lib.Breadcrumb("C15 " + caseText)
			col := len("print(") + len(qq.v.query) + 1
			locs, err := sess.Definition("main.lua", qq.useLine, col)
			if err != nil {
				res.AddViolation("crash-or-timeout", err.Error(), caseText, false)
				continue
			}
			res.Dist("definition")
			got := "-"
			if len(locs) > 0 {
				got = fmt.Sprintf("%s:%d", sess.Rel(locs[0].URI), locs[0].Range.Start.Line)
			}
			if !inList(fieldAt[qq.useField], got) {
				classify(caseText, fmt.Sprintf("go-to-definition on the member leads to %s, its ---@field line is %v", got, fieldAt[qq.useField]), []string{qq.useField})
			}
		}
		sess.Close()
		os.RemoveAll(dir)
	}
	return c15ClassVariable(res)
}

// fixed world (every tier): a class whose comment block stands over a declaration of SEVERAL variables is the class of
// the first one; the members assigned through that variable are members of the class, the members of the other
// variable are not reached through it
func c15ClassVariable(res *lib.Result) error {
	src := "---@class FooZ\n---@field az number\nlocal FooZ, UtilZ = {}, {}\nfunction FooZ.barz() end\nfunction UtilZ.helperz() end\n\n---@type FooZ\nlocal vz = nil\nlocal q2 = vz.barz\nlocal q3 = vz.az\nprint(q2, q3)\n" +
		// … and a class block over a one-line constructor WITH a field: the class variable is the table, not its field
		"---@class BarZ\n---@field bz number\nlocal BarZ = { xz = 1 }\nfunction BarZ.helloz() end\n\n---@type BarZ\nlocal wz = nil\nlocal q4 = wz.helloz\nlocal q5 = wz.xz\nprint(q4, q5)\n"
	dir := lib.ScratchDir("c15cv")
	defer os.RemoveAll(dir)
	if err := lib.WriteWorkspace(dir, map[string]string{"main.lua": src}); err != nil {
		return err
	}
	sess, err := lib.StartSession(dir, lib.AllChecksOptions())
	if err != nil {
		return err
	}
	defer sess.Close()
	sess.DidOpen("main.lua", src)
	sess.Sync()
	res.Count("class-variable-world", true)
	res.Dist("definition.member-assigned-through-the-class-variable")
	for _, q := range [][3]int{{8, 14, 3}, {9, 14, 1}, {18, 14, 14}, {19, 14, 13}} { // vz.barz → line 3 (function FooZ.barz), vz.az → line 1 (---@field az)
		locs, err := sess.Definition("main.lua", q[0], q[1])
		if err != nil {
			res.AddViolation("crash-or-timeout", err.Error(), src, false)
			return nil
		}
		got := "-"
		if len(locs) > 0 {
			got = fmt.Sprintf("%s:%d", sess.Rel(locs[0].URI), locs[0].Range.Start.Line)
		}
		if want := fmt.Sprintf("main.lua:%d", q[2]); got != want {
			res.AddViolation("impl-vs-spec", fmt.Sprintf("go-to-definition on the member at %d:%d leads to %s, its declaration is at %s", q[0], q[1], got, want), src, false)
		}
	}
	return nil
}
