package main

import (
	"fmt"
	"os"
	"sort"
	"strings"

	"verifharness/lib"
)

func init() { register("C14", runC14) }

// uniqueNames rewrites a generated scope program so that every DECLARATION gets its own name drawn
// from a few shared prefixes (ab…, ac…, ba…, x…): done at generation time by a name() override.
func genUniqueProgram(r *lib.Rng) string {
	g := newScopeGen(r)
	n := 0
	// "in", "do", "or": names that begin with a reserved word (index, done, order …): the typed prefix is a keyword
	prefixes := []string{"ab", "ac", "ba", "abc", "x", "in", "do", "or", "then"}
	g.fresh = func() string {
		n++
		return fmt.Sprintf("%s%d", prefixes[r.Intn(len(prefixes))], n)
	}
	g.gpool = []string{"abG1", "acG2", "gfun", "print", "baG3", "xg"}
	g.indent = -1
	g.block(3 + r.Intn(5))
	return strings.Join(g.lines, "\n") + "\n"
}

func splitHexList(s string) []string {
	if s == "" || s == "?" {
		return nil
	}
	var out []string
	for _, h := range strings.Split(s, ",") {
		out = append(out, string(lib.UnHex(h)))
	}
	return out
}

// contexts of the typed prefix: text before it and text after it on the same line (the program stays valid)
var c14Contexts = [][2]string{{"local zq = ", ""}, {"local zq = \"s\"..", ""}, {"local zq = print..", ""}, {"local zq = 1 + ", ""}, {"local zq = 1+", ""},
	{"local zq = -", ""}, {"local zq = #", ""}, {"local zq = not ", ""}, {"local zq = (", ")"}, {"print(", ")"}, {"local zq = {", "}"}, {"local zq = { 1, ", " }"},
	{"local zq = print(1, ", ")"}, {"local zq = 1 == ", ""}, {"local zq = 2 .. ", ""}, {"zq = ", ""}, {"local zq = zq2 or ", ""}, {"local zq = zq2[", "]"},
	// a string that contains the comment marker earlier on the line
	{"local zqs = \"--\" local zq = ", ""}, {"local zqs = '--[[' local zq = ", ""}}

func runC14(res *lib.Result, tier string, seed int64, args []string) error {
	nProg, nPos := 120, 6
	if tier == "thorough" {
		nProg, nPos = 2500, 10
	}
	res.Rule = "generated programs with uniquely named declarations sharing a few prefixes; a statement 'local zq = <prefix>' is inserted at a random statement boundary of any block (a third of the time on the same line as the block's closing keyword, so that the cursor is on the last line of the block) and textDocument/completion is asked at the end of the prefix: (1) every local/parameter/loop variable visible there under S-bind whose name starts with the prefix is offered, and every workspace global with the prefix; (2) the locals offered = the model of GetCompleteVar (position-based), and none is declared later or in a block that does not enclose the cursor, except class K1 (the variable being declared by the statement under the cursor); non-trivial = at least one visible local has the prefix; distinct by (program, position, prefix)"
	drv, err := lib.StartDriver()
	if err != nil {
		return err
	}
	defer drv.Close()
	dir := lib.ScratchDir("c14")
	defer os.RemoveAll(dir)
	root := lib.NewRng(uint64(seed))
	for pi := 0; pi < nProg; pi++ {
		r := root.Fork(uint64(pi))
		base := genUniqueProgram(r)
		nonUnique := pi%2 == 1
		if nonUnique {
			// shadowing and re-declaration in the same block (names from a 6-name pool)
			base = genScopeProgram(r)
			res.Dist("program.non-unique-names")
		}
		if pi%10 == 5 {
			// fixed shape (every tier): callbacks passed to a method call that is used as an EXPRESSION (initialiser, return
			// value, string method): their parameters and locals are in scope inside them
			nonUnique = false
			base = "local aba1 = 1\nlocal abl2 = {}\nlocal abr3 = abl2:abmap(function(abi4)\n  local abt5 = abi4\n  print(abt5)\n  return abt5\nend)\n" +
				"local acs6 = (\"x\"):gsub(\".\", function(abp7)\n  local abq8 = abp7\n  print(abq8)\n  return abq8\nend)\nprint(abr3, acs6)\n" +
				"abl2:abeach(function(abe9)\n  local abf10 = abe9\n  print(abf10)\nend)\n"
			res.Dist("program.colon-call-callbacks")
		}
		multiG := pi%3 == 0
		if multiG {
			// globals defined as targets of a multiple assignment, also targets without a value of their own
			// … and globals written through _G in this very file
			base = "abM1, abM2 = pcall(print)\nacM3, acM4 = 1\nbaM5, xM6 = 1, 2\n_G.abM7 = 1\n_G.xM8 = function() end\n" + base
		}
		annCall := pi%10 == 7
		if annCall {
			// fixed shape (every tier): the cursor inside the argument list of a call to a function whose parameters carry
			// ---@param types (plain types: nothing to offer from the annotation) — the names in scope are offered as anywhere
			base = "---@param acp1 number\n---@param acp2 string\nlocal function acann(acp1, acp2) return acp1, acp2 end\n" + base
			res.Dist("program.annotated-call-preface")
		}
		lines := strings.Split(strings.TrimRight(base, "\n"), "\n")
		for k := 0; k < nPos; k++ {
			at := r.Intn(len(lines) + 1)
			if annCall && at < 3 {
				at = 3
			}
			forceUntil := false
			if k == 0 {
				// the first position of a program that has a repeat loop is inside its until-condition
				var us []int
				for j, l := range lines {
					if strings.HasPrefix(strings.TrimSpace(l), "until ") {
						us = append(us, j)
					}
				}
				if len(us) > 0 {
					at, forceUntil = us[r.Intn(len(us))], true
				}
			}
			if at > 0 && strings.HasPrefix(strings.TrimSpace(lines[at-1]), "return") {
				continue
			}
			indent := ""
			if at < len(lines) {
				indent = lines[at][:len(lines[at])-len(strings.TrimLeft(lines[at], " "))]
			}
			if at > 0 {
				prev := lines[at-1]
				pi := prev[:len(prev)-len(strings.TrimLeft(prev, " "))]
				t := strings.TrimSpace(prev)
				if strings.HasSuffix(t, " do") || strings.HasSuffix(t, " then") || t == "else" || t == "repeat" || t == "do" || strings.HasSuffix(t, ")") && (strings.HasPrefix(t, "function") || strings.HasPrefix(t, "local function") || strings.Contains(t, "= function")) {
					indent = pi + "  "
				}
			}
			prefix := []string{"a", "ab", "ac", "b", "x", "abc", "in", "do", "or", "then"}[r.Intn(10)]
			if nonUnique {
				prefix = []string{"a", "b", "c", "x", "y", "v"}[r.Intn(6)]
			}
			// what stands directly before (and after) the typed prefix on the cursor line
			ctx := c14Contexts[0]
			if r.Chance(1, 2) {
				ctx = c14Contexts[r.Intn(len(c14Contexts))]
			}
			if annCall && k == 2 {
				ctx = [2]string{"local zq = acann(", ")"}
			}
			if annCall && k == 3 {
				ctx = [2]string{"local zq = acann(1, ", ")"}
			}
			res.Dist("context." + ctx[0] + "…" + ctx[1])
			ins := indent + ctx[0] + prefix
			tail := ctx[1]
			var nl []string
			nl = append(nl, lines[:at]...)
			rest := lines[at:]
			// every third time the cursor line is also the LAST line of the block: the closing keyword
			// ('end', 'until …', 'else', 'elseif …') follows on the same line
			// the cursor inside the condition of `until`: the locals of the repeat body are visible there
			untilMode := false
			if at < len(lines) && strings.HasPrefix(strings.TrimSpace(lines[at]), "until ") && (forceUntil || r.Chance(1, 2)) {
				untilMode = true
				ui := lines[at][:len(lines[at])-len(strings.TrimLeft(lines[at], " "))]
				ins = ui + "until " + prefix
				tail = ""
				nl = append(nl, ins)
				rest = lines[at+1:]
				res.Dist("cursor.in-until-condition")
				ins2 := ins
				ins = ""
				_ = ins2
			}
			// the second position of a program with re-declarations: the cursor stands between two declarations of one
			// name in the same block (the later one is not visible yet, the earlier one is)
			sandwich := nonUnique && k == 1 && !untilMode
			lineShift := 0
			if sandwich {
				nl = append(nl, indent+"local "+prefix+"sw = 1")
				lineShift = 1
				res.Dist("cursor.between-two-declarations-of-one-name")
			}
			if !untilMode && !sandwich && at < len(lines) && r.Chance(1, 3) {
				t := strings.TrimSpace(lines[at])
				if t == "end" || strings.HasPrefix(t, "until ") || t == "else" || strings.HasPrefix(t, "elseif ") || strings.HasPrefix(t, "end)") {
					nl = append(nl, ins+tail+" "+t)
					rest = lines[at+1:]
					res.Dist("cursor.on-last-line-of-block")
					ins = ""
				}
			}
			if untilMode {
				ui := lines[at][:len(lines[at])-len(strings.TrimLeft(lines[at], " "))]
				ins = ui + "until " + prefix
			} else if ins != "" {
				if !sandwich && tail == "" && r.Chance(1, 4) {
					// a declaration BEHIND the cursor on the cursor's own line: not visible yet
					tail = " local " + prefix + "lt = 1"
					res.Dist("cursor.declaration-behind-it-on-the-line")
				}
				nl = append(nl, ins+tail)
				if sandwich {
					nl = append(nl, indent+"local "+prefix+"sw = 2")
				}
			} else {
				ins = indent + ctx[0] + prefix
			}
			nl = append(nl, rest...)
			src := strings.Join(nl, "\n") + "\n"
			line, col := at+1+lineShift, len(ins) // 1-based line for the driver; col = end of prefix
			// a typed prefix that is itself a reserved word (in, do, or) does not parse as an expression: the model gets the
			// same text with a placeholder identifier of the same length in its place (what is visible at the cursor does
			// not depend on how the prefix is spelt); the server gets the text as typed
			modelSrc := src
			if luaKeywords[prefix] {
				ml := strings.Split(src, "\n")
				cl := ml[line-1]
				if col >= len(prefix) && col <= len(cl) && cl[col-len(prefix):col] == prefix {
					ml[line-1] = cl[:col-len(prefix)] + strings.Repeat("q", len(prefix)) + cl[col:]
					modelSrc = strings.Join(ml, "\n")
					res.Dist("prefix.is-a-keyword")
				}
			}
			ans, err := drv.Ask(fmt.Sprintf("complete %s %s %d %d", lib.Hex([]byte(modelSrc)), lib.ConvTableFor([]byte(modelSrc)), line, col))
			if err != nil {
				return err
			}
			if strings.HasPrefix(ans, "ERR") {
				// insertion point produced an invalid program (e.g. after a block-closing return): skip
				res.Dist("skipped.invalid-insertion")
				continue
			}
			var sPart, mPart, dPart, gPart, kPart string
			for _, f := range strings.Fields(strings.TrimPrefix(ans, "OK ")) {
				switch {
				case strings.HasPrefix(f, "S="):
					sPart = f[2:]
				case strings.HasPrefix(f, "M="):
					mPart = f[2:]
				case strings.HasPrefix(f, "D="):
					dPart = f[2:]
				case strings.HasPrefix(f, "G="):
					gPart = f[2:]
				case strings.HasPrefix(f, "K="):
					kPart = f[2:]
				}
			}
			if sPart == "?" {
				return fmt.Errorf("driver did not find the inserted prefix occurrence at %d:%d in\n%s", line, col, src)
			}
			specVis, modelVis, declared := splitHexList(sPart), splitHexList(mPart), map[string]bool{}
			for _, d := range splitHexList(dPart) {
				declared[d] = true
			}
			// a name that also occurs as a global (e.g. the right-hand side of 'local n = n') is offered as
			// a global whatever the local's visibility: leave it out of the locals comparison
			for _, gname := range splitHexList(gPart) {
				delete(declared, gname)
			}
			// every third position the text reaches the server the way typing does: the file on disk and the opened document
			// hold the program without the cursor line, a first edit appends a line, a second edit brings the final text; the
			// answer must be the one for the final text (the analysis of an edited document is replaced by every edit)
			typed := k%3 == 1 && !multiG
			disk := src
			if typed {
				disk = strings.Join(lines, "\n") + "\n"
			}
			if err := lib.WriteWorkspace(dir, map[string]string{"main.lua": disk}); err != nil {
				return err
			}
			sess, err := lib.StartSession(dir, lib.AllChecksOptions())
			if err != nil {
				return err
			}
			sess.DidOpen("main.lua", disk)
			if typed {
				sess.Sync()
				sess.DidChange("main.lua", []lib.ContentChange{{Text: disk + "local zqfirstedit = 1\nprint(zqfirstedit)\n"}})
				sess.Sync()
				sess.DidChange("main.lua", []lib.ContentChange{{Text: src}})
				res.Dist("delivery.two-edits")
			}
			sess.Sync()
			caseText := fmt.Sprintf("completion at %d:%d (prefix %q) in\n%s", line-1, col, prefix, src)
			lib.Breadcrumb("C14 " + caseText)
			items, err := sess.Completion("main.lua", line-1, col)
			sess.Close()
			if err != nil {
				res.AddViolation("crash-or-timeout", err.Error(), caseText, false)
				continue
			}
			offered := map[string]bool{}
			for _, it := range items {
				l := it.Label
				if strings.HasSuffix(ctx[0], "#") {
					// after the length operator the server prepends '#' to every label (the client replaces '#pre')
					l = strings.TrimPrefix(l, "#")
				}
				offered[l] = true
			}
			nontrivial := false
			// (1) visible locals with the prefix must be offered
			var missing []string
			for _, v := range specVis {
				if strings.HasPrefix(v, prefix) {
					nontrivial = true
					if !offered[v] {
						missing = append(missing, v)
					}
				}
			}
			res.Count(fmt.Sprintf("%d/%d/%s", pi, at, prefix), nontrivial)
			if k == 0 && pi < 2 {
				res.Sample(map[string]interface{}{"case": lib.Trunc(caseText, 400), "visible": specVis, "offered_locals": len(offered)})
			}
			// globals with the prefix (assigned anywhere in the file)
			for _, l := range nl {
				t := strings.TrimSpace(l)
				for _, g := range []string{"abG1", "acG2", "baG3", "xg", "gfun"} {
					if (strings.HasPrefix(t, g+" = ") || strings.HasPrefix(t, "function "+g+"(")) && strings.HasPrefix(g, prefix) && !offered[g] {
						missing = append(missing, "global "+g)
					}
				}
			}
			if multiG {
				for _, g := range []string{"abM1", "abM2", "acM3", "acM4", "baM5", "xM6", "abM7", "xM8"} {
					if strings.HasPrefix(g, prefix) && !offered[g] {
						missing = append(missing, "global "+g)
					}
				}
			}
			if len(missing) > 0 {
				res.AddViolation("impl-vs-spec", fmt.Sprintf("visible names with the typed prefix are not offered: %v", missing), caseText, false)
				continue
			}
			// (2) offered locals = model candidates (filtered as IsCompleteNeedShow does: the name contains the
			// first character of the prefix, either case)
			first := strings.ToLower(prefix[:1])
			var implLocals, modelLocals []string
			for n := range offered {
				if declared[n] && n != "zq" {
					implLocals = append(implLocals, n)
				}
			}
			inK1 := map[string]bool{}
			for _, n := range splitHexList(kPart) {
				inK1[n] = true
			}
			for _, n := range modelVis {
				if n != "zq" && declared[n] && strings.Contains(strings.ToLower(n), first) {
					modelLocals = append(modelLocals, n)
				}
			}
			sort.Strings(implLocals)
			sort.Strings(modelLocals)
			visible := map[string]bool{}
			for _, v := range specVis {
				visible[v] = true
			}
			if strings.Join(implLocals, ",") != strings.Join(modelLocals, ",") {
				var wrong []string
				for _, n := range implLocals {
					if !visible[n] {
						wrong = append(wrong, n)
					}
				}
				res.AddViolation("impl-vs-model", fmt.Sprintf("locals offered %v, GetCompleteVar model predicts %v (visible under S-bind: %v)", implLocals, modelLocals, specVis), caseText, len(wrong) == 0)
				continue
			}
			for _, n := range implLocals {
				if !visible[n] {
					res.AddViolation("impl-vs-spec", fmt.Sprintf("local %s is offered although it is not visible at the cursor (declared later, inside its own declaring statement, or in a non-enclosing block)", n), caseText, false)
				}
			}
		}
	}
	return nil
}
