package main

import (
	"fmt"
	"io/ioutil"
	"os"
	"path/filepath"
	"regexp"
	"sort"
	"strings"

	"verifharness/lib"

	"luahelper-lsp/langserver/check/common"
)

func init() { register("C17", runC17) }

// workspace that triggers every diagnostic type reachable through client settings (1..21; 22-25 need
// OpenErrorTypes of luahelper.json and cannot be produced under client flags at all).
var c17Main = `local unused1 = 1
print(undefinedVar1)
local t = { a = 1, a = 2 }
local x, y = 1, 2, 3
x, y = 1, 2, 3
local r = require("nofile")
goto nolabel
local function f(a, a) return a end
f(1, 2, 3)
if x == x then print(x) end
local o = x or true
local n = x and false
local wo = 1
wo = 2
if y then print(1) elseif y then print(2) end
x = x
if y == 1.5 then print(y) end
print(laterDefined)
laterDefined = 1
---@type NoSuchType
local typed = nil
print(t, r, o, n, typed)
local imp = import("other.lua")
print(imp.nothing)
if not y then print(y.z) end
---@class
local CA = {}
print(CA)
`

var c17Files = map[string]string{
	"main.lua":       c17Main,
	"other.lua":      "local M = {}\nM.a = 1\nreturn M\n",
	"bad.lua":        "local q = = 1\n",
	"sub/dir/m2.lua": c17Main,
	"sub/axlua.lua":  "local zz = 1\nprint(undefinedVar2)\n",
	// names with regular-expression metacharacters: a rule that names them literally silences them
	"lib(v1)/p.lua": "local zy = 1\nprint(undefinedVar3)\n",
	"x+y.lua":       "local zx = 1\nprint(undefinedVar4)\n",
}

type c17Diag struct {
	file string
	ty   int
	key  string
}

func c17View(s *lib.Session) []c17Diag {
	var out []c17Diag
	for f, ds := range s.DiagView() {
		for _, d := range ds {
			out = append(out, c17Diag{f, d.ErrType(), fmt.Sprintf("%s|%d|%d:%d-%d:%d|%s", f, d.ErrType(), d.Range.Start.Line, d.Range.Start.Character, d.Range.End.Line, d.Range.End.Character, d.Message)})
		}
	}
	sort.Slice(out, func(i, j int) bool { return out[i].key < out[j].key })
	return out
}

func flagBits(fl []bool) string {
	var sb strings.Builder
	for _, b := range fl {
		if b {
			sb.WriteByte('1')
		} else {
			sb.WriteByte('0')
		}
	}
	return sb.String()
}

func patsArg(pats []string, file string) string {
	if len(pats) == 0 {
		return "-"
	}
	var parts []string
	for _, p := range pats {
		m := "0"
		if re, err := regexp.Compile(p); err == nil && re.MatchString(file) {
			m = "1"
		}
		parts = append(parts, lib.Hex([]byte(p))+":"+m)
	}
	return strings.Join(parts, ",")
}

// rules that take files out of the analysis; the files under sub/ are used by no other file
var c17SkipRules = []string{"sub/dir/", "sub/", "dir/", "sub/axlua.lua", "axlua", "sub/dir", "nomatch/", "zzz.lua", "sub/d.r/"}

// c17Skipped: the documented meaning of an analysis-ignore rule: a rule ending in .lua names files (substring
// or regular expression of the path), any other rule names folders (matched against the folder part)
// fixed world (every tier): the switch of the argument-count check (type 10) and the switch of the argument-type check
// (type 24, opened by a configuration file only) are two switches: each silences its own type and nothing else
func c17CallParamSwitches(res *lib.Result) error {
	src := "---@param n number\n---@param s string\nfunction gtakes(n, s) end\nfunction gcaller()\n  gtakes(\"str\", 1)\n  gtakes(1)\nend\n"
	view := func(cfg string) ([]string, error) {
		dir := lib.ScratchDir("c17cp")
		defer os.RemoveAll(dir)
		if err := lib.WriteWorkspace(dir, map[string]string{"luahelper.json": cfg, "b.lua": src}); err != nil {
			return nil, err
		}
		sess, err := lib.StartSession(dir, lib.AllChecksOptions())
		if err != nil {
			return nil, err
		}
		defer sess.Close()
		var out []string
		for _, d := range sess.DiagView()["b.lua"] {
			if t := d.ErrType(); t == 10 || t == 24 {
				out = append(out, fmt.Sprintf("t%d@%s", t, locOfRange(d.Range)))
			}
		}
		sort.Strings(out)
		return out, nil
	}
	base, err := view("{\"ShowWarnFlag\":1,\"OpenErrorTypes\":[24]}")
	if err != nil {
		return err
	}
	res.Count("call-param-switches", true)
	res.Dist("e2e.call-param-switches")
	has := func(l []string, pre string) bool {
		for _, x := range l {
			if strings.HasPrefix(x, pre) {
				return true
			}
		}
		return false
	}
	if !has(base, "t10@") || !has(base, "t24@") {
		return fmt.Errorf("the call-parameter world does not trigger both types 10 and 24: %v", base)
	}
	for _, off := range []int{10, 24} {
		got, err := view(fmt.Sprintf("{\"ShowWarnFlag\":1,\"OpenErrorTypes\":[24],\"IgnoreErrorTypes\":[%d]}", off))
		if err != nil {
			return err
		}
		var want []string
		for _, x := range base {
			if !strings.HasPrefix(x, fmt.Sprintf("t%d@", off)) {
				want = append(want, x)
			}
		}
		if strings.Join(got, " ") != strings.Join(want, " ") {
			res.AddViolation("impl-vs-spec", fmt.Sprintf("with type %d switched off (IgnoreErrorTypes) the diagnostics of types 10 / 24 are %v; with both on they are %v, so %v is expected", off, got, base, want), "-- b.lua\n"+src, false)
		}
	}
	return nil
}

func c17Skipped(rule, rel string) bool {
	target := rel
	if !strings.HasSuffix(rule, ".lua") {
		i := strings.LastIndex(rel, "/")
		if i < 0 {
			return false
		}
		target = rel[:i+1]
	}
	if strings.Contains(target, rule) {
		return true
	}
	re, err := regexp.Compile(rule)
	return err == nil && re.MatchString(target)
}

type c17Rule struct {
	file  string
	types []int
}

// file names the per-file type rules of luahelper.json may name (substring / regular expression of the path)
var c17RuleFiles = []string{"main.lua", "m2.lua", "sub/dir/other.lua", "other.lua", "nomatch.lua", "sub/"}

var c17Patterns = []string{"sub/", "sub/dir", "m2.lua", "a.lua", "sub/.*\\.lua", "^/nomatch", "other.lua", "dir", "ma[a-z]n.lua", "x"}

func genFlags(r *lib.Rng) []bool {
	fl := make([]bool, 26)
	mode := r.Intn(10)
	for i := range fl {
		switch {
		case mode < 3: // one or two switches off
			fl[i] = true
		case mode < 6:
			fl[i] = r.Chance(4, 5)
		default:
			fl[i] = r.Chance(1, 2)
		}
	}
	if mode < 3 {
		fl[1+r.Intn(25)] = false
		if r.Chance(1, 2) {
			fl[1+r.Intn(25)] = false
		}
	}
	fl[0] = !r.Chance(1, 12)
	if r.Chance(1, 8) { // the special-check class
		for _, i := range []int{2, 3, 10, 11, 12} {
			fl[i] = false
		}
		fl[0] = true
	}
	return fl
}

func optsFromFlags(fl []bool, pats []string) lib.InitOptions {
	o := lib.InitOptions{"client": "vsc", "LocalRun": true}
	for i, n := range lib.CheckFlagNames {
		o[n] = fl[i]
	}
	if len(pats) > 0 {
		o["IgnoreFileOrDirError"] = pats
	}
	return o
}

func runC17(res *lib.Result, tier string, seed int64, args []string) error {
	nUnit, nE2E := 6000, 40
	if tier == "thorough" {
		nUnit, nE2E = 400000, 1500
	}
	res.Rule = "unit: random sequences of 1-2 flag vectors + ignore-pattern lists (literal and regex) through the real HandleChangeCheckList/IsIgnoreErrorFile/IsSpecialCheck vs model (fromFlags/isIgnored/isSpecialCheck) and vs S-conf.shown; " +
		"e2e: real server on a workspace triggering types 1-21 in three files under a random configuration given by initializationOptions, by a later didChangeConfiguration, or by luahelper.json (there also with 0-3 per-file type rules IgnoreFileErrTypes), optionally with a rule that takes a file or a folder out of the analysis (IgnoreFileOrDir / IgnoreFileOrFloder), compared with the documented filter of the all-enabled run; non-trivial = master on and at least one switch off or one pattern; distinct by canonical configuration"
	drv, err := lib.StartDriver()
	if err != nil {
		return err
	}
	defer drv.Close()
	root := lib.NewRng(uint64(seed))
	files := []string{"/w/main.lua", "/w/sub/dir/m2.lua", "/w/sub/axlua.lua", "/w/other.lua", "/w/server/meta/x.lua", "/w/a.lua"}

	ask := func(flSeq [][]bool, pats []string, file string, ty int) (mIgn, mSpecial, sShown, specialOff bool, line string, err error) {
		var fs []string
		for _, fl := range flSeq {
			fs = append(fs, flagBits(fl))
		}
		line = fmt.Sprintf("conf %s %s %s %d", strings.Join(fs, "/"), patsArg(pats, file), lib.Hex([]byte(file)), ty)
		ans, err := drv.Ask(line)
		if err != nil {
			return
		}
		var a, b, c, d int
		if _, e := fmt.Sscanf(ans, "M ign=%d special=%d S shown=%d specialOff=%d", &a, &b, &c, &d); e != nil {
			err = fmt.Errorf("bad driver answer %q to %q", ans, line)
			return
		}
		return a == 1, b == 1, c == 1, d == 1, line, nil
	}

	// configurations on which the implementation and the model disagree about a gate: replayed
	// end-to-end first (failing-input search seeded by the broken correspondence)
	var suspects [][]bool
	nLost, nExtra := 0, 0
	// ---------------- unit ----------------
	for i := 0; i < nUnit; i++ {
		r := root.Fork(uint64(i))
		nseq := 1 + r.Intn(2)
		var seq [][]bool
		for k := 0; k < nseq; k++ {
			seq = append(seq, genFlags(r))
		}
		var pats []string
		for k := r.Intn(3); k > 0; k-- {
			pats = append(pats, c17Patterns[r.Intn(len(c17Patterns))])
		}
		file := files[r.Intn(len(files))]
		ty := 1 + r.Intn(29)
		common.GlobalConfigDefautInit()
		common.GConfig.IntialGlobalVar()
		for _, fl := range seq {
			common.GConfig.HandleChangeCheckList(fl, nil, pats)
		}
		iIgn := common.GConfig.IsIgnoreErrorFile(file, common.CheckErrorType(ty))
		iSpecial := common.GConfig.IsSpecialCheck()
		mIgn, mSpecial, sShown, _, line, err := ask(seq, pats, file, ty)
		if err != nil {
			return err
		}
		last := seq[len(seq)-1]
		nontrivial := last[0] && (len(pats) > 0 || strings.Contains(flagBits(last)[1:], "0"))
		res.Count(line, nontrivial)
		res.Dist(fmt.Sprintf("unit.seq%d.pats%d", nseq, len(pats)))
		if i < 2 {
			res.Sample(map[string]interface{}{"op": line, "impl_ignored": iIgn, "impl_special": iSpecial})
		}
		if iSpecial != mSpecial && nseq == 1 {
			if !iSpecial && nLost < 4 { // the implementation skips the cross-file pass the model expects
				suspects = append([][]bool{last}, suspects...)
				nLost++
			} else if iSpecial && nExtra < 2 {
				suspects = append(suspects, last)
				nExtra++
			}
		}
		if iIgn != mIgn || iSpecial != mSpecial {
			// correspondence broken: does the implementation also contradict the documented semantics?
			failing := ty <= 25 && nseq == 1 && iIgn == sShown
			res.AddViolation("impl-vs-model", fmt.Sprintf("IsIgnoreErrorFile=%v IsSpecialCheck=%v but model says ignored=%v special=%v (spec shown=%v)", iIgn, iSpecial, mIgn, mSpecial, sShown), line, !failing)
			continue
		}
		// model vs spec on the theorem's domain (single vector from the default state, types 1..25)
		if nseq == 1 && ty <= 25 && mIgn == sShown {
			res.AddViolation("model-vs-spec", "theorem flags_exact contradicted by evaluation", line, false)
		}
	}
	// ---------------- unit: per-file type rules (IgnoreFileErrTypes), several of which may match one file ----------------
	for i := 0; i < nUnit/4; i++ {
		r := root.Fork(uint64(8800000 + i))
		common.GlobalConfigDefautInit()
		common.GConfig.IntialGlobalVar()
		everyOn := make([]bool, 26)
		for k := range everyOn {
			everyOn[k] = true
		}
		common.GConfig.HandleChangeCheckList(everyOn, nil, nil)
		common.GConfig.IgnoreFileErrTypesMap = map[string](map[int]bool){}
		common.GConfig.IgnoreFileErrTypesRegexp = map[string]*regexp.Regexp{}
		file := filepath.Join("/ws", []string{"main.lua", "m2.lua", "sub/dir/other.lua", "other.lua"}[r.Intn(4)])
		var parts []string
		used := map[string]bool{}
		for k := 1 + r.Intn(4); k > 0; k-- {
			rf := c17RuleFiles[r.Intn(len(c17RuleFiles))]
			if used[rf] {
				continue
			}
			used[rf] = true
			tm := map[int]bool{}
			var ts []string
			for n := 1 + r.Intn(3); n > 0; n-- {
				t := 1 + r.Intn(8)
				if !tm[t] {
					tm[t] = true
					ts = append(ts, fmt.Sprint(t))
				}
			}
			common.GConfig.IgnoreFileErrTypesMap[rf] = tm
			m := "0"
			if re, err := regexp.Compile(rf); err == nil {
				common.GConfig.IgnoreFileErrTypesRegexp[rf] = re
				if re.MatchString(file) {
					m = "1"
				}
			}
			parts = append(parts, lib.Hex([]byte(rf))+":"+m+"="+strings.Join(ts, "."))
		}
		ty := 1 + r.Intn(8)
		line := fmt.Sprintf("confrules %s %s %d", strings.Join(parts, ";"), lib.Hex([]byte(file)), ty)
		ans, err := drv.Ask(line)
		if err != nil {
			return err
		}
		iIgn := common.GConfig.IsIgnoreErrorFile(file, common.CheckErrorType(ty))
		res.Count(line, len(parts) > 1)
		res.Dist(fmt.Sprintf("unit.rules%d", len(parts)))
		if (ans == "R ign=1") != iIgn {
			res.AddViolation("impl-vs-model", fmt.Sprintf("IsIgnoreErrorFile=%v under the per-file type rules, model answers %q (a diagnostic is silenced iff SOME matching rule names its type)", iIgn, ans), line, false)
		}
	}
	common.GlobalConfigDefautInit()
	common.GConfig.IntialGlobalVar()
	// malformed regex: separate stream (former finding K4, repaired by a72bfd6: must not panic again)
	func() {
		defer func() {
			if rec := recover(); rec != nil {
				res.AddViolation("crash-or-timeout", fmt.Sprintf("a malformed regular expression in IgnoreFileOrDirError panics: %v", rec), "IgnoreFileOrDirError=[\"a[.lua\"]", false)
			}
		}()
		common.GlobalConfigDefautInit()
		common.GConfig.IntialGlobalVar()
		common.GConfig.HandleChangeCheckList(make([]bool, 26), nil, []string{"a[.lua"})
	}()

	// ---------------- e2e ----------------
	dir := lib.ScratchDir("c17")
	defer os.RemoveAll(dir)
	if err := lib.WriteWorkspace(dir, c17Files); err != nil {
		return err
	}
	allOn := make([]bool, 26)
	for i := range allOn {
		allOn[i] = true
	}
	base, err := lib.StartSession(dir, optsFromFlags(allOn, nil))
	if err != nil {
		return err
	}
	baseline := c17View(base)
	base.Close()
	typesSeen := map[int]bool{}
	for _, d := range baseline {
		typesSeen[d.ty] = true
	}
	var ts []int
	for t := range typesSeen {
		ts = append(ts, t)
	}
	sort.Ints(ts)
	res.Extra["baseline_types"] = ts
	res.Extra["baseline_diagnostics"] = len(baseline)
	if len(ts) < 18 {
		return fmt.Errorf("baseline workspace triggers only types %v", ts)
	}
	for i := 0; i < nE2E; i++ {
		r := root.Fork(uint64(5000000 + i))
		fl := genFlags(r)
		var pats []string
		if r.Chance(1, 2) {
			pats = append(pats, c17Patterns[r.Intn(len(c17Patterns))])
		}
		channel := r.Intn(3) // 0 initializationOptions, 1 later didChangeConfiguration, 2 luahelper.json
		if i < len(suspects) {
			fl, pats, channel = suspects[i], nil, i%3
			res.Dist("e2e.suspect")
		} else if i%8 == 5 {
			// fixed: everything on, one literal rule with metacharacters (no random draw is replaced: pats / flags of this
			// index were drawn above and are simply not used)
			fl = allOn
			pats = []string{[]string{"lib(v1)/", "x+y.lua", "lib(v1)/p.lua"}[(i/8)%3]}
			res.Dist("e2e.literal-rule-with-metacharacters")
		}
		var sess *lib.Session
		var rules []c17Rule
		// a file / folder rule that removes the ANALYSIS of the matching files (IgnoreFileOrDir in the client
		// settings, IgnoreFileOrFloder in luahelper.json); only files nothing else depends on are named
		skipRule := ""
		if i >= len(suspects) && r.Chance(1, 2) {
			skipRule = c17SkipRules[r.Intn(len(c17SkipRules))]
		}
		jsonPath := filepath.Join(dir, "luahelper.json")
		os.Remove(jsonPath)
		switch channel {
		case 0:
			o := optsFromFlags(fl, pats)
			if skipRule != "" {
				o["IgnoreFileOrDir"] = []string{skipRule}
			}
			sess, err = lib.StartSession(dir, o)
		case 1:
			sess, err = lib.StartSession(dir, optsFromFlags(allOn, nil))
			if err == nil {
				// the two rule lists of a settings change: error-ignore patterns and analysis-ignore patterns
				skipList := []string{}
				if skipRule != "" {
					skipList = append(skipList, skipRule)
				}
				warn := map[string]interface{}{}
				for k, n := range lib.CheckFlagNames {
					warn[n] = fl[k]
				}
				settings := map[string]interface{}{"settings": map[string]interface{}{"luahelper": map[string]interface{}{
					"base": map[string]interface{}{"IgnoreFileOrDirError": pats, "IgnoreFileOrDir": skipList}, "Warn": warn}}}
				// VS Code always sends one didChangeConfiguration at start-up, which the server swallows by design
				sess.Notify("workspace/didChangeConfiguration", map[string]interface{}{"settings": map[string]interface{}{"luahelper": map[string]interface{}{"base": map[string]interface{}{}, "Warn": map[string]interface{}{}}}})
				sess.Sync()
				sess.Notify("workspace/didChangeConfiguration", settings)
				err = sess.Sync()
			}
		case 2:
			var off []int
			for t := 1; t <= 25; t++ {
				if !fl[t] {
					off = append(off, t)
				}
			}
			show := 0
			if fl[0] {
				show = 1
			}
			// per-file type rules: 0-3 rules naming files of the workspace, each with its own type list
			if i >= len(suspects) && r.Chance(1, 2) {
				var tys []int
				seen := map[int]bool{}
				for _, d := range baseline {
					if !seen[d.ty] {
						seen[d.ty] = true
						tys = append(tys, d.ty)
					}
				}
				sort.Ints(tys)
				usedFile := map[string]bool{}
				if r.Chance(1, 3) {
					// two rules that both match one file, each naming types the other does not: they combine
					var ot []int
					seenT := map[int]bool{}
					for _, d := range baseline {
						if d.file == "sub/dir/other.lua" && !seenT[d.ty] {
							seenT[d.ty] = true
							ot = append(ot, d.ty)
						}
					}
					sort.Ints(ot)
					if len(ot) >= 2 {
						k := r.Intn(len(ot) - 1)
						rules = append(rules, c17Rule{file: "sub/", types: ot[:k+1]}, c17Rule{file: "sub/dir/other.lua", types: ot[k+1:]})
						usedFile["sub/"], usedFile["sub/dir/other.lua"] = true, true
					}
				}
				for k := 1 + r.Intn(3); k > 0; k-- {
					rule := c17Rule{file: c17RuleFiles[r.Intn(len(c17RuleFiles))]}
					if usedFile[rule.file] {
						continue // one rule per File value: the configuration is a map keyed by it
					}
					usedFile[rule.file] = true
					for n := 1 + r.Intn(3); n > 0; n-- {
						rule.types = append(rule.types, tys[r.Intn(len(tys))])
					}
					rules = append(rules, rule)
				}
			}
			rulesJSON := ""
			if len(rules) > 0 {
				var rs []string
				// a rule with several types is sometimes written as several entries with the SAME File value, one type each:
				// the entries combine (i is the index of the configuration, no random draw: nothing else shifts)
				written := rules
				if i%2 == 0 {
					written = nil
					for _, ru := range rules {
						if len(ru.types) < 2 {
							written = append(written, ru)
							continue
						}
						for _, t := range ru.types {
							written = append(written, c17Rule{file: ru.file, types: []int{t}})
						}
					}
					if len(written) > len(rules) {
						res.Dist("e2e.rule-split-into-same-file-entries")
					}
				}
				for _, ru := range written {
					rs = append(rs, fmt.Sprintf(`{"File": %s, "Types": %s}`, mustJSON(ru.file), mustJSON(ru.types)))
				}
				rulesJSON = `, "IgnoreFileErrTypes": [` + strings.Join(rs, ", ") + `]`
			}
			if skipRule != "" {
				rulesJSON += `, "IgnoreFileOrFloder": [` + mustJSON(skipRule) + `]`
			}
			js := fmt.Sprintf(`{"ShowWarnFlag": %d, "IgnoreErrorTypes": %s, "IgnoreFileErr": %s%s}`, show, mustJSON(off), mustJSON(pats), rulesJSON)
			if len(off) == 0 {
				js = fmt.Sprintf(`{"ShowWarnFlag": %d, "IgnoreFileErr": %s%s}`, show, mustJSON(pats), rulesJSON)
			}
			ioutil.WriteFile(jsonPath, []byte(js), 0o644)
			sess, err = lib.StartSession(dir, optsFromFlags(allOn, nil))
		}
		if err != nil {
			res.AddViolation("crash-or-timeout", fmt.Sprintf("session under configuration failed: %v", err), fmt.Sprintf("channel=%d flags=%s pats=%v", channel, flagBits(fl), pats), false)
			continue
		}
		if skipRule != "" {
			// the rule also holds at event time: opening a file it takes out of the analysis, or a file event about it,
			// must not bring the file (and its diagnostics) in
			var fs []string
			for f := range c17Files {
				if c17Skipped(skipRule, f) {
					fs = append(fs, f)
				}
			}
			sort.Strings(fs)
			for _, f := range fs {
				sess.DidOpen(f, c17Files[f])
				sess.Watched(map[string]int{f: 2})
				sess.Sync()
				res.Dist("e2e.event-on-ignored-file")
			}
		}
		got := c17View(sess)
		sess.Close()
		os.Remove(jsonPath)
		// expected: documented filter of the baseline (decision per (file,type) from the driver's spec answer)
		caseText := fmt.Sprintf("channel=%d flags=%s pats=%v rules=%v analysis-ignore=%q", channel, flagBits(fl), pats, rules, skipRule)
		expect := map[string]bool{}
		specialOff := false
		for _, d := range baseline {
			_, _, shown, so, _, err := ask([][]bool{fl}, pats, filepath.Join(dir, d.file), d.ty)
			if err != nil {
				return err
			}
			specialOff = so
			if shown && len(rules) > 0 {
				// silenced by a per-file type rule (Lean: Conf.fromJson + isIgnored)?
				var parts []string
				for _, ru := range rules {
					m := "0"
					if re, err := regexp.Compile(ru.file); err == nil && re.MatchString(filepath.Join(dir, d.file)) {
						m = "1"
					}
					var ts []string
					for _, t := range ru.types {
						ts = append(ts, fmt.Sprint(t))
					}
					parts = append(parts, lib.Hex([]byte(ru.file))+":"+m+"="+strings.Join(ts, "."))
				}
				ans, err := drv.Ask(fmt.Sprintf("confrules %s %s %d", strings.Join(parts, ";"), lib.Hex([]byte(filepath.Join(dir, d.file))), d.ty))
				if err != nil {
					return err
				}
				if ans == "R ign=1" {
					shown = false
				} else if ans != "R ign=0" {
					return fmt.Errorf("bad driver answer %q to confrules", ans)
				}
			}
			if shown && skipRule != "" && c17Skipped(skipRule, d.file) {
				shown = false // the file is not analysed at all
			}
			if shown {
				expect[d.key] = true
			}
		}
		gotSet := map[string]bool{}
		for _, d := range got {
			gotSet[d.key] = true
		}
		res.Count(caseText, fl[0] && (len(pats) > 0 || strings.Contains(flagBits(fl)[1:22], "0")))
		res.Dist(fmt.Sprintf("e2e.channel%d", channel))
		if i < 3 {
			res.Sample(map[string]interface{}{"config": caseText, "shown": len(got), "baseline": len(baseline)})
		}
		var missing, extra []string
		for k := range expect {
			if !gotSet[k] {
				missing = append(missing, k)
			}
		}
		for k := range gotSet {
			if !expect[k] {
				extra = append(extra, k)
			}
		}
		sort.Strings(missing)
		sort.Strings(extra)
		// (the cross-file pass used to be skipped with the goto-label switch still on, dropping type 9: finding K1,
		// repaired — the gate now lists all six cross-file types, theorem special_gate_harmless)
		if specialOff {
			res.Dist("e2e.specialOff")
		}
		// known class K5: a pattern that matches the *referenced* module other.lua also silences the
		// type-11 diagnostics about it in the referencing files (gate in findTableDefine)
		refIgnored := false
		for _, p := range pats {
			if re, err := regexp.Compile(p); strings.Contains(filepath.Join(dir, "other.lua"), p) || (err == nil && re.MatchString(filepath.Join(dir, "other.lua"))) {
				refIgnored = true
			}
		}
		for _, ru := range rules {
			has11 := false
			for _, t := range ru.types {
				has11 = has11 || t == 11
			}
			if re, err := regexp.Compile(ru.file); has11 && (strings.Contains(filepath.Join(dir, "other.lua"), ru.file) || (err == nil && re.MatchString(filepath.Join(dir, "other.lua")))) {
				refIgnored = true
			}
		}
		if refIgnored {
			var rest []string
			hit := false
			for _, k := range missing {
				if strings.Contains(k, "|11|") {
					hit = true
				} else {
					rest = append(rest, k)
				}
			}
			missing = rest
			if hit {
				res.HitKnown("C17-K5", "an IgnoreFileOrDirError / IgnoreFileErr rule that matches a referenced module also silences the import-member diagnostics (type 11) about that module in the referencing files, which do not match the rule", caseText)
			}
		}
		if len(missing) > 0 || len(extra) > 0 {
			res.AddViolation("impl-vs-spec", fmt.Sprintf("diagnostics under the configuration differ from the documented filter of the all-enabled run: missing %v, extra %v", missing, extra), caseText, false)
		}
	}
	return c17CallParamSwitches(res)
}
