//go:build !race
// +build !race

package main

func raceBuild() bool { return false }
