package main

import (
	"luahelper-lsp/langserver/check/compiler/lexer"
	"fmt"
	"os"
	"strings"
	"unicode/utf8"

	"verifharness/lib"
)

func init() { register("C04", runC04) }

// things that may precede an identifier on its line
var c04Prefixes = []string{
	"", "", "local s = 1 ", "\t", "  \t ", "local s = \"plain\" ", "local s = 'x' ", "f(1, 2) ",
	"local s = \"a\\nb\" ", "local s = \"q\\\"q\" ", "local s = \"\\65\\x41\" ", "local s = '\\\\' ",
	"local s = [[ab]] ", "local s = [==[a]]b]==] ", "--[[c]] ", "--[==[ c ]==] ", "local s = [[l1\nl2]] ",
	"local s = \"中文\" ", "local s = \"€\" ", "local s = \"😀\" ", "local s = \"𝄞x\" ", "local s = \"é\" ", "local s = \"жд\" ",
	"local s = \"中é\" ", "t = { \"a\\tb\", [[x]] } ",
	// near-valid text: characters that start no token, each ended by the space that follows
	"local $ = 1 ", "@ ", "x = 1 ? ", "$$ `q` ", "local s = 1 !\t",
}
var c04LineEnds = []string{"\n", "\n", "\r\n", "\r", "\n\r"}

func genC04Doc(r *lib.Rng) string {
	var sb strings.Builder
	n := 1 + r.Intn(5)
	for i := 0; i < n; i++ {
		sb.WriteString(c04Prefixes[r.Intn(len(c04Prefixes))])
		name := []string{"x", "abc", "v1", "_id", "longer_name"}[r.Intn(5)]
		switch r.Intn(4) {
		case 0:
			sb.WriteString("local " + name + " = 1")
		case 1:
			sb.WriteString(name + " = " + name)
		case 2:
			sb.WriteString("print(" + name + ")")
		default:
			sb.WriteString(name + "(" + name + ", 2)")
		}
		sb.WriteString(c04LineEnds[r.Intn(len(c04LineEnds))])
	}
	return sb.String()
}


var c04Known = map[byte][2]string{
	'E': {"C04-K1", "an identifier that follows, on the same line, a short string containing an escape sequence is reported at columns shifted left (the lexer advances by the UNESCAPED length of the string)"},
	'L': {"C04-K2", "an identifier that follows a long-bracket string or long comment on the same line (or on the line where a multi-line one ends) is reported at columns counted from the end of that construct"},
	'A': {"C04-K3", "an identifier that follows a string with a character outside the BMP on the same line is reported one column to the left per such character (runes are counted, LSP counts UTF-16 units)"},
	'N': {"C04-K4", "an identifier that follows a string with 2-byte UTF-8 characters on the same line may be reported at shifted columns (the string is re-decoded as GBK before its length is taken)"},
	'R': {"C04-K5", "after an LF CR pair the lexer's line numbers are one less than LSP's (it counts LF CR as one line break)"},
}

// utf16Len of a UTF-8 string
func utf16Len(s string) int {
	n := 0
	for _, r := range s {
		if r >= 0x10000 {
			n += 2
		} else {
			n++
		}
	}
	return n
}

func runC04(res *lib.Result, tier string, seed int64, args []string) error {
	nDocs, nProg := 2500, 300
	if tier == "thorough" {
		nDocs, nProg = 200000, 20000
	}
	res.Rule = "documents in which identifiers are placed after arbitrary preceding tokens on the same line (plain / escaped / non-ASCII short strings, long-bracket strings and comments, tabs) with all line endings, plus grammar-derived programs and mutants: (1) real lexer token stream = lexer model (kinds, texts, lines, Locs), (2) for every identifier token the reported (line, start, end) vs the true LSP position of its bytes (S-col), every deviation must fall into a class computed from the line prefix; (3) every Loc in the parser's error list (the type-1 diagnostics) of near-valid programs is well formed (start <= end, line inside the document); (5) end to end on ASCII programs: every range of diagnostics, outline entries (range and selectionRange), definition and references answers lies inside the document; (4) the AST of those programs, with the Loc of every node (declared names, attributes, parameters, member keys), equals the parser model's; non-trivial = an identifier with a non-empty line prefix; distinct by document"
	drv, err := lib.StartDriver()
	if err != nil {
		return err
	}
	defer drv.Close()
	root := lib.NewRng(uint64(seed))
	searchFailing := func(src []byte) {
		// the correspondence is broken: look for a failing input of the property itself — an identifier the REAL lexer
		// places somewhere else than where its bytes are (S-col through the model's token offsets, which need the
		// identifier sequences of both sides to agree)
		implDump, _, _ := lib.LexDump(src)
		var implIds [][2]string // text hex, 0-based "l:sc:l:ec"
		for _, it := range strings.Split(implDump, ";") {
			f := strings.Split(it, ",")
			if len(f) >= 4 && f[0] == fmt.Sprint(int(lexer.TkIdentifier)) {
				var sl, sc, el, ec int
				fmt.Sscanf(f[3], "%d:%d:%d:%d", &sl, &sc, &el, &ec)
				implIds = append(implIds, [2]string{f[1], fmt.Sprintf("%d:%d:%d:%d", sl-1, sc, el-1, ec)})
			}
		}
		if ans, err := drv.Ask(fmt.Sprintf("lexcol %s %s", lib.Hex(src), lib.ConvTableFor(src))); err == nil {
			if k := strings.LastIndex(ans, " P"); k > 0 {
				items := strings.Split(ans[:k], ";")
				if len(items) == len(implIds) {
					for i, it := range items {
						f := strings.Split(it, ",")
						if len(f) != 5 || f[0] != implIds[i][0] {
							break
						}
						sp, cls := strings.TrimPrefix(f[2], "S="), strings.TrimPrefix(f[3], "K=")
						if implIds[i][1] != sp && !strings.ContainsAny(cls, "RN") {
							res.AddViolation("impl-vs-spec", fmt.Sprintf("identifier %q is reported at %s, its bytes are at %s (line-prefix classes %q)", string(lib.UnHex(f[0])), implIds[i][1], sp, cls), fmt.Sprintf("%q", string(src)), false)
							break
						}
					}
				}
			}
		}
	}
	checkDoc := func(kind string, src []byte) error {
		diff, unmod, err := compareLex(drv, src)
		if err != nil {
			return err
		}
		if unmod {
			res.Dist("unmodelled(gbk-or-reentrant)")
		} else if diff != "" {
			res.AddViolation("impl-vs-model", "lexer: "+diff, fmt.Sprintf("%q", string(src)), true)
			searchFailing(src)
			return nil
		}
		ans, err := drv.Ask(fmt.Sprintf("lexcol %s %s", lib.Hex(src), lib.ConvTableFor(src)))
		if err != nil {
			return err
		}
		k := strings.LastIndex(ans, " P")
		if k < 0 {
			return fmt.Errorf("bad driver answer %q", lib.Trunc(ans, 100))
		}
		body := ans[:k]
		nontrivial := false
		if body != "" {
			for _, it := range strings.Split(body, ";") {
				f := strings.Split(it, ",")
				if len(f) != 5 {
					return fmt.Errorf("bad lexcol item %q", it)
				}
				m, s, cls := strings.TrimPrefix(f[1], "M="), strings.TrimPrefix(f[2], "S="), strings.TrimPrefix(f[3], "K=")
				var a, b int
				fmt.Sscanf(strings.TrimPrefix(f[4], "O="), "%d:%d", &a, &b)
				if a > 0 && src[a-1] != '\n' && src[a-1] != '\r' {
					nontrivial = true
				}
				if m == s {
					continue
				}
				caseText := fmt.Sprintf("identifier %q at bytes %d-%d reported at %s, true position %s, line-prefix classes %q in %q", string(lib.UnHex(f[0])), a, b, m, s, cls, string(src))
				hit := false
				for _, letter := range []byte("RN") { // E (escapes), L (long brackets) and A (characters outside the BMP) were repaired: no excuse
					if strings.IndexByte(cls, letter) >= 0 {
						kf := c04Known[letter]
						res.HitKnown(kf[0], kf[1], caseText)
						res.Dist("hit." + kf[0])
						hit = true
						break
					}
				}
				if !hit {
					res.AddViolation("impl-vs-spec", "an identifier is reported at a range that is not where it is, and nothing on its line explains it", caseText, false)
				}
			}
		}
		res.Count(string(src), nontrivial)
		res.Dist(kind)
		return nil
	}
	for i := 0; i < nDocs; i++ {
		r := root.Fork(uint64(i))
		doc := genC04Doc(r)
		if i < 3 {
			res.Sample(map[string]string{"kind": "identifier-after-prefix", "document": doc})
		}
		if err := checkDoc("doc", []byte(doc)); err != nil {
			return err
		}
	}
	// (3) Loc well-formedness on valid programs and mutants
	for i := 0; i < nProg; i++ {
		r := root.Fork(uint64(3000000 + i))
		_, toks := genProgram(r, 3)
		if r.Chance(2, 3) {
			toks, _ = mutateTokens(r, toks)
		}
		if len(toks) == 0 {
			continue
		}
		src := renderTokens(r, toks)
		if i%4 == 1 {
			// an invalid long-string opener on a LATER line (its diagnostic must be on that line, at its column)
			src += "\nlocal zq = 1\n  zq = [=abc\n"
		}
		// (4) every Loc the parser attaches to an AST node (names, parameters, attributes, members) = parser model
		if diff, unmod, _, err := compareParse(drv, []byte(src)); err != nil {
			return err
		} else if !unmod && diff != "" {
			res.AddViolation("impl-vs-model", "parser Locs: "+diff, fmt.Sprintf("%q", src), true)
			searchFailing([]byte(src))
			continue
		}
		dump, _, _ := lib.ParseDump([]byte(src))
		nLines := strings.Count(src, "\n") + strings.Count(src, "\r") + 2
		res.Count(src, true)
		res.Dist("wellformed")
		// only the error list is reported to the client (type-1 diagnostics); AST Locs of empty blocks are
		// inverted by construction (begin = look-ahead, end = previous token) but never leave the server
		errPart := dump
		if i := strings.Index(dump, " ("); i > 0 {
			errPart = dump[:i]
		}
		if bad := badLocs(errPart, nLines); bad != "" {
			// (multi-line tokens and the 'invalid long string delimiter' column used to be excused here; both were repaired)
			res.AddViolation("impl-vs-spec", "ill-formed location in the parser's output: "+bad, fmt.Sprintf("%q", src), false)
		}
	}
	_ = utf8.RuneLen
	return c04E2E(res, tier, root)
}

// (5) end to end: every range the server sends for ASCII programs — diagnostics, outline (range and
// selectionRange), definition, references, highlight — must lie inside the document: line below the
// line count, columns not beyond the end of their line, start not after end
func c04E2E(res *lib.Result, tier string, root *lib.Rng) error {
	n := 60
	if tier == "thorough" {
		n = 1200
	}
	for wi := 0; wi < n; wi++ {
		r := root.Fork(uint64(4400000 + wi))
		var src string
		switch wi % 4 {
		case 0:
			src = genScopeProgram(r)
		case 3:
			src = genC20Program(r) // every pattern diagnostic (their ranges are composed from operand locations)
		default:
			src = genC19File(r, "q") + genC19File(r.Fork(7), "r")
		}
		if wi%3 == 1 {
			// a first line that starts with '#' (skipped by the loader, but a line of the document all the same)
			src = "#!/usr/bin/env lua\n" + src
		}
		// globals defined in a second, longer file and used here: a location of that file must never be
		// reported as a position of this one
		src += "gshared_add(1)\nprint(gshared_counter)\n"
		// members created implicitly by an assignment through undeclared levels: each keeps its own key's place
		src += "local imt = {}\nimt.aa.bb.cc = 2\nprint(imt.aa.bb, imt.aa, imt.aa.bb.cc)\nIMG = {}\nIMG.dd.ee = 1\nprint(IMG.dd, IMG.dd.ee)\n"
		defs := "-- shared definitions\nlocal pad1 = 1\nlocal pad2 = 2\nlocal pad3 = 3\nprint(pad1, pad2, pad3)\n" + strings.Repeat("\n", 40+strings.Count(src, "\n")) + "gshared_counter = 10\nfunction gshared_add(n)\n\tgshared_counter = gshared_counter + n\nend\n"
		// a module that returns an anonymous table, a function that returns one: their members keep their key's place
		src += "local rq = require(\"mod\")\nprint(rq.alpha, rq.beta)\nlocal function mkt()\n    return { inner = 1, other = 2 }\nend\nlocal rr = mkt()\nprint(rr.inner, rr.other)\n"
		// types declared in another file: the definition of a type name in an annotation is a place of that file
		src += "---@type Point\nlocal pt = { px = 1, py = 2 }\n---@param s Shape\n---@param l PointList\nlocal function draw(s, l) print(s.origin.px, l) end\ndraw(nil, { pt })\n"
		// a variable typed by an alias of a table / array type that another file declares: its members are the
		// alias's value type, a place of that other file (it used to be answered with this file's URI: finding K6, repaired)
		src += "---@type PointMap\nlocal pmap = {}\nprint(pmap.somekey)\n"
		// a file that starts with a byte-order mark (which is not part of its text)
		src += "print(gbom, gbom2)\n"
		// files whose names need percent-encoding in a URI (a blank, a literal '%', a non-ASCII character): the URI of an
		// answer must DENOTE the file ("a%41 b.lua" sent raw would denote "aA b.lua")
		src += "print(gpct, gcjk)\n"
		// a key written both as a name and as a string literal
		src += "local cfgq = { inner = 1, [\"port\"] = 80 }\nprint(cfgq.inner, cfgq[\"inner\"], cfgq.port, cfgq['port'])\n"
		// diagnostics whose range is composed from two operand locations (always present, whatever the generator drew)
		src += "local af1, af2 = gshared_counter and false, gshared_counter or true\nif af1 == af1 then print(af2) elseif af1 == af1 then print(1) end\nlocal dk = { k1 = 1, k1 = 2, [1] = 1, [1] = 2 }\nprint(dk)\n"
		files := map[string]string{"main.lua": src, "defs.lua": defs,
			"mod.lua":   "local function helper() end\nreturn { alpha = 1, beta = helper, [\"gamma\"] = 3 }\n",
			"types.lua": "-- types\n--\n--\n---@class Point\n---@field px number\n---@field py number\n\n---@alias PointList Point[]\n---@alias PointMap table<string, Point>\n---@class Shape\n---@field origin Point\nlocal Shape = {}\nreturn Shape\n",
			"bom.lua":   "\xEF\xBB\xBFgbom = 1 gbom2 = 2\nprint(gbom)\n",
			"a%41 b.lua": "gpct = 1\n", "名 字.lua": "gcjk = 2\n"}
		dir := lib.ScratchDir(fmt.Sprintf("c04e%d", wi))
		if err := lib.WriteWorkspace(dir, files); err != nil {
			return err
		}
		sess, err := lib.StartSession(dir, lib.AllChecksOptions())
		if err != nil {
			os.RemoveAll(dir)
			return err
		}
		sess.DidOpen("main.lua", src)
		sess.Sync()
		linesOf := map[string][]string{}
		for f, t := range files {
			linesOf[f] = strings.Split(strings.TrimPrefix(t, "\xEF\xBB\xBF"), "\n")
		}
		lines := linesOf["main.lua"]
		checkIn := func(file, what string, rg lib.Range) {
			lines, ok := linesOf[file]
			bad := ""
			switch {
			case !ok:
				bad = "not a file of the workspace"
			case rg.Start.Line < 0 || rg.End.Line >= len(lines) || rg.Start.Line >= len(lines):
				bad = "line outside the document"
			case rg.Start.Line > rg.End.Line || (rg.Start.Line == rg.End.Line && rg.Start.Character > rg.End.Character):
				bad = "start after end"
			case rg.Start.Character > utf16Len(lines[rg.Start.Line]) || rg.End.Character > utf16Len(lines[rg.End.Line]):
				bad = "column beyond the end of its line"
			}
			res.Evaluations++
			if bad != "" {
				res.AddViolation("impl-vs-spec", fmt.Sprintf("%s: range %s of %s is not inside the document (%s)", what, locOfRange(rg), file, bad), src, false)
			}
		}
		check := func(what string, rg lib.Range) {
			bad := ""
			switch {
			case rg.Start.Line < 0 || rg.End.Line >= len(lines) || rg.Start.Line >= len(lines):
				bad = "line outside the document"
			case rg.Start.Line > rg.End.Line || (rg.Start.Line == rg.End.Line && rg.Start.Character > rg.End.Character):
				bad = "start after end"
			case rg.Start.Character > utf16Len(lines[rg.Start.Line]) || rg.End.Character > utf16Len(lines[rg.End.Line]):
				bad = "column beyond the end of its line"
			}
			res.Evaluations++
			if bad != "" {
				res.AddViolation("impl-vs-spec", fmt.Sprintf("%s: range %s is not inside the document (%s)", what, locOfRange(rg), bad), src, false)
			}
		}
		for _, d := range sess.DiagView()["main.lua"] {
			check("diagnostic "+lib.Trunc(d.Message, 60), d.Range)
		}
		if syms, err := sess.DocumentSymbol("main.lua"); err == nil {
			var flat []flatSym
			flattenSyms(syms, &flat)
			for _, y := range flat {
				check("outline range of "+y.raw, y.rg)
				check("outline selectionRange of "+y.raw, y.sel)
			}
		}
		// the text a one-line range selects
		textIn := func(file string, rg lib.Range) (string, bool) {
			lines, ok := linesOf[file]
			if !ok || rg.Start.Line != rg.End.Line || rg.Start.Line < 0 || rg.Start.Line >= len(lines) {
				return "", false
			}
			l := lines[rg.Start.Line]
			bs, be := byteCol(l, rg.Start.Character), byteCol(l, rg.End.Character)
			if bs < 0 || be < bs {
				return "", false
			}
			return l[bs:be], true
		}
		textAt := func(rg lib.Range) (string, bool) {
			if rg.Start.Line != rg.End.Line || rg.Start.Line < 0 || rg.Start.Line >= len(lines) {
				return "", false
			}
			l := lines[rg.Start.Line]
			bs, be := byteCol(l, rg.Start.Character), byteCol(l, rg.End.Character)
			if bs < 0 || be < bs {
				return "", false
			}
			return l[bs:be], true
		}
		for _, p := range identTokens("main.lua", src) {
			// a member that has no declaration of its own falls back to the variable it is reached through:
			// the names of the access chain to the left of the identifier are acceptable targets too
			okText := map[string]bool{p.name: true, "\"" + p.name + "\"": true, "'" + p.name + "'": true} // t.k is also written t["k"]
			okRef := map[string]bool{p.name: true, "\"" + p.name + "\"": true, "'" + p.name + "'": true}  // occurrences (references, highlight): no fall-back
			{
				l := lines[p.line]
				i := p.bcol
				for i > 0 && (l[i-1] == '.' || l[i-1] == ':' || l[i-1] == '_' || l[i-1] == '[' || l[i-1] == ']' || l[i-1] == '"' || l[i-1] == '\'' || (l[i-1] >= 'a' && l[i-1] <= 'z') || (l[i-1] >= 'A' && l[i-1] <= 'Z') || (l[i-1] >= '0' && l[i-1] <= '9')) {
					i--
				}
				for _, part := range strings.FieldsFunc(l[i:p.bcol], func(c rune) bool { return c == '.' || c == ':' || c == '[' || c == ']' || c == '"' || c == '\'' }) {
					okText[part] = true
				}
			}
			// a key of a table constructor without a declaration of its own falls back to the variable the
			// table is assigned to: the identifiers to its left on the same line
			if rest := strings.TrimLeft(lines[p.line][p.bcol+len(p.name):], " "); strings.HasPrefix(rest, "=") && !strings.HasPrefix(rest, "==") {
				for _, q := range identTokens("main.lua", lines[p.line][:p.bcol]) {
					okText[q.name] = true
				}
			}
			if locs, err := sess.Definition("main.lua", p.line, p.col); err == nil {
				for _, l := range locs {
					if f := sess.Rel(l.URI); f != "main.lua" {
						// a place of another file: inside that file, and on the identifier (a module name leads to the start of its file)
						checkIn(f, fmt.Sprintf("definition of %s at %d:%d", p.name, p.line, p.col), l.Range)
						if t, ok := textIn(f, l.Range); ok && !okText[t] && !(p.name == "mod" && l.Range.Start.Line == 0) && !strings.Contains(lines[p.line][:p.bcol], "require") &&
							!(p.name == "somekey" && f == "types.lua" && t == "Point") { // a key of a map typed by an alias leads to the alias's value type, in the file that declares it
							res.AddViolation("impl-vs-spec", fmt.Sprintf("definition of %s at %d:%d: the range %s of %s selects %q, not the identifier", p.name, p.line, p.col, locOfRange(l.Range), f, t), src, false)
						}
					}
					if sess.Rel(l.URI) == "main.lua" {
						check(fmt.Sprintf("definition of %s at %d:%d", p.name, p.line, p.col), l.Range)
						// the declaration of an identifier is an occurrence of that identifier
						if t, ok := textAt(l.Range); ok && p.name != "self" && !okText["self"] && !okText[t] {
							res.AddViolation("impl-vs-spec", fmt.Sprintf("definition of %s at %d:%d: the range %s selects %q, not the identifier", p.name, p.line, p.col, locOfRange(l.Range), t), src, false)
						}
					}
				}
			}
			if hls, err := sess.Highlight("main.lua", p.line, p.col); err == nil {
				for _, h := range hls {
					check(fmt.Sprintf("highlight of %s at %d:%d", p.name, p.line, p.col), h)
					if t, ok := textAt(h); ok && p.name != "self" && !okText["self"] && !okRef[t] && t != "self" {
						res.AddViolation("impl-vs-spec", fmt.Sprintf("highlight of %s at %d:%d: the range %s selects %q, not the identifier", p.name, p.line, p.col, locOfRange(h), t), src, false)
					}
				}
			}
			if locs, err := sess.References("main.lua", p.line, p.col, true); err == nil {
				for _, l := range locs {
					if f := sess.Rel(l.URI); f != "main.lua" {
						checkIn(f, fmt.Sprintf("reference of %s at %d:%d", p.name, p.line, p.col), l.Range)
						if t, ok := textIn(f, l.Range); ok && !okRef[t] {
							res.AddViolation("impl-vs-spec", fmt.Sprintf("reference of %s at %d:%d: the range %s of %s selects %q, not the identifier", p.name, p.line, p.col, locOfRange(l.Range), f, t), src, false)
						}
					}
					if sess.Rel(l.URI) == "main.lua" {
						check(fmt.Sprintf("reference of %s at %d:%d", p.name, p.line, p.col), l.Range)
						if t, ok := textAt(l.Range); ok && p.name != "self" && !okText["self"] && !okRef[t] && t != "self" {
							res.AddViolation("impl-vs-spec", fmt.Sprintf("reference of %s at %d:%d: the range %s selects %q, not the identifier", p.name, p.line, p.col, locOfRange(l.Range), t), src, false)
						}
					}
				}
			}
			// rename: every edit replaces exactly an occurrence spelled like the identifier (a key written as a string
			// literal, t["k"], is listed by references with its quotes and must not be rewritten)
			if p.name != "self" {
				if ch, err := sess.Rename("main.lua", p.line, p.col, "zzRenamed"); err == nil {
					for uri, es := range ch {
						f := sess.Rel(uri)
						for _, e := range es {
							checkIn(f, fmt.Sprintf("rename edit for %s at %d:%d", p.name, p.line, p.col), e.Range)
							if t, ok := textIn(f, e.Range); ok && t != p.name {
								res.AddViolation("impl-vs-spec", fmt.Sprintf("rename of %s at %d:%d: the edit %s of %s replaces %q, not the identifier", p.name, p.line, p.col, locOfRange(e.Range), f, t), src, false)
							}
						}
					}
				}
			}
		}
		// type names inside annotation comments
		for ln, l := range lines {
			if !strings.HasPrefix(l, "---@type ") && !strings.HasPrefix(l, "---@param ") {
				continue
			}
			col := strings.LastIndex(l, " ") + 1
			name := l[col:]
			if locs, err := sess.Definition("main.lua", ln, col+1); err == nil {
				for _, loc := range locs {
					f := sess.Rel(loc.URI)
					checkIn(f, fmt.Sprintf("definition of the type %s at %d:%d", name, ln, col+1), loc.Range)
					if t, ok := textIn(f, loc.Range); ok && t != name {
						res.AddViolation("impl-vs-spec", fmt.Sprintf("definition of the type %s at %d:%d: the range %s of %s selects %q, not the type name", name, ln, col+1, locOfRange(loc.Range), f, t), src, false)
					}
				}
			}
		}
		res.Count("e2e|"+src, true)
		res.Dist("e2e.ranges")
		sess.Close()
		os.RemoveAll(dir)
	}
	return nil
}

// badLocs scans "a:b:c:d" quadruples of a parse dump and returns the first ill-formed one.
func badLocs(dump string, nLines int) string {
	f := strings.FieldsFunc(dump, func(r rune) bool { return r == ' ' || r == '(' || r == ')' || r == '[' || r == ']' || r == '/' || r == '@' })
	for _, t := range f {
		var a, b, c, d int
		if n, _ := fmt.Sscanf(t, "%d:%d:%d:%d", &a, &b, &c, &d); n != 4 || strings.Count(t, ":") != 3 {
			continue
		}
		if a == 0 && b == 0 && c == 0 && d == 0 {
			continue // the zero Loc of synthesised nodes
		}
		if a < 1 || c < a || (a == c && d < b) || b < 0 || d < 0 || c > nLines {
			return t
		}
	}
	return ""
}
