package main

import (
	"path/filepath"
	"fmt"
	"os"
	"strings"
	"unicode/utf8"

	"verifharness/lib"

	"luahelper-lsp/langserver/lspcommon"
	lsp "luahelper-lsp/langserver/protocol"
)

func init() { register("C02", runC02) }

// ---- client-side text model (the harness' own ground truth: what the editor holds) ----

// a document is a list of "characters" as an editor sees them: one code point, or one line end.
type cch struct {
	b     string // bytes
	units int    // UTF-16 units
	eol   bool
}

func splitChars(doc string) []cch {
	var out []cch
	for i := 0; i < len(doc); {
		switch {
		case doc[i] == '\r' && i+1 < len(doc) && doc[i+1] == '\n':
			out = append(out, cch{"\r\n", 1, true})
			i += 2
		case doc[i] == '\r' || doc[i] == '\n':
			out = append(out, cch{doc[i : i+1], 1, true})
			i++
		default:
			r, n := utf8.DecodeRuneInString(doc[i:])
			u := 1
			if r >= 0x10000 {
				u = 2
			}
			out = append(out, cch{doc[i : i+n], u, false})
			i += n
		}
	}
	return out
}

// posOfIndex: LSP position of the point before character k.
func posOfIndex(cs []cch, k int) lib.Pos {
	line, col := 0, 0
	for i := 0; i < k; i++ {
		if cs[i].eol {
			line++
			col = 0
		} else {
			col += cs[i].units
		}
	}
	return lib.Pos{Line: line, Character: col}
}

func byteOfIndex(cs []cch, k int) int {
	n := 0
	for i := 0; i < k; i++ {
		n += len(cs[i].b)
	}
	return n
}

var c02Alphabet = []struct {
	s string
	w int
}{
	{"a", 6}, {"b", 3}, {" ", 3}, {"\t", 1}, {"x", 2}, {"=", 1}, {"1", 1},
	{"é", 3}, {"ж", 1}, {"中", 3}, {"€", 1}, {"क", 2}, {"😀", 3}, {"𝄞", 1}, // क = E0 A4 95: the smallest three-byte lead
	{"\n", 6}, {"\r\n", 3}, {"\r", 2},
}

func genText(r *lib.Rng, maxChars int, profile int) string {
	// profile 0: full alphabet; 1: no astral / lone CR (the class-free region); 2: ASCII+LF only
	n := r.Intn(maxChars + 1)
	var sb strings.Builder
	total := 0
	for _, a := range c02Alphabet {
		total += a.w
	}
	for i := 0; i < n; i++ {
		for {
			k := r.Intn(total)
			var s string
			for _, a := range c02Alphabet {
				if k < a.w {
					s = a.s
					break
				}
				k -= a.w
			}
			if profile >= 1 && (s == "😀" || s == "𝄞" || s == "\r") {
				continue
			}
			if profile == 2 && len(s) > 1 {
				continue
			}
			sb.WriteString(s)
			break
		}
	}
	return sb.String()
}

type c02Op struct {
	kind    byte // o c s x
	uri     int
	text    string
	changes []c02Change
}
type c02Change struct {
	full           bool
	sl, sc, el, ec int
	text           string
	// the deprecated rangeLength member some clients still send along with the range: the length of the replaced text
	// in UTF-16 code units (0 = not sent); it carries no information the range does not, and must not change the result
	rlen int
}

func (c c02Change) enc() string {
	if c.full {
		return "f:" + lib.Hex([]byte(c.text))
	}
	return fmt.Sprintf("r:%d:%d:%d:%d:%s", c.sl, c.sc, c.el, c.ec, lib.Hex([]byte(c.text)))
}
func (o c02Op) enc() string {
	switch o.kind {
	case 'o', 's':
		return fmt.Sprintf("%c,%d,%s", o.kind, o.uri, lib.Hex([]byte(o.text)))
	case 'x':
		return fmt.Sprintf("x,%d", o.uri)
	}
	var cs []string
	for _, c := range o.changes {
		cs = append(cs, c.enc())
	}
	return fmt.Sprintf("c,%d,%s", o.uri, strings.Join(cs, "/"))
}

// genHistory builds a conformant history and the client's text after every op.
func genHistory(r *lib.Rng, res *lib.Result) (ops []c02Op, client []map[int]string) {
	profile := r.Intn(3)
	res.Dist(fmt.Sprintf("profile%d", profile))
	docs := map[int]string{}
	base := map[int]string{} // the text of the document when it was opened / last saved (what an undo goes back to)
	nops := 2 + r.Intn(11)
	nuri := 1 + r.Intn(2)
	for i := 0; i < nops; i++ {
		u := r.Intn(nuri)
		cur, open := docs[u]
		var op c02Op
		switch {
		case !open:
			op = c02Op{kind: 'o', uri: u, text: genText(r, 30, profile)}
			docs[u] = op.text
			base[u] = op.text
		default:
			k := r.Intn(20)
			switch {
			case k < 1:
				op = c02Op{kind: 'x', uri: u}
				delete(docs, u)
			case k < 3:
				op = c02Op{kind: 's', uri: u, text: cur}
				base[u] = cur
			default:
				nch := 1
				if r.Chance(1, 4) {
					nch = 2 + r.Intn(2)
				}
				op = c02Op{kind: 'c', uri: u}
				for j := 0; j < nch; j++ {
					var ch c02Change
					if cur != base[u] && r.Chance(1, 5) {
						// undo everything since the document was opened / saved: the text is the saved text again (the
						// file on disk, when the editor wrote it), and further edits follow
						ch = c02Change{full: true, text: base[u]}
						cur = ch.text
						res.Dist("change.back-to-saved-text")
					} else if r.Chance(1, 12) {
						ch = c02Change{full: true, text: genText(r, 30, profile)}
						cur = ch.text
						res.Dist("change.full")
					} else {
						cs := splitChars(cur)
						a := r.Intn(len(cs) + 1)
						b := a
						switch r.Intn(4) {
						case 0: // insert
						case 1:
							b = a + r.Intn(len(cs)-a+1)
						case 2:
							if a < len(cs) {
								b = a + 1
							}
						case 3: // at EOF
							if r.Chance(1, 2) {
								a, b = len(cs), len(cs)
							}
						}
						sp, ep := posOfIndex(cs, a), posOfIndex(cs, b)
						txt := genText(r, 6, profile)
						// beyond end of line: only meaningful when the point is at an end of line / EOF
						if r.Chance(1, 15) && (b == len(cs) || cs[b].eol) && profile != 1 {
							ep.Character += 1 + r.Intn(3)
							if a == b {
								sp = ep
							}
							res.Dist("change.beyondEOL")
						}
						ch = c02Change{sl: sp.Line, sc: sp.Character, el: ep.Line, ec: ep.Character, text: txt}
						if (a+len(ops))%2 == 0 {
							for _, x := range cs[a:b] {
								if x.eol {
									ch.rlen += len(x.b)
								} else {
									ch.rlen += x.units
								}
							}
							if ch.rlen > 0 {
								res.Dist("change.with-rangeLength")
							}
						}
						sa, sb := byteOfIndex(cs, a), byteOfIndex(cs, b)
						cur = cur[:sa] + txt + cur[sb:]
						if a == b {
							res.Dist("change.insert")
						} else if txt == "" {
							res.Dist("change.delete")
						} else {
							res.Dist("change.replace")
						}
					}
					op.changes = append(op.changes, ch)
				}
				docs[u] = cur
			}
		}
		ops = append(ops, op)
		snap := map[int]string{}
		for k, v := range docs {
			snap[k] = v
		}
		client = append(client, snap)
	}
	return
}

func showCacheGo(m map[int]string) string {
	var parts []string
	for u := 0; u < 4; u++ {
		if t, ok := m[u]; ok {
			parts = append(parts, fmt.Sprintf("%d=%s", u, lib.Hex([]byte(t))))
		}
	}
	return strings.Join(parts, ",")
}

var c02KnownByLetter = map[byte][2]string{
	'A': {"C02-K1", "a character outside the BMP (2 UTF-16 units) before the position on its line is counted as 1: the edit is applied one column off or rejected and the server keeps stale text"},
	'C': {"C02-K2", "a lone CR is not treated as a line end: positions on later lines are rejected and the server keeps stale text"},
	'B': {"C02-K3", "a character value beyond the end of the line is rejected instead of clamped to the line end: the edit is dropped and the server keeps stale text"},
}

func parseHistAnswer(ans string) (m, s, k []string, err error) {
	for _, part := range strings.Split(ans, ";") {
		var pm, ps, pk string
		if !strings.HasPrefix(part, "M[") {
			return nil, nil, nil, fmt.Errorf("bad driver answer %q", lib.Trunc(ans, 200))
		}
		i := strings.Index(part, "] S[")
		j := strings.Index(part, "] K[")
		if i < 0 || j < 0 {
			return nil, nil, nil, fmt.Errorf("bad driver answer %q", lib.Trunc(ans, 200))
		}
		pm = part[2:i]
		ps = part[i+4 : j]
		pk = strings.TrimSuffix(part[j+4:], "]")
		m = append(m, pm)
		s = append(s, ps)
		k = append(k, pk)
	}
	return
}

func runC02(res *lib.Result, tier string, seed int64, args []string) error {
	nUnit, nHist, nE2E := 4000, 3000, 150
	if tier == "thorough" {
		nUnit, nHist, nE2E = 300000, 150000, 4000
	}
	res.Rule = "unit: random (document, start, end) incl. raw bytes through the real offsetForStartAndEnd vs model; " +
		"histories: conformant open/change(batch)/save/close sequences over {ASCII,2,3,4-byte,LF,CRLF,CR} through the real ApplyContentChanges (unit) " +
		"and the real jrpc2 server (e2e, cached text read through the verif hook after every notification) vs model and vs the client's own text; " +
		"non-trivial = a history in which at least one ranged change was applied; distinct by canonical op encoding"
	drv, err := lib.StartDriver()
	if err != nil {
		return err
	}
	defer drv.Close()
	root := lib.NewRng(uint64(seed))

	// ---------- unit: offsetForStartAndEnd ----------
	for i := 0; i < nUnit; i++ {
		r := root.Fork(uint64(i))
		var doc []byte
		if r.Chance(1, 5) {
			n := r.Intn(12)
			for j := 0; j < n; j++ {
				doc = append(doc, []byte{0x61, 0x0a, 0x0d, 0x80, 0xbf, 0xc3, 0xe4, 0xf0, 0xf8, 0xff, 0xa9, 0x20}[r.Intn(12)])
			}
			res.Dist("unit.rawbytes")
		} else {
			doc = []byte(genText(r, 14, r.Intn(3)))
			res.Dist("unit.text")
		}
		sl, sc := r.Intn(4), r.Intn(8)
		el, ec := sl, sc+r.Intn(4)
		if r.Chance(1, 3) {
			el, ec = sl+r.Intn(3), r.Intn(8)
		}
		s, e, ierr := lspcommon.VerifOffsetForStartAndEnd(doc, lsp.Position{Line: uint32(sl), Character: uint32(sc)}, lsp.Position{Line: uint32(el), Character: uint32(ec)})
		impl := "err"
		if ierr == nil {
			impl = fmt.Sprintf("ok %d %d", s, e)
		}
		line := fmt.Sprintf("off2 %s %d %d %d %d", lib.Hex(doc), sl, sc, el, ec)
		ans, err := drv.Ask(line)
		if err != nil {
			return err
		}
		// "M <..> S <..> K[..]"
		mi := strings.Index(ans, " S ")
		if !strings.HasPrefix(ans, "M ") || mi < 0 {
			return fmt.Errorf("bad driver answer %q", ans)
		}
		model := ans[2:mi]
		res.Count(line, ierr == nil)
		if impl != model {
			res.AddViolation("impl-vs-model", fmt.Sprintf("offsetForStartAndEnd: implementation %q, model %q (correspondence LuaHelper.Text.offsetForStartAndEnd broken)", impl, model), line, true)
		}
		if i < 2 {
			res.Sample(map[string]string{"op": line, "impl": impl, "driver": ans})
		}
	}

	// ---------- histories: unit (real ApplyContentChanges) ----------
	fmc := lspcommon.CreateFileMapCache()
	applyReal := func(doc string, chs []c02Change) (string, bool) {
		var evs []lsp.TextDocumentContentChangeEvent
		for _, c := range chs {
			if c.full {
				evs = append(evs, lsp.TextDocumentContentChangeEvent{Text: c.text})
			} else {
				evs = append(evs, lsp.TextDocumentContentChangeEvent{Range: &lsp.Range{
					Start: lsp.Position{Line: uint32(c.sl), Character: uint32(c.sc)},
					End:   lsp.Position{Line: uint32(c.el), Character: uint32(c.ec)}}, RangeLength: uint32(c.rlen), Text: c.text})
			}
		}
		out, err := fmc.ApplyContentChanges("f.lua", []byte(doc), evs)
		if err != nil {
			return doc, false
		}
		return string(out), true
	}

	judge := func(mode string, ops []c02Op, client []map[int]string, impl []string) error {
		var enc []string
		for _, o := range ops {
			enc = append(enc, o.enc())
		}
		line := "hist " + strings.Join(enc, ";")
		ans, err := drv.Ask(line)
		if err != nil {
			return err
		}
		m, s, k, err := parseHistAnswer(ans)
		if err != nil {
			return err
		}
		if len(m) != len(ops) {
			return fmt.Errorf("driver answered %d steps for %d ops", len(m), len(ops))
		}
		nontrivial := false
		for _, o := range ops {
			if o.kind == 'c' {
				for _, c := range o.changes {
					if !c.full {
						nontrivial = true
					}
				}
			}
		}
		res.Count(line, nontrivial)
		if res.Evaluations%500 == 3 {
			res.Sample(map[string]string{"mode": mode, "history": lib.Trunc(line, 600)})
		}
		stale := false
		for i := range ops {
			cl := showCacheGo(client[i])
			if !stale && s[i] != cl {
				// the Lean spec and the harness' editor model disagree: an error of the machinery, not of LuaHelper
				return fmt.Errorf("spec S-lsp and the harness client model disagree at op %d of %q: spec %q client %q", i, lib.Trunc(line, 300), s[i], cl)
			}
			if impl[i] != m[i] {
				// correspondence broken; does the implementation also violate the property here?
				failing := !stale && impl[i] != cl && k[i] == ""
				detail := fmt.Sprintf("%s: after op %d (%s) the server holds %q, the model predicts %q, the client holds %q, finding classes %q", mode, i, ops[i].enc(), impl[i], m[i], cl, k[i])
				res.AddViolation("impl-vs-model", detail, line, !failing)
				return nil
			}
			if !stale && m[i] != cl {
				// model = impl ≠ client text: must be inside a known class
				if k[i] == "" || strings.Trim(k[i], "ACB") != "" && strings.Trim(k[i], "NPXU") == "" {
					if strings.ContainsAny(k[i], "NPXU") {
						return fmt.Errorf("generator produced a non-conformant change (classes %q) in %q", k[i], lib.Trunc(line, 300))
					}
					res.AddViolation("impl-vs-spec", fmt.Sprintf("%s: after op %d (%s) the server holds %q but the client holds %q and no known-finding class applies", mode, i, ops[i].enc(), impl[i], cl), line, false)
					return nil
				}
				for _, letter := range []byte("ACB") {
					if strings.IndexByte(k[i], letter) >= 0 {
						kf := c02KnownByLetter[letter]
						res.HitKnown(kf[0], kf[1], line)
						res.Dist("hit." + kf[0])
						break
					}
				}
				stale = true
			}
		}
		if stale {
			res.Dist("history.stale")
		} else {
			res.Dist("history.clean")
		}
		return nil
	}

	runUnit := func(ops []c02Op, client []map[int]string) error {
		cache := map[int]string{}
		var impl []string
		for _, o := range ops {
			switch o.kind {
			case 'o', 's':
				cache[o.uri] = o.text
			case 'x':
				delete(cache, o.uri)
			case 'c':
				if d, ok := applyReal(cache[o.uri], o.changes); ok {
					cache[o.uri] = d
				}
			}
			impl = append(impl, showCacheGo(cache))
		}
		return judge("unit", ops, client, impl)
	}
	// corpus first: canonical replays of the known findings and minimised past disagreements
	for _, line := range lib.CorpusLines("C02") {
		ops, client, err := parseC02Hist(line)
		if err != nil {
			return fmt.Errorf("corpus: %v", err)
		}
		res.Dist("corpus")
		if err := runUnit(ops, client); err != nil {
			return err
		}
	}
	for i := 0; i < nHist; i++ {
		r := root.Fork(uint64(1000000 + i))
		ops, client := genHistory(r, res)
		if err := runUnit(ops, client); err != nil {
			return err
		}
	}

	// ---------- histories: end to end through the real server ----------
	dir := lib.ScratchDir("c02")
	defer os.RemoveAll(dir)
	if err := lib.WriteWorkspace(dir, map[string]string{"main.lua": "local a = 1\nreturn a\n"}); err != nil {
		return err
	}
	for i := 0; i < nE2E; i++ {
		r := root.Fork(uint64(2000000 + i))
		ops, client := genHistory(r, res)
		sess, err := lib.StartSession(dir, nil)
		if err != nil {
			return err
		}
		var impl []string
		failed := false
		for _, o := range ops {
			rel := c02DocName(o.uri)
			switch o.kind {
			case 'o':
				// what is on disk is not what the client holds (stale content, a BOM, other line ends): the
				// client's text is authoritative from didOpen on, also at didSave
				switch r.Intn(4) {
				case 0:
					os.WriteFile(filepath.Join(dir, rel), []byte("\xEF\xBB\xBF"+o.text), 0o644)
				case 1:
					os.WriteFile(filepath.Join(dir, rel), []byte("-- stale on disk\r\n"), 0o644)
				case 2:
					os.Remove(filepath.Join(dir, rel))
				default:
					// the file as the client read it; a change on disk that happens while the server runs is announced
					// by the client's file watcher before anything else
					typ := 2
					if _, statErr := os.Stat(filepath.Join(dir, rel)); statErr != nil {
						typ = 1
					}
					os.WriteFile(filepath.Join(dir, rel), []byte(o.text), 0o644)
					sess.Watched(map[string]int{rel: typ})
					sess.Sync()
				}
				err = sess.DidOpen(rel, o.text)
			case 's':
				// the editor writes the buffer, then tells the server; a file kept in "UTF-8 with BOM" starts with the
				// mark on disk, which is not part of the text the client holds
				if r.Intn(3) == 0 {
					os.WriteFile(filepath.Join(dir, rel), []byte("\xEF\xBB\xBF"+o.text), 0o644)
				} else {
					os.WriteFile(filepath.Join(dir, rel), []byte(o.text), 0o644)
				}
				err = sess.DidSave(rel, o.text)
			case 'x':
				err = sess.DidClose(rel)
			case 'c':
				var chs []lib.ContentChange
				for _, c := range o.changes {
					if c.full {
						chs = append(chs, lib.ContentChange{Text: c.text})
					} else {
						chs = append(chs, lib.ContentChange{Range: &lib.Range{Start: lib.Pos{Line: c.sl, Character: c.sc}, End: lib.Pos{Line: c.el, Character: c.ec}}, RangeLength: c.rlen, Text: c.text})
					}
				}
				err = sess.DidChange(rel, chs)
			}
			if err == nil {
				err = sess.Sync()
			}
			if err != nil {
				var enc []string
				for _, o := range ops {
					enc = append(enc, o.enc())
				}
				res.AddViolation("crash-or-timeout", fmt.Sprintf("e2e: %v at op %s", err, o.enc()), "hist "+strings.Join(enc, ";"), false)
				failed = true
				break
			}
			cur := map[int]string{}
			for u := 0; u < 3; u++ {
				if t, ok := sess.CachedText(c02DocName(u)); ok {
					cur[u] = string(t)
				}
			}
			impl = append(impl, showCacheGo(cur))
			// the text the server ANALYSES for an open document (hook VerifAnalysedText: the text the file struct
			// that requests are answered from was analysed from) is the text it holds for it. A buffer with syntax errors
			// is not analysed further (its errors are shown, requests keep the last good analysis).
			for u, held := range cur {
				rel := c02DocName(u)
				if _, nerr, _ := lib.ParseDump([]byte(held)); nerr > 0 {
					continue
				}
				contents, found := sess.AnalysedText(rel)
				if !found {
					continue
				}
				res.Evaluations++
				analysed := strings.TrimPrefix(string(contents), "\xEF\xBB\xBF")
				if analysed != held {
					var enc []string
					for _, o2 := range ops {
						enc = append(enc, o2.enc())
					}
					res.AddViolation("impl-vs-spec", fmt.Sprintf("e2e: after op %s the server holds %q for %s but the analysis its requests are answered from was made of %q", o.enc(), held, rel, analysed), "hist "+strings.Join(enc, ";"), false)
					failed = true
					break
				}
			}
			if failed {
				break
			}
		}
		sess.Close()
		if failed {
			continue
		}
		if err := judge("e2e", ops, client, impl); err != nil {
			return err
		}
	}
	res.Extra["driver_ops"] = drv.N
	return nil
}

// c02DocName: the three documents of a history; their names carry characters that are literal in the path of a
// URI ('+' is not a space there, '@', '~', ',' need no escaping)
func c02DocName(u int) string {
	return []string{"doc0.lua", "a+b1.lua", "c@d~2,x.lua"}[u%3]
}

// parseC02Hist reads a "hist …" line back into ops and recomputes the client's text with the
// harness' editor model (positions resolved with clamping, as an editor would).
func parseC02Hist(line string) (ops []c02Op, client []map[int]string, err error) {
	line = strings.TrimPrefix(strings.TrimSpace(line), "hist ")
	docs := map[int]string{}
	for _, part := range strings.Split(line, ";") {
		f := strings.Split(part, ",")
		var op c02Op
		if len(f) < 2 {
			return nil, nil, fmt.Errorf("bad op %q", part)
		}
		fmt.Sscanf(f[1], "%d", &op.uri)
		op.kind = f[0][0]
		switch op.kind {
		case 'o', 's':
			op.text = string(lib.UnHex(f[2]))
			docs[op.uri] = op.text
		case 'x':
			delete(docs, op.uri)
		case 'c':
			cur := docs[op.uri]
			for _, cs := range strings.Split(f[2], "/") {
				g := strings.Split(cs, ":")
				var ch c02Change
				if g[0] == "f" {
					ch = c02Change{full: true, text: string(lib.UnHex(g[1]))}
					cur = ch.text
				} else {
					fmt.Sscanf(g[1], "%d", &ch.sl)
					fmt.Sscanf(g[2], "%d", &ch.sc)
					fmt.Sscanf(g[3], "%d", &ch.el)
					fmt.Sscanf(g[4], "%d", &ch.ec)
					ch.text = string(lib.UnHex(g[5]))
					chars := splitChars(cur)
					a, b := indexOfPos(chars, ch.sl, ch.sc), indexOfPos(chars, ch.el, ch.ec)
					cur = cur[:byteOfIndex(chars, a)] + ch.text + cur[byteOfIndex(chars, b):]
				}
				op.changes = append(op.changes, ch)
			}
			docs[op.uri] = cur
		}
		ops = append(ops, op)
		snap := map[int]string{}
		for k, v := range docs {
			snap[k] = v
		}
		client = append(client, snap)
	}
	return
}

// indexOfPos: character index of an LSP position, clamping the character to the line length.
func indexOfPos(cs []cch, line, ch int) int {
	l, c := 0, 0
	for i := 0; i < len(cs); i++ {
		if l == line {
			if cs[i].eol || c >= ch {
				return i
			}
			c += cs[i].units
		} else if cs[i].eol {
			l++
		}
	}
	return len(cs)
}
