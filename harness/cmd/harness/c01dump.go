package main

import (
	"fmt"
	"os"
	"path/filepath"

	"verifharness/lib"
)

func init() { register("C01dump", runC01Dump) }

// C01dump writes the workspace of scenario C01_IDX to C01_DIR (replay helper).
func runC01Dump(res *lib.Result, tier string, seed int64, args []string) error {
	var idx int
	fmt.Sscanf(os.Getenv("C01_IDX"), "%d", &idx)
	sc := genC01Scenario(seed, idx)
	dir := os.Getenv("C01_DIR")
	for f, t := range sc.files {
		p := filepath.Join(dir, f)
		os.MkdirAll(filepath.Dir(p), 0o755)
		os.WriteFile(p, []byte(t), 0o644)
	}
	for i, e := range sc.edits {
		os.WriteFile(filepath.Join(dir, fmt.Sprintf("edit%d.txt", i+1)), []byte(e), 0o644)
	}
	fmt.Println(sc.kind, len(sc.files), "files")
	return nil
}
