package main

import (
	"runtime"
	"fmt"
	"os"
	"sort"
	"strings"

	"verifharness/lib"
)

func init() { register("C06", runC06) }

func occLoc(o scopeOcc) string { return fmt.Sprintf("%d:%d:%d:%d", o.sl, o.sc, o.el, o.ec) }

// refsBy: the occurrences whose binding (selected by pick) equals target ("G" = the global of that name)
func refsBy(occs []scopeOcc, name, target string, pick func(scopeOcc) string) []string {
	var out []string
	for _, x := range occs {
		if x.name == name && pick(x) == target {
			out = append(out, occLoc(x))
		}
	}
	sort.Strings(out)
	return out
}

// scopeProgram prepares one generated program: driver occurrences + a live session with the file open.
func scopeProgram(drv *lib.Driver, dir, src string) ([]scopeOcc, *lib.Session, error) {
	ans, err := drv.Ask(fmt.Sprintf("scope %s %s", lib.Hex([]byte(src)), lib.ConvTableFor([]byte(src))))
	if err != nil {
		return nil, nil, err
	}
	if strings.HasPrefix(ans, "ERR") {
		return nil, nil, fmt.Errorf("generator produced a program with syntax errors (%s):\n%s", ans, src)
	}
	occs, err := parseScopeAnswer(ans)
	if err != nil {
		return nil, nil, err
	}
	if err := lib.WriteWorkspace(dir, map[string]string{"main.lua": src}); err != nil {
		return nil, nil, err
	}
	sess, err := lib.StartSession(dir, lib.AllChecksOptions())
	if err != nil {
		return nil, nil, err
	}
	sess.DidOpen("main.lua", src)
	sess.Sync()
	return occs, sess, nil
}

// a table with methods: implicit self, explicit parameters, calls through ':' and '.'
const scopeMethodBlock = "local mt = {}\nfunction mt:m1(p, p2)\n  return self, p, p2, mt\nend\nfunction mt.m2(q)\n  return mt:m1(q, q)\nend\nprint(mt, mt.m2)\n"

// properties whose programs are also laid out with several statements / blocks on one line
var scopeCompactProps = map[string]bool{"C06": true, "C11": true, "C12": true}

// compactLayout joins randomly chosen adjacent lines with a space (every statement of the generator starts
// with a name or a keyword, so the program stays valid): sibling scopes then share a line.
func compactLayout(r *lib.Rng, src string, oneLine bool) string {
	lines := strings.Split(strings.TrimSuffix(src, "\n"), "\n")
	var sb strings.Builder
	for i, l := range lines {
		if i == 0 {
			sb.WriteString(l)
			continue
		}
		if oneLine || r.Chance(3, 5) {
			sb.WriteString(" " + strings.TrimLeft(l, " "))
		} else {
			sb.WriteString("\n" + l)
		}
	}
	return sb.String() + "\n"
}

func scopePrograms(root *lib.Rng, prop string, n int) []string {
	var progs []string
	for _, l := range lib.CorpusLines(prop) {
		progs = append(progs, strings.ReplaceAll(l, "\\n", "\n"))
	}
	for i := 0; i < n; i++ {
		src := genScopeProgram(root.Fork(uint64(i)))
		if scopeCompactProps[prop] && i%4 == 3 {
			src = compactLayout(root.Fork(uint64(5000000+i)), src, i%8 == 7)
		}
		progs = append(progs, src)
	}
	return progs
}

func runC06(res *lib.Result, tier string, seed int64, args []string) error {
	nProg := 100
	if tier == "thorough" {
		nProg = 5000
	}
	res.Rule = "generated programs as in C05; for EVERY identifier occurrence the real server's textDocument/references (includeDeclaration) vs the model {o' | traversal-binding(o') = position-based-definition(o)} and vs the spec {o' | S-bind(o') = S-bind(o)}; non-trivial = the queried occurrence is bound to a local with at least two occurrences; distinct by (program, position)"
	drv, err := lib.StartDriver()
	if err != nil {
		return err
	}
	defer drv.Close()
	dir := lib.ScratchDir("c06")
	defer os.RemoveAll(dir)
	root := lib.NewRng(uint64(seed))
	for pi, src := range scopePrograms(root, "C06", nProg) {
		occs, sess, err := scopeProgram(drv, dir, src)
		if err != nil {
			return err
		}
		if pi < 2 {
			res.Sample(map[string]interface{}{"program": src, "occurrences": len(occs)})
		}
		for _, o := range occs {
			lib.Breadcrumb(fmt.Sprintf("textDocument/references at line %d character %d (0-based) of main.lua:\n%s", o.sl-1, o.sc, src))
			locs, err := sess.References("main.lua", o.sl-1, o.sc, true)
			caseText := fmt.Sprintf("references at %d:%d (%s) in\n%s", o.sl-1, o.sc, o.name, src)
			if err != nil {
				res.AddViolation("crash-or-timeout", err.Error(), caseText, false)
				continue
			}
			var impl []string
			for _, l := range locs {
				impl = append(impl, locOfRange(l.Range))
			}
			sort.Strings(impl)
			// model: resolve the query position-based (Ms), then collect by traversal binding
			target := o.ms
			if target == "-" {
				target = "G"
			}
			model := refsBy(occs, o.name, target, func(x scopeOcc) string { return x.t })
			undefinedGlobal := false
			if target == "G" {
				// a global is only known to the server if some file assigns it (or defines it as a function)
				defined := false
				for _, x := range occs {
					if x.name == o.name && x.t == "G" && x.kind == "W" {
						defined = true
					}
				}
				if !defined {
					model = nil
					undefinedGlobal = true
				}
				nw := 0
				for _, x := range occs {
					if x.name == o.name && x.t == "G" && x.kind == "W" {
						nw++
					}
				}
				if nw > 1 {
					// several assignment sites: which one is "the" definition depends on the rank rule of the third pass
					// (function level, scope level, line; C09's subject) and is not in the reference model — the answer is
					// compared with Lua's binding directly: every occurrence of the global
					spec := refsBy(occs, o.name, o.s, func(x scopeOcc) string { return x.s })
					res.Count(fmt.Sprintf("%d/%d:%d", pi, o.sl, o.sc), false)
					if is, ss := strings.Join(impl, " "), strings.Join(spec, " "); is == ss {
						res.Dist("global.multi-def.exact")
					} else {
						res.HitKnown("C06-K4", "find-references on a global with several assignment sites: an assignment the rank rule does not count as the definition (e.g. the first one, inside a function, before a later top-level one) is missing from the answer", fmt.Sprintf("references answer [%s] but the occurrences of the global are [%s]\n%s", is, ss, caseText))
						res.Dist("hit.C06-K4")
					}
					continue
				}
			}
			spec := refsBy(occs, o.name, o.s, func(x scopeOcc) string { return x.s })
			res.Count(fmt.Sprintf("%d/%d:%d", pi, o.sl, o.sc), o.s != "G" && len(spec) >= 2)
			is, ms, ss := strings.Join(impl, " "), strings.Join(model, " "), strings.Join(spec, " ")
			if is != ms {
				failing := is != ss
				res.AddViolation("impl-vs-model", fmt.Sprintf("references answer [%s], the model predicts [%s], Lua scoping says [%s]", is, ms, ss), caseText, !failing)
				continue
			}
			if ms != ss {
				switch {
				case undefinedGlobal && o.s == "G":
					res.HitKnown("C06-K3", "find-references on a global that no file assigns (only read, e.g. a misspelt or external name) returns nothing instead of its occurrences", caseText)
					res.Dist("hit.C06-K3")
				default:
					res.AddViolation("impl-vs-spec", fmt.Sprintf("references answer [%s] but the occurrences Lua binds to the same declaration are [%s] (no finding class applies)", is, ss), caseText, false)
				}
			}
		}
		sess.Close()
	}
	if err := c06Globals(res, tier, root); err != nil {
		return err
	}
	return nil
}

// second family: a global defined at the top of one file and re-assigned later (inside functions,
// do-blocks, at top level) and read in that file and in another one: the references of ANY of its
// occurrences are ALL of its occurrences (the definition dominates, see C09)
func c06Globals(res *lib.Result, tier string, root *lib.Rng) error {
	n := 25
	if tier == "thorough" {
		n = 1200
	}
	for wi := 0; wi < n; wi++ {
		r := root.Fork(uint64(6000000 + wi))
		files, ng := genGlobalWorld(r)
		dir := lib.ScratchDir(fmt.Sprintf("c06g%d", wi))
		if err := lib.WriteWorkspace(dir, files); err != nil {
			return err
		}
		sess, err := lib.StartSession(dir, lib.AllChecksOptions())
		if err != nil {
			os.RemoveAll(dir)
			return err
		}
		sess.DidOpen("a.lua", files["a.lua"])
		sess.DidOpen("b.lua", files["b.lua"])
		sess.Sync()
		all := append(identTokens("a.lua", files["a.lua"]), identTokens("b.lua", files["b.lua"])...)
		world := "-- a.lua\n" + files["a.lua"] + "-- b.lua\n" + files["b.lua"]
		for g := 0; g < ng; g++ {
			name := fmt.Sprintf("gv%d", g)
			var want []string
			for _, p := range all {
				if p.name == name {
					want = append(want, fmt.Sprintf("%s:%d:%d", p.file, p.line, p.col))
				}
			}
			sort.Strings(want)
			for _, p := range all {
				if p.name != name {
					continue
				}
				caseText := fmt.Sprintf("references at %s %d:%d (%s) in\n%s", p.file, p.line, p.col, name, world)
				lib.Breadcrumb("C06 " + caseText)
				locs, err := sess.References(p.file, p.line, p.col, true)
				if err != nil {
					res.AddViolation("crash-or-timeout", err.Error(), caseText, false)
					continue
				}
				var got []string
				for _, l := range locs {
					got = append(got, fmt.Sprintf("%s:%d:%d", sess.Rel(l.URI), l.Range.Start.Line, l.Range.Start.Character))
				}
				sort.Strings(got)
				res.Count(fmt.Sprintf("g%d/%s/%s:%d:%d", wi, name, p.file, p.line, p.col), len(want) >= 3)
				res.Dist("global-family")
				if strings.Join(got, " ") != strings.Join(want, " ") {
					res.AddViolation("impl-vs-spec", fmt.Sprintf("references of the global %s: [%s], its occurrences are [%s]", name, strings.Join(got, " "), strings.Join(want, " ")), caseText, false)
				}
			}
		}
		sess.Close()
		os.RemoveAll(dir)
	}
	// a module file that defines a global named after the module, a file that requires the module and uses the
	// global, a file that uses it without requiring: the name in the requiring file is the global, not "the module"
	nMod := 3
	if tier == "thorough" {
		nMod = 60
	}
	for wi := 0; wi < nMod; wi++ {
		m := []string{"utils", "helper", "netmod"}[wi%3]
		pad := strings.Repeat("\n", wi/3%3)
		files := map[string]string{
			m + ".lua":  fmt.Sprintf("%s = {}\nfunction %s.add(a, b) return a + b end\n", m, m),
			"main.lua":  fmt.Sprintf("%srequire(\"%s\")\nprint(%s.add(1, 2))\nlocal u = %s\nprint(u)\n", pad, m, m, m),
			"other.lua": fmt.Sprintf("print(%s)\n", m),
		}
		np := len(pad)
		want := []string{fmt.Sprintf("%s.lua:0:0", m), fmt.Sprintf("%s.lua:1:9", m), fmt.Sprintf("main.lua:%d:6", np+1), fmt.Sprintf("main.lua:%d:10", np+2), "other.lua:0:6"}
		sort.Strings(want)
		dir := lib.ScratchDir(fmt.Sprintf("c06m%d", wi))
		if err := lib.WriteWorkspace(dir, files); err != nil {
			return err
		}
		sess, err := lib.StartSession(dir, lib.AllChecksOptions())
		if err != nil {
			os.RemoveAll(dir)
			return err
		}
		for f, t := range files {
			sess.DidOpen(f, t)
		}
		sess.Sync()
		world := fmt.Sprintf("-- %s.lua\n%s-- main.lua\n%s-- other.lua\n%s", m, files[m+".lua"], files["main.lua"], files["other.lua"])
		for _, w := range want {
			var f string
			var ln, col int
			k := strings.LastIndex(w[:strings.LastIndex(w, ":")], ":")
			f = w[:k]
			fmt.Sscanf(w[k+1:], "%d:%d", &ln, &col)
			caseText := fmt.Sprintf("references at %s %d:%d (%s) in\n%s", f, ln, col, m, world)
			lib.Breadcrumb("C06 " + caseText)
			locs, err := sess.References(f, ln, col, true)
			if err != nil {
				res.AddViolation("crash-or-timeout", err.Error(), caseText, false)
				continue
			}
			var got []string
			for _, l := range locs {
				got = append(got, fmt.Sprintf("%s:%d:%d", sess.Rel(l.URI), l.Range.Start.Line, l.Range.Start.Character))
			}
			sort.Strings(got)
			res.Count(fmt.Sprintf("mod%d/%s", wi, w), true)
			res.Dist("module-named-global")
			if strings.Join(got, " ") != strings.Join(want, " ") {
				res.AddViolation("impl-vs-spec", fmt.Sprintf("references of the global %s: [%s], its occurrences are [%s]", m, strings.Join(got, " "), strings.Join(want, " ")), caseText, false)
			}
		}
		sess.Close()
		os.RemoveAll(dir)
	}
	// more files than the reference search has workers (NumCPU+2): every file's occurrence must be found once
	nBig := 2
	if tier == "thorough" {
		nBig = 20
	}
	for wi := 0; wi < nBig; wi++ {
		nf := runtime.NumCPU() + 6 + wi
		files := map[string]string{"a00.lua": "SharedG = 1\n"}
		var want []string
		want = append(want, "a00.lua:0:0")
		for k := 1; k <= nf; k++ {
			f := fmt.Sprintf("u%02d.lua", k)
			files[f] = strings.Repeat("\n", k%3) + "print(SharedG)\n"
			want = append(want, fmt.Sprintf("%s:%d:6", f, k%3))
		}
		sort.Strings(want)
		dir := lib.ScratchDir(fmt.Sprintf("c06b%d", wi))
		if err := lib.WriteWorkspace(dir, files); err != nil {
			return err
		}
		sess, err := lib.StartSession(dir, lib.AllChecksOptions())
		if err != nil {
			os.RemoveAll(dir)
			return err
		}
		sess.DidOpen("a00.lua", files["a00.lua"])
		sess.Sync()
		for rep := 0; rep < 3; rep++ {
			caseText := fmt.Sprintf("references of SharedG at a00.lua 0:0 in a workspace of %d files (a00.lua: 'SharedG = 1', uNN.lua: 'print(SharedG)')", nf+1)
			lib.Breadcrumb("C06 " + caseText)
			locs, err := sess.References("a00.lua", 0, 0, true)
			if err != nil {
				res.AddViolation("crash-or-timeout", err.Error(), caseText, false)
				break
			}
			var got []string
			for _, l := range locs {
				got = append(got, fmt.Sprintf("%s:%d:%d", sess.Rel(l.URI), l.Range.Start.Line, l.Range.Start.Character))
			}
			sort.Strings(got)
			res.Count(fmt.Sprintf("big%d/%d", wi, rep), true)
			res.Dist("many-files")
			if strings.Join(got, " ") != strings.Join(want, " ") {
				res.AddViolation("impl-vs-spec", fmt.Sprintf("references of a global used in %d files: got %d locations [%s]", nf, len(got), lib.Trunc(strings.Join(got, " "), 600)), caseText, false)
				break
			}
		}
		sess.Close()
		os.RemoveAll(dir)
	}
	// module twins: two files with the same layout, each returning its own local table M (the search for a
	// returned local spans the workspace): the references of M in one file must not list the other file's M
	nTw := 6
	if tier == "thorough" {
		nTw = 200
	}
	for wi := 0; wi < nTw; wi++ {
		r := root.Fork(uint64(6500000 + wi))
		body := []string{"local M = {}"}
		for k := 0; k < 1+r.Intn(3); k++ {
			switch r.Intn(3) {
			case 0:
				body = append(body, fmt.Sprintf("M.v%d = %d", k, k))
			case 1:
				body = append(body, fmt.Sprintf("function M.f%d(a)", k), "  return M, a", "end")
			default:
				body = append(body, fmt.Sprintf("function M:g%d()", k), "  return M", "end")
			}
		}
		body = append(body, "return M")
		text := strings.Join(body, "\n") + "\n"
		files := map[string]string{"moda.lua": text, "modb.lua": text, "user.lua": "local a = require(\"moda\")\nlocal b = require(\"modb\")\nprint(a, b)\n"}
		dir := lib.ScratchDir(fmt.Sprintf("c06t%d", wi))
		if err := lib.WriteWorkspace(dir, files); err != nil {
			return err
		}
		sess, err := lib.StartSession(dir, lib.AllChecksOptions())
		if err != nil {
			os.RemoveAll(dir)
			return err
		}
		for _, f := range []string{"moda.lua", "modb.lua"} {
			sess.DidOpen(f, files[f])
		}
		sess.Sync()
		for _, f := range []string{"moda.lua", "modb.lua"} {
			var want []string
			toks := identTokens(f, files[f])
			for _, p := range toks {
				if p.name == "M" {
					want = append(want, fmt.Sprintf("%s:%d:%d", p.file, p.line, p.col))
				}
			}
			sort.Strings(want)
			for _, p := range toks {
				if p.name != "M" {
					continue
				}
				caseText := fmt.Sprintf("references at %s %d:%d (M) in two files with this text:\n%s", p.file, p.line, p.col, text)
				lib.Breadcrumb("C06 " + caseText)
				locs, err := sess.References(p.file, p.line, p.col, true)
				if err != nil {
					res.AddViolation("crash-or-timeout", err.Error(), caseText, false)
					continue
				}
				var got []string
				for _, l := range locs {
					if sess.Rel(l.URI) == "user.lua" {
						continue // the requiring file's alias of the module may be listed
					}
					got = append(got, fmt.Sprintf("%s:%d:%d", sess.Rel(l.URI), l.Range.Start.Line, l.Range.Start.Character))
				}
				sort.Strings(got)
				res.Count(fmt.Sprintf("tw%d/%s:%d:%d", wi, p.file, p.line, p.col), true)
				res.Dist("module-twins")
				if strings.Join(got, " ") != strings.Join(want, " ") {
					res.AddViolation("impl-vs-spec", fmt.Sprintf("references of the module table M of %s: [%s], its occurrences are [%s]", f, strings.Join(got, " "), strings.Join(want, " ")), caseText, false)
				}
			}
		}
		sess.Close()
		os.RemoveAll(dir)
	}
	return nil
}

// genGlobalWorld: a.lua defines 1-3 globals at its top, re-assigns and reads them later (functions,
// do-blocks, top level); b.lua reads them
func genGlobalWorld(r *lib.Rng) (map[string]string, int) {
	ng := 1 + r.Intn(3)
	var a, b []string
	for g := 0; g < ng; g++ {
		a = append(a, fmt.Sprintf("gv%d = %d", g, g))
	}
	a = append(a, "local total = 0")
	for k := 0; k < 3+r.Intn(5); k++ {
		g := r.Intn(ng)
		switch r.Intn(6) {
		case 0:
			a = append(a, fmt.Sprintf("function bump%d()", k), fmt.Sprintf("  gv%d = gv%d + 1", g, g), "  total = total + 1", "end")
		case 1:
			a = append(a, "do", fmt.Sprintf("  gv%d = total", g), "end")
		case 2:
			a = append(a, fmt.Sprintf("gv%d = %d", g, 10+k))
		case 3:
			a = append(a, fmt.Sprintf("print(gv%d, total)", g))
		case 4:
			a = append(a, fmt.Sprintf("local function w%d(p)", k), fmt.Sprintf("  if p then gv%d = p end", g), fmt.Sprintf("  return gv%d", g), "end")
		default:
			a = append(a, fmt.Sprintf("total = total + gv%d", g))
		}
	}
	// the first lines of b.lua use the globals at the very line and column at which a.lua defines them
	sameSpot := r.Chance(1, 2)
	for g := 0; g < ng; g++ {
		if sameSpot {
			b = append(b, fmt.Sprintf("gv%d()", g))
		} else if r.Chance(2, 3) {
			b = append(b, fmt.Sprintf("print(gv%d)", g))
		}
	}
	b = append(b, "print(1)")
	return map[string]string{"a.lua": strings.Join(a, "\n") + "\n", "b.lua": strings.Join(b, "\n") + "\n"}, ng
}

// traversalDiffers: some occurrence of that name is bound differently by LuaHelper's traversal and by Lua
func traversalDiffers(occs []scopeOcc, name string) bool {
	for _, x := range occs {
		if x.name == name && x.t != x.s {
			return true
		}
	}
	return false
}
